(* Proofs about Model/InvCutModel.v (C10: a target transaction of invariant testing that was stopped by an
   internal error is reported, whatever else is true of its result state). *)
From Coq Require Import ZArith List Bool Lia.
From HV Require Import Gen.GenPanic Gen.GenRunTest Gen.GenFrontierCls Spec.PanicSpec Model.RunnerModel Model.InvCutModel.
Import ListNotations.
Open Scope Z_scope.

(* ------------------------------------------------------------------ the regenerated decision tree *)

(* a stuck state is reported by an ERROR line and never joins the frontier -- for EVERY combination of the
   other observations (in particular has_error = true: the internal error was raised in the target's own frame) *)
Lemma step_stuck : forall he p fs pr v,
  has_eff (frontier_step true he p fs pr v) FE_ERROR = true /\
  has_eff (frontier_step true he p fs pr v) FE_NEXT = false /\
  has_eff (frontier_step true he p fs pr v) FE_RAISE = false.
Proof. intros he p fs pr v; destruct he, p, fs, pr, v; vm_compute; repeat split; reflexivity. Qed.

Lemma step_next : forall st he p fs pr v,
  has_eff (frontier_step st he p fs pr v) FE_NEXT = true -> st = false /\ he = false /\ v = false.
Proof. intros st he p fs pr v; destruct st, he, p, fs, pr, v; vm_compute; intro H; try discriminate H; repeat split; reflexivity. Qed.

Lemma step_silent : forall st he p fs pr v,
  frontier_step st he p fs pr v = 0 ->
  st = false /\
  ((he = true /\ ((p = PFalse /\ fs = false) \/ (p <> PRaise /\ pr = true))) \/ (he = false /\ v = true)).
Proof.
  intros st he p fs pr v; destruct st, he, p, fs, pr, v; vm_compute; intro H; try discriminate H;
    (split; [reflexivity|]);
    first [ left; split; [reflexivity|]; first [ left; split; reflexivity | right; split; [discriminate | reflexivity] ]
          | right; split; reflexivity ].
Qed.

Lemma step_probe : forall st he p fs pr v,
  has_eff (frontier_step st he p fs pr v) FE_PROBE = true ->
  st = false /\ he = true /\ pr = false /\ (p = PTrue \/ fs = true).
Proof.
  intros st he p fs pr v; destruct st, he, p, fs, pr, v; vm_compute; intro H; try discriminate H;
    repeat split; first [ left; reflexivity | right; reflexivity ].
Qed.

(* ------------------------------------------------------------------ one result state *)

Section InvCutProofs.
  Variable Q : Type.

  (* SPEC: the call did not complete -- it ended in a halmos-internal error of its own frame (EHalmos, no EVM
     counterpart) or it has no output at all (the internal error happened further down the call tree) *)
  Definition cut (l : leaf Q) : Prop := root_err (l_ctx l) = EHalmos \/ l_data l = None.

  Lemma cut_is_stuck : forall l, cut l <-> is_stuck Q l = true.
  Proof.
    intro l; unfold cut, is_stuck, l_err; split.
    - intros [H | H]; rewrite H; [destruct (l_data l)|]; reflexivity.
    - destruct (l_data l); [|auto]. destruct (root_err (l_ctx l)); intro H; try discriminate H. left; reflexivity.
  Qed.

  Lemma step_effects_cut : forall codes s,
    cut (ts_leaf s) ->
    has_eff (step_effects Q codes s) FE_ERROR = true /\
    has_eff (step_effects Q codes s) FE_NEXT = false /\
    has_eff (step_effects Q codes s) FE_RAISE = false.
  Proof.
    intros codes s H. apply cut_is_stuck in H. unfold step_effects. rewrite H. apply step_stuck.
  Qed.

  Lemma step_effects_next : forall codes s,
    has_eff (step_effects Q codes s) FE_NEXT = true ->
    ~ cut (ts_leaf s) /\ root_err (l_ctx (ts_leaf s)) = ENone /\ ts_visited s = false.
  Proof.
    intros codes s H. unfold step_effects in H. apply step_next in H. destruct H as (Hs & He & Hv).
    split; [|split; [|exact Hv]].
    - intro C. apply cut_is_stuck in C. rewrite C in Hs. discriminate Hs.
    - unfold has_error, l_err in He. destruct (root_err (l_ctx (ts_leaf s))); try discriminate He. reflexivity.
  Qed.

  Lemma step_effects_silent : forall codes s,
    step_effects Q codes s = 0 ->
    ~ cut (ts_leaf s) /\
    ((has_error Q (ts_leaf s) = true /\
      ((is_panic_of (l_err Q (ts_leaf s)) (l_data (ts_leaf s)) codes = TFalse /\ global_fail (l_ctx (ts_leaf s)) = false)
       \/ ts_probe_reported s = true))
     \/ (has_error Q (ts_leaf s) = false /\ ts_visited s = true)).
  Proof.
    intros codes s H. unfold step_effects in H. apply step_silent in H. destruct H as (Hs & H).
    split.
    - intro C. apply cut_is_stuck in C. rewrite C in Hs. discriminate Hs.
    - destruct H as [(He & [(Hp & Hf) | (_ & Hr)]) | (He & Hv)].
      + left. split; [exact He|]. left. split; [|exact Hf].
        destruct (is_panic_of (l_err Q (ts_leaf s)) (l_data (ts_leaf s)) codes); try discriminate Hp. reflexivity.
      + left. split; [exact He|]. right. exact Hr.
      + right. split; assumption.
  Qed.

  (* ---------------------------------------------------------------- the loop over all result states *)

  Lemma In_add_if : forall b i l x, In x l -> In x (add_if b i l).
  Proof. intros b i l x H. unfold add_if. destruct b; [apply in_or_app; left|]; exact H. Qed.

  Lemma In_add_if_here : forall i l, In i (add_if true i l).
  Proof. intros. unfold add_if. apply in_or_app. right. left. reflexivity. Qed.

  Lemma In_add_if_inv : forall b i l x, In x (add_if b i l) -> In x l \/ (b = true /\ x = i).
  Proof.
    intros b i l x H. unfold add_if in H. destruct b; [|left; exact H].
    apply in_app_or in H. destruct H as [H | [H | []]]; [left; exact H | right; split; [reflexivity | symmetry; exact H]].
  Qed.

  Lemma loop_errors_mono : forall codes ss i r x,
    In x (f_errors r) -> In x (f_errors (frontier_loop Q codes i ss r)).
  Proof.
    intros codes ss. induction ss as [|s rest IH]; intros i r x H; cbn [frontier_loop]; [exact H|].
    destruct (has_eff (step_effects Q codes s) FE_RAISE).
    - cbn [f_errors]. apply In_add_if. exact H.
    - apply IH. cbn [f_errors]. apply In_add_if. exact H.
  Qed.

  Lemma loop_raised_keep : forall codes ss i r j,
    f_raised r = Some j -> f_raised (frontier_loop Q codes i ss r) <> None.
  Proof.
    intros codes ss. induction ss as [|s rest IH]; intros i r j H; cbn [frontier_loop].
    - rewrite H. discriminate.
    - destruct (has_eff (step_effects Q codes s) FE_RAISE); cbn [f_raised]; [discriminate|].
      eapply IH. cbn [f_raised]. exact H.
  Qed.

  (* every result state that was cut by an internal error is reported by an ERROR line, unless an exception
     raised on an EARLIER state ended the whole computation (then the run has no PASS at all) *)
  Lemma loop_cut_reported : forall codes ss i r k s,
    nth_error ss k = Some s -> cut (ts_leaf s) ->
    In (i + k)%nat (f_errors (frontier_loop Q codes i ss r)) \/
    (exists j, f_raised (frontier_loop Q codes i ss r) = Some j /\ (j < i + k)%nat) \/
    f_raised r <> None.
  Proof.
    intros codes ss. induction ss as [|s0 rest IH]; intros i r k s Hn Hc.
    - destruct k; discriminate Hn.
    - cbn [frontier_loop]. destruct k as [|k].
      + cbn in Hn. injection Hn as ->. destruct (step_effects_cut codes s Hc) as (He & _ & Hr).
        rewrite Hr. left. apply loop_errors_mono. cbn [f_errors]. rewrite He. replace (i + 0)%nat with i by lia.
        apply In_add_if_here.
      + cbn in Hn. destruct (has_eff (step_effects Q codes s0) FE_RAISE) eqn:Hr.
        * right. left. exists i. cbn [f_raised]. split; [reflexivity | lia].
        * specialize (IH (S i) (mkFres (add_if (has_eff (step_effects Q codes s0) FE_ERROR) i (f_errors r))
                                      (add_if (has_eff (step_effects Q codes s0) FE_PROBE) i (f_probes r))
                                      (add_if (has_eff (step_effects Q codes s0) FE_NEXT) i (f_next r))
                                      (f_raised r)) k s Hn Hc).
          replace (i + S k)%nat with (S i + k)%nat by lia.
          destruct IH as [IH | [IH | IH]]; [left; exact IH | right; left; exact IH | right; right; exact IH].
  Qed.

  Theorem frontier_cut_reported : forall codes ss k s,
    nth_error ss k = Some s -> cut (ts_leaf s) ->
    In k (f_errors (frontier_run Q codes ss)) \/
    (exists j, f_raised (frontier_run Q codes ss) = Some j /\ (j < k)%nat).
  Proof.
    intros codes ss k s Hn Hc. unfold frontier_run.
    destruct (loop_cut_reported codes ss 0%nat fres0 k s Hn Hc) as [H | [H | H]].
    - left. exact H.
    - right. exact H.
    - exfalso. apply H. reflexivity.
  Qed.

  (* the states that join a frontier (on which the invariant is evaluated and from which deeper transactions
     start) are states of calls that completed without error *)
  Lemma loop_next_complete : forall codes ss i r x,
    In x (f_next (frontier_loop Q codes i ss r)) ->
    In x (f_next r) \/
    exists k s, x = (i + k)%nat /\ nth_error ss k = Some s /\ ~ cut (ts_leaf s) /\ root_err (l_ctx (ts_leaf s)) = ENone.
  Proof.
    intros codes ss. induction ss as [|s0 rest IH]; intros i r x H; cbn [frontier_loop] in H; [left; exact H|].
    assert (Hstep : In x (add_if (has_eff (step_effects Q codes s0) FE_NEXT) i (f_next r)) ->
                    In x (f_next r) \/ exists k s, x = (i + k)%nat /\ nth_error (s0 :: rest) k = Some s /\ ~ cut (ts_leaf s) /\ root_err (l_ctx (ts_leaf s)) = ENone).
    { intro Hx. apply In_add_if_inv in Hx. destruct Hx as [Hx | (Hb & ->)]; [left; exact Hx|].
      right. exists 0%nat, s0. destruct (step_effects_next codes s0 Hb) as (Hc & He & _).
      repeat split; [lia | exact Hc | exact He]. }
    destruct (has_eff (step_effects Q codes s0) FE_RAISE).
    - cbn [f_next] in H. apply Hstep. exact H.
    - apply IH in H. cbn [f_next] in H. destruct H as [H | (k & s & -> & Hn & Hc & He)].
      + apply Hstep. exact H.
      + right. exists (S k), s. repeat split; [lia | exact Hn | exact Hc | exact He].
  Qed.

  Theorem frontier_next_complete : forall codes ss x,
    In x (f_next (frontier_run Q codes ss)) ->
    exists s, nth_error ss x = Some s /\ ~ cut (ts_leaf s) /\ root_err (l_ctx (ts_leaf s)) = ENone.
  Proof.
    intros codes ss x H. unfold frontier_run in H. apply loop_next_complete in H.
    destruct H as [[] | (k & s & -> & Hn & Hc & He)]. exists s. repeat split; assumption.
  Qed.

  (* a clean PASS of an invariant test: no target transaction of any depth was cut by an internal error *)
  Theorem inv_clean_pass_no_cut : forall codes ss rep,
    inv_clean_pass (frontier_run Q codes ss) rep = true ->
    forall s, In s ss -> ~ cut (ts_leaf s).
  Proof.
    intros codes ss rep H s Hin Hc. unfold inv_clean_pass in H.
    apply andb_prop in H. destruct H as (H & _). apply andb_prop in H. destruct H as (H & _).
    apply andb_prop in H. destruct H as (Hr & He).
    apply In_nth_error in Hin. destruct Hin as (k & Hn).
    destruct (frontier_cut_reported codes ss k s Hn Hc) as [Hi | (j & Hj & _)].
    - destruct (f_errors (frontier_run Q codes ss)); [destruct Hi | discriminate He].
    - rewrite Hj in Hr. discriminate Hr.
  Qed.
End InvCutProofs.

(* run_test (regular tests and the invariant transaction itself): the regenerated classification chain never puts a
   stuck path among the normal / ignored ones, whatever the other observations are (it is an assertion candidate,
   answered by the assertion solver, or a stuck candidate, confirmed by the solver) *)
Lemma classify_stuck_never_dropped : forall pf fs he,
  classify pf fs true he = CL_POTENTIAL \/ classify pf fs true he = CL_STUCK.
Proof. intros pf fs he; destruct pf, fs, he; vm_compute; auto. Qed.

(* setup(): a stuck path is never a post-setUp state, whether or not it has an error of its own *)
Lemma setup_stuck_never_ok : forall he, setup_path_ok he true = false.
Proof. intros he; destruct he; vm_compute; reflexivity. Qed.
