(* Proofs about Model/ReportModel.v (over the regenerated Gen/GenCutWarn.v and Gen/GenLogFilter.v). *)
From Coq Require Import ZArith List Bool Lia.
From HV Require Import Gen.GenCutWarn Gen.GenLogFilter Gen.GenRunTest Spec.PanicSpec Model.RunnerModel Model.ReportModel Proofs.RunnerProofs.
Import ListNotations.
Open Scope Z_scope.

Lemma msg_eqb_eq : forall a b, msg_eqb a b = true <-> a = b.
Proof.
  induction a as [|x a IH]; intros [|y b]; cbn [msg_eqb]; split; intros H; try discriminate; auto.
  - apply andb_true_iff in H. destruct H as [H1 H2]. apply Z.eqb_eq in H1. apply IH in H2. congruence.
  - inversion H; subst. rewrite Z.eqb_refl. apply IH. reflexivity.
Qed.

Lemma existsb_msg_In : forall m records, existsb (msg_eqb m) records = true <-> In m records.
Proof.
  intros m records. rewrite existsb_exists. split.
  - intros [x [Hin He]]. apply msg_eqb_eq in He. subst. exact Hin.
  - intros H. exists m. split; [exact H | apply msg_eqb_eq; reflexivity].
Qed.

(* the guard of the cut: --depth 0 is unlimited, otherwise a state is abandoned when the step counter of the
   run has passed the limit *)
Lemma depth_cut_spec : forall max_depth step_id,
  depth_cut max_depth step_id = true <-> (max_depth <> 0 /\ step_id > max_depth).
Proof.
  intros. unfold depth_cut. rewrite andb_true_iff, negb_true_iff, Z.eqb_neq, Z.gtb_lt. lia.
Qed.

(* warn(text, allow_duplicate) *)
Lemma emit_spec : forall ad records m,
  emit ad records m =
    if ad then (true, records)
    else if existsb (msg_eqb m) records then (false, records) else (true, m :: records).
Proof. intros ad records m. unfold emit, route, unique_filter. destruct ad; reflexivity. Qed.

(* one run: the warning is printed iff some state was abandoned and (the logger does not de-duplicate or
   the text has not been printed before in this process); the filter only ever learns this text *)
Lemma warn_n_spec : forall n m records,
  (fst (warn_n n m records) = true <-> (n <> O /\ (depth_warn_dedup = false \/ ~ In m records))) /\
  (forall x, In x (snd (warn_n n m records)) -> In x records \/ x = m) /\
  (forall x, In x records -> In x (snd (warn_n n m records))).
Proof.
  induction n as [|n IH]; intros m records.
  - cbn [warn_n fst snd]. split; [split; [discriminate | intros [H _]; congruence]|]. split; auto.
  - cbn [warn_n]. rewrite emit_spec.
    destruct depth_warn_dedup eqn:D; cbn [negb].
    + destruct (existsb (msg_eqb m) records) eqn:E.
      * apply existsb_msg_In in E.
        destruct (IH m records) as [I1 [I2 I3]].
        destruct (warn_n n m records) as [e' r2] eqn:W. cbn [fst snd orb] in *.
        split; [|split; assumption].
        split.
        { intros He. apply I1 in He. destruct He as [_ [He|He]]; [discriminate | contradiction]. }
        { intros [_ [H|H]]; [discriminate | contradiction]. }
      * assert (Hn : ~ In m records) by (intros H; apply existsb_msg_In in H; congruence).
        destruct (IH m (m :: records)) as [I1 [I2 I3]].
        destruct (warn_n n m (m :: records)) as [e' r2] eqn:W. cbn [fst snd orb] in *.
        split; [split; [intros _; split; [discriminate | right; exact Hn] | reflexivity]|].
        split.
        { intros x Hx. apply I2 in Hx. destruct Hx as [[<-|Hx]|Hx]; auto. }
        { intros x Hx. apply I3. right. exact Hx. }
    + destruct (IH m records) as [I1 [I2 I3]].
      destruct (warn_n n m records) as [e' r2] eqn:W. cbn [fst snd orb] in *.
      split; [split; [intros _; split; [discriminate | left; reflexivity] | reflexivity]|].
      split; assumption.
Qed.

(* the text of the warning identifies the test within the whole run: it contains the contract name and the full
   signature (breaks if the text is built from anything coarser, e.g. the signature alone or the bare name) *)
Definition test_id (f : fun_info) : Z * Z := (fi_contract f, fi_sig f).

Lemma depth_msg_inj : forall f1 f2 d, depth_msg f1 d = depth_msg f2 d -> test_id f1 = test_id f2.
Proof.
  intros f1 f2 d H. unfold depth_msg, depth_warn_key in H. cbn [map field_value app] in H.
  unfold test_id. inversion H. reflexivity.
Qed.

(* MAIN (full strength): for every sequence of test executions of one halmos process with pairwise distinct
   (contract, signature) -- overloads, the same signature in several contracts --, every --depth limit, every
   number of abandoned states and every initial state of the filter that has not seen their texts, each test's
   run prints the warning exactly when one of its states was abandoned *)
Theorem depth_cut_reported : forall d runs records,
  NoDup (map (fun t => test_id (tr_fun t)) runs) ->
  (forall t, In t runs -> ~ In (depth_msg (tr_fun t) d) records) ->
  session d runs records = map was_cut runs.
Proof.
  intros d runs. induction runs as [|t rest IH]; intros records Hnd Hfresh; [reflexivity|].
  cbn [session map]. cbn [map] in Hnd. inversion Hnd as [|? ? Hnotin Hnd']; subst.
  destruct (warn_n_spec (tr_cuts t) (depth_msg (tr_fun t) d) records) as [W1 [W2 _]].
  destruct (warn_n (tr_cuts t) (depth_msg (tr_fun t) d) records) as [e r] eqn:W. cbn [fst snd] in *.
  f_equal.
  - unfold was_cut. destruct (tr_cuts t) as [|k] eqn:K; cbn [Nat.eqb negb].
    + destruct e; [|reflexivity]. destruct (proj1 W1 eq_refl) as [H _]. congruence.
    + apply W1. split; [discriminate|]. right. apply Hfresh. left. reflexivity.
  - apply IH; [exact Hnd'|].
    intros t' Hin Hr. apply W2 in Hr. destruct Hr as [Hr|Hr].
    + apply (Hfresh t'); [right; exact Hin | exact Hr].
    + apply depth_msg_inj in Hr. apply Hnotin. rewrite <- Hr.
      apply (in_map (fun t0 => test_id (tr_fun t0))). exact Hin.
Qed.

(* ------------------------------------------------------------------ one SEVM, several transactions *)

Lemma fold_or_acc : forall states acc,
  fold_left (fun a b : bool => a || b) states acc = acc || existsb (fun b => b) states.
Proof.
  induction states as [|b r IH]; intros acc; cbn [fold_left existsb]; [rewrite orb_false_r; reflexivity|].
  rewrite IH. rewrite orb_assoc. reflexivity.
Qed.

(* the bounded-loop log read after the last transaction is non-empty iff SOME transaction cut a loop *)
Theorem sevm_logs_accumulate : forall states, sevm_logs_after states = true <-> In true states.
Proof.
  intros states. unfold sevm_logs_after, run_message_resets_logs. rewrite fold_or_acc. cbn [orb].
  rewrite existsb_exists. split.
  - intros [b [Hin Hb]]. subst b. exact Hin.
  - intros H. exists true. split; [exact H | reflexivity].
Qed.

(* invariant mode, every transaction of the run: setUp, the target transactions (private SEVMs) and the invariant
   transaction executed on EVERY frontier state by one SEVM *)
Theorem invariant_run_loop_bound_warned : forall s targets states,
  loop_bound_warned (mkInvRun s targets (sevm_logs_after states)) = true <->
  (s = true \/ In true targets \/ In true states).
Proof.
  intros s targets states. rewrite loop_bound_warned_iff. cbn [iv_setup iv_targets iv_test].
  rewrite sevm_logs_accumulate. tauto.
Qed.

(* an opcode without a handler stops the path as a STUCK path (a HalmosException), not as an ordinary exceptional halt *)
Theorem unsupported_opcode_stuck :
  unsupported_opcode_is_halmos_exception = true /\
  forall (Q : Type) (l : leaf Q), l_err Q l = EHalmos -> is_stuck Q l = true.
Proof.
  split; [reflexivity|]. intros Q l H. unfold is_stuck. rewrite H. destruct (l_data l); reflexivity.
Qed.

