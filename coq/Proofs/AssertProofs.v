(* Proofs for C13 (assert / assume cheatcodes). *)
From Coq Require Import ZArith NArith List Bool String Ascii Lia ZifyBool.
From HV Require Import Base.Word Base.SmtBV Base.Keccak Spec.AssertSpec Model.AssertModel
  Gen.GenAssertSelectors Gen.GenAssumeSelector.
Import ListNotations.
Open Scope list_scope.
Open Scope Z_scope.
Ltac Zify.zify_post_hook ::= Z.to_euclidean_division_equations.

(* ================================================================== 1. the selector table *)
Definition handler_eqb (a b : handler) : bool :=
  match a, b with
  | HWord x l, HWord y m => String.eqb x y && Bool.eqb l m
  | HBytes x l, HBytes y m => String.eqb x y && Bool.eqb l m
  | HArr x l, HArr y m => String.eqb x y && Bool.eqb l m
  | HNotImpl x s, HNotImpl y t => String.eqb x y && String.eqb s t
  | HUnary x l, HUnary y m => Bool.eqb x y && Bool.eqb l m
  | _, _ => false
  end.

Lemma handler_eqb_eq : forall a b, handler_eqb a b = true -> a = b.
Proof.
  intros [x l|x l|x l|x s|x l] [y m|y m|y m|y t|y m]; cbn; try discriminate; intros H;
    apply andb_true_iff in H; destruct H as [H1 H2];
    repeat match goal with
    | H : String.eqb _ _ = true |- _ => apply String.eqb_eq in H
    | H : Bool.eqb _ _ = true |- _ => apply Bool.eqb_prop in H
    end; subst; reflexivity.
Qed.

Definition entry_ok (e : N * string) : bool :=
  N.eqb (fst e) (selector_of_sig (snd e)) &&
  match descr_of_sig (snd e) with
  | Some d =>
      match mk_assert_handler (snd e) with
      | Some h => handler_eqb h (expected_handler d)
      | None => false
      end
  | None => false
  end.

Lemma table_entries_ok : forallb entry_ok assert_table = true.
Proof. vm_compute. reflexivity. Qed.

Lemma descr_of_sig_some : forall s d, descr_of_sig s = Some d -> In d all_descrs /\ render d = s.
Proof.
  unfold descr_of_sig. intros s d H. apply find_some in H. destruct H as [H1 H2].
  apply String.eqb_eq in H2. auto.
Qed.

Lemma selectors_bound :
  forall sel sig, In (sel, sig) assert_table ->
    sel = selector_of_sig sig /\
    exists d, descr_of_sig sig = Some d /\ In d all_descrs /\ render d = sig /\
              mk_assert_handler sig = Some (expected_handler d).
Proof.
  intros sel sig Hin.
  pose proof (proj1 (forallb_forall entry_ok assert_table) table_entries_ok _ Hin) as H.
  unfold entry_ok in H. cbn [fst snd] in H.
  apply andb_true_iff in H. destruct H as [H1 H2].
  apply N.eqb_eq in H1. split; [exact H1|].
  destruct (descr_of_sig sig) as [d|] eqn:Hd; [|discriminate].
  destruct (mk_assert_handler sig) as [h|] eqn:Hh; [|discriminate].
  apply handler_eqb_eq in H2. subst h.
  destruct (descr_of_sig_some _ _ Hd) as [Hi Hr].
  exists d. auto.
Qed.

(* every forge-std overload of the specification is bound in the table *)
Definition descr_bound (d : descr) : bool :=
  let sg := render d in
  let sl := selector_of_sig sg in   (* hashed once per description *)
  existsb (fun e => N.eqb (fst e) sl && String.eqb (snd e) sg) assert_table.
Lemma all_descrs_bound_b : forallb descr_bound all_descrs = true.
Proof. vm_compute. reflexivity. Qed.
Lemma all_descrs_bound :
  forall d, In d all_descrs -> In (selector_of_sig (render d), render d) assert_table.
Proof.
  intros d Hd.
  pose proof (proj1 (forallb_forall descr_bound all_descrs) all_descrs_bound_b _ Hd) as H.
  unfold descr_bound in H. apply existsb_exists in H. destruct H as [[s g] [Hin H]].
  cbn [fst snd] in H. apply andb_true_iff in H. destruct H as [H1 H2].
  apply N.eqb_eq in H1. apply String.eqb_eq in H2. subst. exact Hin.
Qed.

Fixpoint nodupb (l : list N) : bool :=
  match l with [] => true | a :: r => negb (existsb (N.eqb a) r) && nodupb r end.
Lemma nodupb_NoDup : forall l, nodupb l = true -> NoDup l.
Proof.
  induction l as [|a r IH]; cbn; intros H; constructor.
  - apply andb_true_iff in H. destruct H as [H _]. apply negb_true_iff in H.
    intros Hin. assert (existsb (N.eqb a) r = true) as E.
    { apply existsb_exists. exists a. split; [exact Hin|apply N.eqb_refl]. }
    rewrite E in H. discriminate.
  - apply IH. apply andb_true_iff in H. tauto.
Qed.
Lemma selectors_nodup : NoDup (map fst (assume_entry :: assert_table)).
Proof. apply nodupb_NoDup. vm_compute. reflexivity. Qed.

Lemma assume_entry_ok :
  fst assume_entry = selector_of_sig (snd assume_entry) /\ snd assume_entry = "assume(bool)"%string
  /\ assume_branch_key = fst assume_entry.
Proof. vm_compute. auto. Qed.

Lemma hevm_address_ok :
  hevm_address = N.modulo (keccak256_num (bytes_of_string "hevm cheat code")) (2 ^ 160).
Proof. vm_compute. reflexivity. Qed.

(* ================================================================== 2. branching *)
Section BranchingProofs.
  Variable Input : Type.
  Variable check : path Input -> cond Input -> sat_result.
  Variable lit_false : cond Input -> bool.
  (* the solver oracle is sound when it answers unsat *)
  Hypothesis check_sound :
    forall p c, check p c = Unsat -> forall i, sat_path Input p i = true -> c i = false.
  Hypothesis lit_false_sound : forall c, lit_false c = true -> forall i, c i = false.

  Lemma sat_path_app : forall p c i,
    sat_path Input (p ++ [c]) i = sat_path Input p i && c i.
  Proof.
    intros. unfold sat_path. rewrite forallb_app. cbn. rewrite andb_true_r. reflexivity.
  Qed.

  Lemma gfs_halt_fail : forall c, is_global_fail_set (halt_fail c) = true.
  Proof. intros [e subs]. reflexivity. Qed.

  Lemma is_unsat_true : forall r, is_unsat r = true -> r = Unsat.
  Proof. intros []; cbn; congruence. Qed.

  (* failures reported = prior path /\ not cond, whatever the frame stack *)
  Lemma assert_fail_exact : forall e c i,
    existsb (fun o => reported_failure Input o i) (assert_step Input check e c) = true
    <-> (sat_path Input (ex_path Input e) i = true /\ c i = false).
  Proof.
    intros e c i. unfold assert_step.
    destruct (is_unsat (check (ex_path Input e) c)) eqn:H1.
    - apply is_unsat_true in H1. cbn [existsb reported_failure]. unfold set_top, top_ctx at 1.
      cbn [ex_frames ex_path hd]. rewrite gfs_halt_fail. rewrite orb_false_r. cbn [andb].
      split.
      + intros Hs. split; [exact Hs|]. eapply check_sound; eauto.
      + tauto.
    - destruct (is_unsat (check (ex_path Input e) (cnot Input c))) eqn:H2; cbn [negb].
      + apply is_unsat_true in H2. cbn [existsb reported_failure]. split; [discriminate|].
        intros [Hs Hc]. pose proof (check_sound _ _ H2 i Hs) as Hn. unfold cnot in Hn.
        rewrite Hc in Hn. discriminate.
      + cbn [existsb reported_failure]. unfold top_ctx at 1. cbn [ex_frames ex_path hd].
        rewrite gfs_halt_fail. rewrite orb_false_r. cbn [andb]. rewrite sat_path_app.
        unfold cnot. rewrite andb_true_iff, negb_true_iff. tauto.
  Qed.

  (* no passing input is dropped by an assert: every input of the prior path satisfying the
     condition continues *)
  Lemma assert_continue_complete : forall e c i,
    sat_path Input (ex_path Input e) i = true -> c i = true ->
    existsb (fun o => continues_with Input o i) (assert_step Input check e c) = true.
  Proof.
    intros e c i Hs Hc. unfold assert_step.
    destruct (is_unsat (check (ex_path Input e) c)) eqn:H1.
    - apply is_unsat_true in H1. rewrite (check_sound _ _ H1 i Hs) in Hc. discriminate.
    - destruct (is_unsat (check (ex_path Input e) (cnot Input c))); cbn; rewrite Hs; reflexivity.
  Qed.

  (* ... and nothing outside the prior path continues; the frame stack is untouched *)
  Lemma assert_continue_sound : forall e c o,
    In o (assert_step Input check e c) -> forall e', o = Continues Input e' -> e' = e.
  Proof.
    intros e c o Hin e' ->. unfold assert_step in Hin.
    destruct (is_unsat (check (ex_path Input e) c)).
    - destruct Hin as [H|[]]. discriminate.
    - destruct (is_unsat (check (ex_path Input e) (cnot Input c))); cbn in Hin.
      + destruct Hin as [H|[]]. congruence.
      + destruct Hin as [H|[H|[]]]; congruence.
  Qed.

  (* vm.assume: continued inputs = prior /\ cond, frames untouched *)
  Lemma assume_exact : forall e c i,
    existsb (fun o => continues_with Input o i) (assume_step Input lit_false e c) = true
    <-> (sat_path Input (ex_path Input e) i = true /\ c i = true).
  Proof.
    intros e c i. unfold assume_step. destruct (lit_false c) eqn:H.
    - cbn. split; [discriminate|]. intros [_ Hc]. rewrite (lit_false_sound _ H i) in Hc. discriminate.
    - cbn [existsb continues_with ex_path]. rewrite orb_false_r, sat_path_app, andb_true_iff. tauto.
  Qed.
  Lemma assume_no_failure : forall e c i,
    existsb (fun o => reported_failure Input o i) (assume_step Input lit_false e c) = false.
  Proof. intros. unfold assume_step. destruct (lit_false c); reflexivity. Qed.
  Lemma assume_frames : forall e c o e',
    In o (assume_step Input lit_false e c) -> o = Continues Input e' -> ex_frames Input e' = ex_frames Input e.
  Proof.
    intros e c o e' Hin ->. unfold assume_step in Hin. destruct (lit_false c); [destruct Hin|].
    destruct Hin as [H|[]]. inversion H. reflexivity.
  Qed.
End BranchingProofs.

(* is_global_fail_set finds a FailCheatcode at any depth of the call tree *)
Inductive has_fail : ctx -> Prop :=
  | hf_here : forall subs, has_fail (Ctx EFailCheatcode subs)
  | hf_sub : forall e subs c, In c subs -> has_fail c -> has_fail (Ctx e subs).

Fixpoint ctx_depth (c : ctx) : nat :=
  match c with Ctx _ subs => S (fold_right (fun s m => Nat.max (ctx_depth s) m) O subs) end.

Lemma gfs_complete_depth : forall n c, (ctx_depth c <= n)%nat -> has_fail c -> is_global_fail_set c = true.
Proof.
  induction n as [|n IH]; intros [e subs] Hd Hf.
  - cbn in Hd. lia.
  - inversion Hf; subst.
    + reflexivity.
    + cbn [is_global_fail_set]. apply orb_true_iff. right.
      apply existsb_exists. exists c. split; [assumption|].
      apply IH; [|assumption].
      cbn [ctx_depth] in Hd. apply le_S_n in Hd.
      revert Hd. match goal with H : In c subs |- _ => revert H end. clear.
      induction subs as [|s r IHr]; cbn; intros Hin Hd; [tauto|].
      destruct Hin as [->|Hin]; [lia|]. apply IHr; [assumption|lia].
Qed.
Lemma gfs_complete : forall c, has_fail c -> is_global_fail_set c = true.
Proof. intros c. apply (gfs_complete_depth (ctx_depth c)). lia. Qed.

Lemma gfs_sound_depth : forall n c, (ctx_depth c <= n)%nat -> is_global_fail_set c = true -> has_fail c.
Proof.
  induction n as [|n IH]; intros [e subs] Hd Hf.
  - cbn in Hd. lia.
  - cbn [is_global_fail_set] in Hf. apply orb_true_iff in Hf. destruct Hf as [Hf|Hf].
    + destruct e; try discriminate. constructor.
    + apply existsb_exists in Hf. destruct Hf as [c [Hin Hc]].
      apply hf_sub with c; [assumption|]. apply IH; [|assumption].
      cbn [ctx_depth] in Hd. apply le_S_n in Hd.
      revert Hd Hin. clear.
      induction subs as [|s r IHr]; cbn; intros Hd Hin; [tauto|].
      destruct Hin as [->|Hin]; [lia|]. apply IHr; [lia|assumption].
Qed.
Lemma gfs_sound : forall c, is_global_fail_set c = true -> has_fail c.
Proof. intros c. apply (gfs_sound_depth (ctx_depth c)). lia. Qed.

(* combined statements, as quoted in Props/C13.v *)
Lemma assert_continue_both :
  forall (Input : Type) (check : path Input -> cond Input -> sat_result),
    (forall p c, check p c = Unsat -> forall i, sat_path Input p i = true -> c i = false) ->
    forall (e : exec Input) (c : cond Input),
      (forall i, sat_path Input (ex_path Input e) i = true -> c i = true ->
         existsb (fun o => continues_with Input o i) (assert_step Input check e c) = true)
      /\ (forall o e', In o (assert_step Input check e c) -> o = Continues Input e' -> e' = e).
Proof.
  intros Input check Hs e c. split.
  - exact (assert_continue_complete Input check Hs e c).
  - intros o e' Hin Ho. exact (assert_continue_sound Input check e c o Hin e' Ho).
Qed.

Lemma assume_all :
  forall (Input : Type) (lit_false : cond Input -> bool),
    (forall c, lit_false c = true -> forall i, c i = false) ->
    forall (e : exec Input) (c : cond Input) (i : Input),
      (existsb (fun o => continues_with Input o i) (assume_step Input lit_false e c) = true
         <-> (sat_path Input (ex_path Input e) i = true /\ c i = true))
      /\ existsb (fun o => reported_failure Input o i) (assume_step Input lit_false e c) = false
      /\ (forall o e', In o (assume_step Input lit_false e c) -> o = Continues Input e' ->
            ex_frames Input e' = ex_frames Input e).
Proof.
  intros Input lf Hl e c i. split; [exact (assume_exact Input lf Hl e c i)|].
  split; [exact (assume_no_failure Input lf e c i) | exact (assume_frames Input lf e c)].
Qed.

Lemma gfs_iff : forall c, is_global_fail_set c = true <-> has_fail c.
Proof. intros c. split; [exact (gfs_sound c) | exact (gfs_complete c)]. Qed.

(* the continuing path is NOT strengthened by the asserted condition (halmos leaves the path
   as it was): an input violating the condition also continues -- it is reported on the failing
   branch as well, so no failure is hidden (C13_fail_exact), but the state after a vm.assert*
   over-approximates Foundry's, where execution stops at the first failed assertion *)
Lemma continue_overapprox :
  exists (check : path bool -> cond bool -> sat_result) (e : exec bool) (c : cond bool) (i : bool),
    (forall p c', check p c' = Unsat -> forall j, sat_path bool p j = true -> c' j = false) /\
    c i = false /\
    existsb (fun o => continues_with bool o i) (assert_step bool check e c) = true /\
    existsb (fun o => reported_failure bool o i) (assert_step bool check e c) = true.
Proof.
  exists (fun _ _ => Unknown), (mkExec bool [] [Ctx ENone []]), (fun i => i), false.
  split; [discriminate|]. vm_compute. auto.
Qed.
