(* Proofs for C20 (Model/IsolationModel.v against Spec/IsolationSpec.v). *)
From Coq Require Import String ZArith List Bool Lia.
From HV Require Import Gen.GenCopies Gen.GenCallbackCopies Gen.GenFrontierFlow Spec.IsolationSpec Model.IsolationModel.
Import ListNotations.
Open Scope Z_scope.

(* ================================================================ Part R: runner *)

Section Runner.
Variable sys : system.
Variable s0 : Z.

Definition canon (n : nat) : ctx := let '(ls, seen) := layers sys s0 n in mkCtx ls seen.
Definition layer (n : nat) : list Z := last (fst (layers sys s0 n)) [].

Lemma canon_frontier n : frontier (canon n) = fst (layers sys s0 n).
Proof. unfold canon. destruct (layers sys s0 n). reflexivity. Qed.

Lemma canon_visited n : visited (canon n) = snd (layers sys s0 n).
Proof. unfold canon. destruct (layers sys s0 n). reflexivity. Qed.

Lemma layers_S n :
  layers sys s0 (S n) =
  (fst (layers sys s0 n) ++ [snd (dedup (sid sys) (snd (layers sys s0 n)) (flat_map (step sys) (layer n)))],
   fst (dedup (sid sys) (snd (layers sys s0 n)) (flat_map (step sys) (layer n)))).
Proof.
  unfold layer. cbn [layers]. destruct (layers sys s0 n) as [ls seen]. cbn [fst snd].
  destruct (dedup (sid sys) seen (flat_map (step sys) (last ls []))). reflexivity.
Qed.

Lemma layer_S n :
  layer (S n) = snd (dedup (sid sys) (snd (layers sys s0 n)) (flat_map (step sys) (layer n))).
Proof. unfold layer at 1. rewrite layers_S. cbn [fst]. apply last_last. Qed.

Lemma frontier_S n : fst (layers sys s0 (S n)) = fst (layers sys s0 n) ++ [layer (S n)].
Proof. rewrite layer_S, layers_S. reflexivity. Qed.

Lemma canon_S n :
  canon (S n) = mkCtx (fst (layers sys s0 n) ++ [layer (S n)])
                      (fst (dedup (sid sys) (snd (layers sys s0 n)) (flat_map (step sys) (layer n)))).
Proof. unfold canon. rewrite layer_S, layers_S. reflexivity. Qed.

Lemma layers_length n : length (fst (layers sys s0 n)) = S n.
Proof.
  induction n as [|n IH]; [reflexivity|].
  rewrite frontier_S, app_length, IH. cbn. lia.
Qed.

Lemma layers_nth m d : (d <= m)%nat -> nth_error (fst (layers sys s0 m)) d = Some (layer d).
Proof.
  induction m as [|m IH]; intros Hd.
  - assert (d = O) by lia. subst. reflexivity.
  - rewrite frontier_S. destruct (Nat.eq_dec d (S m)) as [->|Hne].
    + rewrite nth_error_app2 by (rewrite layers_length; lia).
      rewrite layers_length, Nat.sub_diag. reflexivity.
    + rewrite nth_error_app1 by (rewrite layers_length; lia). apply IH. lia.
Qed.

Lemma layers_nth_none m d : (m < d)%nat -> nth_error (fst (layers sys s0 m)) d = None.
Proof. intros. apply nth_error_None. rewrite layers_length. lia. Qed.

Lemma spec_paths_S body D :
  spec_paths sys body s0 (S D) = spec_paths sys body s0 D ++ flat_map body (layer (S D)).
Proof.
  unfold spec_paths. rewrite frontier_S, concat_app, flat_map_app. cbn [concat].
  rewrite app_nil_r. reflexivity.
Qed.

Lemma run_states_none body sts : run_states body None sts = (flat_map body sts, None).
Proof.
  induction sts as [|s r IH]; [reflexivity|].
  cbn [run_states exhausted take_budget flat_map]. rewrite IH. reflexivity.
Qed.

Lemma lazy_posts_none sd body posts : forall vis acc,
  lazy_posts sd body None vis acc posts =
  (flat_map body (snd (dedup sd vis posts)), None, fst (dedup sd vis posts), acc ++ snd (dedup sd vis posts)).
Proof.
  induction posts as [|p r IH]; intros vis acc.
  - cbn. rewrite app_nil_r. reflexivity.
  - cbn [lazy_posts exhausted dedup]. destruct (memZ (sd p) vis).
    + apply IH.
    + cbn [take_budget]. rewrite IH.
      destruct (dedup sd (sd p :: vis) r) as [s' k]. cbn [fst snd flat_map].
      rewrite <- app_assoc. reflexivity.
Qed.

Lemma run_depth_cached body m d : (d <= m)%nat ->
  run_depth sys body (canon m) None d = (flat_map body (layer d), None, canon m).
Proof.
  intros Hd. unfold run_depth. rewrite canon_frontier, layers_nth by exact Hd.
  rewrite run_states_none. reflexivity.
Qed.

Lemma run_depth_new body m :
  run_depth sys body (canon m) None (S m) = (flat_map body (layer (S m)), None, canon (S m)).
Proof.
  unfold run_depth. rewrite canon_frontier, layers_nth_none by lia.
  cbn [exhausted]. rewrite layers_length, Nat.eqb_refl.
  replace (S m - 1)%nat with m by lia.
  assert (Hn : nth m (fst (layers sys s0 m)) [] = layer m).
  { apply nth_error_nth. apply layers_nth. lia. }
  rewrite Hn, canon_visited, lazy_posts_none. cbn [app].
  rewrite <- layer_S, canon_S. reflexivity.
Qed.

Lemma run_depths_app body l1 l2 c b :
  run_depths sys body (l1 ++ l2) c b =
  let '(p, b1, c1) := run_depths sys body l1 c b in
  let '(q, b2, c2) := run_depths sys body l2 c1 b1 in (p ++ q, b2, c2).
Proof.
  revert c b. induction l1 as [|d l1 IH]; intros c b.
  - cbn. destruct (run_depths sys body l2 c b) as [[q b2] c2]. reflexivity.
  - cbn [app run_depths]. destruct (run_depth sys body c b d) as [[p b1] c1].
    rewrite IH. destruct (run_depths sys body l1 c1 b1) as [[p' b1'] c1'].
    destruct (run_depths sys body l2 c1' b1') as [[q b2] c2]. rewrite app_assoc. reflexivity.
Qed.

Lemma layer_0 : layer 0 = [s0].
Proof. reflexivity. Qed.

Lemma run_depths_complete body D : forall m,
  run_depths sys body (seq 0 (S D)) (canon m) None =
  (spec_paths sys body s0 D, None, canon (Nat.max m D)).
Proof.
  induction D as [|D IH]; intros m.
  - cbn [seq run_depths]. rewrite run_depth_cached by lia. rewrite layer_0.
    rewrite Nat.max_0_r. unfold spec_paths. cbn. rewrite !app_nil_r. reflexivity.
  - rewrite seq_S, run_depths_app, IH. cbn [plus run_depths].
    destruct (le_lt_dec (S D) (Nat.max m D)) as [Hle|Hlt].
    + rewrite run_depth_cached by exact Hle. rewrite spec_paths_S, app_nil_r.
      replace (Nat.max m (S D)) with (Nat.max m D) by lia. reflexivity.
    + assert (Hm : Nat.max m D = D) by lia. rewrite Hm, run_depth_new.
      rewrite spec_paths_S, app_nil_r. replace (Nat.max m (S D)) with (S D) by lia. reflexivity.
Qed.

Lemma run_test_complete t m : t_budget t = None ->
  run_test sys t (canon m) = (spec_paths sys (t_body t) s0 (t_depth t), canon (Nat.max m (t_depth t))).
Proof. intros Hb. unfold run_test. rewrite Hb, run_depths_complete. reflexivity. Qed.

(* a regular test (depth 0) never touches the contract-level caches, whatever its budget *)
Lemma run_test_regular t m : t_depth t = O -> snd (run_test sys t (canon m)) = canon m.
Proof.
  intros Hd. unfold run_test. rewrite Hd. cbn [seq run_depths]. unfold run_depth.
  rewrite canon_frontier, layers_nth by lia.
  destruct (run_states (t_body t) (t_budget t) (layer 0)). reflexivity.
Qed.

Definition prefix_ok (u : test) : Prop := t_budget u = None \/ t_depth u = O.

Lemma run_tests_app a : forall b c,
  run_tests sys (a ++ b) c =
  let '(r1, c1) := run_tests sys a c in
  let '(r2, c2) := run_tests sys b c1 in (r1 ++ r2, c2).
Proof.
  induction a as [|t a IH]; intros b c.
  - cbn. destruct (run_tests sys b c). reflexivity.
  - cbn [app run_tests]. destruct (run_test sys t c) as [p c1]. rewrite IH.
    destruct (run_tests sys a c1) as [r1 c1']. destruct (run_tests sys b c1') as [r2 c2]. reflexivity.
Qed.

Lemma prefix_canon pre : Forall prefix_ok pre -> forall m,
  exists m', snd (run_tests sys pre (canon m)) = canon m' /\
             length (fst (run_tests sys pre (canon m))) = length pre.
Proof.
  induction 1 as [|t pre Ht _ IH]; intros m.
  - exists m. split; reflexivity.
  - cbn [run_tests]. destruct (run_test sys t (canon m)) as [p c1] eqn:E.
    assert (Hc : exists m1, c1 = canon m1).
    { destruct Ht as [Hb|Hd].
      - rewrite (run_test_complete t m Hb) in E. inversion E. eauto.
      - pose proof (run_test_regular t m Hd) as Hr. rewrite E in Hr. cbn in Hr. eauto. }
    destruct Hc as [m1 ->]. destruct (IH m1) as [m' [H1 H2]].
    destruct (run_tests sys pre (canon m1)) as [ps c2]. cbn in *. exists m'. split; [exact H1|lia].
Qed.

Lemma init_canon : init_ctx sys s0 = canon 0.
Proof. reflexivity. Qed.

(* order independence: after ANY prefix of completed invariant tests and arbitrary
   (even interrupted) regular tests, a completed test yields exactly its result alone *)
Theorem order_independent pre t :
  Forall prefix_ok pre -> t_budget t = None ->
  nth (length pre) (run_contract sys s0 (pre ++ [t])) [] = spec_paths sys (t_body t) s0 (t_depth t).
Proof.
  intros Hpre Hb. unfold run_contract. rewrite init_canon, run_tests_app.
  destruct (prefix_canon pre Hpre O) as [m' [Hc Hl]].
  destruct (run_tests sys pre (canon 0)) as [r1 c1]. cbn in Hc, Hl. subst c1.
  cbn [run_tests]. rewrite (run_test_complete t m' Hb). cbn [fst].
  rewrite app_nth2 by lia. rewrite Hl, Nat.sub_diag. reflexivity.
Qed.

Lemma run_tests_all ts : Forall (fun t => t_budget t = None) ts -> forall m,
  fst (run_tests sys ts (canon m)) = map (fun t => spec_paths sys (t_body t) s0 (t_depth t)) ts.
Proof.
  induction 1 as [|t ts Ht _ IH]; intros m; [reflexivity|].
  cbn [run_tests map]. rewrite (run_test_complete t m Ht).
  specialize (IH (Nat.max m (t_depth t))).
  destruct (run_tests sys ts (canon (Nat.max m (t_depth t)))). cbn in *. rewrite IH. reflexivity.
Qed.

Theorem all_complete ts : Forall (fun t => t_budget t = None) ts ->
  run_contract sys s0 ts = map (fun t => spec_paths sys (t_body t) s0 (t_depth t)) ts.
Proof. intros H. unfold run_contract. rewrite init_canon. apply run_tests_all, H. Qed.

End Runner.

(* running the same completed test twice (or any number of times) in one contract run *)
Theorem repeat_same sys s0 t n : t_budget t = None ->
  run_contract sys s0 (repeat t n) = repeat (spec_paths sys (t_body t) s0 (t_depth t)) n.
Proof.
  intros Hb. rewrite all_complete.
  - induction n; cbn; [reflexivity | f_equal; assumption].
  - induction n; constructor; assumption.
Qed.

(* ================================================================ Part C: per-test configuration *)

Section ConfiguredProofs.
Variable fc : Z -> Z -> Z.
Variable cstep : Z -> Z -> list Z.
Variable sd : Z -> Z.
Variable cc : Z.
(* the exploring config does not depend on the running test *)
Hypothesis fc_const : forall a b, fc cc a = fc cc b.

Lemma run_tests_c_const ts : forall c,
  run_tests_c fc cstep sd cc ts c = run_tests (sys_of cstep sd (fc cc 0)) (map ct_test ts) c.
Proof.
  induction ts as [|t ts IH]; intros c; [reflexivity|].
  cbn [run_tests_c map run_tests]. unfold run_test_c. rewrite (fc_const (ct_cfg t) 0).
  destruct (run_test (sys_of cstep sd (fc cc 0)) (ct_test t) c) as [p c1]. rewrite IH. reflexivity.
Qed.

Lemma run_contract_c_const s0 ts :
  run_contract_c fc cstep sd cc s0 ts = run_contract (sys_of cstep sd (fc cc 0)) s0 (map ct_test ts).
Proof. unfold run_contract_c, run_contract. rewrite run_tests_c_const. reflexivity. Qed.

Theorem order_independent_c s0 pre t :
  Forall (fun u => t_budget (ct_test u) = None \/ t_depth (ct_test u) = O) pre ->
  t_budget (ct_test t) = None ->
  nth (length pre) (run_contract_c fc cstep sd cc s0 (pre ++ [t])) []
  = spec_paths (sys_of cstep sd (fc cc 0)) (t_body (ct_test t)) s0 (t_depth (ct_test t)).
Proof.
  intros Hpre Hb. rewrite run_contract_c_const, map_app. cbn [map].
  rewrite <- (map_length ct_test pre). apply order_independent; [|exact Hb].
  apply Forall_forall. intros u Hu. apply in_map_iff in Hu. destruct Hu as [x [<- Hx]].
  rewrite Forall_forall in Hpre. exact (Hpre x Hx).
Qed.

Theorem alone_c s0 t :
  t_budget (ct_test t) = None ->
  hd [] (run_contract_c fc cstep sd cc s0 [t])
  = spec_paths (sys_of cstep sd (fc cc 0)) (t_body (ct_test t)) s0 (t_depth (ct_test t)).
Proof.
  intros Hb. pose proof (order_independent_c s0 [] t (Forall_nil _) Hb) as H.
  cbn [length app] in H. rewrite <- H.
  destruct (run_contract_c fc cstep sd cc s0 [t]); reflexivity.
Qed.

Theorem schedule_independent_c s0 pre t :
  Forall (fun u => t_budget (ct_test u) = None \/ t_depth (ct_test u) = O) pre ->
  t_budget (ct_test t) = None ->
  nth (length pre) (run_contract_c fc cstep sd cc s0 (pre ++ [t])) []
  = hd [] (run_contract_c fc cstep sd cc s0 [t]).
Proof. intros Hpre Hb. rewrite order_independent_c, alone_c by assumption. reflexivity. Qed.
End ConfiguredProofs.

(* what the code does (Gen/GenFrontierFlow.v): the exploring config is the contract's *)
Lemma frontier_cfg_const cc a b : frontier_cfg cc a = frontier_cfg cc b.
Proof. reflexivity. Qed.

Lemma frontier_cfg_contract cc a : frontier_cfg cc a = cc.
Proof. reflexivity. Qed.

Theorem order_config cstep sd cc s0 pre t :
  Forall (fun u => t_budget (ct_test u) = None \/ t_depth (ct_test u) = O) pre ->
  t_budget (ct_test t) = None ->
  nth (length pre) (run_contract_c frontier_cfg cstep sd cc s0 (pre ++ [t])) []
  = hd [] (run_contract_c frontier_cfg cstep sd cc s0 [t]).
Proof. apply schedule_independent_c. intros a b. apply frontier_cfg_const. Qed.

Theorem alone_config cstep sd cc s0 t :
  t_budget (ct_test t) = None ->
  hd [] (run_contract_c frontier_cfg cstep sd cc s0 [t])
  = spec_paths (mkSystem (cstep cc) sd) (t_body (ct_test t)) s0 (t_depth (ct_test t)).
Proof.
  intros Hb. rewrite (alone_c frontier_cfg cstep sd cc (fun a b => frontier_cfg_const cc a b) s0 t Hb).
  rewrite frontier_cfg_contract. reflexivity.
Qed.

Theorem frontier_flow_facts :
  explore_cfg_src = SrcContract /\ frontier_test_inputs = [] /\ cache_key_depth_only = true /\
  setup_state_visited = false /\ test_cfg_base_src = SrcContract.
Proof. repeat split; reflexivity. Qed.

(* ---- annotations do not stack *)
Section AnnotatedProofs.
Variable nb fc : Z -> Z -> Z.
Variable cstep : Z -> Z -> list Z.
Variable sd : Z -> Z.
Variable cc : Z.
Hypothesis nb_contract : forall e, nb cc e = cc.

Lemma run_tests_a_resolved ts : forall c,
  run_tests_a nb fc cstep sd cc cc ts c = run_tests_c fc cstep sd cc (map (resolve cc) ts) c.
Proof.
  induction ts as [|t ts IH]; intros c; [reflexivity|].
  cbn [run_tests_a map run_tests_c].
  destruct (run_test_c fc cstep sd cc (resolve cc t) c) as [p c1].
  rewrite nb_contract, IH. reflexivity.
Qed.

Lemma run_contract_a_resolved s0 ts :
  run_contract_a nb fc cstep sd cc s0 ts = run_contract_c fc cstep sd cc s0 (map (resolve cc) ts).
Proof. unfold run_contract_a, run_contract_c. rewrite run_tests_a_resolved. reflexivity. Qed.
End AnnotatedProofs.

Lemma next_base_contract cc e : next_base cc e = cc.
Proof. reflexivity. Qed.

Definition acomplete (cc : Z) (u : atest) : Prop :=
  a_budget u = None \/ a_depth u (a_ann u cc) = O.

Theorem order_annotated cstep sd cc s0 pre t :
  Forall (acomplete cc) pre -> a_budget t = None ->
  nth (length pre) (run_contract_a next_base frontier_cfg cstep sd cc s0 (pre ++ [t])) []
  = hd [] (run_contract_a next_base frontier_cfg cstep sd cc s0 [t]).
Proof.
  intros Hpre Hb.
  rewrite !(run_contract_a_resolved next_base frontier_cfg cstep sd cc (next_base_contract cc)).
  rewrite map_app. cbn [map]. rewrite <- (map_length (resolve cc) pre).
  apply order_config; [|exact Hb].
  apply Forall_forall. intros u Hu. apply in_map_iff in Hu. destruct Hu as [x [<- Hx]].
  rewrite Forall_forall in Hpre. exact (Hpre x Hx).
Qed.

Theorem alone_annotated cstep sd cc s0 t :
  a_budget t = None ->
  hd [] (run_contract_a next_base frontier_cfg cstep sd cc s0 [t])
  = spec_paths (mkSystem (cstep cc) sd) (a_body t (a_ann t cc)) s0 (a_depth t (a_ann t cc)).
Proof.
  intros Hb. rewrite (run_contract_a_resolved next_base frontier_cfg cstep sd cc (next_base_contract cc)).
  cbn [map]. rewrite alone_config by exact Hb. reflexivity.
Qed.

(* conversely: if the next test started from the config of the test that has just run, an annotation
   would stay in force for every later test.  Configs are depths here: t1 is annotated with depth 2,
   t2 is not annotated (contract depth 1); inc() on a counter; both assert counter < 2. *)
Definition annw_t1 : atest := mkATest (fun _ => 2) Z.to_nat (fun _ s => [if s <? 2 then 0 else 1]) None.
Definition annw_t2 : atest := mkATest (fun e => e) Z.to_nat (fun _ s => [if s <? 2 then 0 else 1]) None.

Theorem stacked_annotations_refute_isolation :
  exists (cstep : Z -> Z -> list Z) (sd : Z -> Z) (cc s0 : Z) (t1 t2 : atest),
    a_budget t1 = None /\ a_budget t2 = None /\
    verdict_of (nth 1 (run_contract_a (pick_cfg SrcTest) frontier_cfg cstep sd cc s0 [t1; t2]) []) = 1 /\
    verdict_of (hd [] (run_contract_a (pick_cfg SrcTest) frontier_cfg cstep sd cc s0 [t2])) = 0.
Proof.
  exists (fun _ s => [s + 1]), (fun s => s), 1, 0, annw_t1, annw_t2.
  repeat split; vm_compute; reflexivity.
Qed.

(* the continuations of a caller after a sub-call (one per outcome of the callee, all built by the same
   return callback from the same caller state / backups): every field they re-establish is copied at
   least as deep as it is mutated in place *)
Theorem callback_tables_sufficient :
  fields_ok exec_need call_backup_table = true /\ fields_ok exec_need call_resume_table = true /\
  fields_ok exec_need call_restore_table = true /\
  fields_ok exec_need create_backup_table = true /\ fields_ok exec_need create_resume_table = true /\
  fields_ok exec_need create_restore_table = true.
Proof. repeat split; vm_compute; reflexivity. Qed.

(* conversely: were the frontier explored under the RUNNING test's config while the cache stays keyed
   by the depth, the result of a completed test would depend on which test filled the cache.
   bump(n) on a counter explored with loop bound e reaches s+1 .. s+e; contract bound 2;
   t1 is annotated with bound 3, t2 is not; both assert counter < 3. *)
Definition cfgw_cstep (e s : Z) : list Z := map (fun k => s + Z.of_nat k) (seq 1 (Z.to_nat e)).
Definition cfgw_body (s : Z) : list Z := [if s <? 3 then 0 else 1].
Definition cfgw_t1 : ctest := mkCTest 3 (mkTest 1 cfgw_body None).
Definition cfgw_t2 : ctest := mkCTest 2 (mkTest 1 cfgw_body None).

Theorem test_cfg_in_shared_frontier_refutes_isolation :
  exists (cstep : Z -> Z -> list Z) (sd : Z -> Z) (cc s0 : Z) (t1 t2 : ctest),
    t_budget (ct_test t1) = None /\ t_budget (ct_test t2) = None /\
    verdict_of (nth 1 (run_contract_c (pick_cfg SrcTest) cstep sd cc s0 [t1; t2]) []) = 1 /\
    verdict_of (hd [] (run_contract_c (pick_cfg SrcTest) cstep sd cc s0 [t2])) = 0.
Proof.
  exists cfgw_cstep, (fun s => s), 2, 0, cfgw_t1, cfgw_t2.
  repeat split; vm_compute; reflexivity.
Qed.

(* F10: a test whose consumer loop breaks (budget) leaves a partial frontier in the cache;
   a later completed invariant test then misses states *)
Definition f10_sys : system := mkSystem (fun s => [s + 1; s + 2]) (fun s => s).
Definition f10_t1 : test := mkTest 1 (fun s => [if s =? 1 then 1 else 0]) (Some 2%nat).
Definition f10_t2 : test := mkTest 1 (fun s => [if s =? 2 then 1 else 0]) None.

Lemma f10_witness :
  nth 1 (run_contract f10_sys 0 [f10_t1; f10_t2]) [] = [0; 0] /\
  spec_paths f10_sys (t_body f10_t2) 0 (t_depth f10_t2) = [0; 0; 1] /\
  verdict_of (nth 1 (run_contract f10_sys 0 [f10_t1; f10_t2]) []) = 0 /\
  verdict_of (spec_paths f10_sys (t_body f10_t2) 0 (t_depth f10_t2)) = 1.
Proof. repeat split; vm_compute; reflexivity. Qed.

(* ================================================================ Part N: renaming *)

Lemma eval_rename r s t : eval s (rename r t) = eval (fun n => s (r n)) t.
Proof.
  induction t; cbn [eval rename]; try rewrite IHt1; try rewrite IHt2; try rewrite IHt; reflexivity.
Qed.

Lemma eval_ext s s' t : (forall n, In n (vars t) -> s n = s' n) -> eval s t = eval s' t.
Proof.
  induction t; cbn [eval vars]; intros H;
    try rewrite IHt1 by (intros; apply H; apply in_or_app; auto);
    try rewrite IHt2 by (intros; apply H; apply in_or_app; auto);
    try rewrite IHt by (intros; apply H; auto); try reflexivity.
  apply H. left. reflexivity.
Qed.

(* push a valuation of the original symbols forward along an injective renaming *)
Definition push (r : Z -> Z) (dom : list Z) (s : Z -> Z) : Z -> Z :=
  fun n => match find (fun v => r v =? n) dom with Some v => s v | None => 0 end.

Lemma push_spec r dom s x : inj_on r dom -> In x dom -> push r dom s (r x) = s x.
Proof.
  intros Hinj Hx. unfold push.
  destruct (find (fun v => r v =? r x) dom) as [v|] eqn:E.
  - apply find_some in E. destruct E as [Hv He]. apply Z.eqb_eq in He.
    f_equal. apply Hinj; assumption.
  - exfalso. pose proof (find_none _ _ E x Hx) as Hn. cbn in Hn. rewrite Z.eqb_refl in Hn. discriminate.
Qed.

Lemma holds_pull r s' t : holds s' (rename r t) -> holds (fun n => s' (r n)) t.
Proof. unfold holds. rewrite eval_rename. auto. Qed.

Lemma holds_push r s t : inj_on r (vars t) -> holds s t -> holds (push r (vars t) s) (rename r t).
Proof.
  unfold holds. intros Hinj H. rewrite eval_rename.
  rewrite (eval_ext _ s); [exact H|]. intros n Hn. apply push_spec; assumption.
Qed.

Theorem sat_rename r t : inj_on r (vars t) -> (sat t <-> sat (rename r t)).
Proof.
  intros Hinj. split; intros [s H].
  - exists (push r (vars t) s). apply holds_push; assumption.
  - exists (fun n => s (r n)). apply holds_pull; assumption.
Qed.

Section Solver.
Variable slv : solver.
Hypothesis slv_sound : forall q m, slv q = Some m -> holds m q.
Hypothesis slv_complete : forall q, slv q = None -> ~ sat q.

Lemma slv_some_iff q : (exists m, slv q = Some m) <-> sat q.
Proof.
  split.
  - intros [m H]. exists m. eauto.
  - intros Hs. destruct (slv q) eqn:E; [eauto|]. exfalso. exact (slv_complete q E Hs).
Qed.

Theorem has_cex_rename r qs :
  Forall (fun q => inj_on r (vars q)) qs ->
  has_cex slv (map (rename r) qs) = has_cex slv qs.
Proof.
  induction 1 as [|q qs Hq _ IH]; [reflexivity|].
  unfold has_cex in *. cbn [map existsb]. rewrite IH. f_equal.
  pose proof (slv_some_iff q) as A. pose proof (slv_some_iff (rename r q)) as B.
  pose proof (sat_rename r q Hq) as C.
  destruct (slv q) eqn:E1; destruct (slv (rename r q)) eqn:E2; try reflexivity; exfalso.
  - assert (S1 : sat q) by (apply A; eauto). apply C, B in S1. destruct S1; discriminate.
  - assert (S2 : sat (rename r q)) by (apply B; eauto). apply C, A in S2. destruct S2; discriminate.
Qed.
End Solver.

(* without injectivity (two fresh symbols receiving the same name) a verdict can change *)
Lemma rename_collision :
  sat (TNot (TEq (TVar 1) (TVar 2))) /\ ~ sat (rename (fun _ => 7) (TNot (TEq (TVar 1) (TVar 2)))).
Proof.
  split.
  - exists (fun n => n). unfold holds. cbn. discriminate.
  - intros [s H]. unfold holds in H. cbn in H. rewrite Z.eqb_refl in H. cbn in H. congruence.
Qed.

Theorem rename_full :
  forall (r : Z -> Z) (q : term), inj_on r (vars q) ->
    (sat q <-> sat (rename r q)) /\
    (forall m', holds m' (rename r q) -> holds (fun n => m' (r n)) q) /\
    (forall m, holds m q -> holds (push r (vars q) m) (rename r q)).
Proof.
  intros r q Hinj. split; [exact (sat_rename r q Hinj)|].
  split; [intros m' H; exact (holds_pull r m' q H) | intros m H; exact (holds_push r m q Hinj H)].
Qed.

Theorem f10_refuted :
  exists (sys : system) (s0 : Z) (t1 t2 : test),
    t_budget t2 = None /\
    verdict_of (nth 1 (run_contract sys s0 [t1; t2]) []) = 0 /\
    verdict_of (spec_paths sys (t_body t2) s0 (t_depth t2)) = 1.
Proof.
  exists f10_sys, 0, f10_t1, f10_t2. split; [reflexivity|].
  split; [exact (proj1 (proj2 (proj2 f10_witness))) | exact (proj2 (proj2 (proj2 f10_witness)))].
Qed.

Theorem rename_collision_refuted : exists (r : Z -> Z) (q : term), sat q /\ ~ sat (rename r q).
Proof. exists (fun _ => 7), (TNot (TEq (TVar 1) (TVar 2))). exact rename_collision. Qed.

(* ================================================================ regenerated tables (finite) *)

Theorem tables_sufficient :
  table_ok exec_need create_branch_table = true /\
  table_ok exec_need run_message_table = true /\
  table_ok path_need path_branch_table = true /\
  table_ok path_need extend_path_table = true.
Proof. repeat split; vm_compute; reflexivity. Qed.

Theorem shared_exact :
  shared_fields create_branch_table = ["balance"; "call_sequence"; "callback"; "pgm"; "known_keys"; "known_sigs"]%string /\
  shared_fields run_message_table = ["balance"; "call_sequence"; "pgm"]%string /\
  shared_fields path_branch_table = ["solver"; "term_to_vars"]%string /\
  shared_fields extend_path_table = ["term_to_vars"]%string.
Proof. repeat split; vm_compute; reflexivity. Qed.

(* ================================================================ Part S: object store *)

Lemma hget_app_l h e l : (l < length h)%nat -> hget (h ++ e) l = hget h l.
Proof. intros. unfold hget. apply app_nth1. assumption. Qed.

Lemma hget_beyond h l : (length h <= l)%nat -> hget h l = [].
Proof. intros. unfold hget. apply nth_overflow. assumption. Qed.

Lemma hget_snoc h o : hget (h ++ [o]) (length h) = o.
Proof. unfold hget. rewrite app_nth2 by lia. rewrite Nat.sub_diag. reflexivity. Qed.

Lemma hget_snoc_nil h l : hget (h ++ [[]]) l = hget h l.
Proof.
  destruct (lt_dec l (length h)) as [Hl|Hl].
  - apply hget_app_l. exact Hl.
  - assert (Hge : (length h <= l)%nat) by (apply Nat.nlt_ge; exact Hl).
    rewrite (hget_beyond h l Hge). destruct (Nat.eq_dec l (length h)) as [->|Hne].
    + apply hget_snoc.
    + apply hget_beyond. rewrite app_length. cbn [length]. lia.
Qed.

Lemma hset_length h : forall l o, length (hset h l o) = length h.
Proof. induction h as [|x t IH]; intros [|l] o; cbn; auto. Qed.

Lemma hget_hset h : forall l o l0,
  hget (hset h l o) l0 = if (Nat.eqb l0 l && Nat.ltb l (length h))%bool then o else hget h l0.
Proof.
  induction h as [|x t IH]; intros l o l0.
  - cbn. rewrite andb_false_r. destruct l; reflexivity.
  - destruct l as [|l]; destruct l0 as [|l0]; cbn [hset]; try reflexivity.
    + unfold hget. cbn. specialize (IH l o l0). unfold hget in IH. rewrite IH.
      cbn [length]. replace (Nat.ltb (S l) (S (length t))) with (Nat.ltb l (length t)); [reflexivity|].
      destruct (Nat.ltb_spec l (length t)); destruct (Nat.ltb_spec (S l) (S (length t))); try reflexivity; lia.
Qed.

Lemma lookup_In k o v : lookup k o = Some v -> In (k, v) o.
Proof.
  induction o as [|[k' v'] r IH]; cbn; [discriminate|].
  destruct (Z.eqb_spec k k') as [->|Hne]; intros H.
  - inversion H. left. reflexivity.
  - right. apply IH. exact H.
Qed.

Lemma In_set_key k v o k' v' : In (k', v') (set_key k v o) -> (k', v') = (k, v) \/ In (k', v') o.
Proof.
  induction o as [|[k0 v0] r IH]; cbn.
  - intros [H|[]]. left. symmetry. exact H.
  - destruct (k =? k0).
    + intros [H|H]; [left; symmetry; exact H | right; right; exact H].
    + intros [H|H]; [right; left; exact H|]. destruct (IH H) as [E|E]; [left; exact E | right; right; exact E].
Qed.

Lemma wf_val_mono n m v : (n <= m)%nat -> wf_val n v -> wf_val m v.
Proof. destruct v; cbn; intros; [exact Logic.I | lia]. Qed.

Lemma inside_mono d : forall h e (P P' : nat -> Prop) v,
  (forall l, P l -> (l < length h)%nat) -> (forall l, P l -> P' l) ->
  inside d h P v -> inside d (h ++ e) P' v.
Proof.
  induction d as [|d IH]; intros h e P P' v Hb Hsub Hin; [exact Logic.I|].
  destruct v as [z|l]; [exact Logic.I|]. cbn in Hin |- *. destruct Hin as [HP Hk].
  split; [apply Hsub, HP|]. intros k x Hx. rewrite hget_app_l in Hx by (apply Hb, HP).
  apply (IH h e P P'); auto. apply (Hk k x Hx).
Qed.

Lemma inside_weaken d : forall h (P P' : nat -> Prop) v,
  (forall l, P l -> P' l) -> inside d h P v -> inside d h P' v.
Proof.
  induction d as [|d IH]; intros h P P' v Hsub Hin; [exact Logic.I|].
  destruct v as [z|l]; [exact Logic.I|]. cbn in Hin |- *. destruct Hin as [HP Hk].
  split; [apply Hsub, HP|]. intros k x Hx. apply (IH h P P'); auto. apply (Hk k x Hx).
Qed.

Lemma at_level_shrink d : forall h e v r,
  wf_heap h -> wf_val (length h) v -> at_level d (h ++ e) v r -> at_level d h v r.
Proof.
  induction d as [|d IH]; intros h e v r Hwf Hv H; [exact H|].
  destruct v as [z|l]; [exact H|]. cbn in H |- *. cbn in Hv.
  destruct H as [k [x [Hx Ha]]]. rewrite hget_app_l in Hx by exact Hv.
  exists k, x. split; [exact Hx|]. apply (IH h e); auto. apply (Hwf l k x Hx).
Qed.

Lemma nth_error_repeat' (A : Type) (a : A) n i : (i < n)%nat -> nth_error (repeat a n) i = Some a.
Proof. revert i. induction n; intros [|i] H; cbn; try lia; auto. apply IHn. lia. Qed.

Lemma nth_error_repeat_inv (A : Type) (a b : A) n i : nth_error (repeat a n) i = Some b -> b = a.
Proof. intros H. apply nth_error_In in H. apply repeat_spec in H. exact H. Qed.

(* what a copier to depth d guarantees *)
Definition copier_ok (d : nat) (cp : heap -> val -> heap * val) : Prop :=
  forall h v h' v', wf_heap h -> wf_val (length h) v -> cp h v = (h', v') ->
    (exists e, h' = h ++ e) /\ wf_heap h' /\ wf_val (length h') v' /\
    inside d h' (fresh h h') v' /\
    (forall l, fresh h h' l -> forall k r, In (k, R r) (hget h' l) -> fresh h h' r \/ at_level d h v r) /\
    (forall r, v' = R r -> fresh h h' r \/ at_level d h v r).

Definition copy_list_post (ds : list nat) (h : heap) (vs : list val) (h' : heap) (vs' : list val) : Prop :=
  (exists e, h' = h ++ e) /\ wf_heap h' /\ Forall (wf_val (length h')) vs' /\
  length vs' = Nat.min (length ds) (length vs) /\
  (forall i d v', nth_error ds i = Some d -> nth_error vs' i = Some v' -> inside d h' (fresh h h') v') /\
  (forall l, fresh h h' l -> forall k r, In (k, R r) (hget h' l) ->
     fresh h h' r \/ exists i d v, nth_error ds i = Some d /\ nth_error vs i = Some v /\ at_level d h v r) /\
  (forall i d v v' r, nth_error ds i = Some d -> nth_error vs i = Some v -> nth_error vs' i = Some v' ->
     v' = R r -> fresh h h' r \/ at_level d h v r).

Ltac split6 := split; [|split; [|split; [|split; [|split]]]].
Ltac split7 := split; [|split; [|split; [|split; [|split; [|split]]]]].

Lemma copy_list_ok : forall ds, (forall d, In d ds -> copier_ok d (copy d)) ->
  forall h vs h' vs', wf_heap h -> Forall (wf_val (length h)) vs ->
    copy_list (map copy ds) h vs = (h', vs') -> copy_list_post ds h vs h' vs'.
Proof.
  induction ds as [|d ds IH]; intros Hok h vs h' vs' Hwf Hvs E.
  - cbn in E. inversion E; subst. unfold copy_list_post. split7.
    + exists []. rewrite app_nil_r. reflexivity.
    + exact Hwf.
    + constructor.
    + reflexivity.
    + intros i d v' H. destruct i; discriminate.
    + intros l [H1 H2]. lia.
    + intros i d v v' r H. destruct i; discriminate.
  - destruct vs as [|v vs].
    + cbn in E. inversion E; subst. unfold copy_list_post. split7.
      * exists []. rewrite app_nil_r. reflexivity.
      * exact Hwf.
      * constructor.
      * cbn. reflexivity.
      * intros i d0 v' _ H. destruct i; discriminate.
      * intros l [H1 H2]. lia.
      * intros i d0 v v' r _ H. destruct i; discriminate.
    + cbn [map copy_list] in E.
      destruct (copy d h v) as [h1 v1] eqn:E1.
      destruct (copy_list (map copy ds) h1 vs) as [h2 rs] eqn:E2.
      inversion E; subst h' vs'. clear E.
      inversion Hvs as [|? ? Hv Hvs']; subst.
      destruct (Hok d (or_introl eq_refl) h v h1 v1 Hwf Hv E1) as [[e1 He1] [Hwf1 [Hv1 [Hin1 [Href1 Hroot1]]]]].
      assert (Hlen1 : (length h <= length h1)%nat) by (rewrite He1, app_length; lia).
      assert (Hvs1 : Forall (wf_val (length h1)) vs).
      { eapply Forall_impl; [|exact Hvs']. intros a. apply wf_val_mono. exact Hlen1. }
      destruct (IH (fun d0 H => Hok d0 (or_intror H)) h1 vs h2 rs Hwf1 Hvs1 E2)
        as [[e2 He2] [Hwf2 [Hrs [Hlen [Hin2 [Href2 Hroot2]]]]]].
      assert (Hlen2 : (length h1 <= length h2)%nat) by (rewrite He2, app_length; lia).
      unfold copy_list_post. split7.
      * exists (e1 ++ e2). rewrite He2, He1, app_assoc. reflexivity.
      * exact Hwf2.
      * constructor; [eapply wf_val_mono; [exact Hlen2 | exact Hv1] | exact Hrs].
      * cbn. rewrite Hlen. reflexivity.
      * intros i d0 v' Hd Hv'. destruct i as [|i]; cbn in Hd, Hv'.
        -- injection Hd as <-. injection Hv' as <-. rewrite He2.
           apply (inside_mono d h1 e2 (fresh h h1) (fresh h (h1 ++ e2))); auto.
           ++ intros l [_ H]. exact H.
           ++ intros l [A B]. split; [exact A|]. rewrite app_length. lia.
        -- apply (inside_weaken d0 h2 (fresh h1 h2)); [|apply (Hin2 i); assumption].
           intros l [A B]. split; lia.
      * intros l [A B] k r Hr.
        destruct (lt_dec l (length h1)) as [Hl|Hl].
        -- rewrite He2, hget_app_l in Hr by exact Hl.
           destruct (Href1 l (conj A Hl) k r Hr) as [[F1 F2]|F].
           ++ left. split; lia.
           ++ right. exists O, d, v. repeat split; auto.
        -- destruct (Href2 l (conj (proj1 (Nat.nlt_ge _ _) Hl) B) k r Hr) as [[F1 F2]|[i [d0 [v0 [Hd [Hv0 Ha]]]]]].
           ++ left. split; lia.
           ++ right. exists (S i), d0, v0. repeat split; auto.
              rewrite He1 in Ha. apply (at_level_shrink d0 h e1); auto.
              eapply Forall_forall in Hvs'; [exact Hvs'|]. eapply nth_error_In. exact Hv0.
      * intros i d0 v0 v' r Hd Hv0 Hv' ->. destruct i as [|i]; cbn in Hd, Hv0, Hv'.
        -- injection Hd as <-. injection Hv0 as <-. injection Hv' as Hv'.
           destruct (Hroot1 r Hv') as [[F1 F2]|F]; [left; split; lia | right; exact F].
        -- destruct (Hroot2 i d0 v0 (R r) r Hd Hv0 Hv' eq_refl) as [[F1 F2]|F]; [left; split; lia|].
           right. rewrite He1 in F. apply (at_level_shrink d0 h e1); auto.
           eapply Forall_forall in Hvs'; [exact Hvs'|]. eapply nth_error_In. exact Hv0.
Qed.

Lemma map_repeat' (A B : Type) (f : A -> B) a n : map f (repeat a n) = repeat (f a) n.
Proof. induction n; cbn; [reflexivity | f_equal; assumption]. Qed.

Lemma copy_ok : forall d, copier_ok d (copy d).
Proof.
  induction d as [|d IH]; intros h v h' v' Hwf Hv E.
  - cbn in E. inversion E; subst. split6.
    + exists []. rewrite app_nil_r. reflexivity.
    + exact Hwf.
    + exact Hv.
    + exact Logic.I.
    + intros l [A B]. lia.
    + intros r ->. right. reflexivity.
  - destruct v as [z|l].
    + cbn in E. inversion E; subst. split6.
      * exists []. rewrite app_nil_r. reflexivity.
      * exact Hwf.
      * exact Logic.I.
      * exact Logic.I.
      * intros l [A B]. lia.
      * intros r H. discriminate.
    + cbn [copy] in E. set (o := hget h l) in *.
      destruct (copy_list (repeat (copy d) (length o)) h (map snd o)) as [h2 xs] eqn:E2.
      inversion E; subst h' v'. clear E.
      rewrite <- (map_repeat' _ _ copy d) in E2.
      assert (Hvs : Forall (wf_val (length h)) (map snd o)).
      { apply Forall_forall. intros x Hx. apply in_map_iff in Hx. destruct Hx as [[k x'] [<- Hx]].
        apply (Hwf l k x' Hx). }
      assert (Hall : forall d0, In d0 (repeat d (length o)) -> copier_ok d0 (copy d0)).
      { intros d0 H0. apply repeat_spec in H0. subst. exact IH. }
      destruct (copy_list_ok _ Hall h (map snd o) h2 xs Hwf Hvs E2)
        as [[e He] [Hwf2 [Hxs [Hlen [Hin [Href Hroot]]]]]].
      rewrite repeat_length, map_length, Nat.min_id in Hlen.
      assert (Hl2 : (length h <= length h2)%nat) by (rewrite He, app_length; lia).
      set (o' := combine (map fst o) xs).
      assert (Hlen' : length (h2 ++ [o']) = S (length h2)) by (rewrite app_length; cbn; lia).
      (* a field of the new object is some xs[i] *)
      assert (Hfield : forall k x, In (k, x) o' -> exists i, (i < length o)%nat /\ nth_error xs i = Some x).
      { intros k x Hx. apply in_combine_r in Hx. apply In_nth_error in Hx. destruct Hx as [i Hi].
        exists i. split; [|exact Hi]. rewrite <- Hlen. apply nth_error_Some. rewrite Hi. discriminate. }
      (* an old field value is reachable one level below l *)
      assert (Hup : forall i v0 r, nth_error (map snd o) i = Some v0 -> at_level d h v0 r -> at_level (S d) h (R l) r).
      { intros i v0 r Hi Ha. apply nth_error_In in Hi. apply in_map_iff in Hi. destruct Hi as [[k x] [Hs Hi]].
        cbn in Hs. subst. cbn. exists k, v0. split; [exact Hi | exact Ha]. }
      split6.
      * exists (e ++ [o']). rewrite He, app_assoc. reflexivity.
      * intros l0 k x Hx. rewrite Hlen'.
        destruct (lt_dec l0 (length h2)) as [Hl0|Hl0].
        -- rewrite hget_app_l in Hx by exact Hl0. eapply wf_val_mono; [|apply (Hwf2 l0 k x Hx)]. lia.
        -- destruct (Nat.eq_dec l0 (length h2)) as [->|Hne].
           ++ rewrite hget_snoc in Hx. apply in_combine_r in Hx.
              eapply wf_val_mono; [|eapply Forall_forall in Hxs; [exact Hxs | exact Hx]]. lia.
           ++ rewrite hget_beyond in Hx by (rewrite Hlen'; lia). destruct Hx.
      * cbn. rewrite Hlen'. lia.
      * cbn [inside]. split; [split; [exact Hl2 | rewrite Hlen'; lia]|].
        intros k x Hx. rewrite hget_snoc in Hx. destruct (Hfield k x Hx) as [i [Hi Hxi]].
        apply (inside_mono d h2 [o'] (fresh h h2)).
        -- intros l0 [_ B]. exact B.
        -- intros l0 [A B]. split; [exact A | rewrite Hlen'; lia].
        -- apply (Hin i d x); [apply nth_error_repeat'; exact Hi | exact Hxi].
      * intros l0 [A B] k r Hr. rewrite Hlen' in B.
        destruct (lt_dec l0 (length h2)) as [Hl0|Hl0].
        -- rewrite hget_app_l in Hr by exact Hl0.
           destruct (Href l0 (conj A Hl0) k r Hr) as [[F1 F2]|[i [d0 [v0 [Hd [Hv0 Ha]]]]]].
           ++ left. split; [exact F1 | rewrite Hlen'; lia].
           ++ right. apply nth_error_repeat_inv in Hd. subst d0. apply (Hup i v0 r Hv0 Ha).
        -- assert (l0 = length h2) by lia. subst l0. rewrite hget_snoc in Hr.
           destruct (Hfield k (R r) Hr) as [i [Hi Hxi]].
           destruct (nth_error (map snd o) i) as [v0|] eqn:Ev0.
           2:{ apply nth_error_None in Ev0. rewrite map_length in Ev0. lia. }
           destruct (Hroot i d v0 (R r) r (nth_error_repeat' _ d _ i Hi) Ev0 Hxi eq_refl) as [[F1 F2]|F].
           ++ left. split; [exact F1 | rewrite Hlen'; lia].
           ++ right. apply (Hup i v0 r Ev0 F).
      * intros r Hr. inversion Hr; subst. left. split; [exact Hl2 | rewrite Hlen'; lia].
Qed.

Lemma derive_ok t h vs h' vs' : wf_heap h -> Forall (wf_val (length h)) vs ->
  derive t h vs = (h', vs') -> copy_list_post (depths t) h vs h' vs'.
Proof. intros Hwf Hvs E. apply (copy_list_ok (depths t)); auto. intros d _. apply copy_ok. Qed.

(* ---- frame: writes through a handle never touch a region nobody outside it points into *)

Lemma nav_outside (P : nat -> Prop) h : no_ptr_into P h -> forall path v l,
  (forall r, v = R r -> ~ P r) -> nav h v path = Some l -> ~ P l.
Proof.
  intros Hno. induction path as [|k p IH]; intros v l Hv Hn.
  - destruct v; cbn in Hn; [discriminate|]. inversion Hn; subst. apply Hv. reflexivity.
  - destruct v as [z|l0]; cbn in Hn; [discriminate|].
    destruct (lookup k (hget h l0)) as [v'|] eqn:El; [|discriminate].
    apply (IH v' l); [|exact Hn]. intros r ->. apply lookup_In in El.
    apply (Hno l0 (Hv l0 eq_refl) k r El).
Qed.

Lemma write_frame (P : nat -> Prop) h l k v :
  ~ P l -> (forall r, v = R r -> ~ P r) -> no_ptr_into P h ->
  let h' := hset h l (set_key k v (hget h l)) in
  (forall l0, P l0 -> hget h' l0 = hget h l0) /\ no_ptr_into P h' /\ length h' = length h.
Proof.
  intros HPl Hv Hno h'. subst h'. split; [|split].
  - intros l0 HP0. rewrite hget_hset. destruct (Nat.eqb_spec l0 l) as [->|Hne]; [contradiction|reflexivity].
  - intros l0 HP0 k' r Hr. rewrite hget_hset in Hr.
    destruct (Nat.eqb l0 l && Nat.ltb l (length h))%bool eqn:Eb.
    + apply andb_true_iff in Eb. destruct Eb as [Eb _]. apply Nat.eqb_eq in Eb. subst l0.
      apply In_set_key in Hr. destruct Hr as [Hr|Hr].
      * inversion Hr; subst. apply Hv. reflexivity.
      * apply (Hno l HPl k' r Hr).
    + apply (Hno l0 HP0 k' r Hr).
  - apply hset_length.
Qed.

Lemma no_ptr_snoc_nil (P : nat -> Prop) h : no_ptr_into P h -> no_ptr_into P (h ++ [[]]).
Proof. intros Hno l HP k r Hr. rewrite hget_snoc_nil in Hr. apply (Hno l HP k r Hr). Qed.

Lemma root_outside (P : nat -> Prop) roots :
  (forall v, In v roots -> forall r, v = R r -> ~ P r) -> forall f r, root roots f = R r -> ~ P r.
Proof.
  intros H f r Hr. unfold root in Hr. destruct (nth_in_or_default f roots (I 0)) as [Hin|Hd].
  - apply (H _ Hin r Hr).
  - rewrite Hd in Hr. discriminate.
Qed.

Lemma exec_op_frame (P : nat -> Prop) roots h o :
  (forall l, P l -> (l < length h)%nat) -> no_ptr_into P h ->
  (forall f r, root roots f = R r -> ~ P r) ->
  (forall l, P l -> hget (exec_op roots h o) l = hget h l) /\ no_ptr_into P (exec_op roots h o) /\
  (length h <= length (exec_op roots h o))%nat.
Proof.
  intros Hb Hno Hroots. destruct o as [f p k z | f p k | f p k g q]; cbn [exec_op].
  - destruct (nav h (root roots f) p) as [l|] eqn:En; [|repeat split; auto].
    assert (HPl : ~ P l) by (apply (nav_outside P h Hno p (root roots f) l); [apply Hroots | exact En]).
    destruct (write_frame P h l k (I z) HPl (fun r H => ltac:(discriminate)) Hno) as [A [B C]].
    split; [exact A | split; [exact B | rewrite C; lia]].
  - destruct (nav h (root roots f) p) as [l|] eqn:En; [|repeat split; auto].
    assert (HPl : ~ P l) by (apply (nav_outside P h Hno p (root roots f) l); [apply Hroots | exact En]).
    assert (Hnew : forall r, R (length h) = R r -> ~ P r).
    { intros r Hr. inversion Hr; subst. intros HP. apply Hb in HP. lia. }
    rewrite <- (hget_snoc_nil h l).
    destruct (write_frame P (h ++ [[]]) l k (R (length h)) HPl Hnew (no_ptr_snoc_nil P h Hno)) as [A [B C]].
    split; [|split].
    + intros l0 HP0. rewrite A by exact HP0. apply hget_snoc_nil.
    + exact B.
    + rewrite hset_length, app_length. cbn [length]. lia.
  - destruct (nav h (root roots f) p) as [l|] eqn:En; [|repeat split; auto].
    destruct (nav h (root roots g) q) as [r0|] eqn:Eq; [|repeat split; auto].
    assert (HPl : ~ P l) by (apply (nav_outside P h Hno p (root roots f) l); [apply Hroots | exact En]).
    assert (HPr : ~ P r0) by (apply (nav_outside P h Hno q (root roots g) r0); [apply Hroots | exact Eq]).
    destruct (write_frame P h l k (R r0) HPl (fun r H => ltac:(inversion H; subst; exact HPr)) Hno) as [A [B C]].
    split; [exact A | split; [exact B | rewrite C; lia]].
Qed.

Lemma run_ops_frame (P : nat -> Prop) roots ops : forall h,
  (forall l, P l -> (l < length h)%nat) -> no_ptr_into P h ->
  (forall f r, root roots f = R r -> ~ P r) ->
  forall l, P l -> hget (run_ops roots ops h) l = hget h l.
Proof.
  induction ops as [|o ops IH]; intros h Hb Hno Hroots l HP; [reflexivity|].
  unfold run_ops. cbn [fold_left]. fold (run_ops roots ops (exec_op roots h o)).
  destruct (exec_op_frame P roots h o Hb Hno Hroots) as [A [B C]].
  rewrite IH; auto. intros l0 H0. specialize (Hb l0 H0). lia.
Qed.

Lemma view_frame d : forall h h' (P : nat -> Prop) v,
  inside d h P v -> (forall l, P l -> hget h' l = hget h l) -> view d h' v = view d h v.
Proof.
  induction d as [|d IH]; intros h h' P v Hin Heq; [reflexivity|].
  destruct v as [z|l]; [reflexivity|]. cbn in Hin |- *. destruct Hin as [HP Hk].
  rewrite (Heq l HP). f_equal. apply map_ext_in. intros [k x] Hx. cbn. f_equal.
  apply (IH h h' P); auto. apply (Hk k x Hx).
Qed.

(* ---- sibling isolation *)

(* writes through the ORIGINAL state after the copy are invisible through the copy,
   for every field, to the depth the field was copied *)
Theorem old_writes_invisible :
  forall t h olds h1 news ops,
    wf_heap h -> Forall (wf_val (length h)) olds -> derive t h olds = (h1, news) ->
    forall i d v', nth_error (depths t) i = Some d -> nth_error news i = Some v' ->
      view d (run_ops olds ops h1) v' = view d h1 v'.
Proof.
  intros t h olds h1 news ops Hwf Holds E i d v' Hd Hv'.
  destruct (derive_ok t h olds h1 news Hwf Holds E) as [[e He] [Hwf1 [Hnews [Hlen [Hin [Href Hroot]]]]]].
  apply (view_frame d h1 _ (fresh h h1)); [apply (Hin i d v' Hd Hv')|].
  apply run_ops_frame.
  - intros l [_ B]. exact B.
  - intros l HP k r Hr [F1 F2].
    destruct (lt_dec l (length h)) as [Hl|Hl].
    + rewrite He, hget_app_l in Hr by exact Hl. pose proof (Hwf l k (R r) Hr) as W. cbn in W. lia.
    + destruct (lt_dec l (length h1)) as [Hl1|Hl1].
      * apply HP. split; lia.
      * rewrite hget_beyond in Hr by lia. destruct Hr.
  - apply root_outside. intros v Hv r -> [F1 F2].
    eapply Forall_forall in Holds; [|exact Hv]. cbn in Holds. lia.
Qed.

(* writes through the COPY are invisible through the original state for every field, to the
   depth the field was copied, provided the original's objects down to that depth (P) are private
   to it: referenced from nowhere else, and not again below the copied levels *)
Theorem new_writes_invisible :
  forall t h olds h1 news ops (P : nat -> Prop),
    wf_heap h -> Forall (wf_val (length h)) olds -> derive t h olds = (h1, news) ->
    (forall l, P l -> (l < length h)%nat) ->
    no_ptr_into P h ->
    (forall i d v, nth_error (depths t) i = Some d -> nth_error olds i = Some v ->
       inside d h P v /\ forall r, at_level d h v r -> ~ P r) ->
    forall i d v, nth_error (depths t) i = Some d -> nth_error olds i = Some v ->
      view d (run_ops news ops h1) v = view d h v.
Proof.
  intros t h olds h1 news ops P Hwf Holds E Hb Hno Hpriv i d v Hd Hv.
  destruct (derive_ok t h olds h1 news Hwf Holds E) as [[e He] [Hwf1 [Hnews [Hlen [Hin [Href Hroot]]]]]].
  assert (Hl1 : (length h <= length h1)%nat) by (rewrite He, app_length; lia).
  apply (view_frame d h _ P); [apply (Hpriv i d v Hd Hv)|].
  intros l HP. rewrite (run_ops_frame P news ops h1); auto.
  - rewrite He. apply hget_app_l. apply Hb, HP.
  - intros l0 H0. specialize (Hb l0 H0). lia.
  - intros l0 HP0 k r Hr HPr.
    destruct (lt_dec l0 (length h)) as [Hl|Hl].
    + rewrite He, hget_app_l in Hr by exact Hl. apply (Hno l0 HP0 k r Hr HPr).
    + destruct (lt_dec l0 (length h1)) as [Hl0|Hl0].
      * destruct (Href l0 (conj (proj1 (Nat.nlt_ge _ _) Hl) Hl0) k r Hr) as [[F1 F2]|[j [d0 [v0 [Hd0 [Hv0 Ha]]]]]].
        -- apply Hb in HPr. lia.
        -- apply (proj2 (Hpriv j d0 v0 Hd0 Hv0) r Ha HPr).
      * rewrite hget_beyond in Hr by lia. destruct Hr.
  - apply root_outside. intros v' Hv' r -> HPr.
    apply In_nth_error in Hv'. destruct Hv' as [j Hj].
    assert (Hjl : (j < length news)%nat) by (apply nth_error_Some; rewrite Hj; discriminate).
    rewrite Hlen in Hjl.
    destruct (nth_error (depths t) j) as [d0|] eqn:Ed0.
    2:{ apply nth_error_None in Ed0. lia. }
    destruct (nth_error olds j) as [v0|] eqn:Ev0.
    2:{ apply nth_error_None in Ev0. lia. }
    destruct (Hroot j d0 v0 (R r) r Ed0 Ev0 Hj eq_refl) as [[F1 F2]|F].
    + apply Hb in HPr. lia.
    + apply (proj2 (Hpriv j d0 v0 Ed0 Ev0) r F HPr).
Qed.


Lemma store_example :
  let h : heap := [[(0, I 5)]; [(0, R 0%nat); (1, I 1)]; [(0, I 9)]] in
  let olds := [R 1%nat; R 2%nat] in
  let t := [("storage", Deep); ("known_keys", Share)]%string in
  let P := fun l => (l < 2)%nat in
  let ops := [OSet 0 [0] 0 77; OSet 1 [] 0 88] in
  wf_heap h /\ no_ptr_into P h /\
  (forall i d v, nth_error (depths t) i = Some d -> nth_error olds i = Some v ->
     inside d h P v /\ forall r, at_level d h v r -> ~ P r) /\
  view 8 (run_ops (snd (derive t h olds)) ops (fst (derive t h olds))) (R 1%nat) = view 8 h (R 1%nat) /\
  view 8 (run_ops (snd (derive t h olds)) ops (fst (derive t h olds))) (nth 0 (snd (derive t h olds)) (I 0))
    <> view 8 (fst (derive t h olds)) (nth 0 (snd (derive t h olds)) (I 0)) /\
  view 1 (run_ops (snd (derive t h olds)) ops (fst (derive t h olds))) (R 2%nat) <> view 1 h (R 2%nat).
Proof.
  cbv zeta. split; [|split; [|split; [|split; [|split]]]].
  - intros l k v Hin. destruct l as [|[|[|l]]]; cbn in Hin.
    + destruct Hin as [E|[]]. inversion E. exact Logic.I.
    + destruct Hin as [E|[E|[]]]; inversion E; cbn; [lia | exact Logic.I].
    + destruct Hin as [E|[]]. inversion E. exact Logic.I.
    + destruct l; destruct Hin.
  - intros l HP k r Hin. destruct l as [|[|[|l]]]; cbn in Hin.
    + exfalso. apply HP. lia.
    + exfalso. apply HP. lia.
    + destruct Hin as [E|[]]. inversion E.
    + destruct l; destruct Hin.
  - intros i d v Hd Hv. destruct i as [|[|i]]; cbn in Hd, Hv.
    + injection Hd as <-. injection Hv as <-. split.
      * cbn. split; [lia|]. intros k x [E|[E|[]]]; inversion E; subst; [|exact Logic.I].
        split; [lia|]. intros k' x' [E'|[]]. inversion E'. exact Logic.I.
      * intros r Ha. cbn in Ha. destruct Ha as [k [x [[E|[E|[]]] Ha]]]; inversion E; subst; [|destruct Ha].
        destruct Ha as [k' [x' [[E'|[]] Ha']]]. inversion E'; subst. destruct Ha'.
    + injection Hd as <-. injection Hv as <-. split; [exact Logic.I|].
      intros r Ha. cbn in Ha. inversion Ha. lia.
    + destruct i; discriminate.
  - vm_compute. reflexivity.
  - vm_compute. discriminate.
  - vm_compute. discriminate.
Qed.
