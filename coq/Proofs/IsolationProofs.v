(* Proofs for C20 (Model/IsolationModel.v against Spec/IsolationSpec.v). *)
From Coq Require Import String ZArith List Bool Lia.
From HV Require Import Gen.GenCopies Spec.IsolationSpec Model.IsolationModel.
Import ListNotations.
Open Scope Z_scope.

(* ================================================================ Part R: runner *)

Section Runner.
Variable sys : system.
Variable s0 : Z.

Definition canon (n : nat) : ctx := let '(ls, seen) := layers sys s0 n in mkCtx ls seen.
Definition layer (n : nat) : list Z := last (fst (layers sys s0 n)) [].

Lemma canon_frontier n : frontier (canon n) = fst (layers sys s0 n).
Proof. unfold canon. destruct (layers sys s0 n). reflexivity. Qed.

Lemma canon_visited n : visited (canon n) = snd (layers sys s0 n).
Proof. unfold canon. destruct (layers sys s0 n). reflexivity. Qed.

Lemma layers_S n :
  layers sys s0 (S n) =
  (fst (layers sys s0 n) ++ [snd (dedup (sid sys) (snd (layers sys s0 n)) (flat_map (step sys) (layer n)))],
   fst (dedup (sid sys) (snd (layers sys s0 n)) (flat_map (step sys) (layer n)))).
Proof.
  unfold layer. cbn [layers]. destruct (layers sys s0 n) as [ls seen]. cbn [fst snd].
  destruct (dedup (sid sys) seen (flat_map (step sys) (last ls []))). reflexivity.
Qed.

Lemma layer_S n :
  layer (S n) = snd (dedup (sid sys) (snd (layers sys s0 n)) (flat_map (step sys) (layer n))).
Proof. unfold layer at 1. rewrite layers_S. cbn [fst]. apply last_last. Qed.

Lemma frontier_S n : fst (layers sys s0 (S n)) = fst (layers sys s0 n) ++ [layer (S n)].
Proof. rewrite layer_S, layers_S. reflexivity. Qed.

Lemma canon_S n :
  canon (S n) = mkCtx (fst (layers sys s0 n) ++ [layer (S n)])
                      (fst (dedup (sid sys) (snd (layers sys s0 n)) (flat_map (step sys) (layer n)))).
Proof. unfold canon. rewrite layer_S, layers_S. reflexivity. Qed.

Lemma layers_length n : length (fst (layers sys s0 n)) = S n.
Proof.
  induction n as [|n IH]; [reflexivity|].
  rewrite frontier_S, app_length, IH. cbn. lia.
Qed.

Lemma layers_nth m d : (d <= m)%nat -> nth_error (fst (layers sys s0 m)) d = Some (layer d).
Proof.
  induction m as [|m IH]; intros Hd.
  - assert (d = O) by lia. subst. reflexivity.
  - rewrite frontier_S. destruct (Nat.eq_dec d (S m)) as [->|Hne].
    + rewrite nth_error_app2 by (rewrite layers_length; lia).
      rewrite layers_length, Nat.sub_diag. reflexivity.
    + rewrite nth_error_app1 by (rewrite layers_length; lia). apply IH. lia.
Qed.

Lemma layers_nth_none m d : (m < d)%nat -> nth_error (fst (layers sys s0 m)) d = None.
Proof. intros. apply nth_error_None. rewrite layers_length. lia. Qed.

Lemma spec_paths_S body D :
  spec_paths sys body s0 (S D) = spec_paths sys body s0 D ++ flat_map body (layer (S D)).
Proof.
  unfold spec_paths. rewrite frontier_S, concat_app, flat_map_app. cbn [concat].
  rewrite app_nil_r. reflexivity.
Qed.

Lemma run_states_none body sts : run_states body None sts = (flat_map body sts, None).
Proof.
  induction sts as [|s r IH]; [reflexivity|].
  cbn [run_states exhausted take_budget flat_map]. rewrite IH. reflexivity.
Qed.

Lemma lazy_posts_none sd body posts : forall vis acc,
  lazy_posts sd body None vis acc posts =
  (flat_map body (snd (dedup sd vis posts)), None, fst (dedup sd vis posts), acc ++ snd (dedup sd vis posts)).
Proof.
  induction posts as [|p r IH]; intros vis acc.
  - cbn. rewrite app_nil_r. reflexivity.
  - cbn [lazy_posts exhausted dedup]. destruct (memZ (sd p) vis).
    + apply IH.
    + cbn [take_budget]. rewrite IH.
      destruct (dedup sd (sd p :: vis) r) as [s' k]. cbn [fst snd flat_map].
      rewrite <- app_assoc. reflexivity.
Qed.

Lemma run_depth_cached body m d : (d <= m)%nat ->
  run_depth sys body (canon m) None d = (flat_map body (layer d), None, canon m).
Proof.
  intros Hd. unfold run_depth. rewrite canon_frontier, layers_nth by exact Hd.
  rewrite run_states_none. reflexivity.
Qed.

Lemma run_depth_new body m :
  run_depth sys body (canon m) None (S m) = (flat_map body (layer (S m)), None, canon (S m)).
Proof.
  unfold run_depth. rewrite canon_frontier, layers_nth_none by lia.
  cbn [exhausted]. rewrite layers_length, Nat.eqb_refl.
  replace (S m - 1)%nat with m by lia.
  assert (Hn : nth m (fst (layers sys s0 m)) [] = layer m).
  { apply nth_error_nth. apply layers_nth. lia. }
  rewrite Hn, canon_visited, lazy_posts_none. cbn [app].
  rewrite <- layer_S, canon_S. reflexivity.
Qed.

Lemma run_depths_app body l1 l2 c b :
  run_depths sys body (l1 ++ l2) c b =
  let '(p, b1, c1) := run_depths sys body l1 c b in
  let '(q, b2, c2) := run_depths sys body l2 c1 b1 in (p ++ q, b2, c2).
Proof.
  revert c b. induction l1 as [|d l1 IH]; intros c b.
  - cbn. destruct (run_depths sys body l2 c b) as [[q b2] c2]. reflexivity.
  - cbn [app run_depths]. destruct (run_depth sys body c b d) as [[p b1] c1].
    rewrite IH. destruct (run_depths sys body l1 c1 b1) as [[p' b1'] c1'].
    destruct (run_depths sys body l2 c1' b1') as [[q b2] c2]. rewrite app_assoc. reflexivity.
Qed.

Lemma layer_0 : layer 0 = [s0].
Proof. reflexivity. Qed.

Lemma run_depths_complete body D : forall m,
  run_depths sys body (seq 0 (S D)) (canon m) None =
  (spec_paths sys body s0 D, None, canon (Nat.max m D)).
Proof.
  induction D as [|D IH]; intros m.
  - cbn [seq run_depths]. rewrite run_depth_cached by lia. rewrite layer_0.
    rewrite Nat.max_0_r. unfold spec_paths. cbn. rewrite !app_nil_r. reflexivity.
  - rewrite seq_S, run_depths_app, IH. cbn [plus run_depths].
    destruct (le_lt_dec (S D) (Nat.max m D)) as [Hle|Hlt].
    + rewrite run_depth_cached by exact Hle. rewrite spec_paths_S, app_nil_r.
      replace (Nat.max m (S D)) with (Nat.max m D) by lia. reflexivity.
    + assert (Hm : Nat.max m D = D) by lia. rewrite Hm, run_depth_new.
      rewrite spec_paths_S, app_nil_r. replace (Nat.max m (S D)) with (S D) by lia. reflexivity.
Qed.

Lemma run_test_complete t m : t_budget t = None ->
  run_test sys t (canon m) = (spec_paths sys (t_body t) s0 (t_depth t), canon (Nat.max m (t_depth t))).
Proof. intros Hb. unfold run_test. rewrite Hb, run_depths_complete. reflexivity. Qed.

(* a regular test (depth 0) never touches the contract-level caches, whatever its budget *)
Lemma run_test_regular t m : t_depth t = O -> snd (run_test sys t (canon m)) = canon m.
Proof.
  intros Hd. unfold run_test. rewrite Hd. cbn [seq run_depths]. unfold run_depth.
  rewrite canon_frontier, layers_nth by lia.
  destruct (run_states (t_body t) (t_budget t) (layer 0)). reflexivity.
Qed.

Definition prefix_ok (u : test) : Prop := t_budget u = None \/ t_depth u = O.

Lemma run_tests_app a : forall b c,
  run_tests sys (a ++ b) c =
  let '(r1, c1) := run_tests sys a c in
  let '(r2, c2) := run_tests sys b c1 in (r1 ++ r2, c2).
Proof.
  induction a as [|t a IH]; intros b c.
  - cbn. destruct (run_tests sys b c). reflexivity.
  - cbn [app run_tests]. destruct (run_test sys t c) as [p c1]. rewrite IH.
    destruct (run_tests sys a c1) as [r1 c1']. destruct (run_tests sys b c1') as [r2 c2]. reflexivity.
Qed.

Lemma prefix_canon pre : Forall prefix_ok pre -> forall m,
  exists m', snd (run_tests sys pre (canon m)) = canon m' /\
             length (fst (run_tests sys pre (canon m))) = length pre.
Proof.
  induction 1 as [|t pre Ht _ IH]; intros m.
  - exists m. split; reflexivity.
  - cbn [run_tests]. destruct (run_test sys t (canon m)) as [p c1] eqn:E.
    assert (Hc : exists m1, c1 = canon m1).
    { destruct Ht as [Hb|Hd].
      - rewrite (run_test_complete t m Hb) in E. inversion E. eauto.
      - pose proof (run_test_regular t m Hd) as Hr. rewrite E in Hr. cbn in Hr. eauto. }
    destruct Hc as [m1 ->]. destruct (IH m1) as [m' [H1 H2]].
    destruct (run_tests sys pre (canon m1)) as [ps c2]. cbn in *. exists m'. split; [exact H1|lia].
Qed.

Lemma init_canon : init_ctx sys s0 = canon 0.
Proof. reflexivity. Qed.

(* order independence: after ANY prefix of completed invariant tests and arbitrary
   (even interrupted) regular tests, a completed test yields exactly its result alone *)
Theorem order_independent pre t :
  Forall prefix_ok pre -> t_budget t = None ->
  nth (length pre) (run_contract sys s0 (pre ++ [t])) [] = spec_paths sys (t_body t) s0 (t_depth t).
Proof.
  intros Hpre Hb. unfold run_contract. rewrite init_canon, run_tests_app.
  destruct (prefix_canon pre Hpre O) as [m' [Hc Hl]].
  destruct (run_tests sys pre (canon 0)) as [r1 c1]. cbn in Hc, Hl. subst c1.
  cbn [run_tests]. rewrite (run_test_complete t m' Hb). cbn [fst].
  rewrite app_nth2 by lia. rewrite Hl, Nat.sub_diag. reflexivity.
Qed.

Lemma run_tests_all ts : Forall (fun t => t_budget t = None) ts -> forall m,
  fst (run_tests sys ts (canon m)) = map (fun t => spec_paths sys (t_body t) s0 (t_depth t)) ts.
Proof.
  induction 1 as [|t ts Ht _ IH]; intros m; [reflexivity|].
  cbn [run_tests map]. rewrite (run_test_complete t m Ht).
  specialize (IH (Nat.max m (t_depth t))).
  destruct (run_tests sys ts (canon (Nat.max m (t_depth t)))). cbn in *. rewrite IH. reflexivity.
Qed.

Theorem all_complete ts : Forall (fun t => t_budget t = None) ts ->
  run_contract sys s0 ts = map (fun t => spec_paths sys (t_body t) s0 (t_depth t)) ts.
Proof. intros H. unfold run_contract. rewrite init_canon. apply run_tests_all, H. Qed.

End Runner.

(* running the same completed test twice (or any number of times) in one contract run *)
Theorem repeat_same sys s0 t n : t_budget t = None ->
  run_contract sys s0 (repeat t n) = repeat (spec_paths sys (t_body t) s0 (t_depth t)) n.
Proof.
  intros Hb. rewrite all_complete.
  - induction n; cbn; [reflexivity | f_equal; assumption].
  - induction n; constructor; assumption.
Qed.

(* F10: a test whose consumer loop breaks (budget) leaves a partial frontier in the cache;
   a later completed invariant test then misses states *)
Definition f10_sys : system := mkSystem (fun s => [s + 1; s + 2]) (fun s => s).
Definition f10_t1 : test := mkTest 1 (fun s => [if s =? 1 then 1 else 0]) (Some 2%nat).
Definition f10_t2 : test := mkTest 1 (fun s => [if s =? 2 then 1 else 0]) None.

Lemma f10_witness :
  nth 1 (run_contract f10_sys 0 [f10_t1; f10_t2]) [] = [0; 0] /\
  spec_paths f10_sys (t_body f10_t2) 0 (t_depth f10_t2) = [0; 0; 1] /\
  verdict_of (nth 1 (run_contract f10_sys 0 [f10_t1; f10_t2]) []) = 0 /\
  verdict_of (spec_paths f10_sys (t_body f10_t2) 0 (t_depth f10_t2)) = 1.
Proof. repeat split; vm_compute; reflexivity. Qed.

(* ================================================================ Part N: renaming *)

Lemma eval_rename r s t : eval s (rename r t) = eval (fun n => s (r n)) t.
Proof.
  induction t; cbn [eval rename]; try rewrite IHt1; try rewrite IHt2; try rewrite IHt; reflexivity.
Qed.

Lemma eval_ext s s' t : (forall n, In n (vars t) -> s n = s' n) -> eval s t = eval s' t.
Proof.
  induction t; cbn [eval vars]; intros H;
    try rewrite IHt1 by (intros; apply H; apply in_or_app; auto);
    try rewrite IHt2 by (intros; apply H; apply in_or_app; auto);
    try rewrite IHt by (intros; apply H; auto); try reflexivity.
  apply H. left. reflexivity.
Qed.

(* push a valuation of the original symbols forward along an injective renaming *)
Definition push (r : Z -> Z) (dom : list Z) (s : Z -> Z) : Z -> Z :=
  fun n => match find (fun v => r v =? n) dom with Some v => s v | None => 0 end.

Lemma push_spec r dom s x : inj_on r dom -> In x dom -> push r dom s (r x) = s x.
Proof.
  intros Hinj Hx. unfold push.
  destruct (find (fun v => r v =? r x) dom) as [v|] eqn:E.
  - apply find_some in E. destruct E as [Hv He]. apply Z.eqb_eq in He.
    f_equal. apply Hinj; assumption.
  - exfalso. pose proof (find_none _ _ E x Hx) as Hn. cbn in Hn. rewrite Z.eqb_refl in Hn. discriminate.
Qed.

Lemma holds_pull r s' t : holds s' (rename r t) -> holds (fun n => s' (r n)) t.
Proof. unfold holds. rewrite eval_rename. auto. Qed.

Lemma holds_push r s t : inj_on r (vars t) -> holds s t -> holds (push r (vars t) s) (rename r t).
Proof.
  unfold holds. intros Hinj H. rewrite eval_rename.
  rewrite (eval_ext _ s); [exact H|]. intros n Hn. apply push_spec; assumption.
Qed.

Theorem sat_rename r t : inj_on r (vars t) -> (sat t <-> sat (rename r t)).
Proof.
  intros Hinj. split; intros [s H].
  - exists (push r (vars t) s). apply holds_push; assumption.
  - exists (fun n => s (r n)). apply holds_pull; assumption.
Qed.

Section Solver.
Variable slv : solver.
Hypothesis slv_sound : forall q m, slv q = Some m -> holds m q.
Hypothesis slv_complete : forall q, slv q = None -> ~ sat q.

Lemma slv_some_iff q : (exists m, slv q = Some m) <-> sat q.
Proof.
  split.
  - intros [m H]. exists m. eauto.
  - intros Hs. destruct (slv q) eqn:E; [eauto|]. exfalso. exact (slv_complete q E Hs).
Qed.

Theorem has_cex_rename r qs :
  Forall (fun q => inj_on r (vars q)) qs ->
  has_cex slv (map (rename r) qs) = has_cex slv qs.
Proof.
  induction 1 as [|q qs Hq _ IH]; [reflexivity|].
  unfold has_cex in *. cbn [map existsb]. rewrite IH. f_equal.
  pose proof (slv_some_iff q) as A. pose proof (slv_some_iff (rename r q)) as B.
  pose proof (sat_rename r q Hq) as C.
  destruct (slv q) eqn:E1; destruct (slv (rename r q)) eqn:E2; try reflexivity; exfalso.
  - assert (S1 : sat q) by (apply A; eauto). apply C, B in S1. destruct S1; discriminate.
  - assert (S2 : sat (rename r q)) by (apply B; eauto). apply C, A in S2. destruct S2; discriminate.
Qed.
End Solver.

(* without injectivity (two fresh symbols receiving the same name) a verdict can change *)
Lemma rename_collision :
  sat (TNot (TEq (TVar 1) (TVar 2))) /\ ~ sat (rename (fun _ => 7) (TNot (TEq (TVar 1) (TVar 2)))).
Proof.
  split.
  - exists (fun n => n). unfold holds. cbn. discriminate.
  - intros [s H]. unfold holds in H. cbn in H. rewrite Z.eqb_refl in H. cbn in H. congruence.
Qed.

Theorem rename_full :
  forall (r : Z -> Z) (q : term), inj_on r (vars q) ->
    (sat q <-> sat (rename r q)) /\
    (forall m', holds m' (rename r q) -> holds (fun n => m' (r n)) q) /\
    (forall m, holds m q -> holds (push r (vars q) m) (rename r q)).
Proof.
  intros r q Hinj. split; [exact (sat_rename r q Hinj)|].
  split; [intros m' H; exact (holds_pull r m' q H) | intros m H; exact (holds_push r m q Hinj H)].
Qed.

Theorem f10_refuted :
  exists (sys : system) (s0 : Z) (t1 t2 : test),
    t_budget t2 = None /\
    verdict_of (nth 1 (run_contract sys s0 [t1; t2]) []) = 0 /\
    verdict_of (spec_paths sys (t_body t2) s0 (t_depth t2)) = 1.
Proof.
  exists f10_sys, 0, f10_t1, f10_t2. split; [reflexivity|].
  split; [exact (proj1 (proj2 (proj2 f10_witness))) | exact (proj2 (proj2 (proj2 f10_witness)))].
Qed.

Theorem rename_collision_refuted : exists (r : Z -> Z) (q : term), sat q /\ ~ sat (rename r q).
Proof. exists (fun _ => 7), (TNot (TEq (TVar 1) (TVar 2))). exact rename_collision. Qed.

(* ================================================================ regenerated tables (finite) *)

Theorem tables_sufficient :
  table_ok exec_need create_branch_table = true /\
  table_ok exec_need run_message_table = true /\
  table_ok path_need path_branch_table = true /\
  table_ok path_need extend_path_table = true.
Proof. repeat split; vm_compute; reflexivity. Qed.

Theorem shared_exact :
  shared_fields create_branch_table = ["balance"; "call_sequence"; "callback"; "pgm"; "known_keys"; "known_sigs"]%string /\
  shared_fields run_message_table = ["balance"; "call_sequence"; "pgm"]%string /\
  shared_fields path_branch_table = ["solver"; "term_to_vars"]%string /\
  shared_fields extend_path_table = ["term_to_vars"]%string.
Proof. repeat split; vm_compute; reflexivity. Qed.
