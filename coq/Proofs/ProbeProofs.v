(* C15: with the regenerated decisions of Gen/GenProbes.v, a function enters probes_reported only
   together with a counterexample, and every function with a genuine failing path gets a counterexample. *)
From Coq Require Import ZArith List Bool Lia.
From HV Require Import Spec.ProbeSpec Gen.GenProbes Model.ProbeModel.
Import ListNotations.
Open Scope Z_scope.

Lemma pmem_In : forall x l, pmem x l = true <-> In x l.
Proof.
  intros x l. unfold pmem. rewrite existsb_exists. split.
  - intros [y [Hy E]]. apply Z.eqb_eq in E. subst. exact Hy.
  - intros H. exists x. split; [exact H | apply Z.eqb_refl].
Qed.

(* the callback marks a function only when it also outputs the counterexample *)
Lemma marks_reports : forall r m, probe_callback_marks r m = true -> probe_callback_reports r m = true.
Proof. intros r m. destruct r, m; cbn; intros H; first [reflexivity | discriminate H]. Qed.

(* a genuine failure (sat, with a model) is output *)
Lemma genuine_reports : probe_callback_reports RSat true = true.
Proof. reflexivity. Qed.

(* nothing is marked when the query is merely queued *)
Lemma submit_does_not_mark : probe_submit_marks = false.
Proof. reflexivity. Qed.

Lemma prun_from_app : forall a b s, prun_from s (a ++ b) = prun_from (prun_from s a) b.
Proof. intros a b s. unfold prun_from. apply fold_left_app. Qed.

(* ---- one step *)
Lemma step_cex_mono : forall s e q, In q (ps_cex s) -> In q (ps_cex (pstep s e)).
Proof.
  intros s e q H. destruct e as [p r m | k]; cbn [pstep].
  - destruct (probe_skip_if_reported && pmem p (ps_reported s)); exact H.
  - destruct (nth_error (ps_submitted s) k) as [[[p r] m] |]; [| exact H]. cbn [ps_cex].
    destruct (probe_callback_reports r m); [apply in_or_app; left |]; exact H.
Qed.

Lemma step_submitted_prefix : forall s e, exists l, ps_submitted (pstep s e) = ps_submitted s ++ l.
Proof.
  intros s e. destruct e as [p r m | k]; cbn [pstep].
  - destruct (probe_skip_if_reported && pmem p (ps_reported s)); cbn [ps_submitted].
    + exists []. now rewrite app_nil_r.
    + eexists. reflexivity.
  - destruct (nth_error (ps_submitted s) k) as [[[p r] m] |]; exists []; now rewrite app_nil_r.
Qed.

Lemma step_marked_cex : forall s e,
  (forall q, In q (ps_reported s) -> In q (ps_cex s)) ->
  forall q, In q (ps_reported (pstep s e)) -> In q (ps_cex (pstep s e)).
Proof.
  intros s e I q. destruct e as [p r m | k]; cbn [pstep].
  - destruct (probe_skip_if_reported && pmem p (ps_reported s)); cbn [ps_reported ps_cex].
    + apply I.
    + rewrite submit_does_not_mark. apply I.
  - destruct (nth_error (ps_submitted s) k) as [[[p r] m] |]; [| apply I]. cbn [ps_reported ps_cex].
    destruct (probe_callback_marks r m) eqn:M.
    + rewrite (marks_reports r m M). intros [E | H]; apply in_or_app.
      * right. left. exact E.
      * left. apply I. exact H.
    + intros H. destruct (probe_callback_reports r m); [apply in_or_app; left |]; apply I; exact H.
Qed.

(* ---- runs *)
Lemma run_cex_mono : forall evs s q, In q (ps_cex s) -> In q (ps_cex (prun_from s evs)).
Proof.
  induction evs as [|e evs IH]; intros s q H; [exact H |]. cbn. apply IH. apply step_cex_mono. exact H.
Qed.

Lemma run_submitted_prefix : forall evs s, exists l, ps_submitted (prun_from s evs) = ps_submitted s ++ l.
Proof.
  induction evs as [|e evs IH]; intros s.
  - exists []. cbn. now rewrite app_nil_r.
  - cbn. destruct (IH (pstep s e)) as [l1 H1]. destruct (step_submitted_prefix s e) as [l2 H2].
    exists (l2 ++ l1). unfold prun_from in H1. rewrite H1, H2, app_assoc. reflexivity.
Qed.

Lemma run_marked_cex : forall evs s,
  (forall q, In q (ps_reported s) -> In q (ps_cex s)) ->
  forall q, In q (ps_reported (prun_from s evs)) -> In q (ps_cex (prun_from s evs)).
Proof.
  induction evs as [|e evs IH]; intros s I; [exact I |]. cbn. apply IH. apply step_marked_cex. exact I.
Qed.

(* a function is marked as reported only when a counterexample for it has been output *)
Lemma marked_only_with_cex : forall evs q, In q (ps_reported (prun evs)) -> In q (ps_cex (prun evs)).
Proof. intros evs. unfold prun. apply run_marked_cex. intros q []. Qed.

Lemma path_skipped : forall s p,
  probe_skip_if_reported && pmem p (ps_reported s) = true -> In p (ps_reported s).
Proof. intros s p H. apply andb_true_iff in H. destruct H as [_ H]. apply pmem_In. exact H. Qed.

Lemma path_submitted : forall s p r m,
  probe_skip_if_reported && pmem p (ps_reported s) = false ->
  ps_submitted (pstep s (EPath p r m)) = ps_submitted s ++ [(p, r, m)].
Proof. intros s p r m H. cbn [pstep]. rewrite H. reflexivity. Qed.

Lemma done_reports : forall s k p,
  nth_error (ps_submitted s) k = Some (p, RSat, true) -> In p (ps_cex (pstep s (EDone k))).
Proof.
  intros s k p H. cbn [pstep]. rewrite H. cbn [ps_cex]. rewrite genuine_reports.
  apply in_or_app. right. left. reflexivity.
Qed.

Lemma prun_snoc : forall pre e, prun (pre ++ [e]) = pstep (prun pre) e.
Proof. intros pre e. unfold prun. rewrite prun_from_app. reflexivity. Qed.

(* every function with a genuine failing path gets a counterexample, whatever was submitted before
   and whenever the answers arrive *)
Lemma genuine_reported : forall evs p,
  all_answered evs ->
  (exists pre post, evs = pre ++ EPath p RSat true :: post) ->
  In p (ps_cex (prun evs)).
Proof.
  intros evs p Hans [pre [post E]].
  pose proof (Hans pre (EPath p RSat true) post E) as Hk.
  assert (Hfin : prun evs = prun_from (pstep (prun pre) (EPath p RSat true)) post).
  { subst evs. unfold prun. rewrite prun_from_app. reflexivity. }
  rewrite Hfin. rewrite prun_snoc in Hk.
  destruct (probe_skip_if_reported && pmem p (ps_reported (prun pre))) eqn:Sk.
  - (* skipped: p is marked, hence a counterexample has been output *)
    apply run_cex_mono. apply step_cex_mono. apply marked_only_with_cex. apply path_skipped. exact Sk.
  - (* submitted as query number (length (ps_submitted (prun pre))): its answer arrives in post *)
    rewrite (path_submitted _ p RSat true Sk), app_length in Hk. cbn [length] in Hk.
    assert (Hin : In (EDone (length (ps_submitted (prun pre)))) post) by (apply Hk; lia).
    apply in_split in Hin. destruct Hin as [post1 [post2 Ep]]. rewrite Ep.
    rewrite prun_from_app.
    change (In p (ps_cex (prun_from (pstep (prun_from (pstep (prun pre) (EPath p RSat true)) post1)
                                           (EDone (length (ps_submitted (prun pre))))) post2))).
    apply run_cex_mono. apply done_reports.
    destruct (run_submitted_prefix post1 (pstep (prun pre) (EPath p RSat true))) as [l Hl].
    rewrite Hl, (path_submitted _ p RSat true Sk), <- app_assoc.
    rewrite nth_error_app2 by lia. rewrite Nat.sub_diag. reflexivity.
Qed.
