(* C16 — proofs about Model/CacheModel.v *)
From Coq Require Import ZArith List Bool Lia.
From HV Require Import Gen.GenUnsatCore Gen.GenCoreAppend Spec.CacheSpec Model.CacheModel.
Import ListNotations.
Open Scope Z_scope.

(* ================================================================== the cache *)
Section CacheProofs.
  Variable id : Type.
  Variable id_eqb : id -> id -> bool.
  Hypothesis id_eqb_spec : forall a b, id_eqb a b = true <-> a = b.
  Variables (formula model V : Type).
  Variable holds : V -> formula -> Prop.
  Variable low : bool -> query id formula -> reply id model.
  Variable refine_changes : query id formula -> bool.

  Notation query := (query id formula).
  Notation reply := (reply id model).
  Notation event := (event id formula model).
  Notation mem := (mem id id_eqb).
  Notation check := (check_unsat_cores id id_eqb).
  Notation select := (select id id_eqb formula).
  Notation callback := (callback id model).
  Notation e2e := (solve_end_to_end id id_eqb formula model low refine_changes).
  Notation run := (run id id_eqb formula model low refine_changes).
  Notation sat := (sat formula V holds).
  Notation unsat := (unsat formula V holds).

  Lemma mem_In : forall i l, mem i l = true <-> In i l.
  Proof.
    intros i l. unfold CacheModel.mem. rewrite existsb_exists. split.
    - intros [x [Hx He]]. apply id_eqb_spec in He. subst. exact Hx.
    - intros H. exists i. split; [exact H | apply id_eqb_spec; reflexivity].
  Qed.

  (* characterisation of the generated check_unsat_cores *)
  Lemma check_spec : forall a cores,
    check a cores = true <-> exists c, In c cores /\ forall i, In i c -> In i a.
  Proof.
    intros a cores. unfold check_unsat_cores, gen_check_unsat_cores.
    rewrite ?orb_false_r, ?orb_false_l, ?andb_true_r, ?andb_true_l.
    rewrite existsb_exists. split.
    - intros [c [Hc Hall]]. exists c. split; [exact Hc|].
      rewrite forallb_forall in Hall. intros i Hi. apply mem_In. apply Hall. exact Hi.
    - intros [c [Hc Hall]]. exists c. split; [exact Hc|].
      rewrite forallb_forall. intros i Hi. apply mem_In. apply Hall. exact Hi.
  Qed.

  Lemma check_nil : forall a, check a [] = false.
  Proof.
    intros a. destruct (check a []) eqn:E; [|reflexivity].
    apply check_spec in E. destruct E as [c [[] _]].
  Qed.

  Lemma in_select : forall q c f,
    In f (select q c) <-> exists i, In (i, f) q /\ In i c.
  Proof.
    intros q c f. unfold CacheModel.select. rewrite in_map_iff. split.
    - intros [[i f'] [Hf Hin]]. simpl in Hf. subst f'. apply filter_In in Hin. destruct Hin as [Hq Hm].
      simpl in Hm. apply mem_In in Hm. exists i. split; assumption.
    - intros [i [Hq Hc]]. exists (i, f). split; [reflexivity|]. apply filter_In. split; [exact Hq|].
      simpl. apply mem_In. exact Hc.
  Qed.

  Lemma in_qids : forall (q : query) i, In i (qids id formula q) -> exists f, In (i, f) q.
  Proof.
    intros q i H. unfold qids in H. apply in_map_iff in H. destruct H as [[i' f] [E Hin]].
    simpl in E. subst i'. exists f. exact Hin.
  Qed.

  (* two queries agree on the meaning of the identifiers they share *)
  Definition agree (q1 q2 : query) : Prop :=
    forall i f1 f2, In (i, f1) q1 -> In (i, f2) q2 -> f1 = f2.

  (* the heart: a core learnt on q0 transfers to any q that contains its ids with the same meaning *)
  Lemma core_transfers : forall (q0 q : query) c,
    unsat (select q0 c) -> agree q0 q ->
    (forall i, In i c -> In i (qids id formula q)) ->
    unsat (map snd q).
  Proof.
    intros q0 q c Hun Hag Hsub [v Hv]. apply Hun. exists v. intros f Hf.
    apply in_select in Hf. destruct Hf as [i [Hq0 Hc]].
    destruct (in_qids q i (Hsub i Hc)) as [f' Hq].
    rewrite (Hag i f f' Hq0 Hq). apply Hv. apply in_map_iff. exists (i, f'). split; [reflexivity | exact Hq].
  Qed.

  Lemma core_of_some : forall (r : reply) c, core_of id model r = Some c -> r = Unsat (Some c).
  Proof. intros r c H. destruct r; simpl in H; try discriminate. subst. reflexivity. Qed.

  Lemma callback_in : forall cores (r : reply) c,
    In c (callback cores r) -> In c cores \/ (r = Unsat (Some c) /\ c <> []).
  Proof.
    intros cores r c H. unfold CacheModel.callback in H.
    destruct (core_of id model r) as [c'|] eqn:E; [|destruct (gen_append_guard _ _); left; exact H].
    destruct (gen_append_guard (is_unsat id model r) (Some c')) eqn:G; [|left; exact H].
    apply in_app_or in H. destruct H as [H | [H | []]]; [left; exact H|].
    subst c'. right. split; [apply core_of_some; exact E|].
    (* the generated guard never lets an empty core through *)
    destruct c as [|x c]; [|discriminate]. exfalso.
    unfold gen_append_guard in G. destruct (is_unsat id model r); simpl in G; discriminate.
  Qed.

  (* an empty core (which would match every later query) is never stored *)
  Lemma callback_no_empty : forall cores (r : reply), In [] (callback cores r) -> In [] cores.
  Proof. intros cores r H. apply callback_in in H. destruct H as [H | [_ H]]; [exact H | contradiction]. Qed.

  Lemma callback_no_core : forall cores (r : reply), core_of id model r = None -> callback cores r = cores.
  Proof. intros cores r H. unfold CacheModel.callback. rewrite H. destruct (gen_append_guard _ _); reflexivity. Qed.

  (* ---------------- arbitrary schedules: look-ups and appends as events *)
  Definition ev_query (e : event) : query := match e with EvCheck q => q | EvLearn q _ => q end.

  Definition stable_events (evs : list event) : Prop :=
    forall e1 e2, In e1 evs -> In e2 evs -> agree (ev_query e1) (ev_query e2).

  Definition sound_events (evs : list event) : Prop :=
    forall q c, In (EvLearn q (Unsat (Some c))) evs -> c <> [] -> unsat (select q c).

  Definition witnessed (evs : list event) (cores : list (list id)) : Prop :=
    forall c, In c cores -> exists q0 r0, In (EvLearn q0 r0) evs /\ unsat (select q0 c).

  Lemma cores_after_witnessed : forall evs pre cores,
    sound_events evs -> (forall e, In e pre -> In e evs) ->
    witnessed evs cores -> witnessed evs (cores_after id formula model pre cores).
  Proof.
    intros evs pre. induction pre as [|e pre IH]; intros cores Hs Hsub Hw; simpl; [exact Hw|].
    destruct e as [q | q r].
    - apply IH; auto. intros e He. apply Hsub. right. exact He.
    - apply IH; auto.
      + intros e He. apply Hsub. right. exact He.
      + intros c Hc. apply callback_in in Hc. destruct Hc as [Hc | [Hc Hne]]; [apply Hw; exact Hc|].
        subst r. exists q, (Unsat (Some c)). split.
        * apply Hsub. left. reflexivity.
        * apply Hs; [|exact Hne]. apply Hsub. left. reflexivity.
  Qed.

  Theorem cache_sound_events : forall evs,
    sound_events evs -> stable_events evs ->
    forall pre q post, evs = pre ++ EvCheck q :: post ->
      check (qids id formula q) (cores_after id formula model pre []) = true ->
      unsat (map snd q).
  Proof.
    intros evs Hs Hst pre q post Heq Hhit.
    assert (Hw : witnessed evs (cores_after id formula model pre [])).
    { apply cores_after_witnessed; auto.
      - intros e He. rewrite Heq. apply in_or_app. left. exact He.
      - intros c []. }
    apply check_spec in Hhit. destruct Hhit as [c [Hc Hsub]].
    destruct (Hw c Hc) as [q0 [r0 [Hin Hun]]].
    apply (core_transfers q0 q c Hun); [|exact Hsub].
    apply (Hst (EvLearn q0 r0) (EvCheck q)); [exact Hin|].
    rewrite Heq. apply in_or_app. right. left. reflexivity.
  Qed.

  (* ---------------- one function context, sequential *)
  Definition stable_queries (qs : list query) : Prop :=
    forall q1 q2, In q1 qs -> In q2 qs -> agree q1 q2.

  Definition low_core_sound (qs : list query) : Prop :=
    forall q b c, In q qs -> low b q = Unsat (Some c) -> c <> [] -> unsat (select q c).

  Definition low_sat_sound (qs : list query) : Prop :=
    forall q b m v, In q qs -> low b q = Sat m v -> sat (map snd q).

  (* the pipeline without cache answers unsat on every really unsatisfiable query of the history *)
  Definition off_complete (qs : list query) : Prop :=
    forall q, In q qs -> unsat (map snd q) ->
      strip id model (e2e false [] q) = Unsat None.

  Definition witnessed_q (qs : list query) (cores : list (list id)) : Prop :=
    forall c, In c cores -> exists q0, In q0 qs /\ unsat (select q0 c).

  Lemma hit_unsat : forall qs cores q,
    stable_queries qs -> witnessed_q qs cores -> In q qs ->
    check (qids id formula q) cores = true -> unsat (map snd q).
  Proof.
    intros qs cores q Hst Hw Hq Hhit. apply check_spec in Hhit. destruct Hhit as [c [Hc Hsub]].
    destruct (Hw c Hc) as [q0 [Hq0 Hun]].
    apply (core_transfers q0 q c Hun); [apply Hst; assumption | exact Hsub].
  Qed.

  Lemma from_result_core : forall b (r : reply) c,
    from_result id model b r = Unsat (Some c) -> r = Unsat (Some c).
  Proof.
    intros b r c H. destruct r; simpl in H; try discriminate.
    unfold gen_core_of_reply in H. destruct b; [exact H | discriminate].
  Qed.

  (* the generated refinement step (Gen/GenUnsatCore.v gen_e2e_miss), read back as the case analysis the proofs use:
     a sat answer with an invalid model is the only one that is solved again, and only if refine() changed the text *)
  Lemma e2e_eq : forall cache cores q,
    e2e cache cores q =
    if check (qids id formula q) cores then Unsat None
    else match solve_low_level id formula model low cache false q with
         | Sat m false => if refine_changes q then solve_low_level id formula model low cache true q else Sat m false
         | r => r
         end.
  Proof.
    intros cache cores q. unfold solve_end_to_end, gen_e2e_miss.
    destruct (check (qids id formula q) cores); [reflexivity|].
    destruct (solve_low_level id formula model low cache false q) as [m [|] | co | |]; simpl; try reflexivity.
  Qed.

  Lemma e2e_core_origin : forall cache cores q c,
    e2e cache cores q = Unsat (Some c) -> exists b, low b q = Unsat (Some c).
  Proof.
    intros cache cores q c H. rewrite e2e_eq in H. unfold solve_low_level in H.
    destruct (check _ cores); [discriminate|].
    destruct (from_result id model cache (low false q)) as [m [|] | co | |] eqn:E.
    - discriminate.
    - destruct (refine_changes q); [|discriminate].
      exists true. eapply from_result_core. exact H.
    - exists false. eapply from_result_core. rewrite E. exact H.
    - discriminate.
    - discriminate.
  Qed.

  Lemma callback_witnessed : forall qs cores cache q,
    low_core_sound qs -> In q qs -> witnessed_q qs cores ->
    witnessed_q qs (callback cores (e2e cache cores q)).
  Proof.
    intros qs cores cache q Hs Hq Hw c Hc. apply callback_in in Hc. destruct Hc as [Hc | [Hc Hne]]; [apply Hw; exact Hc|].
    apply e2e_core_origin in Hc. destruct Hc as [b Hb]. exists q. split; [exact Hq|]. eapply Hs; eauto.
  Qed.

  (* every cache hit during a run of any length is on an unsatisfiable query *)
  Theorem cache_sound_run : forall qs,
    low_core_sound qs -> stable_queries qs ->
    forall pre q post, qs = pre ++ q :: post ->
      check (qids id formula q) (cores_of_run id id_eqb formula model low refine_changes true [] pre) = true ->
      unsat (map snd q).
  Proof.
    intros qs Hs Hst pre q post Heq Hhit.
    assert (G : forall pre' cores, (forall x, In x pre' -> In x qs) -> witnessed_q qs cores ->
                  witnessed_q qs (cores_of_run id id_eqb formula model low refine_changes true cores pre')).
    { induction pre' as [|x pre' IH]; intros cores Hsub Hw; simpl; [exact Hw|].
      apply IH; [intros y Hy; apply Hsub; right; exact Hy|].
      apply callback_witnessed; auto. apply Hsub. left. reflexivity. }
    apply (hit_unsat qs _ q Hst (G pre [] (fun x Hx => eq_ind_r (fun l => In x l) (in_or_app _ _ _ (or_introl Hx)) Heq) (fun c (F : In c []) => match F with end))).
    - rewrite Heq. apply in_or_app. right. left. reflexivity.
    - exact Hhit.
  Qed.

  Lemma strip_from_result : forall b (r : reply), strip id model (from_result id model b r) = strip id model r.
  Proof. intros b r. destruct r; reflexivity. Qed.

  Lemma from_result_sat : forall b (r : reply) m v, r = Sat m v -> from_result id model b r = Sat m v.
  Proof. intros. subst. reflexivity. Qed.

  (* same answer (result, model, validity) with the cache in any sound state as with no cache *)
  Lemma e2e_transparent : forall qs cores q,
    stable_queries qs -> witnessed_q qs cores -> off_complete qs -> In q qs ->
    strip id model (e2e true cores q) = strip id model (e2e false [] q).
  Proof.
    intros qs cores q Hst Hw Hc Hq.
    destruct (check (qids id formula q) cores) eqn:Hhit.
    - rewrite (Hc q Hq (hit_unsat qs cores q Hst Hw Hq Hhit)).
      rewrite e2e_eq, Hhit. reflexivity.
    - rewrite !e2e_eq, Hhit, check_nil. unfold solve_low_level.
      destruct (low false q) as [m [|] | co | |] eqn:E; simpl; try reflexivity.
      destruct (refine_changes q); [|reflexivity].
      rewrite !strip_from_result. reflexivity.
  Qed.

  Lemma e2e_off_no_core : forall cores q, core_of id model (e2e false cores q) = None.
  Proof.
    intros cores q. rewrite e2e_eq. unfold solve_low_level.
    destruct (check _ cores); [reflexivity|].
    destruct (low false q) as [m [|] | co | |]; simpl; try reflexivity.
    destruct (refine_changes q); [|reflexivity].
    destruct (low true q); reflexivity.
  Qed.

  Theorem run_transparent : forall qs,
    low_core_sound qs -> stable_queries qs -> off_complete qs ->
    map (strip id model) (run true [] qs) = map (strip id model) (run false [] qs).
  Proof.
    intros qs Hs Hst Hc.
    assert (G : forall rest cores, (forall x, In x rest -> In x qs) -> witnessed_q qs cores ->
              map (strip id model) (run true cores rest) = map (strip id model) (run false [] rest)).
    { induction rest as [|q rest IH]; intros cores Hsub Hw; [reflexivity|].
      simpl. f_equal.
      - eapply e2e_transparent; eauto. apply Hsub. left. reflexivity.
      - rewrite (callback_no_core [] _ (e2e_off_no_core [] q)).
        apply IH; [intros y Hy; apply Hsub; right; exact Hy|].
        apply callback_witnessed; auto. apply Hsub. left. reflexivity. }
    apply G; [auto|]. intros c [].
  Qed.

  (* without completeness: the cache can only turn a non-sat answer into unsat *)
  Definition refines (a b : reply) : Prop :=
    strip id model a = strip id model b \/ (strip id model a = Unsat None /\ is_sat id model b = false).

  Lemma e2e_sat_origin : forall cache cores q m v,
    e2e cache cores q = Sat m v -> exists b m' v', low b q = Sat m' v'.
  Proof.
    intros cache cores q m v H. rewrite e2e_eq in H. unfold solve_low_level in H.
    destruct (check _ cores); [discriminate|].
    destruct (low false q) as [m0 [|] | co | |] eqn:E; simpl in H; try discriminate.
    - exists false, m0, true. exact E.
    - exists false, m0, false. exact E.
  Qed.

  Lemma e2e_refines : forall qs cores q,
    stable_queries qs -> witnessed_q qs cores -> low_sat_sound qs -> In q qs ->
    refines (e2e true cores q) (e2e false [] q).
  Proof.
    intros qs cores q Hst Hw Hss Hq.
    destruct (check (qids id formula q) cores) eqn:Hhit.
    - right. split; [rewrite e2e_eq, Hhit; reflexivity|].
      destruct (e2e false [] q) as [m v | | |] eqn:E; try reflexivity.
      exfalso. apply e2e_sat_origin in E. destruct E as [b [m' [v' E]]].
      apply (hit_unsat qs cores q Hst Hw Hq Hhit). eapply Hss; eauto.
    - left. rewrite !e2e_eq, Hhit, check_nil. unfold solve_low_level.
      destruct (low false q) as [m [|] | co | |] eqn:E; simpl; try reflexivity.
      destruct (refine_changes q); [|reflexivity].
      rewrite !strip_from_result. reflexivity.
  Qed.

  Theorem run_refines : forall qs,
    low_core_sound qs -> low_sat_sound qs -> stable_queries qs ->
    Forall2 refines (run true [] qs) (run false [] qs).
  Proof.
    intros qs Hs Hss Hst.
    assert (G : forall rest cores, (forall x, In x rest -> In x qs) -> witnessed_q qs cores ->
              Forall2 refines (run true cores rest) (run false [] rest)).
    { induction rest as [|q rest IH]; intros cores Hsub Hw; [constructor|].
      simpl. constructor.
      - eapply e2e_refines; eauto. apply Hsub. left. reflexivity.
      - rewrite (callback_no_core [] _ (e2e_off_no_core [] q)).
        apply IH; [intros y Hy; apply Hsub; right; exact Hy|].
        apply callback_witnessed; auto. apply Hsub. left. reflexivity. }
    apply G; [auto|]. intros c [].
  Qed.

  Lemma is_sat_strip : forall r : reply, is_sat id model (strip id model r) = is_sat id model r.
  Proof. destruct r; reflexivity. Qed.

  Lemma refines_sat : forall a b, refines a b -> is_sat id model a = is_sat id model b.
  Proof.
    intros a b [H | [H1 H2]].
    - rewrite <- (is_sat_strip a), <- (is_sat_strip b), H. reflexivity.
    - rewrite <- (is_sat_strip a), H1, H2. reflexivity.
  Qed.

  Lemma refines_exists_sat : forall l1 l2, Forall2 refines l1 l2 ->
    existsb (is_sat id model) l1 = existsb (is_sat id model) l2.
  Proof. induction 1; simpl; [reflexivity|]. rewrite (refines_sat _ _ H), IHForall2. reflexivity. Qed.

  Lemma strip_verdict : forall l1 l2 stuck normal,
    map (strip id model) l1 = map (strip id model) l2 ->
    verdict_of id model l1 stuck normal = verdict_of id model l2 stuck normal.
  Proof.
    assert (E : forall (f : reply -> bool), (forall r, f (strip id model r) = f r) ->
                forall l, existsb f l = existsb f (map (strip id model) l)).
    { intros f Hf l. induction l; simpl; [reflexivity|]. rewrite Hf, IHl. reflexivity. }
    intros l1 l2 stuck normal H. unfold verdict_of.
    rewrite (E (is_sat id model) is_sat_strip l1), (E (is_sat id model) is_sat_strip l2).
    rewrite (E (is_err id model)) by (destruct r; reflexivity).
    rewrite (E (is_err id model) (fun r => match r with Sat _ _ => eq_refl | _ => eq_refl end) l2).
    rewrite (E (is_unknown id model) (fun r => match r with Sat _ _ => eq_refl | _ => eq_refl end) l1).
    rewrite (E (is_unknown id model) (fun r => match r with Sat _ _ => eq_refl | _ => eq_refl end) l2).
    rewrite H. reflexivity.
  Qed.
End CacheProofs.

(* ---------------- composition with the verdict chain of run_test *)
Lemma run_transparent_verdict :
  forall (id : Type) (id_eqb : id -> id -> bool), (forall a b, id_eqb a b = true <-> a = b) ->
  forall (formula model V : Type) (holds : V -> formula -> Prop)
         (low : bool -> query id formula -> reply id model) (refine_changes : query id formula -> bool)
         (qs : list (query id formula)),
    low_core_sound id id_eqb formula model V holds low qs ->
    stable_queries id formula qs ->
    off_complete id id_eqb formula model V holds low refine_changes qs ->
    forall stuck normal,
      verdict_of id model (run id id_eqb formula model low refine_changes true [] qs) stuck normal =
      verdict_of id model (run id id_eqb formula model low refine_changes false [] qs) stuck normal.
Proof. intros. apply strip_verdict. eapply run_transparent; eauto. Qed.

Lemma run_refines_fail :
  forall (id : Type) (id_eqb : id -> id -> bool), (forall a b, id_eqb a b = true <-> a = b) ->
  forall (formula model V : Type) (holds : V -> formula -> Prop)
         (low : bool -> query id formula -> reply id model) (refine_changes : query id formula -> bool)
         (qs : list (query id formula)),
    low_core_sound id id_eqb formula model V holds low qs ->
    low_sat_sound id formula model V holds low qs ->
    stable_queries id formula qs ->
    forall stuck normal,
      verdict_of id model (run id id_eqb formula model low refine_changes true [] qs) stuck normal = VFail <->
      verdict_of id model (run id id_eqb formula model low refine_changes false [] qs) stuck normal = VFail.
Proof.
  intros id id_eqb Hspec formula model V holds low rc qs Hs Hss Hst stuck normal.
  unfold verdict_of.
  rewrite (refines_exists_sat id model _ _ (run_refines id id_eqb Hspec formula model V holds low rc qs Hs Hss Hst)).
  destruct (existsb (is_sat id model) (run id id_eqb formula model low rc false [] qs)); [tauto|].
  repeat match goal with |- context [existsb ?f ?l] => destruct (existsb f l) end;
    destruct stuck; destruct normal; split; intro; try discriminate; auto.
Qed.

(* ================================================================== a concrete instance:
   identifiers are numbers, a formula is a literal "variable k has value b" *)
Definition lit := (N * bool)%type.
Definition lit_holds (v : N -> bool) (f : lit) : Prop := v (fst f) = snd f.

(* id 2 stands for "x0 = false" in q1 and, after the term was freed and its id recycled, for "x1 = false" in q2 *)
Definition wq1 : query N lit := [(1%N, (0%N, true)); (2%N, (0%N, false))].
Definition wq2 : query N lit := [(1%N, (0%N, true)); (2%N, (1%N, false))].
Definition wevs : list (event N lit unit) := [EvLearn wq1 (Unsat (Some [1%N; 2%N])); EvCheck wq2].

Lemma N_eqb_spec : forall a b : N, N.eqb a b = true <-> a = b.
Proof. exact N.eqb_eq. Qed.

Lemma needs_stability :
  (forall q c, In (EvLearn q (Unsat (Some c))) wevs -> c <> [] ->
     unsat lit (N -> bool) lit_holds (select N N.eqb lit q c)) /\
  check_unsat_cores N N.eqb (qids N lit wq2)
     (cores_after N lit unit [EvLearn wq1 (Unsat (Some [1%N; 2%N]))] []) = true /\
  sat lit (N -> bool) lit_holds (map snd wq2).
Proof.
  split; [|split].
  - intros q c [H | [H | []]] _; [|discriminate]. inversion H; subst. clear H.
    intros [v Hv].
    assert (H1 : lit_holds v (0%N, true)) by (apply Hv; vm_compute; auto).
    assert (H2 : lit_holds v (0%N, false)) by (apply Hv; vm_compute; auto).
    unfold lit_holds in *. simpl in *. congruence.
  - vm_compute. reflexivity.
  - exists (fun k => N.eqb k 0). intros f [H | [H | []]]; subst; reflexivity.
Qed.

(* non-vacuity: a stable, sound three-query history in which the third query is answered from the cache *)
Definition nq1 : query N lit := [(1%N, (0%N, true)); (2%N, (0%N, false)); (3%N, (1%N, true))].
Definition nq2 : query N lit := [(1%N, (0%N, true)); (4%N, (1%N, false))].
Definition nq3 : query N lit := [(1%N, (0%N, true)); (2%N, (0%N, false)); (4%N, (1%N, false))].
Definition nlow (refined : bool) (q : query N lit) : reply N N :=
  if existsb (fun p => N.eqb (fst p) 2) q then Unsat (Some [2%N; 1%N]) else Sat 7%N true.

Lemma nonvacuous_run :
  run N N.eqb lit N nlow (fun _ => false) true [] [nq1; nq2; nq3]
    = [Unsat (Some [2%N; 1%N]); Sat 7%N true; Unsat None] /\
  run N N.eqb lit N nlow (fun _ => false) false [] [nq1; nq2; nq3]
    = [Unsat None; Sat 7%N true; Unsat None] /\
  (forall q1 q2, In q1 [nq1; nq2; nq3] -> In q2 [nq1; nq2; nq3] ->
     forall i f1 f2, In (i, f1) q1 -> In (i, f2) q2 -> f1 = f2).
Proof.
  split; [vm_compute; reflexivity|]. split; [vm_compute; reflexivity|].
  intros q1 q2 H1 H2 i f1 f2 I1 I2.
  assert (D : forall q, In q [nq1; nq2; nq3] -> forall i f, In (i, f) q ->
            f = match i with 1%N => (0%N, true) | 2%N => (0%N, false) | 3%N => (1%N, true) | _ => (1%N, false) end).
  { intros q Hq j f Hin. simpl in Hq. destruct Hq as [Hq | [Hq | [Hq | []]]]; subst q; simpl in Hin;
      repeat (destruct Hin as [Hin | Hin]; [inversion Hin; subst; reflexivity|]); destruct Hin. }
  rewrite (D q1 H1 i f1 I1), (D q2 H2 i f2 I2). reflexivity.
Qed.
