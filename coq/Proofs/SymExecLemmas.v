(* List / memory / term-evaluation lemmas used by the soundness proof of Model/SymExec.v *)
From Coq Require Import ZArith List Bool Lia Arith.
From HV Require Import Base.Word Spec.Evm Model.SymExec.
Import ListNotations.
Open Scope Z_scope.

(* ---- nth with default over the list combinators used by mread / mwrite ---- *)
Lemma nth_firstn_lt {A} (d : A) : forall n (l : list A) i, (i < n)%nat -> nth i (firstn n l) d = nth i l d.
Proof.
  induction n as [|n IH]; intros l i H; [lia|].
  destruct l as [|a l]; [destruct i; reflexivity|].
  destruct i; cbn; [reflexivity | apply IH; lia].
Qed.

Lemma nth_firstn_ge {A} (d : A) : forall n (l : list A) i, (n <= i)%nat -> nth i (firstn n l) d = d.
Proof.
  intros n l i H. apply nth_overflow. rewrite firstn_length. lia.
Qed.

Lemma nth_skipn {A} (d : A) : forall n (l : list A) i, nth i (skipn n l) d = nth (n + i) l d.
Proof.
  induction n as [|n IH]; intros l i; [reflexivity|].
  destruct l as [|a l]; [destruct i; reflexivity | cbn; apply IH].
Qed.

Lemma nth_repeat_same {A} (d : A) : forall n i, nth i (repeat d n) d = d.
Proof. induction n as [|n IH]; intros [|i]; cbn; auto. Qed.

Lemma nth_app_default {A} (d : A) : forall (l : list A) n i, nth i (l ++ repeat d n) d = nth i l d.
Proof.
  intros l n i. destruct (Nat.lt_ge_cases i (length l)) as [H|H].
  - apply app_nth1; exact H.
  - rewrite app_nth2 by exact H. rewrite nth_repeat_same. symmetry. apply nth_overflow. exact H.
Qed.

(* zero-extended read, pointwise *)
Lemma mread_length : forall m off n, length (mread m off n) = n.
Proof. intros. unfold mread. rewrite firstn_length, app_length, repeat_length. lia. Qed.

Lemma mread_nth : forall m off n j, (j < n)%nat -> nth j (mread m off n) 0 = nth (off + j) m 0.
Proof.
  intros m off n j H. unfold mread. rewrite nth_firstn_lt by exact H.
  rewrite nth_app_default, nth_skipn. reflexivity.
Qed.

Lemma zread_mread : forall m off n, zread m off n = mread m off n.
Proof. reflexivity. Qed.

Lemma list_eq_nth {A} (d : A) : forall (l1 l2 : list A),
  length l1 = length l2 -> (forall i, (i < length l1)%nat -> nth i l1 d = nth i l2 d) -> l1 = l2.
Proof.
  induction l1 as [|a l1 IH]; intros [|b l2] Hl Hn; try discriminate; [reflexivity|].
  f_equal; [apply (Hn O); cbn; lia|].
  apply IH; [cbn in Hl; lia|]. intros i Hi. apply (Hn (S i)). cbn; lia.
Qed.

Lemma mread_ext : forall m1 m2 off n,
  (forall i, nth i m1 0 = nth i m2 0) -> mread m1 off n = mread m2 off n.
Proof.
  intros m1 m2 off n H. apply (list_eq_nth 0).
  - rewrite !mread_length. reflexivity.
  - intros i Hi. rewrite mread_length in Hi. rewrite !mread_nth by exact Hi. apply H.
Qed.

Lemma mexpand_nth : forall m off n i, nth i (mexpand m off n) 0 = nth i m 0.
Proof.
  intros m off n i. unfold mexpand.
  destruct (n =? 0)%nat; [reflexivity|].
  destruct (length m <? ceil32 (off + n))%nat; [apply nth_app_default | reflexivity].
Qed.

Lemma ceil32_ge : forall n, (n <= ceil32 n)%nat.
Proof.
  intros n. unfold ceil32.
  pose proof (Nat.div_mod (n + 31) 32 ltac:(lia)) as H.
  pose proof (Nat.mod_upper_bound (n + 31) 32 ltac:(lia)) as H2. lia.
Qed.

Lemma mexpand_length : forall m off n, (n <> 0)%nat -> (off + n <= length (mexpand m off n))%nat.
Proof.
  intros m off n Hn. unfold mexpand.
  destruct (n =? 0)%nat eqn:E; [apply Nat.eqb_eq in E; lia|].
  pose proof (ceil32_ge (off + n)) as Hc.
  destruct (length m <? ceil32 (off + n))%nat eqn:E2.
  - rewrite app_length, repeat_length. apply Nat.ltb_lt in E2. lia.
  - apply Nat.ltb_ge in E2. lia.
Qed.

Lemma mwrite_nth : forall m off bs i,
  (off + length bs <= length m)%nat ->
  nth i (mwrite m off bs) 0 =
    if ((off <=? i) && (i <? off + length bs))%nat then nth (i - off) bs 0 else nth i m 0.
Proof.
  intros m off bs i H. unfold mwrite.
  destruct (Nat.lt_ge_cases i off) as [H1|H1].
  - rewrite app_nth1 by (rewrite firstn_length; lia).
    rewrite nth_firstn_lt by exact H1.
    destruct (off <=? i)%nat eqn:E; [apply Nat.leb_le in E; lia | reflexivity].
  - rewrite app_nth2 by (rewrite firstn_length; lia).
    rewrite firstn_length, Nat.min_l by lia.
    assert (E : (off <=? i)%nat = true) by (apply Nat.leb_le; exact H1). rewrite E. cbn [andb].
    destruct (Nat.lt_ge_cases (i - off) (length bs)) as [H2|H2].
    + rewrite app_nth1 by exact H2.
      assert (E2 : (i <? off + length bs)%nat = true) by (apply Nat.ltb_lt; lia). rewrite E2. reflexivity.
    + rewrite app_nth2 by exact H2. rewrite nth_skipn.
      assert (E2 : (i <? off + length bs)%nat = false) by (apply Nat.ltb_ge; lia). rewrite E2.
      f_equal. lia.
Qed.

Lemma map_repeat' {A B} (f : A -> B) (x : A) : forall n, map f (repeat x n) = repeat (f x) n.
Proof. induction n as [|n IH]; cbn; [reflexivity | rewrite IH; reflexivity]. Qed.

(* ---- the same for symbolic memory, through beval ---- *)
Section WithRho.
Variable rho : var -> Z.

Lemma beval_bzero : beval rho bzero = 0.
Proof. reflexivity. Qed.

Lemma eval_TWord : forall bs, eval rho (TWord bs) = be_num 0 (map (beval rho) bs).
Proof.
  intros bs. cbn [eval]. f_equal.
  induction bs as [|[i t] bs IH]; [reflexivity|]. cbn [map]. rewrite <- IH. reflexivity.
Qed.

Lemma eval_TSha : forall bs, eval rho (TSha bs) = keccak_bytes (map (beval rho) bs).
Proof.
  intros bs. cbn [eval]. f_equal.
  induction bs as [|[i t] bs IH]; [reflexivity|]. cbn [map]. rewrite <- IH. reflexivity.
Qed.

Definition evalp (p : term * term) : Z * Z := (eval rho (fst p), eval rho (snd p)).

Lemma eval_TLoad : forall ws k, eval rho (TLoad ws k) = lookupZ (eval rho k) (map evalp ws).
Proof.
  intros ws k. cbn [eval]. f_equal.
  induction ws as [|[a b] ws IH]; [reflexivity|]. cbn [map]. rewrite <- IH. reflexivity.
Qed.

Lemma smread_map : forall m off n,
  map (beval rho) (smread m off n) = mread (map (beval rho) m) off n.
Proof.
  intros m off n. unfold smread, mread.
  rewrite <- firstn_map, map_app, <- skipn_map, map_repeat'. reflexivity.
Qed.

Lemma smwrite_nth : forall m off bs i,
  nth i (map (beval rho) (smwrite m off bs)) 0 =
    if ((off <=? i) && (i <? off + length bs))%nat then nth (i - off) (map (beval rho) bs) 0
    else nth i (map (beval rho) m) 0.
Proof.
  intros m off bs i. unfold smwrite.
  set (need := (off + length bs)%nat).
  set (m1 := if (length m <? need)%nat then m ++ repeat bzero (need - length m) else m).
  assert (Hlen : (need <= length m1)%nat).
  { subst m1. destruct (length m <? need)%nat eqn:E.
    - rewrite app_length, repeat_length. apply Nat.ltb_lt in E. lia.
    - apply Nat.ltb_ge in E. exact E. }
  assert (Hnth : forall j, nth j (map (beval rho) m1) 0 = nth j (map (beval rho) m) 0).
  { intros j. subst m1. destruct (length m <? need)%nat; [|reflexivity].
    rewrite map_app, map_repeat'. apply nth_app_default. }
  rewrite !map_app, <- firstn_map, <- skipn_map.
  pose proof (mwrite_nth (map (beval rho) m1) off (map (beval rho) bs) i) as HW.
  unfold mwrite in HW. rewrite map_length in HW. fold need in HW.
  rewrite HW by (rewrite map_length; exact Hlen).
  destruct ((off <=? i) && (i <? need))%nat; [reflexivity | apply Hnth].
Qed.

(* bytes of a word term *)
Lemma be_bytes_aux_length : forall n x acc, length (be_bytes_aux n x acc) = (n + length acc)%nat.
Proof. induction n as [|n IH]; intros x acc; cbn; [reflexivity | rewrite IH; cbn; lia]. Qed.

Lemma be_bytes_length : forall n x, length (be_bytes n x) = n.
Proof. intros. unfold be_bytes. rewrite be_bytes_aux_length. cbn. lia. Qed.

Lemma be_bytes_aux_app : forall n x acc, be_bytes_aux n x acc = be_bytes_aux n x [] ++ acc.
Proof.
  induction n as [|n IH]; intros x acc; cbn; [reflexivity|].
  rewrite IH. rewrite (IH (x / 256) [x mod 256]). rewrite <- app_assoc. reflexivity.
Qed.

Lemma be_bytes_S : forall n x, be_bytes (S n) x = be_bytes n (x / 256) ++ [x mod 256].
Proof. intros. unfold be_bytes. cbn. apply be_bytes_aux_app. Qed.

Lemma be_bytes_last : forall x, nth 31 (be_bytes 32 x) 0 = x mod 256.
Proof.
  intros x. rewrite be_bytes_S. rewrite app_nth2 by (rewrite be_bytes_length; lia).
  rewrite be_bytes_length. reflexivity.
Qed.

Lemma map_nth_seq : forall (l : list Z), map (fun i => nth i l 0) (seq 0 (length l)) = l.
Proof.
  intros l. apply (list_eq_nth 0).
  - rewrite map_length, seq_length. reflexivity.
  - intros i Hi. rewrite map_length, seq_length in Hi.
    set (f := fun i : nat => nth i l 0).
    replace (nth i (map f (seq 0 (length l))) 0) with (nth i (map f (seq 0 (length l))) (f (length l))).
    2: { apply nth_indep. rewrite map_length, seq_length. exact Hi. }
    rewrite map_nth, seq_nth by exact Hi. reflexivity.
Qed.

Lemma word_bytes_map : forall t, map (beval rho) (word_bytes t) = be_bytes 32 (eval rho t).
Proof.
  intros t. unfold word_bytes. rewrite map_map. cbn [beval fst snd].
  pose proof (map_nth_seq (be_bytes 32 (eval rho t))) as H.
  rewrite be_bytes_length in H. exact H.
Qed.

Lemma word_bytes_length : forall t, length (word_bytes t) = 32%nat.
Proof. intros. unfold word_bytes. rewrite map_length, seq_length. reflexivity. Qed.

End WithRho.
