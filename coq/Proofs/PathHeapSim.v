(* C11 proofs, object level (2): the heap semantics of programs over Path objects refines
   the value semantics when the copy modes keep the containers of two objects separate. *)
From Coq Require Import ZArith List Bool Lia Arith.
From HV Require Import Spec.SmtQuerySpec Model.PathCopyDefs Model.SmtTextModel Model.PathHeapModel
  Proofs.SmtTextProofs Proofs.PathHeapProofs.
Import ListNotations.
Open Scope Z_scope.

Lemma upd_same : forall {A} (l : list A) i x, nth_error l i = Some x -> upd l i x = l.
Proof.
  induction l as [|y l IH]; intros [|i] x H; simpl in *; try discriminate.
  - inversion H; reflexivity.
  - rewrite IH; [reflexivity | exact H].
Qed.

Lemma upd_upd : forall {A} (l : list A) i x y, upd (upd l i x) i y = upd l i y.
Proof. induction l as [|z l IH]; intros [|i] x y; simpl; auto. rewrite IH. reflexivity. Qed.

Section HeapSim.
  Variable cond : Type.
  Variable cond_eqb : cond -> cond -> bool.
  Variable simp : cond -> cond.
  Variable is_true : cond -> bool.
  Variable vars : cond -> list Z.
  Variable md : modes.
  Hypothesis Hsep : separate md = true.

  Notation heap := (heap cond).
  Notation hpath := (hpath cond).
  Notation path := (path cond).
  Notation append := (append cond cond_eqb simp is_true vars).
  Notation extend := (extend cond cond_eqb simp is_true vars).
  Notation activate := (activate cond cond_eqb simp is_true vars).
  Notation h_append := (h_append cond cond_eqb simp is_true vars).
  Notation h_extend := (h_extend cond cond_eqb simp is_true vars).
  Notation h_activate := (h_activate cond cond_eqb simp is_true vars).
  Notation h_step := (h_step cond cond_eqb simp is_true vars md).
  Notation h_run := (h_run cond cond_eqb simp is_true vars md).
  Notation v_step := (v_step cond cond_eqb simp is_true vars).
  Notation v_run := (v_run cond cond_eqb simp is_true vars).

  (* object i was allocated for path i, and the var_to_conds objects own their sets *)
  Definition inv (h : heap) : Prop :=
    List.length (o_conds h) = List.length (o_paths h) /\
    List.length (o_rel h) = List.length (o_paths h) /\
    List.length (o_v2c h) = List.length (o_paths h) /\
    (forall i hp, nth_error (o_paths h) i = Some hp -> hp_conds hp = i /\ hp_rel hp = i /\ hp_v2c hp = i) /\
    vinv (o_v2c h) (o_sets h).

  (* what the pure state of path i must be *)
  Definition agrees (h : heap) (i : nat) (hp : hpath) (p : path) : Prop :=
    nth i (o_conds h) [] = conditions p /\ hp_pending hp = pending p /\
    nth i (o_rel h) [] = related p /\ deref (o_sets h) (nth i (o_v2c h) []) = var_to_conds p /\
    hp_sliced hp = sliced p.

  Definition sim (h : heap) (ps : list path) : Prop :=
    List.length ps = List.length (o_paths h) /\
    forall i hp p, nth_error (o_paths h) i = Some hp -> nth_error ps i = Some p -> agrees h i hp p.

  Lemma agrees_view : forall h i hp p, inv h -> nth_error (o_paths h) i = Some hp ->
    agrees h i hp p -> same_path cond (h_view cond h hp) p.
  Proof.
    intros h i hp p (_ & _ & _ & Hrefs & _) Hhp (A1 & A2 & A3 & A4 & A5).
    destruct (Hrefs i hp Hhp) as (Rc & Rr & Rv).
    unfold same_path, h_view, h_conditions. simpl. rewrite Rc, Rr, Rv. auto.
  Qed.

  Lemma h_append_sim : forall h ps i c b h' p,
    inv h -> sim h ps -> nth_error ps i = Some p -> h_append h i c b = Some h' ->
    inv h' /\ sim h' (upd ps i (append p c b)) /\ o_paths h' = o_paths h.
  Proof.
    intros h ps i c b h' p Hinv [Hlen Hsim] Hp H.
    unfold PathHeapModel.h_append in H.
    destruct (nth_error (o_paths h) i) as [hp|] eqn:Hhp; [|discriminate].
    pose proof Hinv as (Hc & Hr & Hv & Hrefs & Hvinv).
    destruct (Hrefs i hp Hhp) as (Rc & Rr & Rv). rewrite Rc, Rr, Rv in H.
    pose proof (Hsim i hp p Hhp Hp) as (Sc & Sp & Sr & Sv & Ss).
    assert (Hi : (i < List.length (o_paths h))%nat) by (apply (nth_error_lt _ _ _ Hhp)).
    unfold SmtTextModel.append.
    destruct (is_true (simp c)) eqn:Ht.
    { inversion H; subst h'. rewrite (upd_same _ _ _ Hp). split; [exact Hinv | split; [split; assumption | reflexivity]]. }
    rewrite Sc in H.
    destruct (has_cond cond cond_eqb (simp c) (conditions p)) eqn:Hh.
    { inversion H; subst h'. rewrite (upd_same _ _ _ Hp). split; [exact Hinv | split; [split; assumption | reflexivity]]. }
    destruct (d_collect (nth i (o_v2c h) []) (o_sets h) (vars (simp c)) []) as [[cs d1] S1] eqn:Hcol.
    destruct (d_add_all d1 S1 (vars (simp c)) (List.length (conditions p))) as [d2 S2] eqn:Hadd.
    inversion H; subst h'; clear H.
    destruct Hvinv as [Hwf Hdj].
    destruct (collect_spec _ _ _ _ _ _ _ (Hwf i) Hcol) as [Hs1 He1].
    assert (Hwf1 : wf d1 S1) by apply Hs1.
    destruct (add_all_spec _ _ _ _ _ _ Hwf1 Hadd) as [Hs2 He2].
    pose proof (dspec_trans _ _ _ _ _ _ (Hwf i) Hs1 Hs2) as Hs.
    assert (Hiv : (i < List.length (o_v2c h))%nat) by lia.
    destruct (vinv_upd (o_v2c h) (o_sets h) i d2 S2 (conj Hwf Hdj) Hiv Hs) as [Hvinv' Hframe].
    unfold get_related. rewrite <- Sv. rewrite He1. rewrite <- Sr.
    split; [|split; [|reflexivity]].
    - unfold inv. simpl. rewrite !upd_length.
      split; [exact Hc|]. split; [exact Hr|]. split; [exact Hv|]. split; [exact Hrefs | exact Hvinv'].
    - split; [rewrite upd_length; simpl; exact Hlen|].
      simpl. intros j hpj pj Hj Hpj. destruct (Nat.eq_dec j i) as [->|Hne].
      + rewrite nth_error_upd_same in Hpj by lia. inversion Hpj; subst pj; clear Hpj.
        rewrite Hhp in Hj. inversion Hj; subst hpj; clear Hj.
        unfold agrees. simpl. rewrite !nth_upd_same by lia.
        rewrite He2. repeat split; auto.
      + rewrite nth_error_upd_other in Hpj by congruence.
        destruct (Hsim j hpj pj Hj Hpj) as (A1 & A2 & A3 & A4 & A5).
        unfold agrees. simpl. rewrite !nth_upd_other by congruence.
        rewrite <- (nth_upd_other (o_v2c h) i j d2 []) by congruence.
        rewrite (Hframe j Hne). repeat split; auto.
  Qed.

  Lemma h_extend_sim : forall cs h ps i b h' p,
    inv h -> sim h ps -> nth_error ps i = Some p -> h_extend h i cs b = Some h' ->
    inv h' /\ sim h' (upd ps i (extend p cs b)) /\ o_paths h' = o_paths h.
  Proof.
    induction cs as [|c cs IH]; intros h ps i b h' p Hinv Hsim Hp H; simpl in H.
    - inversion H; subst h'. unfold SmtTextModel.extend. simpl. rewrite (upd_same _ _ _ Hp). auto.
    - destruct (h_append h i c b) as [h1|] eqn:Ha; [|discriminate].
      destruct (h_append_sim _ _ _ _ _ _ _ Hinv Hsim Hp Ha) as (Hinv1 & Hsim1 & Hp1).
      assert (Hp' : nth_error (upd ps i (append p c b)) i = Some (append p c b)).
      { apply nth_error_upd_same. apply (nth_error_lt _ _ _ Hp). }
      destruct (IH _ _ _ _ _ _ Hinv1 Hsim1 Hp' H) as (Hinv2 & Hsim2 & Hp2).
      rewrite upd_upd in Hsim2. split; [exact Hinv2|]. split; [exact Hsim2 | congruence].
  Qed.

  Lemma sim_lookup : forall h ps i hp, sim h ps -> nth_error (o_paths h) i = Some hp ->
    exists p, nth_error ps i = Some p.
  Proof.
    intros h ps i hp [Hlen _] Hhp. apply nth_error_lt in Hhp.
    destruct (nth_error ps i) as [p|] eqn:E; [eauto|].
    apply nth_error_None in E. lia.
  Qed.

  Lemma h_activate_sim : forall h ps i h' p,
    inv h -> sim h ps -> nth_error ps i = Some p -> h_activate h i = Some h' ->
    inv h' /\ sim h' (upd ps i (activate p)).
  Proof.
    intros h ps i h' p Hinv Hsim Hp H. unfold PathHeapModel.h_activate in H.
    destruct (nth_error (o_paths h) i) as [hp|] eqn:Hhp; [|discriminate].
    destruct (Nat.ltb _ _); [discriminate|].
    match type of H with match h_extend ?h1 _ _ _ with _ => _ end = _ => set (hh := h1) in * end.
    destruct (h_extend hh i (hp_pending hp) true) as [h2|] eqn:He; [|discriminate].
    inversion H; subst h'; clear H.
    assert (Hinv1 : inv hh) by exact Hinv.
    assert (Hsim1 : sim hh ps) by exact Hsim.
    destruct (h_extend_sim _ _ _ _ _ _ _ Hinv1 Hsim1 Hp He) as (Hinv2 & [Hlen2 Hsim2] & Hp2).
    change (o_paths hh) with (o_paths h) in Hp2.
    pose proof (proj2 Hsim i hp p Hhp Hp) as (_ & Spend & _).
    rewrite Spend in Hsim2.
    assert (Hi : (i < List.length (o_paths h))%nat) by (apply (nth_error_lt _ _ _ Hhp)).
    destruct Hinv2 as (Hc & Hr & Hv & Hrefs & Hvinv). rewrite Hp2 in *.
    split.
    - unfold inv. simpl. rewrite upd_length.
      split; [exact Hc|]. split; [exact Hr|]. split; [exact Hv|]. split; [|exact Hvinv].
      intros j hpj Hj. destruct (Nat.eq_dec j i) as [->|Hne].
      + rewrite nth_error_upd_same in Hj by exact Hi. inversion Hj; subst hpj. simpl. apply (Hrefs i hp Hhp).
      + rewrite nth_error_upd_other in Hj by congruence. apply (Hrefs j hpj Hj).
    - split; [simpl; rewrite !upd_length in *; exact Hlen2|].
      simpl. intros j hpj pj Hj Hpj. destruct (Nat.eq_dec j i) as [->|Hne].
      + rewrite nth_error_upd_same in Hj by exact Hi. inversion Hj; subst hpj; clear Hj.
        rewrite nth_error_upd_same in Hpj by (apply (nth_error_lt _ _ _ Hp)). inversion Hpj; subst pj; clear Hpj.
        assert (Hq : nth_error (upd ps i (extend p (pending p) true)) i = Some (extend p (pending p) true)).
        { apply nth_error_upd_same. apply (nth_error_lt _ _ _ Hp). }
        destruct (Hsim2 i hp _ Hhp Hq) as (A1 & A2 & A3 & A4 & A5).
        unfold agrees, SmtTextModel.activate. simpl. repeat split; auto.
      + rewrite nth_error_upd_other in Hj by congruence.
        rewrite nth_error_upd_other in Hpj by congruence.
        assert (Hq : nth_error (upd ps i (extend p (pending p) true)) j = Some pj).
        { rewrite nth_error_upd_other by congruence. exact Hpj. }
        apply (Hsim2 j hpj pj Hj Hq).
  Qed.

  Lemma h_slice_sim : forall h ps i vs h' p,
    inv h -> sim h ps -> nth_error ps i = Some p -> h_slice cond vars h i vs = Some h' ->
    exists q, slice cond vars p vs = Some q /\ inv h' /\ sim h' (upd ps i q).
  Proof.
    intros h ps i vs h' p Hinv [Hlen Hsim] Hp H. unfold h_slice in H.
    destruct (nth_error (o_paths h) i) as [hp|] eqn:Hhp; [|discriminate].
    pose proof Hinv as (Hc & Hr & Hv & Hrefs & Hvinv).
    destruct (Hrefs i hp Hhp) as (Rc & Rr & Rv). rewrite Rc, Rv in H.
    pose proof (Hsim i hp p Hhp Hp) as (Sc & Sp & Sr & Sv & Ss).
    assert (Hi : (i < List.length (o_paths h))%nat) by (apply (nth_error_lt _ _ _ Hhp)).
    unfold slice. rewrite <- Ss.
    destruct (hp_sliced hp) eqn:Hsl; [discriminate|].
    rewrite Sc in H.
    destruct (d_slice_loop cond vars (slice_fuel cond vars (conditions p) vs) (conditions p)
                           (nth i (o_v2c h) []) (o_sets h) [] [] (rev vs)) as [[[sl d1] S1]|] eqn:Hloop; [|discriminate].
    inversion H; subst h'; clear H.
    destruct Hvinv as [Hwf Hdj].
    destruct (slice_loop_spec _ _ _ _ _ _ _ _ _ _ _ _ (Hwf i) Hloop) as [Hs1 He1].
    assert (Hiv : (i < List.length (o_v2c h))%nat) by lia.
    destruct (vinv_upd (o_v2c h) (o_sets h) i d1 S1 (conj Hwf Hdj) Hiv Hs1) as [Hvinv' Hframe].
    rewrite <- Sv. rewrite He1.
    eexists. split; [reflexivity|]. split.
    - unfold inv. simpl. rewrite !upd_length.
      split; [exact Hc|]. split; [exact Hr|]. split; [exact Hv|]. split; [|exact Hvinv'].
      intros j hpj Hj. destruct (Nat.eq_dec j i) as [->|Hne].
      + rewrite nth_error_upd_same in Hj by exact Hi. inversion Hj; subst hpj. simpl. auto.
      + rewrite nth_error_upd_other in Hj by congruence. apply (Hrefs j hpj Hj).
    - split; [rewrite upd_length; simpl; rewrite upd_length; exact Hlen|].
      simpl. intros j hpj pj Hj Hpj. destruct (Nat.eq_dec j i) as [->|Hne].
      + rewrite nth_error_upd_same in Hpj by lia. inversion Hpj; subst pj; clear Hpj.
        rewrite nth_error_upd_same in Hj by exact Hi. inversion Hj; subst hpj; clear Hj.
        unfold agrees. simpl. rewrite !nth_upd_same by lia. repeat split; auto.
      + rewrite nth_error_upd_other in Hpj by congruence.
        rewrite nth_error_upd_other in Hj by congruence.
        destruct (Hsim j hpj pj Hj Hpj) as (A1 & A2 & A3 & A4 & A5).
        unfold agrees. simpl.
        rewrite (Hframe j Hne). repeat split; auto.
  Qed.

  (* a new Path object that received copies of the containers of path i *)
  Lemma alloc_sim : forall h ps i hp p d' S' pd sl sref sc solvers' sv,
    inv h -> sim h ps -> nth_error (o_paths h) i = Some hp -> nth_error ps i = Some p ->
    deep_copy_v2c (nth i (o_v2c h) []) (o_sets h) = (d', S') ->
    let n := List.length (o_paths h) in
    let h' := mkHeap (o_conds h ++ [nth i (o_conds h) []]) (o_rel h ++ [nth i (o_rel h) []])
                     (o_v2c h ++ [d']) S' solvers'
                     (o_paths h ++ [mkHPath n n n pd sl sref sc]) in
    inv h' /\ sim h' (ps ++ [mkPath (conditions p) pd (related p) (var_to_conds p) sl sv]).
  Proof.
    intros h ps i hp p d' S' pd sl sref sc solvers' sv Hinv [Hlen Hsim] Hhp Hp Hdc n h'.
    destruct Hinv as (Hc & Hr & Hv & Hrefs & Hvinv).
    destruct (vinv_deep _ _ _ _ _ Hvinv Hdc) as (Hvinv' & Hd' & Hold).
    pose proof (Hsim i hp p Hhp Hp) as (Sc & Sp & Sr & Sv & Ss).
    split.
    - unfold inv, h'. simpl. rewrite !app_length. simpl.
      split; [lia|]. split; [lia|]. split; [lia|]. split; [|exact Hvinv'].
      intros j hpj Hj. destruct (lt_eq_lt_dec j n) as [[Hlt| ->]|Hgt].
      + rewrite nth_error_app1 in Hj by exact Hlt. apply (Hrefs j hpj Hj).
      + unfold n in Hj. rewrite nth_error_app_last in Hj. inversion Hj; subst hpj. simpl. auto.
      + apply nth_error_lt in Hj. rewrite app_length in Hj. simpl in Hj. unfold n in Hgt. lia.
    - split; [unfold h'; simpl; rewrite !app_length; simpl; lia|].
      intros j hpj pj Hj Hpj. unfold h' in Hj. simpl in Hj.
      destruct (lt_eq_lt_dec j n) as [[Hlt| ->]|Hgt].
      + rewrite nth_error_app1 in Hj by exact Hlt. rewrite nth_error_app1 in Hpj by (unfold n in Hlt; lia).
        destruct (Hsim j hpj pj Hj Hpj) as (A1 & A2 & A3 & A4 & A5).
        unfold agrees, h'. simpl. unfold n in Hlt.
        rewrite Hold by lia. rewrite !nth_app_old by lia.
        repeat split; auto.
      + unfold n in Hj. rewrite nth_error_app_last in Hj. inversion Hj; subst hpj; clear Hj.
        unfold n in Hpj. rewrite <- Hlen in Hpj. rewrite nth_error_app_last in Hpj. inversion Hpj; subst pj; clear Hpj.
        unfold agrees, h'. simpl.
        replace n with (List.length (o_conds h)) at 1 by (unfold n; lia). rewrite nth_app_last.
        replace n with (List.length (o_rel h)) at 1 by (unfold n; lia). rewrite nth_app_last.
        replace n with (List.length (o_v2c h)) at 1 by (unfold n; lia). rewrite nth_app_last.
        rewrite Hd'. repeat split; auto.
      + apply nth_error_lt in Hj. rewrite app_length in Hj. simpl in Hj. unfold n in Hgt. lia.
  Qed.

  Lemma sep_modes :
    not_alias (br_conditions md) = true /\ not_alias (br_related md) = true /\ br_var_to_conds md = MDeep /\
    not_alias (ex_conditions md) = true /\ not_alias (ex_related md) = true /\ ex_var_to_conds md = MDeep.
  Proof.
    pose proof Hsep as Hs. unfold separate in Hs.
    repeat (apply andb_true_iff in Hs; let H := fresh "Hm" in destruct Hs as [Hs H]).
    assert (Hd : forall m, is_deep m = true -> m = MDeep) by (intros []; simpl; congruence).
    repeat split; try assumption; apply Hd; assumption.
  Qed.

  Lemma assign_flat_copy : forall {A} m (objs : list (list A)) old,
    not_alias m = true -> (old < List.length objs)%nat ->
    assign_flat m (objs ++ [[]]) (List.length objs) old = ((objs ++ [nth old objs []])%list, List.length objs).
  Proof.
    intros A m objs old Hm Hold. destruct m; try discriminate; simpl;
      rewrite nth_app_old by exact Hold; rewrite upd_app_last; reflexivity.
  Qed.

  Lemma h_branch_sim : forall h ps i c h' p,
    inv h -> sim h ps -> nth_error ps i = Some p -> h_branch cond md h i c = Some h' ->
    exists q, branch cond p c = Some q /\ inv h' /\ sim h' (ps ++ [q]).
  Proof.
    intros h ps i c h' p Hinv Hsim Hp H. unfold h_branch in H.
    destruct (nth_error (o_paths h) i) as [hp|] eqn:Hhp; [|discriminate].
    destruct (hp_pending hp) eqn:Hpend; [|discriminate].
    pose proof Hinv as (Hc & Hr & Hv & Hrefs & Hvinv).
    destruct (Hrefs i hp Hhp) as (Rc & Rr & Rv). rewrite Rc, Rr, Rv in H.
    assert (Hi : (i < List.length (o_paths h))%nat) by (apply (nth_error_lt _ _ _ Hhp)).
    destruct sep_modes as (M1 & M2 & M3 & _).
    rewrite (assign_flat_copy _ (o_conds h)) in H by (auto; lia).
    rewrite (assign_flat_copy _ (o_rel h)) in H by (auto; lia).
    rewrite M3 in H. unfold assign_v2c in H. rewrite nth_app_old in H by lia.
    destruct (deep_copy_v2c (nth i (o_v2c h) []) (o_sets h)) as [d' S'] eqn:Hdc.
    rewrite upd_app_last in H. inversion H; subst h'; clear H.
    pose proof (proj2 Hsim i hp p Hhp Hp) as (_ & Sp & _).
    unfold branch. rewrite <- Sp, Hpend.
    eexists. split; [reflexivity|]. rewrite Hc, Hr, Hv.
    exact (alloc_sim h ps i hp p d' S' [c] None _ _ _ (solver p) Hinv Hsim Hhp Hp Hdc).
  Qed.

  Lemma h_extend_path_sim : forall h ps i s0 h' p,
    inv h -> sim h ps -> nth_error ps i = Some p -> h_extend_path cond md h i s0 = Some h' ->
    inv h' /\ sim h' (ps ++ [extend_path cond (empty_path cond s0) p]).
  Proof.
    intros h ps i s0 h' p Hinv Hsim Hp H. unfold h_extend_path in H.
    destruct (nth_error (o_paths h) i) as [hp|] eqn:Hhp; [|discriminate].
    pose proof Hinv as (Hc & Hr & Hv & Hrefs & Hvinv).
    destruct (Hrefs i hp Hhp) as (Rc & Rr & Rv). rewrite Rc, Rr, Rv in H.
    assert (Hi : (i < List.length (o_paths h))%nat) by (apply (nth_error_lt _ _ _ Hhp)).
    destruct sep_modes as (_ & _ & _ & M1 & M2 & M3).
    rewrite (assign_flat_copy _ (o_conds h)) in H by (auto; lia).
    rewrite (assign_flat_copy _ (o_rel h)) in H by (auto; lia).
    rewrite M3 in H. unfold assign_v2c in H. rewrite nth_app_old in H by lia.
    destruct (deep_copy_v2c (nth i (o_v2c h) []) (o_sets h)) as [d' S'] eqn:Hdc.
    rewrite upd_app_last in H. inversion H; subst h'; clear H.
    unfold extend_path, empty_path. cbn [pending sliced solver]. rewrite Hc, Hr, Hv.
    exact (alloc_sim h ps i hp p d' S' [] None _ _ _ _ Hinv Hsim Hhp Hp Hdc).
  Qed.

  Lemma h_step_sim : forall h ps o h',
    inv h -> sim h ps -> h_step h o = Some h' ->
    exists ps', v_step ps o = Some ps' /\ inv h' /\ sim h' ps'.
  Proof.
    intros h ps o h' Hinv Hsim H.
    assert (Hlook : forall i, (exists hp, nth_error (o_paths h) i = Some hp) -> exists p, nth_error ps i = Some p).
    { intros i [hp Hhp]. apply (sim_lookup _ _ _ _ Hsim Hhp). }
    destruct o as [i c b|i c|i|i vs|i s0]; simpl in H; simpl.
    - destruct (nth_error (o_paths h) i) as [hp|] eqn:Hhp;
        [|unfold PathHeapModel.h_append in H; rewrite Hhp in H; discriminate].
      destruct (Hlook i (ex_intro _ hp Hhp)) as [p Hp]. rewrite Hp.
      destruct (h_append_sim _ _ _ _ _ _ _ Hinv Hsim Hp H) as (A & B & _). eauto.
    - destruct (nth_error (o_paths h) i) as [hp|] eqn:Hhp;
        [|unfold h_branch in H; rewrite Hhp in H; discriminate].
      destruct (Hlook i (ex_intro _ hp Hhp)) as [p Hp]. rewrite Hp.
      destruct (h_branch_sim _ _ _ _ _ _ Hinv Hsim Hp H) as (q & Hq & A & B). rewrite Hq. eauto.
    - destruct (nth_error (o_paths h) i) as [hp|] eqn:Hhp;
        [|unfold PathHeapModel.h_activate in H; rewrite Hhp in H; discriminate].
      destruct (Hlook i (ex_intro _ hp Hhp)) as [p Hp]. rewrite Hp.
      destruct (h_activate_sim _ _ _ _ _ Hinv Hsim Hp H) as (A & B). eauto.
    - destruct (nth_error (o_paths h) i) as [hp|] eqn:Hhp;
        [|unfold h_slice in H; rewrite Hhp in H; discriminate].
      destruct (Hlook i (ex_intro _ hp Hhp)) as [p Hp]. rewrite Hp.
      destruct (h_slice_sim _ _ _ _ _ _ Hinv Hsim Hp H) as (q & Hq & A & B). rewrite Hq. eauto.
    - destruct (nth_error (o_paths h) i) as [hp|] eqn:Hhp;
        [|unfold h_extend_path in H; rewrite Hhp in H; discriminate].
      destruct (Hlook i (ex_intro _ hp Hhp)) as [p Hp]. rewrite Hp.
      destruct (h_extend_path_sim _ _ _ _ _ _ Hinv Hsim Hp H) as (A & B). eauto.
  Qed.

  Lemma h_run_sim : forall ops h ps h',
    inv h -> sim h ps -> h_run h ops = Some h' ->
    exists ps', v_run ps ops = Some ps' /\ inv h' /\ sim h' ps'.
  Proof.
    induction ops as [|o ops IH]; intros h ps h' Hinv Hsim H; simpl in H; simpl.
    - inversion H; subst h'. eauto.
    - destruct (h_step h o) as [h1|] eqn:Hs; [|discriminate].
      destruct (h_step_sim _ _ _ _ Hinv Hsim Hs) as (ps1 & Hv & Hinv1 & Hsim1). rewrite Hv.
      apply (IH _ _ _ Hinv1 Hsim1 H).
  Qed.

  Lemma init_inv_sim : forall s0, inv (h_init cond s0) /\ sim (h_init cond s0) [empty_path cond s0].
  Proof.
    intros s0. split.
    - unfold inv, h_init. simpl.
      split; [reflexivity|]. split; [reflexivity|]. split; [reflexivity|]. split; [|split].
      + intros i hp H. destruct i as [|i]; simpl in H; [inversion H; auto | destruct i; discriminate].
      + intros i. split; [destruct i as [|[|i]]; simpl; constructor|].
        intros r Hin. destruct i as [|[|i]]; simpl in Hin; destruct Hin.
      + intros i j r _ Hin. destruct i as [|[|i]]; simpl in Hin; destruct Hin.
    - split; [reflexivity|]. intros i hp p Hhp Hp.
      destruct i as [|i]; simpl in Hhp, Hp; [|destruct i; discriminate].
      inversion Hhp; subst hp. inversion Hp; subst p. unfold agrees. simpl. auto.
  Qed.

  (* no interference: whatever the interleaving of the operations on the Path objects of an
     exploration, every object is in the state the pure model gives it *)
  Theorem heap_refines_values : forall ops s0 h,
    h_run (h_init cond s0) ops = Some h ->
    exists ps, v_run [empty_path cond s0] ops = Some ps /\
      List.length ps = List.length (o_paths h) /\
      forall i hp p, nth_error (o_paths h) i = Some hp -> nth_error ps i = Some p ->
        same_path cond (h_view cond h hp) p.
  Proof.
    intros ops s0 h H. destruct (init_inv_sim s0) as [Hinv Hsim].
    destruct (h_run_sim _ _ _ _ Hinv Hsim H) as (ps & Hv & Hinv' & Hsim').
    exists ps. split; [exact Hv|]. split; [apply Hsim'|].
    intros i hp p Hhp Hp. apply (agrees_view h i hp p Hinv' Hhp). apply (proj2 Hsim' i hp p Hhp Hp).
  Qed.
End HeapSim.

(* ------------------------------------------------------------------ values follow their lineage *)
Section Lineage.
  Variable cond : Type.
  Variable cond_eqb : cond -> cond -> bool.
  Variable simp : cond -> cond.
  Variable is_true : cond -> bool.
  Variable vars : cond -> list Z.

  Notation path := (path cond).
  Notation run := (run cond cond_eqb simp is_true vars).
  Notation step := (step cond cond_eqb simp is_true vars).
  Notation v_step := (v_step cond cond_eqb simp is_true vars).
  Notation v_run := (v_run cond cond_eqb simp is_true vars).

  Lemma run_snoc : forall l p q o, run p l = Some q -> run p (l ++ [o]) = step q o.
  Proof.
    induction l as [|x l IH]; intros p q o H; simpl in *.
    - inversion H; subst. destruct (step q o); reflexivity.
    - destruct (step p x) as [p'|]; [|discriminate]. apply IH. exact H.
  Qed.

  Definition linv (root : path) (ps : list path) (ls : list (list (pop cond))) : Prop :=
    List.length ls = List.length ps /\
    forall i p, nth_error ps i = Some p -> run root (nth i ls []) = Some p.

  Lemma linv_upd : forall root ps ls i p q o,
    linv root ps ls -> nth_error ps i = Some p -> step p o = Some q ->
    linv root (upd ps i q) (lin_snoc cond ls i o).
  Proof.
    intros root ps ls i p q o [Hlen Hl] Hp Hs. unfold lin_snoc.
    assert (Hi : (i < List.length ps)%nat) by (apply (nth_error_lt _ _ _ Hp)).
    split; [rewrite !upd_length; exact Hlen|].
    intros j pj Hj. destruct (Nat.eq_dec j i) as [->|Hne].
    - rewrite nth_error_upd_same in Hj by exact Hi. inversion Hj; subst pj.
      rewrite nth_upd_same by lia. rewrite (run_snoc _ _ _ _ (Hl i p Hp)). exact Hs.
    - rewrite nth_error_upd_other in Hj by congruence. rewrite nth_upd_other by congruence.
      apply Hl. exact Hj.
  Qed.

  Lemma linv_new : forall root ps ls i p q o,
    linv root ps ls -> nth_error ps i = Some p -> step p o = Some q ->
    linv root (ps ++ [q]) (ls ++ [nth i ls [] ++ [o]]).
  Proof.
    intros root ps ls i p q o [Hlen Hl] Hp Hs.
    split; [rewrite !app_length; simpl; lia|].
    intros j pj Hj. destruct (lt_eq_lt_dec j (List.length ps)) as [[Hlt| ->]|Hgt].
    - rewrite nth_error_app1 in Hj by exact Hlt. rewrite nth_app_old by lia. apply Hl. exact Hj.
    - rewrite nth_error_app_last in Hj. inversion Hj; subst pj.
      rewrite <- Hlen. rewrite nth_app_last. rewrite (run_snoc _ _ _ _ (Hl i p Hp)). exact Hs.
    - apply nth_error_lt in Hj. rewrite app_length in Hj. simpl in Hj. lia.
  Qed.

  Lemma lin_step_inv : forall root ps ls o ps',
    linv root ps ls -> v_step ps o = Some ps' -> linv root ps' (lin_step cond ls o).
  Proof.
    intros root ps ls o ps' Hl H. destruct o as [i c b|i c|i|i vs|i s0]; simpl in H; simpl;
      destruct (nth_error ps i) as [p|] eqn:Hp; try discriminate.
    - inversion H; subst ps'. apply (linv_upd _ _ _ _ p _ _ Hl Hp). reflexivity.
    - destruct (branch cond p c) as [q|] eqn:Hb; [|discriminate]. inversion H; subst ps'.
      apply (linv_new _ _ _ _ p _ _ Hl Hp). exact Hb.
    - inversion H; subst ps'. apply (linv_upd _ _ _ _ p _ _ Hl Hp). reflexivity.
    - destruct (slice cond vars p vs) as [q|] eqn:Hb; [|discriminate]. inversion H; subst ps'.
      apply (linv_upd _ _ _ _ p _ _ Hl Hp). exact Hb.
    - inversion H; subst ps'. apply (linv_new _ _ _ _ p _ _ Hl Hp). reflexivity.
  Qed.

  Lemma lin_run_inv : forall ops root ps ls ps',
    linv root ps ls -> v_run ps ops = Some ps' -> linv root ps' (fold_left (lin_step cond) ops ls).
  Proof.
    induction ops as [|o ops IH]; intros root ps ls ps' Hl H; simpl in H; simpl.
    - inversion H; subst ps'. exact Hl.
    - destruct (v_step ps o) as [ps1|] eqn:Hs; [|discriminate].
      apply (IH _ _ _ _ (lin_step_inv _ _ _ _ _ Hl Hs) H).
  Qed.

  (* every Path value of the exploration is the result of the life recorded as its lineage *)
  Theorem values_follow_lineage : forall ops s0 ps,
    v_run [empty_path cond s0] ops = Some ps ->
    List.length (lineages cond ops) = List.length ps /\
    forall i p, nth_error ps i = Some p ->
      run (empty_path cond s0) (nth i (lineages cond ops) []) = Some p.
  Proof.
    intros ops s0 ps H. apply (lin_run_inv ops (empty_path cond s0) [empty_path cond s0] [[]] ps); [|exact H].
    split; [reflexivity|]. intros i p Hp. destruct i as [|i]; simpl in Hp; [|destruct i; discriminate].
    inversion Hp; subst p. reflexivity.
  Qed.
End Lineage.

(* ------------------------------------------------------------------ the query of every Path object *)
Section EveryPath.
  Variable cond : Type.
  Variable cond_eqb : cond -> cond -> bool.
  Variable simp : cond -> cond.
  Variable is_true : cond -> bool.
  Variable vars : cond -> list Z.
  Variable cid : cond -> Z.
  Variable md : modes.
  Hypothesis Hsep : separate md = true.

  (* the conditions dict of the i-th Path object holds what the pure model computes along
     the lineage of that object *)
  Lemma heap_conditions : forall ops s0 h i hp,
    h_run cond cond_eqb simp is_true vars md (h_init cond s0) ops = Some h ->
    nth_error (o_paths h) i = Some hp ->
    exists p, run cond cond_eqb simp is_true vars (empty_path cond s0) (nth i (lineages cond ops) []) = Some p /\
              same_path cond (h_view cond h hp) p.
  Proof.
    intros ops s0 h i hp H Hhp.
    destruct (heap_refines_values cond cond_eqb simp is_true vars md Hsep ops s0 h H) as (ps & Hv & Hlen & Hsame).
    destruct (values_follow_lineage cond cond_eqb simp is_true vars ops s0 ps Hv) as [_ Hl].
    destruct (nth_error ps i) as [p|] eqn:Hp.
    - exists p. split; [apply Hl; exact Hp | apply (Hsame i hp p Hhp Hp)].
    - apply nth_error_None in Hp. apply nth_error_lt in Hhp. lia.
  Qed.

  Theorem every_path_query : forall ops s0 h i cs q,
    h_run cond cond_eqb simp is_true vars md (h_init cond s0) ops = Some h ->
    h_to_smt2 cond cid h i cs = Some q ->
    map (fun a => match a with QPlain c => c | QTracked _ c => c end) (fst q)
      = add_all cond cond_eqb simp is_true [] (accumulated cond (nth i (lineages cond ops) []))
    /\ snd q = map cid (add_all cond cond_eqb simp is_true [] (accumulated cond (nth i (lineages cond ops) []))).
  Proof.
    intros ops s0 h i cs q H Hq. unfold h_to_smt2 in Hq.
    destruct (nth_error (o_paths h) i) as [hp|] eqn:Hhp; [|discriminate]. inversion Hq; subst q; clear Hq.
    destruct (heap_conditions ops s0 h i hp H Hhp) as (p & Hrun & (Hc & _)).
    simpl in Hc. rewrite Hc.
    apply (all_conditions cond cond_eqb simp is_true vars cid _ s0 p cs Hrun).
  Qed.

  Theorem every_path_query_sem : forall (env : Type) (sem : env -> cond -> Prop),
    (forall e c, sem e (simp c) <-> sem e c) ->
    (forall c, is_true c = true -> forall e, sem e c) ->
    (forall c d, cond_eqb c d = true -> forall e, sem e c <-> sem e d) ->
    forall ops s0 h i cs q e,
    h_run cond cond_eqb simp is_true vars md (h_init cond s0) ops = Some h ->
    h_to_smt2 cond cid h i cs = Some q ->
    ((exists b, Forall (holds sem e b) (dump_asserts cs q))
     <-> path_constraints_hold sem e (accumulated cond (nth i (lineages cond ops) []))).
  Proof.
    intros env sem H1 H2 H3 ops s0 h i cs q e H Hq. unfold h_to_smt2 in Hq.
    destruct (nth_error (o_paths h) i) as [hp|] eqn:Hhp; [|discriminate]. inversion Hq; subst q; clear Hq.
    destruct (heap_conditions ops s0 h i hp H Hhp) as (p & Hrun & (Hc & _)).
    simpl in Hc. rewrite Hc.
    apply (query_equals_constraints cond cond_eqb simp is_true vars cid env sem H1 H2 H3 _ s0 p cs e Hrun).
  Qed.
End EveryPath.
