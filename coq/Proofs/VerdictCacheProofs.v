(* C05 -- proofs about Model/VerdictCacheModel.v: run_test with the unsat-core cache refines
   run_test without it, for every interleaving of worker starts and callbacks. *)
From Coq Require Import ZArith List Bool String Lia Permutation.
From HV Require Import Spec.VerdictSpec Gen.GenVerdict Gen.GenSolveDispatch Gen.GenUnsatCore Gen.GenCoreAppend
                       Model.VerdictModel Model.VerdictCacheModel Proofs.VerdictProofs.
Import ListNotations.
Local Open Scope list_scope.
Local Open Scope nat_scope.

(* ------------------------------------------------------------------ the generated decisions *)

(* a cache hit exhibits a cached core all of whose ids occur in the query *)
Lemma check_hit : forall ids cores,
  gen_check_unsat_cores mem_nat ids cores = true ->
  exists c, In c cores /\ forall x, In x c -> In x ids.
Proof.
  intros ids cores H. unfold gen_check_unsat_cores in H. rewrite orb_false_r in H.
  apply existsb_exists in H. destruct H as (c & Hin & Hc). exists c. split; [assumption |].
  intros x Hx. rewrite forallb_forall in Hc. specialize (Hc x Hx). unfold mem_nat in Hc.
  apply existsb_exists in Hc. destruct Hc as (y & Hy & E). apply Nat.eqb_eq in E. subst y. assumption.
Qed.

Lemma check_hit_conv : forall ids cores c,
  In c cores -> (forall x, In x c -> In x ids) -> gen_check_unsat_cores mem_nat ids cores = true.
Proof.
  intros ids cores c Hin Hc. unfold gen_check_unsat_cores. rewrite orb_false_r.
  apply existsb_exists. exists c. split; [assumption |]. apply forallb_forall. intros x Hx.
  unfold mem_nat. apply existsb_exists. exists x. split; [apply Hc; assumption | apply Nat.eqb_refl].
Qed.

(* a core is appended only for an `unsat` output that carries a NON-EMPTY core *)
Lemma guard_sound : forall (u : bool) (core : option (list nat)),
  gen_append_guard u core = true -> u = true /\ exists x l, core = Some (x :: l).
Proof.
  intros u core H. unfold gen_append_guard in H. destruct u; [| discriminate H].
  destruct core as [[| x l] |]; cbn in H; try discriminate H. split; [reflexivity | eauto].
Qed.

Lemma core_of_reply_some : forall cache (p : option (list nat)) c,
  gen_core_of_reply cache p = Some c -> cache = true /\ p = Some c.
Proof. intros cache p c H. unfold gen_core_of_reply in H. destruct cache; [auto | discriminate H]. Qed.

(* ------------------------------------------------------------------ projection to the plain system *)

Definition proj_job (b : job) : nat * answer := (jid b, ans (base (jq b))).

Definition proj (c : cst) : st :=
  mkst (cmst c) (map base (ctodo c)) (cnextid c) (cflag c) (map proj_job (cjobs c)) (couts c) (cnstuck c) (cnormal c).

(* the events of the plain system a cache event amounts to *)
Definition erase (c : cst) (e : cevent) : list event :=
  match e with
  | CMain => [EvMain]
  | CMainRaise => [EvMainRaise]
  | CStart _ => []
  | CCb j => match cfind j (cjobs c) with
             | Some (_, b, _) => match jstage b with Started _ => [EvCb j] | Queued => [] end
             | None => []
             end
  end.

Fixpoint erase_all (cache ee : bool) (c : cst) (sched : list cevent) : list event :=
  match sched with
  | [] => []
  | e :: r => erase c e ++ erase_all cache ee (cstep cache ee c e) r
  end.

Lemma cfind_spec : forall j l pre b post, cfind j l = Some (pre, b, post) ->
  l = pre ++ b :: post /\ jid b = j.
Proof.
  induction l as [| x l IH]; intros pre b post H; cbn [cfind] in H; [discriminate |].
  destruct (Nat.eqb (jid x) j) eqn:E.
  - inversion H; subst. apply Nat.eqb_eq in E. split; [reflexivity | assumption].
  - destruct (cfind j l) as [[[pre' b'] post'] |] eqn:F; [| discriminate]. inversion H; subst.
    destruct (IH _ _ _ eq_refl) as [-> Hj]. split; [reflexivity | assumption].
Qed.

Lemma take_proj : forall j l pre b post, cfind j l = Some (pre, b, post) ->
  take j (map proj_job l) = Some (ans (base (jq b)), map proj_job (pre ++ post)).
Proof.
  induction l as [| x l IH]; intros pre b post H; cbn [cfind] in H; [discriminate |].
  cbn [map take]. unfold proj_job at 1.
  destruct (Nat.eqb (jid x) j) eqn:E.
  - inversion H; subst. reflexivity.
  - destruct (cfind j l) as [[[pre' b'] post'] |] eqn:F; [| discriminate]. inversion H; subst.
    rewrite (IH _ _ _ eq_refl). reflexivity.
Qed.

Lemma proj_set_mst : forall c m, proj (cset_mst c m) = set_mst (proj c) m.
Proof. reflexivity. Qed.

Lemma proj_step_main : forall c, proj (cstep_main c) = step_main (proj c).
Proof.
  intros c. unfold cstep_main, step_main. cbn [proj mst todo flag].
  destruct (cmst c) eqn:M; try (unfold proj; rewrite M; reflexivity).
  - destruct (ctodo c) as [| q rest] eqn:T; cbn [map]; [apply proj_set_mst |].
    destruct (cflag c); apply proj_set_mst.
  - destruct (ctodo c) as [| q rest] eqn:T; cbn [map]; [apply proj_set_mst |].
    destruct (kind_action (kind (base q))).
    + unfold proj; cbn. rewrite map_app. reflexivity.
    + destruct (cflag c) eqn:F; [apply proj_set_mst |].
      unfold cstuck_solved, stuck_solved, proj. cbn. rewrite F. reflexivity.
    + reflexivity.
    + reflexivity.
Qed.

(* with the `except Exception` handler a raising stuck-path solve is an ordinary main-loop step *)
Lemma cstep_main_raise_eq : stuck_exception_escapes = false -> forall c, cstep_main_raise c = cstep_main c.
Proof.
  intros NE c. unfold cstep_main_raise.
  destruct (cmst c) eqn:M; try reflexivity.
  destruct (ctodo c) as [| q rest] eqn:T; try reflexivity.
  destruct (kind_action (kind (base q))) eqn:A; try reflexivity.
  destruct (cflag c) eqn:F; [reflexivity |].
  destruct (is_err (ans (base q))) eqn:E; [| reflexivity].
  rewrite NE. unfold cstep_main. rewrite M, T, A, F.
  destruct (ans (base q)); try discriminate E. reflexivity.
Qed.

Lemma proj_step_main_raise : forall c, proj (cstep_main_raise c) = step_main_raise (proj c).
Proof.
  intros c. unfold cstep_main_raise, step_main_raise. cbn [proj mst todo flag].
  destruct (cmst c) eqn:M; try (rewrite proj_step_main; reflexivity).
  destruct (ctodo c) as [| q rest] eqn:T; cbn [map]; [rewrite proj_step_main; reflexivity |].
  destruct (kind_action (kind (base q))); try (rewrite proj_step_main; reflexivity).
  destruct (cflag c) eqn:F; [rewrite proj_step_main; reflexivity |].
  destruct (is_err (ans (base q))); [| rewrite proj_step_main; reflexivity].
  destruct stuck_exception_escapes; [apply proj_set_mst |].
  unfold cstuck_solved, stuck_solved, proj. cbn. rewrite F. reflexivity.
Qed.

(* ------------------------------------------------------------------ the invariant *)

(* every non-empty core the solver reports for an unsat potential-violation query is honoured by the
   solver itself: it answers unsat on every potential-violation query that contains the core.
   (An EMPTY core list names no assertion at all and is exempt: it says nothing about other queries.) *)
Definition core_consistent (qs : list qpath) : Prop :=
  forall p q c, In p qs -> In q qs -> potential (base p) = true -> potential (base q) = true ->
    ans (base p) = Unsat -> qcore p = Some c -> c <> [] ->
    (forall x, In x c -> In x (qids q)) -> ans (base q) = Unsat.

Record cinv (qs : list qpath) (cache : bool) (c : cst) : Prop := mkcinv {
  ci_todo : forall q, In q (ctodo c) -> In q qs;
  ci_jobs : forall b, In b (cjobs c) -> In (jq b) qs /\ potential (base (jq b)) = true;
  ci_cores : forall c0, In c0 (ccores c) ->
      cache = true /\ c0 <> [] /\ exists p, In p qs /\ potential (base p) = true /\ ans (base p) = Unsat /\ qcore p = Some c0;
  ci_hit : forall b, In b (cjobs c) -> jstage b = Started true -> ans (base (jq b)) = Unsat
}.

Lemma cinv_init : forall qs cache, cinv qs cache (cinit qs).
Proof. intros qs cache. constructor; cbn; try (intros; contradiction). intros q H; exact H. Qed.

Lemma cinv_set_mst : forall qs cache c m, cinv qs cache c -> cinv qs cache (cset_mst c m).
Proof. intros qs cache c m []. constructor; cbn; assumption. Qed.

Lemma cinv_step_main : forall qs cache c, cinv qs cache c -> cinv qs cache (cstep_main c).
Proof.
  intros qs cache c I. unfold cstep_main.
  destruct (cmst c); try assumption.
  - destruct (ctodo c); [apply cinv_set_mst; assumption |]. destruct (cflag c); apply cinv_set_mst; assumption.
  - destruct (ctodo c) as [| q rest] eqn:T; [apply cinv_set_mst; assumption |].
    destruct I as [I1 I2 I3 I4].
    assert (Hq : In q qs) by (apply I1; rewrite T; left; reflexivity).
    assert (Hrest : forall x, In x rest -> In x qs) by (intros x Hx; apply I1; rewrite T; right; assumption).
    destruct (kind_action (kind (base q))) eqn:A.
    + constructor; cbn; try assumption.
      * intros b Hb. apply in_app_or in Hb. destruct Hb as [Hb | [<- | []]]; [apply I2; assumption |].
        cbn [jq]. split; [assumption |]. rewrite <- action_submit, A. reflexivity.
      * intros b Hb S. apply in_app_or in Hb. destruct Hb as [Hb | [<- | []]]; [apply I4; assumption | discriminate S].
    + destruct (cflag c); [apply cinv_set_mst; constructor; assumption |]. unfold cstuck_solved. constructor; cbn; assumption.
    + constructor; cbn; assumption.
    + constructor; cbn; assumption.
Qed.

Lemma cinv_step_main_raise : forall qs cache c, cinv qs cache c -> cinv qs cache (cstep_main_raise c).
Proof.
  intros qs cache c I. destruct stuck_exception_escapes eqn:NE;
    [| rewrite (cstep_main_raise_eq NE); apply cinv_step_main; assumption].
  unfold cstep_main_raise. rewrite NE.
  destruct (cmst c); try (apply cinv_step_main; assumption).
  destruct (ctodo c) as [| q rest]; [apply cinv_step_main; assumption |].
  destruct (kind_action (kind (base q))); try (apply cinv_step_main; assumption).
  destruct (cflag c); [apply cinv_step_main; assumption |].
  destruct (is_err (ans (base q))); [apply cinv_set_mst; assumption | apply cinv_step_main; assumption].
Qed.

Lemma cinv_step_start : forall qs cache j c, (cache = true -> core_consistent qs) -> cinv qs cache c -> cinv qs cache (cstep_start j c).
Proof.
  intros qs cache j c H I. unfold cstep_start.
  destruct (cfind j (cjobs c)) as [[[pre b] post] |] eqn:F; [| assumption].
  destruct (jstage b) eqn:S; [| assumption].
  destruct (cfind_spec _ _ _ _ _ F) as [E _].
  destruct I as [I1 I2 I3 I4].
  assert (Hb : In b (cjobs c)) by (rewrite E; apply in_or_app; right; left; reflexivity).
  assert (Hsub : forall x, In x (pre ++ post) -> In x (cjobs c)).
  { intros x Hx. rewrite E. apply in_app_or in Hx. apply in_or_app. destruct Hx; [left | right; right]; assumption. }
  constructor; cbn; try assumption.
  - intros x Hx. apply in_app_or in Hx. destruct Hx as [Hx | [<- | Hx]].
    + apply I2, Hsub, in_or_app. left. assumption.
    + cbn [jq]. apply I2. assumption.
    + apply I2, Hsub, in_or_app. right. assumption.
  - intros x Hx Sx. apply in_app_or in Hx. destruct Hx as [Hx | [<- | Hx]].
    + apply I4; [apply Hsub, in_or_app; left |]; assumption.
    + cbn [jq jstage] in *. injection Sx as Hit. apply check_hit in Hit. destruct Hit as (c0 & Hc0 & Hsubset).
      destruct (I3 c0 Hc0) as (Hcache & Hne & p & Hp & Ppot & Pans & Pcore).
      destruct (I2 b Hb) as [Hbq Bpot].
      exact (H Hcache p (jq b) c0 Hp Hbq Ppot Bpot Pans Pcore Hne Hsubset).
    + apply I4; [apply Hsub, in_or_app; right |]; assumption.
Qed.

Lemma cinv_step_cb : forall qs cache ee j c, cinv qs cache c -> cinv qs cache (cstep_cb cache ee j c).
Proof.
  intros qs cache ee j c I. unfold cstep_cb.
  destruct (cfind j (cjobs c)) as [[[pre b] post] |] eqn:F; [| assumption].
  destruct (jstage b) as [| hit] eqn:S; [assumption |].
  destruct (cfind_spec _ _ _ _ _ F) as [E _].
  destruct I as [I1 I2 I3 I4].
  assert (Hb : In b (cjobs c)) by (rewrite E; apply in_or_app; right; left; reflexivity).
  assert (Hsub : forall x, In x (pre ++ post) -> In x (cjobs c)).
  { intros x Hx. rewrite E. apply in_app_or in Hx. apply in_or_app. destruct Hx; [left | right; right]; assumption. }
  constructor; cbn [ctodo cjobs ccores]; try assumption.
  - intros x Hx. apply I2, Hsub. assumption.
  - intros c0 Hc0.
    destruct (gen_append_guard (is_unsat (get_solver_output (cflag c) (Some (fst (job_result cache (jq b) hit)))))
                               (if cflag c then None else snd (job_result cache (jq b) hit))) eqn:G;
      [| apply I3; assumption].
    apply guard_sound in G. destruct G as (U & x & l & C).
    destruct (cflag c) eqn:Fl; [discriminate C |]. rewrite get_output_live in U. rewrite C in Hc0.
    apply in_app_or in Hc0. destruct Hc0 as [Hc0 | [<- | []]]; [apply I3; assumption |].
    unfold job_result in U, C. destruct hit; [discriminate C |]. cbn [fst snd] in U, C.
    unfold reply_core in C. rewrite U in C. apply core_of_reply_some in C. destruct C as [Hcache C].
    split; [assumption |]. split; [discriminate |]. exists (jq b). destruct (I2 b Hb) as [Hq Hp].
    repeat split; try assumption. destruct (ans (base (jq b))); try discriminate U. reflexivity.
  - intros x Hx. apply I4, Hsub. assumption.
Qed.

Lemma cinv_step : forall qs cache ee c e, (cache = true -> core_consistent qs) -> cinv qs cache c -> cinv qs cache (cstep cache ee c e).
Proof.
  intros qs cache ee c e H I. destruct e; cbn [cstep].
  - apply cinv_step_main; assumption.
  - apply cinv_step_main_raise; assumption.
  - apply cinv_step_start; assumption.
  - apply cinv_step_cb; assumption.
Qed.

(* ------------------------------------------------------------------ simulation *)

Lemma proj_step_start : forall j c, proj (cstep_start j c) = proj c.
Proof.
  intros j c. unfold cstep_start.
  destruct (cfind j (cjobs c)) as [[[pre b] post] |] eqn:F; [| reflexivity].
  destruct (jstage b); [| reflexivity].
  destruct (cfind_spec _ _ _ _ _ F) as [E _]. unfold proj. cbn. rewrite E, !map_app. reflexivity.
Qed.

Lemma proj_step_cb : forall qs cache ee j c, cinv qs cache c ->
  proj (cstep_cb cache ee j c) = fold_left (step ee) (erase c (CCb j)) (proj c).
Proof.
  intros qs cache ee j c I. unfold cstep_cb, erase.
  destruct (cfind j (cjobs c)) as [[[pre b] post] |] eqn:F; [| reflexivity].
  destruct (jstage b) as [| hit] eqn:S; [reflexivity |].
  cbn [fold_left step]. unfold step_cb. cbn [proj pending].
  rewrite (take_proj _ _ _ _ _ F).
  destruct (cfind_spec _ _ _ _ _ F) as [E _].
  assert (Hb : In b (cjobs c)) by (rewrite E; apply in_or_app; right; left; reflexivity).
  assert (A : fst (job_result cache (jq b) hit) = ans (base (jq b))).
  { unfold job_result. destruct hit; [| reflexivity]. cbn [fst]. symmetry. apply (ci_hit _ _ _ I b Hb S). }
  rewrite A. reflexivity.
Qed.

Lemma step_sim : forall qs cache ee c e, cinv qs cache c ->
  proj (cstep cache ee c e) = fold_left (step ee) (erase c e) (proj c).
Proof.
  intros qs cache ee c e I. destruct e; cbn [cstep].
  - apply proj_step_main.
  - apply proj_step_main_raise.
  - apply proj_step_start.
  - eapply proj_step_cb; eassumption.
Qed.

Lemma run_sim : forall qs cache ee, (cache = true -> core_consistent qs) -> forall sched c, cinv qs cache c ->
  proj (fold_left (cstep cache ee) sched c) = fold_left (step ee) (erase_all cache ee c sched) (proj c).
Proof.
  intros qs cache ee H. induction sched as [| e r IH]; intros c I; cbn [fold_left erase_all]; [reflexivity |].
  rewrite fold_left_app, <- (step_sim qs cache ee c e I). apply IH. apply cinv_step; assumption.
Qed.

Lemma erase_all_raise : forall cache ee sched c,
  In EvMainRaise (erase_all cache ee c sched) -> In CMainRaise sched.
Proof.
  induction sched as [| e r IH]; intros c H; cbn [erase_all] in H; [contradiction |].
  apply in_app_or in H. destruct H as [H | H]; [| right; eapply IH; eassumption].
  left. destruct e; cbn [erase] in H.
  - destruct H as [H | []]; discriminate H.
  - reflexivity.
  - contradiction.
  - destruct (cfind j (cjobs c)) as [[[pre b] post] |]; [| contradiction].
    destruct (jstage b); [contradiction |]. destruct H as [H | []]; discriminate H.
Qed.

Lemma cresult_proj : forall c, cresult c = result (proj c).
Proof.
  intros c. unfold cresult, result. cbn [proj mst pending].
  destruct (cmst c); try reflexivity. destruct (cjobs c); reflexivity.
Qed.

(* main result: every run of the system with the shared core list is, observably, a run of the plain
   system on the same paths -- unconditionally without --cache-solver, and under a core-consistent
   solver with it *)
Lemma cache_refines : forall cache ee qs sched,
  (cache = true -> core_consistent qs) ->
  exists sched',
    (In EvMainRaise sched' -> In CMainRaise sched) /\
    cresult (crun cache ee qs sched) = result (run ee (map base qs) sched').
Proof.
  intros cache ee qs sched H. exists (erase_all cache ee (cinit qs) sched). split.
  - apply erase_all_raise.
  - rewrite cresult_proj. unfold crun, run. rewrite (run_sim qs cache ee H sched (cinit qs) (cinv_init qs cache)).
    reflexivity.
Qed.

Lemma cache_schedule_any : forall cache ee qs sched r,
  (cache = true -> core_consistent qs) ->
  cresult (crun cache ee qs sched) = Some r ->
  r = model_verdict (map base qs) \/
  (ee = true /\ spec_verdict (map base qs) = LFail /\ r = (raised_label, raised_exitcode) /\
   exists p, In p (map base qs) /\ kind p = Stuck) \/
  (r = (raised_label, raised_exitcode) /\ exists p, In p (map base qs) /\ kind p = Stuck /\ ans p = Err).
Proof.
  intros cache ee qs sched r H R. destruct (cache_refines cache ee qs sched H) as (sched' & _ & E).
  rewrite E in R. exact (schedule_sound_any _ _ _ _ R).
Qed.

Lemma cache_schedule_no_early_exit : forall cache qs sched r,
  (cache = true -> core_consistent qs) -> ~ In CMainRaise sched ->
  cresult (crun cache false qs sched) = Some r ->
  r = model_verdict (map base qs) /\ fst r = spec_verdict (map base qs).
Proof.
  intros cache qs sched r H N R. destruct (cache_refines cache false qs sched H) as (sched' & N' & E).
  rewrite E in R. apply (schedule_no_early_exit _ sched'); [| assumption]. intros X. apply N, N', X.
Qed.

Lemma cache_failsafe : forall cache ee qs sched r,
  (cache = true -> core_consistent qs) ->
  cresult (crun cache ee qs sched) = Some r ->
  (fst r = LPass <-> spec_verdict (map base qs) = LPass) /\ (snd r = EX_PASS <-> spec_verdict (map base qs) = LPass).
Proof.
  intros cache ee qs sched r H R. destruct (cache_refines cache ee qs sched H) as (sched' & _ & E).
  rewrite E in R. exact (schedule_failsafe _ _ _ _ R).
Qed.

(* full strength (the stuck-path solve is exception-safe, Proofs/VerdictProofs.v schedule_full) *)
Lemma cache_schedule_full : forall cache ee qs sched r,
  (cache = true -> core_consistent qs) ->
  cresult (crun cache ee qs sched) = Some r ->
  r = model_verdict (map base qs) /\ fst r = spec_verdict (map base qs).
Proof.
  intros cache ee qs sched r H R. destruct (cache_refines cache ee qs sched H) as (sched' & _ & E).
  rewrite E in R. exact (schedule_full _ _ _ _ R).
Qed.

(* without --cache-solver: no hypothesis on the solver's cores at all *)
Lemma nocache_refines : forall ee qs sched,
  exists sched',
    (In EvMainRaise sched' -> In CMainRaise sched) /\
    cresult (crun false ee qs sched) = result (run ee (map base qs) sched').
Proof. intros. apply cache_refines. intros X. discriminate X. Qed.

(* without --cache-solver no core is ever recorded and no query is answered from the cache *)
Lemma nocache_no_cores : forall ee qs sched,
  ccores (crun false ee qs sched) = [] /\ chits (crun false ee qs sched) = [].
Proof.
  intros ee qs sched. unfold crun.
  assert (G : forall c, ccores c = [] /\ chits c = [] ->
              ccores (fold_left (cstep false ee) sched c) = [] /\ chits (fold_left (cstep false ee) sched c) = []).
  { induction sched as [| e r IH]; intros c [C1 C2]; cbn [fold_left]; [split; assumption |].
    apply IH. destruct e; cbn [cstep].
    - unfold cstep_main. destruct (cmst c); try (split; assumption).
      + destruct (ctodo c); [split; assumption |]. destruct (cflag c); split; assumption.
      + destruct (ctodo c); [split; assumption |].
        destruct (kind_action (kind (base q))); try (split; assumption).
        destruct (cflag c); split; assumption.
    - unfold cstep_main_raise, cstep_main. destruct (cmst c); try (split; assumption).
      + destruct (ctodo c); [split; assumption |]. destruct (cflag c); split; assumption.
      + destruct (ctodo c); [split; assumption |].
        destruct (kind_action (kind (base q))); try (split; assumption).
        destruct (cflag c); [split; assumption |].
        destruct (is_err (ans (base q))); [destruct stuck_exception_escapes; split; assumption | split; assumption].
    - unfold cstep_start. destruct (cfind j (cjobs c)) as [[[pre b] post] |]; [| split; assumption].
      destruct (jstage b); [| split; assumption]. cbn. rewrite C1.
      unfold gen_check_unsat_cores. cbn. split; [reflexivity | assumption].
    - unfold cstep_cb. destruct (cfind j (cjobs c)) as [[[pre b] post] |]; [| split; assumption].
      destruct (jstage b) as [| hit]; [split; assumption |]. cbn [ccores chits]. split; [| assumption].
      destruct (gen_append_guard _ _) eqn:G; [| assumption].
      apply guard_sound in G. destruct G as (_ & x & l & C). exfalso.
      destruct (cflag c); [discriminate C |]. unfold job_result in C. destruct hit; [discriminate C |].
      cbn [snd] in C. unfold reply_core in C. destruct (is_unsat (ans (base (jq b)))); [| discriminate C].
      apply core_of_reply_some in C. destruct C as [C _]. discriminate C. }
  apply G. split; reflexivity.
Qed.

(* the hypothesis is needed: a solver that reports a core but times out on another query containing it
   makes the verdict depend on the completion order (PASS when the core arrives first, TIMEOUT when
   the second query is started before) *)
Lemma cache_order_dependent_without_consistency :
  exists qs s1 s2,
    cresult (crun true false qs s1) = Some (LPass, EX_PASS) /\
    cresult (crun true false qs s2) = Some (LTimeout, EX_TIMEOUT).
Proof.
  exists [mkq (mkpath Panic Unsat) [1; 2] (Some [1]); mkq (mkpath Panic Unknown) [1; 3] None; mkq (mkpath Success Unsat) [1] None].
  exists [CMain; CMain; CMain; CMain; CMain; CMain; CMain; CStart 0; CCb 0; CStart 1; CCb 1].
  exists [CMain; CMain; CMain; CMain; CMain; CMain; CMain; CStart 0; CStart 1; CCb 0; CCb 1].
  split; reflexivity.
Qed.

(* ------------------------------------------------------------------ PASS is sound with the cache, without
   any completeness assumption on the solver: it suffices that the solver's `unsat` answers and its
   NON-EMPTY cores are true.  `sem ids = true` reads "the assertions named by ids are jointly
   unsatisfiable" (so sem [] = false for any real semantics: an empty core list can never be a true
   core, which is why it is exempt below). *)

Lemma chain_pass_inv : forall ns nu nk ne nst nn : Z,
  (0 <= ns -> 0 <= ne -> 0 <= nk -> 0 <= nst -> 0 <= nn ->
   fst (verdict_chain ns nu nk ne nst nn) = LPass ->
   ns = 0 /\ ne = 0 /\ nk = 0 /\ nst = 0 /\ 0 < nn)%Z.
Proof.
  intros ns nu nk ne nst nn Hs He Hk Hst Hn P.
  destruct (chain_cases ns nu nk ne nst nn Hs He Hk Hst Hn) as (H1 & H2 & H3 & H4 & H5 & H6).
  destruct (Z_lt_le_dec 0 ns) as [L1 | L1]; [rewrite (H1 L1) in P; discriminate P |].
  assert (E1 : ns = 0%Z) by lia.
  destruct (Z_lt_le_dec 0 ne) as [L2 | L2]; [rewrite (H2 E1 L2) in P; discriminate P |].
  assert (E2 : ne = 0%Z) by lia.
  destruct (Z_lt_le_dec 0 nk) as [L3 | L3]; [rewrite (H3 E1 E2 L3) in P; discriminate P |].
  assert (E3 : nk = 0%Z) by lia.
  destruct (Z_lt_le_dec 0 nst) as [L4 | L4]; [rewrite (H4 E1 E2 E3 L4) in P; discriminate P |].
  assert (E4 : nst = 0%Z) by lia.
  destruct (Z_lt_le_dec 0 nn) as [L5 | L5]; [repeat split; assumption |].
  assert (E5 : nn = 0%Z) by lia. rewrite (H5 E1 E2 E3 E4 E5) in P. discriminate P.
Qed.

Definition non_unsat (a : answer) : bool := negb (is_unsat a).

Lemma non_unsat_cnt : forall l, cnt non_unsat l = cnt is_sat l + cnt is_unknown l + cnt is_err l.
Proof. induction l as [| a l IH]; cbn [cnt]; [reflexivity |]. destruct a; cbn; lia. Qed.

Lemma verdict_pass_inv : forall outs ns nn,
  fst (verdict_of outs ns nn) = LPass -> cnt non_unsat outs = 0 /\ ns = 0 /\ 0 < nn.
Proof.
  intros outs ns nn P. unfold verdict_of, counter in P.
  rewrite (cnt_ext _ _ is_sat outs key_sat), (cnt_ext _ _ is_unsat outs key_unsat),
          (cnt_ext _ _ is_unknown outs key_unknown), (cnt_ext _ _ is_err outs key_err) in P.
  apply chain_pass_inv in P; try lia. rewrite non_unsat_cnt. lia.
Qed.

Section SemanticPass.
  Variable sem : list nat -> bool.
  Hypothesis sem_mono : forall a b, (forall x, In x a -> In x b) -> sem a = true -> sem b = true.
  Variable qs : list qpath.
  Hypothesis solver_sound : forall p, In p qs -> potential (base p) = true -> ans (base p) = Unsat ->
    sem (qids p) = true /\ (forall c, qcore p = Some c -> c <> [] -> sem c = true).

  (* a potential violation whose query is not unsatisfiable *)
  Definition bad (q : qpath) : bool := potential (base q) && negb (sem (qids q)).
  Definition badjob (b : job) : bool := bad (jq b).
  Definition cstuckq (q : qpath) : bool := confirmed_stuck (base q).
  Definition succq (q : qpath) : bool := succeeded (base q).

  Record sinv (c : cst) : Prop := mksinv {
    si_todo : forall q, In q (ctodo c) -> In q qs;
    si_jobs : forall b, In b (cjobs c) -> In (jq b) qs /\ potential (base (jq b)) = true;
    si_cores : forall c0, In c0 (ccores c) -> sem c0 = true;
    si_hit : forall b, In b (cjobs c) -> jstage b = Started true -> sem (qids (jq b)) = true;
    si_count : cflag c = false ->
        cnt bad qs <= cnt non_unsat (couts c) + cnt badjob (cjobs c) + cnt bad (ctodo c)
        /\ cnstuck c + cnt cstuckq (ctodo c) = cnt cstuckq qs
        /\ cnormal c + cnt succq (ctodo c) = cnt succq qs;
    si_flag : cflag c = true -> In (Sat true) (couts c);
    si_done : cmst c = MDone -> cflag c = false -> ctodo c = []
  }.

  Lemma sinv_init : sinv (cinit qs).
  Proof.
    constructor; cbn; try (intros; contradiction); try discriminate; try tauto.
    intros _. repeat split; lia.
  Qed.

  Lemma sinv_set_mst : forall c m, sinv c -> (m = MDone -> cflag c = false -> ctodo c = []) -> sinv (cset_mst c m).
  Proof. intros c m [] Hd. constructor; cbn; assumption. Qed.

  Lemma bad_not_submit : forall q,
    (match kind_action (kind (base q)) with ASubmit => true | _ => false end) = false -> bad q = false.
  Proof. intros q H. unfold bad. rewrite <- action_submit, H. reflexivity. Qed.

  Lemma sinv_step_main : forall c, sinv c -> sinv (cstep_main c).
  Proof.
    intros c I. unfold cstep_main.
    destruct (cmst c) eqn:M; try assumption.
    - destruct (ctodo c) eqn:T; [apply sinv_set_mst; [assumption | intros; assumption] |].
      destruct (cflag c) eqn:F; apply sinv_set_mst; try assumption; [intros _ X; congruence | discriminate].
    - destruct (ctodo c) as [| q rest] eqn:T; [apply sinv_set_mst; [assumption | intros; assumption] |].
      destruct I as [I1 I2 I3 I4 I5 I6 I7].
      assert (Hq : In q qs) by (apply I1; rewrite T; left; reflexivity).
      assert (Hrest : forall x, In x rest -> In x qs) by (intros x Hx; apply I1; rewrite T; right; assumption).
      pose proof (action_submit (base q)) as AS. pose proof (action_stuck (base q)) as AT. pose proof (action_normal (base q)) as AN.
      destruct (kind_action (kind (base q))) eqn:A.
      + (* submit *)
        constructor; cbn; try assumption; try discriminate.
        * intros b Hb. apply in_app_or in Hb. destruct Hb as [Hb | [<- | []]]; [apply I2; assumption |].
          cbn [jq]. split; [assumption | symmetry; assumption].
        * intros b Hb S. apply in_app_or in Hb. destruct Hb as [Hb | [<- | []]]; [apply I4; assumption | discriminate S].
        * intros F. destruct (I5 F) as (C1 & C2 & C3). rewrite T in *. cbn [cnt] in *.
          unfold cstuckq, succq in *. rewrite <- AT in C2. rewrite <- AN in C3. cbv iota in C2, C3.
          rewrite cnt_app. cbn [cnt]. unfold badjob in *. cbn [jq]. repeat split; lia.
      + (* stuck *)
        case_eq (cflag c); intros F; [apply sinv_set_mst; [constructor; assumption | intros _ X; congruence] |].
        unfold cstuck_solved. constructor; cbn; try assumption; try discriminate.
        intros _. destruct (I5 F) as (C1 & C2 & C3). rewrite T in *. cbn [cnt] in *.
        rewrite (bad_not_submit q) in C1 by (rewrite A; reflexivity).
        unfold cstuckq, succq in *. rewrite <- AT in C2. rewrite <- AN in C3. cbv iota in C2, C3.
        repeat split; try lia. destruct (stuck_counted (is_unsat (ans (base q)))); lia.
      + (* normal *)
        constructor; cbn; try assumption; try discriminate.
        intros F. destruct (I5 F) as (C1 & C2 & C3). rewrite T in *. cbn [cnt] in *.
        rewrite (bad_not_submit q) in C1 by (rewrite A; reflexivity).
        unfold cstuckq, succq in *. rewrite <- AT in C2. rewrite <- AN in C3. cbv iota in C2, C3. repeat split; lia.
      + (* none *)
        constructor; cbn; try assumption; try discriminate.
        intros F. destruct (I5 F) as (C1 & C2 & C3). rewrite T in *. cbn [cnt] in *.
        rewrite (bad_not_submit q) in C1 by (rewrite A; reflexivity).
        unfold cstuckq, succq in *. rewrite <- AT in C2. rewrite <- AN in C3. cbv iota in C2, C3. repeat split; lia.
  Qed.

  Lemma sinv_step_main_raise : forall c, sinv c -> sinv (cstep_main_raise c).
  Proof.
    intros c I. destruct stuck_exception_escapes eqn:NE;
      [| rewrite (cstep_main_raise_eq NE); apply sinv_step_main; assumption].
    unfold cstep_main_raise. rewrite NE.
    destruct (cmst c); try (apply sinv_step_main; assumption).
    destruct (ctodo c) as [| q rest]; [apply sinv_step_main; assumption |].
    destruct (kind_action (kind (base q))); try (apply sinv_step_main; assumption).
    destruct (cflag c); [apply sinv_step_main; assumption |].
    destruct (is_err (ans (base q))); [apply sinv_set_mst; [assumption | discriminate] | apply sinv_step_main; assumption].
  Qed.

  Lemma sinv_step_start : forall j c, sinv c -> sinv (cstep_start j c).
  Proof.
    intros j c I. unfold cstep_start.
    destruct (cfind j (cjobs c)) as [[[pre b] post] |] eqn:F; [| assumption].
    destruct (jstage b) eqn:S; [| assumption].
    destruct (cfind_spec _ _ _ _ _ F) as [E _].
    destruct I as [I1 I2 I3 I4 I5 I6 I7].
    assert (Hb : In b (cjobs c)) by (rewrite E; apply in_or_app; right; left; reflexivity).
    assert (Hsub : forall x, In x (pre ++ post) -> In x (cjobs c)).
    { intros x Hx. rewrite E. apply in_app_or in Hx. apply in_or_app. destruct Hx; [left | right; right]; assumption. }
    constructor; cbn; try assumption.
    - intros x Hx. apply in_app_or in Hx. destruct Hx as [Hx | [<- | Hx]].
      + apply I2, Hsub, in_or_app. left. assumption.
      + cbn [jq]. apply I2. assumption.
      + apply I2, Hsub, in_or_app. right. assumption.
    - intros x Hx Sx. apply in_app_or in Hx. destruct Hx as [Hx | [<- | Hx]].
      + apply I4; [apply Hsub, in_or_app; left |]; assumption.
      + cbn [jq jstage] in *. injection Sx as Hit. apply check_hit in Hit. destruct Hit as (c0 & Hc0 & Hsubset).
        apply (sem_mono c0); [assumption | apply I3; assumption].
      + apply I4; [apply Hsub, in_or_app; right |]; assumption.
    - intros Fl. destruct (I5 Fl) as (C1 & C2 & C3). repeat split; try assumption.
      rewrite E in C1. rewrite cnt_app in *. cbn [cnt badjob jq] in *. exact C1.
  Qed.

  Lemma sinv_step_cb : forall cache ee j c, sinv c -> sinv (cstep_cb cache ee j c).
  Proof.
    intros cache ee j c I. unfold cstep_cb.
    destruct (cfind j (cjobs c)) as [[[pre b] post] |] eqn:F; [| assumption].
    destruct (jstage b) as [| hit] eqn:S; [assumption |].
    destruct (cfind_spec _ _ _ _ _ F) as [E _].
    destruct I as [I1 I2 I3 I4 I5 I6 I7].
    assert (Hb : In b (cjobs c)) by (rewrite E; apply in_or_app; right; left; reflexivity).
    assert (Hsub : forall x, In x (pre ++ post) -> In x (cjobs c)).
    { intros x Hx. rewrite E. apply in_app_or in Hx. apply in_or_app. destruct Hx; [left | right; right]; assumption. }
    destruct (I2 b Hb) as [Hq Hp].
    constructor; cbn [cmst ctodo cjobs ccores cflag couts cnstuck cnormal]; try assumption.
    - intros x Hx. apply I2, Hsub. assumption.
    - intros c0 Hc0.
      destruct (gen_append_guard (is_unsat (get_solver_output (cflag c) (Some (fst (job_result cache (jq b) hit)))))
                                 (if cflag c then None else snd (job_result cache (jq b) hit))) eqn:G;
        [| apply I3; assumption].
      apply guard_sound in G. destruct G as (U & x & l & C).
      destruct (cflag c) eqn:Fl; [discriminate C |]. rewrite get_output_live in U. rewrite C in Hc0.
      apply in_app_or in Hc0. destruct Hc0 as [Hc0 | [<- | []]]; [apply I3; assumption |].
      unfold job_result in U, C. destruct hit; [discriminate C |]. cbn [fst snd] in U, C.
      unfold reply_core in C. rewrite U in C. apply core_of_reply_some in C. destruct C as [_ C].
      assert (A : ans (base (jq b)) = Unsat) by (destruct (ans (base (jq b))); try discriminate U; reflexivity).
      destruct (solver_sound (jq b) Hq Hp A) as [_ Hc]. apply Hc; [assumption | discriminate].
    - intros x Hx. apply I4, Hsub. assumption.
    - (* counts *)
      intros Fl. apply orb_false_elim in Fl. destruct Fl as [Fl _].
      destruct (I5 Fl) as (C1 & C2 & C3). repeat split; try assumption.
      rewrite Fl, get_output_live. rewrite E in C1. rewrite !cnt_app in *. cbn [cnt] in *.
      assert (B : (if badjob b then 1 else 0) <= (if non_unsat (fst (job_result cache (jq b) hit)) then 1 else 0)).
      { unfold badjob, bad. rewrite Hp. cbn [andb]. destruct (sem (qids (jq b))) eqn:Sm; cbn [negb]; [lia |].
        unfold job_result. destruct hit.
        - rewrite (I4 b Hb S) in Sm. discriminate Sm.
        - cbn [fst]. unfold non_unsat. destruct (is_unsat (ans (base (jq b)))) eqn:U; cbn [negb]; [| lia].
          assert (A : ans (base (jq b)) = Unsat) by (destruct (ans (base (jq b))); try discriminate U; reflexivity).
          destruct (solver_sound (jq b) Hq Hp A) as [X _]. rewrite X in Sm. discriminate Sm. }
      lia.
    - (* flag *)
      intros Fl. apply in_or_app. destruct (cflag c) eqn:F0; [left; apply I6; reflexivity |].
      right. left. cbn [orb] in Fl. apply andb_prop in Fl. destruct Fl as [_ Fl].
      destruct (get_solver_output false (Some (fst (job_result cache (jq b) hit)))) as [[|] | | |]; try discriminate Fl. reflexivity.
    - intros M Fl. apply orb_false_elim in Fl. destruct Fl as [Fl _]. apply I7; assumption.
  Qed.

  Lemma sinv_run : forall cache ee sched, sinv (crun cache ee qs sched).
  Proof.
    intros cache ee sched. unfold crun.
    assert (G : forall c, sinv c -> sinv (fold_left (cstep cache ee) sched c)).
    { induction sched as [| e r IH]; intros c I; cbn [fold_left]; [assumption |]. apply IH.
      destruct e; cbn [cstep];
        [apply sinv_step_main | apply sinv_step_main_raise | apply sinv_step_start | apply sinv_step_cb]; assumption. }
    apply G, sinv_init.
  Qed.

  Lemma cache_pass_sound : forall cache ee sched r,
    cresult (crun cache ee qs sched) = Some r -> fst r = LPass ->
    (forall p, In p qs -> potential (base p) = true -> sem (qids p) = true) /\
    (forall p, In p qs -> kind (base p) = Stuck -> ans (base p) = Unsat) /\
    (exists p, In p qs /\ kind (base p) = Success).
  Proof.
    intros cache ee sched r R P. pose proof (sinv_run cache ee sched) as I.
    set (c := crun cache ee qs sched) in *. destruct I as [I1 I2 I3 I4 I5 I6 I7]. unfold cresult in R.
    destruct (cmst c) eqn:M; try discriminate R.
    2:{ inversion R; subst r. cbv in P. discriminate P. }
    destruct (cjobs c) eqn:J; [| discriminate R]. inversion R; subst r. clear R.
    destruct (cflag c) eqn:F.
    { rewrite (sat_out_fail _ _ _ _ (I6 eq_refl)) in P. discriminate P. }
    apply verdict_pass_inv in P. destruct P as (P1 & P2 & P3).
    destruct (I5 eq_refl) as (C1 & C2 & C3). rewrite (I7 eq_refl eq_refl) in *. cbn [cnt] in *.
    assert (B : cnt bad qs = 0) by lia. assert (T : cnt cstuckq qs = 0) by lia. assert (N : 0 < cnt succq qs) by lia.
    repeat split.
    - intros p Hin Hp. apply cnt_zero in B. destruct (sem (qids p)) eqn:Sm; [reflexivity |].
      assert (X : existsb bad qs = true) by (apply existsb_exists; exists p; unfold bad; rewrite Hp, Sm; auto).
      congruence.
    - intros p Hin K. apply cnt_zero in T. destruct (is_unsat (ans (base p))) eqn:U.
      + destruct (ans (base p)); try discriminate U; reflexivity.
      + assert (X : existsb cstuckq qs = true)
          by (apply existsb_exists; exists p; unfold cstuckq, confirmed_stuck; rewrite K, U; auto).
        congruence.
    - apply cnt_pos in N. apply existsb_exists in N. destruct N as (p & Hin & Hp). exists p. split; [assumption |].
      unfold succq, succeeded in Hp. destruct (kind (base p)); try discriminate Hp. reflexivity.
  Qed.
End SemanticPass.
