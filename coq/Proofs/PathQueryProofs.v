(* Proofs for C04: the query handed to the solver asserts every condition the executed path
   assumed, over all transactions and whatever the slices kept - although the path's own
   incremental solver does not. *)
From Coq Require Import List Bool Arith.
From HV Require Import Model.PathQueryDefs Gen.GenPathQuery Model.PathQueryModel.
Import ListNotations.

Section Proofs.
  Variable cond : Type.
  Variable norm : cond -> cond.
  Variable skip : list cond -> cond -> bool.

  Lemma conds_run : forall ops p,
    q_conds cond (q_run cond norm skip p ops) = assumed cond norm skip (q_conds cond p) ops.
  Proof.
    induction ops as [|o ops IH]; intros p; [reflexivity|].
    unfold q_run in *. cbn [fold_left]. rewrite IH. destruct o as [c|keep|fresh]; cbn [q_step assumed].
    - unfold q_append. destruct (skip (q_conds cond p) (norm c)); reflexivity.
    - reflexivity.
    - reflexivity.
  Qed.

  (* Path.to_smt2 asserts the path's conditions, not its solver's assertions *)
  Lemma query_is_conditions : forall (p : qpath cond) cache, q_query cond p cache = q_conds cond p.
  Proof.
    intros p cache. unfold q_query.
    destruct cache; destruct (q_sliced cond p); reflexivity.
  Qed.

  Lemma query_all_assumed : forall ops cache,
    q_query cond (q_run cond norm skip (q_empty cond) ops) cache = assumed cond norm skip [] ops.
  Proof. intros ops cache. rewrite query_is_conditions, conds_run. reflexivity. Qed.

  Lemma query_all_assumed_sem : forall (env : Type) (sem : env -> cond -> Prop) ops cache e,
    Forall (sem e) (q_query cond (q_run cond norm skip (q_empty cond) ops) cache) <->
    Forall (sem e) (assumed cond norm skip [] ops).
  Proof. intros. rewrite query_all_assumed. reflexivity. Qed.
End Proofs.

(* the path's incremental solver is NOT the path: after a slice that keeps nothing, the path of
   the next transaction inherits the condition but its solver does not *)
Lemma solver_misses_conditions :
  let p := q_run nat (fun c => c) (fun _ _ => false) (q_empty nat) [QAppend nat 7; QSlice nat []; QExtend nat []; QAppend nat 9] in
  q_conds nat p = [7; 9] /\ q_solver nat p = [9] /\ q_sliced nat p = None.
Proof. vm_compute. repeat split; reflexivity. Qed.
