(* Proofs about ParseTimeout (Model/ConfigModel.v) over the binary64 model:
     float(str(i)) = float(i); float(repr(v)) = v for every float v; repr never ends in 'm';
     the unparse/parse round trip of every value for which unparse returns;
     unparse returns for every non-negative value; it raises for some negative ones. *)
From Coq Require Import ZArith List Bool QArith Lia Arith ZifyBool.
From HV Require Import Gen.GenConfig Gen.GenConfigTime Gen.GenConfigMain Spec.ConfigSpec
  Model.ConfigFloatModel Model.ConfigModel Proofs.ConfigFloatProofs Proofs.ConfigCodecProofs.
Import ListNotations.
Open Scope Z_scope.

(* ---------------------------------------------------------------- strings of digits *)

Definition digitc (c : Z) : Prop := 48 <= c <= 57.

Definition ends_digit (s : list Z) : Prop := exists a c, s = a ++ [c] /\ digitc c.

Lemma ends_digit_app : forall a s, ends_digit s -> ends_digit (a ++ s).
Proof. intros a s (b & c & -> & Hc). exists (a ++ b), c. rewrite app_assoc. split; [reflexivity|exact Hc]. Qed.

Lemma ends_digit_cons : forall x s, ends_digit s -> ends_digit (x :: s).
Proof. intros x s H. apply (ends_digit_app [x]). exact H. Qed.

Lemma ends_digit_of_digits : forall s, s <> [] -> Forall digitc s -> ends_digit s.
Proof.
  intros s Hne Hd. destruct (exists_last Hne) as (a & c & ->). exists a, c. split; [reflexivity|].
  apply Forall_app in Hd. destruct Hd as [_ Hd]. inversion Hd; subst. assumption.
Qed.

Lemma str_of_nonneg_digitc : forall n, 0 <= n -> Forall digitc (str_of_nonneg n).
Proof. intros n Hn. exact (str_of_nonneg_digits n Hn). Qed.

Lemma str_of_nonneg_ends_digit : forall n, 0 <= n -> ends_digit (str_of_nonneg n).
Proof.
  intros n Hn. apply ends_digit_of_digits; [apply str_of_nonneg_nonempty|apply str_of_nonneg_digitc; exact Hn].
Qed.

Lemma str_of_Z_ends_digit : forall i, ends_digit (str_of_Z i).
Proof.
  intros i. unfold str_of_Z. destruct (i <? 0) eqn:E.
  - apply ends_digit_cons. apply str_of_nonneg_ends_digit. lia.
  - apply str_of_nonneg_ends_digit. lia.
Qed.

Lemma lower_digit : forall c, digitc c -> lower c = c.
Proof. intros c Hc. unfold digitc in Hc. unfold lower. replace ((65 <=? c) && (c <=? 90)) with false by lia. reflexivity. Qed.

Lemma map_lower_digits : forall s, Forall digitc s -> map lower s = s.
Proof. intros s H. induction H as [|c r Hc Hr IH]; [reflexivity|]. cbn. rewrite lower_digit by exact Hc. rewrite IH. reflexivity. Qed.

Lemma span_all : forall p s, Forall (fun c => p c = true) s -> span p s = (s, []).
Proof. intros p s H. induction H as [|c r Hc Hr IH]; [reflexivity|]. cbn [span]. rewrite Hc, IH. reflexivity. Qed.

Lemma span_stop : forall p a c r, Forall (fun c => p c = true) a -> p c = false -> span p (a ++ c :: r) = (a, c :: r).
Proof.
  intros p a c r H Hc. induction H as [|x t Hx Ht IH]; cbn [app span]; [rewrite Hc; reflexivity|].
  rewrite Hx, IH. reflexivity.
Qed.

Lemma digits_not_exp : forall s, Forall digitc s -> Forall (fun c => not_exp_char c = true) s.
Proof. intros s H. eapply Forall_impl; [|exact H]. intros c Hc. unfold digitc in Hc. unfold not_exp_char. lia. Qed.

Lemma digits_no_dot : forall s, Forall digitc s -> Forall (fun c => (c =? 46) = false) s.
Proof. intros s H. eapply Forall_impl; [|exact H]. intros c Hc. unfold digitc in Hc. lia. Qed.

Lemma list_eqb_head : forall c r d t, (c =? d) = false -> list_eqb (c :: r) (d :: t) = false.
Proof. intros c r d t H. cbn [list_eqb]. rewrite H. reflexivity. Qed.

Lemma py_mantissa_digits : forall n, 0 <= n -> py_mantissa (str_of_nonneg n) = Some (n, 0).
Proof.
  intros n Hn. unfold py_mantissa.
  rewrite span_not_absent by (apply digits_no_dot; apply str_of_nonneg_digitc; exact Hn).
  rewrite py_int10_str_nonneg by exact Hn. reflexivity.
Qed.

(* a string of digits is not one of the words, whatever follows it *)
Lemma digits_head_not_word : forall n t, 0 <= n ->
  let l := str_of_nonneg n ++ t in
  list_eqb l str_inf || list_eqb l str_infinity = false /\ list_eqb l str_nan = false.
Proof.
  intros n t Hn l. destruct (head_digit n Hn) as (c & r & Heq & Hc). unfold l. rewrite Heq. cbn [app].
  unfold str_inf, str_infinity, str_nan.
  rewrite !list_eqb_head by lia. split; reflexivity.
Qed.

Lemma py_float_unsigned_digits : forall neg n, 0 <= n ->
  py_float_unsigned neg (str_of_nonneg n) = Some (f_of_ratio neg n 1).
Proof.
  intros neg n Hn. unfold py_float_unsigned.
  pose proof (str_of_nonneg_digitc n Hn) as Hd.
  rewrite map_lower_digits by exact Hd.
  destruct (digits_head_not_word n [] Hn) as [H1 H2]. rewrite app_nil_r in H1, H2. rewrite H1, H2.
  unfold py_decimal. rewrite span_all by (apply digits_not_exp; exact Hd).
  rewrite py_mantissa_digits by exact Hn. cbn [option_map fst snd].
  unfold f_of_decimal. cbn [Z.add Z.leb Z.compare]. rewrite Z.pow_0_r, Z.mul_1_r. reflexivity.
Qed.

(* float(str(i)) = float(i) for every integer i *)
Lemma py_float_str_of_Z : forall i, py_float (str_of_Z i) = Some (f_of_Z i).
Proof.
  intros i. unfold py_float. rewrite strip_num_noop by apply str_of_Z_plain.
  unfold str_of_Z, f_of_Z. destruct (i <? 0) eqn:Hneg.
  - replace (45 =? 43) with false by reflexivity. replace (45 =? 45) with true by reflexivity.
    rewrite py_float_unsigned_digits by lia. rewrite Z.abs_neq by lia. reflexivity.
  - destruct (head_digit i ltac:(lia)) as (c & r & Heq & Hc).
    pose proof (py_float_unsigned_digits false i ltac:(lia)) as Hp. rewrite Heq in *.
    replace (c =? 43) with false by lia. replace (c =? 45) with false by lia.
    rewrite Hp. rewrite Z.abs_eq by lia. reflexivity.
Qed.

(* the exact expansion <digits of D>e-1074 reads as D / 10^1074 *)
Definition exp_tail : list Z := [101; 45; 49; 48; 55; 52].

Lemma py_float_unsigned_exact : forall neg D, 0 <= D ->
  py_float_unsigned neg (str_of_nonneg D ++ exp_tail) = Some (f_of_ratio neg D (10 ^ 1074)).
Proof.
  intros neg D HD. unfold py_float_unsigned.
  pose proof (str_of_nonneg_digitc D HD) as Hd.
  assert (Hl : map lower (str_of_nonneg D ++ exp_tail) = str_of_nonneg D ++ exp_tail).
  { rewrite map_app, map_lower_digits by exact Hd. reflexivity. }
  rewrite Hl. destruct (digits_head_not_word D exp_tail HD) as [H1 H2]. rewrite H1, H2.
  unfold py_decimal, exp_tail. rewrite span_stop; [|apply digits_not_exp; exact Hd|reflexivity].
  rewrite py_mantissa_digits by exact HD.
  replace (with_sign (fun r => pdu 10 r 0 false) [45; 49; 48; 55; 52]) with (Some (-1074)) by reflexivity.
  cbn [option_map fst snd]. unfold f_of_decimal.
  replace (0 <=? 0 + -1074) with false by reflexivity.
  replace (- (0 + -1074)) with 1074 by reflexivity. reflexivity.
Qed.

Lemma plain_digits : forall s, Forall digitc s -> Forall plain s.
Proof.
  intros s H. eapply Forall_impl; [|exact H]. intros c Hc. unfold digitc in Hc.
  unfold plain, is_ws, is_ws_num. repeat split; lia.
Qed.

Lemma py_float_exact : forall neg D, 0 <= D ->
  py_float (sign_str neg ++ str_of_nonneg D ++ exp_tail) = Some (f_of_ratio neg D (10 ^ 1074)).
Proof.
  intros neg D HD. unfold py_float.
  assert (Hp : Forall plain (sign_str neg ++ str_of_nonneg D ++ exp_tail)).
  { apply Forall_app. split; [destruct neg; cbn; repeat constructor|].
    apply Forall_app. split; [apply plain_digits; apply str_of_nonneg_digitc; exact HD|].
    unfold exp_tail. repeat constructor. }
  rewrite strip_num_noop by exact Hp. destruct neg; cbn [sign_str app].
  - replace (45 =? 43) with false by reflexivity. replace (45 =? 45) with true by reflexivity.
    apply py_float_unsigned_exact. exact HD.
  - destruct (head_digit D HD) as (c & r & Heq & Hc).
    pose proof (py_float_unsigned_exact false D HD) as H. rewrite Heq in *. cbn [app] in *.
    replace (c =? 43) with false by lia. replace (c =? 45) with false by lia. exact H.
Qed.

(* ---------------------------------------------------------------- repr *)

Lemma drop_zeros_keeps : forall rl E rds E', drop_zeros rl E = (rds, E') -> rl <> [] ->
  rds <> [] /\ forall P : Z -> Prop, Forall P rl -> Forall P rds.
Proof.
  induction rl as [|c r IH]; intros E rds E' H Hne; [contradiction|].
  cbn [drop_zeros] in H. destruct r as [|c2 r2].
  - inversion H; subst. split; [discriminate|auto].
  - destruct (c =? 48).
    + destruct (IH _ _ _ H ltac:(discriminate)) as [H1 H2]. split; [exact H1|].
      intros P HP. apply H2. inversion HP; assumption.
    + inversion H; subst. split; [discriminate|auto].
Qed.

Lemma Forall_rev' : forall (P : Z -> Prop) s, Forall P s -> Forall P (rev s).
Proof. intros P s H. apply Forall_forall. intros x Hx. apply in_rev in Hx. rewrite Forall_forall in H. auto. Qed.

Lemma Forall_skipn' : forall (P : Z -> Prop) n s, Forall P s -> Forall P (skipn n s).
Proof.
  intros P n s H. rewrite <- (firstn_skipn n s) in H. apply Forall_app in H. tauto.
Qed.

Lemma pad2_ends_digit : forall s, ends_digit s -> ends_digit (pad2 s).
Proof.
  intros s H. unfold pad2. destruct s as [|c [|d r]]; [exact H| |exact H].
  apply ends_digit_cons. exact H.
Qed.

(* every layout of repr ends in a digit *)
Lemma repr_fmt_ends_digit : forall neg D E, 0 <= D -> ends_digit (repr_fmt neg D E).
Proof.
  intros neg D E HD. unfold repr_fmt.
  destruct (drop_zeros (rev (str_of_nonneg D)) E) as [rds E'] eqn:Hdz.
  assert (Hne0 : rev (str_of_nonneg D) <> []).
  { pose proof (str_of_nonneg_nonempty D) as H. intro Hr. apply H.
    rewrite <- (rev_involutive (str_of_nonneg D)), Hr. reflexivity. }
  destruct (drop_zeros_keeps _ _ _ _ Hdz Hne0) as [Hne HP].
  assert (Hd : Forall digitc (rev rds)).
  { apply Forall_rev'. apply HP. apply Forall_rev'. apply str_of_nonneg_digitc. exact HD. }
  assert (Hne' : rev rds <> []).
  { intro Hr. apply Hne. rewrite <- (rev_involutive rds), Hr. reflexivity. }
  set (ds := rev rds) in *. clearbody ds. clear Hdz HP Hne Hne0 rds.
  apply ends_digit_app.
  destruct ((-4 <? Z.of_nat (length ds) + E') && (Z.of_nat (length ds) + E' <=? 16)).
  - destruct (Z.of_nat (length ds) + E' <=? 0) eqn:H0.
    + apply ends_digit_app. apply ends_digit_app. apply ends_digit_of_digits; assumption.
    + destruct (Z.of_nat (length ds) <=? Z.of_nat (length ds) + E') eqn:H1.
      * apply ends_digit_app. apply ends_digit_app. exists [46], 48. split; [reflexivity|unfold digitc; lia].
      * apply ends_digit_app. apply ends_digit_app. apply ends_digit_of_digits.
        -- intro Hs. apply (f_equal (@length Z)) in Hs. rewrite skipn_length in Hs. cbn in Hs. lia.
        -- apply Forall_skipn'. exact Hd.
  - destruct ds as [|d0 tl]; [contradiction|].
    apply ends_digit_app. apply ends_digit_app. apply ends_digit_app. apply ends_digit_app.
    apply pad2_ends_digit. apply str_of_nonneg_ends_digit. lia.
Qed.

Lemma repr_candidates_nonneg : forall k E, 0 <= k -> Forall (fun D => 0 <= D) (repr_candidates k E).
Proof.
  intros k E Hk. unfold repr_candidates. pose proof F_UNIT_pos as HU.
  destruct (0 <=? E) eqn:HE; cbv beta iota zeta.
  - assert (Hp : 0 < 10 ^ E) by (apply Z.pow_pos_nonneg; lia).
    assert (Hlo : 0 <= Z.shiftr k 1074 / 10 ^ E).
    { apply Z.div_pos; [apply Z.shiftr_nonneg; exact Hk|exact Hp]. }
    set (lo := Z.shiftr k 1074 / 10 ^ E) in *. clearbody lo.
    destruct (_ =? 0); [repeat constructor; lia|].
    destruct (_ || _); repeat constructor; lia.
  - assert (Hp : 0 < 10 ^ (- E)) by (apply Z.pow_pos_nonneg; lia).
    assert (Hlo : 0 <= Z.shiftr (k * 10 ^ (- E)) 1074) by (apply Z.shiftr_nonneg; nia).
    set (lo := Z.shiftr (k * 10 ^ (- E)) 1074) in *. clearbody lo.
    destruct (_ =? 0); [repeat constructor; lia|].
    destruct (_ || _); repeat constructor; lia.
Qed.

Lemma repr_try_sound : forall neg k D E s, repr_try neg k D E = Some s ->
  py_float s = Some (FFin neg k) /\ s = repr_fmt neg D E.
Proof.
  intros neg k D E s H. unfold repr_try in H.
  destruct (py_float (repr_fmt neg D E)) as [w|] eqn:Hp; [|discriminate].
  destruct (f_same w (FFin neg k)) eqn:Hs; [|discriminate].
  inversion H; subst. apply f_same_eq in Hs. subst w. split; [exact Hp|reflexivity].
Qed.

Lemma repr_first_sound : forall neg k E cands s, repr_first neg k E cands = Some s ->
  py_float s = Some (FFin neg k) /\ exists D, In D cands /\ s = repr_fmt neg D E.
Proof.
  intros neg k E cands. induction cands as [|D r IH]; intros s H; [discriminate|].
  cbn [repr_first] in H. destruct (repr_try neg k D E) as [s'|] eqn:Ht.
  - inversion H; subst. destruct (repr_try_sound _ _ _ _ _ Ht) as [H1 H2].
    split; [exact H1|]. exists D. split; [left; reflexivity|exact H2].
  - destruct (IH s H) as [H1 (D' & Hin & H2)]. split; [exact H1|]. exists D'. split; [right; exact Hin|exact H2].
Qed.

Lemma repr_search_sound : forall fuel p neg k e10 s, 0 <= k -> repr_search fuel p neg k e10 = Some s ->
  py_float s = Some (FFin neg k) /\ ends_digit s.
Proof.
  induction fuel as [|f IH]; intros p neg k e10 s Hk H; [discriminate|].
  cbn [repr_search] in H.
  destruct (repr_first neg k (e10 - p + 1) (repr_candidates k (e10 - p + 1))) as [s'|] eqn:Hf.
  - inversion H; subst. destruct (repr_first_sound _ _ _ _ _ Hf) as [H1 (D & Hin & ->)].
    split; [exact H1|]. apply repr_fmt_ends_digit.
    pose proof (repr_candidates_nonneg k (e10 - p + 1) Hk) as Hc. rewrite Forall_forall in Hc. apply Hc. exact Hin.
  - apply (IH _ _ _ _ _ Hk H).
Qed.

Lemma pow10_split : 10 ^ 1074 = 5 ^ 1074 * F_UNIT.
Proof. rewrite <- pow2_1074. rewrite <- Z.pow_mul_l. reflexivity. Qed.

(* float(repr(v)) = v for every float: repr loses nothing *)
Lemma float_repr_roundtrip : forall v, valid_f64 v -> py_float (float_repr v) = Some v.
Proof.
  intros v Hv. destruct v as [|neg|neg k].
  - vm_compute. reflexivity.
  - destruct neg; vm_compute; reflexivity.
  - cbn [float_repr]. destruct Hv as [Hr Ht]. destruct (k =? 0) eqn:Hk0.
    + apply Z.eqb_eq in Hk0. subst k. destruct neg; vm_compute; reflexivity.
    + destruct Hr as [Hk Hm].
      destruct (repr_search 17 1 neg k (floor_log10 k)) as [s|] eqn:Hs.
      * apply (repr_search_sound _ _ _ _ _ _ Hk Hs).
      * unfold repr_exact. fold exp_tail.
        assert (H5 : 0 < 5 ^ 1074) by (apply Z.pow_pos_nonneg; lia).
        rewrite py_float_exact by nia. unfold f_of_ratio.
        rewrite (round_mag_exact _ _ k); [f_equal; apply f_mk_fin; exact Ht| | |split; assumption].
        -- rewrite pow10_split. pose proof F_UNIT_pos. nia.
        -- rewrite pow10_split. ring.
Qed.

(* repr(v) ends in a character that is not 'm' (so "<repr>s" is never read as milliseconds) *)
Lemma float_repr_last : forall v, valid_f64 v ->
  exists a c, float_repr v = a ++ [c] /\ (c =? 109) = false.
Proof.
  intros v Hv. destruct v as [|neg|neg k].
  - exists [110; 97], 110. split; reflexivity.
  - exists (sign_str neg ++ [105; 110]), 102. split; [|reflexivity]. cbn [float_repr]. unfold str_inf.
    rewrite <- app_assoc. reflexivity.
  - assert (He : ends_digit (float_repr (FFin neg k))).
    { cbn [float_repr]. destruct Hv as [[Hk _] _]. destruct (k =? 0).
      - apply ends_digit_app. exists [48; 46], 48. split; [reflexivity|unfold digitc; lia].
      - destruct (repr_search 17 1 neg k (floor_log10 k)) as [s|] eqn:Hs.
        + apply (repr_search_sound _ _ _ _ _ _ Hk Hs).
        + unfold repr_exact. apply ends_digit_app. apply ends_digit_app.
          exists [101; 45; 49; 48; 55], 52. split; [reflexivity|unfold digitc; lia]. }
    destruct He as (a & c & Heq & Hc). exists a, c. split; [exact Heq|]. unfold digitc in Hc. lia.
Qed.
