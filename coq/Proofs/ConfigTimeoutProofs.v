(* Proofs about ParseTimeout (Model/ConfigModel.v) over the binary64 model:
     float(str(i)) = float(i); float(repr(v)) = v for every float v; repr never ends in 'm';
     unparse returns for every float, and parsing what it returns gives the value back. *)
From Coq Require Import ZArith List Bool QArith Lia Arith ZifyBool.
From HV Require Import Gen.GenConfig Gen.GenConfigTime Gen.GenConfigMain Spec.ConfigSpec
  Model.ConfigFloatModel Model.ConfigModel Proofs.ConfigFloatProofs Proofs.ConfigCodecProofs.
Import ListNotations.
Open Scope Z_scope.

(* The literals the proofs below are about (regenerated from config.py / utils.py on every run).
   Checked first: a changed literal stops the build here, at once, with this lemma's name. *)
Lemma timeout_literals_pinned :
  timeout_unparse_inf_literal = [105; 110; 102] /\ timeout_unparse_ms_inf_literal = [105; 110; 102] /\
  timeout_unparse_threshold = 1 /\ timeout_unparse_small_factor = 1000 /\ timeout_unparse_small_divisor = 1000 /\
  timeout_unparse_large_suffix = [115] /\ timeout_unparse_small_suffix = [109; 115] /\
  timeout_unparse_exact_suffix = [115] /\ timeout_default_unit = [109; 115] /\
  time_units = [([109; 115], 2, 1, 1000); ([115], 1, 1, 1); ([109], 1, 60, 1); ([104], 1, 3600, 1)] /\
  time_zero_literal = [48].
Proof. repeat split; reflexivity. Qed.

(* ---------------------------------------------------------------- strings of digits *)

Definition digitc (c : Z) : Prop := 48 <= c <= 57.

Definition ends_digit (s : list Z) : Prop := exists a c, s = a ++ [c] /\ digitc c.

Lemma ends_digit_app : forall a s, ends_digit s -> ends_digit (a ++ s).
Proof. intros a s (b & c & -> & Hc). exists (a ++ b), c. rewrite app_assoc. split; [reflexivity|exact Hc]. Qed.

Lemma ends_digit_cons : forall x s, ends_digit s -> ends_digit (x :: s).
Proof. intros x s H. apply (ends_digit_app [x]). exact H. Qed.

Lemma ends_digit_of_digits : forall s, s <> [] -> Forall digitc s -> ends_digit s.
Proof.
  intros s Hne Hd. destruct (exists_last Hne) as (a & c & ->). exists a, c. split; [reflexivity|].
  apply Forall_app in Hd. destruct Hd as [_ Hd]. inversion Hd; subst. assumption.
Qed.

Lemma str_of_nonneg_digitc : forall n, 0 <= n -> Forall digitc (str_of_nonneg n).
Proof. intros n Hn. exact (str_of_nonneg_digits n Hn). Qed.

Lemma str_of_nonneg_ends_digit : forall n, 0 <= n -> ends_digit (str_of_nonneg n).
Proof.
  intros n Hn. apply ends_digit_of_digits; [apply str_of_nonneg_nonempty|apply str_of_nonneg_digitc; exact Hn].
Qed.

Lemma str_of_Z_ends_digit : forall i, ends_digit (str_of_Z i).
Proof.
  intros i. unfold str_of_Z. destruct (i <? 0) eqn:E.
  - apply ends_digit_cons. apply str_of_nonneg_ends_digit. lia.
  - apply str_of_nonneg_ends_digit. lia.
Qed.

Lemma lower_digit : forall c, digitc c -> lower c = c.
Proof. intros c Hc. unfold digitc in Hc. unfold lower. replace ((65 <=? c) && (c <=? 90)) with false by lia. reflexivity. Qed.

Lemma map_lower_digits : forall s, Forall digitc s -> map lower s = s.
Proof. intros s H. induction H as [|c r Hc Hr IH]; [reflexivity|]. cbn. rewrite lower_digit by exact Hc. rewrite IH. reflexivity. Qed.

Lemma span_all : forall p s, Forall (fun c => p c = true) s -> span p s = (s, []).
Proof. intros p s H. induction H as [|c r Hc Hr IH]; [reflexivity|]. cbn [span]. rewrite Hc, IH. reflexivity. Qed.

Lemma span_stop : forall p a c r, Forall (fun c => p c = true) a -> p c = false -> span p (a ++ c :: r) = (a, c :: r).
Proof.
  intros p a c r H Hc. induction H as [|x t Hx Ht IH]; cbn [app span]; [rewrite Hc; reflexivity|].
  rewrite Hx, IH. reflexivity.
Qed.

Lemma digits_not_exp : forall s, Forall digitc s -> Forall (fun c => not_exp_char c = true) s.
Proof. intros s H. eapply Forall_impl; [|exact H]. intros c Hc. unfold digitc in Hc. unfold not_exp_char. lia. Qed.

Lemma digits_no_dot : forall s, Forall digitc s -> Forall (fun c => (c =? 46) = false) s.
Proof. intros s H. eapply Forall_impl; [|exact H]. intros c Hc. unfold digitc in Hc. lia. Qed.

Lemma list_eqb_head : forall c r d t, (c =? d) = false -> list_eqb (c :: r) (d :: t) = false.
Proof. intros c r d t H. cbn [list_eqb]. rewrite H. reflexivity. Qed.

Lemma py_mantissa_digits : forall n, 0 <= n -> py_mantissa (str_of_nonneg n) = Some (n, 0).
Proof.
  intros n Hn. unfold py_mantissa.
  rewrite span_not_absent by (apply digits_no_dot; apply str_of_nonneg_digitc; exact Hn).
  rewrite py_int10_str_nonneg by exact Hn. reflexivity.
Qed.

(* a string of digits is not one of the words, whatever follows it *)
Lemma digits_head_not_word : forall n t, 0 <= n ->
  let l := str_of_nonneg n ++ t in
  list_eqb l str_inf || list_eqb l str_infinity = false /\ list_eqb l str_nan = false.
Proof.
  intros n t Hn l. destruct (head_digit n Hn) as (c & r & Heq & Hc). unfold l. rewrite Heq. cbn [app].
  unfold str_inf, str_infinity, str_nan.
  rewrite !list_eqb_head by lia. split; reflexivity.
Qed.

Lemma py_float_unsigned_digits : forall neg n, 0 <= n ->
  py_float_unsigned neg (str_of_nonneg n) = Some (f_of_ratio neg n 1).
Proof.
  intros neg n Hn. unfold py_float_unsigned.
  pose proof (str_of_nonneg_digitc n Hn) as Hd.
  rewrite map_lower_digits by exact Hd.
  destruct (digits_head_not_word n [] Hn) as [H1 H2]. rewrite app_nil_r in H1, H2. rewrite H1, H2.
  unfold py_decimal. rewrite span_all by (apply digits_not_exp; exact Hd).
  rewrite py_mantissa_digits by exact Hn. cbn [option_map fst snd].
  unfold f_of_decimal. cbn [Z.add Z.leb Z.compare]. rewrite Z.pow_0_r, Z.mul_1_r. reflexivity.
Qed.

(* float(str(i)) = float(i) for every integer i *)
Lemma py_float_str_of_Z : forall i, py_float (str_of_Z i) = Some (f_of_Z i).
Proof.
  intros i. unfold py_float. rewrite strip_num_noop by apply str_of_Z_plain.
  unfold str_of_Z, f_of_Z. destruct (i <? 0) eqn:Hneg.
  - replace (45 =? 43) with false by reflexivity. replace (45 =? 45) with true by reflexivity.
    rewrite py_float_unsigned_digits by lia. rewrite Z.abs_neq by lia. reflexivity.
  - destruct (head_digit i ltac:(lia)) as (c & r & Heq & Hc).
    pose proof (py_float_unsigned_digits false i ltac:(lia)) as Hp. rewrite Heq in *.
    replace (c =? 43) with false by lia. replace (c =? 45) with false by lia.
    rewrite Hp. rewrite Z.abs_eq by lia. reflexivity.
Qed.

(* the exact expansion <digits of D>e-1074 reads as D / 10^1074 *)
Definition exp_tail : list Z := [101; 45; 49; 48; 55; 52].

Lemma py_float_unsigned_exact : forall neg D, 0 <= D ->
  py_float_unsigned neg (str_of_nonneg D ++ exp_tail) = Some (f_of_ratio neg D (10 ^ 1074)).
Proof.
  intros neg D HD. unfold py_float_unsigned.
  pose proof (str_of_nonneg_digitc D HD) as Hd.
  assert (Hl : map lower (str_of_nonneg D ++ exp_tail) = str_of_nonneg D ++ exp_tail).
  { rewrite map_app, map_lower_digits by exact Hd. reflexivity. }
  rewrite Hl. destruct (digits_head_not_word D exp_tail HD) as [H1 H2]. rewrite H1, H2.
  unfold py_decimal, exp_tail. rewrite span_stop; [|apply digits_not_exp; exact Hd|reflexivity].
  rewrite py_mantissa_digits by exact HD.
  replace (with_sign (fun r => pdu 10 r 0 false) [45; 49; 48; 55; 52]) with (Some (-1074)) by reflexivity.
  cbn [option_map fst snd]. unfold f_of_decimal.
  replace (0 <=? 0 + -1074) with false by reflexivity.
  replace (- (0 + -1074)) with 1074 by reflexivity. reflexivity.
Qed.

Lemma plain_digits : forall s, Forall digitc s -> Forall plain s.
Proof.
  intros s H. eapply Forall_impl; [|exact H]. intros c Hc. unfold digitc in Hc.
  unfold plain, is_ws, is_ws_num. repeat split; lia.
Qed.

Lemma py_float_exact : forall neg D, 0 <= D ->
  py_float (sign_str neg ++ str_of_nonneg D ++ exp_tail) = Some (f_of_ratio neg D (10 ^ 1074)).
Proof.
  intros neg D HD. unfold py_float.
  assert (Hp : Forall plain (sign_str neg ++ str_of_nonneg D ++ exp_tail)).
  { apply Forall_app. split; [destruct neg; cbn; repeat constructor|].
    apply Forall_app. split; [apply plain_digits; apply str_of_nonneg_digitc; exact HD|].
    unfold exp_tail. repeat constructor. }
  rewrite strip_num_noop by exact Hp. destruct neg; cbn [sign_str app].
  - replace (45 =? 43) with false by reflexivity. replace (45 =? 45) with true by reflexivity.
    apply py_float_unsigned_exact. exact HD.
  - destruct (head_digit D HD) as (c & r & Heq & Hc).
    pose proof (py_float_unsigned_exact false D HD) as H. rewrite Heq in *. cbn [app] in *.
    replace (c =? 43) with false by lia. replace (c =? 45) with false by lia. exact H.
Qed.

(* ---------------------------------------------------------------- repr *)

Lemma drop_zeros_keeps : forall rl E rds E', drop_zeros rl E = (rds, E') -> rl <> [] ->
  rds <> [] /\ forall P : Z -> Prop, Forall P rl -> Forall P rds.
Proof.
  induction rl as [|c r IH]; intros E rds E' H Hne; [contradiction|].
  cbn [drop_zeros] in H. destruct r as [|c2 r2].
  - inversion H; subst. split; [discriminate|auto].
  - destruct (c =? 48).
    + destruct (IH _ _ _ H ltac:(discriminate)) as [H1 H2]. split; [exact H1|].
      intros P HP. apply H2. inversion HP; assumption.
    + inversion H; subst. split; [discriminate|auto].
Qed.

Lemma Forall_rev' : forall (P : Z -> Prop) s, Forall P s -> Forall P (rev s).
Proof. intros P s H. apply Forall_forall. intros x Hx. apply in_rev in Hx. rewrite Forall_forall in H. auto. Qed.

Lemma Forall_skipn' : forall (P : Z -> Prop) n s, Forall P s -> Forall P (skipn n s).
Proof.
  intros P n s H. rewrite <- (firstn_skipn n s) in H. apply Forall_app in H. tauto.
Qed.

Lemma pad2_ends_digit : forall s, ends_digit s -> ends_digit (pad2 s).
Proof.
  intros s H. unfold pad2. destruct s as [|c [|d r]]; [exact H| |exact H].
  apply ends_digit_cons. exact H.
Qed.

(* every layout of repr ends in a digit *)
Lemma repr_fmt_ends_digit : forall neg D E, 0 <= D -> ends_digit (repr_fmt neg D E).
Proof.
  intros neg D E HD. unfold repr_fmt.
  destruct (drop_zeros (rev (str_of_nonneg D)) E) as [rds E'] eqn:Hdz.
  assert (Hne0 : rev (str_of_nonneg D) <> []).
  { pose proof (str_of_nonneg_nonempty D) as H. intro Hr. apply H.
    rewrite <- (rev_involutive (str_of_nonneg D)), Hr. reflexivity. }
  destruct (drop_zeros_keeps _ _ _ _ Hdz Hne0) as [Hne HP].
  assert (Hd : Forall digitc (rev rds)).
  { apply Forall_rev'. apply HP. apply Forall_rev'. apply str_of_nonneg_digitc. exact HD. }
  assert (Hne' : rev rds <> []).
  { intro Hr. apply Hne. rewrite <- (rev_involutive rds), Hr. reflexivity. }
  set (ds := rev rds) in *. clearbody ds. clear Hdz HP Hne Hne0 rds.
  apply ends_digit_app.
  destruct ((-4 <? Z.of_nat (length ds) + E') && (Z.of_nat (length ds) + E' <=? 16)).
  - destruct (Z.of_nat (length ds) + E' <=? 0) eqn:H0.
    + apply ends_digit_app. apply ends_digit_app. apply ends_digit_of_digits; assumption.
    + destruct (Z.of_nat (length ds) <=? Z.of_nat (length ds) + E') eqn:H1.
      * apply ends_digit_app. apply ends_digit_app. exists [46], 48. split; [reflexivity|unfold digitc; lia].
      * apply ends_digit_app. apply ends_digit_app. apply ends_digit_of_digits.
        -- intro Hs. apply (f_equal (@length Z)) in Hs. rewrite skipn_length in Hs. cbn in Hs. lia.
        -- apply Forall_skipn'. exact Hd.
  - destruct ds as [|d0 tl]; [contradiction|].
    apply ends_digit_app. apply ends_digit_app. apply ends_digit_app. apply ends_digit_app.
    apply pad2_ends_digit. apply str_of_nonneg_ends_digit. lia.
Qed.

Lemma repr_candidates_nonneg : forall k E, 0 <= k -> Forall (fun D => 0 <= D) (repr_candidates k E).
Proof.
  intros k E Hk. unfold repr_candidates. pose proof F_UNIT_pos as HU.
  destruct (0 <=? E) eqn:HE; cbv beta iota zeta.
  - assert (Hp : 0 < 10 ^ E) by (apply Z.pow_pos_nonneg; lia).
    assert (Hlo : 0 <= Z.shiftr k 1074 / 10 ^ E).
    { apply Z.div_pos; [apply Z.shiftr_nonneg; exact Hk|exact Hp]. }
    set (lo := Z.shiftr k 1074 / 10 ^ E) in *. clearbody lo.
    destruct (_ =? 0); [repeat constructor; lia|].
    destruct (_ || _); repeat constructor; lia.
  - assert (Hp : 0 < 10 ^ (- E)) by (apply Z.pow_pos_nonneg; lia).
    assert (Hlo : 0 <= Z.shiftr (k * 10 ^ (- E)) 1074) by (apply Z.shiftr_nonneg; nia).
    set (lo := Z.shiftr (k * 10 ^ (- E)) 1074) in *. clearbody lo.
    destruct (_ =? 0); [repeat constructor; lia|].
    destruct (_ || _); repeat constructor; lia.
Qed.

Lemma repr_try_sound : forall neg k D E s, repr_try neg k D E = Some s ->
  py_float s = Some (FFin neg k) /\ s = repr_fmt neg D E.
Proof.
  intros neg k D E s H. unfold repr_try in H.
  destruct (py_float (repr_fmt neg D E)) as [w|] eqn:Hp; [|discriminate].
  destruct (f_same w (FFin neg k)) eqn:Hs; [|discriminate].
  inversion H; subst. apply f_same_eq in Hs. subst w. split; [exact Hp|reflexivity].
Qed.

Lemma repr_first_sound : forall neg k E cands s, repr_first neg k E cands = Some s ->
  py_float s = Some (FFin neg k) /\ exists D, In D cands /\ s = repr_fmt neg D E.
Proof.
  intros neg k E cands. induction cands as [|D r IH]; intros s H; [discriminate|].
  cbn [repr_first] in H. destruct (repr_try neg k D E) as [s'|] eqn:Ht.
  - inversion H; subst. destruct (repr_try_sound _ _ _ _ _ Ht) as [H1 H2].
    split; [exact H1|]. exists D. split; [left; reflexivity|exact H2].
  - destruct (IH s H) as [H1 (D' & Hin & H2)]. split; [exact H1|]. exists D'. split; [right; exact Hin|exact H2].
Qed.

Lemma repr_search_sound : forall fuel p neg k e10 s, 0 <= k -> repr_search fuel p neg k e10 = Some s ->
  py_float s = Some (FFin neg k) /\ ends_digit s.
Proof.
  induction fuel as [|f IH]; intros p neg k e10 s Hk H; [discriminate|].
  cbn [repr_search] in H.
  destruct (repr_first neg k (e10 - p + 1) (repr_candidates k (e10 - p + 1))) as [s'|] eqn:Hf.
  - inversion H; subst. destruct (repr_first_sound _ _ _ _ _ Hf) as [H1 (D & Hin & ->)].
    split; [exact H1|]. apply repr_fmt_ends_digit.
    pose proof (repr_candidates_nonneg k (e10 - p + 1) Hk) as Hc. rewrite Forall_forall in Hc. apply Hc. exact Hin.
  - apply (IH _ _ _ _ _ Hk H).
Qed.

Lemma pow10_split : 10 ^ 1074 = 5 ^ 1074 * F_UNIT.
Proof. rewrite <- pow2_1074. rewrite <- Z.pow_mul_l. reflexivity. Qed.

(* float(repr(v)) = v for every float: repr loses nothing *)
Lemma float_repr_roundtrip : forall v, valid_f64 v -> py_float (float_repr v) = Some v.
Proof.
  intros v Hv. destruct v as [|neg|neg k].
  - vm_compute. reflexivity.
  - destruct neg; vm_compute; reflexivity.
  - cbn [float_repr]. destruct Hv as [Hr Ht]. destruct (k =? 0) eqn:Hk0.
    + apply Z.eqb_eq in Hk0. subst k. destruct neg; vm_compute; reflexivity.
    + destruct Hr as [Hk Hm].
      destruct (repr_search 17 1 neg k (floor_log10 k)) as [s|] eqn:Hs.
      * apply (repr_search_sound _ _ _ _ _ _ Hk Hs).
      * unfold repr_exact. fold exp_tail.
        assert (H5 : 0 < 5 ^ 1074) by (apply Z.pow_pos_nonneg; lia).
        rewrite py_float_exact by nia. unfold f_of_ratio.
        rewrite (round_mag_exact _ _ k); [f_equal; apply f_mk_fin; exact Ht| | |split; assumption].
        -- rewrite pow10_split. pose proof F_UNIT_pos. nia.
        -- rewrite pow10_split. ring.
Qed.

(* repr(v) ends in a character that is not 'm' (so "<repr>s" is never read as milliseconds) *)
Lemma float_repr_last : forall v, valid_f64 v ->
  exists a c, float_repr v = a ++ [c] /\ (c =? 109) = false.
Proof.
  intros v Hv. destruct v as [|neg|neg k].
  - exists [110; 97], 110. split; reflexivity.
  - exists (sign_str neg ++ [105; 110]), 102. split; [|reflexivity]. cbn [float_repr]. unfold str_inf.
    rewrite <- app_assoc. reflexivity.
  - assert (He : ends_digit (float_repr (FFin neg k))).
    { cbn [float_repr]. destruct Hv as [[Hk _] _]. destruct (k =? 0).
      - apply ends_digit_app. exists [48; 46], 48. split; [reflexivity|unfold digitc; lia].
      - destruct (repr_search 17 1 neg k (floor_log10 k)) as [s|] eqn:Hs.
        + apply (repr_search_sound _ _ _ _ _ _ Hk Hs).
        + unfold repr_exact. apply ends_digit_app. apply ends_digit_app.
          exists [101; 45; 49; 48; 55], 52. split; [reflexivity|unfold digitc; lia]. }
    destruct He as (a & c & Heq & Hc). exists a, c. split; [exact Heq|]. unfold digitc in Hc. lia.
Qed.

(* ---------------------------------------------------------------- parse_time on the renderings *)

(* "<body>ms" is read as float(body) / 1000 *)
Lemma timeout_parse_ms : forall body,
  timeout_parse (body ++ [109; 115]) =
  match py_float body with Some x => f_div x (f_of_Z 1000) | None => None end.
Proof.
  intros body. unfold timeout_parse, parse_time. rewrite timeout_default_unit_ok.
  unfold time_units. cbn [parse_time_units]. rewrite endswith_app.
  rewrite (firstn_strip_suffix body [109; 115] (Z.to_nat 2)) by reflexivity.
  destruct (py_float body); reflexivity.
Qed.

(* "<body>s" with body not ending in 'm' is read as float(body) *)
Lemma timeout_parse_s : forall a c, (c =? 109) = false ->
  timeout_parse ((a ++ [c]) ++ [115]) = py_float (a ++ [c]).
Proof.
  intros a c Hc. unfold timeout_parse, parse_time. rewrite timeout_default_unit_ok.
  unfold time_units. cbn [parse_time_units].
  assert (E1 : endswith ((a ++ [c]) ++ [115]) [109; 115] = false).
  { rewrite <- app_assoc. cbn [app]. apply endswith_2_false. exact Hc. }
  rewrite E1. rewrite endswith_app.
  rewrite (firstn_strip_suffix (a ++ [c]) [115] (Z.to_nat 1)) by reflexivity.
  destruct (py_float (a ++ [c])); reflexivity.
Qed.

(* ---------------------------------------------------------------- denotation *)

Lemma same_tval_refl : forall t, same_tval t t.
Proof. intros [| |q]; cbn; [exact I|reflexivity|apply Qeq_refl]. Qed.

Lemma f_eqb_same_tval : forall x y, f_eqb x y = true -> same_tval (f_denote x) (f_denote y).
Proof.
  intros x y H. destruct x as [|a|a k1], y as [|b|b k2]; cbn in H; try discriminate.
  - apply Bool.eqb_prop in H. exact H.
  - apply Z.eqb_eq in H. cbn [f_denote same_tval]. unfold Qeq. cbn [Qnum Qden]. rewrite H. reflexivity.
Qed.

Definition parse_denote (s : list Z) : option tval := option_map f_denote (timeout_parse s).

(* the exact rendering <repr>s survives for every float *)
Lemma exact_rendering_faithful : forall v, valid_f64 v ->
  faithful_rendering parse_denote (float_repr v ++ timeout_unparse_exact_suffix) (f_denote v).
Proof.
  intros v Hv. destruct (float_repr_last v Hv) as (a & c & Heq & Hc).
  unfold faithful_rendering, parse_denote, timeout_unparse_exact_suffix.
  rewrite Heq, (timeout_parse_s a c Hc), <- Heq, (float_repr_roundtrip v Hv).
  eexists. split; [reflexivity|apply same_tval_refl].
Qed.

(* ---------------------------------------------------------------- float facts for unparse *)

Lemma f_div_fin : forall a k1 b k2, k2 <> 0 ->
  f_div (FFin a k1) (FFin b k2) = Some (f_of_ratio (xorb a b) k1 k2).
Proof. intros a k1 b k2 H. destruct k2; [contradiction|reflexivity|reflexivity]. Qed.

Lemma representable_0 : representable 0.
Proof. split; [lia|]. apply Z.mod_0_l. pose proof (pow2_pos _ (f_shift_nonneg 0)). lia. Qed.

Lemma F_TOP_pos : 0 < F_TOP.
Proof. rewrite F_TOP_eq. pose proof F_UNIT_pos. assert (0 < 2 ^ 1024) by (apply Z.pow_pos_nonneg; lia). nia. Qed.

Lemma f_of_ratio_0 : forall neg d, 0 < d -> f_of_ratio neg 0 d = FFin neg 0.
Proof.
  intros neg d Hd. unfold f_of_ratio. rewrite (round_mag_exact 0 d 0); [|exact Hd|lia|exact representable_0].
  apply f_mk_fin. exact F_TOP_pos.
Qed.

Lemma f_of_Z_1000 : f_of_Z 1000 = FFin false (1000 * F_UNIT).
Proof. apply f_of_Z_small. split; [lia|reflexivity]. Qed.

Lemma inf_literal : py_float timeout_unparse_inf_literal = Some (FInf false).
Proof. vm_compute. reflexivity. Qed.

Lemma ms_inf_literal : py_float timeout_unparse_ms_inf_literal = Some (FInf false).
Proof. vm_compute. reflexivity. Qed.

(* the integer i with (signed magnitude of ms) = i * 2^1074 converts back to ms, except that the
   sign of a zero is lost *)
Lemma f_of_Z_of_integral : forall nb kb i, representable kb -> kb < F_TOP ->
  f_signed nb kb = i * F_UNIT ->
  f_of_Z i = FFin (if i =? 0 then false else nb) kb.
Proof.
  intros nb kb i Hr Ht Hs. pose proof F_UNIT_pos as HU. destruct Hr as [Hk Hm].
  assert (Habs : Z.abs i * F_UNIT = kb) by (destruct nb; cbn [f_signed] in Hs; nia).
  rewrite f_of_Z_exact; rewrite Habs; [|split; assumption|exact Ht].
  f_equal. destruct (i =? 0) eqn:E0; [lia|].
  destruct nb; cbn [f_signed] in Hs; [apply Z.ltb_lt|apply Z.ltb_ge]; nia.
Qed.


(* ---------------------------------------------------------------- the round trip *)

(* the part of unparse after the whole-seconds test *)
Definition unparse_tail (v : f64) : option (list Z) :=
  let ms := f_mul v (f_of_Z timeout_unparse_small_factor) in
  if negb (f_eqb (f_abs ms) (FInf false)) then
    match f_trunc ms with
    | None => None
    | Some i =>
        match (if f_eqb_Z ms i
               then option_map (fun q => f_eqb q v) (f_div ms (f_of_Z timeout_unparse_small_divisor))
               else Some false) with
        | None => None
        | Some true => Some (str_of_Z i ++ timeout_unparse_small_suffix)
        | Some false => Some (float_repr v ++ timeout_unparse_exact_suffix)
        end
    end
  else Some (float_repr v ++ timeout_unparse_exact_suffix).

Lemma unparse_tail_faithful : forall neg k s, valid_f64 (FFin neg k) -> unparse_tail (FFin neg k) = Some s ->
  faithful_rendering parse_denote s (f_denote (FFin neg k)).
Proof.
  intros neg k s Hv H. pose proof F_UNIT_pos as HU. pose proof Hv as [Hr Ht]. pose proof Hr as [Hk Hm].
  unfold unparse_tail, timeout_unparse_small_factor, timeout_unparse_small_divisor in H.
  rewrite f_of_Z_1000 in H. cbv zeta in H.
  assert (Hmsv : valid_f64 (f_mul (FFin neg k) (FFin false (1000 * F_UNIT)))).
  { apply f_mul_valid; [exact Hv|]. rewrite <- f_of_Z_1000. unfold f_of_Z. apply f_of_ratio_valid; lia. }
  destruct (f_mul (FFin neg k) (FFin false (1000 * F_UNIT))) as [|nb|nb kb] eqn:Hms;
    cbn [f_abs f_eqb Bool.eqb negb f_trunc] in H; try discriminate.
  { (* the millisecond count is infinite: rendered exactly *)
    injection H as <-. exact (exact_rendering_faithful (FFin neg k) Hv). }
  destruct Hmsv as [Hrb Htb].
  set (i := Z.quot (f_signed nb kb) F_UNIT) in *.
  destruct (f_eqb_Z (FFin nb kb) i) eqn:Hint.
  - rewrite f_div_fin in H by lia. cbn [option_map] in H.
    destruct (f_eqb (f_of_ratio (xorb nb false) kb (1000 * F_UNIT)) (FFin neg k)) eqn:Hback.
    + (* whole milliseconds *)
      injection H as <-. cbn [f_eqb_Z] in Hint. apply Z.eqb_eq in Hint.
      unfold timeout_unparse_small_suffix, faithful_rendering, parse_denote.
      rewrite timeout_parse_ms, py_float_str_of_Z, f_of_Z_1000.
      rewrite (f_of_Z_of_integral nb kb i Hrb Htb Hint).
      rewrite f_div_fin by lia. cbn [option_map].
      destruct (i =? 0) eqn:Hi0.
      * (* ms is a zero: its sign is lost, the value is not *)
        assert (Hkb : kb = 0) by (destruct nb; cbn [f_signed] in Hint; nia). subst kb.
        rewrite f_of_ratio_0 in * by lia.
        eexists. split; [reflexivity|].
        cbn [f_eqb] in Hback. apply Z.eqb_eq in Hback.
        cbn [f_denote same_tval]. unfold Qeq. cbn [Qnum Qden].
        rewrite <- Hback. destruct nb; reflexivity.
      * eexists. split; [reflexivity|]. apply f_eqb_same_tval. exact Hback.
    + injection H as <-. exact (exact_rendering_faithful (FFin neg k) Hv).
  - injection H as <-. exact (exact_rendering_faithful (FFin neg k) Hv).
Qed.

Theorem timeout_roundtrip : forall v s, valid_f64 v -> timeout_unparse v = Some s ->
  faithful_rendering parse_denote s (f_denote v).
Proof.
  intros v s Hv H. unfold timeout_unparse in H. rewrite inf_literal, ms_inf_literal in H.
  pose proof F_UNIT_pos as HU.
  destruct v as [|neg|neg k].
  - (* nan *) cbn [f_eqb] in H. injection H as <-. exact (exact_rendering_faithful FNan I).
  - (* inf *) replace (f_eqb (FInf neg) (FInf neg)) with true in H by (cbn; rewrite Bool.eqb_reflx; reflexivity).
    cbn [f_abs f_eqb Bool.eqb negb] in H. injection H as <-. exact (exact_rendering_faithful (FInf neg) I).
  - replace (f_eqb (FFin neg k) (FFin neg k)) with true in H by (cbn; rewrite Z.eqb_refl; reflexivity).
    cbn [f_abs f_eqb negb f_trunc option_map] in H.
    pose proof Hv as [Hr Ht]. pose proof Hr as [Hk Hm].
    destruct (f_geb_Z (FFin neg k) timeout_unparse_threshold) eqn:Hge;
      [destruct (f_eqb_Z (FFin neg k) (Z.quot (f_signed neg k) F_UNIT)) eqn:Heq|];
      [|exact (unparse_tail_faithful neg k s Hv H)..].
    (* whole seconds *)
    injection H as <-.
    unfold timeout_unparse_threshold in Hge. cbn [f_geb_Z] in Hge. cbn [f_eqb_Z] in Heq.
    apply Z.leb_le in Hge. apply Z.eqb_eq in Heq.
    set (i := Z.quot (f_signed neg k) F_UNIT) in *.
    assert (Hneg : neg = false) by (destruct neg; [cbn [f_signed] in Hge; lia|reflexivity]). subst neg.
    cbn [f_signed] in *. assert (Hi : 1 <= i) by nia.
    unfold timeout_unparse_large_suffix.
    destruct (str_of_Z_ends_digit i) as (a & c & Hstr & Hc).
    unfold faithful_rendering, parse_denote. rewrite Hstr.
    rewrite timeout_parse_s by (unfold digitc in Hc; lia). rewrite <- Hstr, py_float_str_of_Z.
    rewrite (f_of_Z_of_integral false k i Hr Ht Heq).
    replace (i =? 0) with false by lia.
    eexists. split; [reflexivity|apply same_tval_refl].
Qed.

(* ---------------------------------------------------------------- unparse always returns *)

(* the product of two finite floats is finite or infinite, never nan *)
Lemma f_mul_fin_cases : forall a k1 b k2,
  (exists kb, f_mul (FFin a k1) (FFin b k2) = FFin (xorb a b) kb) \/ f_mul (FFin a k1) (FFin b k2) = FInf (xorb a b).
Proof.
  intros a k1 b k2. cbn [f_mul]. unfold f_of_ratio, f_mk.
  destruct (F_TOP <=? round_mag (k1 * k2) (F_UNIT * F_UNIT)); [right; reflexivity|left; eexists; reflexivity].
Qed.

(* unparse returns a string for EVERY float: finite of either sign and any magnitude, infinite, nan *)
Theorem timeout_unparse_total : forall v, timeout_unparse v <> None.
Proof.
  intros v. unfold timeout_unparse. rewrite inf_literal, ms_inf_literal. pose proof F_UNIT_pos as HU.
  destruct v as [|neg|neg k].
  - cbn [f_eqb]. discriminate.
  - replace (f_eqb (FInf neg) (FInf neg)) with true by (cbn; rewrite Bool.eqb_reflx; reflexivity).
    cbn [f_abs f_eqb Bool.eqb negb]. discriminate.
  - replace (f_eqb (FFin neg k) (FFin neg k)) with true by (cbn; rewrite Z.eqb_refl; reflexivity).
    cbn [f_abs f_eqb negb f_trunc option_map].
    assert (Htail :
      (if negb (f_eqb (f_abs (f_mul (FFin neg k) (f_of_Z timeout_unparse_small_factor))) (FInf false))
       then match f_trunc (f_mul (FFin neg k) (f_of_Z timeout_unparse_small_factor)) with
            | Some i =>
                match (if f_eqb_Z (f_mul (FFin neg k) (f_of_Z timeout_unparse_small_factor)) i
                       then option_map (fun q => f_eqb q (FFin neg k))
                              (f_div (f_mul (FFin neg k) (f_of_Z timeout_unparse_small_factor))
                                     (f_of_Z timeout_unparse_small_divisor))
                       else Some false) with
                | Some true => Some (str_of_Z i ++ timeout_unparse_small_suffix)
                | Some false => Some (float_repr (FFin neg k) ++ timeout_unparse_exact_suffix)
                | None => None
                end
            | None => None
            end
       else Some (float_repr (FFin neg k) ++ timeout_unparse_exact_suffix)) <> None).
    { unfold timeout_unparse_small_factor, timeout_unparse_small_divisor. rewrite f_of_Z_1000.
      destruct (f_mul_fin_cases neg k false (1000 * F_UNIT)) as [(kb & ->)| ->].
      - cbn [f_abs f_eqb negb f_trunc].
        destruct (f_eqb_Z (FFin (xorb neg false) kb) (Z.quot (f_signed (xorb neg false) kb) F_UNIT)); [|discriminate].
        rewrite f_div_fin by lia. cbn [option_map]. destruct (f_eqb _ _); discriminate.
      - cbn [f_abs f_eqb Bool.eqb negb]. discriminate. }
    destruct (f_geb_Z (FFin neg k) timeout_unparse_threshold);
      [destruct (f_eqb_Z (FFin neg k) (Z.quot (f_signed neg k) F_UNIT)); [discriminate|]|]; exact Htail.
Qed.

(* every float survives: unparse returns, and parsing what it returns gives the value back *)
Theorem timeout_roundtrip_total : forall v, valid_f64 v ->
  exists s, timeout_unparse v = Some s /\ faithful_rendering parse_denote s (f_denote v).
Proof.
  intros v Hv. destruct (timeout_unparse v) as [s|] eqn:Hs.
  - exists s. split; [reflexivity|apply (timeout_roundtrip v s Hv Hs)].
  - exfalso. apply (timeout_unparse_total v Hs).
Qed.

(* ---------------------------------------------------------------- everything parse returns is a float *)

Lemma digit_val_nonneg : forall c d, digit_val c = Some d -> 0 <= d.
Proof.
  intros c d H. unfold digit_val in H.
  destruct ((48 <=? c) && (c <=? 57)) eqn:E1; [inversion H; lia|].
  destruct ((97 <=? c) && (c <=? 122)) eqn:E2; [inversion H; lia|].
  destruct ((65 <=? c) && (c <=? 90)) eqn:E3; [inversion H; lia|discriminate].
Qed.

Lemma pdu_nonneg : forall base s acc prev v, 0 < base -> 0 <= acc -> pdu base s acc prev = Some v -> 0 <= v.
Proof.
  intros base s. induction s as [|c r IH]; intros acc prev v Hb Ha H; cbn [pdu] in H.
  - destruct prev; [inversion H; lia|discriminate].
  - destruct (c =? 95).
    + destruct prev; [|discriminate]. apply (IH _ _ _ Hb Ha H).
    + destruct (digit_val c) as [d|] eqn:Hd; [|discriminate].
      destruct (d <? base); [|discriminate].
      pose proof (digit_val_nonneg _ _ Hd). assert (Hacc : 0 <= acc * base + d) by nia. apply (IH _ _ _ Hb Hacc H).
Qed.

Lemma mant_parts : forall (oi of_ : option Z) n D E,
  (match oi, of_ with Some i, Some f => Some (i * 10 ^ n + f, - n) | _, _ => None end) = Some (D, E) ->
  (forall i, oi = Some i -> 0 <= i) -> (forall f, of_ = Some f -> 0 <= f) -> 0 <= n -> 0 <= D.
Proof.
  intros oi of_ n D E Hm Hi Hf Hn. destruct oi as [i|]; [|discriminate]. destruct of_ as [f|]; [|discriminate].
  inversion Hm; subst. specialize (Hi i eq_refl). specialize (Hf f eq_refl).
  assert (0 <= 10 ^ n) by (apply Z.pow_nonneg; lia). nia.
Qed.

Lemma py_mantissa_nonneg : forall m D E, py_mantissa m = Some (D, E) -> 0 <= D.
Proof.
  intros m D E H. unfold py_mantissa in H. destruct (span_not 46 m) as [ip rest].
  destruct rest as [|dot fp].
  - destruct (pdu 10 ip 0 false) as [i|] eqn:Hi; [|discriminate]. cbn in H. inversion H; subst.
    eapply (pdu_nonneg 10 ip 0 false); [lia|lia|exact Hi].
  - assert (Hpd : forall l i, (match l with [] => Some 0 | _ => pdu 10 l 0 false end) = Some i -> 0 <= i).
    { intros l i Hl. destruct l; [inversion Hl; lia|]. eapply (pdu_nonneg 10 _ 0 false i); [lia|lia|exact Hl]. }
    pose proof (Hpd ip) as Hoi. pose proof (Hpd fp) as Hof.
    set (oi := match ip with [] => Some 0 | _ => pdu 10 ip 0 false end) in *.
    set (of_ := match fp with [] => Some 0 | _ => pdu 10 fp 0 false end) in *.
    clearbody oi of_.
    assert (Hn : 0 <= Z.of_nat (count_digits fp)) by lia.
    destruct ip; destruct fp; try discriminate; apply (mant_parts oi of_ _ D E H Hoi Hof Hn).
Qed.

Lemma py_decimal_nonneg : forall s D E, py_decimal s = Some (D, E) -> 0 <= D.
Proof.
  intros s D E H. unfold py_decimal in H. destruct (span not_exp_char s) as [mant rest].
  destruct (py_mantissa mant) as [[D0 E0]|] eqn:Hm; [|discriminate].
  destruct (match rest with [] => Some 0 | _ :: x => with_sign (fun r => pdu 10 r 0 false) x end); [|discriminate].
  inversion H; subst. apply (py_mantissa_nonneg _ _ _ Hm).
Qed.

Lemma f_of_decimal_valid : forall neg D E, 0 <= D -> valid_f64 (f_of_decimal neg D E).
Proof.
  intros neg D E HD. unfold f_of_decimal. destruct (0 <=? E) eqn:HE.
  - apply f_of_ratio_valid; [|lia]. assert (0 <= 10 ^ E) by (apply Z.pow_nonneg; lia). nia.
  - apply f_of_ratio_valid; [exact HD|]. apply Z.pow_pos_nonneg; lia.
Qed.

Lemma py_float_unsigned_valid : forall neg s v, py_float_unsigned neg s = Some v -> valid_f64 v.
Proof.
  intros neg s v H. unfold py_float_unsigned in H.
  destruct (list_eqb (map lower s) str_inf || list_eqb (map lower s) str_infinity); [inversion H; exact I|].
  destruct (list_eqb (map lower s) str_nan); [inversion H; exact I|].
  destruct (py_decimal s) as [[D E]|] eqn:Hd; [|discriminate]. cbn in H. inversion H; subst.
  apply f_of_decimal_valid. apply (py_decimal_nonneg _ _ _ Hd).
Qed.

Lemma py_float_valid : forall s v, py_float s = Some v -> valid_f64 v.
Proof.
  intros s v H. unfold py_float in H. destruct (strip_num s) as [|c r]; [discriminate|].
  destruct (c =? 43); [apply (py_float_unsigned_valid _ _ _ H)|].
  destruct (c =? 45); apply (py_float_unsigned_valid _ _ _ H).
Qed.

Lemma f_of_Z_valid : forall z, valid_f64 (f_of_Z z).
Proof. intros z. unfold f_of_Z. apply f_of_ratio_valid; lia. Qed.

Lemma f_div_valid : forall x y q, valid_f64 x -> valid_f64 y -> f_div x y = Some q -> valid_f64 q.
Proof.
  intros x y q Hx Hy H. pose proof F_TOP_pos as HT.
  assert (Hz : forall b, valid_f64 (FFin b 0)) by (intro b; split; [exact representable_0|exact HT]).
  destruct x as [|a|a k1], y as [|b|b k2]; cbn in H;
    try (inversion H; subst; try exact I; apply Hz);
    try (destruct k2; inversion H; subst; exact I).
  destruct Hx as [[Hk1 _] _], Hy as [[Hk2 _] _].
  destruct k2 as [|p|p]; [discriminate| |lia].
  inversion H; subst. apply f_of_ratio_valid; lia.
Qed.

Lemma time_scale_valid : forall x mul div y, valid_f64 x -> time_scale x mul div = Some y -> valid_f64 y.
Proof.
  intros x mul div y Hx H. unfold time_scale in H.
  assert (Hm : valid_f64 (if mul =? 1 then x else f_mul x (f_of_Z mul))).
  { destruct (mul =? 1); [exact Hx|apply f_mul_valid; [exact Hx|apply f_of_Z_valid]]. }
  destruct (div =? 1); [inversion H; subst; exact Hm|].
  apply (f_div_valid _ _ _ Hm (f_of_Z_valid div) H).
Qed.

Lemma parse_time_units_valid : forall units arg v,
  parse_time_units units arg = Some (Some v) -> valid_f64 v.
Proof.
  induction units as [|[[[suf k] mul] div] rest IH]; intros arg v H; [discriminate|].
  cbn [parse_time_units] in H. destruct (endswith arg suf); [|apply (IH _ _ H)].
  destruct (py_float (firstn (length arg - Z.to_nat k) arg)) as [x|] eqn:Hx; [|discriminate].
  injection H as H. apply (time_scale_valid _ _ _ _ (py_float_valid _ _ Hx) H).
Qed.

Lemma f_zero_valid : valid_f64 f_zero.
Proof. split; [exact representable_0|exact F_TOP_pos]. Qed.

Theorem timeout_parse_valid : forall s v, timeout_parse s = Some v -> valid_f64 v.
Proof.
  intros s v H. unfold timeout_parse, parse_time in H.
  destruct (nonempty timeout_default_unit && negb (mem_str timeout_default_unit time_allowed_default_units)); [discriminate|].
  destruct (parse_time_units time_units s) as [r|] eqn:H1; [subst r; apply (parse_time_units_valid _ _ _ H1)|].
  destruct (list_eqb s time_zero_literal); [inversion H; subst; exact f_zero_valid|].
  destruct (nonempty timeout_default_unit); [|discriminate].
  destruct (parse_time_units time_units (s ++ timeout_default_unit)) as [r|] eqn:H2; [subst r; apply (parse_time_units_valid _ _ _ H2)|].
  destruct (list_eqb (s ++ timeout_default_unit) time_zero_literal); [inversion H; subst; exact f_zero_valid|discriminate].
Qed.

(* the round trip, starting from any string parse accepts *)
Theorem timeout_parse_unparse_parse : forall s v u,
  timeout_parse s = Some v -> timeout_unparse v = Some u ->
  faithful_rendering parse_denote u (f_denote v).
Proof. intros s v u Hp Hu. apply (timeout_roundtrip v u (timeout_parse_valid s v Hp) Hu). Qed.

Theorem timeout_parse_unparse_total : forall s v,
  timeout_parse s = Some v ->
  exists u, timeout_unparse v = Some u /\ faithful_rendering parse_denote u (f_denote v).
Proof. intros s v Hp. apply timeout_roundtrip_total. apply (timeout_parse_valid s v Hp). Qed.

(* ---------------------------------------------------------------- numbers from halmos.toml *)

Lemma parse_time_ms_none : forall body,
  parse_time (body ++ [109; 115]) None =
  match py_float body with Some x => f_div x (f_of_Z 1000) | None => None end.
Proof.
  intros body. unfold parse_time, time_units. cbn [parse_time_units]. rewrite endswith_app.
  rewrite (firstn_strip_suffix body [109; 115] (Z.to_nat 2)) by reflexivity.
  destruct (py_float body); reflexivity.
Qed.

(* an integer i in the file is i milliseconds: float(i) / 1000 *)
Theorem timeout_parse_int_value : forall i, timeout_parse_int i = f_div (f_of_Z i) (f_of_Z 1000).
Proof.
  intros i. unfold timeout_parse_int, parse_time_num. rewrite timeout_default_unit_ok.
  unfold timeout_default_unit. cbn [nonempty]. rewrite parse_time_ms_none, py_float_str_of_Z. reflexivity.
Qed.

(* a float x in the file is x milliseconds: x / 1000 *)
Theorem timeout_parse_float_value : forall x, valid_f64 x -> timeout_parse_float x = f_div x (f_of_Z 1000).
Proof.
  intros x Hx. unfold timeout_parse_float, parse_time_num. rewrite timeout_default_unit_ok.
  unfold timeout_default_unit. cbn [nonempty]. rewrite parse_time_ms_none, (float_repr_roundtrip x Hx). reflexivity.
Qed.

Lemma endswith_1_false : forall a c p, (c =? p) = false -> endswith (a ++ [c]) [p] = false.
Proof.
  intros a c p Hp. unfold endswith. rewrite app_length. cbn [length].
  replace (length a + 1 - 1)%nat with (length a) by lia.
  rewrite skipn_app, skipn_all, Nat.sub_diag. cbn [skipn app list_eqb]. rewrite Hp.
  apply andb_false_r.
Qed.

Lemma endswith_2_last_false : forall a c p q, (c =? q) = false -> endswith (a ++ [c]) [p; q] = false.
Proof.
  intros a c p q Hq.
  assert (Ha : a = [] \/ exists t x, a = t ++ [x]).
  { destruct a as [|y a'] using rev_ind; [left; reflexivity|right; eexists _, _; reflexivity]. }
  destruct Ha as [->|(t & x & ->)]; [reflexivity|].
  rewrite <- app_assoc. cbn [app]. unfold endswith. rewrite app_length. cbn [length].
  replace (length t + 2 - 2)%nat with (length t) by lia.
  rewrite skipn_app, skipn_all, Nat.sub_diag. cbn [skipn app list_eqb]. rewrite Hq.
  rewrite andb_false_r. apply andb_false_r.
Qed.

(* ... which is what the same digits mean as a string *)
Theorem timeout_parse_int_as_string : forall i, timeout_parse (str_of_Z i) = timeout_parse_int i.
Proof.
  intros i. rewrite timeout_parse_int_value.
  unfold timeout_parse, parse_time. rewrite timeout_default_unit_ok.
  destruct (str_of_Z_ends_digit i) as (a & c & Hstr & Hc). unfold digitc in Hc.
  assert (Hnone : parse_time_units time_units (str_of_Z i) = None).
  { rewrite Hstr. unfold time_units. cbn [parse_time_units].
    rewrite endswith_2_last_false by lia. rewrite !endswith_1_false by lia. reflexivity. }
  rewrite Hnone. unfold time_zero_literal, timeout_default_unit. cbn [nonempty].
  destruct (list_eqb (str_of_Z i) [48]) eqn:Hz.
  - (* "0": the literal test returns 0.0, and so does 0 / 1000 *)
    assert (Hi : i = 0).
    { pose proof (py_int10_str i) as Hp.
      assert (Hs : str_of_Z i = [48]).
      { destruct (str_of_Z i) as [|x [|y t]]; cbn [list_eqb] in Hz.
        - discriminate.
        - apply andb_true_iff in Hz. destruct Hz as [Hx _]. apply Z.eqb_eq in Hx. subst. reflexivity.
        - rewrite andb_false_r in Hz. discriminate. }
      rewrite Hs in Hp. vm_compute in Hp. inversion Hp. reflexivity. }
    subst i. rewrite f_of_Z_1000, (f_of_Z_small 0) by (split; [lia|reflexivity]).
    pose proof F_UNIT_pos. rewrite Z.mul_0_l, f_div_fin by lia. rewrite f_of_ratio_0 by lia. reflexivity.
  - change (match parse_time_units time_units (str_of_Z i ++ [109; 115]) with
            | Some r => r
            | None => if list_eqb (str_of_Z i ++ [109; 115]) [48] then Some f_zero else None
            end) with (parse_time (str_of_Z i ++ [109; 115]) None).
    rewrite parse_time_ms_none, py_float_str_of_Z. reflexivity.
Qed.
