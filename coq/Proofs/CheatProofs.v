(* Proofs about Model/CheatModel.v: state cheatcodes, created values, fresh names *)
From Coq Require Import ZArith NArith List Bool String Ascii Lia ZifyBool DecimalString DecimalN DecimalFacts.
From HV Require Import Base.SmtBV Gen.GenCheatSelectors Spec.FoundrySpec Model.CheatModel.
Import ListNotations.
Open Scope Z_scope.
