(* Proofs about Model/CheatModel.v: state cheatcodes, created values, fresh names *)
From Coq Require Import ZArith NArith List Bool String Ascii Lia ZifyBool DecimalString DecimalN DecimalFacts.
From HV Require Import Base.SmtBV Gen.GenCheatSelectors Spec.FoundrySpec Model.CheatModel.
Import ListNotations.
Open Scope Z_scope.

(* ================================================================= state cheatcodes *)
Definition block_of (w : mworld) : Z * Z * Z * Z * Z * Z :=
  (mw_basefee w, mw_chainid w, mw_coinbase w, mw_difficulty w, mw_number w, mw_timestamp w).

Lemma u160_id : forall a, 0 <= a < 2 ^ 160 -> u160 a = a.
Proof. intros a H. unfold u160. apply Z.mod_small. exact H. Qed.

Lemma state_deal : forall w who amt,
  exists w', do_cheat w (Deal who amt) = SDone w' None /\
    (forall a, read_balance w' a = if u160 a =? u160 who then amt else read_balance w a) /\
    mw_storage w' = mw_storage w /\ mw_code w' = mw_code w /\ block_of w' = block_of w.
Proof.
  intros w who amt. eexists. split; [reflexivity|]. repeat split.
  intros a. unfold read_balance. cbn. destruct (u160 a =? u160 who); reflexivity.
Qed.

Lemma state_deal_read : forall w who amt, 0 <= who < 2 ^ 160 -> 0 <= amt <= MAX_ETH ->
  exists w', do_cheat w (Deal who amt) = SDone w' None /\ read_balance_checked w' who = Some amt.
Proof.
  intros w who amt Hw Ha. eexists. split; [reflexivity|].
  unfold read_balance_checked, read_balance. cbn [set_balance mw_balance assoc]. rewrite Z.eqb_refl.
  destruct (amt >? MAX_ETH) eqn:E; [lia|reflexivity].
Qed.

Definition is_fail_payload (acct slot value : Z) : bool :=
  (acct =? hevm_address) && (slot =? failed_slot) && (value =? 1).

Lemma state_store : forall w acct slot v,
  exists_acct w (u160 acct) = true -> is_fail_payload acct slot v = false ->
  exists w', do_cheat w (Store acct slot v) = SDone w' None /\
    (forall a s, read_storage w' a s = if (a =? u160 acct) && (s =? slot) then v else read_storage w a s) /\
    mw_balance w' = mw_balance w /\ mw_code w' = mw_code w /\ block_of w' = block_of w.
Proof.
  intros w acct slot v He Hf. unfold is_fail_payload in Hf. unfold do_cheat. rewrite Hf, He.
  eexists. split; [reflexivity|]. repeat split.
  intros a s. unfold read_storage. cbn. destruct ((a =? u160 acct) && (s =? slot)); reflexivity.
Qed.

Lemma state_store_nonexistent : forall w acct slot v,
  exists_acct w (u160 acct) = false -> is_fail_payload acct slot v = false ->
  do_cheat w (Store acct slot v) = SErrNonexistent.
Proof. intros w acct slot v He Hf. unfold is_fail_payload in Hf. unfold do_cheat. rewrite Hf, He. reflexivity. Qed.

Lemma state_load : forall w acct slot,
  do_cheat w (Load acct slot) =
    SDone w (Some (if exists_acct w (u160 acct) then read_storage w (u160 acct) slot else 0)).
Proof. intros. cbn. destruct (exists_acct w (u160 acct)); reflexivity. Qed.

Lemma state_store_load : forall w acct slot v,
  exists_acct w (u160 acct) = true -> is_fail_payload acct slot v = false ->
  exists w', do_cheat w (Store acct slot v) = SDone w' None /\
             do_cheat w' (Load acct slot) = SDone w' (Some v).
Proof.
  intros w acct slot v He Hf. destruct (state_store w acct slot v He Hf) as [w' (H1 & H2 & _ & Hc & _)].
  exists w'. split; [exact H1|]. rewrite state_load.
  assert (exists_acct w' (u160 acct) = true) as He'.
  { unfold exists_acct, read_code in *. rewrite Hc. exact He. }
  rewrite He', H2, !Z.eqb_refl; reflexivity.
Qed.

Lemma state_etch : forall w who code,
  exists w', do_cheat w (Etch who code) = SDone w' None /\
    (forall a, read_code w' a = if a =? u160 who then Some code else read_code w a) /\
    mw_balance w' = mw_balance w /\ mw_storage w' = mw_storage w /\ block_of w' = block_of w.
Proof.
  intros w who code. eexists. split; [reflexivity|]. repeat split.
  all: try (intros a; unfold read_code; cbn; destruct (a =? u160 who); reflexivity).
Qed.

Definition same_accounts (w w' : mworld) : Prop :=
  mw_balance w' = mw_balance w /\ mw_storage w' = mw_storage w /\ mw_code w' = mw_code w.

Lemma state_block : forall w x,
  (exists w', do_cheat w (Warp x) = SDone w' None /\ same_accounts w w' /\
     block_of w' = (mw_basefee w, mw_chainid w, mw_coinbase w, mw_difficulty w, mw_number w, x)) /\
  (exists w', do_cheat w (Roll x) = SDone w' None /\ same_accounts w w' /\
     block_of w' = (mw_basefee w, mw_chainid w, mw_coinbase w, mw_difficulty w, x, mw_timestamp w)) /\
  (exists w', do_cheat w (Fee x) = SDone w' None /\ same_accounts w w' /\
     block_of w' = (x, mw_chainid w, mw_coinbase w, mw_difficulty w, mw_number w, mw_timestamp w)) /\
  (exists w', do_cheat w (ChainId x) = SDone w' None /\ same_accounts w w' /\
     block_of w' = (mw_basefee w, x, mw_coinbase w, mw_difficulty w, mw_number w, mw_timestamp w)) /\
  (exists w', do_cheat w (Coinbase x) = SDone w' None /\ same_accounts w w' /\
     block_of w' = (mw_basefee w, mw_chainid w, u160 x, mw_difficulty w, mw_number w, mw_timestamp w)) /\
  (exists w', do_cheat w (Difficulty x) = SDone w' None /\ same_accounts w w' /\
     block_of w' = (mw_basefee w, mw_chainid w, mw_coinbase w, x, mw_number w, mw_timestamp w)).
Proof. intros w x. repeat split; eexists; (split; [reflexivity|]); repeat split. Qed.

(* ================================================================= created values *)
Lemma pow2_pos : forall n, 0 <= n -> 0 < 2 ^ n.
Proof. intros. apply Z.pow_pos_nonneg; lia. Qed.

Lemma bvmod_range : forall n x, 0 <= n -> 0 <= bvmod n x < 2 ^ n.
Proof. intros n x Hn. unfold bvmod. apply Z.mod_pos_bound. apply pow2_pos. exact Hn. Qed.

Lemma bvmod_small : forall n v, 0 <= v < 2 ^ n -> bvmod n v = v.
Proof. intros. unfold bvmod. apply Z.mod_small. assumption. Qed.

Lemma max_bits_256 : create_uint_max_bits = 256 /\ create_int_max_bits = 256.
Proof. split; reflexivity. Qed.

Lemma create_uint_ok : forall cnt n, 1 <= n <= 256 ->
  exists t, create_uint cnt n = COk (cnt + 1)%N [CTerm 32 t] [] /\ term_ids t = [(cnt + 1)%N] /\
    (forall rho, is_uintN n (eval rho t)) /\
    (forall v, 0 <= v < 2 ^ n -> eval (fun _ => v) t = v).
Proof.
  intros cnt n Hn. unfold create_uint, create_generic. destruct max_bits_256 as [-> _].
  destruct (n >? 256) eqn:E1; [lia|]. destruct (n =? 0) eqn:E2; [lia|].
  unfold zext256. destruct (n =? 256) eqn:E3; eexists; (split; [reflexivity|]); (split; [reflexivity|]);
    split; intros; cbn; unfold is_uintN, bvzext; try apply bvmod_range; try apply bvmod_small; try lia; assumption.
Qed.

Lemma create_uint_too_wide : forall cnt n, 256 < n -> create_uint cnt n = CErr cnt.
Proof.
  intros cnt n Hn. unfold create_uint. destruct max_bits_256 as [-> _].
  destruct (n >? 256) eqn:E; [reflexivity|lia].
Qed.

Lemma pow_split : forall n, 1 <= n -> 2 ^ n = 2 * 2 ^ (n - 1).
Proof. intros n Hn. replace n with (Z.succ (n - 1)) at 1 by lia. rewrite Z.pow_succ_r by lia. reflexivity. Qed.

Lemma sext_signed : forall n x, 1 <= n < 256 -> 0 <= x < 2 ^ n ->
  let w := bvsext n (256 - n) x in
  0 <= w < 2 ^ 256 /\ (if w <? 2 ^ 255 then w else w - 2 ^ 256) = (if x <? 2 ^ (n - 1) then x else x - 2 ^ n).
Proof.
  intros n x Hn Hx. cbv zeta. unfold bvsext, msb. replace (n + (256 - n)) with 256 by lia.
  assert (H1 : 2 ^ n = 2 * 2 ^ (n - 1)) by (apply pow_split; lia).
  assert (H2 : 2 ^ n <= 2 ^ 255) by (apply Z.pow_le_mono_r; lia).
  assert (H3 : 2 ^ 256 = 2 * 2 ^ 255) by reflexivity.
  assert (H4 : 0 < 2 ^ (n - 1)) by (apply pow2_pos; lia).
  destruct (2 ^ (n - 1) <=? x) eqn:E.
  - destruct (x + (2 ^ 256 - 2 ^ n) <? 2 ^ 255) eqn:E2; destruct (x <? 2 ^ (n - 1)) eqn:E3; lia.
  - destruct (x <? 2 ^ 255) eqn:E2; destruct (x <? 2 ^ (n - 1)) eqn:E3; lia.
Qed.

Lemma create_int_ok : forall cnt n, 1 <= n <= 256 ->
  exists t, create_int cnt n = COk (cnt + 1)%N [CTerm 32 t] [] /\ term_ids t = [(cnt + 1)%N] /\
    (forall rho, is_intN n (eval rho t)) /\
    (forall s, - 2 ^ (n - 1) <= s < 2 ^ (n - 1) -> exists rho, eval rho t = s mod 2 ^ 256).
Proof.
  intros cnt n Hn. unfold create_int, create_generic. destruct max_bits_256 as [_ ->].
  destruct (n >? 256) eqn:E1; [lia|]. destruct (n =? 0) eqn:E2; [lia|].
  assert (Hp : 2 ^ n = 2 * 2 ^ (n - 1)) by (apply pow_split; lia).
  assert (Hq : 0 < 2 ^ (n - 1)) by (apply pow2_pos; lia).
  unfold sext256. destruct (n =? 256) eqn:E3.
  - assert (n = 256) by lia. subst n.
    eexists. split; [reflexivity|]. split; [reflexivity|]. split.
    + intros rho. cbn [eval]. pose proof (bvmod_range 256 (rho (cnt + 1)%N) ltac:(lia)) as Hr.
      unfold is_intN. split; [exact Hr|]. cbv zeta.
      change (2 ^ (256 - 1)) with (2 ^ 255). assert (2 ^ 256 = 2 * 2 ^ 255) by reflexivity.
      destruct (bvmod 256 (rho (cnt + 1)%N) <? 2 ^ 255) eqn:E; lia.
    + intros s Hs. exists (fun _ => s). cbn [eval]. reflexivity.
  - eexists. split; [reflexivity|]. split; [reflexivity|]. split.
    + intros rho. cbn [eval].
      pose proof (bvmod_range n (rho (cnt + 1)%N) ltac:(lia)) as Hr.
      destruct (sext_signed n _ ltac:(lia) Hr) as [Hw Hs]. cbv zeta in Hw, Hs.
      unfold is_intN. split; [exact Hw|]. cbv zeta. rewrite Hs.
      destruct (bvmod n (rho (cnt + 1)%N) <? 2 ^ (n - 1)) eqn:E; lia.
    + intros s Hs. exists (fun _ => s mod 2 ^ n). cbn [eval].
      assert (Hr : 0 <= s mod 2 ^ n < 2 ^ n) by (apply Z.mod_pos_bound; lia).
      rewrite (bvmod_small n _ Hr).
      destruct (sext_signed n _ ltac:(lia) Hr) as [Hw Hsg]. cbv zeta in Hw, Hsg.
      (* both sides are in [0, 2^256) and have the same signed value *)
      assert (Hm : 0 <= s mod 2 ^ 256 < 2 ^ 256) by (apply Z.mod_pos_bound; reflexivity).
      assert (H256 : 2 ^ 256 = 2 ^ n * 2 ^ (256 - n)) by (rewrite <- Z.pow_add_r by lia; f_equal; lia).
      assert (Hsn : (if s mod 2 ^ n <? 2 ^ (n - 1) then s mod 2 ^ n else s mod 2 ^ n - 2 ^ n) = s).
      { destruct (Z_lt_le_dec s 0).
        - assert (s mod 2 ^ n = s + 2 ^ n) as ->.
          { symmetry. apply Z.mod_unique with (q := -1); lia. }
          destruct (s + 2 ^ n <? 2 ^ (n - 1)) eqn:E; lia.
        - rewrite Z.mod_small by lia. destruct (s <? 2 ^ (n - 1)) eqn:E; lia. }
      rewrite Hsn in Hsg.
      assert (H255 : 2 ^ 256 = 2 * 2 ^ 255) by reflexivity.
      assert (Hle : 2 ^ (n - 1) <= 2 ^ 255) by (apply Z.pow_le_mono_r; lia).
      destruct (Z_lt_le_dec s 0).
      * assert (s mod 2 ^ 256 = s + 2 ^ 256) as ->.
        { symmetry. apply Z.mod_unique with (q := -1); lia. }
        destruct (bvsext n (256 - n) (s mod 2 ^ n) <? 2 ^ 255) eqn:E; lia.
      * rewrite (Z.mod_small s (2 ^ 256)) by lia.
        destruct (bvsext n (256 - n) (s mod 2 ^ n) <? 2 ^ 255) eqn:E; lia.
Qed.

Lemma fixed_widths :
  fixed_lookup "create_bool" creators_fixed = Some ("bool"%string, 1) /\
  fixed_lookup "create_address" creators_fixed = Some ("address"%string, 160) /\
  fixed_lookup "create_bytes4" creators_fixed = Some ("bytes4"%string, 32) /\
  fixed_lookup "create_bytes8" creators_fixed = Some ("bytes8"%string, 64) /\
  fixed_lookup "create_bytes32" creators_fixed = Some ("bytes32"%string, 256) /\
  fixed_lookup "create_uint256" creators_fixed = Some ("uint256"%string, 256) /\
  fixed_lookup "create_int256" creators_fixed = Some ("int256"%string, 256) /\
  fixed_lookup "create_uint256_min_max" creators_fixed = Some ("uint256"%string, 256).
Proof. repeat split; vm_compute; reflexivity. Qed.

Lemma create_bool_ok : forall cnt,
  exists t, create_fixed "create_bool" cnt = COk (cnt + 1)%N [CTerm 32 t] [] /\ term_ids t = [(cnt + 1)%N] /\
    (forall rho, is_bool (eval rho t)) /\ (forall v, is_bool v -> eval (fun _ => v) t = v).
Proof.
  intros cnt. unfold create_fixed. destruct fixed_widths as (-> & _). cbn.
  eexists. split; [reflexivity|]. split; [reflexivity|]. split.
  - intros rho. cbn. unfold is_bool, bvzext. pose proof (bvmod_range 1 (rho (cnt + 1)%N) ltac:(lia)). lia.
  - intros v [-> | ->]; reflexivity.
Qed.

Lemma create_address_ok : forall cnt,
  exists t, create_fixed "create_address" cnt = COk (cnt + 1)%N [CTerm 32 t] [] /\ term_ids t = [(cnt + 1)%N] /\
    (forall rho, is_address (eval rho t)) /\ (forall v, is_address v -> eval (fun _ => v) t = v).
Proof.
  intros cnt. unfold create_fixed. destruct fixed_widths as (_ & -> & _). cbn.
  eexists. split; [reflexivity|]. split; [reflexivity|]. split.
  - intros rho. cbn. unfold is_address, bvzext. apply bvmod_range. lia.
  - intros v Hv. cbn. unfold bvzext. apply bvmod_small. exact Hv.
Qed.

Lemma create_word_ok : forall cnt,
  (exists t, create_fixed "create_uint256" cnt = COk (cnt + 1)%N [CTerm 32 t] [] /\ term_ids t = [(cnt + 1)%N] /\
     (forall rho, is_uintN 256 (eval rho t)) /\ (forall v, 0 <= v < 2 ^ 256 -> eval (fun _ => v) t = v)) /\
  (exists t, create_fixed "create_int256" cnt = COk (cnt + 1)%N [CTerm 32 t] [] /\ term_ids t = [(cnt + 1)%N] /\
     (forall rho, is_uintN 256 (eval rho t)) /\ (forall v, 0 <= v < 2 ^ 256 -> eval (fun _ => v) t = v)) /\
  (exists t, create_fixed "create_bytes32" cnt = COk (cnt + 1)%N [CTerm 32 t] [] /\ term_ids t = [(cnt + 1)%N] /\
     (forall rho, is_uintN 256 (eval rho t)) /\ (forall v, 0 <= v < 2 ^ 256 -> eval (fun _ => v) t = v)).
Proof.
  intros cnt. unfold create_fixed. destruct fixed_widths as (_ & _ & _ & _ & -> & -> & -> & _). cbn.
  repeat split; eexists; (split; [reflexivity|]); (split; [reflexivity|]); split; intros; cbn;
    unfold is_uintN; try (apply bvmod_range; lia); apply bvmod_small; assumption.
Qed.

Lemma create_bytesN_ok : forall cnt,
  (exists ret, create_fixed "create_bytes4" cnt = COk (cnt + 1)%N ret [] /\ ret_ids ret = [(cnt + 1)%N] /\ ret_len ret = 32 /\
     (forall rho, is_bytesN 4 (ret_value rho ret 0)) /\
     (forall v, 0 <= v < 2 ^ 32 -> ret_value (fun _ => v) ret 0 = v * 2 ^ (8 * 28))) /\
  (exists ret, create_fixed "create_bytes8" cnt = COk (cnt + 1)%N ret [] /\ ret_ids ret = [(cnt + 1)%N] /\ ret_len ret = 32 /\
     (forall rho, is_bytesN 8 (ret_value rho ret 0)) /\
     (forall v, 0 <= v < 2 ^ 64 -> ret_value (fun _ => v) ret 0 = v * 2 ^ (8 * 24))).
Proof.
  intros cnt. unfold create_fixed. destruct fixed_widths as (_ & _ & -> & -> & _). cbn.
  split; eexists; (split; [reflexivity|]); (split; [reflexivity|]); (split; [reflexivity|]); split.
  - intros rho. cbn. unfold is_bytesN. exists (bvmod 32 (rho (cnt + 1)%N)).
    split; [apply bvmod_range; lia | lia].
  - intros v Hv. cbn. rewrite bvmod_small by exact Hv. lia.
  - intros rho. cbn. unfold is_bytesN. exists (bvmod 64 (rho (cnt + 1)%N)).
    split; [apply bvmod_range; lia | lia].
  - intros v Hv. cbn. rewrite bvmod_small by exact Hv. lia.
Qed.

(* bytes / string: offset 32, length, then the data *)
Lemma create_bytes_ok : forall cnt ty n, 0 < n ->
  exists ret, create_bytes cnt ty n = COk (cnt + 1)%N ret [] /\ ret_ids ret = [(cnt + 1)%N] /\
    ret_len ret = 64 + n /\
    (forall rho, exists d, 0 <= d < 2 ^ (8 * n) /\ ret_value rho ret 0 = (32 * 2 ^ 256 + n) * 2 ^ (8 * n) + d) /\
    (forall d, 0 <= d < 2 ^ (8 * n) -> ret_value (fun _ => d) ret 0 = (32 * 2 ^ 256 + n) * 2 ^ (8 * n) + d).
Proof.
  intros cnt ty n Hn. unfold create_bytes, create_generic.
  destruct (n * 8 =? 0) eqn:E; [lia|].
  eexists. split; [reflexivity|]. split; [reflexivity|]. split; [cbn [ret_len]; lia|]. split.
  - intros rho. exists (bvmod (n * 8) (rho (cnt + 1)%N)). split.
    + replace (8 * n) with (n * 8) by lia. apply bvmod_range. lia.
    + cbn [ret_value eval]. change (8 * 32) with 256. lia.
  - intros d Hd. cbn [ret_value eval]. change (8 * 32) with 256.
    rewrite bvmod_small by (replace (n * 8) with (8 * n) by lia; exact Hd). lia.
Qed.

Lemma create_bytes_empty : forall cnt ty,
  create_bytes cnt ty 0 = COk cnt [CConst 32 32; CConst 32 0] [] /\
  (forall rho, ret_value rho [CConst 32 32; CConst 32 0] 0 = 32 * 2 ^ 256).
Proof. intros. split; [reflexivity|]. intros rho. cbn [ret_value]. change (8 * 32) with 256. lia. Qed.

(* min / max: the constraints put on the path hold exactly for the values in [mn, mx] *)
Lemma create_min_max_ok : forall cnt mn mx, 0 <= mn -> mn <= mx < 2 ^ 256 ->
  exists t cs, create_min_max cnt mn mx = COk (cnt + 1)%N [CTerm 32 t] cs /\ term_ids t = [(cnt + 1)%N] /\
    (forall rho, forallb (cond_holds rho) cs = true <-> mn <= eval rho t <= mx) /\
    (forall v, mn <= v <= mx -> eval (fun _ => v) t = v /\ forallb (cond_holds (fun _ => v)) cs = true).
Proof.
  intros cnt mn mx H0 H1. unfold create_min_max. destruct fixed_widths as (_ & _ & _ & _ & _ & _ & _ & ->).
  cbn. destruct (mn >? mx) eqn:E; [lia|].
  eexists. eexists. split; [reflexivity|]. split; [reflexivity|]. split.
  - intros rho. cbn. unfold bvule. lia.
  - intros v Hv. cbn. unfold bvule. rewrite bvmod_small by lia. split; [reflexivity|lia].
Qed.

Lemma create_min_max_reject : forall cnt mn mx, mx < mn -> create_min_max cnt mn mx = CErr (cnt + 1)%N.
Proof.
  intros cnt mn mx H. unfold create_min_max. destruct fixed_widths as (_ & _ & _ & _ & _ & _ & _ & ->).
  cbn. destruct (mn >? mx) eqn:E; [reflexivity|lia].
Qed.

(* ================================================================= independence and freshness *)
Definition upd (rho : N -> Z) (id : N) (v : Z) : N -> Z := fun i => if N.eqb i id then v else rho i.

Lemma eval_upd_other : forall t rho id v, ~ In id (term_ids t) -> eval (upd rho id v) t = eval rho t.
Proof.
  induction t as [i w ty|k t IH|w k t IH]; intros rho id v Hn; cbn in *.
  - unfold upd. destruct (N.eqb i id) eqn:E; [|reflexivity]. apply N.eqb_eq in E. subst. tauto.
  - unfold bvzext. apply IH. exact Hn.
  - f_equal. apply IH. exact Hn.
Qed.

(* every creator uses at most the single new id cnt+1 and never moves the counter back *)
Definition cres_cnt (r : cres) : N := match r with CErr c => c | CCrash c => c | COk c _ _ => c end.

Lemma generic_ids : forall cnt bits ty,
  match create_generic cnt bits ty with
  | (None, c) => c = cnt
  | (Some t, c) => c = (cnt + 1)%N /\ term_ids t = [(cnt + 1)%N]
  end.
Proof. intros. unfold create_generic. destruct (bits =? 0); cbn; auto. Qed.

Lemma zext_ids : forall w t, term_ids (zext256 w t) = term_ids t.
Proof. intros. unfold zext256. destruct (w =? 256); reflexivity. Qed.
Lemma sext_ids : forall w t, term_ids (sext256 w t) = term_ids t.
Proof. intros. unfold sext256. destruct (w =? 256); reflexivity. Qed.

Definition ids_ok (cnt : N) (r : cres) : Prop :=
  (cres_ids r = [] /\ (cres_cnt r = cnt \/ cres_cnt r = (cnt + 1)%N)) \/
  (cres_ids r = [(cnt + 1)%N] /\ cres_cnt r = (cnt + 1)%N).

Lemma creator_ids : forall f cnt a1 a2, ids_ok cnt (creator f cnt a1 a2).
Proof.
  intros f cnt a1 a2. unfold creator, ids_ok.
  repeat match goal with |- context [if String.eqb ?a ?b then _ else _] => destruct (String.eqb a b) end.
  - unfold create_uint. destruct (a1 >? create_uint_max_bits); [left; cbn; auto|].
    pose proof (generic_ids cnt a1 (create_uint_type_prefix ++ dec_z a1)%string) as H.
    destruct (create_generic cnt a1 _) as [[t|] c]; cbn.
    + destruct H as [-> H]. right. rewrite List.app_nil_r, zext_ids. auto.
    + left. auto.
  - unfold create_int. destruct (a1 >? create_int_max_bits); [left; cbn; auto|].
    pose proof (generic_ids cnt a1 (create_int_type_prefix ++ dec_z a1)%string) as H.
    destruct (create_generic cnt a1 _) as [[t|] c]; cbn.
    + destruct H as [-> H]. right. rewrite List.app_nil_r, sext_ids. auto.
    + left. auto.
  - unfold create_bytes. pose proof (generic_ids cnt (a1 * 8) "bytes") as H.
    destruct (create_generic cnt (a1 * 8) _) as [[t|] c]; cbn.
    + destruct H as [-> H]. right. rewrite List.app_nil_r. auto.
    + left. auto.
  - unfold create_bytes. pose proof (generic_ids cnt (a1 * 8) "string") as H.
    destruct (create_generic cnt (a1 * 8) _) as [[t|] c]; cbn.
    + destruct H as [-> H]. right. rewrite List.app_nil_r. auto.
    + left. auto.
  - unfold create_min_max. destruct (fixed_lookup _ _) as [[ty w]|]; [|left; cbn; auto].
    pose proof (generic_ids cnt w ty) as H.
    destruct (create_generic cnt w ty) as [[t|] c]; cbn.
    + destruct H as [-> H]. destruct (a1 >? a2); cbn; [left; auto|right; rewrite List.app_nil_r; auto].
    + left. auto.
  - unfold create_fixed. destruct (fixed_lookup _ _) as [[ty w]|]; [|left; cbn; auto].
    pose proof (generic_ids cnt w ty) as H.
    destruct (create_generic cnt w ty) as [[t|] c]; cbn.
    + destruct H as [-> H].
      destruct (_ || _); cbn; [right; rewrite List.app_nil_r; auto|].
      destruct (_ || _); cbn; right; rewrite List.app_nil_r, ?zext_ids; auto.
    + left. auto.
Qed.

Lemma run_ids_bound : forall calls cnt id,
  In id (flat_map cres_ids (run_creators cnt calls)) -> (cnt < id)%N.
Proof.
  induction calls as [|[[f a1] a2] r IH]; intros cnt id Hin; cbn in Hin; [contradiction|].
  apply in_app_or in Hin. pose proof (creator_ids f cnt a1 a2) as Hok. unfold ids_ok in Hok.
  fold (cres_cnt (creator f cnt a1 a2)) in Hin.
  destruct Hin as [Hin|Hin].
  - destruct Hok as [[He _]|[He _]]; rewrite He in Hin; cbn in Hin; [contradiction|]. lia.
  - apply IH in Hin. destruct Hok as [[_ [Hc|Hc]]|[_ Hc]]; rewrite Hc in Hin; lia.
Qed.

(* the symbol ids created by any sequence of creator calls on one path are pairwise distinct *)
Lemma run_ids_nodup : forall calls cnt, NoDup (flat_map cres_ids (run_creators cnt calls)).
Proof.
  induction calls as [|[[f a1] a2] r IH]; intros cnt; cbn; [constructor|].
  fold (cres_cnt (creator f cnt a1 a2)).
  pose proof (creator_ids f cnt a1 a2) as Hok. unfold ids_ok in Hok.
  destruct Hok as [[He _]|[He Hc]]; rewrite He; cbn; [apply IH|].
  constructor; [|apply IH]. intros Hin. apply run_ids_bound in Hin. rewrite Hc in Hin. lia.
Qed.

(* ================================================================= symbol names *)
Open Scope string_scope.

(* the text after the last underscore *)
Fixpoint after_last_us (s : string) : option string :=
  match s with
  | EmptyString => None
  | String c r => match after_last_us r with
                  | Some x => Some x
                  | None => if Ascii.eqb c "_" then Some r else None
                  end
  end.

Fixpoint no_us (s : string) : bool :=
  match s with EmptyString => true | String c r => negb (Ascii.eqb c "_") && no_us r end.

Lemma after_last_none : forall d, no_us d = true -> after_last_us d = None.
Proof.
  induction d as [|c r IH]; cbn; [reflexivity|]. intros H. apply andb_true_iff in H. destruct H as [H1 H2].
  rewrite (IH H2). apply negb_true_iff in H1. rewrite H1. reflexivity.
Qed.

Lemma after_last_prefix : forall a s x, after_last_us s = Some x -> after_last_us (a ++ s) = Some x.
Proof. induction a as [|c r IH]; intros s x H; cbn; [exact H|]. rewrite (IH s x H). reflexivity. Qed.

Lemma no_us_uint : forall u, no_us (NilEmpty.string_of_uint u) = true.
Proof. induction u; cbn; auto. Qed.

Lemma no_us_pad2_dec : forall n, no_us (pad2 (dec n)) = true.
Proof.
  intros n. unfold pad2, dec. destruct (_ <? _)%nat; cbn; apply no_us_uint.
Qed.

Lemma label_suffix : forall name ty uid id, after_last_us (label name ty uid id) = Some (pad2 (dec id)).
Proof.
  intros. unfold label. do 6 apply after_last_prefix.
  cbn [append after_last_us]. rewrite after_last_none by apply no_us_pad2_dec. reflexivity.
Qed.

Lemma dec_inj : forall a b, dec a = dec b -> a = b.
Proof.
  intros a b H. unfold dec in H.
  assert (Some (N.to_uint a) = Some (N.to_uint b)) as E.
  { rewrite <- !NilEmpty.usu. rewrite H. reflexivity. }
  inversion E as [E']. apply (f_equal N.of_uint) in E'. rewrite !DecimalN.Unsigned.of_to in E'. exact E'.
Qed.

Lemma zero_dec : forall a b, "0" ++ dec a = dec b -> a = b.
Proof.
  intros a b H. unfold dec in H.
  change ("0" ++ NilEmpty.string_of_uint (N.to_uint a)) with (NilEmpty.string_of_uint (Decimal.D0 (N.to_uint a))) in H.
  assert (Some (Decimal.D0 (N.to_uint a)) = Some (N.to_uint b)) as E.
  { rewrite <- !NilEmpty.usu. rewrite H. reflexivity. }
  inversion E as [E']. apply (f_equal N.of_uint) in E'.
  change (N.of_uint (Decimal.D0 (N.to_uint a))) with (N.of_uint (N.to_uint a)) in E'.
  rewrite !DecimalN.Unsigned.of_to in E'. exact E'.
Qed.

Lemma pad2_dec_inj : forall a b, pad2 (dec a) = pad2 (dec b) -> a = b.
Proof.
  intros a b. unfold pad2.
  destruct (String.length (dec a) <? 2)%nat; destruct (String.length (dec b) <? 2)%nat; intros H.
  - apply dec_inj. cbn in H. inversion H. reflexivity.
  - apply zero_dec. exact H.
  - symmetry. apply zero_dec. symmetry. exact H.
  - apply dec_inj. exact H.
Qed.

(* C14_fresh: two symbol names with different counters differ, whatever the variable names,
   type names and uid fragments are *)
Theorem label_inj : forall n1 t1 u1 id1 n2 t2 u2 id2,
  label n1 t1 u1 id1 = label n2 t2 u2 id2 -> id1 = id2.
Proof.
  intros n1 t1 u1 id1 n2 t2 u2 id2 H. apply (f_equal after_last_us) in H.
  rewrite !label_suffix in H. inversion H as [H']. apply pad2_dec_inj. exact H'.
Qed.

(* names of the symbols created by any sequence of creator calls on one path, with arbitrary
   variable names / uid fragments per symbol, are pairwise distinct *)
Theorem labels_nodup : forall calls cnt (nm uid : N -> string) (ty : N -> string),
  NoDup (map (fun id => label (nm id) (ty id) (uid id) id) (flat_map cres_ids (run_creators cnt calls))).
Proof.
  intros calls cnt nm uid ty.
  assert (forall l : list N, NoDup l -> NoDup (map (fun id => label (nm id) (ty id) (uid id) id) l)) as Hm.
  { induction l as [|x r IH]; intros Hnd; cbn; [constructor|]. inversion Hnd as [|? ? Hx Hr]; subst.
    constructor; [|apply IH; exact Hr]. intros Hin. apply in_map_iff in Hin. destruct Hin as [y [Hy Hin]].
    apply label_inj in Hy. subst. contradiction. }
  apply Hm. apply run_ids_nodup.
Qed.
Close Scope string_scope.

(* ================================================================= dispatch tables (finite) *)
(* Solidity return type of every creator signature (SVM.sol / Vm.sol), and the creator that
   computes a value of that type *)
Open Scope string_scope.
Definition sig_creator : list (string * string) :=
  [ ("createUint(uint256,string)", "create_uint"); ("createUint256(string)", "create_uint256");
    ("createUint256(string,uint256,uint256)", "create_uint256_min_max");
    ("createInt(uint256,string)", "create_int"); ("createInt256(string)", "create_int256");
    ("createBytes(uint256,string)", "create_bytes"); ("createString(uint256,string)", "create_string");
    ("createBytes4(string)", "create_bytes4"); ("createBytes32(string)", "create_bytes32");
    ("createAddress(string)", "create_address"); ("createBool(string)", "create_bool");
    ("randomInt()", "create_int256"); ("randomInt(uint256)", "create_int");
    ("randomUint()", "create_uint256"); ("randomUint(uint256)", "create_uint");
    ("randomUint(uint256,uint256)", "create_uint256_min_max");
    ("randomAddress()", "create_address"); ("randomBool()", "create_bool");
    ("randomBytes(uint256)", "create_bytes"); ("randomBytes4()", "create_bytes4"); ("randomBytes8()", "create_bytes8") ].
Fixpoint sig_lookup (s : string) (l : list (string * string)) : option string :=
  match l with [] => None | (k, v) :: r => if String.eqb s k then Some v else sig_lookup s r end.
Definition opt_str_eqb (a : option string) (b : string) : bool :=
  match a with Some x => String.eqb x b | None => false end.
Close Scope string_scope.

(* every vm.random* selector is dispatched to the creator of its return type; every svm
   create* signature likewise; all ten random signatures are present *)
Lemma random_dispatch_ok :
  forallb (fun '(_, sig, f, _) => opt_str_eqb (sig_lookup sig sig_creator) f) random_dispatch = true /\
  List.length random_dispatch = 10%nat.
Proof. split; vm_compute; reflexivity. Qed.

Lemma svm_dispatch_ok :
  forallb (fun '(sig, f) =>
             existsb (fun '(_, sig', f') => String.eqb sig sig' && String.eqb f f') svm_handlers)
          (firstn 11 sig_creator) = true.
Proof. vm_compute. reflexivity. Qed.

Lemma label_fresh :
  forall n1 t1 u1 id1 n2 t2 u2 id2, id1 <> id2 -> label n1 t1 u1 id1 <> label n2 t2 u2 id2.
Proof. intros n1 t1 u1 id1 n2 t2 u2 id2 Hne H. exact (Hne (label_inj _ _ _ _ _ _ _ _ H)). Qed.

Lemma fresh_sequence :
  forall calls cnt (nm uid ty : N -> string),
    NoDup (flat_map cres_ids (run_creators cnt calls)) /\
    NoDup (map (fun id => label (nm id) (ty id) (uid id) id) (flat_map cres_ids (run_creators cnt calls))).
Proof. intros calls cnt nm uid ty. exact (conj (run_ids_nodup calls cnt) (labels_nodup calls cnt nm uid ty)). Qed.
