(* C15: the regenerated state id (Gen/GenStateId.v, Gen/GenStorageDigest.v) identifies exactly
   the identical states of Spec/StateIdSpec.v. *)
From Coq Require Import ZArith List Bool Lia.
From HV Require Import Spec.StateIdSpec Model.StateIdModel Gen.GenStorageDigest Gen.GenStateId.
From HV Require Import Spec.FrontierSpec Model.FrontierModel Proofs.FrontierProofs.
Import ListNotations.
Open Scope Z_scope.

(* ------------------------------------------------------------------ lists *)
Lemma app_eq_len {A} : forall (a c b d : list A),
  length a = length c -> a ++ b = c ++ d -> a = c /\ b = d.
Proof.
  induction a as [|x a IH]; destruct c as [|y c]; simpl; intros b d Hl He; try discriminate.
  - auto.
  - injection He as Hx He. injection Hl as Hl. destruct (IH _ _ _ Hl He). subst. auto.
Qed.

(* a concatenation of chunks of one positive length determines the chunks *)
Lemma flat_map_chunks {A B} (f : A -> list B) (n : nat) :
  (0 < n)%nat -> forall l1 l2,
  (forall x, In x l1 -> length (f x) = n) -> (forall x, In x l2 -> length (f x) = n) ->
  flat_map f l1 = flat_map f l2 -> map f l1 = map f l2.
Proof.
  intros Hn. induction l1 as [|x l1 IH]; intros [|y l2] H1 H2 E; simpl in *.
  - reflexivity.
  - exfalso. assert (Hy : length (f y) = n) by (apply H2; auto).
    destruct (f y); simpl in *; [lia | discriminate].
  - exfalso. assert (Hx : length (f x) = n) by (apply H1; auto).
    destruct (f x); simpl in *; [lia | discriminate].
  - assert (Hx : length (f x) = n) by (apply H1; auto).
    assert (Hy : length (f y) = n) by (apply H2; auto).
    destruct (app_eq_len (f x) (f y) _ _ (eq_trans Hx (eq_sym Hy)) E) as [E1 E2].
    rewrite E1. f_equal. apply IH; auto.
Qed.

Lemma map_inj {A B} (f : A -> B) : (forall x y, f x = f y -> x = y) ->
  forall l1 l2, map f l1 = map f l2 -> l1 = l2.
Proof.
  intros Hf. induction l1 as [|x l1 IH]; intros [|y l2] E; simpl in *; try discriminate; auto.
  injection E as E1 E2. f_equal; auto.
Qed.

Lemma map_rel {A B C} (f : A -> B) (g : A -> C) : forall l1 l2,
  (forall x y, In x l1 -> In y l2 -> f x = f y -> g x = g y) ->
  map f l1 = map f l2 -> map g l1 = map g l2.
Proof.
  induction l1 as [|x l1 IH]; intros [|y l2] Hfg E; simpl in *; try discriminate; auto.
  injection E as E1 E2. f_equal; auto.
Qed.

Lemma flat_map_single {A} : forall l : list A, flat_map (fun x => [x]) l = l.
Proof. induction l; simpl; congruence. Qed.

(* equal suffix lengths: the concatenation determines both parts *)
Lemma app_eq_len_tail {A} : forall (a c b d : list A),
  length b = length d -> a ++ b = c ++ d -> a = c /\ b = d.
Proof.
  intros a c b d Hl He.
  assert (Hla : length a = length c).
  { apply (f_equal (@length A)) in He. rewrite !app_length in He. lia. }
  apply app_eq_len; assumption.
Qed.

(* ------------------------------------------------------------------ the storage digest *)
Lemma digest_input_words : forall st : xstorage,
  storage_digest_input st = flat_map (fun kv => key_words (fst kv) ++ [snd kv]) st.
Proof.
  intros st. unfold storage_digest_input. apply flat_map_ext. intros [k v].
  destruct k as [z|ks]; cbn [fst snd key_is_int key_int key_tuple key_words negb app].
  - reflexivity.
  - rewrite flat_map_single. reflexivity.
Qed.

Lemma digest_input_items (n : nat) : forall st1 st2 : xstorage,
  (forall k v, In (k, v) st1 -> length (key_words k) = n) ->
  (forall k v, In (k, v) st2 -> length (key_words k) = n) ->
  storage_digest_input st1 = storage_digest_input st2 -> storage_items st1 = storage_items st2.
Proof.
  intros st1 st2 U1 U2 E. rewrite !digest_input_words in E.
  apply (flat_map_chunks _ (S n)) in E; [| lia | |].
  - unfold storage_items. revert E. apply map_rel.
    intros [k1 v1] [k2 v2] I1 I2 E. cbn [fst snd] in *.
    apply app_eq_len in E.
    + destruct E as [Ek Ev]. injection Ev as Ev. congruence.
    + rewrite (U1 _ _ I1), (U2 _ _ I2). reflexivity.
  - intros [k v] I. rewrite app_length. cbn [fst snd length]. rewrite (U1 _ _ I). lia.
  - intros [k v] I. rewrite app_length. cbn [fst snd length]. rewrite (U2 _ _ I). lia.
Qed.

(* ------------------------------------------------------------------ the path section *)
Lemma path_items_in {D} : forall (sl : list Z) (cs : list Z) (i : Z) (c : Z),
  In (@W D c) (flat_map (fun p => if zmem (fst p) sl then [W (snd p)] else []) (enumerate_from i cs)) <->
  exists k : nat, In (i + Z.of_nat k) sl /\ nth_error cs k = Some c.
Proof.
  intros sl. induction cs as [|x cs IH]; intros i c; cbn [enumerate_from flat_map].
  - split; [intros [] | intros [k [_ Hk]]; destruct k; discriminate].
  - rewrite in_app_iff, IH. cbn [fst snd]. split.
    + intros [H | [k [Hk Hn]]].
      * destruct (zmem i sl) eqn:M; [| destruct H].
        destruct H as [H | []]. injection H as H. subst x.
        exists O. split; [| reflexivity].
        unfold zmem in M. apply existsb_exists in M. destruct M as [y [Hy Ey]].
        apply Z.eqb_eq in Ey. subst y. now rewrite Z.add_0_r.
      * exists (S k). split; [| exact Hn].
        replace (i + Z.of_nat (S k)) with (i + 1 + Z.of_nat k) by lia. exact Hk.
    + intros [k [Hk Hn]]. destruct k as [|k].
      * left. cbn [nth_error] in Hn. injection Hn as Hn. subst x.
        rewrite Z.add_0_r in Hk.
        assert (M : zmem i sl = true).
        { unfold zmem. apply existsb_exists. exists i. split; [exact Hk | apply Z.eqb_refl]. }
        rewrite M. left. reflexivity.
      * right. exists k. split; [| exact Hn].
        replace (i + 1 + Z.of_nat k) with (i + Z.of_nat (S k)) by lia. exact Hk.
Qed.

(* ------------------------------------------------------------------ the state id *)
Section StateId.
  Context {D64 D128 : Type}.
  Variable H64 : list (item D128) -> D64.
  Variable H128 : list Z -> D128.
  Hypothesis H64_inj : forall x y, H64 x = H64 y -> x = y.
  Hypothesis H128_inj : forall x y, H128 x = H128 y -> x = y.

  (* get_state_id *)
  Definition state_id (ex : xstate) : option (list D64) :=
    snapshot_state H64 (storage_digest H128) true ex.

  Lemma state_id_some : forall ex i, state_id ex = Some i ->
    x_sliced ex <> None /\ i = map H64 (snapshot_inputs (storage_digest H128) true ex).
  Proof.
    intros ex i. unfold state_id, snapshot_state, snapshot_raises, sliced_is_none.
    destruct (x_sliced ex) as [sl|]; cbn [andb orb]; intros E.
    - split; [discriminate | congruence].
    - discriminate.
  Qed.

  (* the path section: the sliced conditions, then the block fields (all but the timestamp) *)
  Definition cond_items (ex : xstate) : list (item D128) :=
    flat_map (fun p => if zmem (fst p) (sliced_set ex) then [W (snd p)] else []) (enumerate (x_conds ex)).
  Definition block_items (ex : xstate) : list (item D128) :=
    map W (block_ids ex [BBasefee; BChainid; BCoinbase; BDifficulty; BGaslimit; BNumber]).

  Lemma path_section_parts : forall ex,
    snapshot_input_3 (D128 := D128) true ex = cond_items ex ++ block_items ex.
  Proof.
    intros ex. unfold snapshot_input_3, cond_items, block_items, block_ids.
    destruct (sliced_is_none ex); reflexivity.
  Qed.

  Lemma path_section_constraints : forall ex c, x_sliced ex <> None ->
    (In (W c) (cond_items ex) <-> constraint_of ex c).
  Proof.
    intros ex c Hs. unfold cond_items, constraint_of, sliced_set, enumerate.
    destruct (x_sliced ex) as [sl|]; [| congruence].
    rewrite path_items_in. cbn [Z.add]. reflexivity.
  Qed.

  Theorem state_id_identical : forall n a b i,
    uniform_keys n a -> uniform_keys n b ->
    state_id a = Some i -> state_id b = Some i -> same_identity a b.
  Proof.
    intros n a b i Ua Ub Ea Eb.
    apply state_id_some in Ea. apply state_id_some in Eb.
    destruct Ea as [Sa Ea]. destruct Eb as [Sb Eb]. rewrite Ea in Eb. clear Ea.
    unfold snapshot_inputs in Eb. cbn [map] in Eb.
    injection Eb as E0 E1 E2 E3.
    apply H64_inj in E0, E1, E2, E3.
    assert (E3' : snapshot_input_3 (D128 := D128) true a = snapshot_input_3 true b) by exact E3.
    clear E3. rewrite !path_section_parts in E3'.
    apply app_eq_len_tail in E3'; [| reflexivity]. destruct E3' as [E3' E4].
    unfold same_identity. split; [| split; [| split; [| split; [split |]]]].
    - unfold snapshot_input_0 in E0. congruence.
    - unfold snapshot_input_1 in E1. cbv zeta in E1.
      apply (flat_map_chunks _ 2) in E1; [| lia | reflexivity | reflexivity].
      revert E1. apply map_inj. intros [x1 x2] [y1 y2] E. cbn in E. congruence.
    - unfold snapshot_input_2 in E2. cbv zeta in E2.
      apply (flat_map_chunks _ 2) in E2; [| lia | reflexivity | reflexivity].
      unfold storage_terms. revert E2. apply map_rel.
      intros [a1 s1] [a2 s2] I1 I2 E. cbn [fst snd app] in *.
      injection E as Ea Es. unfold storage_digest in Es. apply H128_inj in Es.
      f_equal; [exact Ea |].
      apply (digest_input_items n); [intros k v I; exact (Ua _ _ _ _ I1 I) | intros k v I; exact (Ub _ _ _ _ I2 I) | exact Es].
    - intros Hc. apply path_section_constraints; [exact Sb |]. rewrite <- E3'.
      apply path_section_constraints; [exact Sa | exact Hc].
    - intros Hc. apply path_section_constraints; [exact Sa |]. rewrite E3'.
      apply path_section_constraints; [exact Sb | exact Hc].
    - unfold block_items, block_ids in E4. cbn [map] in E4. injection E4 as F1 F2 F3 F4 F5 F6.
      intros fld Hf. destruct fld; [assumption .. | congruence].
  Qed.

  Lemma state_id_is_some : forall ex, x_sliced ex <> None -> exists i, state_id ex = Some i.
  Proof.
    intros ex Hs. unfold state_id, snapshot_state, snapshot_raises, sliced_is_none.
    destruct (x_sliced ex) as [sl|]; [| congruence]. cbn [andb orb]. eexists. reflexivity.
  Qed.

  (* the converse: identical states (same data, the same slice as a set) get the same id *)
  Theorem state_id_complete : forall a b sa sb,
    x_balance a = x_balance b -> x_code a = x_code b -> x_storage a = x_storage b ->
    x_conds a = x_conds b -> x_sliced a = Some sa -> x_sliced b = Some sb ->
    (forall i, In i sa <-> In i sb) ->
    (forall fld, fld <> BTimestamp -> x_block a fld = x_block b fld) ->
    state_id a = state_id b /\ state_id a <> None.
  Proof.
    intros a b sa sb Eb Ec Es Ed Sa Sb Hset Hblk.
    assert (Hz : forall i, zmem i sa = zmem i sb).
    { intros i. unfold zmem. destruct (existsb (Z.eqb i) sb) eqn:M.
      - apply existsb_exists in M. destruct M as [y [Hy Ey]]. apply existsb_exists.
        exists y. split; [apply Hset; exact Hy | exact Ey].
      - destruct (existsb (Z.eqb i) sa) eqn:M'; [| reflexivity].
        apply existsb_exists in M'. destruct M' as [y [Hy Ey]].
        assert (X : existsb (Z.eqb i) sb = true).
        { apply existsb_exists. exists y. split; [apply Hset; exact Hy | exact Ey]. }
        congruence. }
    unfold state_id, snapshot_state, snapshot_raises, snapshot_inputs, snapshot_input_0,
      snapshot_input_1, snapshot_input_2, snapshot_input_3, sliced_is_none, sliced_set.
    unfold block_ids. cbn [map].
    rewrite (Hblk BBasefee), (Hblk BChainid), (Hblk BCoinbase), (Hblk BDifficulty), (Hblk BGaslimit), (Hblk BNumber) by discriminate.
    rewrite Eb, Ec, Es, Ed, Sa, Sb. cbn [andb orb]. split; [| discriminate].
    assert (F : forall cs : list (Z * Z),
               flat_map (fun p => if zmem (fst p) sa then [@W D128 (snd p)] else []) cs =
               flat_map (fun p => if zmem (fst p) sb then [W (snd p)] else []) cs).
    { intros cs. apply flat_map_ext. intros p. rewrite Hz. reflexivity. }
    cbn [app]. cbv zeta. rewrite F. reflexivity.
  Qed.

  (* the two end states of set(x) { s = x; if (x > 9) {} else {} } are kept apart *)
  Lemma branch_states_distinct : state_id BranchInst.hi <> state_id BranchInst.lo.
  Proof.
    intros E.
    destruct (state_id_is_some BranchInst.hi) as [i Hi]; [discriminate |].
    assert (Hl : state_id BranchInst.lo = Some i) by congruence.
    assert (U : forall ex, x_storage ex = [(10, [(KTup [0; 0; 0], 100)])] -> uniform_keys 3 ex).
    { intros ex Hx addr st k v I1 I2. rewrite Hx in I1. destruct I1 as [I1 | []].
      injection I1 as _ I1. subst st. destruct I2 as [I2 | []]. injection I2 as I2 _. subst k. reflexivity. }
    destruct (state_id_identical 3 _ _ i (U BranchInst.hi eq_refl) (U BranchInst.lo eq_refl) Hi Hl) as [_ [_ [_ [Hc _]]]].
    assert (C : constraint_of BranchInst.hi 200).
    { unfold constraint_of. cbn. exists O. split; [left; reflexivity | reflexivity]. }
    apply Hc in C. unfold constraint_of in C. cbn in C. destruct C as [k [[Hk | []] Hn]].
    destruct k; [cbn in Hn; discriminate | lia].
  Qed.
End StateId.

Lemma branch_conditions_distinct :
  forall (D64 D128 : Type) (H64 : list (item D128) -> D64) (H128 : list Z -> D128),
    (forall x y, H64 x = H64 y -> x = y) -> (forall x y, H128 x = H128 y -> x = y) ->
    x_storage BranchInst.hi = x_storage BranchInst.lo /\ x_sliced BranchInst.hi = x_sliced BranchInst.lo /\
    snapshot_state H64 (storage_digest H128) true BranchInst.hi <> snapshot_state H64 (storage_digest H128) true BranchInst.lo.
Proof.
  intros D64 D128 H64 H128 I64 I128.
  split; [reflexivity | split; [reflexivity | exact (branch_states_distinct H64 H128 I64 I128)]].
Qed.

(* ------------------------------------------------------------------ meaning *)
Lemma same_identity_represents :
  forall (V val : Type) (ev : V -> Z -> val) (holds : V -> Z -> Prop) a b,
    same_identity a b -> forall w, represents V val ev holds a w <-> represents V val ev holds b w.
Proof.
  intros V val ev holds a b [Eb [Ec [Es [Hc Hb]]]] w. unfold represents, concretize, env_fields. cbn [map].
  rewrite Eb, Ec, Es.
  rewrite (Hb BBasefee), (Hb BChainid), (Hb BCoinbase), (Hb BDifficulty), (Hb BGaslimit), (Hb BNumber) by discriminate.
  split; intros [v [Hv Hw]]; exists v; (split; [| exact Hw]); intros c C; apply Hv, Hc, C.
Qed.

(* ------------------------------------------------------------------ coverage with the real state id *)
Lemma cover_snapshot :
  forall (SS Tgt : Type) (targets : SS -> list Tgt) (sstep : SS -> Tgt -> list (outcome SS))
         (refresh : SS -> SS -> SS) (setup : SS)
         (CS Tx : Type) (cstep : CS -> Tx -> option CS) (adm : CS -> Tx -> Prop)
         (gamma : SS -> CS -> Prop)
         (D64 D128 : Type) (H64 : list (item D128) -> D64) (H128 : list Z -> D128)
         (enc : option (list D64) -> Z) (view : SS -> xstate) (n : nat),
    (forall x y, H64 x = H64 y -> x = y) -> (forall x y, H128 x = H128 y -> x = y) ->
    (forall x y, enc x = enc y -> x = y) ->
    (forall s, x_sliced (view s) <> None) -> (forall s, uniform_keys n (view s)) ->
    (forall p a q b cs, same_identity (view a) (view b) -> gamma (refresh q b) cs -> gamma (refresh p a) cs) ->
    (forall ss cs tx cs', gamma ss cs -> adm cs tx -> cstep cs tx = Some cs' ->
        exists t s', In t (targets ss) /\ In (OOk s') (sstep ss t) /\ gamma (refresh ss s') cs') ->
    forall d cs0 txs cs,
      gamma setup cs0 -> creach cstep adm cs0 txs cs -> (length txs <= d)%nat ->
      exists j ss, (j <= length txs)%nat /\
                   In ss (nth j (frontiers SS Tgt targets sstep (fun s => enc (state_id H64 H128 (view s))) refresh setup d) []) /\
                   In ss (evaluated SS Tgt targets sstep (fun s => enc (state_id H64 H128 (view s))) refresh setup d) /\
                   gamma ss cs.
Proof.
  intros SS Tgt targets sstep refresh setup CS Tx cstep adm gamma D64 D128 H64 H128 enc view n
         I64 I128 Ienc Hsl Hu Hm Hs.
  assert (Hid : forall a b, enc (state_id H64 H128 (view a)) = enc (state_id H64 H128 (view b)) ->
                            same_identity (view a) (view b)).
  { intros a b E. apply Ienc in E.
    destruct (state_id_is_some H64 H128 (view a) (Hsl a)) as [i Hi].
    apply (state_id_identical H64 H128 I64 I128 n _ _ i); auto. congruence. }
  apply cover_full; auto.
  intros p a q b cs E. apply Hm. apply Hid. exact E.
Qed.
