(* Soundness (C01) and completeness (C02) of the mini-SEVM of Model/SymExec.v with respect to
   the reference interpreter Spec/Evm.v. *)
From Coq Require Import ZArith List Bool Lia Arith.
From HV Require Import Base.Word Spec.Evm Gen.GenJumpi Model.SymExec Proofs.SymExecLemmas Proofs.JumpiProofs.
Import ListNotations.
Open Scope Z_scope.

(* every element of the jump-destination scan is a JUMPDEST byte *)
Lemma jd_scan_spec : forall c skip base p,
  In p (jd_scan skip base c) -> (base <= p)%nat /\ nth_error c (p - base) = Some 91.
Proof.
  induction c as [|b c IH]; intros skip base p H; [destruct H|].
  cbn [jd_scan] in H. destruct skip as [|k].
  - destruct (b =? 91) eqn:E.
    + destruct H as [<- | H].
      * split; [lia|]. rewrite Nat.sub_diag. cbn. apply Z.eqb_eq in E. subst. reflexivity.
      * apply IH in H. destruct H as [H1 H2]. split; [lia|].
        replace (p - base)%nat with (S (p - S base)) by lia. exact H2.
    + apply IH in H. destruct H as [H1 H2]. split; [lia|].
      replace (p - base)%nat with (S (p - S base)) by lia. exact H2.
  - apply IH in H. destruct H as [H1 H2]. split; [lia|].
    replace (p - base)%nat with (S (p - S base)) by lia. exact H2.
Qed.

Lemma is_jumpdest_byte : forall code t,
  is_jumpdest code t = true -> nth_error code (Z.to_nat t) = Some 91.
Proof.
  intros code t H. unfold is_jumpdest in H. apply andb_true_iff in H. destruct H as [_ H].
  apply existsb_exists in H. destruct H as [p [Hin Heq]]. apply Nat.eqb_eq in Heq. subst p.
  apply jd_scan_spec in Hin. destruct Hin as [_ Hn]. rewrite Nat.sub_0_r in Hn. exact Hn.
Qed.

Section Sound.
Variable lim : Z.
Variable se : senv.
Variable rho : var -> Z.
Variable run_sub : env -> world -> Z -> result.
(* code is a sequence of bytes *)
Definition code_ok : Prop := Forall (fun b => 0 <= b < 256) (se_code se).

Definition inst_env : env :=
  mkEnv (se_this se) (se_code se) (eval rho (se_caller se)) (eval rho (se_origin se))
        (eval rho (se_value se)) (map (beval rho) (se_data se)) (se_static se) (se_depth se) (se_block se).

Definition store_agree (m : list (Z * list (Z * Z))) (ws : list (term * term)) : Prop :=
  forall k, sload_of m (se_this se) k = lookupZ k (map (evalp rho) ws).

(* the symbolic state describes the concrete one under the valuation rho
   (path conditions and visit counters play no role here) *)
Record R (sg : sstate) (s : mstate) : Prop := mkR {
  R_pc : s_pc s = ss_pc sg;
  R_stack : s_stack s = map (eval rho) (ss_stack sg);
  R_len : (length (ss_stack sg) <= 1024)%nat;
  R_mem : forall i, nth i (s_mem s) 0 = nth i (map (beval rho) (ss_mem sg)) 0;
  R_store : store_agree (w_storage (s_world s)) (ss_store sg);
  R_tstore : store_agree (w_transient (s_world s)) (ss_tstore sg);
  R_bal : forall a, get_balance (s_world s) a = eval rho (sbal se a);
  R_ret : s_ret s = map (beval rho) (ss_ret sg);
}.

Definition leaf_matches (k : leaf_kind) (s : mstate) (r : result) : Prop :=
  match k with
  | LOk ret st tst =>
      exists w logs, r = ROk w (s_ctr s) (map (beval rho) ret) logs /\
                     store_agree (w_storage w) st /\ store_agree (w_transient w) tst /\
                     (forall a, get_balance w a = eval rho (sbal se a))
  | LRevert ret => r = RRevert (s_ctr s) (map (beval rho) ret)
  | LHalt kd => r = RHalt (s_ctr s) kd
  | LStuck _ => True
  | LFuel => True
  end.

Lemma R_set_stack : forall sg s st pc,
  R sg s -> (length st <= 1024)%nat ->
  R (set_stack sg st pc) (with_stack s (map (eval rho) st) pc).
Proof. intros sg s st pc [] Hl. constructor; cbn; auto. Qed.

Lemma snext_sim : forall sg s st,
  R sg s ->
  match snext sg st with
  | SNext sg' => exists s', next s (map (eval rho) st) = Continue s' /\ R sg' s'
  | SLeaf k => exists r, next s (map (eval rho) st) = Done r /\ leaf_matches k s r
  | SBranch _ _ _ => False
  end.
Proof.
  intros sg s st HR. unfold snext, next. rewrite map_length.
  destruct (1024 <? length st)%nat eqn:E.
  - eexists; split; [reflexivity|]. reflexivity.
  - apply Nat.ltb_ge in E. eexists; split; [reflexivity|].
    rewrite (R_pc _ _ HR). apply R_set_stack; assumption.
Qed.

(* statement of one simulated step *)
Definition sim_result (sg : sstate) (sr : sres) (s : mstate) (cr : step_result) : Prop :=
  match sr with
  | SNext sg' => exists s', cr = Continue s' /\ R sg' s'
  | SLeaf k =>
      match k with
      | LStuck _ | LFuel => True
      | _ => exists r, cr = Done r /\ leaf_matches k s r
      end
  | SBranch c t rest =>
      (eval rho c = 0 ->
         exists s', cr = Continue s' /\
           forall p v, R (mkSS (S (ss_pc sg)) rest (ss_mem sg) (ss_store sg) (ss_tstore sg) p v (ss_ret sg)) s')
      /\ (eval rho c <> 0 -> is_jumpdest (se_code se) t = true ->
            exists s1 s2, cr = Continue s1 /\ (forall rs, step lim rs inst_env s1 = Continue s2) /\
              s_world s2 = s_world s1 /\ s_ctr s2 = s_ctr s1 /\
              forall p v, R (mkSS (S (Z.to_nat t)) rest (ss_mem sg) (ss_store sg) (ss_tstore sg) p v (ss_ret sg)) s2)
      /\ (eval rho c <> 0 -> is_jumpdest (se_code se) t = false ->
            cr = Done (RHalt (s_ctr s) H_BADJUMP))
  end.

Ltac halt_leaf := eexists; split; [reflexivity | reflexivity].

Lemma sim_snext : forall sg0 sg s st cr,
  R sg s -> cr = next s (map (eval rho) st) -> sim_result sg0 (snext sg st) s cr.
Proof.
  intros sg0 sg s st cr HR ->. pose proof (snext_sim sg s st HR) as H.
  unfold snext in *. destruct (1024 <? length st)%nat; cbn [sim_result]; exact H.
Qed.

Lemma sim_result_ctr : forall sg sr s s2 cr,
  s_ctr s2 = s_ctr s -> sim_result sg sr s2 cr -> sim_result sg sr s cr.
Proof.
  intros sg sr s s2 cr Hc H. destruct sr as [sg'|k|c t rest]; cbn [sim_result] in *.
  - exact H.
  - destruct k; try exact H; cbn [leaf_matches] in *; rewrite <- Hc; exact H.
  - rewrite <- Hc. exact H.
Qed.

Lemma sload_sstore : forall m a k0 v0 k,
  sload_of (sstore_of m a k0 v0) a k = if k =? k0 then v0 else sload_of m a k.
Proof.
  intros m a k0 v0 k. unfold sload_of, sstore_of, aset. simpl. rewrite Z.eqb_refl. simpl.
  destruct (k =? k0); [reflexivity|].
  destruct (alookup a m); reflexivity.
Qed.

Lemma store_agree_cons : forall m ws k v,
  store_agree m ws -> store_agree (sstore_of m (se_this se) (eval rho k) (eval rho v)) ((k, v) :: ws).
Proof.
  intros m ws k v H k'. rewrite sload_sstore. cbn [map evalp fst snd lookupZ]. rewrite H. reflexivity.
Qed.

Lemma R_with_mem_expand : forall sg s off n,
  R sg s -> R sg (with_mem s (mexpand (s_mem s) off n)).
Proof.
  intros sg s off n []. constructor; cbn; auto. intros i. rewrite mexpand_nth. auto.
Qed.

Lemma mread_agree : forall sg s off n m1,
  R sg s -> (forall i, nth i m1 0 = nth i (s_mem s) 0) ->
  mread m1 off n = map (beval rho) (smread (ss_mem sg) off n).
Proof.
  intros sg s off n m1 HR H. rewrite smread_map. apply mread_ext. intros i. rewrite H. apply (R_mem _ _ HR).
Qed.

Lemma mread_expand_agree : forall sg s o n off k,
  R sg s -> mread (mexpand (s_mem s) o n) off k = map (beval rho) (smread (ss_mem sg) off k).
Proof. intros sg s o n off k HR. apply (mread_agree sg s); [exact HR | apply mexpand_nth]. Qed.

Lemma decode_jumpdest : decode_op 91 = IJumpdest.
Proof. reflexivity. Qed.

Lemma zread_bytes : forall l off n,
  Forall (fun b => 0 <= b < 256) l -> Forall (fun b => 0 <= b < 256) (zread l off n).
Proof.
  intros l off n H. unfold zread. apply Forall_forall. intros x Hx.
  apply In_nth with (d := 0) in Hx. destruct Hx as [j [Hj <-]].
  rewrite firstn_length, app_length, repeat_length in Hj.
  rewrite nth_firstn_lt by lia. rewrite nth_app_default, nth_skipn.
  destruct (Nat.lt_ge_cases (off + j) (length l)) as [Hl|Hl].
  - rewrite Forall_forall in H. apply H. apply nth_In. exact Hl.
  - rewrite nth_overflow by exact Hl. lia.
Qed.

Lemma const_bytes_map : forall l,
  Forall (fun b => 0 <= b < 256) l ->
  map (beval rho) (map (fun b => (31%nat, TConst (b mod 256))) l) = l.
Proof.
  induction l as [|b l IH]; intros H; [reflexivity|]. inversion H as [|? ? Hb Hl]; subst.
  cbn [map]. rewrite IH by exact Hl. f_equal. unfold beval. cbn [fst snd eval].
  rewrite be_bytes_last. rewrite Z.mod_mod by lia. apply Z.mod_small. exact Hb.
Qed.

Lemma sim_step_i : code_ok -> forall i sg s, R sg s ->
  sim_result sg (sstep_i lim se i sg) s (step_i lim run_sub i inst_env s).
Proof.
  intros Hcode i sg s HR. pose proof HR as [Hpc Hst Hlen Hmem Hsto Htsto Hbal Hret].
  destruct i; cbn [sstep_i step_i]; cbv zeta; unfold binop, unop, ternop, push; try exact I.
  - (* IStop *)
    eexists; split; [reflexivity|]. cbn [leaf_matches map]. eexists _, _. split; [reflexivity|]. auto.
  - (* IBin *)
    rewrite Hst. destruct (ss_stack sg) as [|x [|y r]]; cbn [map]; try halt_leaf.
    apply sim_snext; [exact HR | reflexivity].
  - (* IUn *)
    rewrite Hst. destruct (ss_stack sg) as [|x r]; cbn [map]; try halt_leaf.
    apply sim_snext; [exact HR | reflexivity].
  - (* ITern *)
    rewrite Hst. destruct (ss_stack sg) as [|x [|y [|z r]]]; cbn [map]; try halt_leaf.
    apply sim_snext; [exact HR | reflexivity].
  - (* ISha3 *)
    rewrite Hst. destruct (ss_stack sg) as [|x [|y r]]; cbn [map]; try halt_leaf.
    + destruct x; try exact I; halt_leaf.
    + destruct x; try exact I. destruct y; try exact I. cbn [eval].
      destruct ((z <? 0) || (z0 <? 0)); [exact I|].
      unfold s_oog_range, oog_range. destruct (negb (z0 =? 0) && (lim <? z + z0)); [halt_leaf|].
      apply (sim_result_ctr _ _ _ (with_mem s (mexpand (s_mem s) (Z.to_nat z) (Z.to_nat z0)))); [reflexivity|].
      apply sim_snext; [apply R_with_mem_expand; exact HR|].
      cbn [map]. rewrite eval_TSha. unfold unop. cbn [s_stack with_mem s_mem].
      rewrite (mread_expand_agree sg s _ _ _ _ HR). reflexivity.
  - (* IEnv *)
    destruct g; cbn [senv_value]; try exact I;
      (apply sim_snext; [exact HR | unfold push; rewrite Hst; cbn [map eval env_value inst_env e_this e_origin e_caller e_value e_data e_code e_block]; rewrite ?map_length, ?Hret, ?map_length, ?Hpc, ?Hbal; reflexivity]).
  - (* IBalance *)
    rewrite Hst. destruct (ss_stack sg) as [|x r]; cbn [map]; try halt_leaf.
    destruct x; try exact I. apply sim_snext; [exact HR|]. cbn [map]. rewrite Hbal. reflexivity.
  - (* ICalldataload *)
    rewrite Hst. destruct (ss_stack sg) as [|x r]; cbn [map]; try halt_leaf.
    destruct x; try exact I. destruct (z <? 0); [exact I|].
    apply sim_snext; [exact HR|]. cbn [map]. rewrite eval_TWord, smread_map. reflexivity.
  - (* ICalldatacopy *)
    rewrite Hst. destruct (ss_stack sg) as [|x [|y [|w r]]]; cbn [map]; try halt_leaf.
    + destruct x; try exact I; halt_leaf.
    + destruct x; try exact I; destruct y; try exact I; halt_leaf.
    + destruct x; try exact I. destruct y; try exact I. destruct w; try exact I. cbn [eval].
      destruct ((z <? 0) || (z0 <? 0) || (z1 <? 0)) eqn:Eneg; [exact I|].
      unfold copy_to_mem, s_oog_range, oog_range. destruct (negb (z1 =? 0) && (lim <? z + z1)); [halt_leaf|].
      destruct (z1 =? 0) eqn:En.
      * apply Z.eqb_eq in En. subst z1. cbn [Z.to_nat Nat.eqb].
        apply (sim_result_ctr _ _ _ (with_mem s (mexpand (s_mem s) (Z.to_nat z) 0))); [reflexivity|].
        apply sim_snext; [apply R_with_mem_expand; exact HR | reflexivity].
      * assert (Hn : (Z.to_nat z1 =? 0)%nat = false).
        { apply Nat.eqb_neq. apply Z.eqb_neq in En.
          apply orb_false_iff in Eneg. destruct Eneg as [_ E3]. apply Z.ltb_ge in E3. lia. }
        rewrite Hn.
        match goal with |- sim_result _ (snext (set_mem _ (smwrite _ _ ?src)) _) _ (next (with_mem _ (mwrite ?m1 _ ?bs)) _) =>
          set (SRC := src); set (BS := bs); set (M2 := mwrite m1 (Z.to_nat z) BS) end.
        assert (Hsrc : map (beval rho) SRC = BS) by (subst SRC BS; rewrite smread_map; reflexivity).
        assert (HlenB : length BS = Z.to_nat z1) by (subst BS; unfold zread; rewrite firstn_length, app_length, repeat_length; lia).
        clearbody SRC BS.
        apply (sim_result_ctr _ _ _ (with_mem s M2)); [reflexivity|].
        apply sim_snext; [|reflexivity].
        destruct HR as [h1 h2 h3 h4 h5 h6 h7 h8].
        constructor; cbn [s_pc s_stack s_mem s_world s_ret s_ctr with_mem ss_pc ss_stack ss_mem ss_store ss_tstore ss_ret set_mem]; try assumption.
        intros i. subst M2.
        rewrite mwrite_nth by (rewrite HlenB; apply mexpand_length; apply Nat.eqb_neq; exact Hn).
        rewrite smwrite_nth, Hsrc, mexpand_nth.
        assert (Hl2 : @length bterm SRC = length BS) by (rewrite <- Hsrc, map_length; reflexivity).
        rewrite Hl2.
        destruct ((Z.to_nat z <=? i) && (i <? Z.to_nat z + length BS))%nat; auto.
  - (* ICodecopy *)
    rewrite Hst. destruct (ss_stack sg) as [|x [|y [|w r]]]; cbn [map]; try halt_leaf.
    + destruct x; try exact I; halt_leaf.
    + destruct x; try exact I; destruct y; try exact I; halt_leaf.
    + destruct x; try exact I. destruct y; try exact I. destruct w; try exact I. cbn [eval].
      destruct ((z <? 0) || (z0 <? 0) || (z1 <? 0)) eqn:Eneg; [exact I|].
      unfold copy_to_mem, s_oog_range, oog_range. destruct (negb (z1 =? 0) && (lim <? z + z1)); [halt_leaf|].
      destruct (z1 =? 0) eqn:En.
      * apply Z.eqb_eq in En. subst z1. cbn [Z.to_nat Nat.eqb].
        apply (sim_result_ctr _ _ _ (with_mem s (mexpand (s_mem s) (Z.to_nat z) 0))); [reflexivity|].
        apply sim_snext; [apply R_with_mem_expand; exact HR | reflexivity].
      * assert (Hn : (Z.to_nat z1 =? 0)%nat = false).
        { apply Nat.eqb_neq. apply Z.eqb_neq in En.
          apply orb_false_iff in Eneg. destruct Eneg as [_ E3]. apply Z.ltb_ge in E3. lia. }
        rewrite Hn.
        match goal with |- sim_result _ (snext (set_mem _ (smwrite _ _ ?src)) _) _ (next (with_mem _ (mwrite ?m1 _ ?bs)) _) =>
          set (SRC := src); set (BS := bs); set (M2 := mwrite m1 (Z.to_nat z) BS) end.
        assert (Hsrc : map (beval rho) SRC = BS) by (subst SRC BS; apply const_bytes_map; apply zread_bytes; exact Hcode).
        assert (HlenB : length BS = Z.to_nat z1) by (subst BS; unfold zread; rewrite firstn_length, app_length, repeat_length; lia).
        clearbody SRC BS.
        apply (sim_result_ctr _ _ _ (with_mem s M2)); [reflexivity|].
        apply sim_snext; [|reflexivity].
        destruct HR as [h1 h2 h3 h4 h5 h6 h7 h8].
        constructor; cbn [s_pc s_stack s_mem s_world s_ret s_ctr with_mem ss_pc ss_stack ss_mem ss_store ss_tstore ss_ret set_mem]; try assumption.
        intros i. subst M2.
        rewrite mwrite_nth by (rewrite HlenB; apply mexpand_length; apply Nat.eqb_neq; exact Hn).
        rewrite smwrite_nth, Hsrc, mexpand_nth.
        assert (Hl2 : @length bterm SRC = length BS) by (rewrite <- Hsrc, map_length; reflexivity).
        rewrite Hl2.
        destruct ((Z.to_nat z <=? i) && (i <? Z.to_nat z + length BS))%nat; auto.
  - (* IReturndatacopy *)
    rewrite Hst. destruct (ss_stack sg) as [|x [|y [|w r]]]; cbn [map]; try halt_leaf.
    + destruct x; try exact I; halt_leaf.
    + destruct x; try exact I; destruct y; try exact I; halt_leaf.
    + destruct x; try exact I. destruct y; try exact I. destruct w; try exact I. cbn [eval].
      destruct ((z <? 0) || (z0 <? 0) || (z1 <? 0)) eqn:Eneg; [exact I|].
      rewrite Hret, map_length.
      destruct (Z.of_nat (length (ss_ret sg)) <? z0 + z1); [halt_leaf|].
      unfold copy_to_mem, s_oog_range, oog_range. destruct (negb (z1 =? 0) && (lim <? z + z1)); [halt_leaf|].
      destruct (z1 =? 0) eqn:En.
      * apply Z.eqb_eq in En. subst z1. cbn [Z.to_nat Nat.eqb].
        apply (sim_result_ctr _ _ _ (with_mem s (mexpand (s_mem s) (Z.to_nat z) 0))); [reflexivity|].
        apply sim_snext; [apply R_with_mem_expand; exact HR | reflexivity].
      * assert (Hn : (Z.to_nat z1 =? 0)%nat = false).
        { apply Nat.eqb_neq. apply Z.eqb_neq in En.
          apply orb_false_iff in Eneg. destruct Eneg as [_ E3]. apply Z.ltb_ge in E3. lia. }
        rewrite Hn.
        match goal with |- sim_result _ (snext (set_mem _ (smwrite _ _ ?src)) _) _ (next (with_mem _ (mwrite ?m1 _ ?bs)) _) =>
          set (SRC := src); set (BS := bs); set (M2 := mwrite m1 (Z.to_nat z) BS) end.
        assert (Hsrc : map (beval rho) SRC = BS) by (subst SRC BS; rewrite smread_map; reflexivity).
        assert (HlenB : length BS = Z.to_nat z1) by (subst BS; unfold zread; rewrite firstn_length, app_length, repeat_length; lia).
        clearbody SRC BS.
        apply (sim_result_ctr _ _ _ (with_mem s M2)); [reflexivity|].
        apply sim_snext; [|reflexivity].
        destruct HR as [h1 h2 h3 h4 h5 h6 h7 h8].
        constructor; cbn [s_pc s_stack s_mem s_world s_ret s_ctr with_mem ss_pc ss_stack ss_mem ss_store ss_tstore ss_ret set_mem]; try assumption.
        intros i. subst M2.
        rewrite mwrite_nth by (rewrite HlenB; apply mexpand_length; apply Nat.eqb_neq; exact Hn).
        rewrite smwrite_nth, Hsrc, mexpand_nth.
        assert (Hl2 : @length bterm SRC = length BS) by (rewrite <- Hsrc, map_length; reflexivity).
        rewrite Hl2.
        destruct ((Z.to_nat z <=? i) && (i <? Z.to_nat z + length BS))%nat; auto.
  - (* IPop *)
    rewrite Hst. destruct (ss_stack sg) as [|x r]; cbn [map]; try halt_leaf.
    apply sim_snext; [exact HR | reflexivity].
  - (* IMload *)
    rewrite Hst. destruct (ss_stack sg) as [|x r]; cbn [map]; try halt_leaf.
    destruct x; try exact I. cbn [eval]. destruct (z <? 0); [exact I|].
    unfold s_oog_word, oog_word. destruct (lim <? z); [halt_leaf|].
    apply (sim_result_ctr _ _ _ (with_mem s (mexpand (s_mem s) (Z.to_nat z) 32))); [reflexivity|].
    apply sim_snext; [apply R_with_mem_expand; exact HR|].
    cbn [map]. rewrite eval_TWord.
    rewrite (mread_expand_agree sg s _ _ _ _ HR). reflexivity.
  - (* IMstore *)
    rewrite Hst. destruct (ss_stack sg) as [|x [|v r]]; cbn [map]; try halt_leaf.
    + destruct x; try exact I; halt_leaf.
    + destruct x; try exact I. cbn [eval]. destruct (z <? 0); [exact I|].
      unfold s_oog_word, oog_word. destruct (lim <? z); [halt_leaf|].
      set (m2 := mwrite (mexpand (s_mem s) (Z.to_nat z) 32) (Z.to_nat z) (be_bytes 32 (eval rho v))).
      apply (sim_result_ctr _ _ _ (with_mem s m2)); [reflexivity|].
      apply sim_snext; [|reflexivity].
      destruct HR as [h1 h2 h3 h4 h5 h6 h7 h8].
      constructor; cbn [s_pc s_stack s_mem s_world s_ret s_ctr with_mem ss_pc ss_stack ss_mem ss_store ss_tstore ss_ret set_mem]; try assumption.
      intros i. subst m2.
      rewrite mwrite_nth by (rewrite be_bytes_length; apply mexpand_length; lia).
      rewrite smwrite_nth, word_bytes_map, word_bytes_length, be_bytes_length, mexpand_nth.
      destruct ((Z.to_nat z <=? i) && (i <? Z.to_nat z + 32))%nat; auto.
  - (* IMstore8 *)
    rewrite Hst. destruct (ss_stack sg) as [|x [|v r]]; cbn [map]; try halt_leaf.
    + destruct x; try exact I; halt_leaf.
    + destruct x; try exact I. cbn [eval]. destruct (z <? 0); [exact I|].
      unfold s_oog_word, oog_word. destruct (lim <? z); [halt_leaf|].
      set (m2 := mwrite (mexpand (s_mem s) (Z.to_nat z) 1) (Z.to_nat z) [eval rho v mod 256]).
      apply (sim_result_ctr _ _ _ (with_mem s m2)); [reflexivity|].
      apply sim_snext; [|reflexivity].
      destruct HR as [h1 h2 h3 h4 h5 h6 h7 h8].
      constructor; cbn [s_pc s_stack s_mem s_world s_ret s_ctr with_mem ss_pc ss_stack ss_mem ss_store ss_tstore ss_ret set_mem]; try assumption.
      intros i. subst m2.
      rewrite mwrite_nth by (cbn [length]; apply mexpand_length; lia).
      rewrite smwrite_nth, mexpand_nth. cbn [length map]. unfold beval at 1. cbn [fst snd]. rewrite be_bytes_last.
      destruct ((Z.to_nat z <=? i) && (i <? Z.to_nat z + 1))%nat; auto.
  - (* ISload *)
    rewrite Hst. destruct (ss_stack sg) as [|k r]; cbn [map]; try halt_leaf.
    apply sim_snext; [exact HR|]. cbn [map]. rewrite eval_TLoad, <- Hsto. reflexivity.
  - (* ISstore *)
    rewrite Hst. destruct (ss_stack sg) as [|k [|v r]]; cbn [map]; try halt_leaf.
    cbn [e_static inst_env]. destruct (se_static se); [halt_leaf|].
    unfold next. rewrite map_length. cbn [s_stack with_world s_pc s_ctr].
    destruct (1024 <? length r)%nat eqn:E; [halt_leaf|].
    eexists; split; [reflexivity|]. apply Nat.ltb_ge in E.
    constructor; cbn; auto. apply store_agree_cons. exact Hsto.
  - (* IJump *)
    rewrite Hst. destruct (ss_stack sg) as [|x r]; cbn [map]; try halt_leaf.
    destruct x; try exact I. cbn [eval e_code inst_env].
    destruct (is_jumpdest (se_code se) z); [|halt_leaf].
    eexists; split; [reflexivity|]. apply R_set_stack; [exact HR | cbn in Hlen; lia].
  - (* IJumpi *)
    rewrite Hst. destruct (ss_stack sg) as [|x [|c r]] eqn:Est; cbn [map]; try halt_leaf.
    + destruct x; try exact I; halt_leaf.
    + destruct x; try exact I. cbn [eval e_code inst_env].
      assert (Hr : (length r <= 1024)%nat) by (cbn in Hlen; lia).
      assert (Hbranch : sim_result sg (SBranch c z r) s
                (if eval rho c =? 0 then next s (map (eval rho) r)
                 else if is_jumpdest (se_code se) z then Continue (with_stack s (map (eval rho) r) (Z.to_nat z))
                 else halt s H_BADJUMP)).
      { cbn [sim_result]. repeat split.
        - intros H0. rewrite H0. cbn. unfold next. rewrite map_length.
          assert (E : (1024 <? length r)%nat = false) by (apply Nat.ltb_ge; lia). rewrite E.
          eexists; split; [reflexivity|]. intros p v. rewrite Hpc. constructor; cbn; auto.
        - intros Hn Hj. apply Z.eqb_neq in Hn. rewrite Hn, Hj.
          eexists _, _. split; [reflexivity|]. split.
          + intros rs. unfold step. cbn [s_pc with_stack e_code inst_env].
            rewrite (is_jumpdest_byte _ _ Hj), decode_jumpdest. cbn [step_i]. cbv zeta.
            unfold next. cbn [s_stack with_stack]. rewrite map_length.
            assert (E : (1024 <? length r)%nat = false) by (apply Nat.ltb_ge; lia). rewrite E. reflexivity.
          + split; [reflexivity|]. split; [reflexivity|]. intros p v. constructor; cbn; auto.
        - intros Hn Hj. apply Z.eqb_neq in Hn. rewrite Hn, Hj. reflexivity. }
      destruct c; try exact Hbranch.
      (* literal condition *)
      cbn [eval]. destruct (z0 =? 0) eqn:Ez.
      * apply sim_snext; [exact HR | reflexivity].
      * destruct (is_jumpdest (se_code se) z); [|halt_leaf].
        eexists; split; [reflexivity|]. apply R_set_stack; [exact HR | exact Hr].
  - (* IJumpdest *)
    apply sim_snext; [exact HR|]. rewrite Hst. reflexivity.
  - (* ITload *)
    rewrite Hst. destruct (ss_stack sg) as [|k r]; cbn [map]; try halt_leaf.
    apply sim_snext; [exact HR|]. cbn [map]. rewrite eval_TLoad, <- Htsto. reflexivity.
  - (* ITstore *)
    rewrite Hst. destruct (ss_stack sg) as [|k [|v r]]; cbn [map]; try halt_leaf.
    cbn [e_static inst_env]. destruct (se_static se); [halt_leaf|].
    unfold next. rewrite map_length. cbn [s_stack with_world s_pc s_ctr].
    destruct (1024 <? length r)%nat eqn:E; [halt_leaf|].
    eexists; split; [reflexivity|]. apply Nat.ltb_ge in E.
    constructor; cbn; auto. apply store_agree_cons. exact Htsto.
  - (* IMcopy *)
    rewrite Hst. destruct (ss_stack sg) as [|x [|y [|w r]]]; cbn [map]; try halt_leaf.
    + destruct x; try exact I; halt_leaf.
    + destruct x; try exact I; destruct y; try exact I; halt_leaf.
    + destruct x; try exact I. destruct y; try exact I. destruct w; try exact I. cbn [eval].
      destruct ((z <? 0) || (z0 <? 0) || (z1 <? 0)) eqn:Eneg; [exact I|].
      unfold s_oog_range, oog_range. destruct (negb (z1 =? 0) && (lim <? z0 + z1)); [halt_leaf|].
      unfold copy_to_mem, oog_range. cbn [s_mem with_mem s_ctr].
      destruct (negb (z1 =? 0) && (lim <? z + z1)); [halt_leaf|].
      destruct (z1 =? 0) eqn:En.
      * apply Z.eqb_eq in En. subst z1. cbn [Z.to_nat Nat.eqb].
        set (M1 := mexpand (mexpand (s_mem s) (Z.to_nat z0) 0) (Z.to_nat z) 0).
        apply (sim_result_ctr _ _ _ (with_mem s M1)); [reflexivity|].
        apply sim_snext; [|reflexivity].
        destruct HR as [h1 h2 h3 h4 h5 h6 h7 h8].
        constructor; cbn [s_pc s_stack s_mem s_world s_ret s_ctr with_mem]; try assumption;
          try (intros i; subst M1; rewrite !mexpand_nth; apply h4).
      * assert (Hn : (Z.to_nat z1 =? 0)%nat = false).
        { apply Nat.eqb_neq. apply Z.eqb_neq in En.
          apply orb_false_iff in Eneg. destruct Eneg as [_ E3]. apply Z.ltb_ge in E3. lia. }
        rewrite Hn.
        set (M0 := mexpand (s_mem s) (Z.to_nat z0) (Z.to_nat z1)).
        set (BS := zread (mread M0 (Z.to_nat z0) (Z.to_nat z1)) (Z.to_nat 0) (Z.to_nat z1)).
        set (M2 := mwrite (mexpand M0 (Z.to_nat z) (Z.to_nat z1)) (Z.to_nat z) BS).
        set (SRC := smread (ss_mem sg) (Z.to_nat z0) (Z.to_nat z1)).
        assert (Hsrc : map (beval rho) SRC = BS).
        { subst SRC BS M0. rewrite <- (mread_expand_agree sg s (Z.to_nat z0) (Z.to_nat z1) _ _ HR).
          set (L := mread _ _ _). apply (list_eq_nth 0).
          - unfold zread. rewrite firstn_length, app_length, repeat_length. subst L. rewrite mread_length. lia.
          - intros i Hi. assert (Hi' : (i < Z.to_nat z1)%nat) by (subst L; rewrite mread_length in Hi; exact Hi).
            change (zread L (Z.to_nat 0) (Z.to_nat z1)) with (mread L 0 (Z.to_nat z1)).
            rewrite mread_nth by exact Hi'. reflexivity. }
        assert (HlenB : length BS = Z.to_nat z1) by (subst BS; unfold zread; rewrite firstn_length, app_length, repeat_length; lia).
        clearbody SRC BS.
        apply (sim_result_ctr _ _ _ (with_mem s M2)); [reflexivity|].
        apply sim_snext; [|reflexivity].
        destruct HR as [h1 h2 h3 h4 h5 h6 h7 h8].
        constructor; cbn [s_pc s_stack s_mem s_world s_ret s_ctr with_mem ss_pc ss_stack ss_mem ss_store ss_tstore ss_ret set_mem]; try assumption.
        intros i. subst M2.
        rewrite mwrite_nth by (rewrite HlenB; apply mexpand_length; apply Nat.eqb_neq; exact Hn).
        rewrite smwrite_nth, Hsrc, !mexpand_nth.
        assert (Hl2 : @length bterm SRC = length BS) by (rewrite <- Hsrc, map_length; reflexivity).
        rewrite Hl2. subst M0. rewrite mexpand_nth.
        destruct ((Z.to_nat z <=? i) && (i <? Z.to_nat z + length BS))%nat; auto.
  - (* IPush0 *)
    apply sim_snext; [exact HR|]. unfold push. rewrite Hst. reflexivity.
  - (* IPush *)
    rewrite Hst, map_length, Hpc. cbn [e_code inst_env].
    destruct (1024 <? S (length (ss_stack sg)))%nat eqn:E; [halt_leaf|].
    eexists; split; [reflexivity|]. apply Nat.ltb_ge in E.
    apply (R_set_stack sg s (TConst _ :: ss_stack sg)); [exact HR | cbn; lia].
  - (* IDup *)
    rewrite Hst, nth_error_map. destruct (nth_error (ss_stack sg) n) as [v|]; cbn [option_map]; [|halt_leaf].
    apply sim_snext; [exact HR|]. reflexivity.
  - (* ISwap *)
    rewrite Hst. destruct (ss_stack sg) as [|a r] eqn:Est; cbn [map]; [halt_leaf|].
    rewrite <- (map_cons (eval rho) a r), nth_error_map.
    destruct (nth_error (a :: r) n) as [b|]; cbn [option_map]; [|halt_leaf].
    apply sim_snext; [exact HR|]. cbn [map]. rewrite map_app, <- firstn_map. cbn [map]. rewrite <- skipn_map. reflexivity.
  - (* ILog *)
    unfold do_log. rewrite Hst. destruct (ss_stack sg) as [|x [|y r]] eqn:Est; cbn [map]; try halt_leaf.
    + destruct x; try exact I; halt_leaf.
    + destruct x; try exact I. destruct y; try exact I. cbn [eval e_static inst_env].
      destruct (se_static se); [halt_leaf|]. rewrite map_length.
      destruct (length r <? n)%nat; [halt_leaf|].
      destruct ((z <? 0) || (z0 <? 0)); [exact I|].
      unfold s_oog_range, oog_range. destruct (negb (z0 =? 0) && (lim <? z + z0)); [halt_leaf|].
      eexists; split; [reflexivity|].
      destruct HR as [h1 h2 h3 h4 h5 h6 h7 h8].
      constructor; cbn [s_pc s_stack s_mem s_world s_ret s_ctr ss_pc ss_stack ss_mem ss_store ss_tstore ss_ret set_stack]; try assumption.
      * rewrite h1. reflexivity.
      * rewrite <- skipn_map. reflexivity.
      * rewrite skipn_length. rewrite Est in h3. cbn in h3. lia.
      * intros i. rewrite mexpand_nth. apply h4.
  - (* IReturn *)
    rewrite Hst. destruct (ss_stack sg) as [|x [|y r]]; cbn [map]; try halt_leaf.
    + destruct x; try exact I; halt_leaf.
    + destruct x; try exact I. destruct y; try exact I. cbn [eval].
      destruct ((z <? 0) || (z0 <? 0)); [exact I|].
      unfold s_oog_range, oog_range. destruct (negb (z0 =? 0) && (lim <? z + z0)); [halt_leaf|].
      eexists; split; [reflexivity|]. cbn [leaf_matches]. eexists _, _. split; [|split; [exact Hsto | split; [exact Htsto | exact Hbal]]].
      rewrite (mread_expand_agree sg s _ _ _ _ HR). reflexivity.
  - (* IRevert *)
    rewrite Hst. destruct (ss_stack sg) as [|x [|y r]]; cbn [map]; try halt_leaf.
    + destruct x; try exact I; halt_leaf.
    + destruct x; try exact I. destruct y; try exact I. cbn [eval].
      destruct ((z <? 0) || (z0 <? 0)); [exact I|].
      unfold s_oog_range, oog_range. destruct (negb (z0 =? 0) && (lim <? z + z0)); [halt_leaf|].
      eexists; split; [reflexivity|]. cbn [leaf_matches].
      rewrite (mread_expand_agree sg s _ _ _ _ HR). reflexivity.
  - (* IInvalid *)
    halt_leaf.
Qed.

Lemma sim_step : code_ok -> forall sg s, R sg s ->
  sim_result sg (sstep lim se sg) s (step lim run_sub inst_env s).
Proof.
  intros Hcode sg s HR. unfold sstep, step. cbn [e_code inst_env]. rewrite (R_pc _ _ HR).
  destruct (nth_error (se_code se) (ss_pc sg)) as [op|].
  - apply sim_step_i; [exact Hcode | exact HR].
  - cbn [sim_result]. eexists; split; [reflexivity|]. cbn [leaf_matches map].
    destruct HR. eexists _, _. split; [reflexivity|]. auto.
Qed.

Definition is_stuck_res (sr : sres) : bool :=
  match sr with SLeaf (LStuck _) => true | _ => false end.

End Sound.

(* outside the modelled subset the symbolic step is stuck; inside it the concrete step never
   consults the sub-frame runner *)
Lemma step_irrel : forall lim se rho rs1 rs2 sg s,
  R se rho sg s -> is_stuck_res (sstep lim se sg) = false ->
  step lim rs1 (inst_env se rho) s = step lim rs2 (inst_env se rho) s.
Proof.
  intros lim se rho rs1 rs2 sg s HR Hns. unfold sstep in Hns. unfold step. cbn [e_code inst_env].
  rewrite (R_pc _ _ _ _ HR). destruct (nth_error (se_code se) (ss_pc sg)) as [op|]; [|reflexivity].
  destruct (decode_op op); try reflexivity; cbn in Hns; discriminate.
Qed.


(* ---------------------------------------------------------------- whole exploration *)
Section Explore.
Variable lim : Z.
Variable se : senv.
Variable rho : var -> Z.
Variable oracle : list cond -> term -> bool -> Z.
Variable loop : Z.
Hypothesis Hcode : code_ok se.

Notation inst_env := (inst_env se rho).
Notation R := (R se rho).
Notation store_agree := (store_agree se rho).
Notation leaf_matches := (leaf_matches se rho).

Definition holds (c : cond) : Prop := (eval rho (fst c) =? 0) = negb (snd c).
Definition sat (p : list cond) : Prop := Forall holds p.

(* what a leaf claims about the concrete result (the CREATE counter is not observable in
   the call-free subset) *)
Definition outcome_matches (k : leaf_kind) (r : result) : Prop :=
  match k with
  | LOk ret st tst =>
      exists w ctr logs, r = ROk w ctr (map (beval rho) ret) logs /\
                         store_agree (w_storage w) st /\ store_agree (w_transient w) tst /\
                         (forall a, get_balance w a = eval rho (sbal se a))
  | LRevert ret => exists ctr, r = RRevert ctr (map (beval rho) ret)
  | LHalt kd => exists ctr, r = RHalt ctr kd
  | LStuck _ | LFuel => True
  end.

Lemma leaf_outcome : forall k s r, leaf_matches k s r -> outcome_matches k r.
Proof.
  intros k s r H. destruct k; cbn in *; auto.
  - destruct H as [w [logs [H1 H2]]]. eexists w, _, logs. split; [exact H1 | exact H2].
  - eexists; exact H.
  - eexists; exact H.
Qed.

Lemma exec_S : forall n e s,
  exec lim (S n) e s =
    match step lim (fun e' w' ctr' => exec lim n e' (init_state w' ctr')) e s with
    | Continue s' => exec lim n e s'
    | Done r => r
    end.
Proof. reflexivity. Qed.

(* a plain step leaves the path condition unchanged *)
Lemma sstep_i_next_path : forall i sg sg', sstep_i lim se i sg = SNext sg' -> ss_path sg' = ss_path sg.
Proof.
  intros i sg sg' Es.
  assert (Hn : forall st sg2, snext sg st = SNext sg2 -> ss_path sg2 = ss_path sg).
  { intros st sg2 H. unfold snext in H. destruct (1024 <? length st)%nat; inversion H. reflexivity. }
  assert (Hm : forall m st sg2, snext (set_mem sg m) st = SNext sg2 -> ss_path sg2 = ss_path sg).
  { intros m st sg2 H. unfold snext in H. destruct (1024 <? length st)%nat; inversion H. reflexivity. }
  destruct i; cbn [sstep_i] in Es; cbv zeta in Es;
    repeat match type of Es with
           | (match ?x with _ => _ end) = _ => destruct x eqn:?; try discriminate
           | (if ?x then _ else _) = _ => destruct x eqn:?; try discriminate
           | (let '(_, _) := ?x in _) = _ => destruct x eqn:?
           end;
    try (inversion Es; subst; reflexivity);
    try (eapply Hn; eassumption); try (eapply Hm; eassumption);
    try (unfold sstuck, shalt in Es; discriminate).
Qed.

Lemma sstep_next_path : forall sg sg', sstep lim se sg = SNext sg' -> ss_path sg' = ss_path sg.
Proof.
  intros sg sg' Es. unfold sstep in Es.
  destruct (nth_error (se_code se) (ss_pc sg)); [|discriminate].
  eapply sstep_i_next_path. exact Es.
Qed.

(* paths only grow *)
Lemma sexec_path_extends : forall fuel sg l,
  In l (fst (sexec lim se oracle loop fuel sg)) -> exists pre, l_path l = pre ++ ss_path sg.
Proof.
  induction fuel as [|f IH]; intros sg l Hin; cbn [sexec] in Hin.
  - destruct Hin as [<-|[]]. exists []. reflexivity.
  - destruct (sstep lim se sg) as [sg'|k|c t rest] eqn:Es.
    + (* SNext: the path is unchanged by a plain step *)
      apply IH in Hin. destruct Hin as [pre Hp]. exists pre. rewrite Hp. f_equal.
      apply (sstep_next_path _ _ Es).
    + destruct Hin as [<-|[]]. exists []. reflexivity.
    + destruct (visits_of (jumpid se sg) (ss_visits sg)) as [vt vf].
      set (d := jumpi_decide (oracle (ss_path sg) c true) (oracle (ss_path sg) c false) vt vf loop) in *.
      destruct (d_follow_true d && negb (is_jumpdest (se_code se) t)).
      * cbn [fst] in Hin. destruct Hin as [<-|Hin].
        -- exists [(c, true)]. reflexivity.
        -- destruct (d_symbolic d && d_follow_false d); [|destruct Hin].
           apply IH in Hin. cbn [ss_path] in Hin. destruct Hin as [pre Hp].
           exists (pre ++ [(c, false)]). rewrite Hp, <- app_assoc. reflexivity.
      * cbn [fst] in Hin. apply in_app_or in Hin. destruct Hin as [Hin|Hin].
        -- destruct (d_follow_true d); [|destruct Hin].
           apply IH in Hin. cbn [ss_path] in Hin. destruct Hin as [pre Hp].
           exists (pre ++ [(c, true)]). rewrite Hp, <- app_assoc. reflexivity.
        -- destruct (d_follow_false d); [|destruct Hin].
           apply IH in Hin. cbn [ss_path] in Hin. destruct Hin as [pre Hp].
           exists (pre ++ [(c, false)]). rewrite Hp, <- app_assoc. reflexivity.
Qed.

Lemma sat_app : forall p q, sat (p ++ q) -> sat q.
Proof. intros p q H. unfold sat in *. apply Forall_app in H. tauto. Qed.

(* C01 for the mini-SEVM: every leaf whose path constraints are satisfied by rho describes
   the result of the reference interpreter started from any concrete state related to the
   symbolic one (R).  No hypothesis on the oracle. *)
Theorem sexec_sound : forall fuel sg s,
  R sg s ->
  forall l, In l (fst (sexec lim se oracle loop fuel sg)) -> sat (l_path l) ->
  exists n, outcome_matches (l_kind l) (exec lim n inst_env s).
Proof.
  induction fuel as [|f IH]; intros sg s HR l Hin Hsat; cbn [sexec] in Hin.
  - destruct Hin as [<-|[]]. exists O. exact I.
  - set (rs0 := fun (_ : env) (_ : world) (_ : Z) => RFuel).
    pose proof (sim_step lim se rho rs0 Hcode sg s HR) as Hsim.
    destruct (sstep lim se sg) as [sg'|k|c t rest] eqn:Es; cbn [sim_result] in Hsim.
    + destruct Hsim as [s' [Hstep HR']].
      destruct (IH sg' s' HR' l Hin Hsat) as [n Hn].
      exists (S n). rewrite exec_S, (step_irrel lim se rho _ rs0 sg s HR) by (rewrite Es; reflexivity).
      rewrite Hstep. exact Hn.
    + destruct Hin as [<-|[]]. cbn [l_kind].
      destruct k; try (exists O; exact I);
        (destruct Hsim as [r [Hstep Hm]]; exists 1%nat;
         rewrite exec_S, (step_irrel lim se rho _ rs0 sg s HR) by (rewrite Es; reflexivity);
         rewrite Hstep; eapply leaf_outcome; exact Hm).
    + destruct (visits_of (jumpid se sg) (ss_visits sg)) as [vt vf].
      set (d := jumpi_decide (oracle (ss_path sg) c true) (oracle (ss_path sg) c false) vt vf loop) in *.
      destruct Hsim as [Hfalse [Htrue Hbad]].
      destruct (d_follow_true d && negb (is_jumpdest (se_code se) t)) eqn:Eearly.
      * (* invalid destination *)
        apply andb_true_iff in Eearly. destruct Eearly as [_ Einv]. apply negb_true_iff in Einv.
        cbn [fst] in Hin. destruct Hin as [<-|Hin].
        -- (* the inputs that take the jump halt *)
           cbn [l_path l_kind] in *.
           assert (Hc : eval rho c <> 0).
           { inversion Hsat as [|x xs Hx _]. subst. unfold holds in Hx. cbn in Hx. apply Z.eqb_neq. exact Hx. }
           exists 1%nat. rewrite exec_S, (step_irrel lim se rho _ rs0 sg s HR) by (rewrite Es; reflexivity).
           rewrite (Hbad Hc Einv). cbn [outcome_matches]. eexists. reflexivity.
        -- destruct (d_symbolic d && d_follow_false d); [|destruct Hin].
           pose proof (sexec_path_extends _ _ _ Hin) as [pre Hp]. cbn [ss_path] in Hp.
           assert (Hc : eval rho c = 0).
           { rewrite Hp in Hsat. apply sat_app in Hsat. inversion Hsat as [|x xs Hx _]. subst.
             unfold holds in Hx. cbn in Hx. apply Z.eqb_eq. exact Hx. }
           destruct (Hfalse Hc) as [s' [Hs' HR']].
           destruct (IH _ s' (HR' _ _) l Hin Hsat) as [n Hn].
           exists (S n). rewrite exec_S, (step_irrel lim se rho _ rs0 sg s HR) by (rewrite Es; reflexivity).
           rewrite Hs'. exact Hn.
      * cbn [fst] in Hin. apply in_app_or in Hin. destruct Hin as [Hin|Hin].
        -- destruct (d_follow_true d) eqn:Eft; [|destruct Hin].
           cbn [andb] in Eearly. apply negb_false_iff in Eearly.
           pose proof (sexec_path_extends _ _ _ Hin) as [pre Hp]. cbn [ss_path] in Hp.
           assert (Hc : eval rho c <> 0).
           { rewrite Hp in Hsat. apply sat_app in Hsat. inversion Hsat as [|x xs Hx _]. subst.
             unfold holds in Hx. cbn in Hx. apply Z.eqb_neq. exact Hx. }
           destruct (Htrue Hc Eearly) as [s1 [s2 [Hs1 [Hs2 [_ [_ HR2]]]]]].
           destruct (IH _ s2 (HR2 _ _) l Hin Hsat) as [n Hn].
           exists (S (S n)). rewrite exec_S, (step_irrel lim se rho _ rs0 sg s HR) by (rewrite Es; reflexivity).
           rewrite Hs1, exec_S, Hs2. exact Hn.
        -- destruct (d_follow_false d) eqn:Eff; [|destruct Hin].
           pose proof (sexec_path_extends _ _ _ Hin) as [pre Hp]. cbn [ss_path] in Hp.
           assert (Hc : eval rho c = 0).
           { rewrite Hp in Hsat. apply sat_app in Hsat. inversion Hsat as [|x xs Hx _]. subst.
             unfold holds in Hx. cbn in Hx. apply Z.eqb_eq. exact Hx. }
           destruct (Hfalse Hc) as [s' [Hs' HR']].
           destruct (IH _ s' (HR' _ _) l Hin Hsat) as [n Hn].
           exists (S n). rewrite exec_S, (step_irrel lim se rho _ rs0 sg s HR) by (rewrite Es; reflexivity).
           rewrite Hs'. exact Hn.
Qed.

(* the only hypothesis ever made about the solver: an `unsat` answer is truthful *)
Definition oracle_sound : Prop :=
  forall p c b, oracle p c b = R_UNSAT -> sat p -> ~ holds (c, b).

(* C02 for the mini-SEVM: under a sound oracle -- which may answer unknown / time out at
   will -- every valuation satisfying the current path satisfies the path of some reported
   leaf, unless the bounded-loop log was written. *)
Theorem sexec_complete : oracle_sound -> forall fuel sg,
  sat (ss_path sg) ->
  snd (sexec lim se oracle loop fuel sg) = true \/
  exists l, In l (fst (sexec lim se oracle loop fuel sg)) /\ sat (l_path l).
Proof.
  intros Hor. induction fuel as [|f IH]; intros sg Hsat; cbn [sexec].
  - right. eexists; split; [left; reflexivity | exact Hsat].
  - destruct (sstep lim se sg) as [sg'|k|c t rest] eqn:Es.
    + apply IH. rewrite (sstep_next_path _ _ Es). exact Hsat.
    + right. eexists; split; [left; reflexivity | exact Hsat].
    + destruct (visits_of (jumpid se sg) (ss_visits sg)) as [vt vf].
      set (ct := oracle (ss_path sg) c true). set (cf := oracle (ss_path sg) c false).
      set (d := jumpi_decide ct cf vt vf loop).
      destruct (d_follow_true d && negb (is_jumpdest (se_code se) t)) eqn:Eearly.
      * cbn [fst snd]. apply andb_true_iff in Eearly. destruct Eearly as [Eft _].
        destruct (Z.eq_dec (eval rho c) 0) as [Hc|Hc].
        -- assert (Hcf : cf <> R_UNSAT).
           { intro Hu. apply (Hor _ _ _ Hu Hsat). unfold holds. cbn. apply Z.eqb_eq. exact Hc. }
           destruct (cover_false ct cf vt vf loop Hcf) as [Hf|Hl]; fold d in Hf || fold d in Hl.
           ++ pose proof (both_followed_symbolic ct cf vt vf loop Eft Hf) as Hsym. fold d in Hsym.
              rewrite Hf, Hsym. cbn [andb].
              match goal with |- context [sexec lim se oracle loop f ?st] =>
                match st with context [(c, false)] => destruct (IH st) as [Hlog|[l [Hin Hs]]] end end.
              ** constructor; [unfold holds; cbn; apply Z.eqb_eq; exact Hc | exact Hsat].
              ** left. rewrite Hlog. rewrite !orb_true_r. reflexivity.
              ** right. exists l. split; [right; exact Hin | exact Hs].
           ++ left. rewrite Hl. reflexivity.
        -- right. eexists; split; [left; reflexivity|]. cbn [l_path].
           constructor; [unfold holds; cbn; apply Z.eqb_neq; exact Hc | exact Hsat].
      * cbn [fst snd].
        destruct (Z.eq_dec (eval rho c) 0) as [Hc|Hc].
        -- (* the fall-through side is the one rho takes *)
           assert (Hcf : cf <> R_UNSAT).
           { intro Hu. apply (Hor _ _ _ Hu Hsat). unfold holds. cbn. apply Z.eqb_eq. exact Hc. }
           destruct (cover_false ct cf vt vf loop Hcf) as [Hf|Hl]; fold d in Hf || fold d in Hl.
           ++ rewrite Hf.
              match goal with |- context [sexec lim se oracle loop f ?st] =>
                match st with context [(c, false)] => destruct (IH st) as [Hlog|[l [Hin Hs]]] end end.
              ** constructor; [unfold holds; cbn; apply Z.eqb_eq; exact Hc | exact Hsat].
              ** left. rewrite Hlog. rewrite !orb_true_r. reflexivity.
              ** right. exists l. split; [apply in_or_app; right; exact Hin | exact Hs].
           ++ left. rewrite Hl. reflexivity.
        -- assert (Hct : ct <> R_UNSAT).
           { intro Hu. apply (Hor _ _ _ Hu Hsat). unfold holds. cbn. apply Z.eqb_neq. exact Hc. }
           destruct (cover_true ct cf vt vf loop Hct) as [Hf|Hl]; fold d in Hf || fold d in Hl.
           ++ rewrite Hf.
              match goal with |- context [sexec lim se oracle loop f ?st] =>
                match st with context [(c, true)] => destruct (IH st) as [Hlog|[l [Hin Hs]]] end end.
              ** constructor; [unfold holds; cbn; apply Z.eqb_neq; exact Hc | exact Hsat].
              ** left. rewrite Hlog. rewrite orb_true_r. reflexivity.
              ** right. exists l. split; [apply in_or_app; left; exact Hin | exact Hs].
           ++ left. rewrite Hl. reflexivity.
Qed.

(* the initial symbolic state describes any concrete initial state whose storage of [this]
   is empty and whose balances are the ones rho assigns *)
Lemma R_init : forall w ctr,
  (forall k, sload_of (w_storage w) (se_this se) k = 0) ->
  (forall k, sload_of (w_transient w) (se_this se) k = 0) ->
  (forall a, get_balance w a = eval rho (sbal se a)) ->
  R init_sstate (init_state w ctr).
Proof.
  intros w ctr H1 H2 H3. constructor; cbn; auto; try lia.
Qed.

(* soundness + completeness together: with no loop-bound log and a sound oracle, every
   valuation of the inputs is covered by a leaf that describes what the reference
   interpreter does (or is explicitly stuck / out of fuel) *)
Corollary sexec_total : oracle_sound -> forall fuel sg s,
  R sg s -> sat (ss_path sg) ->
  snd (sexec lim se oracle loop fuel sg) = false ->
  exists l n, In l (fst (sexec lim se oracle loop fuel sg)) /\ sat (l_path l) /\
              outcome_matches (l_kind l) (exec lim n inst_env s).
Proof.
  intros Hor fuel sg s HR Hsat Hlog.
  destruct (sexec_complete Hor fuel sg Hsat) as [H|[l [Hin Hs]]]; [congruence|].
  destruct (sexec_sound fuel sg s HR l Hin Hs) as [n Hn].
  exists l, n. auto.
Qed.

End Explore.
