(* Proofs about Model/BitVecModel.v: every opcode arm of the dispatch layer denotes the EVM
   result (Base/Word.v) for all operand values, valuations and operand representations. *)
From Coq Require Import ZArith Zpow_facts Lia ZifyBool List Bool.
From HV Require Import Base.Word Base.SmtBV Model.PyInt Model.WordOpsIR Gen.GenBitvecGuards Gen.GenWordOps Model.BitVecModel.
Import ListNotations.
Open Scope Z_scope.

Ltac Zify.zify_post_hook ::= Z.to_euclidean_division_equations.

(* ------------------------------------------------------------------ basics *)
Lemma pow2_pos n : 0 <= n -> 0 < 2 ^ n.
Proof. intros; apply Z.pow_pos_nonneg; lia. Qed.

Lemma mask_mod n v : 0 <= n -> py_mask n v = v mod 2 ^ n.
Proof. intros; unfold py_mask; apply Z.land_ones; assumption. Qed.

Lemma W_eq : W = 2 ^ 256.
Proof. reflexivity. Qed.

Definition bvwf ev eb (n : Z) (a : bv) : Prop := 0 <= bv_den ev eb a < 2 ^ n.
Definition wf ev eb (v : val) : Prop :=
  match v with VBV x => bvwf ev eb 256 x | VBool _ => True end.

Section WithEnv.
  Variable ev : Z -> Z.
  Variable eb : Z -> bool.
  Notation den := (bv_den ev eb).
  Notation bden := (bl_den ev eb).
  Notation dn := (denote ev eb).
  Notation wfn := (bvwf ev eb).

  Lemma z3_of_den n a : wfn n a -> eval ev eb (z3_of n a) = den a.
  Proof.
    unfold bvwf; destruct a as [v|t]; cbn [z3_of eval bv_den]; intros H; [|reflexivity].
    unfold bvmod; apply Z.mod_small; assumption.
  Qed.

  Lemma mk_int_den n v : 0 <= n -> den (mk_int n v) = v mod 2 ^ n.
  Proof. intros; cbn [mk_int bv_den]; apply mask_mod; assumption. Qed.

  Lemma mk_int_small n v : 0 <= n -> 0 <= v < 2 ^ n -> mk_int n v = Cv v.
  Proof. intros; unfold mk_int; rewrite mask_mod by assumption; rewrite Z.mod_small; auto. Qed.

  (* ---------------------------------------------------------------- add / sub *)
  Lemma bv_add_den n a b : 0 <= n -> wfn n a -> wfn n b ->
    den (bv_add n a b) = (den a + den b) mod 2 ^ n.
  Proof.
    intros Hn Ha Hb.
    destruct a as [x|t], b as [y|u]; cbn [bv_add]; unfold r_add_1; try (apply mk_int_den; assumption);
      cbn [bv_den eval binop_eval]; rewrite !z3_of_den by assumption; reflexivity.
  Qed.

  Lemma bv_sub_den n a b : 0 <= n -> wfn n a -> wfn n b ->
    den (bv_sub n a b) = (den a - den b) mod 2 ^ n.
  Proof.
    intros Hn Ha Hb.
    destruct a as [x|t], b as [y|u]; cbn [bv_sub]; unfold r_sub_1; try (apply mk_int_den; assumption);
      cbn [bv_den eval binop_eval]; rewrite !z3_of_den by assumption; reflexivity.
  Qed.

  (* ---------------------------------------------------------------- popi *)
  Lemma b2w_range b : 0 <= b2w b < 2 ^ 256.
  Proof. destruct b; unfold b2w; split; first [lia | reflexivity]. Qed.

  Lemma popi_den v : den (popi v) = dn v.
  Proof.
    destruct v as [x|[[|]|c]]; cbn [popi denote bl_as_bv bv_den bl_den]; reflexivity.
  Qed.

  Lemma popi_wf v : wf ev eb v -> wfn 256 (popi v).
  Proof.
    intros H. unfold bvwf. rewrite popi_den.
    destruct v as [x|b]; cbn [denote]; [exact H | apply b2w_range].
  Qed.

  (* ---------------------------------------------------------------- comparisons *)
  Lemma to_signed_gen n x : 0 < n -> 0 <= x < 2 ^ n ->
    GenBitvecGuards.to_signed x n = bvsigned n x.
  Proof.
    intros Hn Hx. unfold GenBitvecGuards.to_signed, bvsigned. cbv zeta.
    rewrite !Z.shiftl_1_l.
    assert (Hp : 2 ^ n = 2 * 2 ^ (n - 1)).
    { replace n with (Z.succ (n - 1)) at 1 by lia. apply Z.pow_succ_r; lia. }
    assert (Hq : 0 < 2 ^ (n - 1)) by (apply pow2_pos; lia).
    assert (Hb : Z.land x (2 ^ (n - 1)) = if Z.testbit x (n - 1) then 2 ^ (n - 1) else 0).
    { apply Z.bits_inj'; intros m Hm. rewrite Z.land_spec, Z.pow2_bits_eqb by lia.
      destruct (Z.eqb_spec (n - 1) m) as [->|Hne].
      - destruct (Z.testbit x m) eqn:E; [rewrite Z.pow2_bits_true by lia; reflexivity|].
        rewrite Z.bits_0; reflexivity.
      - rewrite andb_false_r. destruct (Z.testbit x (n - 1)); [|rewrite Z.bits_0; reflexivity].
        rewrite Z.pow2_bits_false by lia; reflexivity. }
    rewrite Hb.
    assert (Ht : Z.testbit x (n - 1) = negb (x <? 2 ^ (n - 1))).
    { rewrite Z.testbit_eqb by lia.
      assert (x / 2 ^ (n - 1) = if x <? 2 ^ (n - 1) then 0 else 1).
      { destruct (Z.ltb_spec x (2 ^ (n - 1))).
        - apply Z.div_small; lia.
        - symmetry; apply (Z.div_unique _ _ 1 (x - 2 ^ (n - 1))); lia. }
      rewrite H. destruct (x <? 2 ^ (n - 1)); reflexivity. }
    rewrite Ht. destruct (Z.ltb_spec x (2 ^ (n - 1))); cbn [negb].
    - reflexivity.
    - destruct (Z.eqb_spec (2 ^ (n - 1)) 0); [lia | reflexivity].
  Qed.

  Lemma signed_256 x : bvsigned 256 x = Word.to_signed x.
  Proof. reflexivity. Qed.

  Lemma bv_cmp_den o f n a b : wfn n a -> wfn n b ->
    (forall x y, f x y = cmp_eval o n x y) ->
    bden (bv_cmp o f n a b) = cmp_eval o n (den a) (den b).
  Proof.
    intros Ha Hb Hf.
    destruct a as [x|t], b as [y|u]; cbn [bv_cmp bl_den beval bv_den]; try apply Hf;
      rewrite ?z3_of_den by assumption; reflexivity.
  Qed.

  Lemma bv_ult_den n a b : wfn n a -> wfn n b -> bden (bv_ult n a b) = (den a <? den b).
  Proof.
    intros; unfold bv_ult; rewrite bv_cmp_den; auto.
  Qed.
  Lemma bv_ugt_den n a b : wfn n a -> wfn n b -> bden (bv_ugt n a b) = (den b <? den a).
  Proof.
    intros; unfold bv_ugt; rewrite bv_cmp_den; auto.
  Qed.
  Lemma bv_ule_den n a b : wfn n a -> wfn n b -> bden (bv_ule n a b) = (den a <=? den b).
  Proof.
    intros; unfold bv_ule; rewrite bv_cmp_den; auto.
  Qed.
  Lemma bv_uge_den n a b : wfn n a -> wfn n b -> bden (bv_uge n a b) = (den b <=? den a).
  Proof.
    intros; unfold bv_uge; rewrite bv_cmp_den; auto.
  Qed.

  Lemma bv_slt_den n a b : 0 < n -> wfn n a -> wfn n b ->
    bden (bv_slt n a b) = (bvsigned n (den a) <? bvsigned n (den b)).
  Proof.
    intros Hn Ha Hb. destruct a as [x|t], b as [y|u]; cbn [bv_slt bv_cmp bl_den beval bv_den cmp_eval];
      rewrite ?z3_of_den by assumption; try reflexivity.
    unfold bvwf in *; cbn [bv_den] in *. rewrite !to_signed_gen by assumption. reflexivity.
  Qed.
  Lemma bv_sgt_den n a b : 0 < n -> wfn n a -> wfn n b ->
    bden (bv_sgt n a b) = (bvsigned n (den b) <? bvsigned n (den a)).
  Proof.
    intros Hn Ha Hb. destruct a as [x|t], b as [y|u]; cbn [bv_sgt bv_cmp bl_den beval bv_den cmp_eval];
      rewrite ?z3_of_den by assumption; try reflexivity.
    unfold bvwf in *; cbn [bv_den] in *. rewrite !to_signed_gen by assumption.
    reflexivity.
  Qed.

  Lemma bv_eq_den n a b : wfn n a -> wfn n b -> bden (bv_eq n a b) = (den a =? den b).
  Proof.
    intros Ha Hb. destruct a as [x|t], b as [y|u]; cbn [bv_eq bl_den beval bv_den];
      rewrite ?z3_of_den by assumption; reflexivity.
  Qed.

  Lemma bv_is_zero_den n a : 0 <= n -> bden (bv_is_zero n a) = (den a =? 0).
  Proof.
    intros Hn. destruct a as [x|t]; cbn [bv_is_zero bl_den beval bv_den eval]; [reflexivity|].
    unfold bvmod. rewrite Z.mod_0_l; [reflexivity|]. pose proof (pow2_pos n Hn); lia.
  Qed.

  Lemma bl_is_zero_den a : bden (bl_is_zero a) = negb (bden a).
  Proof. destruct a as [[|]|c]; reflexivity. Qed.

  Lemma bl_z3_den a : beval ev eb (bl_z3 a) = bden a.
  Proof. destruct a; reflexivity. Qed.

  Lemma bl_and_den a b : bden (bl_and a b) = bden a && bden b.
  Proof.
    destruct a as [[|]|c], b as [[|]|d]; cbn [bl_and bl_den beval bl_z3];
      rewrite ?andb_true_r, ?andb_false_r; reflexivity.
  Qed.
  Lemma bl_or_den a b : bden (bl_or a b) = bden a || bden b.
  Proof.
    destruct a as [[|]|c], b as [[|]|d]; cbn [bl_or bl_den beval bl_z3];
      rewrite ?orb_true_r, ?orb_false_r; reflexivity.
  Qed.
  Lemma bl_xor_den a b : bden (bl_xor a b) = xorb (bden a) (bden b).
  Proof.
    destruct a as [[|]|c], b as [[|]|d]; cbn [bl_xor bl_not bl_is_zero bl_den beval bl_z3];
      rewrite ?xorb_true_r, ?xorb_false_r, ?xorb_true_l, ?xorb_false_l; reflexivity.
  Qed.
  Lemma bl_eq_den a b : bden (bl_eq a b) = Bool.eqb (bden a) (bden b).
  Proof.
    destruct a as [x|c], b as [y|d]; cbn [bl_eq bl_den beval bl_z3]; reflexivity.
  Qed.

  (* ---------------------------------------------------------------- bitwise *)
  Ltac bits :=
    apply Z.bits_inj'; intros ?m ?Hm;
    rewrite ?Z.land_spec, ?Z.lor_spec, ?Z.lxor_spec, ?Z.land_spec;
    repeat match goal with |- context [Z.testbit ?a ?m] => destruct (Z.testbit a m) end; reflexivity.

  Lemma mask_id n x : 0 <= n -> 0 <= x < 2 ^ n -> py_mask n x = x.
  Proof. intros; rewrite mask_mod by assumption; apply Z.mod_small; assumption. Qed.

  Lemma mask_land n x y : py_mask n (Z.land x y) = Z.land (py_mask n x) (py_mask n y).
  Proof. unfold py_mask. bits. Qed.
  Lemma mask_lor n x y : py_mask n (Z.lor x y) = Z.lor (py_mask n x) (py_mask n y).
  Proof. unfold py_mask. bits. Qed.
  Lemma mask_lxor n x y : py_mask n (Z.lxor x y) = Z.lxor (py_mask n x) (py_mask n y).
  Proof. unfold py_mask. bits. Qed.

  Lemma bv_bitop_den o f n a b : 0 <= n -> wfn n a -> wfn n b ->
    (forall x y, py_mask n (f x y) = f (py_mask n x) (py_mask n y)) ->
    (forall x y, binop_eval o n x y = f x y) ->
    den (bv_bitop o f n a b) = f (den a) (den b).
  Proof.
    intros Hn Ha Hb Hm Hf.
    destruct a as [x|t], b as [y|u]; cbn [bv_bitop bv_den eval mk_int];
      rewrite ?Hf, ?z3_of_den by assumption; try reflexivity.
    unfold bvwf in *; cbn [bv_den] in *. rewrite Hm, !mask_id by assumption. reflexivity.
  Qed.

  Lemma bv_and_den n a b : 0 <= n -> wfn n a -> wfn n b -> den (bv_and n a b) = Z.land (den a) (den b).
  Proof. intros; apply (bv_bitop_den And (fun x y => r_bitwise_and_1 y x)); auto; intros; unfold r_bitwise_and_1; first [apply mask_land|reflexivity]. Qed.
  Lemma bv_or_den n a b : 0 <= n -> wfn n a -> wfn n b -> den (bv_or n a b) = Z.lor (den a) (den b).
  Proof. intros; apply (bv_bitop_den Or (fun x y => r_bitwise_or_1 y x)); auto; intros; unfold r_bitwise_or_1; first [apply mask_lor|reflexivity]. Qed.
  Lemma bv_xor_den n a b : 0 <= n -> wfn n a -> wfn n b -> den (bv_xor n a b) = Z.lxor (den a) (den b).
  Proof. intros; apply (bv_bitop_den Xor (fun x y => r_bitwise_xor_1 y x)); auto; intros; unfold r_bitwise_xor_1; first [apply mask_lxor|reflexivity]. Qed.

  Lemma mod_shift P z k : 0 < P -> 0 <= z + k * P < P -> z mod P = z + k * P.
  Proof. intros HP H. symmetry. apply (Z.mod_unique z P (- k)); lia. Qed.

  Lemma bv_not_den n a : 0 <= n -> wfn n a -> den (bv_not n a) = 2 ^ n - 1 - den a.
  Proof.
    intros Hn Ha. pose proof (pow2_pos n Hn) as HP.
    destruct a as [x|t]; cbn [bv_not bv_den eval mk_int]; [|reflexivity].
    unfold bvwf in Ha; cbn [bv_den] in Ha.
    unfold r_bitwise_not_1. rewrite Z.shiftl_1_l.
    assert (E : Z.land (- x - 1) (2 ^ n - 1) = (- x - 1) mod 2 ^ n).
    { rewrite <- Z.land_ones by lia. f_equal. rewrite Z.ones_equiv. lia. }
    rewrite E. fold (py_mask n ((- x - 1) mod 2 ^ n)).
    rewrite mask_mod, Z.mod_mod by lia.
    rewrite (mod_shift (2 ^ n) (- x - 1) 1); lia.
  Qed.

  (* ---------------------------------------------------------------- shifts *)
  Lemma n_lt_pow2 n : 0 <= n -> n < 2 ^ n.
  Proof. intros; apply Z.pow_gt_lin_r; lia. Qed.

  Lemma bv_lshl_den n a s : 0 < n -> wfn n a -> wfn n s ->
    den (bv_lshl n a s) = if den s <? n then (den a * 2 ^ den s) mod 2 ^ n else 0.
  Proof.
    intros Hn Ha Hs. pose proof (pow2_pos n ltac:(lia)) as HP.
    unfold bvwf in *.
    destruct s as [k|st]; cbn [bv_lshl bv_den] in *.
    - unfold g_lshl_1.
      destruct (Z.eqb_spec k 0) as [->|Hk0].
      { destruct (Z.ltb_spec 0 n); [|lia]. rewrite Z.pow_0_r, Z.mul_1_r, Z.mod_small; auto. }
      assert (Hbig : n <= k -> (den a * 2 ^ k) mod 2 ^ n = 0).
      { intros Hge. replace k with (n + (k - n)) by lia. rewrite Z.pow_add_r by lia.
        replace (den a * (2 ^ n * 2 ^ (k - n))) with (den a * 2 ^ (k - n) * 2 ^ n) by ring.
        apply Z.mod_mul. lia. }
      destruct (g_lshl_2 k n) eqn:G.
      { (* the guard only fires for shifts of at least the size *)
        unfold g_lshl_2 in G. destruct (Z.ltb_spec k n); [lia|]. rewrite mk_int_den by lia. apply Z.mod_0_l; lia. }
      destruct a as [x|t]; cbn [bv_den eval binop_eval].
      + unfold r_lshl_1. rewrite mk_int_den by lia. rewrite Z.shiftl_mul_pow2 by lia.
        destruct (Z.ltb_spec k n); [reflexivity|]. apply (Hbig ltac:(lia)).
      + unfold bvshl, bvmod. rewrite (Z.mod_small k) by lia. reflexivity.
    - cbn [eval binop_eval]. rewrite z3_of_den by assumption. reflexivity.
  Qed.

  Lemma py_shr_div x k : 0 <= x -> 0 <= k -> py_shr x k = x / 2 ^ k.
  Proof.
    intros Hx Hk. unfold py_shr. destruct (Z.ltb_spec (Z.log2 x) k).
    - symmetry. apply Z.div_small. split; [assumption|].
      destruct (Z.eq_dec x 0) as [->|]; [apply pow2_pos; lia|].
      apply Z.log2_lt_pow2; lia.
    - apply Z.shiftr_div_pow2; assumption.
  Qed.

  Lemma div_pow2_small x k n : 0 <= x < 2 ^ n -> n <= k -> x / 2 ^ k = 0.
  Proof.
    intros Hx Hk. apply Z.div_small. split; [lia|].
    assert (2 ^ n <= 2 ^ k) by (apply Z.pow_le_mono_r; lia). lia.
  Qed.

  Lemma div_pow2_range x k n : 0 <= n -> 0 <= x < 2 ^ n -> 0 <= k -> 0 <= x / 2 ^ k < 2 ^ n.
  Proof.
    intros Hn Hx Hk. pose proof (pow2_pos k Hk). split.
    - apply Z.div_pos; lia.
    - apply Z.le_lt_trans with x; [|lia]. apply Z.div_le_upper_bound; [lia|]. nia.
  Qed.

  Lemma bv_lshr_den n a s : 0 < n -> wfn n a -> wfn n s ->
    den (bv_lshr n a s) = if den s <? n then den a / 2 ^ den s else 0.
  Proof.
    intros Hn Ha Hs. pose proof (pow2_pos n ltac:(lia)) as HP.
    unfold bvwf in *.
    destruct s as [k|st]; cbn [bv_lshr bv_den] in *.
    - unfold g_lshr_1.
      destruct (Z.eqb_spec k 0) as [->|Hk0].
      { destruct (Z.ltb_spec 0 n); [|lia]. rewrite Z.pow_0_r, Z.div_1_r; auto. }
      destruct a as [x|t]; cbn [bv_den eval binop_eval] in *.
      + unfold r_lshr_1. rewrite mk_int_den, py_shr_div by lia.
        rewrite Z.mod_small by (apply div_pow2_range; lia).
        destruct (Z.ltb_spec k n); [reflexivity|]. apply (div_pow2_small x k n); lia.
      + destruct (g_lshr_2 k n) eqn:G.
        { (* the guard only fires for shifts of at least the size *)
          unfold g_lshr_2 in G. destruct (Z.ltb_spec k n); [lia|]. rewrite mk_int_den by lia. apply Z.mod_0_l; lia. }
        cbn [bv_den eval binop_eval]. unfold bvlshr, bvmod. rewrite (Z.mod_small k) by lia. reflexivity.
    - cbn [eval binop_eval]. rewrite z3_of_den by assumption. reflexivity.
  Qed.

  Lemma signed_mod n x : 0 < n -> 0 <= x < 2 ^ n -> bvsigned n x mod 2 ^ n = x.
  Proof.
    intros Hn Hx. unfold bvsigned. destruct (x <? 2 ^ (n - 1)).
    - apply Z.mod_small; assumption.
    - rewrite (mod_shift (2 ^ n) (x - 2 ^ n) 1); lia.
  Qed.

  Lemma bv_ashr_den n a s : 0 < n -> wfn n a -> wfn n s ->
    den (bv_ashr n a s) = bvashr n (den a) (den s).
  Proof.
    intros Hn Ha Hs. unfold bvwf in *.
    destruct s as [k|st]; cbn [bv_ashr bv_den] in *.
    - unfold g_ashr_1. destruct (Z.eqb_spec k 0) as [->|Hk0].
      { unfold bvashr. destruct (Z.ltb_spec 0 n); [|lia].
        rewrite Z.pow_0_r, Z.div_1_r. unfold bvmod. symmetry; apply signed_mod; assumption. }
      destruct a as [x|t]; cbn [bv_den eval binop_eval]; [reflexivity|].
      unfold bvmod. rewrite (Z.mod_small k) by lia. reflexivity.
    - cbn [eval binop_eval]. rewrite z3_of_den by assumption. reflexivity.
  Qed.

  Lemma bvashr_evm s x : 0 <= x < 2 ^ 256 -> bvashr 256 x s = evm_sar s x.
  Proof.
    intros Hx. unfold bvashr, evm_sar, wrap, bvmod, msb. rewrite signed_256.
    destruct (s <? 256); [reflexivity|].
    unfold Word.to_signed. change W2 with (2 ^ 255). change (2 ^ (256 - 1)) with (2 ^ 255).
    change W with (2 ^ 256).
    destruct (Z.leb_spec (2 ^ 255) x), (Z.ltb_spec x (2 ^ 255)); try lia.
    - destruct (Z.ltb_spec (x - 2 ^ 256) 0); [reflexivity|lia].
    - destruct (Z.ltb_spec x 0); [lia|reflexivity].
  Qed.

  (* ---------------------------------------------------------------- byte *)
  Lemma resize_up_den n n2 a : 0 <= n -> n < n2 -> wfn n a ->
    den (bv_resize n n2 a) = den a.
  Proof.
    intros Hn Hlt Ha. unfold bv_resize, bvwf in *.
    destruct (Z.eqb_spec n2 n); [lia|].
    assert (2 ^ n <= 2 ^ n2) by (apply Z.pow_le_mono_r; lia).
    destruct a as [x|t]; cbn [bv_den] in *.
    - rewrite mk_int_den by lia. apply Z.mod_small; lia.
    - destruct (Z.ltb_spec n2 n); [lia|]. cbn [bv_den eval]. unfold bvconcat, bvmod.
      rewrite Z.mod_0_l; [lia|]. pose proof (pow2_pos (n2 - n)); lia.
  Qed.

  Lemma resize_down_den n n2 a : 0 <= n -> n < n2 -> 0 <= den a < 2 ^ n ->
    den (bv_resize n2 n a) = den a.
  Proof.
    intros Hn Hlt Ha. unfold bv_resize.
    destruct (Z.eqb_spec n n2); [lia|].
    destruct a as [x|t]; cbn [bv_den] in *.
    - rewrite mk_int_den by lia. apply Z.mod_small; lia.
    - destruct (Z.ltb_spec n n2); [|lia]. cbn [bv_den eval]. unfold bvextract.
      rewrite Z.pow_0_r, Z.div_1_r. replace (n - 1 - 0 + 1) with n by lia. apply Z.mod_small; lia.
  Qed.

  Lemma bv_byte256_den a idx : wfn 256 a -> 0 <= idx ->
    den (bv_byte 256 a idx 256) = evm_byte idx (den a).
  Proof.
    intros Ha Hi. unfold bv_byte, evm_byte, g_byte_1.
    change (e_byte_byte_length 256) with 32.
    destruct (Z.leb_spec 32 idx) as [Hge|Hlt].
    { destruct (Z.ltb_spec idx 32); [lia|]. reflexivity. }
    destruct (Z.ltb_spec idx 32); [|lia].
    assert (H8 : 0 <= (den a / 2 ^ (8 * (31 - idx))) mod 256 < 2 ^ 256).
    { pose proof (Z.mod_pos_bound (den a / 2 ^ (8 * (31 - idx))) 256 ltac:(lia)).
      assert (256 < 2 ^ 256) by reflexivity. lia. }
    destruct a as [x|t]; cbn [bv_den] in *.
    - rewrite mk_int_den by lia. unfold py_byte_at.
      replace (8 * (32 - 1 - idx)) with (8 * (31 - idx)) by lia.
      apply Z.mod_small; assumption.
    - unfold e_byte_lo, e_byte_hi.
      rewrite resize_up_den; try lia.
      + cbn [bv_den eval]. unfold bvextract.
        replace ((32 - 1 - idx) * 8 + 7 - (32 - 1 - idx) * 8 + 1) with 8 by lia.
        replace ((32 - 1 - idx) * 8) with (8 * (31 - idx)) by lia. reflexivity.
      + unfold bvwf. cbn [bv_den eval]. unfold bvextract.
        replace ((32 - 1 - idx) * 8 + 7 - (32 - 1 - idx) * 8 + 1) with 8 by lia.
        apply Z.mod_pos_bound. reflexivity.
  Qed.

  Lemma nested_ite_den k : forall c idx w, 0 <= c -> c + Z.of_nat k = 32 ->
    0 <= eval ev eb idx ->
    eval ev eb (nested_ite k c idx w) =
      if (c <=? eval ev eb idx) && (eval ev eb idx <? 32)
      then (eval ev eb w / 2 ^ (8 * (31 - eval ev eb idx))) mod 256 else 0.
  Proof.
    induction k as [|k IH]; intros c idx w Hc Hk Hi; cbn [nested_ite];
      [change (eval ev eb (TConst 8 0)) with 0
      |change (eval ev eb (TIte (BEq idx (TConst 256 c)) (TExtract ((31 - c) * 8 + 7) ((31 - c) * 8) w) (nested_ite k (c + 1) idx w)))
         with (if eval ev eb idx =? bvmod 256 c then bvextract ((31 - c) * 8 + 7) ((31 - c) * 8) (eval ev eb w)
               else eval ev eb (nested_ite k (c + 1) idx w))].
    - destruct (Z.leb_spec c (eval ev eb idx)), (Z.ltb_spec (eval ev eb idx) 32); cbn [andb]; try reflexivity; lia.
    - assert (Hcm : bvmod 256 c = c).
      { unfold bvmod. apply Z.mod_small. split; [lia|]. assert (32 < 2 ^ 256) by reflexivity. lia. }
      rewrite Hcm. destruct (Z.eqb_spec (eval ev eb idx) c) as [->|Hne].
      + destruct (Z.leb_spec c c), (Z.ltb_spec c 32); cbn [andb]; try lia.
        unfold bvextract. replace ((31 - c) * 8 + 7 - (31 - c) * 8 + 1) with 8 by lia.
        replace ((31 - c) * 8) with (8 * (31 - c)) by lia. reflexivity.
      + rewrite IH by lia.
        destruct (Z.leb_spec (c + 1) (eval ev eb idx)), (Z.leb_spec c (eval ev eb idx)); cbn [andb]; try reflexivity; lia.
  Qed.

  Lemma sym_byte_den idx w : 0 <= eval ev eb idx ->
    eval ev eb (sym_byte_of idx w) = evm_byte (eval ev eb idx) (eval ev eb w).
  Proof.
    intros Hi. unfold sym_byte_of. cbn [eval]. unfold bvzext.
    rewrite (nested_ite_den 32 0) by (try lia; reflexivity).
    unfold evm_byte. destruct (Z.leb_spec 0 (eval ev eb idx)); [|lia]. reflexivity.
  Qed.

  (* ---------------------------------------------------------------- signextend *)
  Lemma bv_signextend_den a size : wfn 256 a -> 0 <= size ->
    den (bv_signextend a size) = evm_signextend size (den a).
  Proof.
    intros Ha Hs. unfold bv_signextend, evm_signextend, g_signextend_1, e_signextend_bl.
    destruct (Z.leb_spec 31 size) as [Hge|Hlt].
    { destruct (Z.ltb_spec size 31); [lia|reflexivity]. }
    destruct (Z.ltb_spec size 31); [|lia].
    assert (E : forall X, bvsext ((size + 1) * 8) (256 - (size + 1) * 8) (bvextract ((size + 1) * 8 - 1) 0 X)
                 = (let n := 8 * (size + 1) in let low := X mod 2 ^ n in
                    if low <? 2 ^ (n - 1) then low else low + (W - 2 ^ n))).
    { intros X. cbv zeta. unfold bvsext, bvextract, msb.
      rewrite Z.pow_0_r, Z.div_1_r.
      replace ((size + 1) * 8 - 1 - 0 + 1) with (8 * (size + 1)) by lia.
      replace ((size + 1) * 8 + (256 - (size + 1) * 8)) with 256 by lia.
      replace ((size + 1) * 8) with (8 * (size + 1)) by lia.
      change W with (2 ^ 256).
      destruct (Z.leb_spec (2 ^ (8 * (size + 1) - 1)) (X mod 2 ^ (8 * (size + 1)))),
               (Z.ltb_spec (X mod 2 ^ (8 * (size + 1))) (2 ^ (8 * (size + 1) - 1))); try lia; reflexivity. }
    destruct a as [x|t]; cbn [bv_den eval]; apply E.
  Qed.

  (* ---------------------------------------------------------------- powers of two *)
  Lemma pow2_char x : is_power_of_two x = true -> 0 < x /\ x = 2 ^ Z.log2 x.
  Proof.
    unfold is_power_of_two. intros H.
    apply andb_true_iff in H. destruct H as [Hpos Hand].
    assert (Hx : 0 < x) by lia. split; [assumption|].
    rewrite negb_involutive in Hand. apply Z.eqb_eq in Hand.
    pose proof (Z.log2_spec x Hx) as [Hlo Hhi].
    pose proof (Z.log2_nonneg x) as Hl.
    destruct (Z.eq_dec x (2 ^ Z.log2 x)) as [|Hne]; [assumption|exfalso].
    (* both x and x - 1 have bit log2 x set *)
    assert (Hb1 : Z.testbit x (Z.log2 x) = true) by (apply Z.bit_log2; assumption).
    assert (Hl2 : Z.log2 (x - 1) = Z.log2 x).
    { apply Z.log2_unique; [assumption|]. rewrite Z.pow_succ_r in * by assumption. lia. }
    assert (Hb2 : Z.testbit (x - 1) (Z.log2 x) = true).
    { rewrite <- Hl2. apply Z.bit_log2. pose proof (pow2_pos (Z.log2 x) Hl). lia. }
    assert (Hb : Z.testbit (Z.land x (x - 1)) (Z.log2 x) = true) by (rewrite Z.land_spec, Hb1, Hb2; reflexivity).
    rewrite Hand, Z.bits_0 in Hb. discriminate.
  Qed.

  Lemma bit_length_log2 x : 0 < x -> bit_length x - 1 = Z.log2 x.
  Proof. intros; unfold bit_length. destruct (Z.eqb_spec x 0); lia. Qed.

  Lemma log2_shift_wf n x : 0 < n -> 0 < x < 2 ^ n -> mk_int n (Z.log2 x) = Cv (Z.log2 x) /\ 0 <= Z.log2 x < n.
  Proof.
    intros Hn Hx. assert (Z.log2 x < n) by (apply Z.log2_lt_pow2; lia).
    pose proof (Z.log2_nonneg x). pose proof (n_lt_pow2 n ltac:(lia)).
    split; [apply mk_int_small; lia | lia].
  Qed.

  (* ---------------------------------------------------------------- mul *)
  Definition abs_is (f : uf) (abs : option uf) : Prop := abs = Some f \/ abs = None.

  Lemma bv_mul_den n abs a b : abs_is Fmul abs -> 0 < n -> wfn n a -> wfn n b ->
    den (bv_mul n abs a b) = (den a * den b) mod 2 ^ n.
  Proof.
    intros Habs Hn Ha Hb. pose proof (pow2_pos n ltac:(lia)) as HP.
    assert (Hsh : forall (c : bv) x, wfn n c -> 0 <= x < 2 ^ n -> is_power_of_two x = true ->
              den (bv_lshl n c (mk_int n (bit_length x - 1))) = (den c * x) mod 2 ^ n).
    { intros c x Hc Hx Hp. destruct (pow2_char x Hp) as [Hx0 Hx2].
      rewrite bit_length_log2 by assumption.
      destruct (log2_shift_wf n x Hn ltac:(lia)) as [-> Hl].
      rewrite bv_lshl_den; try assumption.
      - cbn [bv_den]. destruct (Z.ltb_spec (Z.log2 x) n); [|lia]. rewrite <- Hx2. reflexivity.
      - unfold bvwf; cbn [bv_den]. pose proof (n_lt_pow2 n ltac:(lia)). lia. }
    unfold bvwf in Ha, Hb.
    destruct a as [x|t], b as [y|u]; cbn [bv_mul].
    - unfold r_mul_1. apply mk_int_den; lia.
    - cbn [bv_den] in Ha. unfold g_mul_1, g_mul_2.
      destruct (Z.eqb_spec x 0) as [->|]; [cbn [bv_den]; rewrite Z.mul_0_l, Z.mod_0_l; lia|].
      destruct (Z.eqb_spec x 1) as [->|]; [rewrite Z.mul_1_l, Z.mod_small; auto|].
      destruct (is_power_of_two x) eqn:Hp.
      + rewrite Hsh; auto. cbn [bv_den]. f_equal; lia.
      + cbn [bv_den eval binop_eval]. unfold bvmul, bvmod. rewrite (Z.mod_small x) by assumption. reflexivity.
    - cbn [bv_den] in Hb. unfold g_mul_3, g_mul_4.
      destruct (Z.eqb_spec y 0) as [->|]; [cbn [bv_den]; rewrite Z.mul_0_r, Z.mod_0_l; lia|].
      destruct (Z.eqb_spec y 1) as [->|]; [rewrite Z.mul_1_r, Z.mod_small; auto|].
      destruct (is_power_of_two y) eqn:Hp.
      + rewrite Hsh; auto.
      + cbn [bv_den eval binop_eval]. unfold bvmul, bvmod. rewrite (Z.mod_small y) by assumption.
        f_equal; lia.
    - destruct Habs as [-> | ->]; reflexivity.
  Qed.

  Lemma bv_mul_wf n abs a b : abs_is Fmul abs -> 0 < n -> wfn n a -> wfn n b -> wfn n (bv_mul n abs a b).
  Proof.
    intros Habs Hn Ha Hb. unfold bvwf. rewrite bv_mul_den by assumption.
    apply Z.mod_pos_bound. apply pow2_pos; lia.
  Qed.

  (* ---------------------------------------------------------------- div / mod *)
  Lemma div_range x y P : 0 <= x < P -> 0 < y -> 0 <= x / y < P.
  Proof.
    intros Hx Hy. split; [apply Z.div_pos; lia|].
    apply Z.le_lt_trans with x; [|lia]. apply Z.div_le_upper_bound; [lia|]. nia.
  Qed.

  Lemma py_arith_ok n d v : existsb (Z.eqb 0) d = false -> py_arith n d v = Ok (mk_int n v).
  Proof. intros H. unfold py_arith. rewrite H. reflexivity. Qed.

  Lemma bv_div_den n a b : 0 < n -> wfn n a -> wfn n b ->
    exists r, bv_div n (Some Fudiv) a b = Ok r /\ den r = if den b =? 0 then 0 else den a / den b.
  Proof.
    intros Hn Ha Hb. pose proof (pow2_pos n ltac:(lia)) as HP.
    assert (Hslow : den (Sv (TUF Fudiv n (z3_of n a) (z3_of n b))) = if den b =? 0 then 0 else den a / den b).
    { cbn [bv_den eval uf_eval]. rewrite !z3_of_den by assumption. unfold bvudiv.
      destruct (den b =? 0); reflexivity. }
    unfold bv_div. destruct b as [y|u]; [|eexists; split; [reflexivity|exact Hslow]].
    unfold bvwf in Hb; cbn [bv_den] in Hb. unfold g_div_1, g_div_2.
    destruct (Z.eqb_spec y 0) as [->|Hy0]; [eexists; split; reflexivity|].
    destruct (Z.eqb_spec y 1) as [->|Hy1];
      [eexists; split; [reflexivity|]; cbn [bv_den]; rewrite Z.div_1_r; reflexivity|].
    destruct a as [x|t].
    - unfold rd_div_1, r_div_1. rewrite py_arith_ok by (cbn [existsb]; destruct (Z.eqb_spec 0 y); [lia|reflexivity]).
      eexists; split; [reflexivity|].
      unfold bvwf in Ha; cbn [bv_den] in *. destruct (Z.eqb_spec y 0); [lia|]. rewrite mk_int_den by lia.
      apply Z.mod_small. apply div_range; lia.
    - eexists; split; [reflexivity|]. cbn [bv_den]. destruct (Z.eqb_spec y 0); [lia|].
      destruct (is_power_of_two y) eqn:Hp.
      + destruct (pow2_char y Hp) as [Hy Hy2]. rewrite bit_length_log2 by assumption.
        destruct (log2_shift_wf n y Hn ltac:(lia)) as [-> Hl].
        rewrite bv_lshr_den; try assumption.
        * cbn [bv_den]. destruct (Z.ltb_spec (Z.log2 y) n); [|lia]. rewrite <- Hy2. reflexivity.
        * unfold bvwf; cbn [bv_den]. pose proof (n_lt_pow2 n ltac:(lia)). lia.
      + rewrite Hslow. cbn [bv_den]. destruct (Z.eqb_spec y 0); [lia|reflexivity].
  Qed.

  Lemma bv_mod_den n a b : 0 < n -> wfn n a -> wfn n b ->
    exists r, bv_mod n (Some Furem) a b = Ok r /\ den r = if den b =? 0 then 0 else den a mod den b.
  Proof.
    intros Hn Ha Hb. pose proof (pow2_pos n ltac:(lia)) as HP.
    assert (Hslow : den (Sv (TUF Furem n (z3_of n a) (z3_of n b))) = if den b =? 0 then 0 else den a mod den b).
    { cbn [bv_den eval uf_eval]. rewrite !z3_of_den by assumption. unfold bvurem.
      destruct (den b =? 0); reflexivity. }
    unfold bv_mod. destruct b as [y|u]; [|eexists; split; [reflexivity|exact Hslow]].
    unfold bvwf in Hb; cbn [bv_den] in Hb. unfold g_mod_1, g_mod_2.
    destruct (Z.eqb_spec y 0) as [->|Hy0]; [eexists; split; reflexivity|].
    destruct (Z.eqb_spec y 1) as [->|Hy1].
    { eexists; split; [reflexivity|]. rewrite mk_int_den by lia. cbn [bv_den].
      rewrite Z.mod_1_r, Z.mod_0_l by lia. reflexivity. }
    destruct a as [x|t].
    - unfold rd_mod_1, r_mod_1. rewrite py_arith_ok by (cbn [existsb]; destruct (Z.eqb_spec 0 y); [lia|reflexivity]).
      eexists; split; [reflexivity|].
      unfold bvwf in Ha; cbn [bv_den] in *. destruct (Z.eqb_spec y 0); [lia|]. rewrite mk_int_den by lia.
      apply Z.mod_small. pose proof (Z.mod_pos_bound x y ltac:(lia)). lia.
    - eexists; split; [reflexivity|]. cbn [bv_den]. destruct (Z.eqb_spec y 0); [lia|].
      destruct (is_power_of_two y) eqn:Hp.
      + destruct (pow2_char y Hp) as [Hy Hy2]. unfold e_mod_bitsize. rewrite bit_length_log2 by assumption.
        cbv zeta. cbn [bv_den eval]. unfold bvzext, bvextract.
        rewrite Z.pow_0_r, Z.div_1_r. replace (Z.log2 y - 1 - 0 + 1) with (Z.log2 y) by lia.
        rewrite <- Hy2. reflexivity.
      + rewrite Hslow. cbn [bv_den]. destruct (Z.eqb_spec y 0); [lia|reflexivity].
  Qed.

  Lemma mod_result_wf n a b r : 0 < n -> wfn n a -> wfn n b ->
    den r = (if den b =? 0 then 0 else den a mod den b) -> wfn n r.
  Proof.
    intros Hn Ha Hb D. unfold bvwf in *. rewrite D. destruct (Z.eqb_spec (den b) 0); [lia|].
    pose proof (Z.mod_pos_bound (den a) (den b) ltac:(lia)). lia.
  Qed.


  (* ================================================================ reference dispatch *)
  (* The dispatch layer written by hand, arm by arm.  The model proper (run2s / run1s / run3s in
     Model/BitVecModel.v) INTERPRETS the arm bodies regenerated from sevm.py; the lemmas
     run2s_is_ref / run1s_is_ref / run3s_is_ref below show, by computation on the regenerated arms,
     that it does what this reference does - for every operand representation and every rest of
     the stack, including the depth of the stack afterwards and the path constraints appended.
     All semantic lemmas are then proved about the reference. *)
  Definition bitwise_ref (f : bl -> bl -> bl) (g : Z -> bv -> bv -> bv) (x y : val) : val :=
    match x, y with
    | VBool p, VBool q => VBool (f p q)
    | VBV p, VBV q => VBV (g 256 p q)
    | _, _ => VBV (g 256 (to_bv256 x) (to_bv256 y))
    end.

  (* a = top of the stack, b = the word below it *)
  Definition run2_ref (sebc : Z) (o : op) (a b : val) : res val :=
    match o with
    | ADD => lift (bv_add 256 (popi a) (popi b))
    | SUB => lift (bv_sub 256 (popi a) (popi b))
    | MUL => lift (bv_mul 256 (Some Fmul) (popi a) (popi b))
    | DIV => liftr (bv_div 256 (Some Fudiv) (popi a) (popi b))
    | MOD => liftr (bv_mod 256 (Some Furem) (popi a) (popi b))
    | SDIV => liftr (bv_sdiv 256 (Some Fsdiv) (popi a) (popi b))
    | SMOD => lift (bv_smod 256 (Some Fsrem) (popi a) (popi b))
    | EXP => liftr (bv_exp 256 (Some Fexp) (Some Fmul) sebc (popi a) (popi b))
    | SIGNEXTEND =>
        match popi a with                         (* ex.int_of(state.popi(), ...) *)
        | Cv size => lift (bv_signextend (popi b) size)
        | Sv _ => Err ENotConcrete
        end
    | LT => Ok (VBool (bv_ult 256 (popi a) (popi b)))
    | GT => Ok (VBool (bv_ugt 256 (popi a) (popi b)))
    | SLT => Ok (VBool (bv_slt 256 (popi a) (popi b)))
    | SGT => Ok (VBool (bv_sgt 256 (popi a) (popi b)))
    | EQ =>
        match a, b with
        | VBool p, VBool q => Ok (VBool (bl_eq p q))
        | VBV p, VBV q => Ok (VBool (bv_eq 256 p q))
        | _, _ => Ok (VBool (bv_eq 256 (to_bv256 a) (to_bv256 b)))
        end
    | AND => Ok (bitwise_ref bl_and bv_and a b)
    | OR => Ok (bitwise_ref bl_or bv_or a b)
    | XOR => lift (bv_xor 256 (popi a) (popi b))
    | BYTE =>
        match popi a with
        | Cv idx => lift (bv_byte 256 (popi b) idx 256)
        | Sv it => lift (Sv (sym_byte_of it (z3_of 256 (popi b))))
        end
    | SHL => lift (bv_lshl 256 (popi b) (popi a))
    | SHR => lift (bv_lshr 256 (popi b) (popi a))
    | SAR => lift (bv_ashr 256 (popi b) (popi a))
    end.

  (* ISZERO acts on state.top() WITHOUT coercion (a Bool-typed top takes the HalmosBool method);
     NOT acts on state.topi(): the 256-bit word *)
  Definition run1_ref (o : op1) (a : val) : res val :=
    match o with
    | ISZERO => match a with
                | VBV x => Ok (VBool (bv_is_zero 256 x))
                | VBool p => Ok (VBool (bl_is_zero p))
                end
    | NOT => Ok (VBV (bv_not 256 (popi a)))
    end.

  Definition run3_ref (o : op3) (a b c : val) : res val :=
    match o with
    | ADDMOD => liftr (bv_addmod 256 (Some Furem) (popi a) (popi b) (popi c))
    | MULMOD => liftr (bv_mulmod 256 (Some Fmul) (Some Furem) (popi a) (popi b) (popi c))
    end.

  (* SEVM.arith: constraints appended to the path next to a symbolic DIV / MOD result *)
  Definition arith_axioms_ref (o : op) (a b : val) : list bterm :=
    match o with
    | DIV => match bv_div 256 (Some Fudiv) (popi a) (popi b) with
             | Ok (Sv t) => [BCmp Ule 256 t (z3_of 256 (popi a))]
             | _ => []
             end
    | MOD => match bv_mod 256 (Some Furem) (popi a) (popi b) with
             | Ok (Sv t) => [BCmp Ule 256 t (z3_of 256 (popi b))]
             | _ => []
             end
    | _ => []
    end.

  (* what an instruction leaves behind: the stack and the path constraints *)
  Definition obs (r : res st) : res (list val * list bterm) :=
    match r with Ok s => Ok (stk s, pth s) | Err e => Err e end.
  Definition obs_ref (r : res val) (rest : list val) (path : list bterm) : res (list val * list bterm) :=
    match r with Ok v => Ok (v :: rest, path) | Err e => Err e end.

  Lemma run2s_is_ref sebc o a b rest :
    obs (run2s sebc o a b rest) = obs_ref (run2_ref sebc o a b) rest (arith_axioms_ref o a b).
  Proof.
    destruct o; try (destruct a as [x|p], b as [y|q]; reflexivity);
      try (unfold run2s, run2_ref, arith_axioms_ref; destruct a as [x|p], b as [y|q];
           cbn -[bv_div bv_mod bv_sdiv bv_exp popi];
           match goal with |- context [liftr ?X] => destruct X as [[?|?]|?] end; reflexivity).
    - (* SIGNEXTEND *)
      destruct a as [[s|t]|[[|]|c]], b as [y|q]; reflexivity.
    - (* BYTE *)
      destruct a as [[s|t]|[[|]|c]], b as [y|q]; reflexivity.
  Qed.

  Lemma run1s_is_ref o a rest : obs (run1s o a rest) = obs_ref (run1_ref o a) rest [].
  Proof. destruct o, a as [x|p]; reflexivity. Qed.

  Lemma run3s_is_ref o a b c rest : obs (run3s o a b c rest) = obs_ref (run3_ref o a b c) rest [].
  Proof.
    destruct o; unfold run3s, run3_ref; destruct a as [x|p], b as [y|q], c as [z|r];
      cbn -[bv_addmod bv_mulmod popi];
      match goal with
      | |- context [bv_addmod 256 (Some Furem) ?u ?w ?m] => destruct (bv_addmod 256 (Some Furem) u w m) as [v|e]
      | |- context [bv_mulmod 256 (Some Fmul) (Some Furem) ?u ?w ?m] => destruct (bv_mulmod 256 (Some Fmul) (Some Furem) u w m) as [v|e]
      end; reflexivity.
  Qed.

  Lemma only_obs r rest path v : obs r = obs_ref v rest path ->
    rest = [] -> only r = v.
  Proof.
    intros H ->. destruct r as [s|e], v as [w|e']; cbn in *; try congruence.
    injection H as H1 H2. rewrite H1. reflexivity.
  Qed.

  Lemma run2_is_ref sebc o a b : run2 sebc o a b = run2_ref sebc o a b.
  Proof. apply (only_obs _ [] (arith_axioms_ref o a b)); [apply run2s_is_ref|reflexivity]. Qed.
  Lemma run1_is_ref o a : run1 o a = run1_ref o a.
  Proof. apply (only_obs _ [] []); [apply run1s_is_ref|reflexivity]. Qed.
  Lemma run3_is_ref o a b c : run3 o a b c = run3_ref o a b c.
  Proof. apply (only_obs _ [] []); [apply run3s_is_ref|reflexivity]. Qed.

  Lemma arith_axioms_is_ref sebc o a b :
    (exists r, run2_ref sebc o a b = Ok r) -> arith_axioms sebc o a b = arith_axioms_ref o a b.
  Proof.
    intros [r E]. unfold arith_axioms. pose proof (run2s_is_ref sebc o a b []) as H.
    rewrite E in H. destruct (run2s sebc o a b []) as [s|e]; cbn in H; [|discriminate].
    injection H as _ H2. exact H2.
  Qed.

  (* ================================================================ dispatch layer *)
  Ltac side := first [lia | apply popi_wf; assumption | assumption].

  Lemma run_add sebc a b : wf ev eb a -> wf ev eb b ->
    exists r, run2_ref sebc ADD a b = Ok r /\ dn r = evm_add (dn a) (dn b).
  Proof.
    intros Ha Hb. eexists; split; [reflexivity|].
    cbn [denote]. rewrite bv_add_den by (try apply popi_wf; auto; lia).
    rewrite !popi_den. reflexivity.
  Qed.

  Lemma run_sub sebc a b : wf ev eb a -> wf ev eb b ->
    exists r, run2_ref sebc SUB a b = Ok r /\ dn r = evm_sub (dn a) (dn b).
  Proof.
    intros Ha Hb. eexists; split; [reflexivity|].
    cbn [denote]. rewrite bv_sub_den by (try apply popi_wf; auto; lia).
    rewrite !popi_den. reflexivity.
  Qed.

  Lemma run_mul sebc a b : wf ev eb a -> wf ev eb b ->
    exists r, run2_ref sebc MUL a b = Ok r /\ dn r = evm_mul (dn a) (dn b).
  Proof.
    intros Ha Hb. eexists; split; [reflexivity|]. cbn [denote].
    rewrite bv_mul_den by (side || (left; reflexivity)). rewrite !popi_den. reflexivity.
  Qed.

  Lemma run_div sebc a b : wf ev eb a -> wf ev eb b ->
    exists r, run2_ref sebc DIV a b = Ok r /\ dn r = evm_div (dn a) (dn b).
  Proof.
    intros Ha Hb. cbn [run2_ref].
    destruct (bv_div_den 256 (popi a) (popi b)) as [r [E D]]; try side.
    rewrite E. eexists; split; [reflexivity|]. cbn [denote]. rewrite D, !popi_den. reflexivity.
  Qed.

  Lemma run_mod sebc a b : wf ev eb a -> wf ev eb b ->
    exists r, run2_ref sebc MOD a b = Ok r /\ dn r = evm_mod (dn a) (dn b).
  Proof.
    intros Ha Hb. cbn [run2_ref].
    destruct (bv_mod_den 256 (popi a) (popi b)) as [r [E D]]; try side.
    rewrite E. eexists; split; [reflexivity|]. cbn [denote]. rewrite D, !popi_den. reflexivity.
  Qed.

  Lemma run_lt sebc a b : wf ev eb a -> wf ev eb b ->
    exists r, run2_ref sebc LT a b = Ok r /\ dn r = evm_lt (dn a) (dn b).
  Proof.
    intros Ha Hb. eexists; split; [reflexivity|]. cbn [denote].
    rewrite bv_ult_den by side. rewrite !popi_den. reflexivity.
  Qed.

  Lemma run_gt sebc a b : wf ev eb a -> wf ev eb b ->
    exists r, run2_ref sebc GT a b = Ok r /\ dn r = evm_gt (dn a) (dn b).
  Proof.
    intros Ha Hb. eexists; split; [reflexivity|]. cbn [denote].
    rewrite bv_ugt_den by side. rewrite !popi_den. reflexivity.
  Qed.

  Lemma run_slt sebc a b : wf ev eb a -> wf ev eb b ->
    exists r, run2_ref sebc SLT a b = Ok r /\ dn r = evm_slt (dn a) (dn b).
  Proof.
    intros Ha Hb. eexists; split; [reflexivity|]. cbn [denote].
    rewrite bv_slt_den by side. rewrite !popi_den. reflexivity.
  Qed.

  Lemma run_sgt sebc a b : wf ev eb a -> wf ev eb b ->
    exists r, run2_ref sebc SGT a b = Ok r /\ dn r = evm_sgt (dn a) (dn b).
  Proof.
    intros Ha Hb. eexists; split; [reflexivity|]. cbn [denote].
    rewrite bv_sgt_den by side. rewrite !popi_den. reflexivity.
  Qed.

  Lemma run_eq sebc a b : wf ev eb a -> wf ev eb b ->
    exists r, run2_ref sebc EQ a b = Ok r /\ dn r = evm_eq (dn a) (dn b).
  Proof.
    intros Ha Hb. unfold evm_eq.
    destruct a as [x|p], b as [y|q]; (eexists; split; [reflexivity|]).
    - cbn [denote bl_den]. rewrite bv_eq_den by assumption. reflexivity.
    - unfold denote at 1. cbn [bl_den]. unfold to_bv256. rewrite bv_eq_den by side.
      rewrite !popi_den. reflexivity.
    - unfold denote at 1. cbn [bl_den]. unfold to_bv256. rewrite bv_eq_den by side.
      rewrite !popi_den. reflexivity.
    - cbn [denote bl_den]. rewrite bl_eq_den. destruct (bden p), (bden q); reflexivity.
  Qed.

  Lemma run_iszero a : wf ev eb a ->
    exists r, run1_ref ISZERO a = Ok r /\ dn r = evm_iszero (dn a).
  Proof.
    intros Ha. destruct a as [x|p]; (eexists; split; [reflexivity|]); cbn [denote].
    - rewrite bv_is_zero_den by lia. reflexivity.
    - rewrite bl_is_zero_den. destruct (bden p); reflexivity.
  Qed.

  Lemma bitwise_den f g (F : bool -> bool -> bool) (G : Z -> Z -> Z) a b :
    wf ev eb a -> wf ev eb b ->
    (forall p q, bden (f p q) = F (bden p) (bden q)) ->
    (forall x y, wfn 256 x -> wfn 256 y -> den (g 256 x y) = G (den x) (den y)) ->
    (forall p q, b2w (F p q) = G (b2w p) (b2w q)) ->
    dn (bitwise_ref f g a b) = G (dn a) (dn b).
  Proof.
    intros Ha Hb Hf Hg HFG.
    destruct a as [x|p], b as [y|q]; cbn [bitwise_ref denote].
    - apply Hg; assumption.
    - unfold to_bv256. rewrite Hg by side. rewrite !popi_den. reflexivity.
    - unfold to_bv256. rewrite Hg by side. rewrite !popi_den. reflexivity.
    - rewrite Hf. apply HFG.
  Qed.

  Lemma run_and sebc a b : wf ev eb a -> wf ev eb b ->
    exists r, run2_ref sebc AND a b = Ok r /\ dn r = evm_and (dn a) (dn b).
  Proof.
    intros Ha Hb. eexists; split; [reflexivity|].
    apply (bitwise_den bl_and bv_and andb Z.land); auto using bl_and_den.
    - intros; apply bv_and_den; side.
    - intros [|] [|]; reflexivity.
  Qed.

  Lemma run_or sebc a b : wf ev eb a -> wf ev eb b ->
    exists r, run2_ref sebc OR a b = Ok r /\ dn r = evm_or (dn a) (dn b).
  Proof.
    intros Ha Hb. eexists; split; [reflexivity|].
    apply (bitwise_den bl_or bv_or orb Z.lor); auto using bl_or_den.
    - intros; apply bv_or_den; side.
    - intros [|] [|]; reflexivity.
  Qed.

  Lemma run_xor sebc a b : wf ev eb a -> wf ev eb b ->
    exists r, run2_ref sebc XOR a b = Ok r /\ dn r = evm_xor (dn a) (dn b).
  Proof.
    intros Ha Hb. eexists; split; [reflexivity|]. cbn [denote].
    rewrite bv_xor_den by side. rewrite !popi_den. reflexivity.
  Qed.

  Lemma run_not a : wf ev eb a ->
    exists r, run1_ref NOT a = Ok r /\ dn r = evm_not (dn a).
  Proof.
    intros Ha. eexists; split; [reflexivity|]. cbn [denote].
    rewrite bv_not_den by side. rewrite popi_den. reflexivity.
  Qed.

  Lemma run_shl sebc a b : wf ev eb a -> wf ev eb b ->
    exists r, run2_ref sebc SHL a b = Ok r /\ dn r = evm_shl (dn a) (dn b).
  Proof.
    intros Ha Hb. eexists; split; [reflexivity|]. cbn [denote].
    rewrite bv_lshl_den by side. rewrite !popi_den. reflexivity.
  Qed.

  Lemma run_shr sebc a b : wf ev eb a -> wf ev eb b ->
    exists r, run2_ref sebc SHR a b = Ok r /\ dn r = evm_shr (dn a) (dn b).
  Proof.
    intros Ha Hb. eexists; split; [reflexivity|]. cbn [denote].
    rewrite bv_lshr_den by side. rewrite !popi_den. reflexivity.
  Qed.

  Lemma run_sar sebc a b : wf ev eb a -> wf ev eb b ->
    exists r, run2_ref sebc SAR a b = Ok r /\ dn r = evm_sar (dn a) (dn b).
  Proof.
    intros Ha Hb. eexists; split; [reflexivity|]. cbn [denote].
    rewrite bv_ashr_den by side. rewrite !popi_den.
    apply bvashr_evm. pose proof (popi_wf b Hb) as H. unfold bvwf in H. rewrite popi_den in H. exact H.
  Qed.

  Lemma run_byte sebc a b : wf ev eb a -> wf ev eb b ->
    exists r, run2_ref sebc BYTE a b = Ok r /\ dn r = evm_byte (dn a) (dn b).
  Proof.
    intros Ha Hb. cbn [run2_ref].
    pose proof (popi_wf a Ha) as Hwa. pose proof (popi_den a) as Hda.
    destruct (popi a) as [idx|it] eqn:E; (eexists; split; [reflexivity|]); cbn [denote].
    - unfold bvwf in Hwa. cbn [bv_den] in *. rewrite bv_byte256_den by side.
      rewrite popi_den, Hda. reflexivity.
    - unfold bvwf in Hwa. cbn [bv_den] in *. rewrite sym_byte_den by lia.
      rewrite z3_of_den by side. rewrite popi_den, Hda. reflexivity.
  Qed.

  Lemma run_signextend sebc a b s : wf ev eb a -> wf ev eb b -> popi a = Cv s ->
    exists r, run2_ref sebc SIGNEXTEND a b = Ok r /\ dn r = evm_signextend (dn a) (dn b).
  Proof.
    intros Ha Hb E. cbn [run2_ref]. rewrite E.
    pose proof (popi_wf a Ha) as Hwa. pose proof (popi_den a) as Hda. rewrite E in *.
    unfold bvwf in Hwa. cbn [bv_den] in *.
    eexists; split; [reflexivity|]. cbn [denote].
    rewrite bv_signextend_den by side. rewrite popi_den, Hda. reflexivity.
  Qed.

  Lemma run_signextend_symbolic sebc a b t : popi a = Sv t ->
    run2_ref sebc SIGNEXTEND a b = Err ENotConcrete.
  Proof. intros E. cbn [run2_ref]. rewrite E. reflexivity. Qed.


  (* ================================================================ signed division *)
  Lemma half_pow n : 0 < n -> 2 ^ n = 2 * 2 ^ (n - 1) /\ 0 < 2 ^ (n - 1).
  Proof.
    intros Hn. split; [|apply pow2_pos; lia].
    replace n with (Z.succ (n - 1)) at 1 by lia. apply Z.pow_succ_r; lia.
  Qed.

  Lemma bvneg_pos n x : 0 < x < 2 ^ n -> bvneg n x = 2 ^ n - x.
  Proof. intros Hx. unfold bvneg, bvmod. rewrite (mod_shift (2 ^ n) (- x) 1); lia. Qed.

  Lemma bvsdiv_quot n x y : 0 < n -> 0 <= x < 2 ^ n -> 0 < y < 2 ^ n ->
    bvsdiv n x y = (Z.quot (bvsigned n x) (bvsigned n y)) mod 2 ^ n.
  Proof.
    intros Hn Hx Hy. destruct (half_pow n Hn) as [HP HH].
    unfold bvsdiv, msb, bvsigned.
    set (P := 2 ^ n) in *. set (H := 2 ^ (n - 1)) in *.
    destruct (Z.leb_spec H x), (Z.ltb_spec x H); try lia;
      destruct (Z.leb_spec H y), (Z.ltb_spec y H); try lia.
    - (* x < 0, y < 0 *)
      rewrite !bvneg_pos by (fold P; lia). fold P. unfold bvudiv.
      destruct (Z.eqb_spec (P - y) 0); [lia|].
      replace (x - P) with (- (P - x)) by lia. replace (y - P) with (- (P - y)) by lia.
      rewrite Z.quot_opp_opp by lia. rewrite Z.quot_div_nonneg by lia.
      symmetry; apply Z.mod_small.
      pose proof (div_range (P - x) (P - y) P ltac:(lia) ltac:(lia)). lia.
    - (* x < 0, y >= 0 *)
      rewrite (bvneg_pos n x) by (fold P; lia). fold P. unfold bvudiv.
      destruct (Z.eqb_spec y 0); [lia|].
      replace (x - P) with (- (P - x)) by lia.
      rewrite Z.quot_opp_l by lia. rewrite Z.quot_div_nonneg by lia. reflexivity.
    - (* x >= 0, y < 0 *)
      rewrite (bvneg_pos n y) by (fold P; lia). fold P. unfold bvudiv.
      destruct (Z.eqb_spec (P - y) 0); [lia|].
      replace (y - P) with (- (P - y)) by lia.
      rewrite Z.quot_opp_r by lia. rewrite Z.quot_div_nonneg by lia. reflexivity.
    - unfold bvudiv. destruct (Z.eqb_spec y 0); [lia|].
      rewrite Z.quot_div_nonneg by lia. symmetry; apply Z.mod_small.
      apply div_range; lia.
  Qed.

  Lemma bvsrem_rem n x y : 0 < n -> 0 <= x < 2 ^ n -> 0 < y < 2 ^ n ->
    bvsrem n x y = (Z.rem (bvsigned n x) (bvsigned n y)) mod 2 ^ n.
  Proof.
    intros Hn Hx Hy. destruct (half_pow n Hn) as [HP HH].
    unfold bvsrem, msb, bvsigned.
    set (P := 2 ^ n) in *. set (H := 2 ^ (n - 1)) in *.
    destruct (Z.leb_spec H x), (Z.ltb_spec x H); try lia;
      destruct (Z.leb_spec H y), (Z.ltb_spec y H); try lia.
    - rewrite (bvneg_pos n x), (bvneg_pos n y) by (fold P; lia). fold P. unfold bvurem.
      destruct (Z.eqb_spec (P - y) 0); [lia|].
      replace (x - P) with (- (P - x)) by lia. replace (y - P) with (- (P - y)) by lia.
      rewrite Z.rem_opp_opp by lia. rewrite Z.rem_mod_nonneg by lia. reflexivity.
    - rewrite (bvneg_pos n x) by (fold P; lia). fold P. unfold bvurem.
      destruct (Z.eqb_spec y 0); [lia|].
      replace (x - P) with (- (P - x)) by lia.
      rewrite Z.rem_opp_l by lia. rewrite Z.rem_mod_nonneg by lia. reflexivity.
    - rewrite (bvneg_pos n y) by (fold P; lia). fold P. unfold bvurem.
      destruct (Z.eqb_spec (P - y) 0); [lia|].
      replace (y - P) with (- (P - y)) by lia.
      rewrite Z.rem_opp_r by lia. rewrite Z.rem_mod_nonneg by lia.
      symmetry; apply Z.mod_small.
      pose proof (Z.mod_pos_bound x (P - y) ltac:(lia)). lia.
    - unfold bvurem. destruct (Z.eqb_spec y 0); [lia|].
      rewrite Z.rem_mod_nonneg by lia. symmetry; apply Z.mod_small.
      pose proof (Z.mod_pos_bound x y ltac:(lia)). lia.
  Qed.

  Lemma signed_one n : 1 < n -> bvsigned n 1 = 1.
  Proof.
    intros Hn. unfold bvsigned.
    assert (2 ^ 1 <= 2 ^ (n - 1)) by (apply Z.pow_le_mono_r; lia).
    change (2 ^ 1) with 2 in *. destruct (Z.ltb_spec 1 (2 ^ (n - 1))); [reflexivity|lia].
  Qed.

  Lemma bv_sdiv_den n a b : 1 < n -> wfn n a -> wfn n b ->
    exists r, bv_sdiv n (Some Fsdiv) a b = Ok r /\
      den r = if den b =? 0 then 0 else (Z.quot (bvsigned n (den a)) (bvsigned n (den b))) mod 2 ^ n.
  Proof.
    intros Hn Ha Hb. pose proof (pow2_pos n ltac:(lia)) as HP. unfold bvwf in *.
    assert (Hslow : den (Sv (TUF Fsdiv n (z3_of n a) (z3_of n b))) =
              if den b =? 0 then 0 else (Z.quot (bvsigned n (den a)) (bvsigned n (den b))) mod 2 ^ n).
    { cbn [bv_den eval uf_eval]. rewrite !z3_of_den by assumption.
      destruct (Z.eqb_spec (den b) 0); [reflexivity|]. apply bvsdiv_quot; lia. }
    unfold bv_sdiv. destruct b as [y|u]; [|eexists; split; [reflexivity|exact Hslow]].
    cbn [bv_den] in *. unfold g_sdiv_1, g_sdiv_2.
    destruct (Z.eqb_spec y 0) as [->|Hy0]; [eexists; split; reflexivity|].
    destruct (Z.eqb_spec y 1) as [->|Hy1].
    { eexists; split; [reflexivity|]. rewrite signed_one, Z.quot_1_r by lia.
      symmetry; apply signed_mod; lia. }
    destruct a as [x|t]; (eexists; split; [reflexivity|]).
    - cbn [bv_den] in *. destruct (Z.eqb_spec y 0); [lia|]. apply bvsdiv_quot; lia.
    - cbn [bv_den] in *. exact Hslow.
  Qed.

  Lemma bv_smod_den n a b : 1 < n -> wfn n a -> wfn n b ->
    den (bv_smod n (Some Fsrem) a b) =
      if den b =? 0 then 0 else (Z.rem (bvsigned n (den a)) (bvsigned n (den b))) mod 2 ^ n.
  Proof.
    intros Hn Ha Hb. pose proof (pow2_pos n ltac:(lia)) as HP. unfold bvwf in *.
    assert (Hslow : den (Sv (TUF Fsrem n (z3_of n a) (z3_of n b))) =
              if den b =? 0 then 0 else (Z.rem (bvsigned n (den a)) (bvsigned n (den b))) mod 2 ^ n).
    { cbn [bv_den eval uf_eval]. rewrite !z3_of_den by assumption.
      destruct (Z.eqb_spec (den b) 0); [reflexivity|]. apply bvsrem_rem; lia. }
    unfold bv_smod. destruct b as [y|u]; [|exact Hslow].
    cbn [bv_den] in *. unfold g_smod_1, g_smod_2.
    destruct (Z.eqb_spec y 0) as [->|Hy0]; [reflexivity|].
    destruct (Z.eqb_spec y 1) as [->|Hy1].
    { rewrite mk_int_den by lia. rewrite signed_one by lia. cbn [bv_den].
      rewrite Z.rem_1_r. rewrite !Z.mod_0_l by lia. reflexivity. }
    destruct a as [x|t].
    - cbn [bv_den] in *. destruct (Z.eqb_spec y 0); [lia|]. apply bvsrem_rem; lia.
    - cbn [bv_den] in *. exact Hslow.
  Qed.

  Lemma run_sdiv sebc a b : wf ev eb a -> wf ev eb b ->
    exists r, run2_ref sebc SDIV a b = Ok r /\ dn r = evm_sdiv (dn a) (dn b).
  Proof.
    intros Ha Hb. cbn [run2_ref].
    destruct (bv_sdiv_den 256 (popi a) (popi b)) as [r [E D]]; try side.
    rewrite E. eexists; split; [reflexivity|]. cbn [denote]. rewrite D, !popi_den. reflexivity.
  Qed.

  Lemma run_smod sebc a b : wf ev eb a -> wf ev eb b ->
    exists r, run2_ref sebc SMOD a b = Ok r /\ dn r = evm_smod (dn a) (dn b).
  Proof.
    intros Ha Hb. eexists; split; [reflexivity|]. cbn [denote].
    rewrite bv_smod_den by side. rewrite !popi_den. reflexivity.
  Qed.


  (* ================================================================ exp *)
  Lemma mul_mod_congr m x x' y y' : 0 < m -> x mod m = x' mod m -> y mod m = y' mod m ->
    (x * y) mod m = (x' * y') mod m.
  Proof.
    intros Hm Hx Hy. rewrite (Z.mul_mod x y), (Z.mul_mod x' y') by lia. rewrite Hx, Hy. reflexivity.
  Qed.

  Lemma modpow_pos_spec a p m : 0 < m -> modpow_pos a p m = (a ^ Z.pos p) mod m.
  Proof.
    intros Hm. induction p as [q IH|q IH|]; cbn [modpow_pos].
    - rewrite Pos2Z.inj_xI, Z.pow_add_r, Z.pow_1_r, Z.pow_twice_r by lia. rewrite IH.
      apply mul_mod_congr; [assumption| |reflexivity].
      apply mul_mod_congr; try assumption; apply Z.mod_mod; lia.
    - rewrite Pos2Z.inj_xO, Z.pow_twice_r. rewrite IH.
      apply mul_mod_congr; try assumption; apply Z.mod_mod; lia.
    - rewrite Z.pow_1_r. reflexivity.
  Qed.

  Lemma modpow_spec a e m : 0 < m -> 0 <= e -> modpow a e m = (a ^ e) mod m.
  Proof.
    intros Hm He. destruct e as [|p|p]; cbn [modpow]; [reflexivity|apply modpow_pos_spec; assumption|lia].
  Qed.

  Lemma evm_exp_math_eq a e : 0 <= e -> evm_exp a e = evm_exp_math a e.
  Proof. intros; unfold evm_exp, evm_exp_math. apply modpow_spec; [reflexivity|assumption]. Qed.

  Lemma exp_loop_den n mabs self k : abs_is Fmul mabs -> 0 < n -> wfn n self -> forall acc, wfn n acc ->
    den (exp_loop n mabs self acc k) = (den self ^ Z.of_nat k * den acc) mod 2 ^ n.
  Proof.
    intros Habs Hn Hs. pose proof (pow2_pos n ltac:(lia)) as HP.
    induction k as [|k IH]; intros acc Hacc; cbn [exp_loop].
    - rewrite Z.pow_0_r, Z.mul_1_l. unfold bvwf in Hacc. symmetry; apply Z.mod_small; assumption.
    - rewrite IH by (apply bv_mul_wf; assumption).
      rewrite bv_mul_den by assumption. rewrite Z.mul_mod_idemp_r by lia.
      rewrite Nat2Z.inj_succ, Z.pow_succ_r by lia. f_equal; ring.
  Qed.

  Lemma py_pow3_loop_spec p : forall base acc m, 0 < m ->
    py_pow3_loop base acc p m = (acc * base ^ Z.pos p) mod m.
  Proof.
    induction p as [q IH|q IH|]; intros base acc m Hm; cbn [py_pow3_loop].
    - rewrite IH by assumption.
      replace (acc * base ^ Z.pos q~1) with ((acc * base) * (base * base) ^ Z.pos q).
      + apply mul_mod_congr; [assumption|apply Z.mod_mod; lia|].
        symmetry. apply Zpow_facts.Zpower_mod. lia.
      + rewrite Pos2Z.inj_xI, Z.pow_add_r, Z.pow_1_r, Z.pow_mul_r, Z.pow_2_r by lia. ring.
    - rewrite IH by assumption.
      replace (acc * base ^ Z.pos q~0) with (acc * (base * base) ^ Z.pos q).
      + apply mul_mod_congr; [assumption|reflexivity|].
        symmetry. apply Zpow_facts.Zpower_mod. lia.
      + rewrite Pos2Z.inj_xO, Z.pow_mul_r, Z.pow_2_r by lia. reflexivity.
    - rewrite Z.pow_1_r. reflexivity.
  Qed.

  Lemma py_pow3_spec a e m : 0 < m -> 0 <= e -> py_pow3 a e m = (a ^ e) mod m.
  Proof.
    intros Hm He. destruct e as [|p|p]; cbn [py_pow3]; [reflexivity| |lia].
    rewrite py_pow3_loop_spec by assumption. rewrite Z.mul_1_l.
    symmetry. apply Zpow_facts.Zpower_mod. lia.
  Qed.

  Lemma exp_concrete_path n e m s x y : y <> 0 -> y <> 1 ->
    bv_exp n e m s (Cv x) (Cv y) = Ok (mk_int n (r_exp_1 x y n)).
  Proof.
    intros H0 H1. unfold bv_exp, g_exp_1, g_exp_2.
    destruct (Z.eqb_spec y 0); [contradiction|]. destruct (Z.eqb_spec y 1); [contradiction|]. reflexivity.
  Qed.

  Lemma bv_exp_den n sebc a b : 0 < n -> wfn n a -> wfn n b ->
    exists r, bv_exp n (Some Fexp) (Some Fmul) sebc a b = Ok r /\ den r = (den a ^ den b) mod 2 ^ n.
  Proof.
    intros Hn Ha Hb. pose proof (pow2_pos n ltac:(lia)) as HP. unfold bvwf in *.
    assert (Hslow : den (Sv (TUF Fexp n (z3_of n a) (z3_of n b))) = (den a ^ den b) mod 2 ^ n).
    { cbn [bv_den eval uf_eval]. rewrite !z3_of_den by assumption. apply modpow_spec; lia. }
    unfold bv_exp. destruct b as [y|u]; [|eexists; split; [reflexivity|exact Hslow]].
    cbn [bv_den] in *. unfold g_exp_1, g_exp_2.
    destruct (Z.eqb_spec y 0) as [->|Hy0].
    { eexists; split; [reflexivity|]. rewrite mk_int_den by lia. rewrite Z.pow_0_r. reflexivity. }
    destruct (Z.eqb_spec y 1) as [->|Hy1].
    { eexists; split; [reflexivity|]. rewrite Z.pow_1_r. symmetry; apply Z.mod_small; assumption. }
    destruct a as [x|t].
    - unfold rd_exp_1, r_exp_1. rewrite py_arith_ok by reflexivity.
      eexists; split; [reflexivity|]. rewrite mk_int_den by lia.
      (* the VALUE is right for pow(lhs, rhs, 1 << size) and for the unreduced lhs ** rhs alike; what
         separates them is the work measure (exp_prompt below) *)
      rewrite ?Z.shiftl_1_l, ?py_pow3_spec by lia. cbn [bv_den]. rewrite ?Z.mod_mod by lia. reflexivity.
    - destruct (g_exp_3 y sebc); (eexists; split; [reflexivity|]); [|exact Hslow].
      rewrite exp_loop_den by (assumption || (left; reflexivity)). rewrite Z2Nat.id by lia.
      replace (den (Sv t) ^ (y - 1) * den (Sv t)) with (den (Sv t) ^ y); [reflexivity|].
      replace y with (Z.succ (y - 1)) at 1 by lia. rewrite Z.pow_succ_r by lia. ring.
  Qed.

  Lemma run_exp sebc a b : wf ev eb a -> wf ev eb b ->
    exists r, run2_ref sebc EXP a b = Ok r /\ dn r = evm_exp (dn a) (dn b).
  Proof.
    intros Ha Hb. cbn [run2_ref].
    destruct (bv_exp_den 256 sebc (popi a) (popi b)) as [r [E D]]; try side.
    rewrite E. eexists; split; [reflexivity|]. cbn [denote]. rewrite D, !popi_den.
    unfold evm_exp. symmetry. apply modpow_spec; [reflexivity|].
    pose proof (popi_wf b Hb) as H. unfold bvwf in H. rewrite popi_den in H. lia.
  Qed.

  (* ================================================================ addmod / mulmod *)
  Lemma resize_up_wf n n2 a : 0 <= n -> n < n2 -> wfn n a -> wfn n2 (bv_resize n n2 a).
  Proof.
    intros Hn Hlt Ha. unfold bvwf. rewrite resize_up_den by assumption.
    unfold bvwf in Ha. assert (2 ^ n <= 2 ^ n2) by (apply Z.pow_le_mono_r; lia). lia.
  Qed.

  Lemma bv_addmod_den n a b m : 0 < n -> wfn n a -> wfn n b -> wfn n m ->
    exists r, bv_addmod n (Some Furem) a b m = Ok r /\
      den r = if den m =? 0 then 0 else (den a + den b) mod den m.
  Proof.
    intros Hn Ha Hb Hm. pose proof (pow2_pos n ltac:(lia)) as HP.
    assert (Hgen : exists r,
              bind_bv (bv_mod (n + 8) (Some Furem) (bv_add (n + 8) (bv_resize n (n + 8) a) (bv_resize n (n + 8) b))
                         (bv_resize n (n + 8) m)) (bv_resize (n + 8) n) = Ok r /\
              den r = if den m =? 0 then 0 else (den a + den b) mod den m).
    { pose proof (resize_up_wf n (n + 8) a ltac:(lia) ltac:(lia) Ha) as Wa.
      pose proof (resize_up_wf n (n + 8) b ltac:(lia) ltac:(lia) Hb) as Wb.
      pose proof (resize_up_wf n (n + 8) m ltac:(lia) ltac:(lia) Hm) as Wm.
      assert (H2 : 2 ^ (n + 8) = 2 ^ n * 256) by (rewrite Z.pow_add_r by lia; reflexivity).
      assert (W1 : wfn (n + 8) (bv_add (n + 8) (bv_resize n (n + 8) a) (bv_resize n (n + 8) b))).
      { unfold bvwf. rewrite bv_add_den by (assumption || lia). apply Z.mod_pos_bound. lia. }
      assert (D1 : den (bv_add (n + 8) (bv_resize n (n + 8) a) (bv_resize n (n + 8) b)) = den a + den b).
      { rewrite bv_add_den by (assumption || lia). rewrite !resize_up_den by (assumption || lia).
        unfold bvwf in Ha, Hb. apply Z.mod_small. lia. }
      destruct (bv_mod_den (n + 8) (bv_add (n + 8) (bv_resize n (n + 8) a) (bv_resize n (n + 8) b))
                  (bv_resize n (n + 8) m)) as [r2 [E2 D2]]; try (assumption || lia).
      rewrite E2. cbn [bind_bv]. eexists; split; [reflexivity|].
      rewrite D1, resize_up_den in D2 by (assumption || lia).
      rewrite resize_down_den; [exact D2|lia|lia|].
      rewrite D2. unfold bvwf in Hm. destruct (Z.eqb_spec (den m) 0); [lia|].
      pose proof (Z.mod_pos_bound (den a + den b) (den m) ltac:(lia)). lia. }
    destruct a as [x|t], b as [y|u], m as [z|v]; try exact Hgen.
    clear Hgen. cbn [bv_addmod]. unfold g_addmod_1. unfold bvwf in *; cbn [bv_den] in *.
    destruct (Z.eqb_spec z 0) as [->|Hz].
    - eexists; split; [reflexivity|]. rewrite mk_int_den by lia. apply Z.mod_0_l; lia.
    - unfold rd_addmod_1, r_addmod_1.
      rewrite py_arith_ok by (cbn [existsb]; destruct (Z.eqb_spec 0 z); [lia|reflexivity]).
      eexists; split; [reflexivity|]. rewrite mk_int_den by lia. apply Z.mod_small.
      pose proof (Z.mod_pos_bound (x + y) z ltac:(lia)). lia.
  Qed.

  Lemma bv_mulmod_den n a b m : 0 < n -> wfn n a -> wfn n b -> wfn n m ->
    exists r, bv_mulmod n (Some Fmul) (Some Furem) a b m = Ok r /\
      den r = if den m =? 0 then 0 else (den a * den b) mod den m.
  Proof.
    intros Hn Ha Hb Hm. pose proof (pow2_pos n ltac:(lia)) as HP.
    assert (Hgen : exists r,
              bind_bv (bv_mod (n * 2) (Some Furem) (bv_mul (n * 2) (Some Fmul) (bv_resize n (n * 2) a) (bv_resize n (n * 2) b))
                         (bv_resize n (n * 2) m)) (bv_resize (n * 2) n) = Ok r /\
              den r = if den m =? 0 then 0 else (den a * den b) mod den m).
    { pose proof (resize_up_wf n (n * 2) a ltac:(lia) ltac:(lia) Ha) as Wa.
      pose proof (resize_up_wf n (n * 2) b ltac:(lia) ltac:(lia) Hb) as Wb.
      pose proof (resize_up_wf n (n * 2) m ltac:(lia) ltac:(lia) Hm) as Wm.
      assert (H2 : 2 ^ (n * 2) = 2 ^ n * 2 ^ n).
      { replace (n * 2) with (n + n) by lia. apply Z.pow_add_r; lia. }
      assert (W1 : wfn (n * 2) (bv_mul (n * 2) (Some Fmul) (bv_resize n (n * 2) a) (bv_resize n (n * 2) b))).
      { apply bv_mul_wf; (assumption || lia || (left; reflexivity)). }
      assert (D1 : den (bv_mul (n * 2) (Some Fmul) (bv_resize n (n * 2) a) (bv_resize n (n * 2) b)) = den a * den b).
      { rewrite bv_mul_den by (assumption || lia || (left; reflexivity)). rewrite !resize_up_den by (assumption || lia).
        unfold bvwf in Ha, Hb. apply Z.mod_small. rewrite H2. nia. }
      destruct (bv_mod_den (n * 2) (bv_mul (n * 2) (Some Fmul) (bv_resize n (n * 2) a) (bv_resize n (n * 2) b))
                  (bv_resize n (n * 2) m)) as [r2 [E2 D2]]; try (assumption || lia).
      rewrite E2. cbn [bind_bv]. eexists; split; [reflexivity|].
      rewrite D1, resize_up_den in D2 by (assumption || lia).
      rewrite resize_down_den; [exact D2|lia|lia|].
      rewrite D2. unfold bvwf in Hm. destruct (Z.eqb_spec (den m) 0); [lia|].
      pose proof (Z.mod_pos_bound (den a * den b) (den m) ltac:(lia)). lia. }
    destruct a as [x|t], b as [y|u], m as [z|v]; try exact Hgen.
    clear Hgen. cbn [bv_mulmod]. unfold g_mulmod_1. unfold bvwf in *; cbn [bv_den] in *.
    destruct (Z.eqb_spec z 0) as [->|Hz].
    - eexists; split; [reflexivity|]. rewrite mk_int_den by lia. apply Z.mod_0_l; lia.
    - unfold rd_mulmod_1, r_mulmod_1.
      rewrite py_arith_ok by (cbn [existsb]; destruct (Z.eqb_spec 0 z); [lia|reflexivity]).
      eexists; split; [reflexivity|]. rewrite mk_int_den by lia. apply Z.mod_small.
      pose proof (Z.mod_pos_bound (x * y) z ltac:(lia)). lia.
  Qed.

  Lemma run_addmod a b c : wf ev eb a -> wf ev eb b -> wf ev eb c ->
    exists r, run3_ref ADDMOD a b c = Ok r /\ dn r = evm_addmod (dn a) (dn b) (dn c).
  Proof.
    intros Ha Hb Hc. cbn [run3_ref].
    destruct (bv_addmod_den 256 (popi a) (popi b) (popi c)) as [r [E D]]; try side.
    rewrite E. eexists; split; [reflexivity|]. cbn [denote]. rewrite D, !popi_den. reflexivity.
  Qed.

  Lemma run_mulmod a b c : wf ev eb a -> wf ev eb b -> wf ev eb c ->
    exists r, run3_ref MULMOD a b c = Ok r /\ dn r = evm_mulmod (dn a) (dn b) (dn c).
  Proof.
    intros Ha Hb Hc. cbn [run3_ref].
    destruct (bv_mulmod_den 256 (popi a) (popi b) (popi c)) as [r [E D]]; try side.
    rewrite E. eexists; split; [reflexivity|]. cbn [denote]. rewrite D, !popi_den. reflexivity.
  Qed.

  (* ================================================================ SEVM.arith path constraints *)
  Lemma arith_axioms_valid o a b c : wf ev eb a -> wf ev eb b ->
    In c (arith_axioms_ref o a b) -> beval ev eb c = true.
  Proof.
    intros Ha Hb Hin.
    pose proof (popi_wf a Ha) as Wa. pose proof (popi_wf b Hb) as Wb.
    destruct o; cbn [arith_axioms_ref] in Hin; try contradiction.
    - destruct (bv_div_den 256 (popi a) (popi b) ltac:(lia) Wa Wb) as [r [E D]].
      rewrite E in Hin. destruct r as [v|t]; [contradiction|].
      destruct Hin as [<-|[]].
      change (bvule (eval ev eb t) (eval ev eb (z3_of 256 (popi a))) = true).
      rewrite z3_of_den by assumption. cbn [bv_den] in D. rewrite D. unfold bvule. apply Z.leb_le.
      unfold bvwf in Wa, Wb. destruct (Z.eqb_spec (den (popi b)) 0); [lia|].
      pose proof (div_range (den (popi a)) (den (popi b)) (den (popi a) + 1) ltac:(lia) ltac:(lia)). lia.
    - destruct (bv_mod_den 256 (popi a) (popi b) ltac:(lia) Wa Wb) as [r [E D]].
      rewrite E in Hin. destruct r as [v|t]; [contradiction|].
      destruct Hin as [<-|[]].
      change (bvule (eval ev eb t) (eval ev eb (z3_of 256 (popi b))) = true).
      rewrite z3_of_den by assumption. cbn [bv_den] in D. rewrite D. unfold bvule. apply Z.leb_le.
      unfold bvwf in Wa, Wb. destruct (Z.eqb_spec (den (popi b)) 0); [lia|].
      pose proof (Z.mod_pos_bound (den (popi a)) (den (popi b)) ltac:(lia)). lia.
  Qed.


  (* ================================================================ representation independence *)
  Definition spec2 (o : op) : Z -> Z -> Z :=
    match o with
    | ADD => evm_add | MUL => evm_mul | SUB => evm_sub | DIV => evm_div | SDIV => evm_sdiv
    | MOD => evm_mod | SMOD => evm_smod | EXP => evm_exp | SIGNEXTEND => evm_signextend
    | LT => evm_lt | GT => evm_gt | SLT => evm_slt | SGT => evm_sgt | EQ => evm_eq
    | AND => evm_and | OR => evm_or | XOR => evm_xor | BYTE => evm_byte
    | SHL => evm_shl | SHR => evm_shr | SAR => evm_sar
    end.

  Ltac use_run L E :=
    let r' := fresh "r'" in let E' := fresh "E'" in let D := fresh "D" in
    destruct L as [r' [E' D]]; rewrite E' in E; injection E as <-; exact D.

  Lemma run2_spec sebc o a b r : wf ev eb a -> wf ev eb b ->
    run2_ref sebc o a b = Ok r -> dn r = spec2 o (dn a) (dn b).
  Proof.
    intros Ha Hb E. destruct o; cbn [spec2].
    - use_run (run_add sebc a b Ha Hb) E.
    - use_run (run_mul sebc a b Ha Hb) E.
    - use_run (run_sub sebc a b Ha Hb) E.
    - use_run (run_div sebc a b Ha Hb) E.
    - use_run (run_sdiv sebc a b Ha Hb) E.
    - use_run (run_mod sebc a b Ha Hb) E.
    - use_run (run_smod sebc a b Ha Hb) E.
    - use_run (run_exp sebc a b Ha Hb) E.
    - destruct (popi a) as [s|t] eqn:P.
      + use_run (run_signextend sebc a b s Ha Hb P) E.
      + rewrite (run_signextend_symbolic sebc a b t P) in E. discriminate.
    - use_run (run_lt sebc a b Ha Hb) E.
    - use_run (run_gt sebc a b Ha Hb) E.
    - use_run (run_slt sebc a b Ha Hb) E.
    - use_run (run_sgt sebc a b Ha Hb) E.
    - use_run (run_eq sebc a b Ha Hb) E.
    - use_run (run_and sebc a b Ha Hb) E.
    - use_run (run_or sebc a b Ha Hb) E.
    - use_run (run_xor sebc a b Ha Hb) E.
    - use_run (run_byte sebc a b Ha Hb) E.
    - use_run (run_shl sebc a b Ha Hb) E.
    - use_run (run_shr sebc a b Ha Hb) E.
    - use_run (run_sar sebc a b Ha Hb) E.
  Qed.

  Lemma run2_total sebc o a b : wf ev eb a -> wf ev eb b ->
    (o = SIGNEXTEND -> exists s, popi a = Cv s) ->
    exists r, run2_ref sebc o a b = Ok r.
  Proof.
    intros Ha Hb Hs.
    destruct o;
      try (match goal with
           | |- exists r, run2_ref _ ?o _ _ = _ => idtac
           end).
    - destruct (run_add sebc a b Ha Hb) as [r [E _]]; eauto.
    - destruct (run_mul sebc a b Ha Hb) as [r [E _]]; eauto.
    - destruct (run_sub sebc a b Ha Hb) as [r [E _]]; eauto.
    - destruct (run_div sebc a b Ha Hb) as [r [E _]]; eauto.
    - destruct (run_sdiv sebc a b Ha Hb) as [r [E _]]; eauto.
    - destruct (run_mod sebc a b Ha Hb) as [r [E _]]; eauto.
    - destruct (run_smod sebc a b Ha Hb) as [r [E _]]; eauto.
    - destruct (run_exp sebc a b Ha Hb) as [r [E _]]; eauto.
    - destruct (Hs eq_refl) as [s P]. destruct (run_signextend sebc a b s Ha Hb P) as [r [E _]]; eauto.
    - destruct (run_lt sebc a b Ha Hb) as [r [E _]]; eauto.
    - destruct (run_gt sebc a b Ha Hb) as [r [E _]]; eauto.
    - destruct (run_slt sebc a b Ha Hb) as [r [E _]]; eauto.
    - destruct (run_sgt sebc a b Ha Hb) as [r [E _]]; eauto.
    - destruct (run_eq sebc a b Ha Hb) as [r [E _]]; eauto.
    - destruct (run_and sebc a b Ha Hb) as [r [E _]]; eauto.
    - destruct (run_or sebc a b Ha Hb) as [r [E _]]; eauto.
    - destruct (run_xor sebc a b Ha Hb) as [r [E _]]; eauto.
    - destruct (run_byte sebc a b Ha Hb) as [r [E _]]; eauto.
    - destruct (run_shl sebc a b Ha Hb) as [r [E _]]; eauto.
    - destruct (run_shr sebc a b Ha Hb) as [r [E _]]; eauto.
    - destruct (run_sar sebc a b Ha Hb) as [r [E _]]; eauto.
  Qed.

  (* the denotation of a result depends only on the denotations of the operands: every concrete
     fast path agrees with the symbolic path, in every mix of representations *)
  Lemma run2_fast_agree sebc o a b a' b' r r' :
    wf ev eb a -> wf ev eb b -> wf ev eb a' -> wf ev eb b' ->
    dn a = dn a' -> dn b = dn b' ->
    run2_ref sebc o a b = Ok r -> run2_ref sebc o a' b' = Ok r' -> dn r = dn r'.
  Proof.
    intros Ha Hb Ha' Hb' Ea Eb E E'.
    rewrite (run2_spec sebc o a b r Ha Hb E), (run2_spec sebc o a' b' r' Ha' Hb' E'), Ea, Eb. reflexivity.
  Qed.

  Lemma run3_fast_agree o a b c a' b' c' r r' :
    wf ev eb a -> wf ev eb b -> wf ev eb c -> wf ev eb a' -> wf ev eb b' -> wf ev eb c' ->
    dn a = dn a' -> dn b = dn b' -> dn c = dn c' ->
    run3_ref o a b c = Ok r -> run3_ref o a' b' c' = Ok r' -> dn r = dn r'.
  Proof.
    intros Ha Hb Hc Ha' Hb' Hc' Ea Eb Ec E E'.
    destruct o.
    - destruct (run_addmod a b c Ha Hb Hc) as [s [F D]]. rewrite F in E; injection E as <-.
      destruct (run_addmod a' b' c' Ha' Hb' Hc') as [s' [F' D']]. rewrite F' in E'; injection E' as <-.
      rewrite D, D', Ea, Eb, Ec. reflexivity.
    - destruct (run_mulmod a b c Ha Hb Hc) as [s [F D]]. rewrite F in E; injection E as <-.
      destruct (run_mulmod a' b' c' Ha' Hb' Hc') as [s' [F' D']]. rewrite F' in E'; injection E' as <-.
      rewrite D, D', Ea, Eb, Ec. reflexivity.
  Qed.

  Lemma run3_total o a b c : wf ev eb a -> wf ev eb b -> wf ev eb c ->
    exists r, run3_ref o a b c = Ok r.
  Proof.
    intros Ha Hb Hc. destruct o.
    - destruct (run_addmod a b c Ha Hb Hc) as [r [E _]]; eauto.
    - destruct (run_mulmod a b c Ha Hb Hc) as [r [E _]]; eauto.
  Qed.

End WithEnv.

(* ================================================================ promptness of the concrete paths *)
(* every concrete-path return expression regenerated from bitvec.py is evaluated on integers of
   at most about twice the word size: nothing like the unreduced lhs ** rhs is materialised *)
Lemma py_bits_bound n v : 0 < n -> 0 <= v < 2 ^ n -> 1 <= py_bits v <= n.
Proof.
  intros Hn Hv. unfold py_bits. rewrite Z.abs_eq by lia.
  destruct (Z.eq_dec v 0) as [->|Hne]; [cbn; lia|].
  pose proof (Z.log2_nonneg v). assert (Z.log2 v < n) by (apply Z.log2_lt_pow2; lia). lia.
Qed.

Lemma py_bits_size n : 0 < n -> 1 <= py_bits n <= n.
Proof.
  intros Hn. apply py_bits_bound; [assumption|]. split; [lia|]. apply Z.pow_gt_lin_r; lia.
Qed.

Lemma exp_prompt n x y : 0 < n -> 0 <= x < 2 ^ n -> 0 <= y < 2 ^ n ->
  exp_work n (Cv x) (Cv y) <= 2 * n + 2.
Proof.
  intros Hn Hx Hy. unfold exp_work. destruct (g_exp_1 y || g_exp_2 y); [lia|].
  unfold rw_exp_1.
  pose proof (py_bits_bound n x Hn Hx). pose proof (py_bits_bound n y Hn Hy). pose proof (py_bits_size n Hn).
  lia.
Qed.

Lemma conc_work_bounded n x y z k : 0 < n ->
  0 <= x < 2 ^ n -> 0 <= y < 2 ^ n -> 0 <= z < 2 ^ n -> 0 <= k < 2 ^ n -> g_lshl_2 k n = false ->
  rw_add_1 y x <= n + 1 /\ rw_sub_1 y x <= n + 1 /\ rw_mul_1 x y <= 2 * n /\
  rw_div_1 x y <= n /\ rw_mod_1 x y <= n /\ rw_exp_1 x y n <= 2 * n + 2 /\
  rw_addmod_1 z y x <= n + 1 /\ rw_mulmod_1 z y x <= 2 * n /\
  rw_lshl_1 x k <= 2 * n /\ rw_lshr_1 x y <= n /\ rw_bitwise_not_1 n x <= n + 2 /\
  rw_bitwise_and_1 y x <= n /\ rw_bitwise_or_1 y x <= n /\ rw_bitwise_xor_1 y x <= n.
Proof.
  intros Hn Hx Hy Hz Hk Hg. unfold g_lshl_2 in Hg.
  pose proof (py_bits_bound n x Hn Hx). pose proof (py_bits_bound n y Hn Hy).
  pose proof (py_bits_bound n z Hn Hz). pose proof (py_bits_bound n k Hn Hk). pose proof (py_bits_size n Hn).
  unfold rw_add_1, rw_sub_1, rw_mul_1, rw_div_1, rw_mod_1, rw_exp_1, rw_addmod_1, rw_mulmod_1,
    rw_lshl_1, rw_lshr_1, rw_bitwise_not_1, rw_bitwise_and_1, rw_bitwise_or_1, rw_bitwise_xor_1.
  repeat split; lia.
Qed.

(* the concrete-path expressions without `//` / `%` have no divisor at all *)
Lemma conc_no_divisors n x y k :
  rd_add_1 y x = [] /\ rd_sub_1 y x = [] /\ rd_mul_1 x y = [] /\ rd_exp_1 x y n = [] /\ rd_lshl_1 x k = [] /\
  rd_lshr_1 x k = [] /\ rd_bitwise_not_1 n x = [] /\ rd_bitwise_and_1 y x = [] /\ rd_bitwise_or_1 y x = [] /\
  rd_bitwise_xor_1 y x = [].
Proof. repeat split; reflexivity. Qed.

(* latent: with abstraction=None (never used by sevm.py) a symbolic zero divisor gives the
   SMT-LIB value 2^n - 1, and sdiv raises TypeError *)
Lemma div_noabs_latent :
  exists ev eb a b r, bvwf ev eb 256 a /\ bvwf ev eb 256 b /\ bv_div 256 None a b = Ok r /\
    bv_den ev eb r <> evm_div (bv_den ev eb a) (bv_den ev eb b).
Proof.
  exists (fun id => if id =? 0 then 7 else 0), (fun _ => false), (Sv (TVar 0)), (Sv (TVar 1)).
  eexists. split; [split; [cbn; lia|reflexivity]|]. split; [split; [cbn; lia|reflexivity]|].
  split; [reflexivity|]. vm_compute. discriminate.
Qed.

Lemma sdiv_noabs_latent : forall n t u, bv_sdiv n None (Sv t) (Sv u) = Err ETypeError.
Proof. reflexivity. Qed.

(* ================================================================ statements over [in_word (denote a)] *)
Lemma wf_iw ev eb a : in_word (denote ev eb a) -> wf ev eb a.
Proof. destruct a as [x|p]; cbn [wf denote]; [exact (fun H => H)|exact (fun _ => I)]. Qed.

Lemma P_ADD ev eb sebc a b : in_word (denote ev eb a) -> in_word (denote ev eb b) ->
  exists r, run2 sebc ADD a b = Ok r /\ denote ev eb r = evm_add (denote ev eb a) (denote ev eb b).
Proof. intros Ha Hb. rewrite ?run2_is_ref, ?run1_is_ref, ?run3_is_ref in *. apply run_add; apply wf_iw; assumption. Qed.

Lemma P_MUL ev eb sebc a b : in_word (denote ev eb a) -> in_word (denote ev eb b) ->
  exists r, run2 sebc MUL a b = Ok r /\ denote ev eb r = evm_mul (denote ev eb a) (denote ev eb b).
Proof. intros Ha Hb. rewrite ?run2_is_ref, ?run1_is_ref, ?run3_is_ref in *. apply run_mul; apply wf_iw; assumption. Qed.

Lemma P_SUB ev eb sebc a b : in_word (denote ev eb a) -> in_word (denote ev eb b) ->
  exists r, run2 sebc SUB a b = Ok r /\ denote ev eb r = evm_sub (denote ev eb a) (denote ev eb b).
Proof. intros Ha Hb. rewrite ?run2_is_ref, ?run1_is_ref, ?run3_is_ref in *. apply run_sub; apply wf_iw; assumption. Qed.

Lemma P_DIV ev eb sebc a b : in_word (denote ev eb a) -> in_word (denote ev eb b) ->
  exists r, run2 sebc DIV a b = Ok r /\ denote ev eb r = evm_div (denote ev eb a) (denote ev eb b).
Proof. intros Ha Hb. rewrite ?run2_is_ref, ?run1_is_ref, ?run3_is_ref in *. apply run_div; apply wf_iw; assumption. Qed.

Lemma P_SDIV ev eb sebc a b : in_word (denote ev eb a) -> in_word (denote ev eb b) ->
  exists r, run2 sebc SDIV a b = Ok r /\ denote ev eb r = evm_sdiv (denote ev eb a) (denote ev eb b).
Proof. intros Ha Hb. rewrite ?run2_is_ref, ?run1_is_ref, ?run3_is_ref in *. apply run_sdiv; apply wf_iw; assumption. Qed.

Lemma P_MOD ev eb sebc a b : in_word (denote ev eb a) -> in_word (denote ev eb b) ->
  exists r, run2 sebc MOD a b = Ok r /\ denote ev eb r = evm_mod (denote ev eb a) (denote ev eb b).
Proof. intros Ha Hb. rewrite ?run2_is_ref, ?run1_is_ref, ?run3_is_ref in *. apply run_mod; apply wf_iw; assumption. Qed.

Lemma P_SMOD ev eb sebc a b : in_word (denote ev eb a) -> in_word (denote ev eb b) ->
  exists r, run2 sebc SMOD a b = Ok r /\ denote ev eb r = evm_smod (denote ev eb a) (denote ev eb b).
Proof. intros Ha Hb. rewrite ?run2_is_ref, ?run1_is_ref, ?run3_is_ref in *. apply run_smod; apply wf_iw; assumption. Qed.

Lemma P_EXP ev eb sebc a b : in_word (denote ev eb a) -> in_word (denote ev eb b) ->
  exists r, run2 sebc EXP a b = Ok r /\ denote ev eb r = evm_exp (denote ev eb a) (denote ev eb b).
Proof. intros Ha Hb. rewrite ?run2_is_ref, ?run1_is_ref, ?run3_is_ref in *. apply run_exp; apply wf_iw; assumption. Qed.

Lemma P_LT ev eb sebc a b : in_word (denote ev eb a) -> in_word (denote ev eb b) ->
  exists r, run2 sebc LT a b = Ok r /\ denote ev eb r = evm_lt (denote ev eb a) (denote ev eb b).
Proof. intros Ha Hb. rewrite ?run2_is_ref, ?run1_is_ref, ?run3_is_ref in *. apply run_lt; apply wf_iw; assumption. Qed.

Lemma P_GT ev eb sebc a b : in_word (denote ev eb a) -> in_word (denote ev eb b) ->
  exists r, run2 sebc GT a b = Ok r /\ denote ev eb r = evm_gt (denote ev eb a) (denote ev eb b).
Proof. intros Ha Hb. rewrite ?run2_is_ref, ?run1_is_ref, ?run3_is_ref in *. apply run_gt; apply wf_iw; assumption. Qed.

Lemma P_SLT ev eb sebc a b : in_word (denote ev eb a) -> in_word (denote ev eb b) ->
  exists r, run2 sebc SLT a b = Ok r /\ denote ev eb r = evm_slt (denote ev eb a) (denote ev eb b).
Proof. intros Ha Hb. rewrite ?run2_is_ref, ?run1_is_ref, ?run3_is_ref in *. apply run_slt; apply wf_iw; assumption. Qed.

Lemma P_SGT ev eb sebc a b : in_word (denote ev eb a) -> in_word (denote ev eb b) ->
  exists r, run2 sebc SGT a b = Ok r /\ denote ev eb r = evm_sgt (denote ev eb a) (denote ev eb b).
Proof. intros Ha Hb. rewrite ?run2_is_ref, ?run1_is_ref, ?run3_is_ref in *. apply run_sgt; apply wf_iw; assumption. Qed.

Lemma P_EQ ev eb sebc a b : in_word (denote ev eb a) -> in_word (denote ev eb b) ->
  exists r, run2 sebc EQ a b = Ok r /\ denote ev eb r = evm_eq (denote ev eb a) (denote ev eb b).
Proof. intros Ha Hb. rewrite ?run2_is_ref, ?run1_is_ref, ?run3_is_ref in *. apply run_eq; apply wf_iw; assumption. Qed.

Lemma P_AND ev eb sebc a b : in_word (denote ev eb a) -> in_word (denote ev eb b) ->
  exists r, run2 sebc AND a b = Ok r /\ denote ev eb r = evm_and (denote ev eb a) (denote ev eb b).
Proof. intros Ha Hb. rewrite ?run2_is_ref, ?run1_is_ref, ?run3_is_ref in *. apply run_and; apply wf_iw; assumption. Qed.

Lemma P_OR ev eb sebc a b : in_word (denote ev eb a) -> in_word (denote ev eb b) ->
  exists r, run2 sebc OR a b = Ok r /\ denote ev eb r = evm_or (denote ev eb a) (denote ev eb b).
Proof. intros Ha Hb. rewrite ?run2_is_ref, ?run1_is_ref, ?run3_is_ref in *. apply run_or; apply wf_iw; assumption. Qed.

Lemma P_XOR ev eb sebc a b : in_word (denote ev eb a) -> in_word (denote ev eb b) ->
  exists r, run2 sebc XOR a b = Ok r /\ denote ev eb r = evm_xor (denote ev eb a) (denote ev eb b).
Proof. intros Ha Hb. rewrite ?run2_is_ref, ?run1_is_ref, ?run3_is_ref in *. apply run_xor; apply wf_iw; assumption. Qed.

Lemma P_BYTE ev eb sebc a b : in_word (denote ev eb a) -> in_word (denote ev eb b) ->
  exists r, run2 sebc BYTE a b = Ok r /\ denote ev eb r = evm_byte (denote ev eb a) (denote ev eb b).
Proof. intros Ha Hb. rewrite ?run2_is_ref, ?run1_is_ref, ?run3_is_ref in *. apply run_byte; apply wf_iw; assumption. Qed.

Lemma P_SHL ev eb sebc a b : in_word (denote ev eb a) -> in_word (denote ev eb b) ->
  exists r, run2 sebc SHL a b = Ok r /\ denote ev eb r = evm_shl (denote ev eb a) (denote ev eb b).
Proof. intros Ha Hb. rewrite ?run2_is_ref, ?run1_is_ref, ?run3_is_ref in *. apply run_shl; apply wf_iw; assumption. Qed.

Lemma P_SHR ev eb sebc a b : in_word (denote ev eb a) -> in_word (denote ev eb b) ->
  exists r, run2 sebc SHR a b = Ok r /\ denote ev eb r = evm_shr (denote ev eb a) (denote ev eb b).
Proof. intros Ha Hb. rewrite ?run2_is_ref, ?run1_is_ref, ?run3_is_ref in *. apply run_shr; apply wf_iw; assumption. Qed.

Lemma P_SAR ev eb sebc a b : in_word (denote ev eb a) -> in_word (denote ev eb b) ->
  exists r, run2 sebc SAR a b = Ok r /\ denote ev eb r = evm_sar (denote ev eb a) (denote ev eb b).
Proof. intros Ha Hb. rewrite ?run2_is_ref, ?run1_is_ref, ?run3_is_ref in *. apply run_sar; apply wf_iw; assumption. Qed.

Lemma P_SIGNEXTEND ev eb sebc a b s : in_word (denote ev eb a) -> in_word (denote ev eb b) -> popi a = Cv s ->
  exists r, run2 sebc SIGNEXTEND a b = Ok r /\ denote ev eb r = evm_signextend (denote ev eb a) (denote ev eb b).
Proof. intros Ha Hb E. rewrite ?run2_is_ref, ?run1_is_ref, ?run3_is_ref in *. apply (run_signextend ev eb sebc a b s); try apply wf_iw; assumption. Qed.

Lemma P_SIGNEXTEND_symbolic sebc a b t : popi a = Sv t -> run2 sebc SIGNEXTEND a b = Err ENotConcrete.
Proof. intros E. rewrite run2_is_ref. exact (run_signextend_symbolic sebc a b t E). Qed.

Lemma P_ISZERO ev eb a : in_word (denote ev eb a) ->
  exists r, run1 ISZERO a = Ok r /\ denote ev eb r = evm_iszero (denote ev eb a).
Proof. intros Ha. rewrite ?run2_is_ref, ?run1_is_ref, ?run3_is_ref in *. apply run_iszero; apply wf_iw; assumption. Qed.

Lemma iw_bool ev eb v : wf ev eb v -> in_word (denote ev eb v).
Proof.
  destruct v as [x|p]; cbn [wf denote]; intros Hv; [exact Hv|].
  destruct (bl_den ev eb p); split; try reflexivity; cbn; lia.
Qed.

Lemma P_NOT ev eb a : in_word (denote ev eb a) ->
  exists r, run1 NOT a = Ok r /\ denote ev eb r = evm_not (denote ev eb a).
Proof. intros Ha. rewrite ?run2_is_ref, ?run1_is_ref, ?run3_is_ref in *. apply run_not; apply wf_iw; assumption. Qed.

Lemma P_NOT_bool ev eb p :
  exists r, run1 NOT (VBool p) = Ok r /\ denote ev eb r = W - 1 - b2w (bl_den ev eb p).
Proof. rewrite run1_is_ref. apply (run_not ev eb (VBool p)). exact I. Qed.

Lemma P_ADDMOD ev eb a b c : in_word (denote ev eb a) -> in_word (denote ev eb b) -> in_word (denote ev eb c) ->
  exists r, run3 ADDMOD a b c = Ok r /\ denote ev eb r = evm_addmod (denote ev eb a) (denote ev eb b) (denote ev eb c).
Proof. intros Ha Hb Hc. rewrite ?run2_is_ref, ?run1_is_ref, ?run3_is_ref in *. apply run_addmod; apply wf_iw; assumption. Qed.

Lemma P_MULMOD ev eb a b c : in_word (denote ev eb a) -> in_word (denote ev eb b) -> in_word (denote ev eb c) ->
  exists r, run3 MULMOD a b c = Ok r /\ denote ev eb r = evm_mulmod (denote ev eb a) (denote ev eb b) (denote ev eb c).
Proof. intros Ha Hb Hc. rewrite ?run2_is_ref, ?run1_is_ref, ?run3_is_ref in *. apply run_mulmod; apply wf_iw; assumption. Qed.

Lemma P_total3 ev eb o a b c : in_word (denote ev eb a) -> in_word (denote ev eb b) -> in_word (denote ev eb c) ->
  exists r, run3 o a b c = Ok r.
Proof. intros Ha Hb Hc. rewrite ?run2_is_ref, ?run1_is_ref, ?run3_is_ref in *. apply (run3_total ev eb); apply wf_iw; assumption. Qed.

Lemma P_total1 ev eb o a : in_word (denote ev eb a) -> exists r, run1 o a = Ok r.
Proof.
  intros Ha. rewrite run1_is_ref. destruct o.
  - destruct (run_iszero ev eb a (wf_iw ev eb a Ha)) as [r [E _]]; eauto.
  - destruct (run_not ev eb a (wf_iw ev eb a Ha)) as [r [E _]]; eauto.
Qed.

Lemma frame_gen (R : res st) (R0 : res st) (v : res val) rest path :
  obs R = obs_ref v rest path -> obs R0 = obs_ref v [] path ->
  match R with
  | Ok s => exists r, only R0 = Ok r /\ stk s = r :: rest /\ pth s = (match R0 with Ok s0 => pth s0 | Err _ => [] end)
  | Err e => only R0 = Err e
  end.
Proof.
  intros H H0. destruct R as [s|e], R0 as [s0|e0], v as [w|e']; cbn in *; try congruence.
  injection H as H1 H2. injection H0 as H3 H4. exists w. rewrite H3. repeat split; congruence.
Qed.

Lemma P_frame2 sebc o a b rest :
  match run2s sebc o a b rest with
  | Ok s => exists r, run2 sebc o a b = Ok r /\ stk s = r :: rest /\ pth s = arith_axioms sebc o a b
  | Err e => run2 sebc o a b = Err e
  end.
Proof. exact (frame_gen _ _ _ _ _ (run2s_is_ref sebc o a b rest) (run2s_is_ref sebc o a b [])). Qed.

Lemma P_frame1 o a rest :
  match run1s o a rest with
  | Ok s => exists r, run1 o a = Ok r /\ stk s = r :: rest /\ pth s = []
  | Err e => run1 o a = Err e
  end.
Proof.
  pose proof (frame_gen _ _ _ _ _ (run1s_is_ref o a rest) (run1s_is_ref o a [])) as H.
  pose proof (run1s_is_ref o a []) as H0. fold (run1 o a) in H.
  destruct (run1s o a rest) as [s|e]; [|exact H]. destruct H as [r [E [S P]]]. exists r. repeat split; try assumption.
  rewrite P. destruct (run1s o a []) as [s0|e0]; [|reflexivity].
  destruct (run1_ref o a); cbn in H0; [injection H0 as _ H1; exact H1|discriminate].
Qed.

Lemma P_frame3 o a b c rest :
  match run3s o a b c rest with
  | Ok s => exists r, run3 o a b c = Ok r /\ stk s = r :: rest /\ pth s = []
  | Err e => run3 o a b c = Err e
  end.
Proof.
  pose proof (frame_gen _ _ _ _ _ (run3s_is_ref o a b c rest) (run3s_is_ref o a b c [])) as H.
  pose proof (run3s_is_ref o a b c []) as H0. fold (run3 o a b c) in H.
  destruct (run3s o a b c rest) as [s|e]; [|exact H]. destruct H as [r [E [S P]]]. exists r. repeat split; try assumption.
  rewrite P. destruct (run3s o a b c []) as [s0|e0]; [|reflexivity].
  destruct (run3_ref o a b c); cbn in H0; [injection H0 as _ H1; exact H1|discriminate].
Qed.

Lemma P_prompt_EXP a e : 0 <= a < 2 ^ 256 -> 0 <= e < 2 ^ 256 ->
  exp_work 256 (Cv a) (Cv e) <= 514 /\
  exists r, bv_exp 256 (Some Fexp) (Some Fmul) 2 (Cv a) (Cv e) = Ok r /\
    bv_den (fun _ => 0) (fun _ => false) r = (a ^ e) mod 2 ^ 256.
Proof.
  intros Ha He. split.
  - exact (exp_prompt 256 a e ltac:(reflexivity) Ha He).
  - exact (bv_exp_den (fun _ => 0) (fun _ => false) 256 2 (Cv a) (Cv e) ltac:(reflexivity) Ha He).
Qed.

(* all-concrete ADDMOD / MULMOD with modulus 0: answered by the `modulus.value == 0` guard *)
Lemma P_modzero o a b c x y : popi a = Cv x -> popi b = Cv y -> popi c = Cv 0 ->
  run3 o a b c = Ok (VBV (Cv 0)).
Proof. intros Ea Eb Ec. rewrite run3_is_ref. destruct o; cbn [run3_ref]; rewrite Ea, Eb, Ec; reflexivity. Qed.

Lemma P_total ev eb sebc o a b : in_word (denote ev eb a) -> in_word (denote ev eb b) ->
  (o = SIGNEXTEND -> exists s, popi a = Cv s) ->
  exists r, run2 sebc o a b = Ok r.
Proof. intros Ha Hb Hs. rewrite ?run2_is_ref, ?run1_is_ref, ?run3_is_ref in *. apply (run2_total ev eb); try apply wf_iw; assumption. Qed.

Lemma P_fast_agree ev eb sebc o a b a' b' r r' :
  in_word (denote ev eb a) -> in_word (denote ev eb b) -> in_word (denote ev eb a') -> in_word (denote ev eb b') ->
  denote ev eb a = denote ev eb a' -> denote ev eb b = denote ev eb b' ->
  run2 sebc o a b = Ok r -> run2 sebc o a' b' = Ok r' -> denote ev eb r = denote ev eb r'.
Proof. intros. rewrite ?run2_is_ref, ?run1_is_ref, ?run3_is_ref in *. eapply (run2_fast_agree ev eb sebc o a b a' b'); try apply wf_iw; eassumption. Qed.

Lemma P_fast_agree3 ev eb o a b c a' b' c' r r' :
  in_word (denote ev eb a) -> in_word (denote ev eb b) -> in_word (denote ev eb c) ->
  in_word (denote ev eb a') -> in_word (denote ev eb b') -> in_word (denote ev eb c') ->
  denote ev eb a = denote ev eb a' -> denote ev eb b = denote ev eb b' -> denote ev eb c = denote ev eb c' ->
  run3 o a b c = Ok r -> run3 o a' b' c' = Ok r' -> denote ev eb r = denote ev eb r'.
Proof. intros. rewrite ?run2_is_ref, ?run1_is_ref, ?run3_is_ref in *. eapply (run3_fast_agree ev eb o a b c a' b' c'); try apply wf_iw; eassumption. Qed.

Lemma P_axioms ev eb sebc o a b c : in_word (denote ev eb a) -> in_word (denote ev eb b) ->
  In c (arith_axioms sebc o a b) -> beval ev eb c = true.
Proof.
  intros Ha Hb Hin. destruct (run2_ref sebc o a b) as [r|e] eqn:E.
  - rewrite (arith_axioms_is_ref sebc o a b (ex_intro _ r E)) in Hin.
    apply (arith_axioms_valid ev eb o a b c); try apply wf_iw; assumption.
  - exfalso. unfold arith_axioms in Hin. pose proof (run2s_is_ref sebc o a b []) as H.
    rewrite E in H. destruct (run2s sebc o a b []) as [s|e']; cbn in H; [discriminate|exact Hin].
Qed.

(* ================================================================ HalmosBool(<value>) and the singletons *)
Lemma hset_nonsingle_ok h r o : is_singleton r = false -> singles_ok h -> singles_ok (hset h r o).
Proof. destruct r; cbn; intros E H; try discriminate; exact H. Qed.

Lemma hb_init_ok simp r a h : singles_ok h -> singles_ok (hb_init simp true r a h).
Proof.
  intros H. unfold hb_init. destruct (is_singleton r) eqn:S; cbn [andb]; [exact H|].
  destruct a; try exact H; apply hset_nonsingle_ok; assumption.
Qed.

(* full strength: whatever is passed to HalmosBool(..) - also a term that simplifies to true / false,
   for which __new__ hands back the singleton - TRUE and FALSE keep con_val = True / False and
   sym_val = None *)
Lemma P_singletons_preserved simp a h : singles_ok h ->
  singles_ok (snd (hb_ctor simp hb_init_guards_singletons a h)).
Proof.
  intros H. change hb_init_guards_singletons with true.
  destruct a; cbn [hb_ctor snd]; repeat apply hb_init_ok; exact H.
Qed.

Lemma obj_den_true ev eb : obj_den ev eb obj_true = Some true.
Proof. reflexivity. Qed.
Lemma obj_den_false ev eb : obj_den ev eb obj_false = Some false.
Proof. reflexivity. Qed.

Lemma hget_hset_same h r o : hget (hset h r o) r = o.
Proof. destruct r; reflexivity. Qed.

(* one non-BitVec construction returns an object that denotes the value passed *)
Lemma hb_plain_den ev eb simp a h :
  (forall c, beval ev eb (simp c) = beval ev eb c) -> singles_ok h ->
  (forall n x, a <> ABitVec n x) ->
  let r := hb_new simp a in
  obj_den ev eb (hget (hb_init simp true r a h) r) = arg_den ev eb h a.
Proof.
  intros Hs [HT HF] Hnb. cbv zeta. destruct a as [b|c|id|r|n x]; [| | | |exfalso; eapply Hnb; reflexivity].
  - destruct b; cbn; [rewrite HT|rewrite HF]; reflexivity.
  - cbn [hb_new arg_den]. pose proof (Hs c) as E.
    unfold hb_init.
    destruct (simp c) as [i|[|]| | | | | | |] eqn:S; cbn [is_singleton andb];
      try (rewrite hget_hset_same; cbn [obj_den o_con o_sym]; f_equal; exact E).
    + cbn [hget]. rewrite HT. cbn in E. rewrite <- E. reflexivity.
    + cbn [hget]. rewrite HF. cbn in E. rewrite <- E. reflexivity.
  - reflexivity.
  - cbn [hb_new arg_den]. unfold hb_init. destruct (is_singleton r); reflexivity.
Qed.

Lemma P_bool_ctor_denotes ev eb simp a h :
  (forall c, beval ev eb (simp c) = beval ev eb c) -> singles_ok h ->
  obj_den ev eb (hget (snd (hb_ctor simp hb_init_guards_singletons a h))
                      (fst (hb_ctor simp hb_init_guards_singletons a h))) = arg_den ev eb h a.
Proof.
  intros Hs H. change hb_init_guards_singletons with true.
  destruct a as [b|c|id|r|n x];
    try (apply (hb_plain_den ev eb simp _ h Hs H); intros; discriminate).
  cbn [hb_ctor fst snd arg_den].
  set (inner := match x with Cv v => ABool (negb (v =? 0)) | Sv t => ATerm (BNot (BEq t (TConst n 0))) end).
  assert (Hi : forall n' x', inner <> ABitVec n' x') by (intros; unfold inner; destruct x; discriminate).
  pose proof (hb_plain_den ev eb simp inner h Hs H Hi) as D. cbv zeta in D.
  (* the outer __init__ with a HalmosBitVec value stores nothing *)
  assert (E : forall r h', hb_init simp true r (ABitVec n x) h' = h').
  { intros r h'. unfold hb_init. destruct (is_singleton r); reflexivity. }
  rewrite E, D. unfold inner. destruct x as [v|t]; cbn [arg_den bv_den beval eval].
  - reflexivity.
  - unfold bvmod. rewrite Zmod_0_l. reflexivity.
Qed.

(* without the guard (the code before the repair) the singleton IS overwritten: the guard is what the
   theorem rests on *)
Lemma singleton_unguarded_corrupts :
  let h0 := {| hT := obj_true; hF := obj_false; hN := {| o_con := None; o_sym := None |}; hO := {| o_con := None; o_sym := Some (BVar 1) |} |} in
  singles_ok h0 /\
  ~ singles_ok (snd (hb_ctor (fun _ => BConst true) false (ATerm (BVar 0)) h0)) /\
  singles_ok (snd (hb_ctor (fun _ => BConst true) true (ATerm (BVar 0)) h0)).
Proof.
  cbv zeta. split; [split; reflexivity|]. split; [|split; reflexivity].
  intros [H _]. cbn in H. discriminate H.
Qed.
