(* Proofs about Model/BitVecModel.v: every opcode arm of the dispatch layer denotes the EVM
   result (Base/Word.v) for all operand values, valuations and operand representations. *)
From Coq Require Import ZArith Lia ZifyBool List Bool.
From HV Require Import Base.Word Base.SmtBV Gen.GenBitvecGuards Model.BitVecModel.
Import ListNotations.
Open Scope Z_scope.

Ltac Zify.zify_post_hook ::= Z.to_euclidean_division_equations.

(* ------------------------------------------------------------------ basics *)
Lemma pow2_pos n : 0 <= n -> 0 < 2 ^ n.
Proof. intros; apply Z.pow_pos_nonneg; lia. Qed.

Lemma mask_mod n v : 0 <= n -> py_mask n v = v mod 2 ^ n.
Proof. intros; unfold py_mask; apply Z.land_ones; assumption. Qed.

Lemma W_eq : W = 2 ^ 256.
Proof. reflexivity. Qed.

Definition bvwf ev eb (n : Z) (a : bv) : Prop := 0 <= bv_den ev eb a < 2 ^ n.
Definition wf ev eb (v : val) : Prop :=
  match v with VBV x => bvwf ev eb 256 x | VBool _ => True end.

Section WithEnv.
  Variable ev : Z -> Z.
  Variable eb : Z -> bool.
  Notation den := (bv_den ev eb).
  Notation bden := (bl_den ev eb).
  Notation dn := (denote ev eb).
  Notation wfn := (bvwf ev eb).

  Lemma z3_of_den n a : wfn n a -> eval ev eb (z3_of n a) = den a.
  Proof.
    unfold bvwf; destruct a as [v|t]; cbn [z3_of eval bv_den]; intros H; [|reflexivity].
    unfold bvmod; apply Z.mod_small; assumption.
  Qed.

  Lemma mk_int_den n v : 0 <= n -> den (mk_int n v) = v mod 2 ^ n.
  Proof. intros; cbn [mk_int bv_den]; apply mask_mod; assumption. Qed.

  Lemma mk_int_small n v : 0 <= n -> 0 <= v < 2 ^ n -> mk_int n v = Cv v.
  Proof. intros; unfold mk_int; rewrite mask_mod by assumption; rewrite Z.mod_small; auto. Qed.

  (* ---------------------------------------------------------------- add / sub *)
  Lemma bv_add_den n a b : 0 <= n -> wfn n a -> wfn n b ->
    den (bv_add n a b) = (den a + den b) mod 2 ^ n.
  Proof.
    intros Hn Ha Hb.
    destruct a as [x|t], b as [y|u]; cbn [bv_add]; try (apply mk_int_den; assumption);
      cbn [bv_den eval binop_eval]; rewrite !z3_of_den by assumption; reflexivity.
  Qed.

  Lemma bv_sub_den n a b : 0 <= n -> wfn n a -> wfn n b ->
    den (bv_sub n a b) = (den a - den b) mod 2 ^ n.
  Proof.
    intros Hn Ha Hb.
    destruct a as [x|t], b as [y|u]; cbn [bv_sub]; try (apply mk_int_den; assumption);
      cbn [bv_den eval binop_eval]; rewrite !z3_of_den by assumption; reflexivity.
  Qed.

  (* ---------------------------------------------------------------- popi *)
  Lemma b2w_range b : 0 <= b2w b < 2 ^ 256.
  Proof. destruct b; unfold b2w; split; first [lia | reflexivity]. Qed.

  Lemma popi_den v : den (popi v) = dn v.
  Proof.
    destruct v as [x|[[|]|c]]; cbn [popi denote bl_as_bv bv_den bl_den]; reflexivity.
  Qed.

  Lemma popi_wf v : wf ev eb v -> wfn 256 (popi v).
  Proof.
    intros H. unfold bvwf. rewrite popi_den.
    destruct v as [x|b]; cbn [denote]; [exact H | apply b2w_range].
  Qed.

  Lemma run_add sebc a b : wf ev eb a -> wf ev eb b ->
    exists r, run2 sebc ADD a b = Ok r /\ dn r = evm_add (dn a) (dn b).
  Proof.
    intros Ha Hb. eexists; split; [reflexivity|].
    cbn [denote]. rewrite bv_add_den by (try apply popi_wf; auto; lia).
    rewrite !popi_den. reflexivity.
  Qed.

  Lemma run_sub sebc a b : wf ev eb a -> wf ev eb b ->
    exists r, run2 sebc SUB a b = Ok r /\ dn r = evm_sub (dn a) (dn b).
  Proof.
    intros Ha Hb. eexists; split; [reflexivity|].
    cbn [denote]. rewrite bv_sub_den by (try apply popi_wf; auto; lia).
    rewrite !popi_den. reflexivity.
  Qed.
End WithEnv.
