(* Proofs about Model/ArithRwModel.v over the regenerated Gen/GenArithRw.v. *)
From Coq Require Import ZArith Bool Lia.
From HV Require Import Base.Word Gen.GenArithRw Model.ArithRwModel.
Open Scope Z_scope.
Ltac Zify.zify_post_hook ::= Z.to_euclidean_division_equations.

(* whatever the syntactic shape of the dividend, DIV evaluates to the EVM quotient -- for ALL operand values,
   in particular for a zero divisor (x / 0 = 0): no term-level simplification is applied that holds only for some values *)
Theorem arith_div_exact : forall x y shape, arith_div x y shape = evm_div x y.
Proof. intros x y shape. unfold arith_div, div_uses_xy_y. reflexivity. Qed.

(* the constraints appended to the path for a symbolic quotient / remainder hold for all words (so no input is lost) *)
Theorem div_side_valid : forall x y, in_word x -> in_word y -> div_side (evm_div x y) x y = true.
Proof.
  intros x y Hx Hy. unfold div_side, evm_div, in_word in *. apply Z.leb_le.
  destruct (y =? 0) eqn:E; [lia|]. apply Z.eqb_neq in E.
  apply Z.div_le_upper_bound; nia.
Qed.

Theorem mod_side_valid : forall x y, in_word x -> in_word y -> mod_side (evm_mod x y) x y = true.
Proof.
  intros x y Hx Hy. unfold mod_side, evm_mod, in_word in *. apply Z.leb_le.
  destruct (y =? 0) eqn:E; [lia|]. apply Z.eqb_neq in E.
  pose proof (Z.mod_pos_bound x y). lia.
Qed.

Theorem side_constraints_valid : forall x y, in_word x -> in_word y ->
  div_side (evm_div x y) x y = true /\ mod_side (evm_mod x y) x y = true.
Proof. intros x y Hx Hy. split; [apply div_side_valid | apply mod_side_valid]; assumption. Qed.

(* the rewrite itself is NOT an identity of the EVM: (a * 0) / 0 = 0, not a *)
Example xy_y_rewrite_is_not_valid_at_zero : evm_div (evm_mul 1 0) 0 <> 1.
Proof. vm_compute. discriminate. Qed.
