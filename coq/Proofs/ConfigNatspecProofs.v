(* build.parse_natspec (Model/ConfigModel.v): only the text of @custom:halmos tags reaches the
   result, whatever other tags and their text are, for any number of tags in any order. *)
From Coq Require Import ZArith List Bool Lia Arith ZifyBool.
From HV Require Import Gen.GenConfig Gen.GenConfigTime Gen.GenConfigMain Gen.GenConfigNatspec Spec.ConfigSpec
  Model.ConfigFloatModel Model.ConfigModel Proofs.ConfigCodecProofs.
Import ListNotations.
Open Scope Z_scope.

Lemma natspec_literals_pinned :
  natspec_split_re = [40; 64; 92; 83; 43; 41] /\ natspec_match_re = [94; 64; 92; 83] /\
  natspec_text_key = [116; 101; 120; 116] /\
  natspec_halmos_tag = [64; 99; 117; 115; 116; 111; 109; 58; 104; 97; 108; 109; 111; 115].
Proof. repeat split; reflexivity. Qed.

(* free text: no '@' *)
Definition no_at (s : list Z) : Prop := Forall (fun c => (c =? 64) = false) s.
(* a tag: '@' followed by a non-empty run of non-white-space characters *)
Definition tag_ok (t : list Z) : Prop :=
  exists d r, t = 64 :: d :: r /\ Forall (fun c => is_ws c = false) (d :: r).
(* the text of a tag: starts with white space (the tag is a maximal run), contains no '@' *)
Definition body_ok (b : list Z) : Prop :=
  no_at b /\ exists w r, b = w :: r /\ is_ws w = true.

Definition assemble (items : list (list Z * list Z)) (last : option (list Z)) : list Z :=
  concat (map (fun tb => fst tb ++ snd tb) items) ++ match last with Some t => t | None => [] end.

(* the items re.split returns after the leading text *)
Fixpoint out_items (items : list (list Z * list Z)) (last : option (list Z)) : list (list Z) :=
  match items with
  | [] => match last with Some t => [t; []] | None => [] end
  | (t, b) :: r => t :: b :: out_items r last
  end.

Lemma split_text : forall t rest cur, no_at t ->
  split_tags (t ++ rest) cur false = split_tags rest (rev t ++ cur) false.
Proof.
  induction t as [|c t IH]; intros rest cur H; [reflexivity|].
  inversion H as [|? ? Hc Ht]; subst. cbn [app split_tags]. rewrite Hc. cbn [andb].
  rewrite IH by exact Ht. cbn [rev]. rewrite <- app_assoc. reflexivity.
Qed.

Lemma split_in_tag : forall r rest cur, Forall (fun c => is_ws c = false) r ->
  split_tags (r ++ rest) cur true = split_tags rest (rev r ++ cur) true.
Proof.
  induction r as [|c r IH]; intros rest cur H; [reflexivity|].
  inversion H as [|? ? Hc Hr]; subst. cbn [app split_tags]. rewrite Hc.
  rewrite IH by exact Hr. cbn [rev]. rewrite <- app_assoc. reflexivity.
Qed.

Lemma split_tags_cons_false : forall c r cur,
  split_tags (c :: r) cur false =
  if (c =? 64) && next_nonws r then rev cur :: split_tags r [c] true else split_tags r (c :: cur) false.
Proof. reflexivity. Qed.

Lemma split_tags_cons_true : forall c r cur,
  split_tags (c :: r) cur true =
  if is_ws c then rev cur :: split_tags r [c] false else split_tags r (c :: cur) true.
Proof. reflexivity. Qed.

Lemma split_tag_start : forall d r rest cur, is_ws d = false ->
  split_tags (64 :: d :: r ++ rest) cur false = rev cur :: split_tags ((d :: r) ++ rest) [64] true.
Proof.
  intros d r rest cur Hd. rewrite split_tags_cons_false. cbn [next_nonws]. rewrite Hd.
  rewrite Z.eqb_refl. reflexivity.
Qed.

(* one tag with its text *)
Lemma split_item : forall t b rest cur, tag_ok t -> body_ok b ->
  split_tags (t ++ b ++ rest) cur false = rev cur :: t :: split_tags rest (rev b) false.
Proof.
  intros t b rest cur (d & r & -> & Hr) (Hb & w & b' & -> & Hw).
  inversion Hr as [|? ? Hd Hr']; subst.
  change ((64 :: d :: r) ++ (w :: b') ++ rest) with (64 :: d :: r ++ (w :: b' ++ rest)).
  rewrite (split_tag_start d r _ cur Hd). f_equal.
  rewrite (split_in_tag (d :: r) (w :: b' ++ rest) [64] Hr).
  rewrite split_tags_cons_true, Hw.
  rewrite rev_app_distr, rev_involutive. cbn [rev app]. f_equal.
  inversion Hb as [|? ? _ Hb']; subst.
  rewrite (split_text b' rest [w] Hb'). reflexivity.
Qed.

Lemma split_last_tag : forall t cur, tag_ok t -> split_tags t cur false = [rev cur; t; []].
Proof.
  intros t cur (d & r & -> & Hr). inversion Hr as [|? ? Hd Hr']; subst.
  rewrite <- (app_nil_r r) at 1. rewrite (split_tag_start d r [] cur Hd). f_equal.
  rewrite (split_in_tag (d :: r) [] [64] Hr). cbn [split_tags].
  rewrite rev_app_distr, rev_involutive. reflexivity.
Qed.

Lemma split_assembled : forall items last cur,
  Forall (fun tb => tag_ok (fst tb) /\ body_ok (snd tb)) items ->
  (forall t, last = Some t -> tag_ok t) ->
  split_tags (assemble items last) cur false = rev cur :: out_items items last.
Proof.
  induction items as [|[t b] r IH]; intros last cur Hok Hlast.
  - unfold assemble. cbn [map concat app out_items]. destruct last as [t|]; [apply split_last_tag; apply Hlast; reflexivity|reflexivity].
  - inversion Hok as [|? ? [Ht Hb] Hr]; subst. cbn [fst snd] in Ht, Hb.
    unfold assemble. cbn [map concat fst snd]. rewrite <- !app_assoc.
    rewrite (split_item t b _ cur Ht Hb). cbn [out_items]. f_equal. f_equal.
    fold (assemble r last). rewrite (IH last (rev b) Hr Hlast). rewrite rev_involutive. reflexivity.
Qed.

(* ---- the fold ---- *)

Lemma tag_is_tag_item : forall t, tag_ok t -> is_tag_item t = true.
Proof. intros t (d & r & -> & Hr). inversion Hr as [|? ? Hd _]; subst. cbn. rewrite Hd. reflexivity. Qed.

Lemma body_not_tag : forall b, body_ok b -> list_eqb b natspec_halmos_tag = false /\ is_tag_item b = false.
Proof.
  intros b (Hb & w & r & -> & Hw). inversion Hb as [|? ? Hw64 _]; subst. split.
  - unfold natspec_halmos_tag. cbn [list_eqb]. rewrite Hw64. reflexivity.
  - cbn [is_tag_item]. destruct r; [reflexivity|]. rewrite Hw64. reflexivity.
Qed.

Definition halmos_bodies (items : list (list Z * list Z)) : list Z :=
  concat (map snd (filter (fun tb => list_eqb (fst tb) natspec_halmos_tag) items)).

Lemma fold_out_items : forall items last flag acc,
  Forall (fun tb => tag_ok (fst tb) /\ body_ok (snd tb)) items ->
  (forall t, last = Some t -> tag_ok t) ->
  natspec_fold (out_items items last) flag acc = acc ++ halmos_bodies items.
Proof.
  induction items as [|[t b] r IH]; intros last flag acc Hok Hlast.
  - unfold halmos_bodies. cbn [filter map concat out_items]. rewrite app_nil_r.
    destruct last as [t|]; [|reflexivity]. cbn [natspec_fold].
    pose proof (tag_is_tag_item t (Hlast t eq_refl)) as Ht.
    replace (list_eqb [] natspec_halmos_tag) with false by reflexivity. cbn [is_tag_item].
    destruct (list_eqb t natspec_halmos_tag); [rewrite app_nil_r; reflexivity|].
    rewrite Ht. reflexivity.
  - inversion Hok as [|? ? [Ht Hb] Hr]; subst. cbn [fst snd] in Ht, Hb.
    destruct (body_not_tag b Hb) as [Hb1 Hb2].
    cbn [out_items natspec_fold]. unfold halmos_bodies. cbn [filter fst].
    destruct (list_eqb t natspec_halmos_tag) eqn:E.
    + rewrite Hb1, Hb2. rewrite (IH last true (acc ++ b) Hr Hlast).
      cbn [map concat snd]. unfold halmos_bodies. rewrite app_assoc. reflexivity.
    + rewrite (tag_is_tag_item t Ht), Hb1, Hb2. apply (IH last false acc Hr Hlast).
Qed.

(* Scoping inside one NatSpec text: with any leading text t0 without '@', any list of tags with
   their texts and an optional last tag without text, the result is the stripped concatenation of
   the texts of exactly the @custom:halmos tags, in order. *)
Theorem natspec_scope : forall t0 items last,
  no_at t0 ->
  Forall (fun tb => tag_ok (fst tb) /\ body_ok (snd tb)) items ->
  (forall t, last = Some t -> tag_ok t) ->
  parse_natspec (t0 ++ assemble items last) = strip (halmos_bodies items).
Proof.
  intros t0 items last H0 Hok Hlast. unfold parse_natspec. f_equal.
  rewrite (split_text t0 _ [] H0). rewrite app_nil_r.
  rewrite (split_assembled items last (rev t0) Hok Hlast). rewrite rev_involutive.
  cbn [natspec_fold].
  assert (E1 : list_eqb t0 natspec_halmos_tag = false).
  { destruct t0 as [|c r]; [reflexivity|]. inversion H0 as [|? ? Hc _]; subst.
    unfold natspec_halmos_tag. cbn [list_eqb]. rewrite Hc. reflexivity. }
  assert (E2 : is_tag_item t0 = false).
  { destruct t0 as [|c [|d r]]; try reflexivity. inversion H0 as [|? ? Hc _]; subst. cbn. rewrite Hc. reflexivity. }
  rewrite E1, E2. apply (fold_out_items items last false [] Hok Hlast).
Qed.
