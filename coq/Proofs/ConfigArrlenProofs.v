(* ParseArrayLengths (Model/ConfigModel.v): every dictionary parse can produce survives
   unparse/parse.  A dictionary parse can produce has pairwise distinct, non-empty names without
   white space and without the characters = , { } and non-empty lists of non-negative sizes. *)
From Coq Require Import ZArith List Bool Lia Arith ZifyBool.
From HV Require Import Gen.GenConfig Gen.GenConfigTime Gen.GenConfigMain Spec.ConfigSpec
  Model.ConfigFloatModel Model.ConfigModel Proofs.ConfigCodecProofs Proofs.ConfigTimeoutProofs.
Import ListNotations.
Open Scope Z_scope.

Definition name_ok (name : list Z) : Prop :=
  name <> [] /\ Forall (fun c => is_special c = false /\ is_ws c = false) name.

Definition sizes_ok (sizes : list Z) : Prop := sizes <> [] /\ Forall (fun v => 0 <= v) sizes.

Definition entry_ok (kv : list Z * list Z) : Prop := name_ok (fst kv) /\ sizes_ok (snd kv).

Definition render (kv : list Z * list Z) : list Z :=
  fst kv ++ arrlen_item_open ++ join arrlen_sizes_join (map str_of_Z (snd kv)) ++ arrlen_item_close.

Definition sizes_str (sizes : list Z) : list Z := join [44] (map str_of_Z sizes).

Lemma render_eq : forall name sizes,
  render (name, sizes) = name ++ 61 :: 123 :: sizes_str sizes ++ [125].
Proof. intros. unfold render, arrlen_item_open, arrlen_sizes_join, arrlen_item_close, sizes_str. cbn [fst snd app]. reflexivity. Qed.

(* ---- characters of the rendering ---- *)

Lemma list_eqb_eq : forall a b, list_eqb a b = true -> a = b.
Proof.
  induction a as [|x a IH]; intros [|y b] H; cbn in H; try discriminate; [reflexivity|].
  apply andb_true_iff in H. destruct H as [H1 H2]. apply Z.eqb_eq in H1. subst. f_equal. apply IH. exact H2.
Qed.

Lemma list_eqb_neq : forall a b, a <> b -> list_eqb a b = false.
Proof. intros a b H. destruct (list_eqb a b) eqn:E; [|reflexivity]. exfalso. apply H. apply list_eqb_eq. exact E. Qed.

Definition dc (c : Z) : bool := is_digit c || (c =? 44).

Lemma digits_dc : forall s, Forall digitc s -> Forall (fun c => dc c = true) s.
Proof. intros s H. eapply Forall_impl; [|exact H]. intros c Hc. unfold digitc in Hc. unfold dc, is_digit. lia. Qed.

Lemma sizes_str_dc : forall sizes, Forall (fun v => 0 <= v) sizes -> Forall (fun c => dc c = true) (sizes_str sizes).
Proof.
  intros sizes H. unfold sizes_str. induction H as [|v r Hv Hr IH]; [constructor|].
  cbn [map]. destruct (map str_of_Z r) as [|y t] eqn:E.
  - cbn [join]. unfold str_of_Z. replace (v <? 0) with false by lia. apply digits_dc. apply str_of_nonneg_digitc. exact Hv.
  - change (join [44] (str_of_Z v :: y :: t)) with (str_of_Z v ++ [44] ++ join [44] (y :: t)).
    apply Forall_app. split.
    + unfold str_of_Z. replace (v <? 0) with false by lia. apply digits_dc. apply str_of_nonneg_digitc. exact Hv.
    + apply Forall_app. split; [repeat constructor|exact IH].
Qed.

Lemma sizes_str_nonempty : forall sizes, sizes <> [] -> sizes_str sizes <> [].
Proof.
  intros [|v r] H; [contradiction|]. unfold sizes_str. cbn [map].
  pose proof (str_of_Z_nonempty v) as Hv. destruct (str_of_Z v) as [|c t]; [contradiction|].
  destruct (map str_of_Z r); cbn; discriminate.
Qed.

Lemma sizes_of_str : forall sizes, sizes <> [] -> sizes_of (sizes_str sizes) = Some sizes.
Proof. intros sizes H. exact (csvint_roundtrip sizes H). Qed.

Lemma dc_no_ws : forall s, Forall (fun c => dc c = true) s -> Forall (fun c => is_ws c = false) s.
Proof. intros s H. eapply Forall_impl; [|exact H]. intros c Hc. unfold dc, is_digit in Hc. unfold is_ws. lia. Qed.

Lemma name_plain : forall name, name_ok name -> Forall plain name.
Proof.
  intros name [_ H]. eapply Forall_impl; [|exact H]. intros c [Hs Hw].
  unfold plain. unfold is_special in Hs. unfold is_ws in Hw. unfold is_ws, is_ws_num. repeat split; lia.
Qed.

(* ---- the dictionary ---- *)

Lemma dict_set_fresh : forall d k v, (forall kv, In kv d -> fst kv <> k) -> dict_set d k v = d ++ [(k, v)].
Proof.
  induction d as [|[k' v'] r IH]; intros k v H; [reflexivity|].
  cbn [dict_set]. rewrite list_eqb_neq by (apply (H (k', v')); left; reflexivity).
  cbn [app]. f_equal. apply IH. intros kv Hin. apply H. right. exact Hin.
Qed.

(* ---- one entry ---- *)

Lemma arrlen_step : forall f name sizes tail dacc,
  name_ok name -> sizes_ok sizes -> (tail = [] \/ exists r6, tail = 44 :: r6) ->
  arrlen_items (S f) (name ++ 61 :: 123 :: sizes_str sizes ++ 125 :: tail) dacc =
  arrlen_items f (match tail with [] => [] | _ :: r6 => r6 end) (dict_set dacc name sizes).
Proof.
  intros f name sizes tail dacc Hn [Hs0 Hs] Ht. pose proof Hn as [Hn0 Hnc].
  assert (Hspan1 : span (fun c => negb (is_special c)) (name ++ 61 :: 123 :: sizes_str sizes ++ 125 :: tail)
                   = (name, 61 :: 123 :: sizes_str sizes ++ 125 :: tail)).
  { apply span_stop; [|reflexivity]. eapply Forall_impl; [|exact Hnc]. intros c [Hc _]. rewrite Hc. reflexivity. }
  assert (Hspan2 : span (fun c => is_digit c || (c =? 44)) (sizes_str sizes ++ 125 :: tail) = (sizes_str sizes, 125 :: tail)).
  { apply span_stop; [exact (sizes_str_dc sizes Hs)|reflexivity]. }
  cbn [arrlen_items].
  destruct (name ++ 61 :: 123 :: sizes_str sizes ++ 125 :: tail) as [|c0 s0] eqn:Es.
  { exfalso. destruct name; [contradiction|discriminate]. }
  rewrite Hspan1.
  destruct name as [|c n']; [contradiction|]. cbv beta iota zeta. rewrite Hspan2.
  pose proof (sizes_str_nonempty sizes Hs0) as Hb.
  destruct (sizes_str sizes) as [|b0 b'] eqn:Eb; [contradiction|]. rewrite <- Eb in *.
  cbv beta iota zeta.
  rewrite (sizes_of_str sizes Hs0), (strip_noop (c :: n') (name_plain _ Hn)).
  destruct Ht as [->|(r6 & ->)]; reflexivity.
Qed.

(* ---- the list of entries ---- *)

Definition keys_fresh (dacc items : list (list Z * list Z)) : Prop :=
  NoDup (map fst (dacc ++ items)).

Lemma join_cons2 : forall sep (x y : list Z) r, join sep (x :: y :: r) = x ++ sep ++ join sep (y :: r).
Proof. reflexivity. Qed.

Lemma arrlen_items_entries : forall items fuel dacc,
  Forall entry_ok items -> NoDup (map fst (dacc ++ items)) ->
  (length (join [44%Z] (map render items)) < fuel)%nat ->
  arrlen_items fuel (join [44] (map render items)) dacc = AOk (dacc ++ items).
Proof.
  induction items as [|[name sizes] rest IH]; intros fuel dacc Hok Hnd Hfuel.
  - destruct fuel; [cbn in Hfuel; lia|]. cbn. rewrite app_nil_r. reflexivity.
  - inversion Hok as [|? ? [Hn Hs] Hrest]; subst. cbn [fst snd] in Hn, Hs.
    destruct fuel as [|f]; [lia|].
    assert (Hfresh : forall kv, In kv dacc -> fst kv <> name).
    { intros kv Hin Heq. rewrite map_app in Hnd. cbn [map fst] in Hnd.
      apply NoDup_remove_2 in Hnd. apply Hnd. apply in_or_app. left.
      rewrite <- Heq. apply in_map. exact Hin. }
    assert (Hnd' : NoDup (map fst ((dacc ++ [(name, sizes)]) ++ rest))).
    { rewrite <- app_assoc. exact Hnd. }
    cbn [map]. destruct rest as [|y rest'].
    + cbn [join map]. rewrite render_eq.
      rewrite (arrlen_step f name sizes [] dacc Hn Hs (or_introl eq_refl)).
      rewrite dict_set_fresh by exact Hfresh.
      destruct f; [cbn [map join] in Hfuel; rewrite render_eq in Hfuel; rewrite app_length in Hfuel; cbn in Hfuel;
                   destruct Hn as [Hn0 _]; destruct name; [contradiction|cbn in Hfuel; lia]|].
      reflexivity.
    + cbn [map]. rewrite join_cons2. rewrite render_eq.
      replace ((name ++ 61 :: 123 :: sizes_str sizes ++ [125]) ++ [44] ++ join [44] (render y :: map render rest'))
        with (name ++ 61 :: 123 :: sizes_str sizes ++ 125 :: 44 :: join [44] (render y :: map render rest')).
      2:{ rewrite <- !app_assoc. cbn [app]. rewrite <- !app_assoc. reflexivity. }
      rewrite (arrlen_step f name sizes (44 :: join [44] (render y :: map render rest')) dacc Hn Hs
                 (or_intror (ex_intro _ _ eq_refl))).
      rewrite dict_set_fresh by exact Hfresh.
      change (render y :: map render rest') with (map render (y :: rest')).
      rewrite (IH f (dacc ++ [(name, sizes)]) Hrest Hnd').
      * rewrite <- app_assoc. reflexivity.
      * cbn [map] in Hfuel |- *. rewrite join_cons2 in Hfuel. rewrite !app_length in Hfuel.
        cbn [length] in Hfuel. lia.
Qed.

(* ---- no white space in a rendering ---- *)

Lemma render_no_ws : forall kv, entry_ok kv -> Forall (fun c => is_ws c = false) (render kv).
Proof.
  intros [name sizes] [[_ Hn] [_ Hs]]. cbn [fst snd] in *. rewrite render_eq.
  apply Forall_app. split; [eapply Forall_impl; [|exact Hn]; intros c [_ Hc]; exact Hc|].
  constructor; [reflexivity|]. constructor; [reflexivity|].
  apply Forall_app. split; [apply dc_no_ws; apply sizes_str_dc; exact Hs|repeat constructor].
Qed.

Lemma join_no_ws : forall items, Forall (fun x => Forall (fun c => is_ws c = false) x) items ->
  Forall (fun c => is_ws c = false) (join [44] items).
Proof.
  intros items H. induction H as [|x r Hx Hr IH]; [constructor|].
  destruct r as [|y r']; [exact Hx|]. rewrite join_cons2.
  apply Forall_app. split; [exact Hx|]. apply Forall_app. split; [repeat constructor|exact IH].
Qed.

Lemma filter_all : forall (p : Z -> bool) s, Forall (fun c => p c = true) s -> filter p s = s.
Proof. intros p s H. induction H as [|c r Hc Hr IH]; [reflexivity|]. cbn. rewrite Hc, IH. reflexivity. Qed.

(* every dictionary of well-formed entries with pairwise distinct names survives unparse/parse *)
Theorem arrlen_roundtrip : forall d, Forall entry_ok d -> NoDup (map fst d) ->
  arrlen_parse (arrlen_unparse d) = AOk d.
Proof.
  intros d Hok Hnd. unfold arrlen_unparse, arrlen_join.
  change (map (fun kv => fst kv ++ arrlen_item_open ++ join arrlen_sizes_join (map str_of_Z (snd kv)) ++ arrlen_item_close) d)
    with (map render d).
  unfold arrlen_parse. destruct (join [44] (map render d)) as [|c0 s0] eqn:Es.
  - destruct d as [|kv r]; [reflexivity|]. exfalso.
    inversion Hok as [|? ? [[Hn0 _] _] _]; subst.
    cbn [map] in Es. destruct kv as [name sizes]. cbn [fst] in Hn0.
    destruct (map render r); [cbn [join] in Es|rewrite join_cons2 in Es]; rewrite render_eq in Es;
      destruct name; try contradiction; discriminate.
  - rewrite <- Es. unfold arrlen_ws_join. cbv zeta.
    assert (Hws : remove_ws (join [44] (map render d)) = join [44] (map render d)).
    { unfold remove_ws. apply filter_all.
      assert (H : Forall (fun c => is_ws c = false) (join [44] (map render d))).
      { apply join_no_ws. apply Forall_forall. intros x Hx. apply in_map_iff in Hx. destruct Hx as (kv & <- & Hin).
        apply render_no_ws. rewrite Forall_forall in Hok. apply Hok. exact Hin. }
      eapply Forall_impl; [|exact H]. intros c Hc. rewrite Hc. reflexivity. }
    rewrite Hws. apply (arrlen_items_entries d _ [] Hok Hnd). lia.
Qed.

(* ---------------------------------------------------------------- what parse can produce *)

Definition dict_wf (d : list (list Z * list Z)) : Prop := Forall entry_ok d /\ NoDup (map fst d).

Lemma span_spec : forall p s a b, span p s = (a, b) -> s = a ++ b /\ Forall (fun c => p c = true) a.
Proof.
  intros p s. induction s as [|c r IH]; intros a b H; cbn [span] in H.
  - inversion H; subst. split; [reflexivity|constructor].
  - destruct (p c) eqn:Hc.
    + destruct (span p r) as [a' b'] eqn:E. inversion H; subst. destruct (IH a' b eq_refl) as [H1 H2].
      split; [cbn; f_equal; exact H1|constructor; assumption].
    + inversion H; subst. split; [reflexivity|constructor].
Qed.

Section Sub.
  Variable P : Z -> Prop.

  Lemma lstrip_sub : forall s, Forall P s -> Forall P (lstrip s).
  Proof. intros s H. induction H as [|c r Hc Hr IH]; [constructor|]. cbn. destruct (is_ws c); [exact IH|constructor; assumption]. Qed.

  Lemma lstrip_num_sub : forall s, Forall P s -> Forall P (lstrip_num s).
  Proof. intros s H. induction H as [|c r Hc Hr IH]; [constructor|]. cbn. destruct (is_ws_num c); [exact IH|constructor; assumption]. Qed.

  Lemma rev_sub : forall s, Forall P s -> Forall P (rev s).
  Proof. intros s H. apply Forall_forall. intros x Hx. apply in_rev in Hx. rewrite Forall_forall in H. auto. Qed.

  Lemma strip_sub : forall s, Forall P s -> Forall P (strip s).
  Proof. intros s H. unfold strip. apply rev_sub, lstrip_sub, rev_sub, lstrip_sub. exact H. Qed.

  Lemma strip_num_sub : forall s, Forall P s -> Forall P (strip_num s).
  Proof. intros s H. unfold strip_num. apply rev_sub, lstrip_num_sub, rev_sub, lstrip_num_sub. exact H. Qed.

  Lemma split_sub : forall sep s, Forall P s -> Forall (Forall P) (split sep s).
  Proof.
    intros sep s H. induction H as [|c r Hc Hr IH]; [repeat constructor|].
    cbn [split]. destruct (c =? sep); [constructor; [constructor|exact IH]|].
    destruct (split sep r) as [|h t]; [repeat constructor; assumption|].
    inversion IH; subst. constructor; [constructor; assumption|assumption].
  Qed.

  Lemma parse_csv_sub : forall sep s, Forall P s -> Forall (Forall P) (parse_csv sep s).
  Proof.
    intros sep s H. unfold parse_csv. apply Forall_forall. intros x Hx.
    apply filter_In in Hx. destruct Hx as [Hx _]. apply in_map_iff in Hx. destruct Hx as (y & <- & Hy).
    apply strip_sub. pose proof (split_sub (sep_char sep) s H) as Hs. rewrite Forall_forall in Hs. auto.
  Qed.
End Sub.

Lemma py_int10_digits_nonneg : forall x v, Forall (fun c => is_digit c = true) x -> py_int10 x = Some v -> 0 <= v.
Proof.
  intros x v Hd H. unfold py_int10 in H.
  pose proof (strip_num_sub _ x Hd) as Hs. destruct (strip_num x) as [|c r]; cbn [with_sign] in H.
  - eapply (pdu_nonneg 10 [] 0 false); [lia|lia|exact H].
  - inversion Hs as [|? ? Hc _]; subst. unfold is_digit in Hc.
    replace (c =? 43) with false in H by lia. replace (c =? 45) with false in H by lia.
    eapply (pdu_nonneg 10 (c :: r) 0 false); [lia|lia|exact H].
Qed.

Lemma map_opt_Forall : forall {A B} (f : A -> option B) (Q : B -> Prop) l l',
  (forall x y, In x l -> f x = Some y -> Q y) -> map_opt f l = Some l' -> Forall Q l'.
Proof.
  intros A B f Q l. induction l as [|x r IH]; intros l' Hq H; cbn in H.
  - inversion H. constructor.
  - destruct (f x) eqn:Hx; [|discriminate]. destruct (map_opt f r) eqn:Hr; [|discriminate].
    inversion H; subst. constructor; [apply (Hq x); [left; reflexivity|exact Hx]|].
    apply IH; [|reflexivity]. intros x' y' Hin. apply Hq. right. exact Hin.
Qed.

(* sizes read from a string of digits and commas: non-empty, non-negative *)
Lemma sizes_of_ok : forall body l, Forall (fun c => dc c = true) body -> sizes_of body = Some l -> sizes_ok l.
Proof.
  intros body l Hb H. unfold sizes_of in H.
  destruct (map_opt py_int10 (parse_csv csv_sep body)) as [l0|] eqn:Hm; [|discriminate].
  destruct l0 as [|v0 r0]; cbn in H; [discriminate|]. inversion H; subst. split; [discriminate|].
  apply (map_opt_Forall py_int10 (fun v => 0 <= v) _ _) with (2 := Hm).
  intros x y Hin Hx. apply (py_int10_digits_nonneg x y); [|exact Hx].
  (* the items are pieces of body between commas: digits only *)
  unfold csv_sep in Hin. unfold parse_csv in Hin. cbn [sep_char] in Hin.
  apply filter_In in Hin. destruct Hin as [Hin _]. apply in_map_iff in Hin. destruct Hin as (piece & <- & Hp).
  apply strip_sub.
  assert (Hpieces : Forall (Forall (fun c => is_digit c = true)) (split 44 body)).
  { clear -Hb. induction Hb as [|c r Hc Hr IH]; [repeat constructor|].
    cbn [split]. destruct (c =? 44) eqn:E; [constructor; [constructor|exact IH]|].
    assert (Hd : is_digit c = true) by (unfold dc in Hc; rewrite E in Hc; rewrite orb_false_r in Hc; exact Hc).
    destruct (split 44 r) as [|h t]; [repeat constructor; exact Hd|].
    inversion IH; subst. constructor; [constructor; assumption|assumption]. }
  rewrite Forall_forall in Hpieces. apply Hpieces. exact Hp.
Qed.

Lemma dict_set_wf : forall d k v, dict_wf d -> name_ok k -> sizes_ok v -> dict_wf (dict_set d k v).
Proof.
  induction d as [|[k' v'] r IH]; intros k v [Hok Hnd] Hk Hv.
  - cbn [dict_set]. split; [constructor; [split; assumption|constructor]|cbn [map fst]; constructor; [intros []|constructor]].
  - cbn [dict_set]. inversion Hok as [|? ? [Hk' Hv'] Hr]; subst. cbn [map fst] in Hnd. inversion Hnd as [|? ? Hnotin Hnd']; subst.
    destruct (list_eqb k' k) eqn:E.
    + apply list_eqb_eq in E. subst k'. split; [constructor; [split; assumption|exact Hr]|exact Hnd].
    + destruct (IH k v (conj Hr Hnd') Hk Hv) as [H1 H2].
      split; [constructor; [split; assumption|exact H1]|].
      cbn [map fst]. constructor; [|exact H2].
      (* k' is not a key of dict_set r k v: its keys are those of r, and possibly k <> k' *)
      intro Hin. apply in_map_iff in Hin. destruct Hin as ([k2 v2] & Hk2 & Hin2). cbn [fst] in Hk2. subst k2.
      assert (Hkeys : forall r0 kk vv, In (kk, vv) (dict_set r0 k v) -> kk = k \/ In kk (map fst r0)).
      { clear. induction r0 as [|[a b] t IHt]; intros kk vv H; cbn [dict_set] in H.
        - destruct H as [H|[]]. inversion H. left. reflexivity.
        - destruct (list_eqb a k) eqn:Ea.
          + destruct H as [H|H]; [inversion H; subst; right; left; reflexivity|right; right; apply in_map_iff; exists (kk, vv); split; [reflexivity|exact H]].
          + destruct H as [H|H]; [inversion H; subst; right; left; reflexivity|].
            destruct (IHt _ _ H) as [->|Hi]; [left; reflexivity|right; right; exact Hi]. }
      destruct (Hkeys _ _ _ Hin2) as [->|Hi]; [rewrite list_eqb_refl in E; discriminate|contradiction].
Qed.

Lemma Forall_app_r : forall (P : Z -> Prop) a b, Forall P (a ++ b) -> Forall P b.
Proof. intros P a b H. apply Forall_app in H. tauto. Qed.

Lemma Forall_app_l : forall (P : Z -> Prop) a b, Forall P (a ++ b) -> Forall P a.
Proof. intros P a b H. apply Forall_app in H. tauto. Qed.

Lemma arrlen_items_wf : forall fuel s d d',
  Forall (fun c => is_ws c = false) s -> dict_wf d -> arrlen_items fuel s d = AOk d' -> dict_wf d'.
Proof.
  induction fuel as [|f IH]; intros s d d' Hws Hd H; [discriminate|].
  cbn [arrlen_items] in H. destruct s as [|c0 s0]; [inversion H; subst; exact Hd|].
  destruct (span (fun c => negb (is_special c)) (c0 :: s0)) as [name r1] eqn:Hsp.
  apply span_spec in Hsp. destruct Hsp as [Hsplit Hname]. rewrite Hsplit in Hws.
  destruct name as [|n0 n']; [discriminate|].
  destruct r1 as [|e r2]; [discriminate|].
  assert (Hname_ok : name_ok (n0 :: n')).
  { split; [discriminate|]. apply Forall_forall. intros c Hc.
    rewrite Forall_forall in Hname. specialize (Hname c Hc). apply negb_true_iff in Hname.
    split; [exact Hname|]. apply Forall_app_l in Hws. rewrite Forall_forall in Hws. auto. }
  assert (Hstrip : strip (n0 :: n') = n0 :: n').
  { apply strip_nows. apply Forall_app_l in Hws. exact Hws. }
  apply Forall_app_r in Hws. inversion Hws as [|? ? _ Hws2]; subst.
  (* the shared continuation *)
  assert (Hafter : forall sizes r, Forall (fun c => dc c = true) sizes -> Forall (fun c => is_ws c = false) r ->
            match sizes_of sizes with
            | Some l => arrlen_items f r (dict_set d (strip (n0 :: n')) l)
            | None => AReject
            end = AOk d' -> dict_wf d').
  { intros sizes r Hs Hr Ha. destruct (sizes_of sizes) as [l|] eqn:El; [|discriminate].
    rewrite Hstrip in Ha. refine (IH r _ d' Hr _ Ha).
    apply dict_set_wf; [exact Hd|exact Hname_ok|apply (sizes_of_ok sizes l Hs El)]. }
  destruct (e =? 61) eqn:Ee; [apply Z.eqb_eq in Ee; subst e|
    destruct e as [|p|p]; try discriminate; repeat (destruct p as [p|p|]; try discriminate); cbn in Ee; discriminate].
  cbv beta iota zeta in H.
  destruct r2 as [|b r3].
  - (* "name=" then nothing *) cbn [span] in H. discriminate.
  - destruct (b =? 123) eqn:Eb.
    + apply Z.eqb_eq in Eb. subst b. cbv beta iota zeta in H.
      destruct (span (fun c => is_digit c || (c =? 44)) r3) as [body r4] eqn:Hsp2.
      apply span_spec in Hsp2. destruct Hsp2 as [Hsplit2 Hbody]. subst r3.
      inversion Hws2 as [|? ? _ Hws3]; subst.
      destruct body as [|b0 b']; [discriminate|].
      destruct r4 as [|cl r5]; [discriminate|].
      destruct (cl =? 125) eqn:Ecl; [apply Z.eqb_eq in Ecl; subst cl|
        destruct cl as [|p|p]; try discriminate; repeat (destruct p as [p|p|]; try discriminate); cbn in Ecl; discriminate].
      cbv beta iota zeta in H.
      apply Forall_app_r in Hws3. inversion Hws3 as [|? ? _ Hws4]; subst.
      destruct r5 as [|cm r6].
      * apply (Hafter (b0 :: b') [] Hbody ltac:(constructor) H).
      * destruct (cm =? 44) eqn:Ecm; [apply Z.eqb_eq in Ecm; subst cm|
          destruct cm as [|p|p]; try discriminate; repeat (destruct p as [p|p|]; try discriminate); cbn in Ecm; discriminate].
        inversion Hws4; subst. apply (Hafter (b0 :: b') r6 Hbody ltac:(assumption) H).
    + (* a single number *)
      assert (H' : (let '(num, r3') := span is_digit (b :: r3) in
                    match num, r3' with
                    | _ :: _, [] => match sizes_of num with Some l => arrlen_items f [] (dict_set d (strip (n0 :: n')) l) | None => AReject end
                    | _ :: _, 44 :: r4 => match sizes_of num with Some l => arrlen_items f r4 (dict_set d (strip (n0 :: n')) l) | None => AReject end
                    | _, _ => AReject
                    end) = AOk d').
      { destruct b as [|p|p]; try exact H; repeat (destruct p as [p|p|]; try exact H); cbn in Eb; discriminate. }
      clear H. destruct (span is_digit (b :: r3)) as [num r3'] eqn:Hsp3.
      apply span_spec in Hsp3. destruct Hsp3 as [Hsplit3 Hnum]. rewrite Hsplit3 in Hws2.
      assert (Hnum' : Forall (fun c => dc c = true) num).
      { eapply Forall_impl; [|exact Hnum]. intros c Hc. unfold dc. rewrite Hc. reflexivity. }
      destruct num as [|m0 m']; [discriminate|].
      destruct r3' as [|cm r4].
      * apply (Hafter (m0 :: m') [] Hnum' ltac:(constructor) H').
      * destruct (cm =? 44) eqn:Ecm; [apply Z.eqb_eq in Ecm; subst cm|
          destruct cm as [|p|p]; try discriminate; repeat (destruct p as [p|p|]; try discriminate); cbn in Ecm; discriminate].
        apply Forall_app_r in Hws2. inversion Hws2; subst.
        apply (Hafter (m0 :: m') r4 Hnum' ltac:(assumption) H').
Qed.

Lemma remove_ws_no_ws : forall s, Forall (fun c => is_ws c = false) (remove_ws s).
Proof.
  intros s. unfold remove_ws. apply Forall_forall. intros c Hc. apply filter_In in Hc.
  destruct Hc as [_ Hc]. apply negb_true_iff in Hc. exact Hc.
Qed.

(* whatever parse returns is a dictionary of the kind the round-trip theorem is about *)
Theorem arrlen_parse_wf : forall s d, arrlen_parse s = AOk d -> dict_wf d.
Proof.
  intros s d H. unfold arrlen_parse in H. destruct s as [|c r]; [inversion H; split; constructor|].
  unfold arrlen_ws_join in H. cbv zeta in H.
  refine (arrlen_items_wf _ _ [] d (remove_ws_no_ws _) _ H). split; constructor.
Qed.

Theorem arrlen_parse_unparse_parse : forall s d, arrlen_parse s = AOk d -> arrlen_parse (arrlen_unparse d) = AOk d.
Proof. intros s d H. destruct (arrlen_parse_wf s d H) as [H1 H2]. apply arrlen_roundtrip; assumption. Qed.
