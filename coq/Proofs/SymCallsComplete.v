(* Completeness (C02) of the mini-SEVM with calls and creations: under a sound oracle every
   valuation satisfying the current path satisfies the path of some reported leaf, unless
   the bounded-loop log was written. *)
From Coq Require Import ZArith List Bool Lia Arith.
From HV Require Import Gen.GenBranch Proofs.SymCallsLemmas Base.Word Spec.Evm Gen.GenJumpi Model.SymExec Model.SymCalls
  Proofs.SymExecLemmas Proofs.SymExecSound Proofs.JumpiProofs.
Import ListNotations.
Open Scope Z_scope.

Section CC.
Variable lim : Z.
Variable special : Z -> bool.
Variable oracle : list cond -> term -> bool -> Z.
Variable loop : Z.
Variable rho : var -> Z.
Hypothesis Hor : oracle_sound rho oracle.

Definition covered (r : rres) : Prop :=
  snd r = true \/ exists l, In l (fst r) /\ sat rho (l2_path l).

Definition complete_rec (rec : recfun) : Prop :=
  forall fr w ctr sg, sat rho (ss_path sg) -> covered (rec fr w ctr sg).

Lemma covered_self : forall p k lg, sat rho p -> covered ([mkLeaf2 p k], lg).
Proof. intros p k lg H. right. eexists; split; [left; reflexivity | exact H]. Qed.

Lemma covered_app_l : forall (r1 r2 : rres) lg, covered r1 -> (snd r1 = true -> lg = true) -> covered (fst r1 ++ fst r2, lg).
Proof.
  intros r1 r2 lg [H|[l [Hin Hs]]] Hlg.
  - left. cbn. apply Hlg. exact H.
  - right. exists l. split; [apply in_or_app; left; exact Hin | exact Hs].
Qed.

Lemma covered_app_r : forall (r1 r2 : rres) lg, covered r2 -> (snd r2 = true -> lg = true) -> covered (fst r1 ++ fst r2, lg).
Proof.
  intros r1 r2 lg [H|[l [Hin Hs]]] Hlg.
  - left. cbn. apply Hlg. exact H.
  - right. exists l. split; [apply in_or_app; right; exact Hin | exact Hs].
Qed.

Section Rec.
Variable rec : recfun.
Hypothesis Hrec : complete_rec rec.

Lemma local_complete : forall fr w ctr sg i,
  sat rho (ss_path sg) -> covered (local_step lim oracle loop rec fr w ctr sg i).
Proof.
  intros fr w ctr sg i Hsat. unfold local_step.
  destruct (sstep_i lim (se_of fr w) i sg) as [sg'|k|c t rest] eqn:Es.
  - apply Hrec. rewrite (sstep_i_next_path lim (se_of fr w) i sg sg' Es). exact Hsat.
  - apply covered_self. exact Hsat.
  - destruct (visits_of (jumpid (se_of fr w) sg) (ss_visits sg)) as [vt vf].
    set (ct := oracle (ss_path sg) c true). set (cf := oracle (ss_path sg) c false).
    set (d := jumpi_decide ct cf vt vf loop).
    destruct (d_follow_true d && negb (is_jumpdest (f_code fr) t)) eqn:Eearly.
    { apply andb_true_iff in Eearly. destruct Eearly as [Eft _].
      destruct (Z.eq_dec (eval rho c) 0) as [Hc|Hc].
      - assert (Hcf : cf <> R_UNSAT).
        { intro Hu. apply (Hor _ _ _ Hu Hsat). unfold holds. cbn. apply Z.eqb_eq. exact Hc. }
        destruct (cover_false ct cf vt vf loop Hcf) as [Hf|Hl]; fold d in Hf || fold d in Hl.
        + pose proof (both_followed_symbolic ct cf vt vf loop Eft Hf) as Hsym. fold d in Hsym.
          rewrite Hf, Hsym. cbn [andb].
          match goal with |- covered (?x :: fst ?r, _) => assert (Hr : covered r) end.
          { apply Hrec. cbn [ss_path]. constructor; [unfold holds; cbn; apply Z.eqb_eq; exact Hc | exact Hsat]. }
          destruct Hr as [Hlog|[l [Hin Hs]]].
          * left. cbn [snd]. rewrite Hlog. apply orb_true_r.
          * right. exists l. split; [right; exact Hin | exact Hs].
        + left. cbn [snd]. rewrite Hl. reflexivity.
      - right. eexists; split; [left; reflexivity|]. cbn [l2_path].
        constructor; [unfold holds; cbn; apply Z.eqb_neq; exact Hc | exact Hsat]. }
    destruct (Z.eq_dec (eval rho c) 0) as [Hc|Hc].
    + assert (Hcf : cf <> R_UNSAT).
      { intro Hu. apply (Hor _ _ _ Hu Hsat). unfold holds. cbn. apply Z.eqb_eq. exact Hc. }
      destruct (cover_false ct cf vt vf loop Hcf) as [Hf|Hl]; fold d in Hf || fold d in Hl.
      * rewrite Hf. apply covered_app_r.
        -- apply Hrec. cbn [ss_path]. constructor; [unfold holds; cbn; apply Z.eqb_eq; exact Hc | exact Hsat].
        -- intros H. rewrite H. rewrite !orb_true_r. reflexivity.
      * left. cbn [snd]. rewrite Hl. reflexivity.
    + assert (Hct : ct <> R_UNSAT).
      { intro Hu. apply (Hor _ _ _ Hu Hsat). unfold holds. cbn. apply Z.eqb_neq. exact Hc. }
      destruct (cover_true ct cf vt vf loop Hct) as [Hf|Hl]; fold d in Hf || fold d in Hl.
      * rewrite Hf. apply covered_app_l.
        -- apply Hrec. cbn [ss_path]. constructor; [unfold holds; cbn; apply Z.eqb_neq; exact Hc | exact Hsat].
        -- intros H. rewrite H. rewrite orb_true_r. reflexivity.
      * left. cbn [snd]. rewrite Hl. reflexivity.
Qed.

Lemma resume_one_complete : forall fr s wf rest ro rsz on_ok sl,
  sat rho (l2_path sl) -> covered (resume_one rec fr s wf rest ro rsz on_ok sl).
Proof.
  intros fr s wf rest ro rsz on_ok sl Hs. unfold resume_one.
  destruct (l2_kind sl) as [ret w2 c2|ret c2|kd c2| |] eqn:Ek.
  - destruct (on_ok ret w2) as [[[st ret'] w3]|]; [apply Hrec; exact Hs | apply covered_self; exact Hs].
  - apply Hrec. exact Hs.
  - apply Hrec. exact Hs.
  - right. exists sl. split; [left; reflexivity | exact Hs].
  - right. exists sl. split; [left; reflexivity | exact Hs].
Qed.

Lemma resume_all_complete : forall fr s subs wf rest ro rsz on_ok,
  covered subs -> covered (resume_all rec fr s subs wf rest ro rsz on_ok).
Proof.
  intros fr s [subs lg] wf rest ro rsz on_ok Hc. unfold resume_all. cbn [fst snd] in *.
  destruct Hc as [H|[sl [Hin Hs]]].
  - cbn [snd] in H. subst lg. left. induction subs as [|x subs IH]; cbn [fold_right snd]; [reflexivity|].
    rewrite IH. apply orb_true_r.
  - cbn [fst] in Hin. induction subs as [|x subs IH]; [destruct Hin|].
    cbn [fold_right]. destruct Hin as [->|Hin].
    + apply covered_app_l; [apply resume_one_complete; exact Hs|].
      intros H. cbn [snd]. rewrite H. reflexivity.
    + apply covered_app_r; [apply IH; exact Hin|].
      intros H. cbn [snd]. rewrite H. apply orb_true_r.
Qed.

Lemma sat_cons : forall c p, holds rho c -> sat rho p -> sat rho (c :: p).
Proof. intros. constructor; assumption. Qed.

Lemma call_complete : forall fr w ctr sg op,
  sat rho (ss_path sg) -> covered (call_step lim special oracle rec fr w ctr sg op).
Proof.
  intros fr w ctr sg op Hsat. unfold call_step, halt_leaf, stuck_leaf.
  destruct (call_args op (ss_stack sg)) as [[[[[[[[to0 v] ao] asz] ro] rsz] r]|]|];
    try (apply covered_self; exact Hsat).
  cbv zeta.
  repeat match goal with
         | |- covered (if ?b then ([_], false) else _) => destruct b; [apply covered_self; exact Hsat|]
         end.
  destruct (1024 <? Z.of_nat (f_depth fr) + 1); [apply Hrec; exact Hsat|].
  set (c := TBin BLt (sw_balance w (f_this fr)) v).
  set (transfers := (op =? 241) || (op =? 242)).
  destruct (transfers && negb (eval rho c =? 0)) eqn:Einsuf.
  - (* rho is in the insufficient-balance case: that branch is explored *)
    apply andb_true_iff in Einsuf. destruct Einsuf as [Etr Hne]. apply negb_true_iff in Hne.
    assert (Hh : holds rho (c, true)) by (unfold holds; cbn; exact Hne).
    assert (Ho : oracle (ss_path sg) c true <> R_UNSAT) by (intro Hu; apply (Hor _ _ _ Hu Hsat); exact Hh).
    apply Z.eqb_neq in Ho. rewrite Etr, funds_fail_keep_eq, Ho. cbn [andb negb].
    apply covered_app_l; [apply Hrec; apply sat_cons; assumption|].
    intros H. rewrite H. reflexivity.
  - apply covered_app_r.
    + apply resume_all_complete. apply Hrec. cbn [ss_path].
      destruct transfers; [|exact Hsat]. cbn [andb] in Einsuf. apply negb_false_iff in Einsuf.
      apply sat_cons; [unfold holds; cbn; exact Einsuf | exact Hsat].
    + intros H. rewrite H. apply orb_true_r.
Qed.

Lemma create_complete : forall fr w ctr sg,
  sat rho (ss_path sg) -> covered (create_step lim oracle rec fr w ctr sg).
Proof.
  intros fr w ctr sg Hsat. unfold create_step, halt_leaf, stuck_leaf.
  destruct (ss_stack sg) as [|v [|toff [|tsize r]]]; try (apply covered_self; exact Hsat).
  { destruct toff; apply covered_self; exact Hsat. }
  destruct toff; try (apply covered_self; exact Hsat).
  destruct tsize; try (apply covered_self; exact Hsat).
  destruct (f_static fr); [apply covered_self; exact Hsat|].
  destruct (negb (nonneg [z; z0])); [apply covered_self; exact Hsat|].
  destruct (s_oog_range lim z z0); [apply covered_self; exact Hsat|].
  destruct (const_bytes _); [|apply covered_self; exact Hsat].
  cbv zeta.
  destruct (1024 <? Z.of_nat (f_depth fr) + 1); [apply Hrec; exact Hsat|].
  set (c := TBin BLt (sw_balance w (f_this fr)) v).
  destruct (eval rho c =? 0) eqn:Ec.
  - assert (Hok : sat rho ((c, false) :: ss_path sg)) by (apply sat_cons; [unfold holds; cbn; exact Ec | exact Hsat]).
    destruct (sw_has_account w _).
    + apply covered_app_r; [apply Hrec; exact Hok|]. intros H. rewrite H. apply orb_true_r.
    + apply covered_app_r; [apply resume_all_complete; apply Hrec; exact Hok|]. intros H. rewrite H. apply orb_true_r.
  - assert (Hh : holds rho (c, true)) by (unfold holds; cbn; exact Ec).
    assert (Ho : oracle (ss_path sg) c true <> R_UNSAT) by (intro Hu; apply (Hor _ _ _ Hu Hsat); exact Hh).
    apply Z.eqb_neq in Ho. rewrite funds_fail_keep_eq, Ho. cbn [negb].
    destruct (sw_has_account w _);
      (apply covered_app_l; [apply Hrec; apply sat_cons; assumption|]; intros H; rewrite H; reflexivity).
Qed.

Lemma body_complete : complete_rec (body lim special oracle loop rec).
Proof.
  intros fr w ctr sg Hsat. unfold body.
  destruct (nth_error (f_code fr) (ss_pc sg)) as [opc|]; [|apply covered_self; exact Hsat].
  destruct (decode_op opc); try (apply local_complete; exact Hsat).
  - apply create_complete. exact Hsat.
  - apply call_complete. exact Hsat.
Qed.
End Rec.

Theorem sexec2_complete : forall fuel, complete_rec (sexec2 lim special oracle loop fuel).
Proof.
  induction fuel as [|f IH]; cbn [sexec2].
  - intros fr w ctr sg Hsat. apply covered_self. exact Hsat.
  - apply body_complete. exact IH.
Qed.

End CC.
