(* Proofs for C13, run level: what SEVM.run does with an exception raised by a vm.assert*
   handler, and sequences of cheatcode calls against Foundry's one-input-at-a-time reading. *)
From Coq Require Import ZArith List Bool String Ascii Lia.
From HV Require Import Spec.AssertSpec Model.AssertModel Proofs.AssertProofs Proofs.AssertCondProofs
  Gen.GenAssertArms Gen.GenExcHierarchy Gen.GenRunExcepts Gen.GenJumpi.
Import ListNotations.
Open Scope list_scope.
Open Scope Z_scope.

(* ================================================================== 1. the regenerated pieces *)
(* the arms of vm_assert_binary / vm_assert_unary in the source use the extractors, offsets and
   message positions that Model.run_handler uses; the (arr, is_bytes) = (true, true) arm raises *)
Lemma arms_as_modelled :
  binary_arms =
    [ ((false, false), GExtract "extract_bytes" [4; 32] [36; 32] 2);
      ((false, true), GExtract "extract_bytes_argument" [0] [1] 2);
      ((true, false), GExtract "extract_bytes32_array_argument" [0] [1] 2);
      ((true, true), GRaise unsupported_class) ]
  /\ bytes_types = ["bytes"; "string"]%string /\ unary_word_offset = 4 /\ unary_msg_idx = 1.
Proof. vm_compute. repeat split; reflexivity. Qed.

(* every except clause of the run loop is one of the four shapes the model knows *)
Lemma run_excepts_understood :
  forallb (fun cl => match action_of cl with AOther => false | _ => true end) run_excepts = true.
Proof. vm_compute. reflexivity. Qed.

(* the class raised for bytes[] / string[] reaches `except HalmosException`: halt with output
   None + finalize, i.e. only this path is stuck *)
Lemma unsupported_caught_stuck : catch_action unsupported_class = Some AStuck.
Proof. vm_compute. reflexivity. Qed.

(* a context halted that way is what CallContext.is_stuck recognises *)
Lemma stuck_class_caught : catch_action stuck_error_class = Some AStuck.
Proof. vm_compute. reflexivity. Qed.

(* the delayed FailCheatcode of the assert branch: re-raised when the state is popped, caught by
   the clause that yields the state without finalize() *)
Lemma delayed_fail_yields :
  is_subclass "FailCheatcode" delayed_raise_class = true /\ catch_action "FailCheatcode" = Some AFailYield.
Proof. vm_compute. auto. Qed.

(* vm.assume(false) raises InfeasiblePath: the state is dropped *)
Lemma infeasible_dropped : catch_action "InfeasiblePath" = Some ADrop.
Proof. vm_compute. reflexivity. Qed.

(* builtin exceptions are caught by no clause *)
Lemma unicode_escapes : catch_action "UnicodeDecodeError" = None.
Proof. vm_compute. reflexivity. Qed.
Lemma valueerror_escapes : catch_action "ValueError" = None.
Proof. vm_compute. reflexivity. Qed.

(* ================================================================== 2. sequences *)
Section SeqProofs.
  Variable Input : Type.
  Variable check : path Input -> cond Input -> sat_result.
  Variable lit_false : cond Input -> bool.
  Variable loop : Z.
  Hypothesis check_sound :
    forall p c, check p c = Unsat -> forall i, sat_path Input p i = true -> c i = false.
  Hypothesis lit_false_sound : forall c, lit_false c = true -> forall i, c i = false.
  Hypothesis loop_pos : 0 < loop.

  Definition failb (outs : list (outcome Input)) (i : Input) : bool :=
    existsb (fun o => reported_failure Input o i) outs.
  Definition contb (outs : list (outcome Input)) (i : Input) : bool :=
    existsb (fun o => continues_with Input o i) outs.
  Definition stuckb (outs : list (outcome Input)) (i : Input) : bool :=
    existsb (fun o => reported_stuck Input o i) outs.
  Definition prior (e : exec Input) (i : Input) : bool := sat_path Input (ex_path Input e) i.
  (* no context of a running state carries the failure flag (a flagged state is yielded at once) *)
  Definition nofail (e : exec Input) : Prop :=
    forall c, In c (ex_frames Input e) -> is_global_fail_set c = false.
  Definition is_vfail (v : verdict) : bool := match v with VFail => true | _ => false end.

  Definition good (f c s pr : bool) (v : verdict) : Prop :=
    f = pr && is_vfail v
    /\ (c = true -> pr = true /\ (v = VPass \/ v = VFail))
    /\ (s = true -> pr = true /\ (v = VUnsupported \/ v = VFail))
    /\ (pr = true -> v = VPass -> c = true)
    /\ (pr = true -> v = VUnsupported -> s = true).

  Definition ok_step (k : cheat Input) : Prop :=
    match k with KRaise _ cls => catch_action cls = Some AStuck | _ => True end.

  Lemma gfs_subs : forall e subs, is_global_fail_set (Ctx e subs) = false ->
    existsb is_global_fail_set subs = false.
  Proof. intros e subs H. cbn in H. apply orb_false_iff in H. tauto. Qed.

  Lemma nofail_top : forall e, nofail e -> is_global_fail_set (top_ctx Input e) = false.
  Proof.
    intros [p fr] H. unfold top_ctx. cbn [ex_frames]. destruct fr as [|c r]; [reflexivity|].
    apply H. cbn. auto.
  Qed.

  Lemma stuck_yield_path : forall e, ex_path Input (stuck_yield Input e) = ex_path Input e.
  Proof. intros [p fr]. unfold stuck_yield. cbn [ex_frames ex_path]. destruct (tl fr); reflexivity. Qed.

  Lemma stuck_yield_noflag : forall e, nofail e ->
    is_global_fail_set (top_ctx Input (stuck_yield Input e)) = false.
  Proof.
    intros [p fr] H. pose proof (nofail_top _ H) as Ht. unfold stuck_yield, top_ctx in *.
    cbn [ex_frames ex_path] in *.
    destruct fr as [|c [|par rest]]; cbn [hd tl ex_frames].
    - reflexivity.
    - destruct c as [e subs]. cbn [hd] in Ht. apply gfs_subs in Ht. cbn. exact Ht.
    - destruct c as [e subs]. cbn [hd] in Ht. apply gfs_subs in Ht.
      assert (is_global_fail_set par = false) as Hp by (apply H; cbn; auto).
      destruct par as [pe psubs]. cbn [add_sub halt_stuck is_global_fail_set] in *.
      apply orb_false_iff in Hp. destruct Hp as [Hp1 Hp2].
      rewrite Hp1, existsb_app, Hp2. cbn. rewrite Ht. reflexivity.
  Qed.

  Lemma unsat1 : forall e c, is_unsat (check (ex_path Input e) c) = true ->
    forall i, prior e i = true -> c i = false.
  Proof. intros e c H i Hp. apply is_unsat_true in H. eapply check_sound; eauto. Qed.
  Lemma unsat2 : forall e c, is_unsat (check (ex_path Input e) (cnot Input c)) = true ->
    forall i, prior e i = true -> c i = true.
  Proof.
    intros e c H i Hp. apply is_unsat_true in H. pose proof (check_sound _ _ H i Hp) as Hn.
    unfold cnot in Hn. apply negb_false_iff in Hn. exact Hn.
  Qed.

  Lemma failb_cons : forall o l i, failb (o :: l) i = reported_failure Input o i || failb l i.
  Proof. reflexivity. Qed.
  Lemma contb_cons : forall o l i, contb (o :: l) i = continues_with Input o i || contb l i.
  Proof. reflexivity. Qed.
  Lemma stuckb_cons : forall o l i, stuckb (o :: l) i = reported_stuck Input o i || stuckb l i.
  Proof. reflexivity. Qed.

  Ltac fin :=
    unfold good in *; cbn [is_vfail] in *;
    repeat match goal with
    | b : bool |- _ => destruct b
    | v : verdict |- _ => destruct v
    end; cbn in *;
    try solve [ repeat match goal with H : _ /\ _ |- _ => destruct H end;
                repeat split; intros; try discriminate; try reflexivity; auto ];
    intuition (try discriminate; try congruence).

  (* pure propositional steps over (failure, continues, stuck, prior, verdict) *)
  Lemma good_assert_fail_only : forall pr ci vr,
    (pr = true -> ci = false) -> good pr false false pr (if ci then vr else VFail).
  Proof. intros pr ci vr H. destruct pr, ci; try (specialize (H eq_refl); discriminate); fin. Qed.
  Lemma good_assert_pass_only : forall f c s pr ci vr,
    (pr = true -> ci = true) -> good f c s pr vr -> good f c s pr (if ci then vr else VFail).
  Proof. intros f c s pr ci vr H G. destruct pr, ci; try (specialize (H eq_refl); discriminate); fin. Qed.
  Lemma good_assert_both : forall f c s pr ci vr,
    good f c s pr vr -> good (pr && negb ci || f) c s pr (if ci then vr else VFail).
  Proof. intros f c s pr ci vr G. fin. Qed.
  Lemma good_assume_false : forall pr ci vr,
    ci = false -> good false false false pr (if ci then vr else VRejected).
  Proof. intros pr ci vr ->. fin. Qed.
  Lemma good_assume : forall f c s pr ci vr,
    good f c s (pr && ci) vr -> good f c s pr (if ci then vr else VRejected).
  Proof. intros f c s pr ci vr G. fin. Qed.
  Lemma good_stuck : forall pr, good false false pr pr VUnsupported.
  Proof. intros pr. fin. Qed.
  Lemma good_end : forall pr, good false pr false pr VPass.
  Proof. intros pr. fin. Qed.
  Lemma good_empty : forall v, good false false false false v.
  Proof. intros v. fin. Qed.
  Lemma good_false : forall f c s v, good f c s false v -> f = false /\ c = false /\ s = false.
  Proof.
    intros f c s v G. unfold good in G. cbn [andb] in G. destruct G as [Gf [Gc [Gs _]]].
    split; [exact Gf|]. split.
    - destruct c; [destruct (Gc eq_refl); discriminate|reflexivity].
    - destruct s; [destruct (Gs eq_refl); discriminate|reflexivity].
  Qed.
  (* a two-way branch: the two sides partition the inputs of the path *)
  Lemma good_branch : forall f1 c1 s1 f2 c2 s2 pr ci v,
    good f1 c1 s1 (pr && ci) v -> good f2 c2 s2 (pr && negb ci) v ->
    good (f1 || f2) (c1 || c2) (s1 || s2) pr v.
  Proof.
    intros f1 c1 s1 f2 c2 s2 pr ci v G1 G2. destruct pr, ci; cbn [andb negb] in G1, G2.
    - apply good_false in G2. destruct G2 as (-> & -> & ->). rewrite !orb_false_r. exact G1.
    - apply good_false in G1. destruct G1 as (-> & -> & ->). cbn [orb]. exact G2.
    - apply good_false in G1. apply good_false in G2.
      destruct G1 as (-> & -> & ->). destruct G2 as (-> & -> & ->). apply good_empty.
    - apply good_false in G1. apply good_false in G2.
      destruct G1 as (-> & -> & ->). destruct G2 as (-> & -> & ->). apply good_empty.
  Qed.

  (* which sides SEVM.jumpi follows on the first visit: the ones the oracle does not refute *)
  Lemma jumpi_follow : forall ra rb,
    d_follow_true (jumpi_decide (sat_code ra) (sat_code rb) 0 0 loop) = negb (is_unsat ra)
    /\ d_follow_false (jumpi_decide (sat_code ra) (sat_code rb) 0 0 loop) = negb (is_unsat rb).
  Proof.
    intros ra rb. destruct loop as [|lp|lp]; try (exfalso; revert loop_pos; clear; lia).
    destruct ra, rb; split; reflexivity.
  Qed.

  Lemma run_prog_good : forall p e, Forall ok_step p -> nofail e ->
    exists outs, run_prog Input check lit_false loop e p = Some outs /\
      forall i, good (failb outs i) (contb outs i) (stuckb outs i) (prior e i)
                     (foundry_run Input i (map (pstep_of Input) p)).
  Proof.
    induction p as [|k rest IH]; intros e Hok Hnf.
    - exists [Continues Input e]. split; [reflexivity|]. intros i.
      cbn [map foundry_run]. unfold failb, contb, stuckb.
      cbn [existsb reported_failure continues_with reported_stuck orb]. rewrite ?orb_false_r.
      apply good_end.
    - inversion Hok as [|k' rest' Hk Hrest]; subst k' rest'.
      destruct k as [c|c|c|cls].
      + (* vm.assert* returning a condition *)
        destruct (IH e Hrest Hnf) as [outs_r [Hrun Hgood]].
        cbn [run_prog cheat_step map pstep_of foundry_run]. unfold assert_step.
        destruct (is_unsat (check (ex_path Input e) c)) eqn:H1.
        * eexists. split; [reflexivity|]. intros i. cbn [app].
          rewrite failb_cons, contb_cons, stuckb_cons.
          unfold failb, contb, stuckb.
          cbn [existsb reported_failure continues_with reported_stuck].
          unfold set_top, top_ctx. cbn [ex_frames ex_path hd].
          rewrite gfs_halt_fail. cbn [andb orb]. rewrite ?orb_false_r.
          apply good_assert_fail_only. apply (unsat1 e c H1).
        * destruct (is_unsat (check (ex_path Input e) (cnot Input c))) eqn:H2; cbn [negb].
          -- cbn [map opt_concat]. rewrite Hrun. rewrite app_nil_r.
             eexists. split; [reflexivity|]. intros i.
             apply good_assert_pass_only; [apply (unsat2 e c H2)|apply Hgood].
          -- cbn [map opt_concat]. rewrite Hrun. rewrite app_nil_r.
             eexists. split; [reflexivity|]. intros i. cbn [app].
             rewrite failb_cons, contb_cons, stuckb_cons.
             cbn [reported_failure continues_with reported_stuck].
             unfold top_ctx at 1. cbn [ex_frames ex_path hd].
             rewrite gfs_halt_fail. cbn [andb orb]. rewrite sat_path_app. unfold cnot.
             apply good_assert_both. apply Hgood.
      + (* vm.assume *)
        cbn [run_prog cheat_step map pstep_of foundry_run]. unfold assume_step.
        destruct (lit_false c) eqn:Hl.
        * eexists. split; [reflexivity|]. intros i.
          apply good_assume_false. apply (lit_false_sound c Hl).
        * set (e' := mkExec Input (ex_path Input e ++ [c]) (ex_frames Input e)).
          assert (nofail e') as Hnf' by exact Hnf.
          destruct (IH e' Hrest Hnf') as [outs_r [Hrun Hgood]].
          cbn [map opt_concat]. rewrite Hrun. rewrite app_nil_r.
          eexists. split; [reflexivity|]. intros i.
          apply good_assume. specialize (Hgood i). unfold prior in *. subst e'.
          cbn [ex_path] in Hgood. rewrite sat_path_app in Hgood. exact Hgood.
      + (* a two-way branch: SEVM.jumpi *)
        set (e1 := mkExec Input (ex_path Input e ++ [c]) (ex_frames Input e)).
        set (e2 := mkExec Input (ex_path Input e ++ [cnot Input c]) (ex_frames Input e)).
        assert (nofail e1) as Hnf1 by exact Hnf. assert (nofail e2) as Hnf2 by exact Hnf.
        destruct (IH e1 Hrest Hnf1) as [o1 [Hr1 Hg1]]. destruct (IH e2 Hrest Hnf2) as [o2 [Hr2 Hg2]].
        assert (forall i, prior e1 i = prior e i && c i) as P1
          by (intros i; unfold prior, e1; cbn [ex_path]; apply sat_path_app).
        assert (forall i, prior e2 i = prior e i && negb (c i)) as P2
          by (intros i; unfold prior, e2; cbn [ex_path]; apply sat_path_app).
        cbn [run_prog cheat_step map pstep_of foundry_run]. unfold jumpi_step. cbv zeta.
        destruct (jumpi_follow (check (ex_path Input e) c) (check (ex_path Input e) (cnot Input c))) as [Ft Ff].
        rewrite Ft, Ff. fold e1 e2.
        destruct (is_unsat (check (ex_path Input e) c)) eqn:U1;
          destruct (is_unsat (check (ex_path Input e) (cnot Input c))) eqn:U2;
          cbn [negb app map opt_concat]; rewrite ?Hr1, ?Hr2, ?app_nil_r.
        * (* both refuted: the path has no input *)
          eexists. split; [reflexivity|]. intros i.
          assert (prior e i = false) as ->.
          { destruct (prior e i) eqn:Hp; [|reflexivity].
            pose proof (unsat1 e c U1 i Hp) as A. pose proof (unsat2 e c U2 i Hp) as B. congruence. }
          apply good_empty.
        * (* only the fall-through side *)
          eexists. split; [reflexivity|]. intros i. specialize (Hg2 i). rewrite P2 in Hg2.
          assert (prior e i && negb (c i) = prior e i) as E.
          { destruct (prior e i) eqn:Hp; [|reflexivity]. rewrite (unsat1 e c U1 i Hp). reflexivity. }
          rewrite E in Hg2. exact Hg2.
        * (* only the jump side *)
          eexists. split; [reflexivity|]. intros i. specialize (Hg1 i). rewrite P1 in Hg1.
          assert (prior e i && c i = prior e i) as E.
          { destruct (prior e i) eqn:Hp; [|reflexivity]. rewrite (unsat2 e c U2 i Hp). reflexivity. }
          rewrite E in Hg1. exact Hg1.
        * (* both sides *)
          eexists. split; [reflexivity|]. intros i. unfold failb, contb, stuckb.
          rewrite !existsb_app. apply good_branch with (ci := c i).
          -- rewrite <- P1. apply Hg1.
          -- rewrite <- P2. apply Hg2.
      + (* an unsupported cheatcode: HalmosException *)
        cbn in Hk. cbn [run_prog cheat_step map pstep_of foundry_run]. rewrite Hk.
        eexists. split; [reflexivity|]. intros i. cbn [app].
        rewrite failb_cons, contb_cons, stuckb_cons.
        unfold failb, contb, stuckb.
        cbn [existsb reported_failure continues_with reported_stuck].
        rewrite stuck_yield_noflag by exact Hnf. rewrite stuck_yield_path.
        cbn [andb orb negb]. rewrite ?orb_false_r. apply good_stuck.
  Qed.
End SeqProofs.

(* the statement quoted in Props/C13.v *)
Lemma seq_exact :
  forall (Input : Type) (check : path Input -> cond Input -> sat_result) (lit_false : cond Input -> bool)
         (loop : Z),
    (forall p c, check p c = Unsat -> forall i, sat_path Input p i = true -> c i = false) ->
    (forall c, lit_false c = true -> forall i, c i = false) ->
    0 < loop ->
    forall (p : list (cheat Input)) (e : exec Input),
      Forall (fun k => match k with KRaise _ cls => catch_action cls = Some AStuck | _ => True end) p ->
      (forall c, In c (ex_frames Input e) -> is_global_fail_set c = false) ->
      exists outs, run_prog Input check lit_false loop e p = Some outs /\
        forall i,
          let v := foundry_run Input i (map (pstep_of Input) p) in
          let pr := sat_path Input (ex_path Input e) i in
          let failure := existsb (fun o => reported_failure Input o i) outs in
          let passes := existsb (fun o => continues_with Input o i) outs in
          let stuck := existsb (fun o => reported_stuck Input o i) outs in
          (failure = true <-> pr = true /\ v = VFail)
          /\ (passes = true -> pr = true /\ (v = VPass \/ v = VFail))
          /\ (stuck = true -> pr = true /\ (v = VUnsupported \/ v = VFail))
          /\ (pr = true -> v = VPass -> passes = true)
          /\ (pr = true -> v = VUnsupported -> stuck = true).
Proof.
  intros Input check lf loop Hc Hl Hlp p e Hok Hnf.
  destruct (run_prog_good Input check lf loop Hc Hl Hlp p e Hok Hnf) as [outs [Hrun Hgood]].
  exists outs. split; [exact Hrun|]. intros i. cbv zeta.
  specialize (Hgood i). unfold good, failb, contb, stuckb, prior in Hgood.
  destruct Hgood as [Hf [H2 [H3 [H4 H5]]]].
  split; [|tauto].
  rewrite Hf. rewrite andb_true_iff.
  destruct (foundry_run Input i (map (pstep_of Input) p)); cbn; intuition discriminate.
Qed.

(* an exception no clause catches loses the failures found before it: two calls,
   assertTrue(x) then a call whose handler raises UnicodeDecodeError; Foundry fails for
   x = false, halmos yields nothing at all *)
Lemma escape_loses_failures :
  exists (check : path bool -> cond bool -> sat_result) (lit_false : cond bool -> bool)
         (e : exec bool) (p : list (cheat bool)) (i : bool),
    (forall q c, check q c = Unsat -> forall j, sat_path bool q j = true -> c j = false) /\
    (forall c, lit_false c = true -> forall j, c j = false) /\
    sat_path bool (ex_path bool e) i = true /\
    foundry_run bool i (map (pstep_of bool) p) = VFail /\
    run_prog bool check lit_false 2 e p = None.
Proof.
  exists (fun _ _ => Unknown), (fun _ => false), (mkExec bool [] [Ctx ENone []]),
    [KAssert bool (fun x => x); KRaise bool "UnicodeDecodeError"], false.
  split; [discriminate|]. split; [discriminate|]. vm_compute. auto.
Qed.

(* combined statements, as quoted in Props/C13.v *)
Lemma bytes_array_path_stuck :
  forall d cd, In d all_descrs -> is_dyn (d_ty d) = true -> d_arr d = true ->
    exists h cls, mk_assert_handler (render d) = Some h /\ run_handler h cd = RRaise cls /\
                  catch_action cls = Some AStuck.
Proof.
  intros d cd Hd Hy Ha. destruct (bytes_array_raises d cd Hd Hy Ha) as [h [H1 H2]].
  exists h, unsupported_class. exact (conj H1 (conj H2 unsupported_caught_stuck)).
Qed.

Lemma run_excepts_all :
  is_subclass "FailCheatcode" delayed_raise_class = true /\ catch_action "FailCheatcode" = Some AFailYield
  /\ catch_action "InfeasiblePath" = Some ADrop
  /\ catch_action stuck_error_class = Some AStuck
  /\ forallb (fun cl => match action_of cl with AOther => false | _ => true end) run_excepts = true.
Proof.
  exact (conj (proj1 delayed_fail_yields) (conj (proj2 delayed_fail_yields)
          (conj infeasible_dropped (conj stuck_class_caught run_excepts_understood)))).
Qed.

Lemma seq_escape_refuted :
  hres_raises RUnicodeError = Some "UnicodeDecodeError"%string /\
  catch_action "UnicodeDecodeError" = None /\
  exists (check : path bool -> cond bool -> sat_result) (lit_false : cond bool -> bool)
         (e : exec bool) (p : list (cheat bool)) (i : bool),
    (forall q c, check q c = Unsat -> forall j, sat_path bool q j = true -> c j = false) /\
    (forall c, lit_false c = true -> forall j, c j = false) /\
    sat_path bool (ex_path bool e) i = true /\
    foundry_run bool i (map (pstep_of bool) p) = VFail /\
    run_prog bool check lit_false 2 e p = None.
Proof. exact (conj eq_refl (conj unicode_escapes escape_loses_failures)). Qed.

(* ================================================================== 3. what a table handler can raise *)
(* mk_cond's ValueError (caught by no clause, see valueerror_escapes) is unreachable from the
   handlers of the table, on ANY calldata: one-word operands are always 32 bytes, and the
   bytes / array handlers only ever use Eq / NotEq *)
Lemma extract_bytes_length : forall data off n,
  List.length (extract_bytes data off n) = Z.to_nat n.
Proof.
  intros. unfold extract_bytes, pad_right. rewrite app_length, repeat_length, firstn_length. lia.
Qed.

Lemma extract_bytes_32 : forall data off, List.length (extract_bytes data off 32) = 32%nat.
Proof. intros. rewrite extract_bytes_length. reflexivity. Qed.

Lemma eq_like_noraise : forall bop b, (bop = "Eq" \/ bop = "NotEq")%string -> eq_like bop b <> CRaise.
Proof. intros bop b [-> | ->]; cbn; discriminate. Qed.

Lemma mk_cond_eqlike_noraise : forall bop v1 v2,
  (bop = "Eq" \/ bop = "NotEq")%string -> mk_cond bop v1 v2 <> CRaise.
Proof.
  intros bop v1 v2 H. unfold mk_cond.
  destruct (is_empty v1 && is_empty v2); [apply eq_like_noraise, H|].
  destruct (is_empty v1 || is_empty v2); [apply eq_like_noraise, H|].
  destruct (negb (8 * zlen v1 =? 8 * zlen v2)); [apply eq_like_noraise, H|].
  destruct H as [-> | ->].
  - change (String.eqb "Eq" "Eq") with true. cbv iota. discriminate.
  - change (String.eqb "NotEq" "Eq") with false. change (String.eqb "NotEq" "NotEq") with true.
    cbv iota. discriminate.
Qed.

Definition known_bop (b : string) : bool :=
  str_in b ["Eq"; "NotEq"; "ULt"; "UGt"; "ULe"; "UGe"; "SLt"; "SGt"; "SLe"; "SGe"]%string.

Lemma mk_cond_word_noraise : forall bop l1 l2,
  List.length l1 = 32%nat -> List.length l2 = 32%nat -> known_bop bop = true ->
  mk_cond bop l1 l2 <> CRaise.
Proof.
  intros bop l1 l2 H1 H2 Hk. rewrite mk_cond_word by assumption. cbv zeta.
  unfold known_bop, str_in in Hk. cbn [existsb] in Hk.
  repeat match goal with
  | |- context [String.eqb bop ?s] => destruct (String.eqb bop s); [discriminate|]
  end.
  cbn in Hk. discriminate.
Qed.

Lemma with_msg_value_error : forall c log data idx,
  with_msg c log data idx = RValueError -> c = CRaise.
Proof.
  intros [b|] log data idx H; [|reflexivity]. unfold with_msg in H.
  destruct log; [destruct (utf8_valid _)|]; discriminate.
Qed.

Lemma with_msg_no_raise : forall c log data idx cls, with_msg c log data idx <> RRaise cls.
Proof.
  intros [b|] log data idx cls; unfold with_msg; [|discriminate].
  destruct log; [destruct (utf8_valid _)|]; discriminate.
Qed.

Lemma run_handler_raise : forall h cd cls, run_handler h cd = RRaise cls -> cls = unsupported_class.
Proof.
  intros [bop log|bop log|bop log|bop typ|e log] cd cls E; cbn [run_handler] in E;
    try (exfalso; exact (with_msg_no_raise _ _ _ _ _ E)).
  inversion E. reflexivity.
Qed.

Lemma no_value_error : forall d cd,
  In d all_descrs -> run_handler (expected_handler d) cd <> RValueError.
Proof.
  intros [o t a m] cd Hd Heq. pose proof (all_descrs_valid _ Hd) as Hv.
  remember (expected_handler (mkDescr o t a m)) as h eqn:Hh.
  destruct o, t, a; try (vm_compute in Hv; discriminate Hv); vm_compute in Hh; subst h;
    cbn [run_handler] in Heq;
    match type of Heq with
    | RRaise _ = _ => discriminate Heq
    | _ => apply with_msg_value_error in Heq
    end;
    match type of Heq with
    | CBool _ = _ => discriminate Heq
    | mk_cond _ (extract_bytes _ _ _) _ = _ =>
        revert Heq; apply mk_cond_word_noraise; [apply extract_bytes_32|apply extract_bytes_32|reflexivity]
    | mk_cond "Eq" _ _ = _ => revert Heq; apply mk_cond_eqlike_noraise; left; reflexivity
    | mk_cond "NotEq" _ _ = _ => revert Heq; apply mk_cond_eqlike_noraise; right; reflexivity
    end.
Qed.

(* so the only classes a handler of the table can raise, whatever the calldata, are the one of
   the unsupported overloads (a stuck path) and UnicodeDecodeError (the known finding) *)
Lemma handler_raises_only : forall d cd h,
  In d all_descrs -> mk_assert_handler (render d) = Some h ->
  hres_raises (run_handler h cd) = None
  \/ hres_raises (run_handler h cd) = Some unsupported_class
  \/ hres_raises (run_handler h cd) = Some "UnicodeDecodeError"%string.
Proof.
  intros d cd h Hd Hh. rewrite (handler_of_render d Hd) in Hh. inversion Hh; subst h.
  pose proof (no_value_error d cd Hd) as Hn.
  destruct (run_handler (expected_handler d) cd) as [c msg| |cls|] eqn:E; cbn [hres_raises].
  - left. reflexivity.
  - contradiction Hn. reflexivity.
  - right. left. f_equal. exact (run_handler_raise _ _ _ E).
  - right. right. reflexivity.
Qed.

(* without soundness of the oracle a failure is missed: assertTrue(x) with an oracle that says
   "not x" is unsatisfiable *)
Lemma seq_unsound_oracle_misses :
  exists (check : path bool -> cond bool -> sat_result) (e : exec bool) (p : list (cheat bool)) (i : bool) outs,
    sat_path bool (ex_path bool e) i = true /\
    foundry_run bool i (map (pstep_of bool) p) = VFail /\
    run_prog bool check (fun _ => false) 2 e p = Some outs /\
    existsb (fun o => reported_failure bool o i) outs = false.
Proof.
  exists (fun (_ : path bool) (c : cond bool) => if c true then Sat else Unsat), (mkExec bool [] [Ctx ENone []]),
    [KAssert bool (fun x => x)], false.
  eexists. vm_compute. repeat split; reflexivity.
Qed.
