(* C12: every admitted argument tuple is an instance of the symbolic calldata. *)
From Coq Require Import ZArith List Bool Lia ZifyBool Permutation.
From HV Require Import Spec.AbiSpec Gen.GenAbiEnc Model.AbiEncModel Proofs.AbiEncProofs Proofs.AbiEncInv.
Import ListNotations.
Open Scope Z_scope.
Ltac Zify.zify_post_hook ::= Z.to_euclidean_division_equations.
Local Arguments be_bytes : simpl never.
Local Arguments Z.of_nat : simpl never.

(* ------------------------------------------------------------------ chunks *)

(* a byte string an item can denote, chosen item by item *)
Definition item_ok (it : item) (ch : bytes) : Prop :=
  match it with
  | SymWord _ _ _ => exists w, 0 <= w < W256 /\ ch = be_bytes 32 w
  | SymBytes _ _ _ n => length ch = n
  | SizeVar _ _ sizes => exists n, In n sizes /\ ch = be_bytes 32 (Z.of_nat n)
  | Con z => ch = be_bytes 32 z
  end.

Lemma item_ok_length : forall it ch, item_ok it ch -> length ch = item_size it.
Proof.
  intros [k nm tp|k nm tp n|k nm sz|z] ch H; cbn in *.
  - destruct H as [w [_ ->]]. apply be_bytes_length.
  - exact H.
  - destruct H as [n [_ ->]]. apply be_bytes_length.
  - subst. apply be_bytes_length.
Qed.

Lemma chunks_length : forall its chs, Forall2 item_ok its chs -> length (concat chs) = items_size its.
Proof.
  intros its chs H. induction H; [reflexivity|].
  cbn [concat]. rewrite app_length, IHForall2, (item_ok_length _ _ H). reflexivity.
Qed.

Lemma anychunks : forall its,
  (forall k nm sz, In (SizeVar k nm sz) its -> sz <> []) -> exists chs, Forall2 item_ok its chs.
Proof.
  induction its as [|it its IH]; intros Hs; [exists []; constructor|].
  destruct IH as [chs Hc]; [intros k nm sz Hin; eapply Hs; right; exact Hin|].
  assert (exists ch, item_ok it ch) as [ch Hch].
  { destruct it as [k nm tp|k nm tp n|k nm sz|z]; cbn.
    - exists (be_bytes 32 0), 0. split; [unfold W256; lia|reflexivity].
    - exists (repeat 0 n). apply repeat_length.
    - destruct sz as [|n sz]; [exfalso; eapply Hs; [left; reflexivity|reflexivity]|].
      exists (be_bytes 32 (Z.of_nat n)), n. split; [left; reflexivity|reflexivity].
    - eexists. reflexivity. }
  exists (ch :: chs). constructor; assumption.
Qed.

(* ------------------------------------------------------------------ static flag = the ABI's notion *)

Lemma wf_tuple_in : forall its it, wf_ty (Tuple its) -> In it its -> wf_ty (snd it).
Proof.
  induction its as [|x its IH]; intros it Hw Hin; [destruct Hin|].
  cbn in Hw. destruct Hw as [H1 H2]. destruct Hin as [<-|Hin]; [exact H1|]. apply IH; assumption.
Qed.

Lemma runs_static : forall {A} (g : A -> nat -> R) (tyf : A -> ty) l k es dss k',
  (forall a, In a l -> forall k e d k1, g a k = (e, d, k1) ->
     e_static e = negb (is_dyn (tyf a)) /\ (e_static e = true -> e_size e = static_size (tyf a))) ->
  runs g l k es dss k' ->
  forallb e_static es = negb (existsb (fun a => is_dyn (tyf a)) l) /\
  (forallb e_static es = true -> lsum (map e_size es) = lsum (map (fun a => static_size (tyf a)) l)).
Proof.
  intros A g tyf l k es dss k' Hg H. induction H; [split; reflexivity|].
  destruct (Hg a (or_introl eq_refl) _ _ _ _ H) as [G1 G2].
  destruct IHruns as [I1 I2]; [intros a' Ha'; apply Hg; right; exact Ha'|].
  cbn [forallb existsb map lsum]. split.
  - rewrite G1, I1, negb_orb. reflexivity.
  - intros Hs. apply andb_true_iff in Hs. destruct Hs as [H1 H2].
    rewrite (G2 H1), (I2 H2). reflexivity.
Qed.

Lemma existsb_const_seq : forall b s n, (1 <= n)%nat -> existsb (fun _ : nat => b) (seq s n) = b.
Proof.
  intros b s n Hn. destruct n as [|n]; [lia|]. cbn. destruct b; [reflexivity|].
  cbn. clear Hn. revert s. induction n as [|n IH]; intros s; [reflexivity|]. cbn. apply IH.
Qed.

Lemma lsum_const_seq : forall x s n, lsum (map (fun _ : nat => x) (seq s n)) = (n * x)%nat.
Proof. intros x s n. revert s. induction n as [|n IH]; intros s; [reflexivity|]. cbn. rewrite IH. lia. Qed.

Theorem encode_static : forall t, wf_ty t -> forall c name k e ds k',
  encode c name t k = (e, ds, k') ->
  e_static e = negb (is_dyn t) /\ (e_static e = true -> e_size e = static_size t).
Proof.
  induction t as [s|t n IH|t IH|its IH] using ty_ind'; intros Hw c name k e ds k' H; cbn [encode] in H.
  - pose proof (is_dyn_base_spec s) as Hb. cbn [is_dyn static_size]. destruct (is_dyn_base s).
    + rewrite get_dyn_sizes_cand in H. inversion H; subst. rewrite <- Hb. cbn.
      split; [reflexivity|discriminate].
    + inversion H; subst. rewrite <- Hb. cbn. split; reflexivity.
  - destruct Hw as [Hn Hw].
    destruct (run_list _ k) as [[es ds'] k2] eqn:Er. inversion H; subst. clear H.
    apply run_list_runs in Er. destruct Er as [dss [-> Hr]].
    assert (Hc : chain c k es dss k').
    { eapply runs_chain; [|exact Hr]. intros a _ k0 e0 d0 k1 Hg. eapply encode_inv. exact Hg. }
    destruct (tuple_static _ _ _ _ _ Hc) as [T1 T2].
    destruct (runs_static _ (fun _ => t) _ _ _ _ _ (fun a _ k0 e0 d0 k1 Hg => IH Hw _ _ _ _ _ _ Hg) Hr) as [S1 S2].
    rewrite existsb_const_seq in S1 by exact Hn. rewrite lsum_const_seq in S2.
    cbn [is_dyn static_size]. split; [congruence|].
    intros Hs. rewrite T1 in Hs. rewrite (T2 Hs), (S2 Hs). reflexivity.
  - rewrite get_dyn_sizes_cand in H.
    destruct (run_list _ (S k)) as [[es ds'] k2] eqn:Er. inversion H; subst. cbn.
    split; [reflexivity|discriminate].
  - destruct (run_list _ k) as [[es ds'] k2] eqn:Er. inversion H; subst. clear H.
    apply run_list_runs in Er. destruct Er as [dss [-> Hr]].
    assert (Hc : chain c k es dss k').
    { eapply runs_chain; [|exact Hr]. intros a _ k0 e0 d0 k1 Hg. eapply encode_inv. exact Hg. }
    destruct (tuple_static _ _ _ _ _ Hc) as [T1 T2].
    rewrite Forall_forall in IH.
    destruct (runs_static _ (fun it : str * ty => snd it) _ _ _ _ _
                (fun a Ha k0 e0 d0 k1 Hg => IH a Ha (wf_tuple_in _ _ Hw Ha) _ _ _ _ _ _ Hg) Hr) as [S1 S2].
    cbn [is_dyn static_size]. split; [congruence|].
    intros Hs. rewrite T1 in Hs. rewrite (T2 Hs). rewrite (S2 Hs). symmetry. apply list_sum_lsum.
Qed.

(* ------------------------------------------------------------------ decoding a tuple layout *)

Definition decodes (t : ty) (bs : bytes) (v : value) : Prop :=
  forall pre post, decode (pre ++ bs ++ post) t (length pre) = Some v.

Record entry := { en_t : ty; en_e : enc; en_chs : list bytes; en_v : value }.

Definition entry_ok (en : entry) : Prop :=
  Forall2 item_ok (e_items (en_e en)) (en_chs en) /\
  decodes (en_t en) (concat (en_chs en)) (en_v en) /\
  e_static (en_e en) = negb (is_dyn (en_t en)) /\
  (e_static (en_e en) = true -> e_size (en_e en) = static_size (en_t en)) /\
  e_size (en_e en) = items_size (e_items (en_e en)).

Definition has_chunks (e : enc) : Prop :=
  (exists chs, Forall2 item_ok (e_items e) chs) /\ e_size e = items_size (e_items e).

Definition comp_ty (buf : bytes) (t : ty) : comp := (is_dyn t, static_size t, decode buf t).

Lemma et_loop_mono : forall es total h t s, et_loop es total = (h, t, s) -> (total <= s)%nat.
Proof.
  induction es as [|e es IH]; intros total h t s H; cbn in H.
  - inversion H. lia.
  - destruct (e_static e).
    + destruct (et_loop es total) as [[h' t'] s'] eqn:E. inversion H; subst. eapply IH. exact E.
    + destruct (et_loop es (total + e_size e)%nat) as [[h' t'] s'] eqn:E. inversion H; subst.
      apply IH in E. lia.
Qed.

Lemma et_chunks_any : forall extra, Forall has_chunks extra ->
  forall total h t s, et_loop extra total = (h, t, s) ->
  exists hch tch, Forall2 item_ok h hch /\ Forall2 item_ok t tch.
Proof.
  induction extra as [|e es IH]; intros Hx total h t s H; cbn in H.
  - inversion H; subst. exists [], []. split; constructor.
  - inversion Hx as [|? ? [[chs Hch] _] Hx']; subst.
    destruct (e_static e).
    + destruct (et_loop es total) as [[h' t'] s'] eqn:E. inversion H; subst.
      destruct (IH Hx' _ _ _ _ E) as (hch & tch & H1 & H2).
      exists (chs ++ hch), tch. split; [apply Forall2_app; assumption|assumption].
    + destruct (et_loop es (total + e_size e)%nat) as [[h' t'] s'] eqn:E. inversion H; subst.
      destruct (IH Hx' _ _ _ _ E) as (hch & tch & H1 & H2).
      exists (be_bytes 32 (Z.of_nat total) :: hch), (chs ++ tch).
      split; [constructor; [reflexivity|assumption]|apply Forall2_app; assumption].
Qed.

Lemma et_heads_size : forall es, Forall (fun e => e_size e = items_size (e_items e)) es ->
  forall total h t s, et_loop es total = (h, t, s) -> items_size h = lsum (map head_size es).
Proof.
  induction es as [|e es IH]; intros Hs total h t s H; cbn in H.
  - inversion H. reflexivity.
  - inversion Hs as [|? ? Hse Hs']; subst. pose proof (head_size_spec e) as Hh.
    destruct (e_static e).
    + destruct (et_loop es total) as [[h' t'] s'] eqn:E. inversion H; subst.
      rewrite items_size_app, (IH Hs' _ _ _ _ E). cbn [map lsum]. lia.
    + destruct (et_loop es (total + e_size e)%nat) as [[h' t'] s'] eqn:E. inversion H; subst.
      change (Con (Z.of_nat total) :: h') with ([Con (Z.of_nat total)] ++ h').
      rewrite items_size_app, (IH Hs' _ _ _ _ E). cbn [map lsum]. rewrite Hh. reflexivity.
Qed.

Lemma et_decode : forall (l : list entry) (extra : list enc),
  Forall entry_ok l -> Forall has_chunks extra ->
  forall total h t s, et_loop (map en_e l ++ extra) total = (h, t, s) -> Z.of_nat s < W256 ->
  exists hch tch, Forall2 item_ok h hch /\ Forall2 item_ok t tch /\
    forall pre A M post buf, buf = pre ++ A ++ concat hch ++ M ++ concat tch ++ post ->
      total = (length A + length (concat hch) + length M)%nat ->
      dec_seq buf (map (fun en => comp_ty buf (en_t en)) l) (length pre) (length pre + length A)
      = Some (map en_v l).
Proof.
  induction l as [|en l IH]; intros extra Hl Hx total h t s El Hs.
  - cbn in El. destruct (et_chunks_any _ Hx _ _ _ _ El) as (hch & tch & H1 & H2).
    exists hch, tch. repeat split; try assumption. all: try (intros; reflexivity).
  - inversion Hl as [|? ? Hen Hl']; subst. destruct Hen as (Hch & Hdec & Hst & Hss & Hsz).
    pose proof (chunks_length _ _ Hch) as Hlen.
    cbn [map app et_loop] in El.
    destruct (e_static (en_e en)) eqn:Es.
    + destruct (et_loop (map en_e l ++ extra) total) as [[h' t'] s'] eqn:El'. inversion El; subst. clear El.
      destruct (IH _ Hl' Hx _ _ _ _ El' Hs) as (hch' & tch' & Hh' & Ht' & Hd').
      exists (en_chs en ++ hch'), tch'. split; [apply Forall2_app; assumption|]. split; [assumption|].
      intros pre A M post buf Hbuf Htot.
      assert (Hnd : is_dyn (en_t en) = false) by (destruct (is_dyn (en_t en)); [discriminate|reflexivity]).
      cbn [map dec_seq]. unfold comp_ty at 1. rewrite Hnd.
      rewrite concat_app in Hbuf, Htot. rewrite app_length in Htot.
      assert (Hd1 : decode buf (en_t en) (length pre + length A) = Some (en_v en)).
      { specialize (Hdec (pre ++ A) (concat hch' ++ M ++ concat tch' ++ post)).
        rewrite app_length in Hdec. rewrite <- Hdec. f_equal. subst buf.
        rewrite <- !app_assoc. reflexivity. }
      rewrite Hd1.
      replace (length pre + length A + static_size (en_t en))%nat
        with (length pre + length (A ++ concat (en_chs en)))%nat
        by (rewrite app_length, Hlen, <- Hsz, (Hss eq_refl); lia).
      rewrite (Hd' pre (A ++ concat (en_chs en)) M post buf).
      * reflexivity.
      * subst buf. rewrite <- !app_assoc. reflexivity.
      * rewrite app_length. lia.
    + destruct (et_loop (map en_e l ++ extra) (total + e_size (en_e en))%nat) as [[h' t'] s'] eqn:El'.
      inversion El; subst. clear El.
      destruct (IH _ Hl' Hx _ _ _ _ El' Hs) as (hch' & tch' & Hh' & Ht' & Hd').
      pose proof (et_loop_mono _ _ _ _ _ El') as Hmono.
      exists (be_bytes 32 (Z.of_nat total) :: hch'), (en_chs en ++ tch').
      split; [constructor; [reflexivity|assumption]|]. split; [apply Forall2_app; assumption|].
      intros pre A M post buf Hbuf Htot.
      assert (Hyd : is_dyn (en_t en) = true) by (destruct (is_dyn (en_t en)); [reflexivity|discriminate]).
      cbn [map dec_seq]. unfold comp_ty at 1. rewrite Hyd.
      cbn [concat] in Hbuf, Htot. rewrite concat_app in Hbuf. rewrite app_length, be_bytes_length in Htot.
      assert (Hw : word buf (length pre + length A) = Some (Z.of_nat total)).
      { subst buf. rewrite <- (app_length pre A).
        replace (pre ++ A ++ (be_bytes 32 (Z.of_nat total) ++ concat hch') ++ M ++ (concat (en_chs en) ++ concat tch') ++ post)
          with ((pre ++ A) ++ be_bytes 32 (Z.of_nat total) ++ (concat hch' ++ M ++ (concat (en_chs en) ++ concat tch') ++ post))
          by (rewrite <- !app_assoc; reflexivity).
        apply word_at. lia. }
      rewrite Hw, Nat2Z.id.
      assert (Hd1 : decode buf (en_t en) (length pre + total) = Some (en_v en)).
      { specialize (Hdec (pre ++ A ++ be_bytes 32 (Z.of_nat total) ++ concat hch' ++ M) (concat tch' ++ post)).
        rewrite !app_length, be_bytes_length in Hdec.
        replace (length pre + total)%nat
          with (length pre + (length A + (32 + (length (concat hch') + length M))))%nat by lia.
        rewrite <- Hdec. f_equal. subst buf. rewrite <- !app_assoc. reflexivity. }
      rewrite Hd1.
      replace (length pre + length A + 32)%nat
        with (length pre + length (A ++ be_bytes 32 (Z.of_nat total)))%nat
        by (rewrite app_length, be_bytes_length; lia).
      rewrite (Hd' pre (A ++ be_bytes 32 (Z.of_nat total)) (M ++ concat (en_chs en)) post buf).
      * reflexivity.
      * subst buf. rewrite <- !app_assoc. reflexivity.
      * rewrite !app_length, be_bytes_length, Hlen, <- Hsz. lia.
Qed.

Lemma tuple_decode : forall (l : list entry) (extra : list enc),
  Forall entry_ok l -> Forall has_chunks extra ->
  Z.of_nat (e_size (encode_tuple (map en_e l ++ extra))) < W256 ->
  exists chs, Forall2 item_ok (e_items (encode_tuple (map en_e l ++ extra))) chs /\
    forall pre post,
      dec_seq (pre ++ concat chs ++ post)
        (map (fun en => comp_ty (pre ++ concat chs ++ post) (en_t en)) l) (length pre) (length pre)
      = Some (map en_v l).
Proof.
  intros l extra Hl Hx Hs. unfold encode_tuple in *. rewrite fold_head_sum in *. cbn [Nat.add] in *.
  destruct (et_loop (map en_e l ++ extra) (lsum (map head_size (map en_e l ++ extra)))) as [[h t] s] eqn:El.
  cbn [e_items e_size] in *.
  destruct (et_decode l extra Hl Hx _ _ _ _ El Hs) as (hch & tch & Hh & Ht & Hd).
  exists (hch ++ tch). split; [apply Forall2_app; assumption|].
  intros pre post.
  specialize (Hd pre [] [] post (pre ++ concat (hch ++ tch) ++ post)).
  cbn [length app] in Hd. rewrite !Nat.add_0_r in Hd. cbn [Nat.add] in Hd. apply Hd.
  - rewrite concat_app, <- !app_assoc. reflexivity.
  - rewrite (chunks_length _ _ Hh).
    symmetry. eapply et_heads_size; [|exact El].
    apply Forall_app. split.
    + rewrite Forall_forall in Hl. apply Forall_forall. intros e He. apply in_map_iff in He.
      destruct He as [en [<- Hen]]. apply (Hl en Hen).
    + eapply Forall_impl; [|exact Hx]. intros e [_ He]. exact He.
Qed.
