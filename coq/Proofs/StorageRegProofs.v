(* C08 -- hash constants decoded through a registry (KeccakRegistry.reverse_lookup: the
   per-path OffsetMap first, then the precomputed one built by mk_precomputed_keccak_registry).
   The hypothesis on a registry is stated explicitly: every entry f_sha3_<bits>(<pre>) is filed
   under the hash of its own preimage (`omap_sound`).  It is discharged for the precomputed
   registry of the code (tables of hashes.py assembled as utils.py does, both regenerated) by
   recomputing every entry with the executable Keccak-256 (StorageProofs.pre_entries_ok), and
   it is preserved by register(). *)
From Coq Require Import ZArith NArith List Bool Lia.
From HV Require Import Base.Keccak Spec.StorageSpec Gen.GenStoreConsts Gen.GenHashes Gen.GenStoreAxioms
  Model.StorageModel Proofs.StorageProofs.
Import ListNotations.
Open Scope Z_scope.

Definition omap_sound (H : Z -> Z -> Z) (m : omap) : Prop :=
  forall raw en off, In (raw, (en, off)) m -> H (r_bits en) (r_pre en) = r_hash en /\ 0 <= r_hash en.

Lemma omap_sound_nil : forall H, omap_sound H [].
Proof. intros H raw en off []. Qed.

Lemma W_pos : 0 < W.
Proof. unfold W. apply Z.pow_pos_nonneg; lia. Qed.

Lemma om_get_in : forall m c en d, om_get m c = Some (en, d) -> exists raw off, In (raw, (en, off)) m.
Proof.
  intros m c en d Hg. unfold om_get in Hg.
  destruct (om_find m (om_get_bucket c)) as [[v o]|] eqn:E; [|discriminate].
  inversion Hg; subst. apply om_find_in in E. eauto.
Qed.

(* a hit of the OffsetMap: the entry's own hash plus the returned delta is the queried key *)
Lemma om_get_sound : forall H m c en d, om_wf m -> omap_sound H m -> 0 <= c ->
  om_get m c = Some (en, d) -> H (r_bits en) (r_pre en) + d = c.
Proof.
  intros H m c en d Hwf Hs Hc Hg.
  destruct (om_get_in m c en d Hg) as (raw & off & Hin).
  destruct (Hs _ _ _ Hin) as [Hh Hpos].
  destruct (offsetmap_get m c en d Hwf Hc Hpos Hg) as [Hk _]. lia.
Qed.

(* reverse_lookup through sound registries returns a term that DENOTES the constant *)
Lemma reverse_lookup_sound : forall (H : Z -> Z -> Z) (pre : omap) (R : registry) (e : env) (c : Z) (t : loc),
  om_wf pre -> omap_sound H pre -> om_wf (hash_values R) -> omap_sound H (hash_values R) ->
  0 <= c < W ->
  reverse_lookup_in pre R c = Some t -> eval H e t = c.
Proof.
  intros H pre R e c t Wp Sp Wr Sr Hc Hl. unfold reverse_lookup_in in Hl.
  assert (G : forall m en d, om_wf m -> omap_sound H m -> om_get m c = Some (en, d) ->
                eval H e (with_delta (term_of_entry en) d) = c).
  { intros m en d Wm Sm Hg. pose proof (om_get_sound H m c en d Wm Sm (proj1 Hc) Hg) as E.
    unfold with_delta, term_of_entry. destruct (d =? 0) eqn:D.
    - apply Z.eqb_eq in D. cbn [eval]. lia.
    - cbn [eval fold_right]. rewrite Z.add_0_r.
      rewrite Z.mod_mod by (pose proof W_pos; lia).
      rewrite Zplus_mod_idemp_r. rewrite E. apply Z.mod_small. exact Hc. }
  destruct (om_get (hash_values R) c) as [[en d]|] eqn:E1.
  - inversion Hl; subst. exact (G (hash_values R) en d Wr Sr E1).
  - destruct (om_get pre c) as [[en d]|] eqn:E2; [|discriminate]. inversion Hl; subst. exact (G pre en d Wp Sp E2).
Qed.

(* ---- the hypothesis holds for the code's precomputed registry *)
Lemma om_set_inv : forall m k v m', om_set m k v = Some m' -> m' = (om_set_bucket k, (v, om_set_offset k)) :: m.
Proof.
  intros m k v m' Hs. unfold om_set in Hs.
  destruct (om_find m (om_set_bucket k)) as [[v0 o0]|].
  - destruct (rentry_eqb v0 v && (o0 =? om_set_offset k)); [|discriminate]. inversion Hs; reflexivity.
  - inversion Hs; reflexivity.
Qed.

Lemma om_set_all_from : forall es m0 m', om_set_all es (Some m0) = Some m' ->
  forall raw en off, In (raw, (en, off)) m' -> In (raw, (en, off)) m0 \/ In en es.
Proof.
  induction es as [|a es IH]; intros m0 m' Hs raw en off Hin; cbn in Hs.
  - inversion Hs; subst; auto.
  - destruct (om_set m0 (r_hash a) a) as [m1|] eqn:E.
    + destruct (IH m1 m' Hs raw en off Hin) as [Hin1|Hin1]; [|right; right; exact Hin1].
      rewrite (om_set_inv _ _ _ _ E) in Hin1. destruct Hin1 as [Heq|Hin1]; [|left; exact Hin1].
      inversion Heq; subst. right; left; reflexivity.
    + exfalso. clear -Hs. induction es; cbn in Hs; [discriminate | auto].
Qed.

Lemma precomputed_sound : omap_sound Hkeccak precomputed.
Proof.
  unfold precomputed. destruct (om_set_all pre_entries (Some [])) as [m|] eqn:E; [|apply omap_sound_nil].
  intros raw en off Hin.
  destruct (om_set_all_from _ _ _ E _ _ _ Hin) as [[]|Hin'].
  destruct (pre_entries_ok en Hin') as (A & B & _). split; [exact A | lia].
Qed.

(* ---- and is preserved by register() (sha3_data registers f_sha3_N(const) with its real hash) *)
Lemma register_sound : forall H R en R',
  om_wf (hash_values R) -> omap_sound H (hash_values R) ->
  H (r_bits en) (r_pre en) = r_hash en -> 0 <= r_hash en ->
  register R en = Ok R' -> om_wf (hash_values R') /\ omap_sound H (hash_values R').
Proof.
  intros H R en R' Wr Sr Hh Hpos Hreg. unfold register in Hreg.
  destruct (existsb (rentry_eqb en) (hash_ids R)); [inversion Hreg; subst; auto|].
  destruct (om_set (hash_values R) (r_hash en) en) as [m|] eqn:E; [|discriminate].
  inversion Hreg; subst; cbn [hash_values]. split; [eapply om_set_wf; eauto|].
  rewrite (om_set_inv _ _ _ _ E). intros raw e' off [Heq|Hin]; [inversion Heq; subst; auto | eauto].
Qed.

(* ---- decoding a constant IS decoding the term the registry returns for it (both layouts) *)
Lemma decode_sol_const : forall pre R f c t, reverse_lookup_in pre R c = Some t ->
  decode_sol pre R (S f) (K c) = decode_sol pre R f t.
Proof. intros pre R f c t Hl. cbn [decode_sol]. rewrite Hl. reflexivity. Qed.

Lemma decode_gen_const : forall pre R e f c t, reverse_lookup_in pre R c = Some t ->
  decode_gen pre R e (S f) (K c) = decode_gen pre R e f t.
Proof. intros pre R e f c t Hl. cbn [decode_gen]. unfold g_lookup. rewrite Hl. reflexivity. Qed.

(* the two layouts' decoders at a given recursion budget *)
Definition sol_dec (pre : omap) (R : registry) (f : nat) (l : loc) : res (chunkid * list kt) :=
  bind (key_structure pre R f l) (fun r => match r with (slot, keys, n, sz) => Ok ((slot, n, sz), keys) end).

Lemma sol_dec_const : forall pre R f c t, reverse_lookup_in pre R c = Some t ->
  sol_dec pre R (S f) (K c) = sol_dec pre R f t.
Proof. intros. unfold sol_dec, key_structure. rewrite (decode_sol_const pre R f c t); auto. Qed.

Section ConstLWW.
  Variable val : Type.
  Variable evalv : env -> val -> Z.
  Variable kden : env -> list kt -> Z.
  Variable orc : list kt -> list kt -> tri.
  Variable init : chunkid -> Z -> Z.
  Variable adm : env -> Prop.
  Hypothesis orc_eq : forall a b, orc a b = MustEq -> forall e, adm e -> kden e a = kden e b.
  Hypothesis orc_neq : forall a b, orc a b = MustNeq -> forall e, adm e -> kden e a <> kden e b.

  (* last write wins between the constant spelling of a location and the spelling through the
     hash term its registry entry stands for, in either order: a value stored through one is
     what a load through the other returns -- and by reverse_lookup_sound the two spellings
     denote the same EVM slot whenever the registries are sound *)
  Lemma const_spelling_lww : forall (H : Z -> Z -> Z) (pre : omap) (R : registry) (e : env) (c : Z) (t : loc) (f : nat)
      (s : storage (list kt) val) (v : val) (d : chunkid * list kt),
    om_wf pre -> omap_sound H pre -> om_wf (hash_values R) -> omap_sound H (hash_values R) ->
    0 <= c < W -> adm e ->
    reverse_lookup_in pre R c = Some t ->
    sol_dec pre R (S f) (K c) = Ok d ->
    eval H e t = eval H e (K c) /\
    sol_dec pre R f t = Ok d /\
    evalr (list kt) val kden evalv init e (symbolic _ _ s)
      (load _ _ orc (store _ _ s (fst d) (snd d) v) (fst d) (snd d)) = evalv e v.
  Proof.
    intros H pre R e c t f s v d Wp Sp Wr Sr Hc He Hl Hd.
    split; [|split].
    - rewrite (reverse_lookup_sound H pre R e c t Wp Sp Wr Sr Hc Hl). cbn [eval]. symmetry. apply Z.mod_small. exact Hc.
    - rewrite <- (sol_dec_const pre R f c t Hl). exact Hd.
    - rewrite (raw_chunk (list kt) val kden evalv orc init adm orc_eq orc_neq e s (fst d) (snd d) v (fst d) (snd d) He).
      rewrite cid_eqb_refl, Z.eqb_refl, orb_true_r. reflexivity.
  Qed.
End ConstLWW.

(* the code's tables: every constant the precomputed registry resolves is resolved to a term
   that denotes it under the real Keccak-256 *)
Lemma precomputed_constants : forall (e : env) (c : Z) (t : loc),
  0 <= c < W -> reverse_lookup_in precomputed reg_empty c = Some t -> eval Hkeccak e t = c.
Proof.
  intros e c t Hc Hl.
  exact (reverse_lookup_sound Hkeccak precomputed reg_empty e c t precomputed_wf precomputed_sound
           om_wf_nil (omap_sound_nil Hkeccak) Hc Hl).
Qed.

(* non-vacuity: keccak(abi.encode(0, 1)) (m[0], m at slot 1) is resolved, to f_sha3_512(0 . 1) *)
Definition c01 : Z := Hkeccak 512 1.
Lemma precomputed_example :
  reverse_lookup_in precomputed reg_empty c01 = Some (ShaC 512 1) /\
  sol_decode reg_empty (K c01) = Ok ((1, 2, 512), [KW [K 0]; KW [K 0]]) /\
  sol_decode reg_empty (Sha512 (V 0) (K 1)) = Ok ((1, 2, 512), [KW [V 0]; KW [K 0]]).
Proof. vm_compute. repeat split; reflexivity. Qed.
