(* Proofs about the chunk views regenerated from bytevec.py (Gen/GenChunkView.v):
   slice / get_byte / unwrap / __getitem__ of ConcreteChunk and SymbolicChunk are the
   plain (data, start, length) window for ALL sizes of the backing data, of the chunk, of
   the slice and all offsets; views of views compose; and the Leaf branches of
   Model/ByteVecModel.v (cslice / csub / cget / cunwrap) are these functions.

   The proofs go through every branch the translator produced ([split_ifs]): a fast path
   that is equivalent to the window passes, one that is not leaves an unprovable goal.  *)
From Coq Require Import List Arith Bool ZArith Lia ZifyBool.
From HV Require Import Model.ChunkViewModel Gen.GenByteVecSugar Gen.GenChunkView Model.ByteVecModel.
Import ListNotations.
Local Open Scope Z_scope.

Section P.
Variable B : Type.

Lemma skipn_skipn : forall (x y : nat) (l : list B), skipn x (skipn y l) = skipn (x + y) l.
Proof.
  intros x y. revert x. induction y as [|y IH]; intros x l.
  - cbn [skipn]. f_equal. lia.
  - destruct l as [|h t].
    + rewrite !skipn_nil. reflexivity.
    + replace (x + S y)%nat with (S (x + y)) by lia. cbn [skipn]. apply IH.
Qed.

Lemma sub_sub_nat : forall (d : list B) (s l a n : nat),
  (a + n <= l)%nat ->
  firstn n (skipn a (firstn l (skipn s d))) = firstn n (skipn (s + a) d).
Proof.
  intros d s l a n H.
  rewrite skipn_firstn_comm, firstn_firstn, skipn_skipn.
  replace (Nat.min n (l - a)) with n by lia.
  replace (a + s)%nat with (s + a)%nat by lia. reflexivity.
Qed.

(* a window of a window is a window: for all sizes and offsets *)
Lemma sub_sub : forall (d : list B) s l a n,
  0 <= s -> 0 <= a -> 0 <= n -> a + n <= l ->
  sub (sub d s l) a n = sub d (s + a) n.
Proof.
  intros d s l a n Hs Ha Hn Hl. unfold sub.
  rewrite sub_sub_nat by lia.
  f_equal. f_equal. lia.
Qed.

Lemma window_eq : forall (d : list B) (n1 n2 k1 k2 : nat),
  n1 = n2 -> k1 = k2 -> firstn n1 (skipn k1 d) = firstn n2 (skipn k2 d).
Proof. intros; subst; reflexivity. Qed.

Lemma sub_all : forall (d : list B), sub d 0 (Z.of_nat (length d)) = d.
Proof.
  intros d. unfold sub. cbn [Z.to_nat skipn]. apply firstn_all2. lia.
Qed.

Lemma sub_length : forall (d : list B) a n,
  0 <= a -> 0 <= n -> a + n <= Z.of_nat (length d) -> Z.of_nat (length (sub d a n)) = n.
Proof.
  intros d a n Ha Hn H. unfold sub. rewrite firstn_length, skipn_length. lia.
Qed.

Lemma sub_nth : forall (zero : B) (d : list B) i,
  0 <= i < Z.of_nat (length d) -> sub d i 1 = [nth (Z.to_nat i) d zero].
Proof.
  intros zero d i H. unfold sub.
  assert (Hn : (Z.to_nat i < length d)%nat) by lia.
  revert Hn. generalize (Z.to_nat i). clear H. intros n.
  revert d. induction n as [|n IH]; intros d Hn.
  - destruct d as [|x r]; [cbn in Hn; lia|]. reflexivity.
  - destruct d as [|x r]; [cbn in Hn; lia|]. cbn [skipn nth]. apply IH. cbn in Hn. lia.
Qed.

(* ---- what every slice implementation has to satisfy ---- *)
Definition slice_ok (f : view B -> Z -> Z -> option (view B)) : Prop :=
  forall v a b, vwf v -> 0 <= a -> a <= b -> b <= vlen v ->
    exists w, f v a b = Some w /\ vwf w /\ vlen w = b - a /\ vbytes w = sub (vbytes v) a (b - a).

Definition get_byte_ok (g : view B -> Z -> option (list B)) : Prop :=
  forall v k, vwf v ->
    g v k = if (0 <=? k) && (k <? vlen v) then Some (sub (vbytes v) k 1) else None.

Definition unwrap_ok (u : view B -> option (list B)) : Prop :=
  forall v, vwf v -> u v = Some (vbytes v).

(* every `if` of the regenerated code, on both sides *)
Ltac split_ifs :=
  repeat match goal with
         | |- context [if ?c then _ else _] => let E := fresh "E" in destruct c eqn:E
         end.

Ltac open_views :=
  unfold vwf, vbytes, dlen, mk_chunk, extract_bytes, py_slice, py_index in *;
  cbn [vdata vstart vlen] in *.

(* both sides to the normal form  firstn N (skipn K d)  *)
Ltac norm_sub :=
  unfold sub in *;
  repeat rewrite ?skipn_firstn_comm, ?firstn_firstn, ?skipn_skipn, ?firstn_length, ?skipn_length;
  change (Z.to_nat 0) with 0%nat; cbn [skipn].

Ltac same_window :=
  first
    [ reflexivity
    | apply window_eq; lia
    | (* the whole data returned as it is *)
      match goal with
      | |- ?d = firstn ?n (skipn ?k ?d) =>
          replace k with 0%nat by lia; cbn [skipn]; symmetry; apply firstn_all2; lia
      | |- firstn ?n (skipn ?k ?d) = ?d =>
          replace k with 0%nat by lia; cbn [skipn]; apply firstn_all2; lia
      end ].

Ltac solve_slice :=
  intros v a b Hwf Ha Hab Hb; destruct v as [d s l];
  open_views; destruct Hwf as (Hs & Hl & Hd);
  split_ifs;
  (eexists; split; [reflexivity|]);
  cbn [vdata vstart vlen];
  repeat rewrite ?firstn_length, ?skipn_length;
  (split; [unfold sub; repeat rewrite ?firstn_length, ?skipn_length; lia|]);
  (split; [unfold sub; repeat rewrite ?firstn_length, ?skipn_length; lia|]);
  norm_sub; same_window.

Lemma conc_slice_ok : slice_ok (conc_slice B).
Proof. unfold slice_ok, conc_slice. solve_slice. Qed.

Lemma symb_slice_ok : slice_ok (symb_slice B).
Proof. unfold slice_ok, symb_slice. solve_slice. Qed.

Ltac solve_get_byte :=
  intros v k Hwf; destruct v as [d s l];
  open_views; destruct Hwf as (Hs & Hl & Hd);
  split_ifs; try (exfalso; lia); try reflexivity;
  f_equal; norm_sub; same_window.

Lemma conc_get_byte_ok : get_byte_ok (conc_get_byte B).
Proof. unfold get_byte_ok, conc_get_byte. solve_get_byte. Qed.

Lemma symb_get_byte_ok : get_byte_ok (symb_get_byte B).
Proof. unfold get_byte_ok, symb_get_byte. solve_get_byte. Qed.

Ltac solve_unwrap :=
  intros v Hwf; destruct v as [d s l];
  open_views; destruct Hwf as (Hs & Hl & Hd);
  split_ifs; f_equal; norm_sub; same_window.

Lemma conc_unwrap_ok : unwrap_ok (conc_unwrap B).
Proof. unfold unwrap_ok, conc_unwrap. solve_unwrap. Qed.

Lemma symb_unwrap_ok : unwrap_ok (symb_unwrap B).
Proof. unfold unwrap_ok, symb_unwrap. solve_unwrap. Qed.

(* Chunk.__getitem__ with a slice key: omitted start = 0, omitted stop = len, an explicit 0
   stays 0; out-of-range bounds raise; otherwise the window *)
Lemma getitem_ok : forall f, slice_ok f ->
  forall v (ks ke : option Z), vwf v ->
    let a := match ks with Some x => x | None => 0 end in
    let b := match ke with Some x => x | None => vlen v end in
    (0 <= a <= vlen v /\ 0 <= b <= vlen v /\ a <= b ->
       exists w, chunk_getitem B f v ks ke = Some w /\ vwf w /\ vlen w = b - a /\
                 vbytes w = sub (vbytes v) a (b - a)) /\
    (~ (0 <= a <= vlen v /\ 0 <= b <= vlen v) -> chunk_getitem B f v ks ke = None).
Proof.
  intros f Hf v ks ke Hwf a b.
  assert (Ea : py_or ks 0 = a).
  { subst a. unfold py_or. destruct ks as [x|]; [|reflexivity]. destruct (Z.eqb x 0) eqn:E; lia. }
  assert (Eb : py_if_not_none ke (vlen v) = b) by (subst b; destruct ke; reflexivity).
  unfold chunk_getitem. rewrite Ea, Eb. split.
  - intros (H1 & H2 & H3).
    destruct (orb _ _) eqn:E; [exfalso; lia|].
    apply Hf; try assumption; lia.
  - intros H. destruct (orb _ _) eqn:E; [reflexivity|]. exfalso. apply H. lia.
Qed.

(* ---- views of views, any depth ---- *)
Lemma slice_slice : forall f, slice_ok f ->
  forall v a b x y w1 w2, vwf v ->
    0 <= a -> a <= b -> b <= vlen v -> 0 <= x -> x <= y -> y <= b - a ->
    f v a b = Some w1 -> f w1 x y = Some w2 ->
    exists w3, f v (a + x) (a + y) = Some w3 /\ vlen w2 = vlen w3 /\ vbytes w2 = vbytes w3 /\
               vbytes w2 = sub (vbytes v) (a + x) (y - x).
Proof.
  intros f Hf v a b x y w1 w2 Hwf Ha Hab Hb Hx Hxy Hy H1 H2.
  destruct (Hf v a b Hwf Ha Hab Hb) as (u1 & E1 & Wf1 & L1 & B1).
  rewrite H1 in E1. injection E1 as <-.
  destruct (Hf w1 x y Wf1 Hx Hxy ltac:(lia)) as (u2 & E2 & Wf2 & L2 & B2).
  rewrite H2 in E2. injection E2 as <-.
  destruct (Hf v (a + x) (a + y) Hwf ltac:(lia) ltac:(lia) ltac:(lia)) as (w3 & E3 & Wf3 & L3 & B3).
  exists w3. split; [exact E3|]. split; [lia|].
  assert (Hb2 : vbytes w2 = sub (vbytes v) (a + x) (y - x)).
  { rewrite B2, B1. apply sub_sub; lia. }
  split; [|exact Hb2].
  rewrite Hb2, B3. f_equal. lia.
Qed.

Lemma nest_correct : forall f, slice_ok f ->
  forall ws v, vwf v -> nest_ok (vlen v) ws ->
    exists w, nest_slice f v ws = Some w /\ vwf w /\ vlen w = nest_len (vlen v) ws /\
              vbytes w = sub (vbytes v) (nest_off ws) (nest_len (vlen v) ws) /\
              0 <= nest_off ws /\ nest_off ws + nest_len (vlen v) ws <= vlen v.
Proof.
  intros f Hf ws. induction ws as [|[a b] r IH]; intros v Hwf Hok.
  - exists v. cbn [nest_slice nest_len nest_off]. split; [reflexivity|]. split; [exact Hwf|].
    split; [reflexivity|]. split.
    + unfold vbytes. destruct Hwf as (Hs & Hl & Hd). rewrite sub_sub by lia.
      f_equal. lia.
    + destruct Hwf as (Hs & Hl & Hd). lia.
  - cbn [nest_ok] in Hok. destruct Hok as (Ha & Hab & Hb & Hr).
    destruct (Hf v a b Hwf Ha Hab Hb) as (w1 & E1 & Wf1 & L1 & B1).
    rewrite <- L1 in Hr.
    destruct (IH w1 Wf1 Hr) as (w & E & Wf & L & Bs & O1 & O2).
    exists w. cbn [nest_slice nest_len nest_off]. rewrite E1.
    split; [exact E|]. split; [exact Wf|]. rewrite <- L1.
    split; [exact L|]. split.
    + assert (Hn : 0 <= nest_len (vlen w1) r) by (rewrite <- L; apply Wf).
      rewrite Bs, B1. rewrite sub_sub by lia. reflexivity.
    + lia.
Qed.

(* get_byte through any nesting reads the byte at the sum of the offsets *)
Lemma nest_get_byte : forall f g, slice_ok f -> get_byte_ok g ->
  forall ws v w k, vwf v -> nest_ok (vlen v) ws -> nest_slice f v ws = Some w ->
    0 <= k < vlen w ->
    g w k = g v (nest_off ws + k).
Proof.
  intros f g Hf Hg ws v w k Hwf Hok E Hk.
  destruct (nest_correct f Hf ws v Hwf Hok) as (w' & E' & Wf & L & Bs & O1 & O2).
  rewrite E in E'. injection E' as <-.
  rewrite (Hg w k Wf), (Hg v (nest_off ws + k) Hwf).
  destruct ((0 <=? k) && (k <? vlen w)) eqn:E1; [|exfalso; lia].
  destruct ((0 <=? nest_off ws + k) && (nest_off ws + k <? vlen v)) eqn:E2; [|exfalso; lia].
  f_equal. rewrite Bs. rewrite <- L. apply sub_sub; lia.
Qed.

(* ---- the Leaf branches of Model/ByteVecModel.v are the regenerated functions ---- *)
Definition leaf_view (d : list B) (s l : nat) : view B := MkView d (Z.of_nat s) (Z.of_nat l).
Definition leaf_slice (sym : bool) := if sym then symb_slice B else conc_slice B.
Definition leaf_get_byte (sym : bool) := if sym then symb_get_byte B else conc_get_byte B.
Definition leaf_unwrap (sym : bool) := if sym then symb_unwrap B else conc_unwrap B.

Lemma leaf_slice_ok : forall sym, slice_ok (leaf_slice sym).
Proof. intros [|]; [exact symb_slice_ok | exact conc_slice_ok]. Qed.
Lemma leaf_get_byte_ok : forall sym, get_byte_ok (leaf_get_byte sym).
Proof. intros [|]; [exact symb_get_byte_ok | exact conc_get_byte_ok]. Qed.
Lemma leaf_unwrap_ok : forall sym, unwrap_ok (leaf_unwrap sym).
Proof. intros [|]; [exact symb_unwrap_ok | exact conc_unwrap_ok]. Qed.

Lemma vbytes_leaf : forall (zero : B) sym d s l,
  vbytes (leaf_view d s l) = cflat (Leaf sym d s l).
Proof.
  intros zero sym d s l. unfold vbytes, leaf_view, sub. cbn [vdata vstart vlen cflat].
  rewrite !Nat2Z.id. reflexivity.
Qed.

Lemma model_leaf_slice : forall (zero : B) sym d s l a b,
  (s + l <= length d)%nat -> (a <= b)%nat -> (b <= l)%nat ->
  exists w, leaf_slice sym (leaf_view d s l) (Z.of_nat a) (Z.of_nat b) = Some w /\
            vwf w /\
            Z.of_nat (clen (csub B zero (Leaf sym d s l) a b)) = vlen w /\
            cflat (csub B zero (Leaf sym d s l) a b) = vbytes w /\
            cslice B zero (Leaf sym d s l) a b = [csub B zero (Leaf sym d s l) a b].
Proof.
  intros zero sym d s l a b Hd Hab Hb.
  assert (Hwf : vwf (leaf_view d s l)).
  { unfold vwf, leaf_view, dlen. cbn [vdata vstart vlen]. lia. }
  destruct (leaf_slice_ok sym (leaf_view d s l) (Z.of_nat a) (Z.of_nat b) Hwf) as (w & E & Wf & L & Bs);
    [lia | lia | cbn [leaf_view vlen]; lia |].
  exists w. split; [exact E|]. split; [exact Wf|].
  cbn [csub cslice clen cflat]. split; [lia|]. split; [|reflexivity].
  rewrite Bs. unfold vbytes, leaf_view. cbn [vdata vstart vlen].
  rewrite sub_sub by lia. unfold sub. f_equal; [lia|]. f_equal. lia.
Qed.

Lemma model_leaf_get_byte : forall (zero : B) sym d s l off,
  (s + l <= length d)%nat -> (off < l)%nat ->
  leaf_get_byte sym (leaf_view d s l) (Z.of_nat off) = Some [cget B zero (Leaf sym d s l) off].
Proof.
  intros zero sym d s l off Hd Ho.
  assert (Hwf : vwf (leaf_view d s l)).
  { unfold vwf, leaf_view, dlen. cbn [vdata vstart vlen]. lia. }
  rewrite (leaf_get_byte_ok sym _ _ Hwf). cbn [leaf_view vlen].
  destruct ((0 <=? Z.of_nat off) && (Z.of_nat off <? Z.of_nat l)) eqn:E; [|exfalso; lia].
  f_equal. unfold vbytes, leaf_view. cbn [vdata vstart vlen cget].
  rewrite sub_sub by lia.
  rewrite (sub_nth zero) by lia. f_equal. f_equal. lia.
Qed.

Lemma model_leaf_unwrap : forall (zero : B) sym d s l,
  (s + l <= length d)%nat ->
  leaf_unwrap sym (leaf_view d s l) = Some (snd (cunwrap (Leaf sym d s l))).
Proof.
  intros zero sym d s l Hd.
  assert (Hwf : vwf (leaf_view d s l)).
  { unfold vwf, leaf_view, dlen. cbn [vdata vstart vlen]. lia. }
  rewrite (leaf_unwrap_ok sym _ Hwf). f_equal.
  rewrite (vbytes_leaf zero sym). reflexivity.
Qed.

End P.
