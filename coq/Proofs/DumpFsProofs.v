(* Proofs for C11, dump / solve protocol: whatever the file system holds beforehand, every
   solver process started by a sequence of solve_end_to_end calls reads the text of the
   query of the path it is started for. *)
From Coq Require Import ZArith List String Ascii Bool Lia.
From HV Require Import Model.SexpDefs Gen.GenRefine Spec.SmtQuerySpec Model.SmtTextModel
  Model.DumpFsDefs Gen.GenDumpFs Spec.DumpFsSpec Model.DumpFsModel.
Import ListNotations.
Open Scope Z_scope.

(* ------------------------------------------------------------------ strings / file system *)
Lemma fs_app_nil_r : forall s : string, (s ++ "")%string = s.
Proof. induction s as [|a s IH]; simpl; [reflexivity | now rewrite IH]. Qed.

Lemma fs_app_length : forall a b : string, String.length (a ++ b) = (String.length a + String.length b)%nat.
Proof. induction a as [|x a IH]; intros b; simpl; [reflexivity | now rewrite IH]. Qed.

Lemma fs_app_neq_self : forall (s : string) a t, (s ++ String a t)%string <> s.
Proof.
  intros s a t H. apply (f_equal String.length) in H. rewrite fs_app_length in H. simpl in H. lia.
Qed.

Lemma fs_eqb_app_self : forall (s : string) a t, String.eqb (s ++ String a t) s = false.
Proof. intros s a t. apply String.eqb_neq. apply fs_app_neq_self. Qed.

Lemma fs_get_put_same : forall d n x, fs_get (fs_put d n x) n = Some x.
Proof. intros d n x. unfold fs_put. cbn [fs_get]. now rewrite String.eqb_refl. Qed.

Lemma fs_get_put_other : forall d n m x, String.eqb n m = false -> fs_get (fs_put d n x) m = fs_get d m.
Proof. intros d n m x H. unfold fs_put. cbn [fs_get]. now rewrite H. Qed.

(* ------------------------------------------------------------------ dump *)
(* solve.dump leaves exactly the text of the current query in the query file, whatever was there *)
Lemma run_dump_spec : forall solver c s,
  run_dump solver c s =
    RGo (mkSt (fs_put (st_fs s) (full_name c) (query_text c)) (st_out s) (st_trace s)).
Proof.
  intros solver c s. unfold run_dump, run_dump_with, gen_dump, query_text.
  repeat (cbn [exec_list exec eval_cond text_of ref_name written negb st_fs st_out st_trace];
          rewrite ?fs_app_nil_r;
          try match goal with
              | |- context [match fs_get (st_fs s) ?nn with _ => _ end] =>
                  let E := fresh "Ed" in destruct (fs_get (st_fs s) nn) eqn:E
              | |- context [if c_cache c then _ else _] => destruct (c_cache c)
              | |- context [if c_refined c then _ else _] => destruct (c_refined c)
              end);
  reflexivity.
Qed.

(* ------------------------------------------------------------------ solve_low_level *)
Definition ev_of (c : pctx) : event := mkEv c (full_name c) (Some (query_text c)).

Definition low_answer (a : option (string * string)) : option (option (string * string)) :=
  match a with Some x => Some (Some x) | None => Some None end.

Ltac low_step :=
  cbn [exec_list exec eval_cond text_of ref_name written negb st_fs st_out st_trace];
  rewrite ?run_dump_spec; cbn [st_fs st_out st_trace];
  rewrite ?fs_app_nil_r, ?fs_get_put_same.

(* the process started by solve_low_level reads the current query; afterwards the query file
   holds the current query *)
Lemma run_low_spec : forall solver c fs tr,
  exists fs1,
    run_low solver c fs tr =
      (low_answer (solver (Some (query_text c))), fs1, (tr ++ [ev_of c])%list) /\
    fs_get fs1 (full_name c) = Some (query_text c).
Proof.
  intros solver c fs tr. unfold run_low, run_low_with, gen_low_level.
  fold (run_dump solver c).
  (* evaluate the regenerated program statement by statement; split on whatever it inspects:
     the presence of a file in the (arbitrary) file system, the solver's answer, its stderr *)
  repeat (low_step;
          try match goal with
              | |- context [match fs_get fs ?nn with _ => _ end] =>
                  let E := fresh "Ed" in destruct (fs_get fs nn) eqn:E
              | |- context [match solver ?q with _ => _ end] =>
                  let E := fresh "Es" in destruct (solver q) as [[? ?]|] eqn:E
              | |- context [String.eqb ?e ""] =>
                  let E := fresh "Ee" in destruct (String.eqb e "") eqn:E
              | |- context [if c_cache c then _ else _] => destruct (c_cache c)
              | |- context [if c_refined c then _ else _] => destruct (c_refined c)
              end).
  all: eexists; (split; [unfold low_answer, ev_of; reflexivity|]).
  all: unfold fs_put; cbn [fs_get]; rewrite ?fs_eqb_app_self, ?String.eqb_refl; reflexivity.
Qed.

(* ------------------------------------------------------------------ solve_end_to_end *)
Definition job_solves (solver : solver_t) (rf : string -> string) (j : job) : list pctx :=
  solves_of pctx query_text (refine_ctx rf) solver (j_ctx j) (j_core j) (j_again j).

Lemma run_job_spec : forall solver rf j fs tr,
  exists fs1,
    run_job solver rf (fs, tr) j = (fs1, (tr ++ map ev_of (job_solves solver rf j))%list).
Proof.
  intros solver rf j fs tr. unfold run_job, job_solves, solves_of.
  destruct (j_core j).
  - exists fs. cbn [map]. now rewrite app_nil_r.
  - unfold gen_e2e_first, gen_e2e_second, target_ctx.
    destruct (run_low_spec solver (j_ctx j) fs tr) as [fs1 [H1 _]]. rewrite H1.
    destruct (solver (Some (query_text (j_ctx j)))) as [[o e]|]; cbn [low_answer].
    + destruct (j_again j o).
      * destruct (run_low_spec solver (refine_ctx rf (j_ctx j)) fs1 (tr ++ [ev_of (j_ctx j)])%list) as [fs2 [H2 _]].
        rewrite H2. exists fs2. cbn [map]. now rewrite <- app_assoc.
      * exists fs1. reflexivity.
    + exists fs1. reflexivity.
Qed.

Lemma run_jobs_spec : forall solver rf js fs tr,
  exists fs1,
    run_jobs solver rf (fs, tr) js = (fs1, (tr ++ map ev_of (flat_map (job_solves solver rf) js))%list).
Proof.
  intros solver rf js. induction js as [|j js IH]; intros fs tr.
  - exists fs. cbn. now rewrite app_nil_r.
  - unfold run_jobs. cbn [fold_left flat_map].
    destruct (run_job_spec solver rf j fs tr) as [fs1 H1]. rewrite H1.
    destruct (IH fs1 (tr ++ map ev_of (job_solves solver rf j))%list) as [fs2 H2].
    unfold run_jobs in H2. rewrite H2. exists fs2.
    now rewrite map_app, app_assoc.
Qed.

(* the statement of Props/C11.v *)
Lemma solver_reads_path_query : forall (solver : solver_t) (rf : string -> string) (fs0 : fsys) (jobs : list job),
  exists fs1,
    run_jobs solver rf (fs0, []) jobs =
      (fs1,
       map (fun c => mkEv c (full_name c) (reads_of pctx query_text c))
           (flat_map (fun j => solves_of pctx query_text (refine_ctx rf) solver (j_ctx j) (j_core j) (j_again j)) jobs)).
Proof.
  intros solver rf fs0 jobs. destruct (run_jobs_spec solver rf jobs fs0 []) as [fs1 H].
  exists fs1. rewrite H. reflexivity.
Qed.

Lemma low_level_reads_and_leaves_query : forall (solver : solver_t) (c : pctx) (fs : fsys) (tr : list event),
  exists fs1,
    run_low solver c fs tr =
      (match solver (Some (query_text c)) with Some a => Some (Some a) | None => Some None end,
       fs1, (tr ++ [mkEv c (full_name c) (Some (query_text c))])%list) /\
    fs_get fs1 (full_name c) = Some (query_text c).
Proof. exact run_low_spec. Qed.

(* ------------------------------------------------------------------ what the theorem excludes *)
(* a program that skips dump when the file exists, and one whose dump appends: each of them
   makes the solver read something else than the query on some file system *)
Definition guarded_low : list fstmt :=
  [ SIf (KNot (KExists (FQ ""))) [SDump] []; SStart (FQ ""); SReturn ].
Definition plain_low : list fstmt := [ SDump; SStart (FQ ""); SReturn ].
Definition trunc_dump : list fstmt := [ SWrite (FQ "") MTrunc (TQuery false) ].
Definition append_dump : list fstmt := [ SWrite (FQ "") MAppend (TQuery false) ].

Definition reads_of_run (r : option (option (string * string)) * fsys * list event) : list (option string) :=
  map ev_read (snd r).

Lemma guarded_or_appending_refuted :
  let c := mkCtx "d/check_x" 0 false false "(assert b)" [] in
  let stale := [(full_name c, "(assert a)"%string)] in
  let solver : solver_t := fun _ => Some ("sat"%string, ""%string) in
  full_name c = "d/check_x/0.smt2"%string /\
  reads_of_run (run_low_with solver c trunc_dump plain_low stale []) = [Some (query_text c)] /\
  reads_of_run (run_low_with solver c trunc_dump guarded_low stale []) = [Some "(assert a)"%string] /\
  reads_of_run (run_low_with solver c append_dump plain_low stale []) = [Some ("(assert a)" ++ query_text c)%string].
Proof. vm_compute. repeat split; reflexivity. Qed.
