(* The dispatch table regenerated from SEVM.run (Gen/GenDispatch.v) sends every arithmetic,
   comparison and bitwise instruction of the reference interpreter to a word method applied to the
   right stack operands in the right order: the method's meaning (Spec/DispatchSpec.v) on those
   operands is the instruction's EVM semantics (Spec/Evm.v), for all operand values. *)
From Coq Require Import ZArith List Bool Lia.
From HV Require Import Base.Word Spec.Evm Spec.DispatchSpec Gen.GenDispatch.
Import ListNotations.
Open Scope Z_scope.

Definition pick (st : list Z) (n : nat) : Z := nth n st 0.

(* the specification's own table: which method, receiver position, argument positions *)
Definition want_bin (b : bop) : meth * nat * list nat :=
  match b with
  | BAdd => (M_add, 0, [1]) | BMul => (M_mul, 0, [1]) | BSub => (M_sub, 0, [1]) | BDiv => (M_div, 0, [1])
  | BSdiv => (M_sdiv, 0, [1]) | BMod => (M_mod, 0, [1]) | BSmod => (M_smod, 0, [1]) | BExp => (M_exp, 0, [1])
  | BSignextend => (M_signextend, 1, [0])
  | BLt => (M_ult, 0, [1]) | BGt => (M_ugt, 0, [1]) | BSlt => (M_slt, 0, [1]) | BSgt => (M_sgt, 0, [1])
  | BEq => (M_eq, 0, [1]) | BAnd => (M_bitwise_and, 0, [1]) | BOr => (M_bitwise_or, 0, [1]) | BXor => (M_bitwise_xor, 0, [1])
  | BByte => (M_byte, 1, [0]) | BShl => (M_lshl, 1, [0]) | BShr => (M_lshr, 1, [0]) | BSar => (M_ashr, 1, [0])
  end%nat.
Definition want_un (u : uop) : meth * nat * list nat :=
  match u with UIszero => (M_is_zero, 0, []) | UNot => (M_bitwise_not, 0, []) end%nat.
Definition want_tern (t : top) : meth * nat * list nat :=
  match t with TAddmod => (M_addmod, 0, [1; 2]) | TMulmod => (M_mulmod, 0, [1; 2]) end%nat.

Definition apply_entry (e : meth * nat * list nat) (st : list Z) : Z :=
  let '(m, r, args) := e in meth_sem m (pick st r) (map (pick st) args).

(* semantic half: the specification's table computes the instruction, for all operands *)
Lemma want_bin_sem : forall b x y, apply_entry (want_bin b) [x; y] = bop_sem b x y.
Proof. intros b x y. destruct b; reflexivity. Qed.
Lemma want_un_sem : forall u x, apply_entry (want_un u) [x] = uop_sem u x.
Proof. intros u x. destruct u; reflexivity. Qed.
Lemma want_tern_sem : forall t x y z, apply_entry (want_tern t) [x; y; z] = top_sem t x y z.
Proof. intros t x y z. destruct t; reflexivity. Qed.

(* the commutative methods may legitimately be dispatched with either operand as the receiver *)
Definition meth_eqb (a b : meth) : bool :=
  match a, b with
  | M_add, M_add | M_sub, M_sub | M_mul, M_mul | M_div, M_div | M_sdiv, M_sdiv | M_mod, M_mod | M_smod, M_smod
  | M_exp, M_exp | M_signextend, M_signextend | M_ult, M_ult | M_ugt, M_ugt | M_slt, M_slt | M_sgt, M_sgt
  | M_eq, M_eq | M_is_zero, M_is_zero | M_bitwise_and, M_bitwise_and | M_bitwise_or, M_bitwise_or
  | M_bitwise_xor, M_bitwise_xor | M_bitwise_not, M_bitwise_not | M_byte, M_byte | M_lshl, M_lshl
  | M_lshr, M_lshr | M_ashr, M_ashr | M_addmod, M_addmod | M_mulmod, M_mulmod => true
  | _, _ => false
  end.
Lemma meth_eqb_eq : forall a b, meth_eqb a b = true -> a = b.
Proof. intros a b H. destruct a, b; try discriminate; reflexivity. Qed.

Definition entry_eqb (a b : meth * nat * list nat) : bool :=
  let '(m1, r1, l1) := a in let '(m2, r2, l2) := b in
  meth_eqb m1 m2 && Nat.eqb r1 r2 && (if list_eq_dec Nat.eq_dec l1 l2 then true else false).
Lemma entry_eqb_eq : forall a b, entry_eqb a b = true -> a = b.
Proof.
  intros [[m1 r1] l1] [[m2 r2] l2] H. unfold entry_eqb in H.
  apply andb_true_iff in H. destruct H as [H H3]. apply andb_true_iff in H. destruct H as [H1 H2].
  apply meth_eqb_eq in H1. apply Nat.eqb_eq in H2.
  destruct (list_eq_dec Nat.eq_dec l1 l2) as [E|]; [|discriminate]. subst. reflexivity.
Qed.

(* structural half: for each of the 256 opcodes the regenerated table has the entry the
   specification wants (and no entry for the other instructions) *)
Definition opcode_ok (opc : Z) : bool :=
  match decode_op opc with
  | IBin b => match dispatch opc with Some e => entry_eqb e (want_bin b) | None => false end
  | IUn u => match dispatch opc with Some e => entry_eqb e (want_un u) | None => false end
  | ITern t => match dispatch opc with Some e => entry_eqb e (want_tern t) | None => false end
  | _ => match dispatch opc with Some _ => false | None => true end
  end.

Lemma opcode_table_ok : forallb opcode_ok (map Z.of_nat (seq 0 256)) = true.
Proof. vm_compute. reflexivity. Qed.

Lemma opcode_ok_all : forall opc, 0 <= opc < 256 -> opcode_ok opc = true.
Proof.
  intros opc H. pose proof opcode_table_ok as T. rewrite forallb_forall in T. apply T.
  apply in_map_iff. exists (Z.to_nat opc). split; [lia|]. apply in_seq. lia.
Qed.

Theorem dispatch_correct : forall opc, 0 <= opc < 256 ->
  match decode_op opc with
  | IBin b => exists e, dispatch opc = Some e /\ forall x y, apply_entry e [x; y] = bop_sem b x y
  | IUn u => exists e, dispatch opc = Some e /\ forall x, apply_entry e [x] = uop_sem u x
  | ITern t => exists e, dispatch opc = Some e /\ forall x y z, apply_entry e [x; y; z] = top_sem t x y z
  | _ => dispatch opc = None
  end.
Proof.
  intros opc H. pose proof (opcode_ok_all opc H) as Hok. unfold opcode_ok in Hok.
  destruct (decode_op opc) eqn:Ed; destruct (dispatch opc) as [e|] eqn:Edp; try discriminate; try reflexivity.
  - exists e. split; [reflexivity|]. apply entry_eqb_eq in Hok. subst e. apply want_bin_sem.
  - exists e. split; [reflexivity|]. apply entry_eqb_eq in Hok. subst e. apply want_un_sem.
  - exists e. split; [reflexivity|]. apply entry_eqb_eq in Hok. subst e. apply want_tern_sem.
Qed.
