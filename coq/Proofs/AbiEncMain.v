(* C12: the instance theorem (induction over the type tree) and valuations. *)
From Coq Require Import ZArith List Bool Lia ZifyBool Permutation.
From HV Require Import Spec.AbiSpec Gen.GenAbiEnc Model.AbiEncModel
  Proofs.AbiEncProofs Proofs.AbiEncInv Proofs.AbiEncInstance.
Import ListNotations.
Open Scope Z_scope.
Ltac Zify.zify_post_hook ::= Z.to_euclidean_division_equations.
Local Arguments be_bytes : simpl never.
Local Arguments Z.of_nat : simpl never.

Lemma In_maxl : forall n l, In n l -> (n <= maxl l)%nat.
Proof.
  intros n l. induction l as [|x l IH]; intros H; [destruct H|].
  unfold maxl in *. cbn [fold_right]. destruct H as [->|H]; [lia|]. specialize (IH H). lia.
Qed.

Lemma map_const_seq : forall {A} (x : A) s n, map (fun _ : nat => x) (seq s n) = repeat x n.
Proof. intros A x s n. revert s. induction n as [|n IH]; intros s; [reflexivity|]. cbn. rewrite IH. reflexivity. Qed.

Lemma all2_nil_l : forall {A} (vs : list A), all2 [] vs -> vs = [].
Proof. intros A [|v vs] H; [reflexivity|destruct H]. Qed.

Lemma all2_length : forall {A} (ps : list (A -> Prop)) vs, all2 ps vs -> length vs = length ps.
Proof.
  intros A ps. induction ps as [|p ps IH]; intros [|v vs] H; cbn in *; try tauto.
  destruct H as [_ H]. rewrite (IH _ H). reflexivity.
Qed.

Lemma all2_app : forall {A} (ps qs : list (A -> Prop)) vs, all2 (ps ++ qs) vs ->
  exists v1 v2, vs = v1 ++ v2 /\ all2 ps v1 /\ all2 qs v2.
Proof.
  intros A ps. induction ps as [|p ps IH]; intros qs vs H; cbn in H.
  - exists [], vs. repeat split. exact H.
  - destruct vs as [|v vs]; [destruct H|]. destruct H as [Hp H].
    destruct (IH _ _ H) as (v1 & v2 & -> & H1 & H2).
    exists (v :: v1), v2. repeat split; assumption.
Qed.

Lemma runs_entries : forall {A} (g : A -> nat -> R) (tyf : A -> ty) (adm : A -> value -> Prop) l0,
  (forall a, In a l0 -> forall k e d k1 v, g a k = (e, d, k1) -> Z.of_nat (e_size e) < W256 -> adm a v ->
     exists chs, entry_ok {| en_t := tyf a; en_e := e; en_chs := chs; en_v := v |}) ->
  forall k es dss k' vs, runs g l0 k es dss k' -> all2 (map adm l0) vs ->
  (forall e, In e es -> Z.of_nat (e_size e) < W256) ->
  exists l, map en_e l = es /\ map en_v l = vs /\ map en_t l = map tyf l0 /\ Forall entry_ok l.
Proof.
  intros A g tyf adm l0 Hg k es dss k' vs H. revert vs. induction H; intros vs Hall Hb.
  - apply all2_nil_l in Hall. subst. exists []. repeat split; constructor.
  - destruct vs as [|v vs]; [destruct Hall|]. destruct Hall as [Hv Hall].
    destruct (Hg a (or_introl eq_refl) _ _ _ _ v H (Hb e (or_introl eq_refl)) Hv) as [chs Hen].
    destruct (IHruns (fun a' Ha' => Hg a' (or_intror Ha')) vs Hall (fun e' He' => Hb e' (or_intror He')))
      as (l' & L1 & L2 & L3 & L4).
    exists ({| en_t := tyf a; en_e := e; en_chs := chs; en_v := v |} :: l'). cbn [map en_e en_v en_t].
    rewrite L1, L2, L3. repeat split. constructor; assumption.
Qed.

Definition inst_stmt (t : ty) : Prop := forall c name k e ds k' v,
  cfg_ok c -> encode c name t k = (e, ds, k') -> Z.of_nat (e_size e) < W256 -> admits c name t v ->
  exists chs, Forall2 item_ok (e_items e) chs /\ decodes t (concat chs) v.

Lemma mk_entry : forall t, wf_ty t -> inst_stmt t -> forall c name k e ds k' v,
  cfg_ok c -> encode c name t k = (e, ds, k') -> Z.of_nat (e_size e) < W256 -> admits c name t v ->
  exists chs, entry_ok {| en_t := t; en_e := e; en_chs := chs; en_v := v |}.
Proof.
  intros t Hw Hi c name k e ds k' v Hc H Hb Ha.
  destruct (Hi _ _ _ _ _ _ _ Hc H Hb Ha) as (chs & H1 & H2).
  destruct (encode_static _ Hw _ _ _ _ _ _ H) as [S1 S2].
  exists chs. unfold entry_ok. cbn [en_t en_e en_chs en_v].
  repeat split; try assumption. exact (inv_size _ _ _ _ _ (encode_inv _ _ _ _ _ _ _ H)).
Qed.

Lemma has_chunks_encode : forall t c name k e ds k', cfg_ok c ->
  encode c name t k = (e, ds, k') -> has_chunks e.
Proof.
  intros t c name k e ds k' Hc H. pose proof (encode_inv _ _ _ _ _ _ _ H) as Hi. split.
  - apply anychunks. intros k0 nm sz Hin. destruct (inv_cand _ _ _ _ _ Hi _ _ _ Hin) as [arr ->].
    apply Hc.
  - exact (inv_size _ _ _ _ _ Hi).
Qed.

Lemma valid_word_range : forall k w, valid_word k w = true -> 0 <= w < W256.
Proof. intros k w H. unfold valid_word in H. lia. Qed.

Lemma decode_Fixed : forall buf t n p,
  decode buf (Fixed t n) p = option_map VSeq (dec_seq buf (repeat (comp_ty buf t) n) p p).
Proof. reflexivity. Qed.

Lemma decode_Dyn : forall buf t p,
  decode buf (Dyn t) p =
  match word buf p with
  | None => None
  | Some w => option_map VSeq (dec_seq buf (repeat (comp_ty buf t) (Z.to_nat w)) (p + 32) (p + 32))
  end.
Proof. reflexivity. Qed.

Lemma decode_Tuple : forall buf its p,
  decode buf (Tuple its) p = option_map VSeq (dec_seq buf (map (fun it => comp_ty buf (snd it)) its) p p).
Proof. reflexivity. Qed.

Theorem instance_chunks : forall t, wf_ty t -> inst_stmt t.
Proof.
  induction t as [s|t n IH|t IH|its IH] using ty_ind'; intros Hw; unfold inst_stmt;
    intros c name k e ds k' v Hc H Hb Ha; cbn [encode] in H; cbn [admits] in Ha.
  - (* elementary types *)
    pose proof (is_dyn_base_spec s) as Hd. destruct (is_dyn_base s); rewrite <- Hd in Ha.
    + destruct Ha as (bs & -> & Hin & _). rewrite get_dyn_sizes_cand in H. inversion H; subst. clear H.
      pose proof (In_maxl _ _ Hin) as Hle. destruct (Hc name false) as [_ Hsm].
      rewrite Forall_forall in Hsm. specialize (Hsm _ Hin).
      assert (Hcl : forall buf p w, word buf p = Some w ->
                decode buf (Base s) p = match slice buf (p + 32) w with Some b => Some (VBytes b) | None => None end).
      { intros buf p w Hwd. cbn [decode]. rewrite Hwd. unfold base_dyn in Hd.
        destruct (classify s); try discriminate; reflexivity. }
      destruct (0 <? maxl (cand c name false))%nat eqn:EM.
      * exists [be_bytes 32 (Z.of_nat (length bs)); bs ++ repeat 0 (pad (maxl (cand c name false)) - length bs)].
        split.
        -- constructor; [exists (length bs); split; [exact Hin|reflexivity]|].
           constructor; [|constructor]. cbn [item_ok]. rewrite app_length, repeat_length.
           pose proof (pad_ge (maxl (cand c name false))). lia.
        -- intros pre post. cbn [concat]. rewrite app_nil_r.
           rewrite (Hcl _ _ (Z.of_nat (length bs))).
           ++ replace (pre ++ (be_bytes 32 (Z.of_nat (length bs)) ++ bs ++ repeat 0 (pad (maxl (cand c name false)) - length bs)) ++ post)
                with ((pre ++ be_bytes 32 (Z.of_nat (length bs))) ++ bs ++ (repeat 0 (pad (maxl (cand c name false)) - length bs) ++ post))
                by (rewrite <- !app_assoc; reflexivity).
              replace (length pre + 32)%nat with (length (pre ++ be_bytes 32 (Z.of_nat (length bs))))
                by (rewrite app_length, be_bytes_length; reflexivity).
              rewrite slice_at. reflexivity.
           ++ rewrite <- app_assoc. apply word_at. lia.
      * apply Nat.ltb_ge in EM. assert (length bs = 0%nat) as Hz by lia.
        destruct bs; [|discriminate]. clear Hz.
        exists [be_bytes 32 (Z.of_nat 0)]. split.
        -- constructor; [exists 0%nat; split; [exact Hin|reflexivity]|constructor].
        -- intros pre post. cbn [concat]. rewrite app_nil_r.
           rewrite (Hcl _ _ (Z.of_nat 0)).
           ++ replace (pre ++ be_bytes 32 (Z.of_nat 0) ++ post)
                with ((pre ++ be_bytes 32 (Z.of_nat 0)) ++ [] ++ post)
                by (rewrite <- !app_assoc; reflexivity).
              replace (length pre + 32)%nat with (length (pre ++ be_bytes 32 (Z.of_nat 0)))
                by (rewrite app_length, be_bytes_length; reflexivity).
              change (Z.of_nat 0) with (Z.of_nat (@length Z [])) at 2.
              rewrite slice_at. reflexivity.
           ++ apply word_at. unfold W256. lia.
    + destruct Ha as (w & -> & Hv). inversion H; subst. clear H.
      pose proof (valid_word_range _ _ Hv) as Hr.
      exists [be_bytes 32 w]. split.
      * constructor; [exists w; split; [exact Hr|reflexivity]|constructor].
      * intros pre post. cbn [concat]. rewrite app_nil_r. cbn [decode].
        rewrite word_at by exact Hr. unfold base_dyn in Hd.
        destruct (classify s); try discriminate; rewrite Hv; reflexivity.
  - (* T[n] *)
    destruct Hw as [Hn Hw]. specialize (IH Hw).
    destruct (run_list _ k) as [[es ds'] k2] eqn:Er. inversion H; subst. clear H.
    apply run_list_runs in Er. destruct Er as [dss [-> Hr]].
    destruct Ha as (vs & -> & Hall).
    assert (Hch : chain c k es dss k').
    { eapply runs_chain; [|exact Hr]. intros a _ k0 e0 d0 k1 Hg. eapply encode_inv. exact Hg. }
    destruct (runs_entries (fun i => encode c (m_idx name i) t) (fun _ => t) (fun i => admits c (idx name i) t) (seq 0 n)
                (fun a _ k0 e0 d0 k1 v0 Hg Hb0 Ha0 => mk_entry t Hw IH c _ _ _ _ _ _ Hc Hg Hb0 Ha0)
                _ _ _ _ vs Hr Hall) as (l & L1 & L2 & L3 & L4).
    { intros e0 He0. pose proof (tuple_size_ge _ _ _ _ _ _ Hch He0). lia. }
    destruct (tuple_decode l [] L4 (Forall_nil _)) as (chs & C1 & C2).
    { rewrite app_nil_r, L1. exact Hb. }
    rewrite app_nil_r, L1 in C1. exists chs. split; [exact C1|].
    intros pre post. specialize (C2 pre post). rewrite decode_Fixed.
    rewrite <- (map_map en_t (comp_ty (pre ++ concat chs ++ post))) in C2.
    rewrite L3, map_map, map_const_seq in C2. rewrite C2, L2. reflexivity.
  - (* T[] *)
    specialize (IH Hw). rewrite get_dyn_sizes_cand in H.
    destruct (run_list _ (S k)) as [[es ds'] k2] eqn:Er. inversion H; subst. clear H.
    apply run_list_runs in Er. destruct Er as [dss [-> Hr]].
    destruct Ha as (vs & -> & Hin & Hall).
    pose proof (In_maxl _ _ Hin) as Hle. destruct (Hc name true) as [_ Hsm].
    rewrite Forall_forall in Hsm. specialize (Hsm _ Hin).
    cbn [e_size e_items] in Hb.
    assert (Hch : chain c (S k) es dss k').
    { eapply runs_chain; [|exact Hr]. intros a _ k0 e0 d0 k1 Hg. eapply encode_inv. exact Hg. }
    replace (maxl (cand c name true)) with (length vs + (maxl (cand c name true) - length vs))%nat in Hr by lia.
    rewrite seq_app in Hr. apply runs_app in Hr.
    destruct Hr as (es1 & es2 & dss1 & dss2 & k1 & -> & -> & Hr1 & Hr2).
    destruct (runs_entries (fun i => encode c (m_idx name i) t) (fun _ => t) (fun i => admits c (idx name i) t) (seq 0 (length vs))
                (fun a _ k0 e0 d0 k1 v0 Hg Hb0 Ha0 => mk_entry t Hw IH c _ _ _ _ _ _ Hc Hg Hb0 Ha0)
                _ _ _ _ vs Hr1 Hall) as (l & L1 & L2 & L3 & L4).
    { intros e0 He0.
      pose proof (tuple_size_ge _ _ _ _ _ _ Hch (in_or_app _ _ _ (or_introl He0))). lia. }
    assert (Hx : Forall has_chunks es2).
    { eapply runs_Forall; [|exact Hr2]. intros a _ k0 e0 d0 k3 Hg. exact (has_chunks_encode t c _ _ _ _ _ Hc Hg). }
    destruct (tuple_decode l es2 L4 Hx) as (chs & C1 & C2).
    { rewrite L1. lia. }
    rewrite L1 in C1.
    exists (be_bytes 32 (Z.of_nat (length vs)) :: chs). split.
    + constructor; [exists (length vs); split; [exact Hin|reflexivity]|exact C1].
    + intros pre post. cbn [concat]. rewrite decode_Dyn.
      rewrite <- app_assoc. rewrite word_at by lia. rewrite Nat2Z.id.
      specialize (C2 (pre ++ be_bytes 32 (Z.of_nat (length vs))) post).
      rewrite app_length, be_bytes_length in C2.
      rewrite <- (map_map en_t (comp_ty _)) in C2.
      rewrite L3, map_map, map_const_seq in C2.
      rewrite <- app_assoc in C2. rewrite C2, L2. reflexivity.
  - (* tuples *)
    destruct (run_list _ k) as [[es ds'] k2] eqn:Er. inversion H; subst. clear H.
    apply run_list_runs in Er. destruct Er as [dss [-> Hr]].
    destruct Ha as (vs & -> & Hall).
    assert (Hch : chain c k es dss k').
    { eapply runs_chain; [|exact Hr]. intros a _ k0 e0 d0 k1 Hg. eapply encode_inv. exact Hg. }
    rewrite Forall_forall in IH.
    destruct (runs_entries (fun it => encode c (m_prefix name ++ fst it) (snd it)) (fun it => snd it)
                (fun it => admits c (field name (fst it)) (snd it)) its) with (k := k) (es := es) (dss := dss) (k' := k') (vs := vs)
      as (l & L1 & L2 & L3 & L4); try assumption.
    { intros a Ha k0 e0 d0 k1 v0 Hg Hb0 Ha0. rewrite m_prefix_field in Hg.
      exact (mk_entry (snd a) (wf_tuple_in _ _ Hw Ha) (IH a Ha (wf_tuple_in _ _ Hw Ha)) c _ _ _ _ _ _ Hc Hg Hb0 Ha0). }
    { intros e0 He0. pose proof (tuple_size_ge _ _ _ _ _ _ Hch He0). lia. }
    destruct (tuple_decode l [] L4 (Forall_nil _)) as (chs & C1 & C2).
    { rewrite app_nil_r, L1. exact Hb. }
    rewrite app_nil_r, L1 in C1. exists chs. split; [exact C1|].
    intros pre post. specialize (C2 pre post). rewrite decode_Tuple.
    rewrite <- (map_map en_t (comp_ty (pre ++ concat chs ++ post))) in C2.
    rewrite L3, map_map in C2.
    match goal with |- option_map VSeq ?X = _ =>
      replace X with (Some (map en_v l)) by (symmetry; exact C2) end.
    rewrite L2. reflexivity.
Qed.

(* ------------------------------------------------------------------ from chunks to valuations *)

Lemma fit_exact : forall bs, fit (length bs) bs = bs.
Proof. induction bs as [|b bs IH]; cbn; [reflexivity|]. rewrite IH. reflexivity. Qed.

Lemma item_id_in_ids : forall its it i, In it its -> In i (item_id it) -> In i (ids its).
Proof. intros its it i H1 H2. unfold ids. apply in_flat_map. exists it. split; assumption. Qed.

Lemma inst_item_ext : forall rw rb rw' rb' it,
  (forall i, In i (item_id it) -> rw i = rw' i /\ rb i = rb' i) ->
  inst_item rw rb it = inst_item rw' rb' it.
Proof.
  intros rw rb rw' rb' [k nm tp|k nm tp n|k nm sz|z] H; cbn [inst_item item_id] in *;
    try (destruct (H k (or_introl eq_refl)) as [E1 E2]; rewrite ?E1, ?E2); reflexivity.
Qed.

Lemma realise : forall its chs, NoDup (ids its) -> Forall2 item_ok its chs ->
  exists rw rb, map (inst_item rw rb) its = chs /\
    forall k nm sz, In (SizeVar k nm sz) its -> exists n, In n sz /\ rw k = Z.of_nat n.
Proof.
  intros its chs Hnd H. induction H as [|it ch its chs Hit Hrest IH].
  - exists (fun _ => 0), (fun _ => []). split; [reflexivity|intros k nm sz []].
  - unfold ids in Hnd. cbn [flat_map] in Hnd. fold (ids its) in Hnd.
    assert (Hnd' : NoDup (ids its)).
    { destruct it; cbn [item_id app] in Hnd; try (inversion Hnd; assumption); assumption. }
    destruct (IH Hnd') as (rw & rb & Hm & Hsv).
    assert (Hfresh : forall k, In k (item_id it) -> ~ In k (ids its)).
    { intros k Hk. destruct it; cbn [item_id app] in Hnd, Hk; try (destruct Hk as [<-|[]]; inversion Hnd; assumption); destruct Hk. }
    destruct it as [k nm tp|k nm tp n|k nm sz|z]; cbn [item_ok] in Hit.
    + destruct Hit as (w & _ & ->).
      exists (fun i => if Nat.eqb i k then w else rw i), rb. split.
      * cbn [map inst_item]. rewrite Nat.eqb_refl. f_equal. rewrite <- Hm.
        apply map_ext_in. intros it' Hin. apply inst_item_ext. intros i Hi. split; [|reflexivity].
        destruct (Nat.eqb_spec i k) as [->|]; [|reflexivity].
        exfalso. apply (Hfresh k (or_introl eq_refl)). eapply item_id_in_ids; eassumption.
      * intros k0 nm0 sz0 [Hx|Hin]; [discriminate|].
        destruct (Hsv _ _ _ Hin) as (n0 & Hn0 & Hr). exists n0. split; [exact Hn0|].
        destruct (Nat.eqb_spec k0 k) as [->|]; [|exact Hr].
        exfalso. apply (Hfresh k (or_introl eq_refl)). eapply item_id_in_ids; [exact Hin|left; reflexivity].
    + exists rw, (fun i => if Nat.eqb i k then ch else rb i). split.
      * cbn [map inst_item]. rewrite Nat.eqb_refl. rewrite <- Hit, fit_exact. f_equal. rewrite <- Hm.
        apply map_ext_in. intros it' Hin. apply inst_item_ext. intros i Hi. split; [reflexivity|].
        destruct (Nat.eqb_spec i k) as [->|]; [|reflexivity].
        exfalso. apply (Hfresh k (or_introl eq_refl)). eapply item_id_in_ids; eassumption.
      * intros k0 nm0 sz0 [Hx|Hin]; [discriminate|]. exact (Hsv _ _ _ Hin).
    + destruct Hit as (n & Hn & ->).
      exists (fun i => if Nat.eqb i k then Z.of_nat n else rw i), rb. split.
      * cbn [map inst_item]. rewrite Nat.eqb_refl. f_equal. rewrite <- Hm.
        apply map_ext_in. intros it' Hin. apply inst_item_ext. intros i Hi. split; [|reflexivity].
        destruct (Nat.eqb_spec i k) as [->|]; [|reflexivity].
        exfalso. apply (Hfresh k (or_introl eq_refl)). eapply item_id_in_ids; eassumption.
      * intros k0 nm0 sz0 [Hx|Hin].
        -- inversion Hx; subst. exists n. split; [exact Hn|]. rewrite Nat.eqb_refl. reflexivity.
        -- destruct (Hsv _ _ _ Hin) as (n0 & Hn0 & Hr). exists n0. split; [exact Hn0|].
           destruct (Nat.eqb_spec k0 k) as [->|]; [|exact Hr].
           exfalso. apply (Hfresh k (or_introl eq_refl)). eapply item_id_in_ids; [exact Hin|left; reflexivity].
    + subst ch. exists rw, rb. split.
      * cbn [map inst_item]. f_equal. exact Hm.
      * intros k0 nm0 sz0 [Hx|Hin]; [discriminate|]. exact (Hsv _ _ _ Hin).
Qed.

Lemma In_dyns : forall its k sz, In (k, sz) (dyns its) -> exists nm, In (SizeVar k nm sz) its.
Proof.
  intros its k sz H. unfold dyns in H. apply in_flat_map in H. destruct H as [it [Hin Hd]].
  destruct it as [k0 nm tp|k0 nm tp n|k0 nm sz0|z]; cbn [dyn_of_item] in Hd; try (destruct Hd; fail).
  destruct Hd as [Hd|[]]. inversion Hd; subst. eexists. exact Hin.
Qed.

Theorem instance_valuation : forall t c name k e ds k' v,
  wf_ty t -> cfg_ok c -> encode c name t k = (e, ds, k') -> Z.of_nat (e_size e) < W256 ->
  admits c name t v ->
  exists rw rb,
    (forall d, In d ds -> exists n, In n (d_sizes d) /\ rw (d_id d) = Z.of_nat n) /\
    decode (instantiate rw rb (e_items e)) t 0 = Some v.
Proof.
  intros t c name k e ds k' v Hw Hc H Hb Ha.
  destruct (instance_chunks t Hw _ _ _ _ _ _ _ Hc H Hb Ha) as (chs & C1 & C2).
  pose proof (encode_inv _ _ _ _ _ _ _ H) as Hi.
  destruct (realise _ _ (inv_nodup _ _ _ _ _ Hi) C1) as (rw & rb & Hm & Hsv).
  exists rw, rb. split.
  - intros d Hd. assert (Hin : In (dpair d) (dyns (e_items e))).
    { rewrite (inv_dyn _ _ _ _ _ Hi). apply in_map. exact Hd. }
    destruct (In_dyns _ _ _ Hin) as [nm Hnm]. exact (Hsv _ _ _ Hnm).
  - unfold instantiate. rewrite Hm. specialize (C2 [] []). cbn [app length] in C2.
    rewrite app_nil_r in C2. exact C2.
Qed.

Lemma fit_length : forall n l, length (fit n l) = n.
Proof.
  induction n as [|n IH]; intros l; [reflexivity|].
  cbn [fit]. destruct l; cbn [length]; rewrite IH; reflexivity.
Qed.

Theorem instantiate_length : forall t c name k e ds k' rw rb,
  encode c name t k = (e, ds, k') -> length (instantiate rw rb (e_items e)) = e_size e.
Proof.
  intros t c name k e ds k' rw rb H. rewrite (inv_size _ _ _ _ _ (encode_inv _ _ _ _ _ _ _ H)).
  unfold instantiate, items_size. induction (e_items e) as [|it its IH]; [reflexivity|].
  cbn [map concat lsum]. rewrite app_length, IH. f_equal.
  destruct it as [k0 nm tp|k0 nm tp n|k0 nm sz|z]; cbn [inst_item item_size];
    try apply be_bytes_length. apply fit_length.
Qed.
