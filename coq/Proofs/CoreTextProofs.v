(* C16 — proofs about the text side of Model/CacheModel.v (parse_unsat_core, dump) *)
From Coq Require Import ZArith List Bool Lia.
From HV Require Import Gen.GenUnsatCore Spec.CacheSpec Model.CacheModel.
Import ListNotations.
Open Scope Z_scope.

Ltac app_norm := repeat (rewrite <- app_assoc || rewrite <- app_comm_cons).

(* ------------------------------------------------------------------ character classes *)
Lemma is_space_spec : forall c, is_space c = true <-> sp_space c.
Proof.
  intros c. unfold sp_space, space_codes, is_space. simpl In.
  rewrite !orb_true_iff, !andb_true_iff, !Z.leb_le, !Z.eqb_eq. split; intros H; lia.
Qed.

Lemma is_digit_spec : forall c, is_digit c = true <-> sp_digit c.
Proof. intros c. unfold is_digit, sp_digit. rewrite andb_true_iff, !Z.leb_le. tauto. Qed.

Lemma digit_not_space : forall c, sp_digit c -> is_space c = false.
Proof.
  intros c H. destruct (is_space c) eqn:E; [|reflexivity]. apply is_space_spec in E.
  unfold sp_space, space_codes in E. simpl in E. unfold sp_digit in H. lia.
Qed.

Lemma digit_not_gt : forall c, sp_digit c -> (c =? c_gt) = false.
Proof. intros c H. unfold sp_digit, c_gt in *. apply Z.eqb_neq. lia. Qed.

Lemma all_space_cons : forall c ws, all_space (c :: ws) -> is_space c = true /\ all_space ws.
Proof.
  intros c ws H. split; [apply is_space_spec, H; left; reflexivity|].
  intros x Hx. apply H. right. exact Hx.
Qed.

(* ------------------------------------------------------------------ scanning primitives *)
Lemma skip_ws_app : forall ws s, all_space ws -> skip_ws (ws ++ s) = skip_ws s.
Proof.
  induction ws as [|c ws IH]; intros s H; [reflexivity|].
  apply all_space_cons in H. destruct H as [Hc Hws]. simpl. rewrite Hc. apply IH. exact Hws.
Qed.

Lemma skip_ws_head : forall c s, is_space c = false -> skip_ws (c :: s) = c :: s.
Proof. intros c s H. simpl. rewrite H. reflexivity. Qed.

Lemma strip_prefix_app : forall p s, strip_prefix p (p ++ s) = Some s.
Proof. induction p as [|a p IH]; intros s; simpl; [reflexivity|]. rewrite Z.eqb_refl. apply IH. Qed.

Lemma skip_to_rparen_app : forall msg s, ~ In c_rpar msg -> skip_to_rparen (msg ++ c_rpar :: s) = Some s.
Proof.
  induction msg as [|a msg IH]; intros s H; simpl.
  - reflexivity.
  - destruct (a =? c_rpar) eqn:E.
    + apply Z.eqb_eq in E. exfalso. apply H. left. exact E.
    + apply IH. intros Hin. apply H. right. exact Hin.
Qed.

Lemma skip_ws_error : forall t, skip_ws (s_error ++ t) = s_error ++ t.
Proof. intros t. reflexivity. Qed.

Lemma try_error_some : forall ws1 c msg ws3 s,
  all_space ws1 -> sp_space c -> ~ In c_rpar msg -> all_space ws3 ->
  try_error (c_lpar :: ws1 ++ s_error ++ c :: msg ++ c_rpar :: ws3 ++ s) = Some (skip_ws s).
Proof.
  intros ws1 c msg ws3 s H1 Hc Hm H3. unfold try_error. rewrite Z.eqb_refl.
  rewrite skip_ws_app by exact H1. rewrite skip_ws_error, strip_prefix_app.
  apply is_space_spec in Hc. rewrite Hc. rewrite skip_to_rparen_app by exact Hm.
  rewrite skip_ws_app by exact H3. reflexivity.
Qed.

(* what follows "( ws" in a core list: a name, the closing parenthesis *)
Definition core_head (t : list Z) : Prop := exists r, t = c_lt :: r \/ t = c_rpar :: r.

Lemma try_error_none : forall ws1 t, all_space ws1 -> core_head t -> try_error (c_lpar :: ws1 ++ t) = None.
Proof.
  intros ws1 t H1 [r [Ht | Ht]]; subst t; unfold try_error; rewrite Z.eqb_refl;
    rewrite skip_ws_app by exact H1; reflexivity.
Qed.

(* ------------------------------------------------------------------ the names automaton *)
Lemma names_start_ws : forall ws s, all_space ws -> names NStart (ws ++ s) = names NStart s.
Proof.
  induction ws as [|c ws IH]; intros s H; [reflexivity|].
  apply all_space_cons in H. destruct H as [Hc Hws]. simpl. rewrite Hc. apply IH. exact Hws.
Qed.

Lemma names_after_ws : forall ws s, all_space ws ->
  names NAfter (ws ++ s) = option_map (app ws) (names NAfter s).
Proof.
  induction ws as [|c ws IH]; intros s H.
  - simpl. destruct (names NAfter s); reflexivity.
  - apply all_space_cons in H. destruct H as [Hc Hws]. simpl. rewrite Hc. rewrite IH by exact Hws.
    destruct (names NAfter s); reflexivity.
Qed.

Lemma names_digits : forall d s, (forall c, In c d -> sp_digit c) ->
  names NDigits (d ++ c_gt :: s) = option_map (app (d ++ [c_gt])) (names NAfter s).
Proof.
  induction d as [|c d IH]; intros s H.
  - simpl app. change (names NDigits (c_gt :: s)) with (option_map (cons c_gt) (names NAfter s)).
    destruct (names NAfter s); reflexivity.
  - assert (Hc : is_digit c = true) by (apply is_digit_spec, H; left; reflexivity).
    simpl. rewrite Hc. rewrite IH by (intros x Hx; apply H; right; exact Hx).
    destruct (names NAfter s); reflexivity.
Qed.

Lemma names_after_lt : forall r, names NAfter (c_lt :: r) = option_map (cons c_lt) (names NOpen r).
Proof. reflexivity. Qed.
Lemma names_start_lt : forall r, names NStart (c_lt :: r) = option_map (cons c_lt) (names NOpen r).
Proof. reflexivity. Qed.
Lemma names_after_rpar : forall r, names NAfter (c_rpar :: r) = Some [].
Proof. reflexivity. Qed.
Lemma names_start_rpar : forall r, names NStart (c_rpar :: r) = Some [].
Proof. reflexivity. Qed.

Definition idents (l : list (list Z * list Z)) : Prop := forall d sep, In (d, sep) l -> ident d.
Definition seps_space (l : list (list Z * list Z)) : Prop := forall d sep, In (d, sep) l -> all_space sep.

Lemma seps_ok_space : forall l, seps_ok l -> seps_space l.
Proof.
  induction l as [|[d sep] r IH]; intros H d' sep' Hin; [destruct Hin|].
  simpl in H. destruct H as [Hs [_ Hr]]. destruct Hin as [E | Hin].
  - inversion E. subst. exact Hs.
  - eapply IH; eauto.
Qed.

Lemma names_open_ident : forall d s, ident d ->
  names NOpen (d ++ c_gt :: s) = option_map (app (d ++ [c_gt])) (names NAfter s).
Proof.
  intros d s [Hne Hd]. destruct d as [|c d]; [contradiction|].
  assert (Hc : is_digit c = true) by (apply is_digit_spec, Hd; left; reflexivity).
  simpl. rewrite Hc. rewrite names_digits by (intros x Hx; apply Hd; right; exact Hx).
  destruct (names NAfter s); reflexivity.
Qed.

Lemma names_after_render : forall l post, idents l -> seps_space l ->
  names NAfter (render_names l ++ c_rpar :: post) = Some (render_names l).
Proof.
  induction l as [|[d sep] r IH]; intros post Hid Hsp.
  - reflexivity.
  - simpl render_names. app_norm. rewrite names_after_lt.
    rewrite names_open_ident by (eapply Hid; left; reflexivity).
    rewrite names_after_ws by (eapply Hsp; left; reflexivity).
    rewrite IH.
    + simpl. app_norm. reflexivity.
    + intros d' s' Hin. eapply Hid. right. exact Hin.
    + intros d' s' Hin. eapply Hsp. right. exact Hin.
Qed.

Lemma render_head : forall l post, core_head (render_names l ++ c_rpar :: post).
Proof.
  intros [|[d sep] r] post; simpl.
  - exists post. right. reflexivity.
  - eexists. left. reflexivity.
Qed.

Lemma names_start_render : forall ws l post, all_space ws -> idents l -> seps_space l ->
  names NStart (ws ++ render_names l ++ c_rpar :: post) = Some (render_names l).
Proof.
  intros ws l post Hws Hid Hsp. rewrite names_start_ws by exact Hws.
  pose proof (names_after_render l post Hid Hsp) as H.
  destruct l as [|[d sep] r]; [reflexivity|].
  simpl render_names in *. revert H. app_norm. rewrite names_after_lt, names_start_lt. auto.
Qed.

(* ------------------------------------------------------------------ match_at / search *)
Lemma search_hit : forall s g, match_at s = Some g -> search s = Some g.
Proof.
  intros s g H. destruct s as [|a s]; [vm_compute in H; discriminate|].
  cbn [search]. rewrite H. reflexivity.
Qed.

Lemma match_at_reply : forall ws0 err ws1 l post,
  all_space ws0 -> error_line err -> all_space ws1 -> idents l -> seps_space l ->
  match_at (core_reply ws0 err ws1 l post) = Some (render_names l).
Proof.
  intros ws0 err ws1 l post H0 He H1 Hid Hsp. unfold match_at, core_reply.
  rewrite strip_prefix_app. rewrite skip_ws_app by exact H0.
  destruct He as [| wsa c msg wsc Ha Hc Hm Hcc].
  - simpl app. rewrite skip_ws_head by reflexivity.
    rewrite try_error_none by (auto using render_head).
    unfold match_core. rewrite Z.eqb_refl. apply names_start_render; assumption.
  - app_norm. rewrite skip_ws_head by reflexivity.
    rewrite try_error_some by assumption. rewrite skip_ws_head by reflexivity.
    unfold match_core. rewrite Z.eqb_refl. apply names_start_render; assumption.
Qed.

(* ------------------------------------------------------------------ split() *)
Lemma split_ws_ne : forall s, split_ws s <> [].
Proof.
  induction s as [|a s IH]; simpl; [discriminate|].
  destruct (is_space a); [discriminate|]. destruct (split_ws s); discriminate.
Qed.

Lemma tokens_space : forall c s, is_space c = true -> tokens (c :: s) = tokens s.
Proof. intros c s H. unfold tokens. simpl. rewrite H. reflexivity. Qed.

Lemma tokens_ws : forall ws s, all_space ws -> tokens (ws ++ s) = tokens s.
Proof.
  induction ws as [|c ws IH]; intros s H; [reflexivity|].
  apply all_space_cons in H. destruct H as [Hc Hws]. simpl app. rewrite tokens_space by exact Hc.
  apply IH. exact Hws.
Qed.

Definition nospace (t : list Z) : Prop := forall c, In c t -> is_space c = false.

Lemma split_ws_word : forall t s, nospace t ->
  split_ws (t ++ s) = match split_ws s with h :: ts => (t ++ h) :: ts | [] => [t] end.
Proof.
  induction t as [|a t IH]; intros s H.
  - simpl. destruct (split_ws s) eqn:E; [exfalso; eapply split_ws_ne; eauto | reflexivity].
  - simpl. rewrite (H a) by (left; reflexivity).
    rewrite IH by (intros x Hx; apply H; right; exact Hx).
    destruct (split_ws s); reflexivity.
Qed.

Lemma tokens_word_end : forall t, nospace t -> t <> [] -> tokens t = [t].
Proof.
  intros t H Hne. unfold tokens. rewrite <- (app_nil_r t) at 1. rewrite split_ws_word by exact H.
  simpl. rewrite app_nil_r. destruct t; [contradiction | reflexivity].
Qed.

Lemma tokens_word_space : forall t c s, nospace t -> t <> [] -> is_space c = true ->
  tokens (t ++ c :: s) = t :: tokens s.
Proof.
  intros t c s H Hne Hc. unfold tokens. rewrite split_ws_word by exact H.
  simpl. rewrite Hc. simpl. rewrite app_nil_r. destruct t; [contradiction | reflexivity].
Qed.

Lemma core_name_nospace : forall d, ident d -> nospace (core_name d).
Proof.
  intros d [_ Hd] c Hc. unfold core_name in Hc. destruct Hc as [E | Hc]; [subst; reflexivity|].
  apply in_app_or in Hc. destruct Hc as [Hc | [E | []]].
  - apply digit_not_space, Hd, Hc.
  - subst. reflexivity.
Qed.

Lemma render_cons : forall d sep r,
  render_names ((d, sep) :: r) = core_name d ++ sep ++ render_names r.
Proof. intros. unfold core_name. simpl. app_norm. reflexivity. Qed.

Lemma tokens_render : forall l, idents l -> seps_ok l ->
  tokens (render_names l) = map (fun p => core_name (fst p)) l.
Proof.
  induction l as [|[d sep] r IH]; intros Hid Hok; [reflexivity|].
  rewrite render_cons. simpl in Hok. destruct Hok as [Hsp [Hne Hr]].
  assert (Hd : ident d) by (eapply Hid; left; reflexivity).
  assert (Hw : core_name d <> []) by (unfold core_name; discriminate).
  destruct sep as [|c sep].
  - destruct r as [|p r]; [|exfalso; apply Hne; [discriminate | reflexivity]].
    simpl. rewrite app_nil_r. apply tokens_word_end; [apply core_name_nospace; exact Hd | exact Hw].
  - apply all_space_cons in Hsp. destruct Hsp as [Hc Hsp]. app_norm.
    rewrite tokens_word_space; [| apply core_name_nospace; exact Hd | exact Hw | exact Hc].
    rewrite tokens_ws by exact Hsp. simpl. f_equal. apply IH; [|exact Hr].
    intros d' s' Hin. eapply Hid. right. exact Hin.
Qed.

(* ------------------------------------------------------------------ the re.sub *)
Lemma name_ahead_digits : forall d s, (forall c, In c d -> sp_digit c) ->
  name_ahead true (d ++ c_gt :: s) = true.
Proof.
  induction d as [|c d IH]; intros s H; [reflexivity|].
  simpl. assert (Hc : is_digit c = true) by (apply is_digit_spec, H; left; reflexivity).
  rewrite Hc. apply IH. intros x Hx. apply H. right. exact Hx.
Qed.

Lemma sub_names_in : forall d, (forall c, In c d -> sp_digit c) -> sub_names true (d ++ [c_gt]) = d.
Proof.
  induction d as [|c d IH]; intros H; [reflexivity|].
  simpl. rewrite digit_not_gt by (apply H; left; reflexivity).
  f_equal. apply IH. intros x Hx. apply H. right. exact Hx.
Qed.

Lemma sub_names_false_lt : forall r, name_ahead false r = true ->
  sub_names false (c_lt :: r) = sub_names true r.
Proof. intros r H. cbn [sub_names]. rewrite Z.eqb_refl, H. reflexivity. Qed.

Lemma sub_names_core_name : forall d, ident d -> sub_names false (core_name d) = d.
Proof.
  intros d [Hne Hd]. unfold core_name. rewrite sub_names_false_lt.
  - apply sub_names_in. exact Hd.
  - destruct d as [|c d]; [contradiction|].
    assert (Hc : is_digit c = true) by (apply is_digit_spec, Hd; left; reflexivity).
    rewrite <- app_comm_cons. cbn [name_ahead]. rewrite Hc.
    apply name_ahead_digits. intros x Hx. apply Hd. right. exact Hx.
Qed.

(* ------------------------------------------------------------------ main text theorems *)
Theorem parse_core_exact : forall ws0 err ws1 l post,
  all_space ws0 -> error_line err -> all_space ws1 -> idents l -> seps_ok l ->
  parse_unsat_core (core_reply ws0 err ws1 l post) = Some (map fst l).
Proof.
  intros ws0 err ws1 l post H0 He H1 Hid Hok. unfold parse_unsat_core.
  rewrite (search_hit _ _ (match_at_reply ws0 err ws1 l post H0 He H1 Hid (seps_ok_space l Hok))).
  f_equal. rewrite tokens_render by assumption. rewrite map_map.
  apply map_ext_in. intros [d sep] Hin. simpl. apply sub_names_core_name. eapply Hid. exact Hin.
Qed.

(* no "unsat" anywhere => no core *)
Lemma strip_prefix_inv : forall p s r, strip_prefix p s = Some r -> s = p ++ r.
Proof.
  induction p as [|a p IH]; intros s r H; simpl in H.
  - inversion H. reflexivity.
  - destruct s as [|b s]; [discriminate|]. destruct (a =? b) eqn:E; [|discriminate].
    apply Z.eqb_eq in E. subst b. simpl. f_equal. apply IH. exact H.
Qed.

Lemma search_inv : forall s g, search s = Some g -> exists pre rest, s = pre ++ rest /\ match_at rest = Some g.
Proof.
  induction s as [|a s IH]; intros g H.
  - vm_compute in H. discriminate.
  - cbn [search] in H. destruct (match_at (a :: s)) eqn:E.
    + exists [], (a :: s). split; [reflexivity|]. rewrite E. exact H.
    + destruct (IH g H) as [pre [rest [E1 E2]]]. exists (a :: pre), rest. split; [simpl; f_equal; exact E1 | exact E2].
Qed.

Theorem parse_needs_unsat : forall s ids, parse_unsat_core s = Some ids ->
  exists pre rest, s = pre ++ s_unsat ++ rest.
Proof.
  intros s ids H. unfold parse_unsat_core in H. destruct (search s) eqn:E; [|discriminate].
  apply search_inv in E. destruct E as [pre [rest [E1 E2]]]. unfold match_at in E2.
  destruct (strip_prefix s_unsat rest) eqn:E3; [|discriminate].
  apply strip_prefix_inv in E3. exists pre, l0. subst. reflexivity.
Qed.

(* ---- inversion of the automaton: whatever is accepted has the shape of a core list *)
Lemma skip_ws_inv : forall s, exists ws, all_space ws /\ s = ws ++ skip_ws s /\
  match skip_ws s with [] => True | c :: _ => is_space c = false end.
Proof.
  induction s as [|c s IH].
  - exists []. repeat split. intros x [].
  - simpl. destruct (is_space c) eqn:E.
    + destruct IH as [ws [Hws [Heq Hh]]]. exists (c :: ws). repeat split.
      * intros x [Hx | Hx]; [subst; apply is_space_spec; exact E | apply Hws; exact Hx].
      * simpl. f_equal. exact Heq.
      * exact Hh.
    + exists []. repeat split; [intros x [] | exact E].
Qed.

Definition all_digits (d : list Z) : Prop := forall c, In c d -> sp_digit c.

Lemma names_inv : forall s,
  (forall g, names NAfter s = Some g -> exists l post, s = g ++ c_rpar :: post /\
      exists sep, all_space sep /\ g = sep ++ render_names l /\ idents l /\ seps_space l) /\
  (forall g, names NDigits s = Some g -> exists d l post, s = g ++ c_rpar :: post /\ all_digits d /\
      exists sep, all_space sep /\ g = d ++ c_gt :: sep ++ render_names l /\ idents l /\ seps_space l) /\
  (forall g, names NOpen s = Some g -> exists d l post, s = g ++ c_rpar :: post /\ ident d /\
      exists sep, all_space sep /\ g = d ++ c_gt :: sep ++ render_names l /\ idents l /\ seps_space l).
Proof.
  induction s as [|c s [IHa [IHd IHo]]].
  - repeat split; intros g H; discriminate.
  - assert (Hcons : forall d sep l, ident d -> all_space sep -> idents l -> seps_space l ->
               idents ((d, sep) :: l) /\ seps_space ((d, sep) :: l)).
    { intros d sep l Hd Hs Hi Hp. split; intros d' s' [E | Hin]; try (inversion E; subst; assumption); eauto. }
    repeat split; intros g H; simpl in H.
    + (* NAfter *)
      destruct (is_space c) eqn:Esp.
      * destruct (names NAfter s) as [g'|] eqn:E; [|discriminate]. inversion H; subst g.
        destruct (IHa g' eq_refl) as [l [post [Hs [sep [Hsep [Hg [Hi Hp]]]]]]].
        exists l, post. split; [simpl; f_equal; exact Hs|].
        exists (c :: sep). split; [|split; [simpl; f_equal; exact Hg | split; assumption]].
        intros x [Hx | Hx]; [subst; apply is_space_spec; exact Esp | apply Hsep; exact Hx].
      * destruct (c =? c_rpar) eqn:Er.
        { inversion H; subst g. apply Z.eqb_eq in Er. subst c. exists [], s. split; [reflexivity|].
          exists []. split; [intros x []|]. split; [reflexivity|]. split; intros d sp []. }
        destruct (c =? c_lt) eqn:El; [|discriminate]. apply Z.eqb_eq in El. subst c.
        destruct (names NOpen s) as [g'|] eqn:E; [|discriminate]. inversion H; subst g.
        destruct (IHo g' eq_refl) as [d [l [post [Hs [Hd [sep [Hsep [Hg [Hi Hp]]]]]]]]].
        destruct (Hcons d sep l Hd Hsep Hi Hp) as [Hi' Hp'].
        exists ((d, sep) :: l), post. split; [simpl; f_equal; exact Hs|].
        exists []. split; [intros x []|]. split; [|split; assumption].
        simpl. f_equal. exact Hg.
    + (* NDigits *)
      destruct (is_digit c) eqn:Ed.
      * destruct (names NDigits s) as [g'|] eqn:E; [|discriminate]. inversion H; subst g.
        destruct (IHd g' eq_refl) as [d [l [post [Hs [Hd [sep [Hsep [Hg [Hi Hp]]]]]]]]].
        exists (c :: d), l, post. split; [simpl; f_equal; exact Hs|]. split.
        { intros x [Hx | Hx]; [subst; apply is_digit_spec; exact Ed | apply Hd; exact Hx]. }
        exists sep. split; [exact Hsep|]. split; [simpl; f_equal; exact Hg | split; assumption].
      * destruct (c =? c_gt) eqn:Eg; [|discriminate]. apply Z.eqb_eq in Eg. subst c.
        destruct (names NAfter s) as [g'|] eqn:E; [|discriminate]. inversion H; subst g.
        destruct (IHa g' eq_refl) as [l [post [Hs [sep [Hsep [Hg [Hi Hp]]]]]]].
        exists [], l, post. split; [simpl; f_equal; exact Hs|]. split; [intros x []|].
        exists sep. split; [exact Hsep|]. split; [simpl; f_equal; exact Hg | split; assumption].
    + (* NOpen *)
      destruct (is_digit c) eqn:Ed; [|discriminate].
      destruct (names NDigits s) as [g'|] eqn:E; [|discriminate]. inversion H; subst g.
      destruct (IHd g' eq_refl) as [d [l [post [Hs [Hd [sep [Hsep [Hg [Hi Hp]]]]]]]]].
      exists (c :: d), l, post. split; [simpl; f_equal; exact Hs|]. split.
      { split; [discriminate|]. intros x [Hx | Hx]; [subst; apply is_digit_spec; exact Ed | apply Hd; exact Hx]. }
      exists sep. split; [exact Hsep|]. split; [simpl; f_equal; exact Hg | split; assumption].
Qed.

Lemma names_start_inv : forall s g, names NStart s = Some g ->
  exists ws l post, all_space ws /\ s = ws ++ g ++ c_rpar :: post /\ g = render_names l /\ idents l /\ seps_space l.
Proof.
  induction s as [|c s IH]; intros g H; [discriminate|]. simpl in H.
  destruct (is_space c) eqn:Esp.
  - destruct (IH g H) as [ws [l [post [Hws [Hs [Hg [Hi Hp]]]]]]].
    exists (c :: ws), l, post. split; [|split; [simpl; f_equal; exact Hs | split; [exact Hg | split; assumption]]].
    intros x [Hx | Hx]; [subst; apply is_space_spec; exact Esp | apply Hws; exact Hx].
  - destruct (c =? c_rpar) eqn:Er.
    { inversion H; subst g. apply Z.eqb_eq in Er. subst c. exists [], [], s.
      split; [intros x []|]. split; [reflexivity|]. split; [reflexivity|]. split; intros d sp []. }
    destruct (c =? c_lt) eqn:El; [|discriminate]. apply Z.eqb_eq in El. subst c.
    destruct (names NOpen s) as [g'|] eqn:E; [|discriminate]. inversion H; subst g.
    destruct (proj2 (proj2 (names_inv s)) g' E) as [d [l [post [Hs [Hd [sep [Hsep [Hg [Hi Hp]]]]]]]]].
    exists [], ((d, sep) :: l), post. split; [intros x []|]. split; [simpl; f_equal; exact Hs|].
    split; [simpl; f_equal; exact Hg|].
    split; intros d' s' [E' | Hin]; try (inversion E'; subst; assumption); eauto.
Qed.

(* every accepted output contains "unsat", white space, optionally something up to a ")" (the
   error group), then "(" ws names ")" where names is a sequence of <digits> separated by
   (possibly empty) white space; and the ids returned are computed from exactly that text *)
Theorem parse_core_inv : forall s ids, parse_unsat_core s = Some ids ->
  exists pre mid ws1 l post,
    s = pre ++ s_unsat ++ mid ++ c_lpar :: ws1 ++ render_names l ++ c_rpar :: post /\
    all_space ws1 /\ idents l /\ seps_space l /\
    ids = map (sub_names false) (tokens (render_names l)).
Proof.
  intros s ids H. unfold parse_unsat_core in H. destruct (search s) as [g|] eqn:E; [|discriminate].
  inversion H; subst ids; clear H.
  apply search_inv in E. destruct E as [pre [rest [E1 E2]]]. unfold match_at in E2.
  destruct (strip_prefix s_unsat rest) as [s1|] eqn:E3; [|discriminate].
  apply strip_prefix_inv in E3.
  assert (Hcore : forall t, match_core t = Some g -> exists ws1 l post,
            t = c_lpar :: ws1 ++ render_names l ++ c_rpar :: post /\ all_space ws1 /\ idents l /\ seps_space l /\ g = render_names l).
  { intros t Ht. unfold match_core in Ht. destruct t as [|c t]; [discriminate|].
    destruct (c =? c_lpar) eqn:Ec; [|discriminate]. apply Z.eqb_eq in Ec. subst c.
    apply names_start_inv in Ht. destruct Ht as [ws [l [post [Hws [Hs [Hg [Hi Hp]]]]]]].
    exists ws, l, post. subst g. split; [f_equal; exact Hs|]. split; [exact Hws|]. split; [exact Hi|]. split; [exact Hp | reflexivity]. }
  destruct (skip_ws_inv s1) as [ws0 [Hws0 [Hs1 _]]].
  destruct (try_error (skip_ws s1)) as [s3|] eqn:E4.
  - destruct (Hcore s3 E2) as [ws1 [l [post [Ht [Hws [Hi [Hp Hg]]]]]]].
    (* s3 is a suffix of skip_ws s1 *)
    assert (Hsuf : exists m, skip_ws s1 = m ++ s3).
    { unfold try_error in E4. destruct (skip_ws s1) as [|c r]; [discriminate|].
      destruct (c =? c_lpar); [|discriminate].
      destruct (strip_prefix s_error (skip_ws r)) as [[|c1 r2]|] eqn:E5; try discriminate.
      destruct (is_space c1); [|discriminate].
      destruct (skip_to_rparen r2) as [r3|] eqn:E6; [|discriminate]. inversion E4; subst s3.
      apply strip_prefix_inv in E5.
      destruct (skip_ws_inv r) as [wa [_ [Hr _]]]. destruct (skip_ws_inv r3) as [wb [_ [Hr3 _]]].
      assert (Hm : exists m, r2 = m ++ r3).
      { clear - E6. revert r3 E6. induction r2 as [|x r2 IH]; intros r3 E6; [discriminate|].
        simpl in E6. destruct (x =? c_rpar).
        - inversion E6; subst. exists [x]. reflexivity.
        - destruct (IH r3 E6) as [m Hm]. exists (x :: m). simpl. f_equal. exact Hm. }
      destruct Hm as [m Hm].
      exists (c :: wa ++ s_error ++ c1 :: m ++ wb). rewrite Hr at 1. rewrite E5. rewrite Hm. rewrite Hr3 at 1.
      simpl. app_norm. reflexivity. }
    destruct Hsuf as [m Hm].
    exists pre, (ws0 ++ m), ws1, l, post. subst g.
    split; [|split; [exact Hws|]; split; [exact Hi|]; split; [exact Hp | reflexivity]].
    rewrite E1, E3. rewrite Hs1 at 1. rewrite Hm, Ht. app_norm. reflexivity.
  - destruct (Hcore _ E2) as [ws1 [l [post [Ht [Hws [Hi [Hp Hg]]]]]]].
    exists pre, ws0, ws1, l, post. subst g.
    split; [|split; [exact Hws|]; split; [exact Hi|]; split; [exact Hp | reflexivity]].
    rewrite E1, E3. rewrite Hs1 at 1. rewrite Ht. app_norm. reflexivity.
Qed.

(* names without separating white space are merged into one identifier *)
Lemma parse_adjacent : exists l : list (list Z * list Z),
  idents l /\ seps_space l /\
  parse_unsat_core (core_reply [] [] [] l []) = Some [[49; 50; 49; 51]] /\
  map fst l = [[49; 50]; [49; 51]].
Proof.
  exists [([49; 50], []); ([49; 51], [])].
  split; [|split; [|split; [vm_compute; reflexivity | reflexivity]]].
  - intros d sep [E | [E | []]]; inversion E; subst;
      (split; [discriminate | intros c Hc; unfold sp_digit; simpl in Hc; lia]).
  - intros d sep [E | [E | []]]; inversion E; subst; intros c [].
Qed.

(* ------------------------------------------------------------------ pins against the regenerated literals *)
Lemma pattern_pinned : gen_core_pattern = expected_core_pattern /\
  gen_sub_pattern = expected_sub_pattern /\ gen_sub_repl = expected_sub_repl /\ gen_core_group = 2.
Proof. repeat split; reflexivity. Qed.

(* the name under which dump() registers id i is "<i>", and it labels the tracked literal |i|:
   (assert (! |i| :named <i>)) newline *)
Lemma named_assertion_shape : forall i,
  named_assertion i =
    [40; 97; 115; 115; 101; 114; 116; 32; 40; 33; 32; 124] ++ i ++
    [124; 32; 58; 110; 97; 109; 101; 100; 32] ++ core_name i ++ [41; 41; 10].
Proof.
  intros i. unfold named_assertion, core_name, gen_named_p0, gen_named_p1, gen_named_p2, c_lt, c_gt.
  simpl. app_norm. simpl. reflexivity.
Qed.

(* the cache-mode file switches unsat cores on and ends by asking for the core *)
Lemma dump_requests_core :
  (exists pre, gen_file_tail = pre ++ [40; 103; 101; 116; 45; 117; 110; 115; 97; 116; 45; 99; 111; 114; 101; 41; 10]) /\
  (exists post, gen_file_head = [40; 115; 101; 116; 45; 111; 112; 116; 105; 111; 110; 32; 58; 112; 114; 111; 100; 117; 99; 101; 45; 117; 110; 115; 97; 116; 45; 99; 111; 114; 101; 115; 32; 116; 114; 117; 101; 41; 10] ++ post).
Proof.
  split.
  - exists (firstn (length gen_file_tail - 17) gen_file_tail). reflexivity.
  - exists (skipn 39 gen_file_head). reflexivity.
Qed.

