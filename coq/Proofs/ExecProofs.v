(* Proofs about Model/ExecModel.v (C17). *)
From Coq Require Import List Arith Bool Lia.
From HV Require Import Spec.ExecSpec Gen.GenSolveLow Gen.GenCancel Model.ExecModel.
Import ListNotations.

(* ------------------------------------------------------------------ list helpers *)

Lemma length_set_nth {A} j (x : A) l : length (set_nth j x l) = length l.
Proof. revert j; induction l; destruct j; simpl; auto. Qed.

Lemma nth_set_nth_eq {A} j (x : A) l : j < length l -> nth_error (set_nth j x l) j = Some x.
Proof. revert j; induction l; destruct j; simpl; intros; try lia; auto. apply IHl; lia. Qed.

Lemma nth_set_nth_neq {A} i j (x : A) l : i <> j -> nth_error (set_nth j x l) i = nth_error l i.
Proof. revert i j; induction l; destruct j, i; simpl; intros; try congruence; auto. Qed.

Lemma nth_set_nth {A} i j (x y : A) l :
  nth_error l j = Some y ->
  nth_error (set_nth j x l) i = if Nat.eqb i j then Some x else nth_error l i.
Proof.
  intros H. destruct (Nat.eqb_spec i j).
  - subst. apply nth_set_nth_eq. apply nth_error_Some. congruence.
  - apply nth_set_nth_neq; auto.
Qed.

Lemma Forall_set_nth {A} (P : A -> Prop) j x l : Forall P l -> P x -> Forall P (set_nth j x l).
Proof.
  revert j; induction l; destruct j; simpl; intros H Hx; auto; inversion H; subst; constructor; auto.
Qed.

Lemma Forall_nth {A} (P : A -> Prop) j x l : Forall P l -> nth_error l j = Some x -> P x.
Proof. intros H Hn. rewrite Forall_forall in H. apply H. eapply nth_error_In; eauto. Qed.

Lemma sum_set_nth {A} (f : A -> nat) j x y l :
  nth_error l j = Some x -> sum f (set_nth j y l) + f x = sum f l + f y.
Proof.
  revert j; induction l; destruct j; simpl; intros H; try discriminate.
  - inversion H; subst. lia.
  - specialize (IHl _ H). lia.
Qed.

Lemma sum_mono {A} (f g : A -> nat) l : (forall x, f x <= g x) -> sum f l <= sum g l.
Proof. intros H; induction l; simpl; auto. specialize (H a). lia. Qed.

Lemma remove1_length j l l' : remove1 j l = Some l' -> length l = S (length l').
Proof.
  revert l'; induction l; simpl; intros l' H; try discriminate.
  destruct (Nat.eqb a j).
  - inversion H; subst; auto.
  - destruct (remove1 j l) eqn:E; try discriminate. inversion H; subst. simpl. f_equal. auto.
Qed.

(* ------------------------------------------------------------------ the exception paths of cancel() / run()
   Obligations on the lists regenerated from processes.py (Gen/GenCancel.v): the exception that
   the grace-period wait raises for a process that ignored SIGTERM is suppressed on the spot,
   so cancel() goes on to the force kill and never raises; the exception that communicate()
   raises at the time limit is caught and stored by run(). *)
Lemma grace_suppressed_true : grace_suppressed = true.
Proof. reflexivity. Qed.
Lemma timeout_caught_true : timeout_caught = true.
Proof. reflexivity. Qed.

Lemma survives_false jb : survives jb = false.
Proof. unfold survives. rewrite grace_suppressed_true. apply andb_false_r. Qed.
Lemma kill_raises_false jb : kill_raises jb = false.
Proof. unfold kill_raises. rewrite survives_false. destruct (proc jb); reflexivity. Qed.

(* hence cancel() is: a running process is dead afterwards, whether or not it ignores SIGTERM *)
Definition kill0 (jb : job) : job :=
  match proc jb with
  | PRun => mkJob (tmo jb) (stub jb) (spc jb) (wpc jb) PDead (exc jb) (out jb) (sets jb) (creq jb) (slock jb)
  | _ => jb
  end.
Lemma kill_unfold jb : kill jb = kill0 jb.
Proof. unfold kill, kill0. rewrite survives_false. reflexivity. Qed.
(* cancel() = record the request, then the escalation; the worker's finally block *)
Definition cancel0 (jb : job) : job := kill0 (set_creq jb).
Definition fin0 (jb : job) : job := match proc jb with PNone => jb | _ => cancel0 jb end.
Lemma cancel_unfold jb : cancel jb = cancel0 jb.
Proof. unfold cancel, cancel0. apply kill_unfold. Qed.
Lemma fin_unfold jb : fin jb = fin0 jb.
Proof. unfold fin, fin0. rewrite cancel_unfold. reflexivity. Qed.
(* run(): the ShutdownError of a job cancelled before its spawn is caught and stored *)
Lemma refusal_caught_true : refusal_caught = true.
Proof. reflexivity. Qed.

(* ------------------------------------------------------------------ inversion of step *)

(* the job a label acts on *)
Definition job_of (l : label) : option nat :=
  match l with
  | LSubCheck j | LSubAcquire j | LSubRecheck j | LSubUnlock j | LSubAppend j | LSubStart j
  | LSubRelease j | LSubWait j
  | LSpawnEnter j | LPopen j _ | LExit j | LCommRet j _ | LCommTimeout j | LCommExc j | LFinally j
  | LSetResult j | LSdCancel _ j => Some j
  | _ => None
  end.

(* the local effect of a label on the job it acts on *)
Definition job_trans (fl : bool) (l : label) (jb jb' : job) : Prop :=
  match l with
  | LSubCheck _ => spc jb = SCheck /\ jb' = set_spc jb (if fl then SRejected else SAcquire)
  | LSubAcquire _ => spc jb = SAcquire /\ jb' = set_spc jb SRecheck
  | LSubRecheck _ => spc jb = SRecheck /\ jb' = set_spc jb (if fl then SUnlock else SAppend)
  | LSubUnlock _ => spc jb = SUnlock /\ jb' = set_spc jb SRejected
  | LSubAppend _ => spc jb = SAppend /\ jb' = set_spc jb SStart
  | LSubStart _ => spc jb = SStart /\ wpc jb = WNew /\
                   jb' = set_w (set_spc jb SRelease) WStarted (proc jb) (exc jb) (out jb) (sets jb)
  | LSubRelease _ => spc jb = SRelease /\ jb' = set_spc jb SWait
  | LSubWait _ => spc jb = SWait /\ sets jb <> 0 /\ jb' = set_spc jb (SGot (low_level jb))
  | LSpawnEnter _ => wpc jb = WStarted /\
                     jb' = if creq jb then set_w jb WFinally (proc jb) (Some EOther) (out jb) (sets jb)
                           else set_slock (set_w jb WSpawn (proc jb) (exc jb) (out jb) (sets jb)) true
  | LPopen _ ok => wpc jb = WSpawn /\
                   jb' = set_slock (if ok then set_w jb WComm PRun (exc jb) (out jb) (sets jb)
                                    else set_w jb WFinally (proc jb) (Some EOther) (out jb) (sets jb)) false
  | LExit _ => proc jb = PRun /\ jb' = set_w jb (wpc jb) PDead (exc jb) (out jb) (sets jb)
  | LCommRet _ a => wpc jb = WComm /\ proc jb = PDead /\
                    jb' = set_w jb WFinally PDead (exc jb) (Some a) (sets jb)
  | LCommTimeout _ => wpc jb = WComm /\ tmo jb = true /\
                      jb' = set_w jb WFinally (proc jb) (Some ETimeout) (out jb) (sets jb)
  | LCommExc _ => wpc jb = WComm /\ jb' = set_w jb WFinally (proc jb) (Some EOther) (out jb) (sets jb)
  | LFinally _ => wpc jb = WFinally /\
                  jb' = set_w (fin0 jb) WSetRes (proc (fin0 jb)) (exc (fin0 jb)) (out (fin0 jb)) (sets (fin0 jb))
  | LSetResult _ => wpc jb = WSetRes /\ jb' = set_w jb WDone (proc jb) (exc jb) (out jb) (S (sets jb))
  | LSdCancel _ _ => slock jb = false /\ jb' = cancel0 jb
  | _ => False
  end.

Ltac step_inv :=
  repeat match goal with
  | H : kill_raises _ && _ = true |- _ => rewrite kill_raises_false in H; discriminate
  | H : context [match ?x with _ => _ end] |- _ =>
      match type of H with
      | _ = Some _ => idtac
      | _ = None => idtac
      end;
      destruct x eqn:?; try discriminate
  | H : Some _ = Some _ |- _ => inversion H; subst; clear H
  end.

Lemma step_jobs st l st' :
  step st l = Some st' ->
  match job_of l with
  | Some i => exists jb jb', nth_error (jobs st) i = Some jb /\
                jobs st' = set_nth i jb' (jobs st) /\ job_trans (flag st) l jb jb'
  | None => jobs st' = jobs st
  end.
Proof.
  destruct l; simpl; unfold on_job, on_sd; simpl; intros H; try discriminate.
  all: try (step_inv; simpl in *; rewrite ?kill_unfold, ?cancel_unfold, ?fin_unfold, ?timeout_caught_true, ?refusal_caught_true; eauto 10; fail).
  all: try (step_inv; simpl in *; rewrite ?kill_unfold, ?cancel_unfold, ?fin_unfold, ?timeout_caught_true, ?refusal_caught_true; do 2 eexists; split; [first [eassumption|reflexivity]|]; split; [reflexivity|]; auto; fail).
  all: try (step_inv; simpl in *; do 2 eexists; (split; [first [eassumption|reflexivity]|]); (split; [reflexivity|]); split; auto;
            rewrite Heqb; reflexivity).
  step_inv; simpl in *. do 2 eexists; split; [first [eassumption|reflexivity]|]; split; [reflexivity|].
  repeat split; auto. apply Nat.eqb_neq; auto.
Qed.

(* effect on the registry and on the shutdown callers *)
Definition sd_trans (st : state) (l : label) (s s' : sd) : Prop :=
  swait s' = swait s /\
  match l with
  | LSdSet _ => dpc s = DSet /\ dpc s' = DAcquire
  | LSdAcquire _ => dpc s = DAcquire /\ dpc s' = (if swait s then DSnap else DCancel (reg st))
  | LSdCancel _ j => exists pend pend', dpc s = DCancel pend /\ remove1 j pend = Some pend' /\ dpc s' = DCancel pend'
  | LSdSnap _ => dpc s = DSnap /\ dpc s' = DUnlock (reg st)
  | LSdRelease _ => exists pend, dpc s = DUnlock pend /\ dpc s' = DJoin pend
  | LSdJoin _ => exists j rest, dpc s = DJoin (j :: rest) /\ finished st j = true /\ dpc s' = DJoin rest
  | LSdReturn _ => (dpc s = DCancel [] \/ dpc s = DJoin []) /\ dpc s' = DDone
  | _ => False
  end.

Definition sd_of (l : label) : option nat :=
  match l with
  | LSdSet k | LSdAcquire k | LSdCancel k _ | LSdSnap k | LSdRelease k | LSdJoin k | LSdRaise k
  | LSdReturn k => Some k
  | _ => None
  end.

Lemma step_globals st l st' :
  step st l = Some st' ->
  reg st' = (match l with LSubAppend j => reg st ++ [j] | _ => reg st end) /\
  match sd_of l with
  | Some k => exists s s', nth_error (sds st) k = Some s /\ sds st' = set_nth k s' (sds st) /\ sd_trans st l s s'
  | None => sds st' = sds st
  end.
Proof.
  destruct l; simpl; unfold on_job, on_sd, sd_trans; simpl; intros H; try discriminate.
  all: try (step_inv; simpl in *; auto; fail).
  all: step_inv; simpl in *; (split; [reflexivity|]); do 2 eexists; (split; [reflexivity|]); (split; [reflexivity|]); simpl; repeat (split || eexists); eauto.
  all: try (rewrite Heqb; reflexivity).
  all: rewrite Heqb0; reflexivity.
Qed.

(* ------------------------------------------------------------------ per-job invariant *)

Definition started_spc (p : spc_t) : Prop := p = SRelease \/ p = SWait.
Definition res_ok (jb : job) : Prop :=
  (exc jb = None -> out jb <> None) /\ (exc jb <> None -> out jb = None).

Definition job_ok (jb : job) : Prop :=
  match wpc jb with
  | WNew => proc jb = PNone /\ exc jb = None /\ out jb = None /\ sets jb = 0 /\
            (forall v, spc jb <> SGot v) /\ spc jb <> SRelease /\ spc jb <> SWait
  | WStarted => proc jb = PNone /\ exc jb = None /\ out jb = None /\ sets jb = 0 /\ started_spc (spc jb)
  | WSpawn => proc jb = PNone /\ exc jb = None /\ out jb = None /\ sets jb = 0 /\ started_spc (spc jb)
  | WComm => proc jb <> PNone /\ exc jb = None /\ out jb = None /\ sets jb = 0 /\ started_spc (spc jb)
  | WFinally => sets jb = 0 /\ started_spc (spc jb) /\ res_ok jb
  | WSetRes => proc jb <> PRun /\ sets jb = 0 /\ started_spc (spc jb) /\ res_ok jb
  | WDone => proc jb <> PRun /\ sets jb = 1 /\
             (started_spc (spc jb) \/ spc jb = SGot (low_level jb)) /\ res_ok jb
  | WDead => False      (* unreachable: cancel() never raises (kill_raises_false) *)
  end.

Lemma job_trans_ok fl l jb jb' : job_ok jb -> job_trans fl l jb jb' -> job_ok jb'.
Proof.
  unfold job_ok, started_spc, res_ok, fin0, cancel0, kill0, set_creq, set_slock, low_level.
  destruct jb as [t sb s w p e o n cr sl]; destruct l; simpl; intros Hok Ht; try contradiction.
  all: try (destruct ok); try (destruct cr); unfold set_slock in *; simpl in *.
  all: repeat match goal with H : _ /\ _ |- _ => destruct H end; subst; simpl in *.
  all: try (destruct fl); try (destruct w; simpl in *; try discriminate);
       try (destruct p; simpl in *; try discriminate).
  all: intuition (try congruence; try discriminate).
Qed.

(* the spawn protocol: the spawn lock is held exactly between LSpawnEnter and LPopen; once a cancel
   has been requested the process does not run and the worker is not about to spawn it *)
Definition job_ok2 (jb : job) : Prop :=
  slock jb = (match wpc jb with WSpawn => true | _ => false end) /\
  (creq jb = true -> proc jb <> PRun /\ wpc jb <> WSpawn).

Lemma job_trans_ok2 fl l jb jb' : job_ok jb -> job_ok2 jb -> job_trans fl l jb jb' -> job_ok2 jb'.
Proof.
  unfold job_ok, job_ok2, fin0, cancel0, kill0, set_creq, set_slock.
  destruct jb as [t sb s w p e o n cr sl]; destruct l; simpl; intros Hok Hok2 Ht; try contradiction.
  all: try (destruct ok); try (destruct cr); simpl in *.
  all: repeat match goal with H : _ /\ _ |- _ => destruct H end; subst; simpl in *.
  all: try (destruct fl); try (destruct w; simpl in *; try discriminate);
       try (destruct p; simpl in *; try discriminate).
  all: intuition (try congruence; try discriminate).
Qed.

Lemma init_jobs_ok2 cfgs : Forall job_ok2 (map init_job cfgs).
Proof.
  induction cfgs; simpl; constructor; auto.
  unfold job_ok2; simpl. split; auto. discriminate.
Qed.

Lemma step_ok2 st l st' :
  Forall job_ok (jobs st) -> Forall job_ok2 (jobs st) -> step st l = Some st' -> Forall job_ok2 (jobs st').
Proof.
  intros Hok Hok2 H. apply step_jobs in H. destruct (job_of l).
  - destruct H as (jb & jb' & Hn & Hj & Ht). rewrite Hj. apply Forall_set_nth; auto.
    eapply job_trans_ok2; eauto; eapply Forall_nth; eauto.
  - rewrite H; auto.
Qed.

Lemma init_jobs_ok cfgs : Forall job_ok (map init_job cfgs).
Proof.
  induction cfgs; simpl; constructor; auto.
  unfold job_ok; simpl. repeat split; auto; congruence.
Qed.

Lemma step_ok st l st' : Forall job_ok (jobs st) -> step st l = Some st' -> Forall job_ok (jobs st').
Proof.
  intros Hok H. apply step_jobs in H. destruct (job_of l).
  - destruct H as (jb & jb' & Hn & Hj & Ht). rewrite Hj. apply Forall_set_nth; auto.
    eapply job_trans_ok; eauto. eapply Forall_nth; eauto.
  - rewrite H; auto.
Qed.

Lemma run_ok sched : forall st st', Forall job_ok (jobs st) -> run st sched = Some st' -> Forall job_ok (jobs st').
Proof.
  induction sched; simpl; intros st st' Hok H.
  - inversion H; subst; auto.
  - destruct (step st a) eqn:E; try discriminate. eapply IHsched; [|eauto]. eapply step_ok; eauto.
Qed.

Lemma run_app a : forall st b, run st (a ++ b) = match run st a with Some s => run s b | None => None end.
Proof. induction a; simpl; intros; auto. destruct (step st a); auto. Qed.

(* ------------------------------------------------------------------ delivered at most once *)

Definition sets_of (st : state) (j : nat) : nat :=
  match nth_error (jobs st) j with Some jb => sets jb | None => 0 end.

Lemma deliveries_cons j l r : deliveries j (l :: r) = deliveries j [l] + deliveries j r.
Proof. destruct l; simpl; lia. Qed.

Lemma job_trans_sets fl l jb jb' i :
  job_of l = Some i -> job_trans fl l jb jb' -> sets jb' = sets jb + deliveries i [l].
Proof.
  destruct jb as [t sb s w p e o n cr sl]; unfold fin0, cancel0, kill0, set_creq, set_slock; destruct l; simpl; intros Hi Ht; try discriminate;
    inversion Hi; subst;
    repeat match goal with H : _ /\ _ |- _ => destruct H end; subst; simpl in *; try lia.
  all: try (destruct ok); try (destruct cr); try (destruct p); simpl; try rewrite Nat.eqb_refl; try lia.
Qed.

Lemma deliveries_other l i j : job_of l = Some i -> i <> j -> deliveries j [l] = 0.
Proof.
  destruct l; simpl; intros H Hn; auto. inversion H; subst.
  destruct (Nat.eqb_spec i j); try congruence; auto.
Qed.

Lemma deliveries_nojob l j : job_of l = None -> deliveries j [l] = 0.
Proof. destruct l; simpl; intros; auto; discriminate. Qed.

Lemma step_sets st l st' j : step st l = Some st' -> sets_of st' j = sets_of st j + deliveries j [l].
Proof.
  intros H. apply step_jobs in H. unfold sets_of. destruct (job_of l) eqn:Ej.
  - destruct H as (jb & jb' & Hn & Hj & Ht). rewrite Hj, (nth_set_nth _ _ _ _ _ Hn).
    destruct (Nat.eqb_spec j n).
    + subst. rewrite Hn. eapply job_trans_sets; eauto.
    + rewrite (deliveries_other _ _ _ Ej) by congruence. lia.
  - rewrite H, deliveries_nojob; auto.
Qed.

Lemma run_sets sched : forall st st' j, run st sched = Some st' -> sets_of st' j = sets_of st j + deliveries j sched.
Proof.
  induction sched; intros st st' j H; simpl in H.
  - inversion H; subst. simpl. lia.
  - destruct (step st a) eqn:E; try discriminate.
    rewrite deliveries_cons, (IHsched _ _ _ H), (step_sets _ _ _ j E). lia.
Qed.

Lemma job_ok_sets jb : job_ok jb -> sets jb <= 1.
Proof. unfold job_ok; destruct (wpc jb); intuition lia. Qed.

Lemma init_sets cfgs waits j : sets_of (init cfgs waits) j = 0.
Proof.
  unfold sets_of, init; simpl. destruct (nth_error (map init_job cfgs) j) eqn:E; auto.
  apply nth_error_In in E. apply in_map_iff in E. destruct E as (x & Hx & _). subst; auto.
Qed.

Lemma at_most_once cfgs waits sched st j :
  run (init cfgs waits) sched = Some st -> deliveries j sched <= 1.
Proof.
  intros H. pose proof (run_sets _ _ _ j H) as Hs. rewrite init_sets in Hs.
  assert (Hok : Forall job_ok (jobs st)) by (eapply run_ok; [|eauto]; apply init_jobs_ok).
  unfold sets_of in Hs. destruct (nth_error (jobs st) j) eqn:E; [|lia].
  pose proof (job_ok_sets _ (Forall_nth _ _ _ _ Hok E)). lia.
Qed.

Lemma sets_at_most_once cfgs waits sched st j jb :
  run (init cfgs waits) sched = Some st -> nth_error (jobs st) j = Some jb -> sets jb <= 1.
Proof.
  intros H E. apply job_ok_sets. eapply Forall_nth; [|eauto]. eapply run_ok; [|eauto]. apply init_jobs_ok.
Qed.

(* ------------------------------------------------------------------ timeout => unknown *)

Definition tmo_inv (jb : job) : Prop :=
  exc jb = Some ETimeout /\ (wpc jb = WFinally \/ wpc jb = WSetRes \/ wpc jb = WDone).

Lemma job_trans_tmo fl l jb jb' : tmo_inv jb -> job_trans fl l jb jb' -> tmo_inv jb'.
Proof.
  unfold tmo_inv, fin0, cancel0, kill0, set_creq, set_slock. destruct jb as [t sb s w p e o n cr sl]; destruct l; simpl; intros Hi Ht; try contradiction.
  all: try (destruct ok); try (destruct cr); unfold set_slock in *; simpl in *.
  all: repeat match goal with H : _ /\ _ |- _ => destruct H end; subst; simpl in *.
  all: try (destruct p; simpl); intuition (try congruence; try discriminate).
Qed.

Definition tmo_at (st : state) (j : nat) : Prop :=
  exists jb, nth_error (jobs st) j = Some jb /\ tmo_inv jb.

Lemma step_tmo st l st' j : tmo_at st j -> step st l = Some st' -> tmo_at st' j.
Proof.
  intros (jb & Hn & Hi) H. apply step_jobs in H. unfold tmo_at. destruct (job_of l).
  - destruct H as (jb0 & jb' & Hn0 & Hj & Ht). rewrite Hj, (nth_set_nth _ _ _ _ _ Hn0).
    destruct (Nat.eqb_spec j n).
    + subst. rewrite Hn in Hn0; inversion Hn0; subst. eexists; split; eauto. eapply job_trans_tmo; eauto.
    + eauto.
  - rewrite H; eauto.
Qed.

Lemma run_tmo sched : forall st st' j, tmo_at st j -> run st sched = Some st' -> tmo_at st' j.
Proof.
  induction sched; simpl; intros st st' j Hi H.
  - inversion H; subst; auto.
  - destruct (step st a) eqn:E; try discriminate. eapply IHsched; [|eauto]. eapply step_tmo; eauto.
Qed.

Lemma step_timeout_tmo st st' j : step st (LCommTimeout j) = Some st' -> tmo_at st' j.
Proof.
  intros H. apply step_jobs in H. simpl in H. destruct H as (jb & jb' & Hn & Hj & Hw & Ht & He).
  exists jb'. rewrite Hj. split.
  - apply nth_set_nth_eq. apply nth_error_Some. congruence.
  - subst. unfold tmo_inv; simpl; auto.
Qed.

Lemma timeout_unknown cfgs waits sched st j jb :
  run (init cfgs waits) sched = Some st -> In (LCommTimeout j) sched ->
  nth_error (jobs st) j = Some jb ->
  exc jb = Some ETimeout /\ forall v, spc jb = SGot v -> v = gen_timeout_verdict.
Proof.
  intros H Hin Hn. apply in_split in Hin. destruct Hin as (pre & post & ->).
  rewrite run_app in H. destruct (run (init cfgs waits) pre) eqn:E1; try discriminate.
  cbn [run] in H. destruct (step s (LCommTimeout j)) eqn:E2; try discriminate.
  pose proof (run_tmo _ _ _ _ (step_timeout_tmo _ _ _ E2) H) as (jb0 & Hn0 & He & Hw).
  rewrite Hn in Hn0; inversion Hn0; subst jb0. split; auto.
  intros v Hv.
  assert (Hok : job_ok jb).
  { eapply Forall_nth; [|eauto]. eapply run_ok; [|eauto]. eapply step_ok; [|eauto].
    eapply run_ok; [|eauto]. apply init_jobs_ok. }
  unfold job_ok, started_spc in Hok. rewrite Hv in Hok.
  destruct (wpc jb); try (intuition (try congruence; try discriminate); fail).
  destruct Hok as (_ & _ & [[Hc|Hc]|Hc] & _); try discriminate.
  inversion Hc. unfold low_level. rewrite He. reflexivity.
Qed.

(* ------------------------------------------------------------------ termination: every step decreases [rank] *)

Definition is_cancel (l : label) : bool := match l with LSdCancel _ _ => true | _ => false end.

Lemma job_trans_rank fl l jb jb' :
  job_trans fl l jb jb' ->
  if is_cancel l then rank_job jb' <= rank_job jb /\ pre_append jb' = pre_append jb
  else rank_job jb' < rank_job jb /\
       match l with
       | LSubAppend _ => pre_append jb = 1 /\ pre_append jb' = 0
       | _ => pre_append jb' <= pre_append jb
       end.
Proof.
  unfold rank_job, pre_append, fin0, cancel0, kill0, set_creq, set_slock.
  destruct jb as [t sb s w p e o n cr sl]; destruct l; simpl; intros Ht; try contradiction.
  all: try (destruct ok); try (destruct cr); unfold set_slock in *; simpl in *.
  all: repeat match goal with H : _ /\ _ |- _ => destruct H end; subst; simpl in *.
  all: try (destruct fl); try (destruct p; simpl in *); try (destruct s; simpl in *); try (destruct w; simpl in *); try lia.
Qed.

Lemma rank_sd_mono a b s : a <= b -> rank_sd a s <= rank_sd b s.
Proof. unfold rank_sd; destruct (dpc s); lia. Qed.

Lemma sum_rank_sd_mono a b l : a <= b -> sum (rank_sd a) l <= sum (rank_sd b) l.
Proof. intros; apply sum_mono; intros; apply rank_sd_mono; auto. Qed.

Lemma sd_trans_rank st l s s' : sd_trans st l s s' -> rank_sd (phi st) s' < rank_sd (phi st) s.
Proof.
  unfold sd_trans, rank_sd, phi. intros (_ & Ht). destruct l; try contradiction.
  - destruct Ht as (-> & ->). lia.
  - destruct Ht as (-> & ->). destruct (swait s); simpl; lia.
  - destruct Ht as (pend & pend' & -> & Hr & ->). apply remove1_length in Hr. lia.
  - destruct Ht as (-> & ->). lia.
  - destruct Ht as (pend & -> & ->). lia.
  - destruct Ht as (j & rest & -> & _ & ->). simpl. lia.
  - destruct Ht as ([-> | ->] & ->); simpl; lia.
Qed.

Lemma job_sd_disjoint l : match job_of l, sd_of l with
                          | Some _, Some _ => is_cancel l = true
                          | None, None => False
                          | Some _, None => is_cancel l = false
                          | None, Some _ => is_cancel l = false
                          end.
Proof. destruct l; simpl; auto. Qed.

Lemma length_app1 {A} (l : list A) x : length (l ++ [x]) = S (length l).
Proof. rewrite app_length; simpl; lia. Qed.

Lemma step_rank st l st' : step st l = Some st' -> rank st' < rank st.
Proof.
  intros H. pose proof (step_jobs _ _ _ H) as Hj. pose proof (step_globals _ _ _ H) as (Hr & Hs).
  pose proof (job_sd_disjoint l) as Hd.
  unfold rank.
  destruct (job_of l) as [i|] eqn:Ej; destruct (sd_of l) as [k|] eqn:Ek; try contradiction.
  - (* cancel: job i killed, sd k advances *)
    destruct Hj as (jb & jb' & Hn & Hjs & Ht). destruct Hs as (s & s' & Hsn & Hss & Hst).
    apply job_trans_rank in Ht. rewrite Hd in Ht. destruct Ht as (Hrk & Hpre).
    assert (Hphi : phi st' = phi st).
    { unfold phi. rewrite Hjs. pose proof (sum_set_nth pre_append _ _ jb' _ Hn).
      assert (reg st' = reg st) by (destruct l; try discriminate; auto). rewrite H1. lia. }
    rewrite Hphi, Hjs, Hss.
    pose proof (sum_set_nth rank_job _ _ jb' _ Hn).
    pose proof (sum_set_nth (rank_sd (phi st)) _ _ s' _ Hsn).
    pose proof (sd_trans_rank _ _ _ _ Hst). lia.
  - (* a job label *)
    destruct Hj as (jb & jb' & Hn & Hjs & Ht).
    apply job_trans_rank in Ht. rewrite Hd in Ht. destruct Ht as (Hrk & Hpre).
    assert (Hphi : phi st' <= phi st).
    { unfold phi. rewrite Hjs, Hr. pose proof (sum_set_nth pre_append _ _ jb' _ Hn).
      destruct l; try rewrite length_app1; try lia. }
    rewrite Hjs, Hs.
    pose proof (sum_set_nth rank_job _ _ jb' _ Hn).
    pose proof (sum_rank_sd_mono _ _ (sds st) Hphi). lia.
  - (* a shutdown label other than cancel *)
    destruct Hs as (s & s' & Hsn & Hss & Hst).
    assert (Hphi : phi st' = phi st).
    { unfold phi. rewrite Hj. assert (reg st' = reg st) by (destruct l; try discriminate; auto). rewrite H0. lia. }
    rewrite Hphi, Hj, Hss.
    pose proof (sum_set_nth (rank_sd (phi st)) _ _ s' _ Hsn).
    pose proof (sd_trans_rank _ _ _ _ Hst). lia.
Qed.

Lemma run_rank sched : forall st st', run st sched = Some st' -> length sched + rank st' <= rank st.
Proof.
  induction sched; simpl; intros st st' H.
  - inversion H; subst; lia.
  - destruct (step st a) eqn:E; try discriminate.
    apply IHsched in H. apply step_rank in E. lia.
Qed.

Lemma sum_const {A} (f : A -> nat) c l : (forall x, In x l -> f x = c) -> sum f l = c * length l.
Proof.
  induction l; simpl; intros H; [lia|]. rewrite H, IHl; auto. lia.
Qed.

Lemma rank_init cfgs waits :
  rank (init cfgs waits) = 19 * length cfgs + (6 + length cfgs) * length waits.
Proof.
  unfold rank, phi, init; simpl.
  rewrite (sum_const rank_job 19), (sum_const pre_append 1), !map_length.
  - rewrite (sum_const _ (6 + 1 * length cfgs)), map_length; [lia|].
    intros x Hx. apply in_map_iff in Hx. destruct Hx as (w & <- & _). reflexivity.
  - intros x Hx. apply in_map_iff in Hx. destruct Hx as (w & <- & _). reflexivity.
  - intros x Hx. apply in_map_iff in Hx. destruct Hx as (w & <- & _). reflexivity.
Qed.

Lemma schedules_bounded cfgs waits sched st :
  run (init cfgs waits) sched = Some st ->
  length sched <= 19 * length cfgs + (6 + length cfgs) * length waits.
Proof. intros H. apply run_rank in H. rewrite rank_init in H. lia. Qed.

(* ------------------------------------------------------------------ observables used in the statements *)

Definition running (st : state) (j : nat) : bool :=
  match nth_error (jobs st) j with
  | Some jb => match proc jb with PRun => true | _ => false end
  | None => false
  end.
Definition returned (st : state) (k : nat) : bool :=
  match nth_error (sds st) k with
  | Some s => match dpc s with DDone => true | _ => false end
  | None => false
  end.

(* ------------------------------------------------------------------ global invariant, deadlock-freedom *)

Definition holding (p : spc_t) : bool :=
  match p with SRecheck | SAppend | SStart | SRelease | SUnlock => true | _ => false end.
Definition post_append (p : spc_t) : bool :=
  match p with SStart | SRelease | SWait | SGot _ => true | _ => false end.
(* shutdown caller holds the lock *)
Definition sd_holding (d : dpc_t) : bool :=
  match d with DCancel _ | DSnap | DUnlock _ => true | _ => false end.
Definition pend_of (d : dpc_t) : list nat :=
  match d with DCancel l | DUnlock l | DJoin l => l | _ => [] end.

Definition registered (st : state) (j : nat) : Prop :=
  exists jb, nth_error (jobs st) j = Some jb /\ post_append (spc jb) = true.

Record ginv (st : state) : Prop := {
  g_jobs : Forall job_ok (jobs st);
  g_jobs2 : Forall job_ok2 (jobs st);
  g_hold : forall i jb, nth_error (jobs st) i = Some jb -> holding (spc jb) = true -> lock st = Some (OSub i);
  g_sub  : forall i, lock st = Some (OSub i) -> exists jb, nth_error (jobs st) i = Some jb /\ holding (spc jb) = true;
  g_canc : forall k s, nth_error (sds st) k = Some s -> sd_holding (dpc s) = true -> lock st = Some (OSd k);
  g_sd   : forall k, lock st = Some (OSd k) -> exists s, nth_error (sds st) k = Some s /\ sd_holding (dpc s) = true;
  g_reg  : forall j, In j (reg st) -> registered st j;
  g_pend : forall k s, nth_error (sds st) k = Some s -> forall j, In j (pend_of (dpc s)) -> registered st j
}.

Lemma step_lock st l st' :
  step st l = Some st' ->
  match l with
  | LSubAcquire j => lock st = None /\ lock st' = Some (OSub j)
  | LSubRelease _ | LSubUnlock _ | LSdRelease _ => lock st' = None
  | LSdAcquire k => lock st = None /\ lock st' = Some (OSd k)
  | LSdReturn k => exists s, nth_error (sds st) k = Some s /\
                     ((dpc s = DCancel [] /\ lock st' = None) \/ (dpc s = DJoin [] /\ lock st' = lock st))
  | _ => lock st' = lock st
  end.
Proof.
  destruct l; simpl; unfold on_job, on_sd; simpl; intros H; try discriminate.
  all: step_inv; simpl in *; auto.
  all: try (destruct (lock st); simpl in *; [discriminate | auto]; fail).
  all: eexists; split; [reflexivity|]; auto.
Qed.

Lemma job_trans_spc fl l jb jb' :
  job_trans fl l jb jb' ->
  (post_append (spc jb) = true -> post_append (spc jb') = true) /\
  holding (spc jb') = (match l with LSubAcquire _ => true | LSubRelease _ | LSubUnlock _ => false | _ => holding (spc jb) end) /\
  (match l with
   | LSubAcquire _ => holding (spc jb) = false
   | LSubRelease _ | LSubUnlock _ => holding (spc jb) = true
   | LSubAppend _ => post_append (spc jb') = true
   | _ => True end).
Proof.
  unfold fin0, cancel0, kill0, set_creq, set_slock. destruct jb as [t sb s w p e o n cr sl]; destruct l; simpl; intros Ht; try contradiction.
  all: try (destruct ok); try (destruct cr); unfold set_slock in *; simpl in *.
  all: repeat match goal with H : _ /\ _ |- _ => destruct H end; subst; simpl in *.
  all: try (destruct fl); try (destruct p; simpl in *); auto.
  all: destruct s; simpl in *; auto.
Qed.

Lemma sd_trans_hold st l s s' :
  sd_trans st l s s' ->
  sd_holding (dpc s') = (match l with LSdAcquire _ => true | LSdRelease _ | LSdReturn _ => false | _ => sd_holding (dpc s) end) /\
  (match l with
   | LSdAcquire _ => sd_holding (dpc s) = false
   | LSdRelease _ => sd_holding (dpc s) = true
   | _ => True end).
Proof.
  unfold sd_trans. intros (_ & Ht). destruct l; try contradiction.
  all: repeat match goal with
              | H : _ /\ _ |- _ => destruct H
              | H : exists _, _ |- _ => destruct H
              | H : _ \/ _ |- _ => destruct H
              end.
  all: repeat match goal with H : dpc _ = _ |- _ => rewrite H; clear H end; simpl; auto.
  destruct (swait s); auto.
Qed.

Lemma remove1_In j l l' x : remove1 j l = Some l' -> In x l' -> In x l.
Proof.
  revert l'; induction l; simpl; intros l' H Hin; try discriminate.
  destruct (Nat.eqb a j).
  - inversion H; subst; auto.
  - destruct (remove1 j l) eqn:E; try discriminate. inversion H; subst.
    destruct Hin as [Hx|Hin]; [left; auto | right; eapply IHl; eauto].
Qed.

Lemma remove1_other j0 j l l' : remove1 j0 l = Some l' -> In j l -> j <> j0 -> In j l'.
Proof.
  revert l'; induction l; simpl; intros l' H Hin Hne; try contradiction.
  destruct (Nat.eqb_spec a j0).
  - inversion H; subst. destruct Hin; auto. congruence.
  - destruct (remove1 j0 l) eqn:E; try discriminate. inversion H; subst.
    destruct Hin as [->|Hin]; [left; auto | right; eauto].
Qed.

Lemma sd_trans_pend st l s s' j :
  sd_trans st l s s' -> In j (pend_of (dpc s')) -> In j (pend_of (dpc s)) \/ In j (reg st).
Proof.
  unfold sd_trans. intros (_ & Ht) Hin. destruct l; try contradiction.
  all: repeat match goal with
              | H : _ /\ _ |- _ => destruct H
              | H : exists _, _ |- _ => destruct H
              end.
  all: repeat match goal with H : dpc _ = _ |- _ => rewrite H in *; clear H end; simpl in *; auto.
  - destruct (swait s); simpl in *; auto.
  - left. eapply remove1_In; eauto.
  - destruct H as [H|H]; rewrite H; simpl; auto.
Qed.

Lemma registered_step st l st' j : step st l = Some st' -> registered st j -> registered st' j.
Proof.
  intros H (jb & Hn & Hp). apply step_jobs in H. unfold registered. destruct (job_of l).
  - destruct H as (jb0 & jb' & Hn0 & Hj & Ht). rewrite Hj, (nth_set_nth _ _ _ _ _ Hn0).
    destruct (Nat.eqb_spec j n); eauto.
    subst. rewrite Hn in Hn0; inversion Hn0; subst. eexists; split; eauto.
    apply (job_trans_spc _ _ _ _ Ht); auto.
  - rewrite H; eauto.
Qed.

Lemma init_ginv cfgs waits : ginv (init cfgs waits).
Proof.
  constructor; simpl.
  - apply init_jobs_ok.
  - apply init_jobs_ok2.
  - intros i jb Hn Hh. apply nth_error_In, in_map_iff in Hn. destruct Hn as (x & <- & _). discriminate.
  - discriminate.
  - intros k s Hn Hd. apply nth_error_In, in_map_iff in Hn. destruct Hn as (x & <- & _). discriminate.
  - discriminate.
  - contradiction.
  - intros k s Hn j Hd. apply nth_error_In, in_map_iff in Hn. destruct Hn as (x & <- & _). destruct Hd.
Qed.

(* the sd entry k after the step, in terms of the one before *)
Lemma step_sd_at st l st' k s' :
  step st l = Some st' -> nth_error (sds st') k = Some s' ->
  (nth_error (sds st) k = Some s' /\ sd_of l <> Some k) \/
  (sd_of l = Some k /\ exists s, nth_error (sds st) k = Some s /\ sd_trans st l s s').
Proof.
  intros H Hn. apply step_globals in H. destruct H as (_ & H). destruct (sd_of l) as [k0|].
  - destruct H as (s & s0 & Hs & Hss & Ht). rewrite Hss, (nth_set_nth _ _ _ _ _ Hs) in Hn.
    destruct (Nat.eqb_spec k k0).
    + subst. inversion Hn; subst. right. split; auto. eauto.
    + left. split; auto. congruence.
  - rewrite H in Hn. left. split; auto. discriminate.
Qed.

Lemma step_job_at st l st' i jb' :
  step st l = Some st' -> nth_error (jobs st') i = Some jb' ->
  (nth_error (jobs st) i = Some jb' /\ job_of l <> Some i) \/
  (job_of l = Some i /\ exists jb, nth_error (jobs st) i = Some jb /\ job_trans (flag st) l jb jb').
Proof.
  intros H Hn. apply step_jobs in H. destruct (job_of l) as [i0|].
  - destruct H as (jb & jb0 & Hs & Hss & Ht). rewrite Hss, (nth_set_nth _ _ _ _ _ Hs) in Hn.
    destruct (Nat.eqb_spec i i0).
    + subst. inversion Hn; subst. right. split; auto. eauto.
    + left. split; auto. congruence.
  - rewrite H in Hn. left. split; auto. discriminate.
Qed.

(* forward versions: the entry after the step, given the entry before *)
Lemma step_job_fwd st l st' i jb :
  step st l = Some st' -> nth_error (jobs st) i = Some jb ->
  (nth_error (jobs st') i = Some jb /\ job_of l <> Some i) \/
  (job_of l = Some i /\ exists jb', nth_error (jobs st') i = Some jb' /\ job_trans (flag st) l jb jb').
Proof.
  intros H Hn. apply step_jobs in H. destruct (job_of l) as [i0|].
  - destruct H as (jb0 & jb1 & Hs & Hss & Ht). rewrite Hss, (nth_set_nth _ _ _ _ _ Hs).
    destruct (Nat.eqb_spec i i0).
    + subst. rewrite Hn in Hs; inversion Hs; subst. right. split; auto. eauto.
    + left. split; auto. congruence.
  - rewrite H. left. split; auto. discriminate.
Qed.

Lemma step_sd_fwd st l st' k s :
  step st l = Some st' -> nth_error (sds st) k = Some s ->
  (nth_error (sds st') k = Some s /\ sd_of l <> Some k) \/
  (sd_of l = Some k /\ exists s', nth_error (sds st') k = Some s' /\ sd_trans st l s s').
Proof.
  intros H Hn. apply step_globals in H. destruct H as (_ & H). destruct (sd_of l) as [k0|].
  - destruct H as (s0 & s1 & Hs & Hss & Ht). rewrite Hss, (nth_set_nth _ _ _ _ _ Hs).
    destruct (Nat.eqb_spec k k0).
    + subst. rewrite Hn in Hs; inversion Hs; subst. right. split; auto. eauto.
    + left. split; auto. congruence.
  - rewrite H. left. split; auto. discriminate.
Qed.

(* who changes the lock: only its owner releases it *)
Definition lock_step (st : state) (l : label) (st' : state) : Prop :=
  match l with
  | LSubAcquire j => lock st = None /\ lock st' = Some (OSub j)
  | LSdAcquire k => lock st = None /\ lock st' = Some (OSd k)
  | LSubRelease j | LSubUnlock j => lock st = Some (OSub j) /\ lock st' = None
  | LSdRelease k => lock st = Some (OSd k) /\ lock st' = None
  | LSdReturn k => (lock st = Some (OSd k) /\ lock st' = None) \/
                   (lock st' = lock st /\ lock st <> Some (OSd k))
  | _ => lock st' = lock st
  end.

Lemma step_lock_owner st l st' : ginv st -> step st l = Some st' -> lock_step st l st'.
Proof.
  intros G H. pose proof (step_lock _ _ _ H) as HL.
  pose proof (step_jobs _ _ _ H) as HJ. pose proof (step_globals _ _ _ H) as (_ & HG).
  destruct l; simpl in *; auto.
  - (* unlock *) destruct HJ as (jb & jb' & Hn & _ & Hs & _). split; auto.
    eapply g_hold; eauto. rewrite Hs; reflexivity.
  - (* release *) destruct HJ as (jb & jb' & Hn & _ & Hs & _). split; auto.
    eapply g_hold; eauto. rewrite Hs; reflexivity.
  - (* sd release *) destruct HG as (s & s' & Hn & _ & _ & pl & Hd & _). split; auto.
    eapply g_canc; eauto. rewrite Hd; reflexivity.
  - (* return *) destruct HL as (s & Hn & [(Hd & Hl) | (Hd & Hl)]).
    + left. split; auto. eapply g_canc; eauto. rewrite Hd; reflexivity.
    + right. split; auto. intros Hk. destruct (g_sd _ G _ Hk) as (s0 & Hn0 & Hh).
      rewrite Hn in Hn0; inversion Hn0; subst. rewrite Hd in Hh. discriminate.
Qed.

Lemma step_ginv st l st' : ginv st -> step st l = Some st' -> ginv st'.
Proof.
  intros G H.
  pose proof (step_lock_owner _ _ _ G H) as HL.
  pose proof (step_globals _ _ _ H) as (HR & _).
  constructor.
  - eapply step_ok; eauto. apply G.
  - eapply step_ok2; eauto; apply G.
  - (* g_hold *)
    intros i jb' Hn Hh. destruct (step_job_at _ _ _ _ _ H Hn) as [(Ho & Hne) | (Hje & jb & Ho & Ht)].
    + pose proof (g_hold _ G _ _ Ho Hh) as Hl.
      destruct l; simpl in HL, Hne; intuition congruence.
    + destruct (job_trans_spc _ _ _ _ Ht) as (_ & Hh' & Hx).
      destruct l; simpl in *; try discriminate; inversion Hje; subst;
        try (rewrite Hh' in Hh; try discriminate; rewrite HL; eapply g_hold; eauto; fail).
      destruct HL; auto.
  - (* g_sub *)
    intros i Hl.
    assert (Hcase : l = LSubAcquire i \/ (lock st = Some (OSub i) /\ lock st' = lock st)).
    { destruct l; simpl in HL; try (right; intuition congruence; fail).
      left. f_equal. intuition congruence. }
    destruct Hcase as [-> | (Hl0 & Hsame)].
    + pose proof (step_jobs _ _ _ H) as Hj. simpl in Hj. destruct Hj as (jb0 & jb1 & Hn0 & Hjs & Hs & ->).
      rewrite Hjs, nth_set_nth_eq; [|apply nth_error_Some; congruence]. eexists; split; eauto.
    + destruct (g_sub _ G _ Hl0) as (jb & Hn & Hh).
      destruct (step_job_fwd _ _ _ _ _ H Hn) as [(Hn' & _) | (Hje & jb' & Hn' & Ht)]; eauto.
      eexists; split; eauto. destruct (job_trans_spc _ _ _ _ Ht) as (_ & Hh' & _). rewrite Hh'.
      destruct l; simpl in *; try discriminate; auto; inversion Hje; subst; intuition congruence.
  - (* g_canc *)
    intros k s' Hn Hh. destruct (step_sd_at _ _ _ _ _ H Hn) as [(Ho & Hne) | (Hke & s & Ho & Ht)].
    + pose proof (g_canc _ G _ _ Ho Hh) as Hl.
      destruct l; simpl in HL, Hne; intuition congruence.
    + destruct (sd_trans_hold _ _ _ _ Ht) as (Hh' & Hx).
      destruct l; simpl in *; try discriminate; inversion Hke; subst;
        try (rewrite Hh' in Hh; try discriminate; rewrite HL; eapply g_canc; eauto; fail).
      destruct HL; auto.
  - (* g_sd *)
    intros k Hl.
    assert (Hcase : l = LSdAcquire k \/ (lock st = Some (OSd k) /\ lock st' = lock st)).
    { destruct l; simpl in HL; try (right; intuition congruence; fail).
      left. f_equal. intuition congruence. }
    destruct Hcase as [-> | (Hl0 & Hsame)].
    + pose proof (step_globals _ _ _ H) as (_ & Hs). simpl in Hs.
      destruct Hs as (s0 & s1 & Hn0 & Hss & Ht).
      rewrite Hss, nth_set_nth_eq; [|apply nth_error_Some; congruence]. eexists; split; eauto.
      apply (sd_trans_hold _ _ _ _ Ht).
    + destruct (g_sd _ G _ Hl0) as (s & Hn & Hh).
      destruct (step_sd_fwd _ _ _ _ _ H Hn) as [(Hn' & _) | (Hke & s' & Hn' & Ht)]; eauto.
      eexists; split; eauto. destruct (sd_trans_hold _ _ _ _ Ht) as (Hh' & _). rewrite Hh'.
      destruct l; simpl in *; try discriminate; auto; inversion Hke; subst; intuition congruence.
  - (* g_reg *)
    intros j Hin. rewrite HR in Hin.
    assert (Hold : In j (reg st) \/ l = LSubAppend j).
    { destruct l; auto. apply in_app_or in Hin. destruct Hin as [|[->|[]]]; auto. }
    destruct Hold as [Hold | ->].
    + eapply registered_step; eauto. eapply g_reg; eauto.
    + pose proof (step_jobs _ _ _ H) as Hj. simpl in Hj. destruct Hj as (jb0 & jb1 & Hn0 & Hjs & Hs & ->).
      exists (set_spc jb0 SStart). split; [|reflexivity].
      rewrite Hjs, nth_set_nth_eq; auto. apply nth_error_Some; congruence.
  - (* g_pend *)
    intros k s' Hn j Hin. eapply registered_step; eauto.
    destruct (step_sd_at _ _ _ _ _ H Hn) as [(Ho & Hne) | (Hke & s & Ho & Ht)].
    + eapply g_pend; eauto.
    + destruct (sd_trans_pend _ _ _ _ _ Ht Hin); [eapply g_pend | eapply g_reg]; eauto.
Qed.

Lemma run_ginv sched : forall st st', ginv st -> run st sched = Some st' -> ginv st'.
Proof.
  induction sched; simpl; intros st st' G H.
  - inversion H; subst; auto.
  - destruct (step st a) eqn:E; try discriminate. eapply IHsched; [|eauto]. eapply step_ginv; eauto.
Qed.

(* ------------------------------------------------------------------ progress: no reachable state is stuck while a thread is unfinished *)

Definition job_final (jb : job) : Prop :=
  match spc jb with SGot _ | SRejected => True | _ => False end.
Definition sd_final (s : sd) : Prop :=
  match dpc s with DDone => True | _ => False end.

Definition can_step (st : state) : Prop := exists l st', step st l = Some st'.

Ltac fire l := exists l; unfold step, on_job, on_sd; simpl.

Lemma holder_moves st : ginv st -> lock st <> None -> can_step st.
Proof.
  intros G Hl. destruct (lock st) as [[i|k]|] eqn:El; [| |congruence].
  - destruct (g_sub _ G _ El) as (jb & Hn & Hh).
    pose proof (Forall_nth _ _ _ _ (g_jobs _ G) Hn) as Hok.
    destruct (spc jb) eqn:Es; try discriminate.
    + fire (LSubRecheck i). rewrite Hn, Es. eauto.
    + fire (LSubAppend i). rewrite Hn, Es. eauto.
    + assert (Hw : wpc jb = WNew).
      { unfold job_ok, started_spc in Hok. rewrite Es in Hok.
        destruct (wpc jb); auto; intuition (try congruence; try discriminate). }
      fire (LSubStart i). rewrite Hn, Es, Hw. eauto.
    + fire (LSubRelease i). rewrite Hn, Es. eauto.
    + fire (LSubUnlock i). rewrite Hn, Es. eauto.
  - destruct (g_sd _ G _ El) as (s & Hn & Hd). destruct (dpc s) as [| |pl| |pl|pl|] eqn:Ed; try discriminate.
    + destruct pl as [|j r].
      * fire (LSdReturn k). rewrite Hn, Ed. eauto.
      * assert (Hin : In j (pend_of (dpc s))) by (rewrite Ed; simpl; auto).
        destruct (g_pend _ G _ _ Hn j Hin) as (jb & Hj & _).
        destruct (slock jb) eqn:Esl.
        -- pose proof (Forall_nth _ _ _ _ (g_jobs2 _ G) Hj) as (Hsl & _). rewrite Esl in Hsl.
           destruct (wpc jb) eqn:Ew; try discriminate.
           fire (LPopen j true). rewrite Hj, Ew. eauto.
        -- fire (LSdCancel k j). rewrite Hn, Ed. simpl. rewrite Nat.eqb_refl, Hj, Esl. eauto.
    + fire (LSdSnap k). rewrite Hn, Ed. eauto.
    + fire (LSdRelease k). rewrite Hn, Ed. eauto.
Qed.

Lemma worker_moves st j jb :
  nth_error (jobs st) j = Some jb -> wpc jb <> WNew -> wpc jb <> WDone -> wpc jb <> WDead -> can_step st.
Proof.
  intros Hn H1 H2 H3. destruct (wpc jb) eqn:Ew; try congruence.
  - fire (LSpawnEnter j). rewrite Hn, Ew. destruct (creq jb); eauto.
  - fire (LPopen j true). rewrite Hn, Ew. eauto.
  - fire (LCommExc j). rewrite Hn, Ew. eauto.
  - fire (LFinally j). rewrite Hn, Ew, kill_raises_false. simpl. eauto.
  - fire (LSetResult j). rewrite Hn, Ew. eauto.
Qed.

Lemma job_moves st j jb :
  ginv st -> nth_error (jobs st) j = Some jb -> ~ job_final jb -> can_step st.
Proof.
  intros G Hn Hf. pose proof (Forall_nth _ _ _ _ (g_jobs _ G) Hn) as Hok.
  unfold job_final in Hf. destruct (spc jb) eqn:Es; try (exfalso; apply Hf; exact I).
  - fire (LSubCheck j). rewrite Hn, Es. eauto.
  - destruct (lock st) eqn:El.
    + apply holder_moves; auto. congruence.
    + fire (LSubAcquire j). rewrite El. simpl. rewrite Hn, Es. eauto.
  - fire (LSubRecheck j). rewrite Hn, Es. eauto.
  - fire (LSubAppend j). rewrite Hn, Es. eauto.
  - assert (Hw : wpc jb = WNew).
    { unfold job_ok, started_spc in Hok. rewrite Es in Hok.
      destruct (wpc jb); auto; intuition (try congruence; try discriminate). }
    fire (LSubStart j). rewrite Hn, Es, Hw. eauto.
  - fire (LSubRelease j). rewrite Hn, Es. eauto.
  - destruct (wpc jb) eqn:Ew.
    + exfalso. unfold job_ok in Hok. rewrite Ew, Es in Hok. intuition congruence.
    + eapply worker_moves; eauto; congruence.
    + eapply worker_moves; eauto; congruence.
    + eapply worker_moves; eauto; congruence.
    + eapply worker_moves; eauto; congruence.
    + eapply worker_moves; eauto; congruence.
    + assert (Hs : sets jb = 1) by (unfold job_ok in Hok; rewrite Ew in Hok; intuition).
      fire (LSubWait j). rewrite Hn, Es, Hs. simpl. eauto.
    + exfalso. unfold job_ok in Hok. rewrite Ew in Hok. exact Hok.
  - fire (LSubUnlock j). rewrite Hn, Es. eauto.
Qed.

Lemma sd_moves st k s :
  ginv st -> nth_error (sds st) k = Some s -> ~ sd_final s -> can_step st.
Proof.
  intros G Hn Hf. unfold sd_final in Hf. destruct (dpc s) eqn:Ed; try (exfalso; apply Hf; exact I).
  - fire (LSdSet k). rewrite Hn, Ed. eauto.
  - destruct (lock st) eqn:El.
    + apply holder_moves; auto. congruence.
    + fire (LSdAcquire k). rewrite El. simpl. rewrite Hn, Ed. eauto.
  - apply holder_moves; auto. rewrite (g_canc _ G _ _ Hn); [discriminate | rewrite Ed; reflexivity].
  - apply holder_moves; auto. rewrite (g_canc _ G _ _ Hn); [discriminate | rewrite Ed; reflexivity].
  - apply holder_moves; auto. rewrite (g_canc _ G _ _ Hn); [discriminate | rewrite Ed; reflexivity].
  - destruct pending as [|j r].
    + fire (LSdReturn k). rewrite Hn, Ed. eauto.
    + assert (Hin : In j (pend_of (dpc s))) by (rewrite Ed; simpl; auto).
      destruct (g_pend _ G _ _ Hn j Hin) as (jb & Hj & Hp).
      pose proof (Forall_nth _ _ _ _ (g_jobs _ G) Hj) as Hok.
      destruct (spc jb) eqn:Es; try discriminate;
        try (eapply job_moves; eauto; unfold job_final; rewrite Es; auto; fail).
      assert (Hs : sets jb = 1).
      { unfold job_ok, started_spc in Hok. rewrite Es in Hok.
        destruct (wpc jb); intuition (try congruence; try discriminate). }
      fire (LSdJoin k). rewrite Hn, Ed. unfold finished. rewrite Hj, Hs. simpl. eauto.
Qed.

Definition reachable (cfgs : list (bool * bool)) (waits : list bool) (st : state) : Prop :=
  exists sched, run (init cfgs waits) sched = Some st.

Lemma reachable_ginv cfgs waits st : reachable cfgs waits st -> ginv st.
Proof. intros (sched & H). eapply run_ginv; [|eauto]. apply init_ginv. Qed.

(* deadlock-freedom *)
Lemma no_deadlock cfgs waits st :
  reachable cfgs waits st ->
  (exists j jb, nth_error (jobs st) j = Some jb /\ ~ job_final jb) \/
  (exists k s, nth_error (sds st) k = Some s /\ ~ sd_final s) ->
  exists l st', step st l = Some st'.
Proof.
  intros R [(j & jb & Hn & Hf) | (k & s & Hn & Hf)]; apply reachable_ginv in R.
  - eapply job_moves; eauto.
  - eapply sd_moves; eauto.
Qed.

(* in a quiescent state every submit() call has been rejected or its waiter has its result,
   delivered exactly once; no process runs under a finished job; every shutdown() call ended *)
Lemma quiescent_exactly_once cfgs waits sched st :
  run (init cfgs waits) sched = Some st -> (forall l, step st l = None) ->
  (forall j jb, nth_error (jobs st) j = Some jb ->
     (spc jb = SRejected /\ wpc jb = WNew /\ deliveries j sched = 0 /\ proc jb = PNone) \/
     (spc jb = SGot (low_level jb) /\ wpc jb = WDone /\ deliveries j sched = 1 /\ proc jb <> PRun)) /\
  (forall k s, nth_error (sds st) k = Some s -> dpc s = DDone).
Proof.
  intros Hrun Hq.
  assert (G : ginv st) by (eapply run_ginv; [apply init_ginv|eauto]).
  assert (Hstuck : ~ can_step st).
  { intros (l & st' & Hs). rewrite Hq in Hs. discriminate. }
  split.
  - intros j jb Hn.
    pose proof (Forall_nth _ _ _ _ (g_jobs _ G) Hn) as Hok.
    pose proof (run_sets _ _ _ j Hrun) as Hs. rewrite init_sets in Hs.
    unfold sets_of in Hs. rewrite Hn in Hs. simpl in Hs.
    destruct (spc jb) eqn:Es;
      try (exfalso; apply Hstuck; eapply job_moves; eauto; unfold job_final; rewrite Es; auto; fail).
    + right. unfold job_ok, started_spc in Hok. rewrite Es in Hok.
      destruct (wpc jb); try (exfalso; intuition (try congruence; try discriminate); fail).
      destruct Hok as (Hp & Hse & [[Hc|Hc]|Hc] & _); try discriminate.
      inversion Hc. repeat split; auto; try congruence; try lia.
    + left. unfold job_ok, started_spc in Hok. rewrite Es in Hok.
      destruct (wpc jb); try (exfalso; intuition (try congruence; try discriminate); fail).
      destruct Hok as (Hp & _ & _ & Hse & _). repeat split; auto; try lia.
  - intros k s Hn. destruct (dpc s) eqn:Ed; auto;
      exfalso; apply Hstuck; eapply sd_moves; eauto; unfold sd_final; rewrite Ed; auto.
Qed.

(* every schedule can be extended to a quiescent state: maximal schedules exist and are
   reached after at most rank-many further steps (uses decidability of enabledness through
   the finite label enumeration) *)
Lemma enabled_sound st l : In l (enabled st) -> exists st', step st l = Some st'.
Proof.
  unfold enabled. intros H. apply filter_In in H. destruct H as (_ & H).
  destruct (step st l); [eauto|discriminate].
Qed.

Lemma extend_to_stuck n : forall st, rank st <= n ->
  exists ext st', run st ext = Some st' /\ enabled st' = [].
Proof.
  induction n; intros st Hr.
  - destruct (enabled st) as [|l r] eqn:E.
    + exists [], st. auto.
    + destruct (enabled_sound st l) as (st' & Hs); [rewrite E; simpl; auto|].
      apply step_rank in Hs. lia.
  - destruct (enabled st) as [|l r] eqn:E.
    + exists [], st. auto.
    + destruct (enabled_sound st l) as (st' & Hs); [rewrite E; simpl; auto|].
      pose proof (step_rank _ _ _ Hs). destruct (IHn st') as (ext & st'' & Hrun & He); [lia|].
      exists (l :: ext), st''. simpl. rewrite Hs. auto.
Qed.

Lemma all_labels_complete st l st' : step st l = Some st' -> In l (all_labels st).
Proof.
  intros H. pose proof (step_jobs _ _ _ H) as HJ. pose proof (step_globals _ _ _ H) as (_ & HG).
  unfold all_labels.
  destruct l; try (simpl in H; discriminate); simpl in HJ, HG;
    try (destruct HJ as (jb & jb' & Hn & _);
         apply in_or_app; left; apply in_flat_map; exists j; split;
         [apply in_seq; split; [lia|]; simpl; apply nth_error_Some; congruence|];
         try (destruct ok); try (destruct a); simpl; auto 40; fail);
    try (destruct HG as (s & s' & Hn & _);
         apply in_or_app; right; apply in_flat_map; exists k; split;
         [apply in_seq; split; [lia|]; simpl; apply nth_error_Some; congruence|];
         simpl; auto 40; fail).
  (* LSdCancel k j *)
  destruct HJ as (jb & jb' & Hnj & _). destruct HG as (s & s' & Hn & _).
  apply in_or_app; right; apply in_flat_map; exists k; split.
  - apply in_seq; split; [lia|]; simpl; apply nth_error_Some; congruence.
  - apply in_or_app; right. apply in_map. apply in_seq; split; [lia|]; simpl; apply nth_error_Some; congruence.
Qed.

Lemma enabled_nil_quiescent st : enabled st = [] -> forall l, step st l = None.
Proof.
  intros He l. destruct (step st l) eqn:E; auto.
  assert (Hin : In l (enabled st)).
  { unfold enabled. apply filter_In. split; [eapply all_labels_complete; eauto|]. rewrite E. reflexivity. }
  rewrite He in Hin. contradiction.
Qed.

(* every schedule can be extended to a maximal one, which ends quiescent *)
Lemma extends_to_quiescent st :
  exists ext st', run st ext = Some st' /\ forall l, step st' l = None.
Proof.
  destruct (extend_to_stuck (rank st) st (le_n _)) as (ext & st' & Hr & He).
  exists ext, st'. split; auto. apply enabled_nil_quiescent; auto.
Qed.

Lemma no_deadlock_run cfgs waits sched st :
  run (init cfgs waits) sched = Some st ->
  (exists j jb, nth_error (jobs st) j = Some jb /\ spc jb <> SRejected /\ (forall v, spc jb <> SGot v)) \/
  (exists k s, nth_error (sds st) k = Some s /\ dpc s <> DDone) ->
  exists l st', step st l = Some st'.
Proof.
  intros Hrun Hc. apply (no_deadlock cfgs waits); [exists sched; auto|].
  destruct Hc as [(j & jb & Hn & H1 & H2) | (k & s & Hn & H1)]; [left|right].
  - exists j, jb. split; auto. unfold job_final. destruct (spc jb); auto; try congruence.
  - exists k, s. split; auto. unfold sd_final. destruct (dpc s); auto; congruence.
Qed.

Lemma wait_returns cfgs waits sched st :
  run (init cfgs waits) sched = Some st ->
  exists ext st',
    run (init cfgs waits) (sched ++ ext) = Some st' /\ (forall l, step st' l = None) /\
    (forall j jb, nth_error (jobs st') j = Some jb ->
       (spc jb = SRejected /\ deliveries j (sched ++ ext) = 0) \/
       (spc jb = SGot (low_level jb) /\ deliveries j (sched ++ ext) = 1)) /\
    (forall k s, nth_error (sds st') k = Some s -> dpc s = DDone).
Proof.
  intros Hrun. destruct (extends_to_quiescent st) as (ext & st' & He & Hq).
  exists ext, st'.
  assert (Hr : run (init cfgs waits) (sched ++ ext) = Some st') by (rewrite run_app, Hrun; auto).
  destruct (quiescent_exactly_once _ _ _ _ Hr Hq) as (Hj & Hs).
  repeat split; auto.
  intros j jb Hn. destruct (Hj j jb Hn) as [(A & _ & B & _) | (A & _ & B & _)]; auto.
Qed.

(* ------------------------------------------------------------------ statements in the form used by Props/C17.v *)

Lemma timeout_unknown_spec cfgs waits sched st j jb :
  run (init cfgs waits) sched = Some st -> timed_out j sched ->
  nth_error (jobs st) j = Some jb ->
  exc jb = Some ETimeout /\
  forall v, spc jb = SGot v -> v = spec_timeout_verdict /\ v <> VUnsat.
Proof.
  intros H Ht Hn. destruct (timeout_unknown _ _ _ _ _ _ H Ht Hn) as (He & Hv). split; auto.
  intros v Hs. apply Hv in Hs. subst. split; [reflexivity|discriminate].
Qed.

(* ------------------------------------------------------------------ after a shutdown request: the repaired clauses *)

Lemma run_split st a l b st' :
  run st (a ++ l :: b) = Some st' ->
  exists s1 s2, run st a = Some s1 /\ step s1 l = Some s2 /\ run s2 b = Some st'.
Proof.
  rewrite run_app. destruct (run st a) as [s1|]; try discriminate. simpl.
  destruct (step s1 l) as [s2|] eqn:E; try discriminate. eauto.
Qed.

Lemma run_In st sched st' l :
  run st sched = Some st' -> In l sched ->
  exists a b s1 s2, sched = a ++ l :: b /\ run st a = Some s1 /\ step s1 l = Some s2 /\ run s2 b = Some st'.
Proof.
  intros H Hin. apply in_split in Hin. destruct Hin as (a & b & ->).
  destruct (run_split _ _ _ _ _ H) as (s1 & s2 & ? & ? & ?). exists a, b, s1, s2. auto.
Qed.

Lemma run_stable (I P : state -> Prop) :
  (forall st l st', I st -> step st l = Some st' -> I st') ->
  (forall st l st', I st -> P st -> step st l = Some st' -> P st') ->
  forall sched st st', I st -> P st -> run st sched = Some st' -> I st' /\ P st'.
Proof.
  intros HI HP. induction sched; simpl; intros st st' Hi Hp H.
  - inversion H; subst; auto.
  - destruct (step st a) eqn:E; try discriminate. eapply IHsched; [| |eauto]; eauto.
Qed.

(* a shutdown() call that has taken the lock *)
Definition past_acquire (d : dpc_t) : bool := match d with DSet | DAcquire => false | _ => true end.
Definition closed (st : state) : Prop :=
  exists k s, nth_error (sds st) k = Some s /\ past_acquire (dpc s) = true.

Definition sd_ok (s : sd) : Prop :=
  match dpc s with
  | DCancel _ => swait s = false
  | DSnap | DUnlock _ | DJoin _ => swait s = true
  | _ => True
  end.

Definition creq_at (st : state) (j : nat) : bool :=
  match nth_error (jobs st) j with Some jb => creq jb | None => false end.

Lemma job_trans_creq fl l jb jb' : job_trans fl l jb jb' ->
  (creq jb = true -> creq jb' = true) /\ (match l with LSdCancel _ _ => creq jb' = true | _ => True end).
Proof.
  unfold fin0, cancel0, kill0, set_creq, set_slock.
  destruct jb as [t sb s w p e o n cr sl]; destruct l; simpl; intros Ht; try contradiction.
  all: try (destruct ok); try (destruct cr); simpl in *.
  all: repeat match goal with H : _ /\ _ |- _ => destruct H end; subst; simpl in *.
  all: try (destruct p; simpl in * ); auto.
Qed.

Lemma creq_mono st l st' j : step st l = Some st' -> creq_at st j = true -> creq_at st' j = true.
Proof.
  intros H Hc. unfold creq_at in *. destruct (nth_error (jobs st) j) as [jb|] eqn:Hn; try discriminate.
  destruct (step_job_fwd _ _ _ _ _ H Hn) as [(Hn' & _) | (_ & jb' & Hn' & Ht)]; rewrite Hn'; auto.
  apply (job_trans_creq _ _ _ _ Ht); auto.
Qed.

Lemma cancel_sets_creq st k j st' : step st (LSdCancel k j) = Some st' -> creq_at st' j = true.
Proof.
  intros H. pose proof (step_jobs _ _ _ H) as HJ. simpl in HJ. destruct HJ as (jb & jb' & Hn & Hjs & Ht).
  unfold creq_at. rewrite Hjs, nth_set_nth_eq; [|apply nth_error_Some; congruence].
  destruct Ht as (_ & ->). unfold cancel0, kill0, set_creq; simpl. destruct (proc jb); reflexivity.
Qed.

Record sinv (st : state) : Prop := {
  s_flag : forall k s, nth_error (sds st) k = Some s -> dpc s <> DSet -> flag st = true;
  s_sdok : forall k s, nth_error (sds st) k = Some s -> sd_ok s;
  s_closed : closed st -> forall j jb, nth_error (jobs st) j = Some jb -> spc jb <> SAppend /\ spc jb <> SStart;
  s_inreg : forall j jb, nth_error (jobs st) j = Some jb -> post_append (spc jb) = true -> In j (reg st);
  s_join : forall k s, nth_error (sds st) k = Some s -> swait s = true ->
             match dpc s with
             | DUnlock pend | DJoin pend => forall j, In j (reg st) -> In j pend \/ finished st j = true
             | DDone => forall j, In j (reg st) -> finished st j = true
             | _ => True
             end;
  (* shutdown(wait=False): every registered job still has its cancel task pending, or the cancel was requested *)
  s_cancel : forall k s, nth_error (sds st) k = Some s -> swait s = false ->
             match dpc s with
             | DCancel pend => forall j, In j (reg st) -> In j pend \/ creq_at st j = true
             | DDone => forall j, In j (reg st) -> creq_at st j = true
             | _ => True
             end
}.

Lemma step_flag st l st' :
  step st l = Some st' -> flag st' = match l with LSdSet _ => true | _ => flag st end.
Proof.
  destruct l; simpl; unfold on_job, on_sd; simpl; intros H; try discriminate.
  all: step_inv; simpl; auto.
Qed.

Lemma finished_iff st j : finished st j = true <-> sets_of st j <> 0.
Proof.
  unfold finished, sets_of. destruct (nth_error (jobs st) j) as [jb|]; [|split; [discriminate|congruence]].
  destruct (sets jb); simpl; split; intros; try congruence; try lia; auto.
Qed.

Lemma finished_mono st l st' j : step st l = Some st' -> finished st j = true -> finished st' j = true.
Proof.
  intros H Hf. apply finished_iff. apply finished_iff in Hf.
  rewrite (step_sets _ _ _ j H). lia.
Qed.

Lemma reg_mono st l st' j : step st l = Some st' -> In j (reg st) -> In j (reg st').
Proof.
  intros H Hin. apply step_globals in H. destruct H as (HR & _). rewrite HR.
  destruct l; auto. apply in_or_app; auto.
Qed.

Lemma sd_trans_past st l s s' :
  sd_trans st l s s' ->
  past_acquire (dpc s') = match l with LSdSet _ => false | _ => true end /\
  match l with LSdSet _ | LSdAcquire _ => past_acquire (dpc s) = false | _ => past_acquire (dpc s) = true end.
Proof.
  unfold sd_trans. intros (_ & Ht). destruct l; try contradiction.
  all: repeat match goal with
              | H : _ /\ _ |- _ => destruct H
              | H : exists _, _ |- _ => destruct H
              | H : _ \/ _ |- _ => destruct H
              end.
  all: repeat match goal with H : dpc _ = _ |- _ => rewrite H; clear H end; simpl; auto.
  destruct (swait s); auto.
Qed.

Lemma closed_fwd st l st' : step st l = Some st' -> closed st -> closed st'.
Proof.
  intros H (k & s & Hn & Hp).
  destruct (step_sd_fwd _ _ _ _ _ H Hn) as [(Hn' & _) | (Hke & s' & Hn' & Ht)].
  - exists k, s; auto.
  - exists k, s'. split; auto. destruct (sd_trans_past _ _ _ _ Ht) as (Hp' & Hq).
    rewrite Hp'. destruct l; auto; congruence.
Qed.

Definition is_sd_acquire (l : label) : bool := match l with LSdAcquire _ => true | _ => false end.

Lemma closed_back st l st' :
  step st l = Some st' -> is_sd_acquire l = false -> closed st' -> closed st.
Proof.
  intros H Hl (k & s' & Hn & Hp).
  destruct (step_sd_at _ _ _ _ _ H Hn) as [(Ho & _) | (Hke & s & Ho & Ht)].
  - exists k, s'; auto.
  - exists k, s. split; auto. destruct (sd_trans_past _ _ _ _ Ht) as (Hp' & Hq).
    destruct l; try discriminate; auto; congruence.
Qed.

(* the shutdown call k has taken the lock once one of its later labels has occurred *)
Lemma step_closes st l st' k :
  step st l = Some st' -> sd_of l = Some k -> (forall k', l <> LSdSet k') -> closed st'.
Proof.
  intros H Hk Hl. apply step_globals in H. destruct H as (_ & H). rewrite Hk in H.
  destruct H as (s & s' & Hn & Hss & Ht). exists k, s'. split.
  - rewrite Hss. apply nth_set_nth_eq. apply nth_error_Some. congruence.
  - destruct (sd_trans_past _ _ _ _ Ht) as (Hp' & _). rewrite Hp'.
    destruct l; auto. exfalso. eapply Hl; eauto.
Qed.

Lemma job_trans_closed l jb jb' :
  job_trans true l jb jb' -> spc jb <> SAppend -> spc jb <> SStart ->
  spc jb' <> SAppend /\ spc jb' <> SStart.
Proof.
  unfold fin0, cancel0, kill0, set_creq, set_slock. destruct jb as [t sb s w p e o n cr sl]; destruct l; simpl; intros Ht H1 H2; try contradiction.
  all: try (destruct ok); try (destruct cr); unfold set_slock in *; simpl in *.
  all: repeat match goal with H : _ /\ _ |- _ => destruct H end; subst; simpl in *.
  all: try (destruct p; simpl in *); split; congruence.
Qed.

Lemma job_trans_post fl l jb jb' :
  job_trans fl l jb jb' -> post_append (spc jb') = true ->
  post_append (spc jb) = true \/ exists i, l = LSubAppend i.
Proof.
  unfold fin0, cancel0, kill0, set_creq, set_slock. destruct jb as [t sb s w p e o n cr sl]; destruct l; simpl; intros Ht Hp; try contradiction.
  all: try (destruct ok); try (destruct cr); unfold set_slock in *; simpl in *.
  all: repeat match goal with H : _ /\ _ |- _ => destruct H end; subst; simpl in *.
  all: try (destruct fl; simpl in * ); try (destruct p; simpl in * ); eauto; try discriminate.
Qed.

Lemma init_sinv cfgs waits : sinv (init cfgs waits).
Proof.
  constructor; simpl.
  - intros k s Hn Hd. apply nth_error_In, in_map_iff in Hn. destruct Hn as (x & <- & _). exfalso; apply Hd; reflexivity.
  - intros k s Hn. apply nth_error_In, in_map_iff in Hn. destruct Hn as (x & <- & _). exact I.
  - intros (k & s & Hn & Hp). apply nth_error_In, in_map_iff in Hn. destruct Hn as (x & <- & _). discriminate.
  - intros j jb Hn Hp. apply nth_error_In, in_map_iff in Hn. destruct Hn as (x & <- & _). discriminate.
  - intros k s Hn Hw. apply nth_error_In, in_map_iff in Hn. destruct Hn as (x & <- & _). exact I.
  - intros k s Hn Hw. apply nth_error_In, in_map_iff in Hn. destruct Hn as (x & <- & _). exact I.
Qed.

Lemma closed_flag st : sinv st -> closed st -> flag st = true.
Proof.
  intros S (k & s & Hn & Hp). eapply s_flag; eauto. intros Hd. rewrite Hd in Hp. discriminate.
Qed.

(* while some shutdown call has the lock behind it, the registry does not change any more *)
Lemma reg_same_if_closed st l st' : sinv st -> closed st -> step st l = Some st' -> reg st' = reg st.
Proof.
  intros S C H. pose proof (step_globals _ _ _ H) as (HR & _). rewrite HR.
  destruct l; auto. apply step_jobs in H. simpl in H. destruct H as (jb & jb' & Hn & _ & Hs & _).
  destruct (s_closed _ S C _ _ Hn) as (Hx & _). congruence.
Qed.

Lemma step_sinv st l st' : ginv st -> sinv st -> step st l = Some st' -> sinv st'.
Proof.
  intros G S H.
  pose proof (step_flag _ _ _ H) as HF.
  pose proof (step_globals _ _ _ H) as (HR & _).
  constructor.
  - (* s_flag *)
    intros k s' Hn Hd. destruct (step_sd_at _ _ _ _ _ H Hn) as [(Ho & _) | (Hke & s & Ho & Ht)].
    + rewrite HF. destruct l; auto; eapply s_flag; eauto.
    + rewrite HF. destruct (sd_trans_past _ _ _ _ Ht) as (_ & Hq).
      destruct l; auto; eapply (s_flag _ S _ _ Ho); intros Hd0; rewrite Hd0 in Hq; try discriminate.
      destruct Ht as (_ & (Hx & _)). congruence.
  - (* s_sdok *)
    intros k s' Hn. destruct (step_sd_at _ _ _ _ _ H Hn) as [(Ho & _) | (Hke & s & Ho & Ht)].
    + eapply s_sdok; eauto.
    + pose proof (s_sdok _ S _ _ Ho) as Hok. unfold sd_ok in *. destruct Ht as (Hw & Ht).
      destruct l; try contradiction.
      all: repeat match goal with
                  | H : _ /\ _ |- _ => destruct H
                  | H : exists _, _ |- _ => destruct H
                  | H : _ \/ _ |- _ => destruct H
                  end.
      all: repeat match goal with H : dpc _ = _ |- _ => rewrite H in *; clear H end; simpl; auto; try congruence.
      destruct (swait s) eqn:E; simpl; congruence.
  - (* s_closed *)
    intros C j jb' Hn. destruct (is_sd_acquire l) eqn:El.
    + destruct l; try discriminate.
      pose proof (step_lock_owner _ _ _ G H) as HL. simpl in HL. destruct HL as (Hfree & _).
      pose proof (step_jobs _ _ _ H) as HJ. simpl in HJ. rewrite HJ in Hn.
      split; intros Hs; pose proof (g_hold _ G _ _ Hn) as Hh; rewrite Hs in Hh;
        specialize (Hh eq_refl); congruence.
    + pose proof (closed_back _ _ _ H El C) as C0.
      destruct (step_job_at _ _ _ _ _ H Hn) as [(Ho & _) | (Hje & jb & Ho & Ht)].
      * eapply s_closed; eauto.
      * rewrite (closed_flag _ S C0) in Ht. destruct (s_closed _ S C0 _ _ Ho).
        eapply job_trans_closed; eauto.
  - (* s_inreg *)
    intros j jb' Hn Hp. destruct (step_job_at _ _ _ _ _ H Hn) as [(Ho & _) | (Hje & jb & Ho & Ht)].
    + eapply reg_mono; eauto. eapply s_inreg; eauto.
    + destruct (job_trans_post _ _ _ _ Ht Hp) as [Hp0 | (i & ->)].
      * eapply reg_mono; eauto. eapply s_inreg; eauto.
      * simpl in Hje. inversion Hje; subst. rewrite HR. apply in_or_app. right. simpl; auto.
  - (* s_join *)
    intros k s' Hn Hw. destruct (step_sd_at _ _ _ _ _ H Hn) as [(Ho & _) | (Hke & s & Ho & Ht)].
    + pose proof (s_join _ S _ _ Ho Hw) as Hj.
      destruct (dpc s') eqn:Ed; auto.
      all: assert (C : closed st) by (exists k, s'; rewrite Ed; auto);
           rewrite (reg_same_if_closed _ _ _ S C H); intros j Hin; specialize (Hj j Hin).
      * destruct Hj; auto. right. eapply finished_mono; eauto.
      * destruct Hj; auto. right. eapply finished_mono; eauto.
      * eapply finished_mono; eauto.
    + pose proof (s_sdok _ S _ _ Ho) as Hok. unfold sd_ok in Hok.
      destruct Ht as (Hsw & Ht). rewrite Hsw in Hw. pose proof (s_join _ S _ _ Ho Hw) as Hj.
      destruct l; try contradiction; simpl in HR.
      * (* set *) destruct Ht as (_ & ->). exact I.
      * (* acquire *) destruct Ht as (_ & ->). rewrite Hw. exact I.
      * (* cancel *) destruct Ht as (p0 & p1 & _ & _ & ->). exact I.
      * (* snap *) destruct Ht as (_ & ->). rewrite HR. intros j Hin. auto.
      * (* release *) destruct Ht as (pend & Hd & ->). rewrite Hd in Hj. rewrite HR.
        intros j Hin. destruct (Hj j Hin); auto. right. eapply finished_mono; eauto.
      * (* join *) destruct Ht as (j0 & rest & Hd & Hf & ->). rewrite Hd in Hj. rewrite HR.
        intros j Hin. destruct (Hj j Hin) as [[->|Hr]|Hfin]; auto; right; eapply finished_mono; eauto.
      * (* return *) destruct Ht as ([Hd|Hd] & ->); rewrite Hd in *.
        -- congruence.
        -- rewrite HR. intros j Hin. destruct (Hj j Hin) as [[]|Hfin]. eapply finished_mono; eauto.
  - (* s_cancel *)
    intros k s' Hn Hw. destruct (step_sd_at _ _ _ _ _ H Hn) as [(Ho & _) | (Hke & s & Ho & Ht)].
    + pose proof (s_cancel _ S _ _ Ho Hw) as Hj.
      destruct (dpc s') eqn:Ed; auto.
      all: assert (C : closed st) by (exists k, s'; rewrite Ed; auto);
           rewrite (reg_same_if_closed _ _ _ S C H); intros j Hin; specialize (Hj j Hin).
      * destruct Hj; auto. right. eapply creq_mono; eauto.
      * eapply creq_mono; eauto.
    + pose proof (s_sdok _ S _ _ Ho) as Hok. unfold sd_ok in Hok.
      destruct Ht as (Hsw & Ht). rewrite Hsw in Hw. pose proof (s_cancel _ S _ _ Ho Hw) as Hj.
      destruct l; try contradiction; simpl in HR.
      * (* set *) destruct Ht as (_ & ->). exact I.
      * (* acquire *) destruct Ht as (_ & ->). rewrite Hw. rewrite HR. intros j Hin. auto.
      * (* cancel *) destruct Ht as (p0 & p1 & Hd & Hrm & ->). rewrite Hd in Hj. rewrite HR.
        simpl in Hke. inversion Hke; subst k0.
        intros j0 Hin. destruct (Hj j0 Hin) as [Hp | Hc].
        -- destruct (Nat.eq_dec j0 j) as [->|Hne].
           ++ right. eapply cancel_sets_creq; eauto.
           ++ left. eapply remove1_other; eauto.
        -- right. eapply creq_mono; eauto.
      * (* snap *) destruct Ht as (_ & ->). exact I.
      * (* release *) destruct Ht as (pend & _ & ->). exact I.
      * (* join *) destruct Ht as (j0 & rest & _ & _ & ->). exact I.
      * (* return *) destruct Ht as ([Hd|Hd] & ->); rewrite Hd in *.
        -- rewrite HR. intros j Hin. destruct (Hj j Hin) as [[]|Hc]. eapply creq_mono; eauto.
        -- congruence.
Qed.

Definition inv (st : state) : Prop := ginv st /\ sinv st.

Lemma init_inv cfgs waits : inv (init cfgs waits).
Proof. split; [apply init_ginv | apply init_sinv]. Qed.

Lemma step_inv_pres st l st' : inv st -> step st l = Some st' -> inv st'.
Proof. intros (G & S) H. split; [eapply step_ginv | eapply step_sinv]; eauto. Qed.

Lemma run_inv sched : forall st st', inv st -> run st sched = Some st' -> inv st'.
Proof.
  induction sched; simpl; intros st st' I H.
  - inversion H; subst; auto.
  - destruct (step st a) eqn:E; try discriminate. eapply IHsched; [|eauto]. eapply step_inv_pres; eauto.
Qed.

Lemma run_closed sched : forall st st', closed st -> run st sched = Some st' -> closed st'.
Proof.
  induction sched; simpl; intros st st' C H.
  - inversion H; subst; auto.
  - destruct (step st a) eqn:E; try discriminate. eapply IHsched; [|eauto]. eapply closed_fwd; eauto.
Qed.

(* (1) once any shutdown() call -- of either kind -- has taken the lock, no job is registered
   or accepted any more *)
Lemma closed_after cfgs waits pre st l0 k :
  run (init cfgs waits) pre = Some st -> In l0 pre -> sd_of l0 = Some k -> (forall k', l0 <> LSdSet k') ->
  inv st /\ closed st.
Proof.
  intros H Hin Hk Hl. split; [eapply run_inv; [apply init_inv|eauto]|].
  destruct (run_In _ _ _ _ H Hin) as (a & b & s1 & s2 & -> & Ha & Hs & Hb).
  eapply run_closed; [|eauto]. eapply step_closes; eauto.
Qed.

Lemma no_accept_after_lock cfgs waits pre l post st k :
  run (init cfgs waits) (pre ++ l :: post) = Some st -> In (LSdAcquire k) pre ->
  forall j, l <> LSubAppend j /\ l <> LSubStart j.
Proof.
  intros H Hin j. destruct (run_split _ _ _ _ _ H) as (s1 & s2 & Ha & Hs & _).
  destruct (closed_after _ _ _ _ _ k Ha Hin eq_refl) as ((G & S) & C); [discriminate|].
  split; intros ->; apply step_jobs in Hs; simpl in Hs; destruct Hs as (jb & jb' & Hn & _ & Hx & _);
    destruct (s_closed _ S C _ _ Hn); congruence.
Qed.

Lemma no_accept_after_shutdown cfgs waits sched st :
  run (init cfgs waits) sched = Some st -> ~ accepted_after_return sched.
Proof.
  intros H (pre & post & j & k & -> & Hin).
  destruct (run_split _ _ _ _ _ H) as (s1 & s2 & Ha & Hs & _).
  destruct (closed_after _ _ _ _ _ k Ha Hin eq_refl) as ((G & S) & C); [discriminate|].
  apply step_jobs in Hs; simpl in Hs; destruct Hs as (jb & jb' & Hn & _ & Hx & _).
  destruct (s_closed _ S C _ _ Hn); congruence.
Qed.

(* (2) shutdown(wait=True): when it has returned every job ever accepted is delivered, exactly
   once, and no solver process runs -- and none will: nothing is accepted any more *)
Lemma run_swait sched : forall st st', run st sched = Some st' -> map swait (sds st') = map swait (sds st).
Proof.
  induction sched; simpl; intros st st' H.
  - inversion H; subst; auto.
  - destruct (step st a) eqn:E; try discriminate. rewrite (IHsched _ _ H).
    apply step_globals in E. destruct E as (_ & E). destruct (sd_of a).
    + destruct E as (s0 & s1 & Hn & -> & (Hw & _)). clear - Hn Hw.
      revert n Hn; induction (sds st); destruct n; simpl; intros Hn; try discriminate; auto.
      * inversion Hn; subst. congruence.
      * f_equal. eauto.
    + rewrite E; auto.
Qed.

Lemma swait_of cfgs waits sched st k s :
  run (init cfgs waits) sched = Some st -> nth_error (sds st) k = Some s -> nth_error waits k = Some (swait s).
Proof.
  intros H Hn. apply run_swait in H. simpl in H. rewrite map_map in H. simpl in H. rewrite map_id in H.
  rewrite <- H. apply map_nth_error; auto.
Qed.

Lemma job_running_registered st j jb :
  inv st -> nth_error (jobs st) j = Some jb -> wpc jb <> WNew -> In j (reg st).
Proof.
  intros (G & S) Hn Hw. eapply s_inreg; eauto.
  pose proof (Forall_nth _ _ _ _ (g_jobs _ G) Hn) as Hok. unfold job_ok, started_spc in Hok.
  destruct (wpc jb); try congruence; intuition (subst; try match goal with H : spc jb = _ |- _ => rewrite H end; auto).
Qed.

Lemma finished_not_running st j jb :
  inv st -> nth_error (jobs st) j = Some jb -> finished st j = true -> sets jb = 1 /\ proc jb <> PRun.
Proof.
  intros (G & S) Hn Hf. apply finished_iff in Hf. unfold sets_of in Hf. rewrite Hn in Hf.
  pose proof (Forall_nth _ _ _ _ (g_jobs _ G) Hn) as Hok. unfold job_ok in Hok.
  destruct (wpc jb); intuition congruence.
Qed.

Lemma wait_shutdown_complete cfgs waits sched st k :
  run (init cfgs waits) sched = Some st -> nth_error waits k = Some true -> returned st k = true ->
  forall j, running st j = false /\ (accepted j sched -> deliveries j sched = 1).
Proof.
  intros H Hw Hr j.
  assert (I : inv st) by (eapply run_inv; [apply init_inv|eauto]).
  unfold returned in Hr. destruct (nth_error (sds st) k) as [s|] eqn:Hn; try discriminate.
  destruct (dpc s) eqn:Hd; try discriminate.
  pose proof (swait_of _ _ _ _ _ _ H Hn) as Hw'. rewrite Hw in Hw'. inversion Hw' as [Hsw].
  destruct I as (G & S). pose proof (s_join _ S _ _ Hn (eq_sym Hsw)) as Hj. rewrite Hd in Hj.
  split.
  - unfold running. destruct (nth_error (jobs st) j) as [jb|] eqn:Hjb; auto.
    destruct (proc jb) eqn:Hp; auto. exfalso.
    assert (Hreg : In j (reg st)).
    { apply (job_running_registered st j jb (conj G S) Hjb).
      pose proof (Forall_nth _ _ _ _ (g_jobs _ G) Hjb) as Hok. unfold job_ok in Hok.
      intros Hwn. rewrite Hwn in Hok. intuition congruence. }
    destruct (finished_not_running st j jb (conj G S) Hjb (Hj _ Hreg)) as (_ & Hx). congruence.
  - intros Hacc. unfold accepted in Hacc.
    destruct (run_In _ _ _ _ H Hacc) as (a & b & s1 & s2 & -> & Ha & Hs & Hb).
    assert (Rg : registered s2 j).
    { apply step_jobs in Hs. simpl in Hs. destruct Hs as (jb & jb' & Hn0 & Hjs & _ & _ & ->).
      eexists. split; [rewrite Hjs; apply nth_set_nth_eq; apply nth_error_Some; congruence|reflexivity]. }
    assert (Rg' : registered st j).
    { clear - Rg Hb. revert s2 Rg Hb. induction b; simpl; intros s2 Rg Hb.
      - inversion Hb; subst; auto.
      - destruct (step s2 a) eqn:E; try discriminate. eapply IHb; [|eauto]. eapply registered_step; eauto. }
    destruct Rg' as (jb & Hjb & Hp).
    pose proof (s_inreg _ S _ _ Hjb Hp) as Hreg.
    destruct (finished_not_running st j jb (conj G S) Hjb (Hj _ Hreg)) as (Hs1 & _).
    pose proof (run_sets _ _ _ j H) as Hsets. rewrite init_sets in Hsets.
    unfold sets_of in Hsets. rewrite Hjb in Hsets. lia.
Qed.

(* (3) shutdown(wait=False) / cancel(): a solver process that existed when the cancel task
   for its job ran is dead afterwards, for good *)
Definition spawned_b (jb : job) : bool := match wpc jb with WNew | WStarted | WSpawn => false | _ => true end.
Definition spawned_at (st : state) (j : nat) : Prop :=
  exists jb, nth_error (jobs st) j = Some jb /\ spawned_b jb = true.
Definition settled_at (st : state) (j : nat) : Prop :=
  exists jb, nth_error (jobs st) j = Some jb /\ spawned_b jb = true /\ proc jb <> PRun.

Lemma job_trans_spawned fl l jb jb' :
  job_trans fl l jb jb' -> spawned_b jb = true ->
  spawned_b jb' = true /\ (proc jb <> PRun -> proc jb' <> PRun) /\
  (match l with LSdCancel _ _ => proc jb' <> PRun | _ => True end).
Proof.
  unfold fin0, cancel0, kill0, set_creq, set_slock, spawned_b. destruct jb as [t sb s w p e o n cr sl]; destruct l; simpl; intros Ht Hs; try contradiction.
  all: try (destruct ok); try (destruct cr); unfold set_slock in *; simpl in *.
  all: repeat match goal with H : _ /\ _ |- _ => destruct H end; subst; simpl in *; try discriminate.
  all: try (destruct p; simpl in * ); repeat split; auto; try congruence.
Qed.

Lemma spawned_step st l st' j : step st l = Some st' -> spawned_at st j -> spawned_at st' j.
Proof.
  intros H (jb & Hn & Hs). destruct (step_job_fwd _ _ _ _ _ H Hn) as [(Hn' & _) | (_ & jb' & Hn' & Ht)].
  - exists jb; auto.
  - exists jb'. split; auto. apply (job_trans_spawned _ _ _ _ Ht Hs).
Qed.

Lemma settled_step st l st' j : step st l = Some st' -> settled_at st j -> settled_at st' j.
Proof.
  intros H (jb & Hn & Hs & Hp). destruct (step_job_fwd _ _ _ _ _ H Hn) as [(Hn' & _) | (_ & jb' & Hn' & Ht)].
  - exists jb; auto.
  - exists jb'. split; auto. destruct (job_trans_spawned _ _ _ _ Ht Hs) as (A & B & _). auto.
Qed.

Lemma cancel_settles st k j st' : step st (LSdCancel k j) = Some st' -> spawned_at st j -> settled_at st' j.
Proof.
  intros H (jb & Hn & Hs). destruct (step_job_fwd _ _ _ _ _ H Hn) as [(_ & Hne) | (_ & jb' & Hn' & Ht)].
  - simpl in Hne. congruence.
  - exists jb'. split; auto. destruct (job_trans_spawned _ _ _ _ Ht Hs) as (A & _ & C). auto.
Qed.

Lemma run_settled sched : forall st st' j, settled_at st j -> run st sched = Some st' -> settled_at st' j.
Proof.
  induction sched; simpl; intros st st' j S H.
  - inversion H; subst; auto.
  - destruct (step st a) eqn:E; try discriminate. eapply IHsched; [|eauto]. eapply settled_step; eauto.
Qed.

Lemma run_spawned sched : forall st st' j, spawned_at st j -> run st sched = Some st' -> spawned_at st' j.
Proof.
  induction sched; simpl; intros st st' j S H.
  - inversion H; subst; auto.
  - destruct (step st a) eqn:E; try discriminate. eapply IHsched; [|eauto]. eapply spawned_step; eauto.
Qed.

Lemma settled_not_running st j : settled_at st j -> running st j = false.
Proof. intros (jb & Hn & _ & Hp). unfold running. rewrite Hn. destruct (proc jb); auto. congruence. Qed.

Lemma spawned_after_popen st st' pre j :
  run st pre = Some st' -> In (LPopen j true) pre -> spawned_at st' j.
Proof.
  intros H Hin. destruct (run_In _ _ _ _ H Hin) as (a & b & s1 & s2 & -> & Ha & Hs & Hb).
  eapply run_spawned; [|eauto]. apply step_jobs in Hs. simpl in Hs.
  destruct Hs as (jb & jb' & Hn & Hjs & _ & ->). eexists. split.
  - rewrite Hjs. apply nth_set_nth_eq. apply nth_error_Some. congruence.
  - reflexivity.
Qed.

Lemma cancel_kills cfgs waits sched st j :
  run (init cfgs waits) sched = Some st -> cancelled_while_spawned j sched -> running st j = false.
Proof.
  intros H (pre & post & k & -> & Hin).
  destruct (run_split _ _ _ _ _ H) as (s1 & s2 & Ha & Hs & Hb).
  apply settled_not_running. eapply run_settled; [|eauto].
  eapply cancel_settles; eauto. eapply spawned_after_popen; eauto.
Qed.

(* ... and shutdown() has run such a cancel task for every process that existed when it took
   the lock, by the time it returns (either kind of shutdown) *)
(* (4) shutdown() never terminates with an exception *)
Lemma shutdown_never_raises cfgs waits sched st k :
  run (init cfgs waits) sched = Some st -> ~ shutdown_raised k sched.
Proof.
  intros H Hin. destruct (run_In _ _ _ _ H Hin) as (a & b & s1 & s2 & _ & _ & Hs & _).
  simpl in Hs. discriminate.
Qed.

(* (5) the full clause (was refuted: F6, repaired by 1eaaf0c): when ANY shutdown() call has returned no
   solver process runs -- and none will be spawned: a job whose cancel was requested never spawns *)
Lemma creq_not_running st j jb :
  inv st -> nth_error (jobs st) j = Some jb -> creq jb = true -> proc jb <> PRun /\ wpc jb <> WSpawn.
Proof. intros (G & _) Hn Hc. apply (Forall_nth _ _ _ _ (g_jobs2 _ G) Hn); auto. Qed.

Lemma no_process_after_shutdown cfgs waits sched st k :
  run (init cfgs waits) sched = Some st -> returned st k = true -> forall j, running st j = false.
Proof.
  intros H Hr j.
  assert (I : inv st) by (eapply run_inv; [apply init_inv|eauto]).
  pose proof Hr as Hr0. unfold returned in Hr. destruct (nth_error (sds st) k) as [s|] eqn:Hn; try discriminate.
  destruct (dpc s) eqn:Hd; try discriminate.
  pose proof (swait_of _ _ _ _ _ _ H Hn) as Hw.
  destruct (swait s) eqn:Ew.
  - apply (wait_shutdown_complete _ _ _ _ _ H Hw Hr0 j).
  - destruct I as (G & S). pose proof (s_cancel _ S _ _ Hn Ew) as Hc. rewrite Hd in Hc.
    unfold running. destruct (nth_error (jobs st) j) as [jb|] eqn:Hjb; auto.
    destruct (proc jb) eqn:Hp; auto. exfalso.
    assert (Hreg : In j (reg st)).
    { apply (job_running_registered st j jb (conj G S) Hjb).
      pose proof (Forall_nth _ _ _ _ (g_jobs _ G) Hjb) as Hok. unfold job_ok in Hok.
      intros Hwn. rewrite Hwn in Hok. intuition congruence. }
    specialize (Hc j Hreg). unfold creq_at in Hc. rewrite Hjb in Hc.
    destruct (creq_not_running st j jb (conj G S) Hjb Hc). congruence.
Qed.

Lemma run_creq sched : forall st st' j, creq_at st j = true -> run st sched = Some st' -> creq_at st' j = true.
Proof.
  induction sched; simpl; intros st st' j C H.
  - inversion H; subst; auto.
  - destruct (step st a) eqn:E; try discriminate. eapply IHsched; [|eauto]. eapply creq_mono; eauto.
Qed.

Lemma no_spawn_after_cancel cfgs waits sched st j :
  run (init cfgs waits) sched = Some st -> ~ spawned_after_cancel j sched.
Proof.
  intros H (pre & post & k & -> & Hin).
  destruct (run_split _ _ _ _ _ H) as (s1 & s2 & Ha & Hs & Hb).
  assert (I2 : inv s2).
  { eapply step_inv_pres; eauto. eapply run_inv; [apply init_inv|eauto]. }
  pose proof (cancel_sets_creq _ _ _ _ Hs) as C2.
  destruct (run_In _ _ _ _ Hb Hin) as (a & b & s3 & s4 & -> & Ha3 & Hs3 & _).
  assert (I3 : inv s3) by (eapply run_inv; eauto).
  pose proof (run_creq _ _ _ _ C2 Ha3) as C3.
  apply step_jobs in Hs3. simpl in Hs3. destruct Hs3 as (jb & jb' & Hn & _ & Hw & _).
  unfold creq_at in C3. rewrite Hn in C3.
  destruct (creq_not_running _ _ _ I3 Hn C3). congruence.
Qed.

(* ------------------------------------------------------------------ cancel(): kill escalation and exception paths *)
Lemma kill_kills jb : proc jb = PRun -> proc (kill jb) = PDead.
Proof. intros H. rewrite kill_unfold. unfold fin0, cancel0, kill0, set_creq, set_slock. rewrite H. reflexivity. Qed.
