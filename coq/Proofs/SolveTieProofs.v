(* Proofs for C04: the hand-written control-flow model (SolveModel.from_result / solve_e2e)
   agrees with what T-solvedispatch regenerates from solve.py: the `match first_line` of
   SolverOutput.from_result and the refinement guard of solve_end_to_end. *)
From Coq Require Import ZArith List String Ascii Bool Lia.
From HV Require Import Model.SexpDefs Gen.GenRefine Spec.SmtQuerySpec Model.SmtTextModel
  Model.SolveModel Model.SolveFsDefs Gen.GenSolveFs Model.SolveFsModel.
From HV Require Spec.VerdictSpec Gen.GenSolveDispatch.
Import ListNotations.
Open Scope Z_scope.

Lemma from_result_class : forall out,
  class_of (from_result out) = GenSolveDispatch.first_line_class (first_line out).
Proof.
  intros out. unfold from_result, GenSolveDispatch.first_line_class.
  destruct (String.eqb (first_line out) "unsat") eqn:E1;
  destruct (String.eqb (first_line out) "sat") eqn:E2;
  destruct (String.eqb (first_line out) "unknown") eqn:E3; try reflexivity;
  (* a generated dispatch that tests the words in another order still agrees: two words
     cannot both be the first line *)
  repeat match goal with H : String.eqb _ _ = true |- _ => apply String.eqb_eq in H end;
  congruence.
Qed.

Lemma markers_agree : GenSolveDispatch.invalid_marker = GenRefine.invalid_marker.
Proof. reflexivity. Qed.

Lemma solve_e2e_by_guard : forall core_hit is_refined out1 changes out2,
  solve_e2e core_hit is_refined out1 changes out2 =
  if core_hit then (OUnsat, 0)
  else if GenSolveDispatch.refine_guard (out_is_sat (from_result out1)) (out_valid (from_result out1)) is_refined
          && changes
       then (from_result out2, 2)
       else (from_result out1, 1).
Proof.
  intros core_hit is_refined out1 changes out2. unfold solve_e2e, GenSolveDispatch.refine_guard.
  destruct core_hit; [reflexivity|].
  destruct (from_result out1) as [|v s| |]; cbn [out_is_sat out_valid andb negb]; try reflexivity.
  destruct v, is_refined, changes; reflexivity.
Qed.
