(* Proofs about the REGENERATED decision function of SEVM.jumpi (Gen/GenJumpi.v).
   Robust to harmless rewrites of the Python: only destruct/lia-style reasoning. *)
From Coq Require Import ZArith Bool Lia.
From HV Require Import Gen.GenJumpi.
Open Scope Z_scope.

Ltac jumpi_crush :=
  unfold jumpi_decide; cbn [d_follow_true d_follow_false d_logged d_potential_true d_potential_false d_symbolic];
  repeat match goal with
         | |- context [Z.eqb ?a ?b] => destruct (Z.eqb_spec a b)
         | |- context [Z.ltb ?a ?b] => destruct (Z.ltb_spec a b)
         | |- context [Z.leb ?a ?b] => destruct (Z.leb_spec a b)
         | |- context [Z.gtb ?a ?b] => rewrite (Z.gtb_ltb a b)
         | |- context [Z.geb ?a ?b] => rewrite (Z.geb_leb a b)
         end; cbn; try lia; try tauto; try congruence; auto.

(* a branch side is abandoned only if its feasibility check answered unsat, or the
   loop-bound log is written -- whatever the solver answered (sat / unknown / timeout) *)
Lemma cover_true : forall ct cf vt vf loop,
  ct <> R_UNSAT ->
  d_follow_true (jumpi_decide ct cf vt vf loop) = true \/ d_logged (jumpi_decide ct cf vt vf loop) = true.
Proof. intros ct cf vt vf loop H. unfold R_UNSAT in H. jumpi_crush. Qed.

Lemma cover_false : forall ct cf vt vf loop,
  cf <> R_UNSAT ->
  d_follow_false (jumpi_decide ct cf vt vf loop) = true \/ d_logged (jumpi_decide ct cf vt vf loop) = true.
Proof. intros ct cf vt vf loop H. unfold R_UNSAT in H. jumpi_crush. Qed.

(* with a decided condition only one side is followed: both sides followed means the
   condition is symbolic (used for the invalid-destination case of SEVM.jumpi) *)
Lemma both_followed_symbolic : forall ct cf vt vf loop,
  d_follow_true (jumpi_decide ct cf vt vf loop) = true ->
  d_follow_false (jumpi_decide ct cf vt vf loop) = true ->
  d_symbolic (jumpi_decide ct cf vt vf loop) = true.
Proof. intros ct cf vt vf loop. jumpi_crush. Qed.

(* a side that is followed was not proved infeasible *)
Lemma follow_true_potential : forall ct cf vt vf loop,
  d_follow_true (jumpi_decide ct cf vt vf loop) = true -> ct <> R_UNSAT.
Proof. intros ct cf vt vf loop. unfold R_UNSAT. jumpi_crush. Qed.

Lemma follow_false_potential : forall ct cf vt vf loop,
  d_follow_false (jumpi_decide ct cf vt vf loop) = true -> cf <> R_UNSAT.
Proof. intros ct cf vt vf loop. unfold R_UNSAT. jumpi_crush. Qed.

(* loops whose condition is decided (one side sat, the other unsat) are never cut and never
   logged, for every loop bound including 0 and every visit count *)
Lemma const_never_cut_true : forall vt vf loop,
  let d := jumpi_decide R_SAT R_UNSAT vt vf loop in
  d_follow_true d = true /\ d_follow_false d = false /\ d_logged d = false.
Proof. intros vt vf loop. unfold R_SAT, R_UNSAT. cbv zeta. repeat split; jumpi_crush. Qed.

Lemma const_never_cut_false : forall vt vf loop,
  let d := jumpi_decide R_UNSAT R_SAT vt vf loop in
  d_follow_true d = false /\ d_follow_false d = true /\ d_logged d = false.
Proof. intros vt vf loop. unfold R_SAT, R_UNSAT. cbv zeta. repeat split; jumpi_crush. Qed.

(* whenever a potentially feasible side is not followed the bounded-loop log is written *)
Lemma cut_logged : forall ct cf vt vf loop,
  let d := jumpi_decide ct cf vt vf loop in
  (d_potential_true d = true /\ d_follow_true d = false) \/
  (d_potential_false d = true /\ d_follow_false d = false) ->
  d_logged d = true.
Proof. intros ct cf vt vf loop. cbv zeta. jumpi_crush. Qed.

(* under the bound nothing is cut *)
Lemma within_bound : forall ct cf vt vf loop,
  vt < loop -> vf < loop ->
  let d := jumpi_decide ct cf vt vf loop in
  d_follow_true d = d_potential_true d /\ d_follow_false d = d_potential_false d /\ d_logged d = false.
Proof. intros ct cf vt vf loop H1 H2. cbv zeta. repeat split; jumpi_crush. Qed.

Lemma potential_def : forall ct cf vt vf loop,
  let d := jumpi_decide ct cf vt vf loop in
  d_potential_true d = negb (ct =? R_UNSAT) /\ d_potential_false d = negb (cf =? R_UNSAT).
Proof. intros. cbv zeta. unfold R_UNSAT. split; jumpi_crush. Qed.
