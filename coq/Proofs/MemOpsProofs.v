(* Proofs about Model/MemOpsModel.v (how sevm.py drives ByteVec for the memory
   instructions) against Spec/MemSpec.v (EVM memory semantics on flat arrays).
   1. wiring: the definitions regenerated from the Python (Gen/GenMemWire.v,
      Gen/GenCodeSlice.v) meet what the flat semantics needs -- stated as requirements
      (a copy is skipped only when there is nothing to copy, start = offset, stop =
      offset + size, ...), not as syntactic equalities, so that an equivalent guard in the
      Python still passes while a wrong offset / bound / operand order does not;
   2. each wrapper / instruction refines the flat operation; 3. operation sequences incl.
      message calls; 4. pointwise reading of the specification. *)
From Coq Require Import List Arith Bool Lia ZArith.
From HV Require Import Spec.ByteVecSpec Spec.MemSpec Gen.GenMemWire Gen.GenCodeSlice
  Model.ByteVecModel Model.MemOpsModel Proofs.ByteVecProofs.
Import ListNotations.
Local Open Scope nat_scope.

(* ------------------------------------------------------------------ 1. wiring *)

Ltac bool_cases :=
  repeat match goal with
  | |- context [Z.eqb ?a ?b] => destruct (Z.eqb_spec a b)
  | |- context [Z.ltb ?a ?b] => destruct (Z.ltb_spec a b)
  | |- context [Z.leb ?a ?b] => destruct (Z.leb_spec a b)
  | |- context [Nat.eqb ?a ?b] => destruct (Nat.eqb_spec a b)
  | |- context [Nat.ltb ?a ?b] => destruct (Nat.ltb_spec a b)
  | |- context [Nat.leb ?a ?b] => destruct (Nat.leb_spec a b)
  end; cbn [negb andb orb]; try reflexivity; try discriminate; try lia.

Ltac wire :=
  unfold zn2, zn3, zb1, zb2, zb3, zb4; rewrite ?Z.gtb_ltb, ?Z.geb_leb;
  try lia; try (intros Hwire; revert Hwire); bool_cases; intros; try discriminate; try lia.

(* State.mslice: the early empty result only for size 0; reads [loc, loc + size) *)
Lemma w_mslice : forall loc size,
  (zb2 mslice_empty loc size = true -> size = 0) /\
  zn2 mslice_start loc size = loc /\ zn2 mslice_stop loc size = loc + size.
Proof.
  intros. unfold mslice_empty, mslice_start, mslice_stop. repeat split; wire.
Qed.

(* State.set_mslice: skipped only for empty data; writes [loc, loc + len(data)) *)
Lemma w_set_mslice : forall loc size,
  (zb2 set_mslice_skip loc size = true -> size = 0) /\
  zn2 set_mslice_start loc size = loc /\ zn2 set_mslice_stop loc size = loc + size.
Proof.
  intros. unfold set_mslice_skip, set_mslice_start, set_mslice_stop. repeat split; wire.
Qed.

Lemma w_calldata_slice : forall start size,
  zn2 calldata_slice_start start size = start /\ zn2 calldata_slice_stop start size = start + size.
Proof.
  intros. unfold calldata_slice_start, calldata_slice_stop. split; wire.
Qed.

(* a creation frame, whose message data is the init code, has an empty calldata *)
Lemma w_calldata_create : calldata_empty_in_create 0%Z = true.
Proof. reflexivity. Qed.

(* copy_returndata_to_memory: nothing written only when min(ret_size, actual) = 0; the
   partial copy is [0, min(ret_size, actual)); the whole object only when all of it fits *)
Lemma w_retcopy : forall ret_size actual,
  (zb2 retcopy_skip ret_size actual = true -> Nat.min ret_size actual = 0) /\
  (zb2 retcopy_partial ret_size actual = true ->
     zn2 retcopy_slice_start ret_size actual = 0 /\
     zn2 retcopy_slice_stop ret_size actual = Nat.min ret_size actual) /\
  (zb2 retcopy_partial ret_size actual = false -> actual <= ret_size).
Proof.
  intros. unfold retcopy_skip, retcopy_partial, retcopy_slice_start, retcopy_slice_stop.
  split; [|split]; [wire | intros _; split; wire | wire].
Qed.

(* CALLDATACOPY / CODECOPY / EXTCODECOPY: operands (destOffset, offset, size) in stack order;
   the copy is skipped only for size 0; source = wrapper(offset, size); destination =
   destOffset *)
Lemma w_calldatacopy : forall loc off size,
  (zb3 calldatacopy_do loc off size = false -> size = 0) /\ zn3 calldatacopy_a1 loc off size = off /\
  zn3 calldatacopy_a2 loc off size = size /\ zn3 calldatacopy_dst loc off size = loc.
Proof.
  intros. unfold calldatacopy_do, calldatacopy_a1, calldatacopy_a2, calldatacopy_dst. repeat split; wire.
Qed.
Lemma w_codecopy : forall loc off size,
  (zb3 codecopy_do loc off size = false -> size = 0) /\ zn3 codecopy_a1 loc off size = off /\
  zn3 codecopy_a2 loc off size = size /\ zn3 codecopy_dst loc off size = loc.
Proof.
  intros. unfold codecopy_do, codecopy_a1, codecopy_a2, codecopy_dst. repeat split; wire.
Qed.
Lemma w_extcodecopy : forall loc off size,
  (zb3 extcodecopy_do loc off size = false -> size = 0) /\ zn3 extcodecopy_a1 loc off size = off /\
  zn3 extcodecopy_a2 loc off size = size /\ zn3 extcodecopy_dst loc off size = loc /\
  (* an account without code: size zero bytes, wherever the empty sequence is read *)
  zn3 extcodecopy_none_stop loc off size = zn3 extcodecopy_none_start loc off size + size.
Proof.
  intros. unfold extcodecopy_do, extcodecopy_a1, extcodecopy_a2, extcodecopy_dst,
    extcodecopy_none_start, extcodecopy_none_stop. repeat split; wire.
Qed.
(* RETURNDATACOPY: halts iff offset + size > RETURNDATASIZE; source = slice(offset, offset + size) *)
Lemma w_returndatacopy : forall loc off size rdsize,
  zb4 returndatacopy_oob loc off size rdsize = (rdsize <? off + size) /\
  (zb3 returndatacopy_do loc off size = false -> size = 0) /\ zn3 returndatacopy_a1 loc off size = off /\
  zn3 returndatacopy_a2 loc off size = off + size /\ zn3 returndatacopy_dst loc off size = loc.
Proof.
  intros. unfold returndatacopy_oob, returndatacopy_do, returndatacopy_a1, returndatacopy_a2, returndatacopy_dst.
  repeat split; wire.
Qed.
(* MCOPY: operands (dst, src, size) *)
Lemma w_mcopy : forall dst src size,
  (zb3 mcopy_do dst src size = false -> size = 0) /\ zn3 mcopy_a1 dst src size = src /\
  zn3 mcopy_a2 dst src size = size /\ zn3 mcopy_dst dst src size = dst.
Proof.
  intros. unfold mcopy_do, mcopy_a1, mcopy_a2, mcopy_dst. repeat split; wire.
Qed.
(* Contract.slice: the fast path only when the request lies inside the concrete prefix *)
Lemma w_code_slice : forall start size fclen,
  (zb3 code_slice_fast start size fclen = true -> start + size <= fclen) /\
  zn2 code_fast_lo start size = start /\ zn2 code_fast_hi start size = start + size /\
  zn2 code_slow_start start size = start /\ zn2 code_slow_stop start size = start + size.
Proof.
  intros. unfold code_slice_fast, code_fast_lo, code_fast_hi, code_slow_start, code_slow_stop.
  repeat split; wire.
Qed.

Lemma w_msize_round : forall n, Z.to_nat (msize_round (Z.of_nat n)) = round32 n.
Proof.
  intros n. unfold msize_round, round32. rewrite <- (Nat2Z.id ((n + 31) / 32 * 32)). f_equal.
  rewrite Nat2Z.inj_mul, Nat2Z.inj_div, Nat2Z.inj_add. reflexivity.
Qed.

(* ------------------------------------------------------------------ spec-side list facts *)

Section SpecFacts.
Variable B : Type.
Variable zero : B.

Notation read_padded := (read_padded B zero).
Notation mem_write := (mem_write B zero).
Notation mem_copy := (mem_copy B zero).
Notation fa_slice := (fa_slice B zero).
Notation fa_set_slice := (fa_set_slice B zero).
Notation fa_set_byte := (fa_set_byte B zero).

Lemma fa_slice_read_padded : forall (l : list B) a n, fa_slice l a (a + n) = read_padded l a n.
Proof.
  intros l a n. unfold ByteVecSpec.fa_slice, MemSpec.read_padded, zeros.
  replace (a + n - a) with n by lia. reflexivity.
Qed.

Lemma read_padded_length : forall (l : list B) off size, length (read_padded l off size) = size.
Proof. intros. rewrite <- fa_slice_read_padded, fa_slice_length. lia. Qed.

Lemma read_padded_0 : forall (l : list B) off, read_padded l off 0 = [].
Proof. intros. reflexivity. Qed.

Lemma mem_write_nil : forall (l : list B) loc, mem_write l loc [] = l.
Proof. reflexivity. Qed.

Lemma fa_set_slice_mem_write : forall (l : list B) loc data,
  fa_set_slice l loc (loc + length data) data = Some (mem_write l loc data).
Proof.
  intros l loc data. destruct data as [|x r].
  - cbn [length]. unfold ByteVecSpec.fa_set_slice. rewrite Nat.add_0_r, Nat.eqb_refl. reflexivity.
  - rewrite fa_set_slice_some by (cbn [length]; lia).
    unfold MemSpec.mem_write, zext, zeros. reflexivity.
Qed.

Lemma fa_set_byte_mem_write : forall (l : list B) off x, fa_set_byte l off x = mem_write l off [x].
Proof. intros. unfold ByteVecSpec.fa_set_byte, MemSpec.mem_write, zext, zeros. reflexivity. Qed.

Lemma length_zero_nil : forall (l : list B), length l = 0 -> l = [].
Proof. intros l H. destruct l; [reflexivity | discriminate]. Qed.

End SpecFacts.

(* ------------------------------------------------------------------ 2./3. the wrappers *)

Section Wrappers.
Variable B : Type.
Variable zero : B.

Notation chunk := (chunk B).
Notation bvec := (bvec B).
Notation bslice := (bslice B zero).
Notation set_slice := (set_slice B zero).
Notation mslice := (mslice zero).
Notation set_mslice := (set_mslice zero).
Notation calldata_slice := (calldata_slice zero).
Notation contract_slice := (contract_slice zero).
Notation copy_returndata_to_memory := (copy_returndata_to_memory zero).
Notation read_padded := (read_padded B zero).
Notation mem_write := (mem_write B zero).
Notation mem_copy := (mem_copy B zero).

Lemma as_chunk_wfc : forall (v : bvec), wf v -> wfc (as_chunk None v).
Proof. intros v H. constructor. exact H. Qed.

Lemma as_chunk_flat : forall (v : bvec), cflat (as_chunk None v) = flat v.
Proof. intros v. unfold as_chunk. rewrite cflat_nest, flat_flatl. reflexivity. Qed.

Lemma empty_flat : flat (@empty B) = [].
Proof. reflexivity. Qed.

(* State.mslice reads size bytes at loc, zero padded *)
Lemma mslice_correct : forall (mem : bvec) loc size, wf mem ->
  wf (mslice mem loc size) /\ flat (mslice mem loc size) = read_padded (flat mem) loc size /\
  blen (mslice mem loc size) = size.
Proof.
  intros mem loc size H. unfold MemOpsModel.mslice.
  destruct (w_mslice loc size) as (He & -> & ->).
  destruct (zb2 mslice_empty loc size).
  - rewrite (He eq_refl). split; [apply wf_empty | split; reflexivity].
  - destruct (bslice_correct B zero mem loc (loc + size) H) as (H1 & H2 & H3).
    rewrite fa_slice_read_padded in H2. split; [exact H1 | split; [exact H2 | lia]].
Qed.

(* State.set_mslice writes the bytes of data at loc (nothing for empty data); it never raises *)
Lemma set_mslice_correct : forall (mem : bvec) loc (data : bvec), wf mem -> wf data ->
  exists m', set_mslice mem loc data = Some m' /\ wf m' /\ flat m' = mem_write (flat mem) loc (flat data).
Proof.
  intros mem loc data Hm Hd. unfold MemOpsModel.set_mslice.
  pose proof (flat_length B data Hd) as HL.
  destruct (w_set_mslice loc (blen data)) as (Hs & -> & ->).
  destruct (zb2 set_mslice_skip loc (blen data)).
  - exists mem. split; [reflexivity | split; [exact Hm|]].
    rewrite (length_zero_nil B (flat data)) by (rewrite HL; apply Hs; reflexivity). reflexivity.
  - pose proof (set_slice_correct B zero mem loc (loc + blen data) (as_chunk None data) Hm (as_chunk_wfc data Hd)) as H.
    rewrite as_chunk_flat in H.
    assert (Hfs : fa_set_slice B zero (flat mem) loc (loc + blen data) (flat data) =
                  Some (mem_write (flat mem) loc (flat data))).
    { rewrite <- HL. apply fa_set_slice_mem_write. }
    rewrite Hfs in H. exact H.
Qed.

Lemma calldata_slice_correct : forall (cd : bvec) start size, wf cd ->
  wf (calldata_slice cd start size) /\ flat (calldata_slice cd start size) = read_padded (flat cd) start size.
Proof.
  intros cd start size H. unfold MemOpsModel.calldata_slice.
  destruct (w_calldata_slice start size) as (-> & ->).
  destruct (bslice_correct B zero cd start (start + size) H) as (H1 & H2 & _).
  rewrite fa_slice_read_padded in H2. split; assumption.
Qed.

Lemma of_bytes_correct : forall d : list B, wf (of_bytes d) /\ flat (of_bytes d) = d.
Proof.
  intros d. unfold of_bytes.
  assert (Hc : wfc (wrap false d)) by (constructor; lia).
  destruct (append_correct B empty (wrap false d) (wf_empty B) Hc) as (H1 & H2 & _).
  split; [exact H1|]. rewrite H2. cbn [flat empty chunks flat_map app wrap cflat skipn].
  apply firstn_all.
Qed.

(* the concrete prefix is a prefix of what the code denotes *)
Lemma fastcode_prefix : forall (code : bvec) fc, wf code -> fastcode code = Some fc ->
  exists rest, flat code = fc ++ rest.
Proof.
  intros code fc Hw Hf. unfold fastcode in Hf. unfold wf in Hw. rewrite flat_flatl.
  destruct (chunks code) as [|[k c] r]; [discriminate|].
  destruct c as [sym d s l | ? ? ?]; [|discriminate]. destruct sym; [discriminate|].
  inversion Hf; subst fc; clear Hf. exists (flatl B r). rewrite flatl_cons. reflexivity.
Qed.

(* Contract.slice(start, size), fast path included, reads size bytes at start, zero padded *)
Lemma contract_slice_correct : forall (code : bvec) start size, wf code ->
  wf (contract_slice code start size) /\
  flat (contract_slice code start size) = read_padded (flat code) start size.
Proof.
  intros code start size H. unfold MemOpsModel.contract_slice.
  assert (Hslow : wf (bslice code start (start + size)) /\
                  flat (bslice code start (start + size)) = read_padded (flat code) start size).
  { destruct (bslice_correct B zero code start (start + size) H) as (H1 & H2 & _).
    rewrite fa_slice_read_padded in H2. split; assumption. }
  destruct (fastcode code) as [fc|] eqn:Ef.
  2:{ destruct (w_code_slice start size 0) as (_ & _ & _ & -> & ->). exact Hslow. }
  destruct (w_code_slice start size (length fc)) as (Hfast & -> & -> & -> & ->).
  destruct (negb (length fc =? 0) && zb3 code_slice_fast start size (length fc)) eqn:Ec; [|exact Hslow].
  apply andb_prop in Ec. destruct Ec as [_ Ec]. apply Hfast in Ec.
  destruct (fastcode_prefix code fc H Ef) as [rest Hr].
  unfold py_bytes_slice. replace (start + size - start) with size by lia.
  destruct (of_bytes_correct (firstn size (skipn start fc))) as [H1 H2].
  split; [exact H1|]. rewrite H2, Hr. unfold MemSpec.read_padded.
  rewrite skipn_app. replace (start - length fc) with 0 by lia. cbn [skipn].
  rewrite <- app_assoc. rewrite firstn_app.
  replace (size - length (skipn start fc)) with 0 by (rewrite skipn_length; lia).
  cbn [firstn]. rewrite app_nil_r. reflexivity.
Qed.

(* an account without code reads as zeros, whatever offset the empty sequence is read at *)
Lemma read_padded_nil : forall off size, read_padded [] off size = repeat zero size.
Proof.
  intros off size. unfold MemSpec.read_padded. rewrite skipn_nil. cbn [app].
  rewrite <- (repeat_length zero size) at 1. apply firstn_all.
Qed.

Lemma empty_slice_correct : forall a off size,
  wf (bslice empty a (a + size)) /\ flat (bslice empty a (a + size)) = read_padded [] off size.
Proof.
  intros a off size. destruct (bslice_correct B zero empty a (a + size) (wf_empty B)) as (H1 & H2 & _).
  rewrite fa_slice_read_padded in H2. change (flat (@empty B)) with (@nil B) in H2.
  rewrite read_padded_nil in H2. rewrite read_padded_nil. split; assumption.
Qed.

(* copy_returndata_to_memory writes the first min(ret_size, len) bytes of the returndata *)
Lemma copy_returndata_correct : forall (rd : bvec) ret_loc ret_size (mem : bvec), wf rd -> wf mem ->
  exists m', copy_returndata_to_memory rd ret_loc ret_size mem = Some m' /\ wf m' /\
             flat m' = mem_write (flat mem) ret_loc (firstn (Nat.min ret_size (length (flat rd))) (flat rd)).
Proof.
  intros rd ret_loc ret_size mem Hr Hm. unfold MemOpsModel.copy_returndata_to_memory.
  pose proof (flat_length B rd Hr) as HL. rewrite HL.
  destruct (w_retcopy ret_size (blen rd)) as (Hskip & Hpart & Hwhole).
  destruct (zb2 retcopy_skip ret_size (blen rd)).
  - exists mem. rewrite (Hskip eq_refl). split; [reflexivity | split; [exact Hm | reflexivity]].
  - destruct (zb2 retcopy_partial ret_size (blen rd)).
    + destruct (Hpart eq_refl) as [-> ->].
      destruct (bslice_correct B zero rd 0 (Nat.min ret_size (blen rd)) Hr) as (H1 & H2 & _).
      destruct (set_mslice_correct mem ret_loc (bslice rd 0 (Nat.min ret_size (blen rd))) Hm H1) as (m' & Hs & Hw & Hf).
      exists m'. split; [exact Hs | split; [exact Hw|]]. rewrite Hf, H2.
      rewrite fa_slice_in by lia. rewrite Nat.sub_0_r. reflexivity.
    + specialize (Hwhole eq_refl).
      destruct (set_mslice_correct mem ret_loc rd Hm Hr) as (m' & Hs & Hw & Hf).
      exists m'. split; [exact Hs | split; [exact Hw|]]. rewrite Hf.
      rewrite firstn_all2 by lia. reflexivity.
Qed.

End Wrappers.

(* ------------------------------------------------------------------ 3./4. instructions, sequences *)

Section Ops.
Variable B : Type.
Variable zero : B.

Notation chunk := (chunk B).
Notation bvec := (bvec B).
Notation mframe := (mframe B).
Notation menv := (menv B).
Notation mb_apply := (mb_apply zero).
Notation mb_run := (mb_run zero).
Notation m_apply := (m_apply zero).
Notation m_run := (m_run zero).
Notation fb_apply := (fb_apply B zero).
Notation fb_run := (fb_run B zero).
Notation f_apply := (f_apply B zero).
Notation f_run := (f_run B zero).
Notation read_padded := (read_padded B zero).
Notation mem_write := (mem_write B zero).
Notation mem_copy := (mem_copy B zero).

(* the statement shape shared by all levels *)
Definition refines (spec : option (fframe B)) (got : mres mframe) : Prop :=
  match spec with
  | Some fst => exists st', got = ROk st' /\ wf_frame st' /\ abs_frame st' = fst
  | None => got = RHalt
  end.

(* a memory write through set_mslice / set_word / set_byte, lifted to the frame *)
Lemma lift_refines : forall (st : mframe) (r : option bvec) (l : list B),
  wf_frame st ->
  (exists m', r = Some m' /\ wf m' /\ flat m' = l) ->
  refines (Some (FF l (flat (m_rd st)))) (lift st r).
Proof.
  intros st r l [_ Hrd] (m' & -> & Hw & Hf). cbn [lift refines].
  exists (MF m' (m_rd st)). split; [reflexivity|]. split; [split; assumption|].
  unfold abs_frame. cbn [m_mem m_rd]. rewrite Hf. reflexivity.
Qed.

Lemma set_word_correct : forall (mem : bvec) loc (val : chunk), wf mem -> wfc val -> clen val = 32 ->
  exists m', set_word B zero mem loc val = Some m' /\ wf m' /\ flat m' = mem_write (flat mem) loc (cflat val).
Proof.
  intros mem loc val Hm Hv Hl. unfold set_word.
  pose proof (set_slice_correct B zero mem loc (loc + 32) val Hm Hv) as H.
  pose proof (cflat_length B val Hv) as HL.
  assert (Hfs : fa_set_slice B zero (flat mem) loc (loc + 32) (cflat val) =
                Some (mem_write (flat mem) loc (cflat val))).
  { replace 32 with (length (cflat val)) by lia. apply fa_set_slice_mem_write. }
  rewrite Hfs in H. exact H.
Qed.

Lemma word_chunk_correct : forall (mem : bvec) src, wf mem ->
  wfc (word_chunk (get_word B zero mem src)) /\ clen (word_chunk (get_word B zero mem src)) = 32 /\
  cflat (word_chunk (get_word B zero mem src)) = read_padded (flat mem) src 32.
Proof.
  intros mem src H. pose proof (get_word_correct B zero mem src H) as Hg.
  unfold fa_word in Hg. rewrite fa_slice_read_padded in Hg.
  unfold word_chunk. rewrite Hg. rewrite read_padded_length.
  split; [constructor; rewrite read_padded_length; lia|]. split; [reflexivity|].
  cbn [cflat skipn]. rewrite <- (read_padded_length B zero (flat mem) src 32) at 1. apply firstn_all.
Qed.

Lemma size0_refines : forall (st : mframe), wf_frame st ->
  refines (Some (FF (flat (m_mem st)) (flat (m_rd st)))) (ROk st).
Proof. intros st H. exists st. split; [reflexivity | split; [exact H | reflexivity]]. Qed.

(* every instruction refines its flat counterpart; it halts exactly when the EVM does;
   no Python exception escapes *)
Lemma mb_apply_correct : forall (e : menv) (st : mframe) (o : mbop B),
  wf_env e -> wf_frame st -> mbop_ok o ->
  refines (fb_apply (abs_env e) (abs_frame st) (abs_mbop o)) (mb_apply e st o).
Proof.
  intros e st o [Hcd Hcode] Hst Hok. pose proof Hst as [Hm Hrd].
  destruct o as [loc val | loc sym x | s loc off size | loc off size | dst src size | src dst];
    unfold abs_env, abs_frame;
    cbn [abs_mbop MemSpec.fb_apply MemOpsModel.mb_apply f_mem f_rd f_cd f_code].
  - (* MSTORE *)
    destruct Hok as [Hv Hl]. apply lift_refines; [exact Hst|]. apply set_word_correct; assumption.
  - (* MSTORE8 *)
    apply lift_refines; [exact Hst|].
    destruct (set_byte_correct B zero (m_mem st) loc sym x Hm) as (m' & H1 & H2 & H3).
    exists m'. rewrite fa_set_byte_mem_write in H3. auto.
  - (* CALLDATACOPY / CODECOPY / EXTCODECOPY *)
    unfold MemSpec.mem_copy.
    destruct s as [| | c]; cbn [abs_src src_bytes f_cd f_code].
    + destruct (w_calldatacopy loc off size) as (Hdo & -> & -> & ->).
      destruct (zb3 calldatacopy_do loc off size).
      * apply lift_refines; [exact Hst|].
        assert (Hfc : wf (frame_calldata e) /\ flat (frame_calldata e) = (if m_create e then [] else flat (m_cd e))).
        { unfold frame_calldata. rewrite w_calldata_create, andb_true_r.
          destruct (m_create e); [split; [apply wf_empty | reflexivity] | split; [exact Hcd | reflexivity]]. }
        destruct Hfc as [Hfw Hff].
        destruct (calldata_slice_correct B zero (frame_calldata e) off size Hfw) as [H1 H2].
        rewrite Hff in H2. rewrite <- H2. apply set_mslice_correct; assumption.
      * rewrite (Hdo eq_refl), read_padded_0, mem_write_nil. apply size0_refines. exact Hst.
    + destruct (w_codecopy loc off size) as (Hdo & -> & -> & ->).
      destruct (zb3 codecopy_do loc off size).
      * apply lift_refines; [exact Hst|].
        destruct (contract_slice_correct B zero (m_code e) off size Hcode) as [H1 H2].
        rewrite <- H2. apply set_mslice_correct; assumption.
      * rewrite (Hdo eq_refl), read_padded_0, mem_write_nil. apply size0_refines. exact Hst.
    + destruct (w_extcodecopy loc off size) as (Hdo & -> & -> & -> & ->).
      destruct (zb3 extcodecopy_do loc off size).
      * apply lift_refines; [exact Hst|]. destruct c as [code|]; cbn [abs_src src_bytes].
        -- cbn [mbop_ok] in Hok.
           destruct (contract_slice_correct B zero code off size Hok) as [H1 H2].
           rewrite <- H2. apply set_mslice_correct; assumption.
        -- destruct (empty_slice_correct B zero (zn3 extcodecopy_none_start loc off size) off size) as [H1 H2].
           rewrite <- H2. apply set_mslice_correct; assumption.
      * rewrite (Hdo eq_refl).
        destruct c; cbn [abs_src src_bytes]; rewrite read_padded_0, mem_write_nil; apply size0_refines; exact Hst.
  - (* RETURNDATACOPY *)
    destruct (w_returndatacopy loc off size (blen (m_rd st))) as (-> & Hdo & -> & -> & ->).
    rewrite (flat_length B (m_rd st) Hrd).
    destruct (blen (m_rd st) <? off + size); [reflexivity|].
    unfold MemSpec.mem_copy.
    destruct (zb3 returndatacopy_do loc off size).
    + apply lift_refines; [exact Hst|].
      destruct (bslice_correct B zero (m_rd st) off (off + size) Hrd) as (H1 & H2 & _).
      rewrite fa_slice_read_padded in H2.
      rewrite <- H2. apply set_mslice_correct; assumption.
    + rewrite (Hdo eq_refl), read_padded_0, mem_write_nil. apply size0_refines. exact Hst.
  - (* MCOPY *)
    destruct (w_mcopy dst src size) as (Hdo & -> & -> & ->).
    unfold MemSpec.mem_copy.
    destruct (zb3 mcopy_do dst src size).
    + apply lift_refines; [exact Hst|].
      destruct (mslice_correct B zero (m_mem st) src size Hm) as (H1 & H2 & _).
      rewrite <- H2. apply set_mslice_correct; assumption.
    + rewrite (Hdo eq_refl), read_padded_0, mem_write_nil. apply size0_refines. exact Hst.
  - (* MLOAD ; MSTORE *)
    unfold MemSpec.mem_copy. apply lift_refines; [exact Hst|].
    destruct (word_chunk_correct (m_mem st) src Hm) as (H1 & H2 & H3).
    rewrite <- H3. apply set_word_correct; assumption.
Qed.

Lemma mb_run_correct : forall (e : menv) (ops : list (mbop B)) (st : mframe),
  wf_env e -> wf_frame st -> Forall mbop_ok ops ->
  refines (fb_run (abs_env e) (abs_frame st) (map abs_mbop ops)) (mb_run e st ops).
Proof.
  intros e ops. induction ops as [|o r IH]; intros st He Hst Hok.
  - exists st. split; [reflexivity | split; [exact Hst | reflexivity]].
  - inversion Hok as [|? ? Ho Hr]; subst. cbn [map MemSpec.fb_run MemOpsModel.mb_run].
    pose proof (mb_apply_correct e st o He Hst Ho) as H.
    destruct (fb_apply (abs_env e) (abs_frame st) (abs_mbop o)) as [fst|]; cbn [refines] in H.
    + destruct H as (st' & -> & Hw & <-). apply IH; assumption.
    + rewrite H. reflexivity.
Qed.

(* what the callee hands back: RETURN / REVERT data read with mslice, nothing after an
   exceptional halt *)
Lemma callee_correct : forall (ccode arg : bvec) (body : list (mbop B)) roff rsize,
  wf ccode -> wf arg -> Forall mbop_ok body ->
  exists rd,
    match mb_run (ME arg ccode false) (MF empty empty) body with
    | ROk cst => Some (mslice zero (m_mem cst) roff rsize)
    | RHalt => Some empty
    | RErr => None
    end = Some rd /\ wf rd /\
    flat rd = callee_returns B zero (flat ccode) (flat arg) (map abs_mbop body) roff rsize.
Proof.
  intros ccode arg body roff rsize Hc Ha Hb.
  assert (He : wf_env (ME arg ccode false)) by (split; assumption).
  assert (Hs : wf_frame (MF (@empty B) empty)) by (split; apply wf_empty).
  pose proof (mb_run_correct (ME arg ccode false) body (MF empty empty) He Hs Hb) as H.
  unfold callee_returns. unfold abs_env, abs_frame in H. cbn [m_cd m_code m_create m_mem m_rd] in H.
  change (flat (@empty B)) with (@nil B) in H.
  destruct (fb_run (FE (flat arg) (flat ccode)) (FF [] []) (map abs_mbop body)) as [fst|]; cbn [refines] in H.
  - destruct H as (cst & -> & [Hw _] & <-).
    destruct (mslice_correct B zero (m_mem cst) roff rsize Hw) as (H1 & H2 & _).
    eexists. split; [reflexivity|]. split; [exact H1|]. exact H2.
  - rewrite H. exists empty. split; [reflexivity|]. split; [apply wf_empty | reflexivity].
Qed.

(* the init frame of a creation: code = mem[loc, loc + size), empty calldata *)
Lemma init_frame_correct : forall (mem : bvec) loc size (body : list (mbop B)),
  wf mem -> Forall mbop_ok body ->
  refines (fb_run (FE [] (read_padded (flat mem) loc size)) (FF [] []) (map abs_mbop body))
          (init_frame zero mem loc size body).
Proof.
  intros mem loc size body Hm Hb. unfold init_frame.
  destruct (mslice_correct B zero mem loc size Hm) as (H1 & H2 & _).
  set (hex := mslice zero mem loc size) in *.
  assert (He : wf_env (ME hex hex true)) by (split; assumption).
  assert (Hs : wf_frame (MF (@empty B) empty)) by (split; apply wf_empty).
  pose proof (mb_run_correct (ME hex hex true) body (MF empty empty) He Hs Hb) as H.
  unfold abs_env, abs_frame in H. cbn [m_cd m_code m_create m_mem m_rd] in H.
  change (flat (@empty B)) with (@nil B) in H. rewrite H2 in H. exact H.
Qed.

(* the code of the new account is what the init code returns *)
Lemma created_correct : forall (mem : bvec) loc size (body : list (mbop B)) roff rsize,
  wf mem -> Forall mbop_ok body ->
  match init_returns B zero (flat mem) loc size (map abs_mbop body) roff rsize with
  | Some c => exists v, m_created zero mem loc size body roff rsize = ROk (Some v) /\ wf v /\ flat v = c
  | None => m_created zero mem loc size body roff rsize = ROk None
  end.
Proof.
  intros mem loc size body roff rsize Hm Hb.
  pose proof (init_frame_correct mem loc size body Hm Hb) as H.
  unfold init_returns, m_created.
  destruct (fb_run (FE [] (read_padded (flat mem) loc size)) (FF [] []) (map abs_mbop body)) as [fst|]; cbn [refines] in H.
  - destruct H as (cst & -> & [Hw _] & <-).
    destruct (mslice_correct B zero (m_mem cst) roff rsize Hw) as (H1 & H2 & _).
    eexists. split; [reflexivity|]. split; [exact H1 | exact H2].
  - rewrite H. reflexivity.
Qed.

Lemma m_apply_correct : forall (e : menv) (st : mframe) (o : mop B),
  wf_env e -> wf_frame st -> mop_ok o ->
  refines (f_apply (abs_env e) (abs_frame st) (abs_mop o)) (m_apply e st o).
Proof.
  intros e st o He Hst Hok.
  destruct o as [b | ccode aloc asize body roff rsize oloc osize | loc size body roff rsize reverts].
  - apply mb_apply_correct; assumption.
  - destruct Hok as [Hc Hb]. pose proof Hst as [Hm Hrd].
    cbn [abs_mop MemSpec.f_apply MemOpsModel.m_apply abs_frame f_mem f_rd].
    destruct (mslice_correct B zero (m_mem st) aloc asize Hm) as (Ha1 & Ha2 & _).
    destruct (callee_correct ccode (mslice zero (m_mem st) aloc asize) body roff rsize Hc Ha1 Hb)
      as (rd & -> & Hrw & Hrf).
    rewrite Ha2 in Hrf. rewrite <- Hrf.
    destruct (copy_returndata_correct B zero rd oloc osize (m_mem st) Hrw Hm) as (m' & -> & Hw & Hf).
    exists (MF m' rd). split; [reflexivity|]. split; [split; assumption|].
    unfold abs_frame. cbn [m_mem m_rd]. rewrite Hf. reflexivity.
  - cbn [mop_ok] in Hok. pose proof Hst as [Hm Hrd].
    cbn [abs_mop MemSpec.f_apply MemOpsModel.m_apply abs_frame f_mem f_rd].
    pose proof (init_frame_correct (m_mem st) loc size body Hm Hok) as H.
    unfold init_returns.
    destruct (fb_run (FE [] (read_padded (flat (m_mem st)) loc size)) (FF [] []) (map abs_mbop body)) as [fst|]; cbn [refines] in H.
    + destruct H as (cst & -> & [Hw _] & <-).
      destruct (mslice_correct B zero (m_mem cst) roff rsize Hw) as (H1 & H2 & _).
      eexists. split; [reflexivity|]. destruct reverts.
      * split; [split; assumption|]. unfold abs_frame. cbn [m_mem m_rd]. rewrite H2. reflexivity.
      * split; [split; [assumption | apply wf_empty]|]. reflexivity.
    + rewrite H. eexists. split; [reflexivity|]. split; [split; [assumption | apply wf_empty]|]. reflexivity.
Qed.

(* EVERY sequence of memory instructions and message calls *)
Lemma m_run_correct : forall (e : menv) (ops : list (mop B)) (st : mframe),
  wf_env e -> wf_frame st -> Forall mop_ok ops ->
  refines (f_run (abs_env e) (abs_frame st) (map abs_mop ops)) (m_run e st ops).
Proof.
  intros e ops. induction ops as [|o r IH]; intros st He Hst Hok.
  - exists st. split; [reflexivity | split; [exact Hst | reflexivity]].
  - inversion Hok as [|? ? Ho Hr]; subst. cbn [map MemSpec.f_run MemOpsModel.m_run].
    pose proof (m_apply_correct e st o He Hst Ho) as H.
    destruct (f_apply (abs_env e) (abs_frame st) (abs_mop o)) as [fst|]; cbn [refines] in H.
    + destruct H as (st' & -> & Hw & <-). apply IH; assumption.
    + rewrite H. reflexivity.
Qed.

Lemma msize_correct : forall mem : bvec, wf mem -> msize mem = round32 (length (flat mem)).
Proof. intros mem H. unfold msize. rewrite w_msize_round, (flat_length B mem H). reflexivity. Qed.

End Ops.

(* ------------------------------------------------------------------ 5. pointwise reading of Spec/MemSpec.v *)

Section SpecPointwise.
Variable B : Type.
Variable zero : B.

Notation read_padded := (read_padded B zero).
Notation mem_write := (mem_write B zero).
Notation mem_copy := (mem_copy B zero).

Lemma read_padded_nth : forall (src : list B) off size i, i < size ->
  nth i (read_padded src off size) zero = nth (off + i) src zero.
Proof.
  intros src off size i H. rewrite <- fa_slice_read_padded. apply fa_slice_nth. lia.
Qed.

(* a copy of size > 0 bytes: the array grows to loc + size if needed (zero filled), the
   bytes of [loc, loc + size) are those of src from off (zero beyond its end), all others
   are unchanged *)
Lemma mem_copy_pointwise : forall (mem : list B) loc (src : list B) off size i, 0 < size ->
  length (mem_copy mem loc src off size) = Nat.max (length mem) (loc + size) /\
  nth i (mem_copy mem loc src off size) zero =
    (if (loc <=? i) && (i <? loc + size) then nth (off + (i - loc)) src zero else nth i mem zero).
Proof.
  intros mem loc src off size i Hs. unfold MemSpec.mem_copy.
  pose proof (read_padded_length B zero src off size) as HL.
  pose proof (fa_set_slice_mem_write B zero mem loc (read_padded src off size)) as H.
  rewrite HL in H.
  split.
  - apply (fa_set_slice_length B zero mem loc (loc + size) _ _ ltac:(lia) H).
  - rewrite (fa_set_slice_nth B zero mem loc (loc + size) _ _ i ltac:(lia) H).
    destruct (loc <=? i) eqn:E1; [|reflexivity]. destruct (i <? loc + size) eqn:E2; [|reflexivity].
    cbn [andb]. apply Nat.leb_le in E1. apply Nat.ltb_lt in E2. apply read_padded_nth. lia.
Qed.

Lemma mem_copy_zero_size : forall (mem : list B) loc (src : list B) off, mem_copy mem loc src off 0 = mem.
Proof. reflexivity. Qed.

Lemma spec_mem_copy : forall (mem : list B) (loc : nat) (src : list B) (off size i : nat),
  (0 < size ->
   length (mem_copy mem loc src off size) = Nat.max (length mem) (loc + size) /\
   nth i (mem_copy mem loc src off size) zero =
     (if (loc <=? i) && (i <? loc + size) then nth (off + (i - loc)) src zero else nth i mem zero)) /\
  mem_copy mem loc src off 0 = mem.
Proof.
  intros. split; [apply mem_copy_pointwise | apply mem_copy_zero_size].
Qed.

Lemma round32_spec : forall n, n <= round32 n /\ round32 n < n + 32 /\ round32 n mod 32 = 0.
Proof.
  intros n. unfold round32.
  pose proof (Nat.div_mod (n + 31) 32 ltac:(lia)) as H.
  pose proof (Nat.mod_upper_bound (n + 31) 32 ltac:(lia)) as H2.
  split; [lia|]. split; [lia|]. apply Nat.mod_mul. lia.
Qed.

End SpecPointwise.

(* ------------------------------------------------------------------ examples *)

(* a frame whose code has a concrete prefix (fast path of Contract.slice) followed by a
   symbolic chunk, a call whose callee copies its calldata and code and returns a window
   of its memory, then RETURNDATACOPY, an overlapping MCOPY, an EXTCODECOPY of an account
   without code over part of it, and a word moved with MLOAD/MSTORE *)
Definition ex_env : menv nat :=
  ME (BV [(0, Leaf false [1; 2; 3; 4] 0 4); (4, Leaf true [50; 51; 52; 53] 1 2)] 6)
     (BV [(0, Leaf false [10; 11; 12; 13; 14; 15] 0 6); (6, Leaf true [60; 61] 0 2)] 8) false.

Definition ex_callee : bvec nat := BV [(0, Leaf false [20; 21; 22; 23; 24] 0 5)] 5.

Definition ex_ops : list (mop nat) :=
  [ MB (MCopyIn MCalldata 2 1 7);
    MB (MCopyIn MCode 10 2 3);
    MB (MCopyIn MCode 14 5 4);
    MCall ex_callee 3 4 [MCopyIn MCalldata 0 0 4; MCopyIn MCode 4 3 4; MMStore8 9 false 99] 2 9 20 6;
    MB (MRetCopy 30 5 4);
    MB (MMCopy 3 2 6);
    MB (MCopyIn (MExt None) 11 7 2);
    MB (MCopyIn (MExt (Some ex_callee)) 0 4 0);
    MB (MLoadStore 20 40);
    MCreate 2 6 [MCopyIn MCalldata 0 0 3; MCopyIn MCode 3 1 4] 0 7 true ].

Lemma memops_example :
  wf_env ex_env /\ Forall mop_ok ex_ops /\
  (exists st, m_run 0 ex_env (MF empty empty) ex_ops = ROk st /\
     flat (m_mem st) =
       [0; 0; 2; 2; 3; 4; 51; 52; 0; 0; 12; 0; 0; 0; 15; 60; 61; 0; 0; 0; 51; 52; 23; 24; 0; 0; 0; 0; 0; 0;
        0; 0; 99; 0; 0; 0; 0; 0; 0; 0;
        51; 52; 23; 24; 0; 0; 0; 0; 0; 0; 0; 0; 99; 0; 0; 0; 0; 0; 0; 0; 0; 0; 0; 0; 0; 0; 0; 0; 0; 0; 0; 0] /\
     flat (m_rd st) = [0; 0; 0; 2; 3; 4; 51]) /\
  (* RETURNDATACOPY beyond the buffer halts, also with size 0 *)
  m_run 0 ex_env (MF empty empty) [MB (MRetCopy 0 1 0)] = RHalt.
Proof.
  split; [|split; [|split]].
  - split; (repeat constructor; cbn; lia).
  - unfold ex_ops, ex_callee. repeat constructor; cbn; lia.
  - eexists. split; [vm_compute; reflexivity | split; vm_compute; reflexivity].
  - vm_compute. reflexivity.
Qed.
