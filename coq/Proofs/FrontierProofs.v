(* Proofs for C15: filter resolution (over the regenerated Gen/GenInvFilters.v) and the
   frontier exploration (Model/FrontierModel.v). *)
From Coq Require Import String ZArith NArith List Bool Lia.
From HV Require Import Base.Keccak Model.SetOps Gen.GenInvFilters Spec.FrontierSpec Model.FrontierModel.
Import ListNotations.
Open Scope Z_scope.

(* ================================================================== list-set lemmas *)
Lemma mem_In : forall x l, mem x l = true <-> In x l.
Proof.
  intros x l. unfold mem. rewrite existsb_exists. split.
  - intros [y [Hy He]]. apply Z.eqb_eq in He. subst. exact Hy.
  - intros H. exists x. split; [exact H | apply Z.eqb_refl].
Qed.

Lemma mem_false : forall x l, mem x l = false <-> ~ In x l.
Proof.
  intros x l. split.
  - intros H Hin. apply mem_In in Hin. congruence.
  - intros H. destruct (mem x l) eqn:E; [|reflexivity]. apply mem_In in E. contradiction.
Qed.

Lemma set_diff_In : forall x a b, In x (set_diff a b) <-> In x a /\ ~ In x b.
Proof. intros. unfold set_diff. rewrite filter_In, negb_true_iff, mem_false. reflexivity. Qed.

Lemma set_union_In : forall x a b, In x (set_union a b) <-> In x a \/ In x b.
Proof.
  intros. unfold set_union. rewrite in_app_iff, filter_In, negb_true_iff, mem_false. split.
  - intros [H|[H _]]; auto.
  - intros [H|H]; auto. destruct (in_dec Z.eq_dec x a); auto.
Qed.

Lemma nonempty_ex : forall (A : Type) (l : list A), nonempty l = true <-> exists x, In x l.
Proof.
  intros A l. destruct l as [|x r]; cbn; split.
  - discriminate.
  - intros [x []].
  - intros _. exists x. auto.
  - reflexivity.
Qed.

Lemma nonempty_false : forall (A : Type) (l : list A), nonempty l = false <-> l = [].
Proof. intros A l. destruct l; cbn; split; congruence. Qed.

Lemma ts_get_In : forall m a s, NoDup (map fst m) ->
  (In s (ts_get m a) <-> exists l, In (a, l) m /\ In s l).
Proof.
  induction m as [|[k v] r IH]; intros a s Hnd; cbn [ts_get].
  - split; [intros [] | intros [l [[] _]]].
  - cbn in Hnd. inversion Hnd as [|? ? Hnotin Hnd']; subst. destruct (Z.eqb_spec k a) as [Heq|Hne].
    + subst. split.
      * intros H. exists v. split; [left; reflexivity | exact H].
      * intros [l [[Heq|Hin] Hs]].
        -- inversion Heq; subst; auto.
        -- exfalso. apply Hnotin. apply in_map_iff. exists (a, l). auto.
    + rewrite IH by assumption. split; intros [l [Hin Hs]]; exists l; split; auto.
      * right; exact Hin.
      * destruct Hin as [Heq|Hin]; [inversion Heq; contradiction | exact Hin].
Qed.

(* ================================================================== the six getters *)
Lemma getters_keccak :
  forallb (fun p => N.eqb (selector_of_sig (snd p)) (fst p)) filter_getters = true.
Proof. vm_compute. reflexivity. Qed.

Lemma getters_selectors : forall sel sig, In (sel, sig) filter_getters -> selector_of_sig sig = sel.
Proof.
  intros sel sig H. pose proof getters_keccak as G. rewrite forallb_forall in G.
  apply G in H. cbn [fst snd] in H. apply N.eqb_eq in H. exact H.
Qed.

Definition foundry_getter_names : list string :=
  ["targetSenders()"; "excludeSenders()"; "targetContracts()"; "excludeContracts()";
   "targetSelectors()"; "excludeSelectors()"]%string.

Lemma getters_names :
  forallb (fun n => existsb (String.eqb n) (map snd filter_getters)) foundry_getter_names = true.
Proof. vm_compute. reflexivity. Qed.

(* ================================================================== filters *)
Lemma resolve_contracts_spec : forall tc ec tsel esel tsend esend deployed test a,
  NoDup (map fst tsel) ->
  (In a (resolve_target_contracts tc ec tsel deployed test) <->
   spec_target_contract (mkFilters tc ec tsel esel tsend esend) deployed test a).
Proof.
  intros tc ec tsel esel tsend esend deployed test a Hnd.
  unfold resolve_target_contracts, spec_target_contract, has_sel_target, sel_targeted.
  cbn [f_tc f_ec f_tsel]. cbv zeta.
  assert (HT : (mem test tc || nonempty (ts_get tsel test)) = true <->
               (In test tc \/ exists s l, In (test, l) tsel /\ In s l)).
  { rewrite orb_true_iff, mem_In, nonempty_ex. split; (intros [H1|[s H1]]; [left; exact H1 | right]).
    - apply ts_get_In in H1; [|exact Hnd]. destruct H1 as [l [H2 H3]]. exists s, l. auto.
    - destruct H1 as [l H1]. exists s. apply ts_get_In; [exact Hnd|]. exists l. exact H1. }
  assert (HU : forall x,
     In x (set_union (set_diff (if nonempty tc then tc else deployed) ec) (ts_keys tsel)) <->
     ((((tc = [] /\ In x deployed) \/ In x tc) /\ ~ In x ec) \/ In x (map fst tsel))).
  { intros x. rewrite set_union_In, set_diff_In. unfold ts_keys.
    destruct tc as [|t0 tc']; cbn [nonempty].
    - cbn [In]. intuition.
    - intuition discriminate. }
  destruct (mem test tc || nonempty (ts_get tsel test)) eqn:E.
  - rewrite HU. split.
    + intros HL. split; [exact HL|]. intros _. apply HT. reflexivity.
    + intros [HL _]. exact HL.
  - rewrite set_diff_In, HU. cbn [In]. split.
    + intros [HL Hn]. split; [exact HL|]. intros Heq. exfalso. apply Hn. left. symmetry. exact Heq.
    + intros [HL Himp]. split; [exact HL|]. intros [Heq|[]]. symmetry in Heq.
      apply Himp in Heq. apply HT in Heq. congruence.
Qed.

Lemma resolve_contracts_raises_spec : forall tc ec tsel deployed test,
  resolve_target_contracts_raises tc ec tsel deployed test = true <->
  resolve_target_contracts tc ec tsel deployed test = [].
Proof.
  intros. unfold resolve_target_contracts_raises, resolve_target_contracts. cbv zeta.
  rewrite negb_true_iff. apply nonempty_false.
Qed.

Lemma sender_spec : forall tc ec tsel esel tsend esend s,
  sender_allowed tsend esend s = true <-> spec_sender (mkFilters tc ec tsel esel tsend esend) s.
Proof.
  intros tc ec tsel esel tsend esend s. unfold sender_allowed, spec_sender.
  cbn [f_tsend f_esend]. cbv zeta.
  assert (HE : forall t, In t (set_diff tsend esend) <-> In t tsend /\ ~ In t esend)
    by (intro; apply set_diff_In).
  destruct (nonempty (set_diff tsend esend)) eqn:E1.
  - apply nonempty_ex in E1. destruct E1 as [t0 Ht0]. rewrite existsb_exists. split.
    + intros [x [Hx Heq]]. apply Z.eqb_eq in Heq. subst x. split.
      * intros _. apply HE. exact Hx.
      * intros Hn. exfalso. apply Hn. exists t0. apply HE. exact Ht0.
    + intros [H1 _]. exists s. split; [|apply Z.eqb_refl]. apply HE. apply H1.
      exists t0. apply HE. exact Ht0.
  - apply nonempty_false in E1.
    assert (Hno : ~ exists t, In t tsend /\ ~ In t esend).
    { intros [t Ht]. apply HE in Ht. rewrite E1 in Ht. destruct Ht. }
    destruct (nonempty esend) eqn:E2.
    + rewrite forallb_forall. split.
      * intros H. split; [intros Hex; contradiction|]. intros _ Hin.
        specialize (H s Hin). rewrite Z.eqb_refl in H. discriminate.
      * intros [_ H2] x Hx. apply negb_true_iff. apply Z.eqb_neq. intros Heq. subst x.
        apply (H2 Hno). exact Hx.
    + apply nonempty_false in E2. subst esend. split; [intros _|reflexivity].
      split; [intros Hex; contradiction|]. intros _ [].
Qed.

Lemma reserved_components : forall s,
  reserved_sig s = false ->
  prefix "test_" s = false /\ prefix "check_" s = false /\ prefix "prove_" s = false /\
  prefix "invariant_" s = false /\ String.eqb s "setUp()" = false /\ String.eqb s "afterInvariant()" = false.
Proof.
  intros s H. unfold reserved_sig in H.
  repeat (apply orb_false_iff in H; destruct H as [H ?]). repeat split; assumption.
Qed.

Lemma has_target_nonempty : forall f a, NoDup (map fst (f_tsel f)) ->
  (nonempty (ts_get (f_tsel f) a) = true <-> has_sel_target f a).
Proof.
  intros f a Hnd. rewrite nonempty_ex. unfold has_sel_target, sel_targeted.
  split; intros [s H]; exists s; apply ts_get_In in H || apply ts_get_In; auto.
Qed.

(* coverage direction: everything Foundry's rule selects is selected by halmos *)
Lemma selector_cover : forall f test a m,
  NoDup (map fst (f_tsel f)) -> NoDup (map fst (f_esel f)) ->
  spec_selector f test a (m_sig m) (m_sel m) (m_mut m) ->
  selector_selected (f_tsel f) (f_esel f) a test m = true.
Proof.
  intros f test a m Hnd1 Hnd2 [Hs1 Hs2]. unfold selector_selected.
  destruct (nonempty (ts_get (f_tsel f) a)) eqn:E1.
  - apply has_target_nonempty in E1; [|exact Hnd1]. apply Hs1 in E1.
    destruct E1 as [l [H1 H2]]. apply mem_In. apply ts_get_In; [exact Hnd1|]. exists l. auto.
  - assert (Hno : ~ has_sel_target f a).
    { intros Hh. apply has_target_nonempty in Hh; [|exact Hnd1]. congruence. }
    destruct (Hs2 Hno) as [Hm0 [Hm1 [Hex Hres]]].
    apply andb_true_iff. split; [apply andb_true_iff; split |].
    + apply negb_true_iff. apply mem_false. intros Hin. apply Hex.
      apply ts_get_In in Hin; [|exact Hnd2]. exact Hin.
    + apply negb_true_iff. apply mem_false. cbn [In]. intros [H|[H|[]]]; congruence.
    + apply negb_true_iff. destruct (Z.eqb_spec a test) as [Heq|Hne]; [|reflexivity].
      cbn [andb]. apply Hres in Heq. apply reserved_components in Heq.
      destruct Heq as [H1 [H2 [H3 [H4 [H5 H6]]]]].
      rewrite ?H1, ?H2, ?H3, ?H4, ?H5, ?H6. reflexivity.
Qed.

(* exactness, for all filter sets: targeted selectors override exclusion; otherwise the
   state-changing, non-excluded, non-reserved functions *)
Lemma selector_exact : forall f test a m,
  NoDup (map fst (f_tsel f)) -> NoDup (map fst (f_esel f)) ->
  (selector_selected (f_tsel f) (f_esel f) a test m = true <->
   spec_selector f test a (m_sig m) (m_sel m) (m_mut m)).
Proof.
  intros f test a m Hnd1 Hnd2. split; [|apply selector_cover; assumption].
  unfold selector_selected, spec_selector.
  destruct (nonempty (ts_get (f_tsel f) a)) eqn:E1.
  - intros H. apply mem_In in H. apply ts_get_In in H; [|exact Hnd1]. split.
    + intros _. exact H.
    + intros Hn. exfalso. apply Hn. apply has_target_nonempty; assumption.
  - assert (Hno : ~ has_sel_target f a).
    { intros Hh. apply has_target_nonempty in Hh; [|exact Hnd1]. congruence. }
    intros H. apply andb_true_iff in H. destruct H as [H Hres].
    apply andb_true_iff in H. destruct H as [Hexc Hmut].
    apply negb_true_iff in Hmut. apply mem_false in Hmut. cbn [In] in Hmut.
    apply negb_true_iff in Hexc. apply mem_false in Hexc.
    split; [intros Hh; contradiction|]. intros _.
    split; [intros Heq; apply Hmut; left; symmetry; exact Heq|].
    split; [intros Heq; apply Hmut; right; left; symmetry; exact Heq|].
    split; [intros Hx; apply Hexc; apply ts_get_In; [exact Hnd2 | exact Hx]|].
    intros Heq. apply negb_true_iff in Hres. apply Z.eqb_eq in Heq. rewrite Heq in Hres.
    cbn [andb] in Hres.
    repeat (apply orb_false_iff in Hres; destruct Hres as [Hres ?]).
    unfold reserved_sig.
    repeat match goal with H : _ = false |- _ => rewrite H; clear H end. reflexivity.
Qed.

(* ================================================================== frontier *)
Lemma fold_left_flat_map : forall (A B C : Type) (f : A -> C -> A) (g : B -> list C) l a,
  fold_left f (flat_map g l) a = fold_left (fun a x => fold_left f (g x) a) l a.
Proof. intros A B C f g l. induction l; cbn; intros; auto. rewrite fold_left_app. apply IHl. Qed.

Lemma fold_left_map : forall (A B C : Type) (f : A -> C -> A) (g : B -> C) l a,
  fold_left f (map g l) a = fold_left (fun a x => f a (g x)) l a.
Proof. intros A B C f g l. induction l; cbn; intros; auto. Qed.

Lemma fold_left_ext : forall (A B : Type) (f g : A -> B -> A) l a,
  (forall a x, f a x = g a x) -> fold_left f l a = fold_left g l a.
Proof. intros A B f g l. induction l; cbn; intros; auto. rewrite H. apply IHl. exact H. Qed.

Lemma in_nth_concat : forall (A : Type) (l : list (list A)) j x, In x (nth j l []) -> In x (concat l).
Proof.
  intros A l. induction l as [|h r IH]; intros j x H.
  - destruct j; destruct H.
  - cbn [concat]. apply in_app_iff. destruct j; cbn [nth] in H; [left; exact H | right; eapply IH; exact H].
Qed.

Section FrontierProofs.
  Variables SS Tgt : Type.
  Variable targets : SS -> list Tgt.
  Variable sstep : SS -> Tgt -> list (outcome SS).
  Variable sid : SS -> Z.
  Variable refresh : SS -> SS -> SS.
  Variable setup : SS.

  Let on_outcome' := on_outcome SS sid refresh.
  Let compute := compute_frontier SS Tgt targets sstep sid refresh.
  Let explore' := explore SS Tgt targets sstep sid refresh.
  Let frontiers' := frontiers SS Tgt targets sstep sid refresh setup.
  Let evaluated' := evaluated SS Tgt targets sstep sid refresh setup.

  Definition events (cur : list SS) : list (SS * outcome SS) :=
    flat_map (fun pre => flat_map (fun t => map (pair pre) (sstep pre t)) (targets pre)) cur.
  Definition step_ev (a : facc SS) (e : SS * outcome SS) : facc SS := on_outcome' (fst e) a (snd e).

  Lemma compute_events : forall vis cur,
    compute vis cur = fold_left step_ev (events cur) (mkAcc SS vis [] []).
  Proof.
    intros. unfold compute, compute_frontier, events. rewrite fold_left_flat_map.
    apply fold_left_ext. intros a pre. unfold on_state. rewrite fold_left_flat_map.
    apply fold_left_ext. intros a' t. unfold on_target. rewrite fold_left_map. reflexivity.
  Qed.

  Lemma events_In : forall cur pre o,
    In (pre, o) (events cur) <-> In pre cur /\ exists t, In t (targets pre) /\ In o (sstep pre t).
  Proof.
    intros. unfold events. rewrite in_flat_map. split.
    - intros [p [Hp H]]. apply in_flat_map in H. destruct H as [t [Ht H]].
      apply in_map_iff in H. destruct H as [o' [Heq Ho]]. inversion Heq; subst. eauto.
    - intros [Hp [t [Ht Ho]]]. exists pre. split; [exact Hp|]. apply in_flat_map. exists t.
      split; [exact Ht|]. apply in_map_iff. exists o. auto.
  Qed.

  Lemma explore_head : forall d cur vis, nth 0 (explore' d cur vis) [] = cur.
  Proof. intros. destruct d; reflexivity. Qed.

  Lemma explore_length : forall d cur vis, length (explore' d cur vis) = S d.
  Proof. induction d; intros; cbn; auto. Qed.

  (* ---------------------------------------------------------------- depth *)
  Let deep := deep SS Tgt targets sstep refresh setup.

  Lemma step_next_origin : forall a e x,
    In x (a_next SS (step_ev a e)) ->
    In x (a_next SS a) \/ exists pre s, e = (pre, OOk s) /\ x = refresh pre s.
  Proof.
    intros a [pre o] x. unfold step_ev, on_outcome', on_outcome. cbn [fst snd].
    destruct o as [| |p|s]; cbn; auto.
    destruct (existsb (Z.eqb (sid s)) (a_vis SS a)); cbn; auto.
    rewrite in_app_iff. cbn. intros [H|[H|[]]]; auto. right. exists pre, s. auto.
  Qed.

  Lemma fold_next_origin : forall evs a x,
    In x (a_next SS (fold_left step_ev evs a)) ->
    In x (a_next SS a) \/ exists pre s, In (pre, OOk s) evs /\ x = refresh pre s.
  Proof.
    induction evs as [|e evs IH]; intros a x H; cbn in H; auto.
    apply IH in H. destruct H as [H|[pre [s [H1 H2]]]].
    - apply step_next_origin in H. destruct H as [H|[pre [s [H1 H2]]]]; auto.
      right. exists pre, s. split; [left; auto | exact H2].
    - right. exists pre, s. split; [right; auto | exact H2].
  Qed.

  Lemma explore_deep : forall d cur vis k0,
    (forall x, In x cur -> deep k0 x) ->
    forall j ss, In ss (nth j (explore' d cur vis) []) -> deep (k0 + j) ss.
  Proof.
    induction d as [|d IH]; intros cur vis k0 Hcur j ss Hin.
    - cbn in Hin. destruct j as [|j]; [rewrite Nat.add_0_r; auto | destruct j; destruct Hin].
    - unfold explore' in Hin. cbn [explore] in Hin. destruct j as [|j].
      + rewrite Nat.add_0_r. auto.
      + cbn [nth] in Hin. replace (k0 + S j)%nat with (S k0 + j)%nat by lia.
        eapply IH; [|exact Hin]. intros x Hx.
        fold compute in Hx. rewrite compute_events in Hx. apply fold_next_origin in Hx.
        destruct Hx as [[]|[pre [s [H1 H2]]]]. subst x. apply events_In in H1.
        destruct H1 as [Hp [t [Ht Ho]]]. unfold deep. eapply deep_S; [apply Hcur; exact Hp | exact Ht | exact Ho].
  Qed.

  Lemma frontier_depth : forall d k ss, In ss (nth k (frontiers' d) []) -> deep k ss.
  Proof.
    intros d k ss H. change k with (0 + k)%nat. eapply explore_deep; [|exact H].
    intros x [Hx|[]]. subst. constructor.
  Qed.

  Lemma frontiers_length : forall d, length (frontiers' d) = S d.
  Proof. intros. apply explore_length. Qed.

  Lemma frontier_zero : forall d, nth 0 (frontiers' d) [] = [setup].
  Proof. intros. apply explore_head. Qed.

  Lemma evaluated_zero : evaluated' 0%nat = [setup].
  Proof. reflexivity. Qed.

  (* ---------------------------------------------------------------- coverage *)
  Variables CS Tx : Type.
  Variable cstep : CS -> Tx -> option CS.
  Variable adm : CS -> Tx -> Prop.
  Variable gamma : SS -> CS -> Prop.       (* the concrete states a symbolic state stands for *)

  Definition Inv (vis : list Z) (K : list SS) : Prop :=
    forall b q cs, In (sid b) vis -> gamma (refresh q b) cs -> exists k, In k K /\ gamma k cs.

  Hypothesis Hmerge : forall p a q b cs, sid a = sid b -> gamma (refresh q b) cs -> gamma (refresh p a) cs.

  Lemma step_ev_inv : forall Kp a e,
    Inv (a_vis SS a) (Kp ++ a_next SS a) ->
    Inv (a_vis SS (step_ev a e)) (Kp ++ a_next SS (step_ev a e)) /\
    incl (a_next SS a) (a_next SS (step_ev a e)).
  Proof.
    intros Kp a [pre o] HI. unfold step_ev, on_outcome', on_outcome. cbn [fst snd].
    destruct o as [| |p|s]; cbn; try (split; [exact HI | apply incl_refl]).
    destruct (existsb (Z.eqb (sid s)) (a_vis SS a)) eqn:E; cbn; [split; [exact HI | apply incl_refl]|].
    split; [|apply incl_appl; apply incl_refl].
    intros b q cs [Heq|Hin] Hg.
    - exists (refresh pre s). split.
      + apply in_app_iff. right. apply in_app_iff. right. left. reflexivity.
      + eapply Hmerge; [exact Heq | exact Hg].
    - destruct (HI b q cs Hin Hg) as [k [Hk Hgk]]. exists k. split; [|exact Hgk].
      apply in_app_iff in Hk. apply in_app_iff. destruct Hk; [left; auto|right; apply in_app_iff; left; auto].
  Qed.

  Lemma step_ev_cover : forall Kp a pre s cs,
    Inv (a_vis SS a) (Kp ++ a_next SS a) -> gamma (refresh pre s) cs ->
    exists k, In k (Kp ++ a_next SS (step_ev a (pre, OOk s))) /\ gamma k cs.
  Proof.
    intros Kp a pre s cs HI Hg. unfold step_ev, on_outcome', on_outcome. cbn [fst snd].
    destruct (existsb (Z.eqb (sid s)) (a_vis SS a)) eqn:E; cbn.
    - apply existsb_exists in E. destruct E as [x [Hx He]]. apply Z.eqb_eq in He. subst x.
      eapply HI; eauto.
    - exists (refresh pre s). split; [|exact Hg]. apply in_app_iff. right. apply in_app_iff. right. left. reflexivity.
  Qed.

  Lemma fold_cover : forall evs a Kp,
    Inv (a_vis SS a) (Kp ++ a_next SS a) ->
    Inv (a_vis SS (fold_left step_ev evs a)) (Kp ++ a_next SS (fold_left step_ev evs a)) /\
    incl (a_next SS a) (a_next SS (fold_left step_ev evs a)) /\
    (forall pre s cs, In (pre, OOk s) evs -> gamma (refresh pre s) cs ->
        exists k, In k (Kp ++ a_next SS (fold_left step_ev evs a)) /\ gamma k cs).
  Proof.
    induction evs as [|e evs IH]; intros a Kp HI; cbn [fold_left].
    - split; [exact HI|]. split; [apply incl_refl|]. intros ? ? ? [].
    - destruct (step_ev_inv Kp a e HI) as [HI1 Hinc1].
      destruct (IH (step_ev a e) Kp HI1) as [HI2 [Hinc2 Hcov2]].
      split; [exact HI2|]. split; [eapply incl_tran; eauto|].
      intros pre s cs [Heq|Hin] Hg.
      + subst e. destruct (step_ev_cover Kp a pre s cs HI Hg) as [k [Hk Hgk]].
        exists k. split; [|exact Hgk]. apply in_app_iff in Hk. apply in_app_iff.
        destruct Hk as [Hk|Hk]; [left; exact Hk | right; apply Hinc2; exact Hk].
      + eapply Hcov2; eauto.
  Qed.

  Lemma compute_cover : forall vis cur Kp,
    Inv vis (Kp ++ cur) ->
    Inv (a_vis SS (compute vis cur)) ((Kp ++ cur) ++ a_next SS (compute vis cur)) /\
    (forall pre t s cs, In pre cur -> In t (targets pre) -> In (OOk s) (sstep pre t) ->
        gamma (refresh pre s) cs ->
        exists k, In k ((Kp ++ cur) ++ a_next SS (compute vis cur)) /\ gamma k cs).
  Proof.
    intros vis cur Kp HI. rewrite compute_events.
    destruct (fold_cover (events cur) (mkAcc SS vis [] []) (Kp ++ cur)) as [H1 [_ H3]].
    - cbn. rewrite app_nil_r. exact HI.
    - split; [exact H1|]. intros pre t s cs Hp Ht Ho Hg. eapply H3; [|exact Hg].
      apply events_In. split; [exact Hp|]. exists t. auto.
  Qed.

  Lemma explore_succ : forall d cur vis Kp,
    Inv vis (Kp ++ cur) ->
    forall j ss t s cs, (j < d)%nat -> In ss (nth j (explore' d cur vis) []) ->
      In t (targets ss) -> In (OOk s) (sstep ss t) -> gamma (refresh ss s) cs ->
      exists k, gamma k cs /\
        (In k Kp \/ exists i, (i <= S j)%nat /\ In k (nth i (explore' d cur vis) [])).
  Proof.
    induction d as [|d IH]; intros cur vis Kp HI j ss t s cs Hj Hin Ht Ho Hg; [lia|].
    unfold explore' in Hin |- *. cbn [explore] in Hin |- *. fold compute in Hin |- *. fold explore' in Hin |- *.
    destruct (compute_cover vis cur Kp HI) as [HI' Hcov].
    destruct j as [|j].
    - cbn [nth] in Hin. destruct (Hcov ss t s cs Hin Ht Ho Hg) as [k [Hk Hgk]].
      exists k. split; [exact Hgk|]. apply in_app_iff in Hk. destruct Hk as [Hk|Hk].
      + apply in_app_iff in Hk. destruct Hk as [Hk|Hk]; [left; exact Hk|].
        right. exists 0%nat. split; [lia|]. exact Hk.
      + right. exists 1%nat. split; [lia|]. cbn [nth].
        rewrite explore_head. exact Hk.
    - cbn [nth] in Hin.
      destruct (IH (a_next SS (compute vis cur)) (a_vis SS (compute vis cur)) (Kp ++ cur)%list HI'
                   j ss t s cs ltac:(lia) Hin Ht Ho Hg) as [k [Hgk Hk]].
      exists k. split; [exact Hgk|]. destruct Hk as [Hk|[i [Hi Hk]]].
      + apply in_app_iff in Hk. destruct Hk as [Hk|Hk]; [left; exact Hk|].
        right. exists 0%nat. split; [lia|]. exact Hk.
      + right. exists (S i). split; [lia|]. exact Hk.
  Qed.

  Lemma creach_snoc_inv : forall txs s tx s2,
    creach cstep adm s (txs ++ [tx]) s2 ->
    exists s1, creach cstep adm s txs s1 /\ adm s1 tx /\ cstep s1 tx = Some s2.
  Proof.
    induction txs as [|t0 txs IH]; intros s tx s2 H; cbn in H.
    - inversion H as [|? ? s1 ? ? Ha Hs Hr]; subst. inversion Hr; subst.
      exists s. split; [constructor | auto].
    - inversion H as [|? ? s1 ? ? Ha Hs Hr]; subst. apply IH in Hr.
      destruct Hr as [s1' [H1 [H2 H3]]]. exists s1'. split; [|auto].
      econstructor; eauto.
  Qed.

  (* per-transaction completeness of the symbolic engine (property C02) *)
  Hypothesis Hstep : forall ss cs tx cs',
    gamma ss cs -> adm cs tx -> cstep cs tx = Some cs' ->
    exists t s', In t (targets ss) /\ In (OOk s') (sstep ss t) /\ gamma (refresh ss s') cs'.

  Lemma cover : forall d cs0 txs cs,
    gamma setup cs0 -> creach cstep adm cs0 txs cs -> (length txs <= d)%nat ->
    exists j ss, (j <= length txs)%nat /\ In ss (nth j (frontiers' d) []) /\ gamma ss cs.
  Proof.
    intros d cs0 txs. induction txs as [|tx txs IH] using rev_ind; intros cs Hg0 Hr Hlen.
    - inversion Hr; subst. exists 0%nat, setup. split; [lia|]. split; [|exact Hg0].
      unfold frontiers', frontiers. fold explore'. rewrite explore_head. left. reflexivity.
    - apply creach_snoc_inv in Hr. destruct Hr as [s1 [Hr1 [Ha Hs]]].
      rewrite app_length in Hlen |- *. cbn [length] in Hlen |- *.
      destruct (IH s1 Hg0 Hr1 ltac:(lia)) as [j [ss [Hj [Hin Hg]]]].
      destruct (Hstep ss s1 tx cs Hg Ha Hs) as [t [s' [Ht [Ho Hg']]]].
      (* nothing is visited before the first transaction: the setUp state is not registered *)
      assert (HI : Inv (initial_visited SS sid setup) ([] ++ [setup])).
      { unfold initial_visited, setup_registered_as_visited. intros b q c []. }
      destruct (explore_succ d [setup] (initial_visited SS sid setup) [] HI j ss t s' cs ltac:(lia) Hin Ht Ho Hg')
        as [k [Hgk [[]|[i [Hi Hk]]]]].
      exists i, k. split; [lia|]. split; [exact Hk | exact Hgk].
  Qed.

  Lemma cover_evaluated : forall d cs0 txs cs,
    gamma setup cs0 -> creach cstep adm cs0 txs cs -> (length txs <= d)%nat ->
    exists ss, In ss (evaluated' d) /\ gamma ss cs.
  Proof.
    intros d cs0 txs cs H0 Hr Hl. destruct (cover d cs0 txs cs H0 Hr Hl) as [j [ss [_ [Hin Hg]]]].
    exists ss. split; [|exact Hg]. unfold evaluated', evaluated. eapply in_nth_concat. exact Hin.
  Qed.

  (* PASS is sound w.r.t. every bounded sequence, given completeness of the invariant's own run *)
  Variable inv_c : CS -> bool.
  Variable inv_ok : SS -> bool.
  Hypothesis Hinv : forall ss cs, gamma ss cs -> inv_c cs = false -> inv_ok ss = false.

  Lemma pass_sound : forall d,
    verdict_pass SS Tgt targets sstep sid refresh setup inv_ok d = true ->
    forall cs0 txs cs, gamma setup cs0 -> creach cstep adm cs0 txs cs -> (length txs <= d)%nat ->
      inv_c cs = true.
  Proof.
    intros d Hv cs0 txs cs H0 Hr Hl. destruct (cover_evaluated d cs0 txs cs H0 Hr Hl) as [ss [Hin Hg]].
    unfold verdict_pass in Hv. rewrite forallb_forall in Hv. specialize (Hv ss Hin).
    destruct (inv_c cs) eqn:E; [reflexivity|]. rewrite (Hinv ss cs Hg E) in Hv. discriminate.
  Qed.
End FrontierProofs.

(* ================================================================== instances *)
(* merging a post-state with the setUp state forgets that time may pass after the call *)
Lemma ts_step_complete : forall ss cs tx cs',
  TsInst.gamma ss cs -> TsInst.adm cs tx -> TsInst.cstep cs tx = Some cs' ->
  exists t s', In t (TsInst.targets ss) /\ In (OOk s') (TsInst.sstep ss t) /\ TsInst.gamma (TsInst.refresh ss s') cs'.
Proof.
  intros [x lo fx] [cx cts] tx cs' [Hx Ht] Ha Hs. unfold TsInst.adm in Ha. cbn in *. subst cx.
  destruct tx as [n|n]; cbn in *.
  - inversion Hs; subst. exists TsInst.TNoop. eexists. split; [left; reflexivity|].
    split; [left; reflexivity|]. unfold TsInst.gamma, TsInst.refresh. cbn. split; [reflexivity|].
    destruct fx; lia.
  - destruct (100 <=? cts) eqn:E; [|discriminate]. inversion Hs; subst. apply Z.leb_le in E.
    exists TsInst.TLate. destruct fx.
    + subst cts. exists (TsInst.mkS 1 lo true). split; [right; left; reflexivity|]. cbn.
      assert (E' : (100 <=? lo) = true) by (apply Z.leb_le; lia). rewrite E'.
      split; [left; reflexivity|]. unfold TsInst.gamma. cbn. split; [reflexivity | lia].
    + exists (TsInst.mkS 1 (Z.max 100 lo) false). split; [right; left; reflexivity|]. cbn.
      split; [left; reflexivity|]. unfold TsInst.gamma. cbn. split; [reflexivity | lia].
Qed.

(* a post-state with the id of the setUp state is kept (time may pass after the call): noop(); late() is covered *)
Lemma ts_covered :
  let ev := evaluated TsInst.sst TsInst.tgt TsInst.targets TsInst.sstep TsInst.sid TsInst.refresh TsInst.setup 2 in
  TsInst.gamma TsInst.setup (0, 1) /\
  creach TsInst.cstep TsInst.adm (0, 1) [TsInst.Noop 100; TsInst.Late 100] (1, 100) /\
  ev = [TsInst.setup; TsInst.mkS 0 1 false; TsInst.mkS 1 100 false] /\ TsInst.gamma (TsInst.mkS 1 100 false) (1, 100).
Proof.
  cbv zeta. split; [split; reflexivity|]. split.
  - eapply creach_cons; [unfold TsInst.adm; cbn; lia | reflexivity |].
    eapply creach_cons; [unfold TsInst.adm; cbn; lia | reflexivity | constructor].
  - split; [reflexivity|]. split; [reflexivity | cbn; lia].
Qed.

(* F12: an assertion failure inside a target is recorded as a probe only *)
Lemma probe_refuted :
  probes Z ProbeInst.tgt ProbeInst.targets ProbeInst.sstep ProbeInst.sid ProbeInst.refresh ProbeInst.setup 2 = [7] /\
  verdict_pass Z ProbeInst.tgt ProbeInst.targets ProbeInst.sstep ProbeInst.sid ProbeInst.refresh ProbeInst.setup ProbeInst.inv_ok 2 = true.
Proof. split; reflexivity. Qed.

(* ================================================================== statements as used in Props/C15.v *)
Lemma selector_cover_in : forall f test a m,
  NoDup (map fst (f_tsel f)) -> NoDup (map fst (f_esel f)) ->
  ((has_sel_target f a -> sel_targeted f a (m_sel m)) /\
   (~ has_sel_target f a ->
      m_mut m <> 0 /\ m_mut m <> 1 /\ ~ sel_excluded f a (m_sel m) /\
      (a = test -> reserved_sig (m_sig m) = false))) ->
  forall methods, In m methods -> In m (resolve_target_selectors (f_tsel f) (f_esel f) a test methods).
Proof.
  intros f test a m H1 H2 H3 methods Hin. unfold resolve_target_selectors. apply filter_In.
  split; [exact Hin | exact (selector_cover f test a m H1 H2 H3)].
Qed.

Lemma depth_count : forall SS Tgt targets sstep sid refresh (setup : SS) d,
  length (frontiers SS Tgt targets sstep sid refresh setup d) = S d /\
  nth 0 (frontiers SS Tgt targets sstep sid refresh setup d) [] = [setup] /\
  evaluated SS Tgt targets sstep sid refresh setup 0 = [setup].
Proof.
  intros. split; [apply frontiers_length | split; [apply frontier_zero | apply evaluated_zero]].
Qed.

Lemma cover_full :
  forall (SS Tgt : Type) (targets : SS -> list Tgt) (sstep : SS -> Tgt -> list (outcome SS))
         (sid : SS -> Z) (refresh : SS -> SS -> SS) (setup : SS)
         (CS Tx : Type) (cstep : CS -> Tx -> option CS) (adm : CS -> Tx -> Prop)
         (gamma : SS -> CS -> Prop),
    (forall p a q b cs, sid a = sid b -> gamma (refresh q b) cs -> gamma (refresh p a) cs) ->
    (forall ss cs tx cs', gamma ss cs -> adm cs tx -> cstep cs tx = Some cs' ->
        exists t s', In t (targets ss) /\ In (OOk s') (sstep ss t) /\ gamma (refresh ss s') cs') ->
    forall d cs0 txs cs,
      gamma setup cs0 -> creach cstep adm cs0 txs cs -> (length txs <= d)%nat ->
      exists j ss, (j <= length txs)%nat /\
                   In ss (nth j (frontiers SS Tgt targets sstep sid refresh setup d) []) /\
                   In ss (evaluated SS Tgt targets sstep sid refresh setup d) /\
                   gamma ss cs.
Proof.
  intros SS Tgt targets sstep sid refresh setup CS Tx cstep adm gamma Hm Hs d cs0 txs cs H0 Hr Hl.
  destruct (cover SS Tgt targets sstep sid refresh setup CS Tx cstep adm gamma Hm Hs d cs0 txs cs H0 Hr Hl)
    as [j [ss [Hj [Hin Hg]]]].
  exists j, ss. repeat split; try assumption. unfold evaluated. eapply in_nth_concat. exact Hin.
Qed.

Lemma setup_state_not_merged :
  (forall ss cs tx cs', TsInst.gamma ss cs -> TsInst.adm cs tx -> TsInst.cstep cs tx = Some cs' ->
     exists t s', In t (TsInst.targets ss) /\ In (OOk s') (TsInst.sstep ss t) /\ TsInst.gamma (TsInst.refresh ss s') cs') /\
  TsInst.gamma TsInst.setup (0, 1) /\
  creach TsInst.cstep TsInst.adm (0, 1) [TsInst.Noop 100; TsInst.Late 100] (1, 100) /\
  evaluated TsInst.sst TsInst.tgt TsInst.targets TsInst.sstep TsInst.sid TsInst.refresh TsInst.setup 2 =
    [TsInst.setup; TsInst.mkS 0 1 false; TsInst.mkS 1 100 false] /\
  TsInst.gamma (TsInst.mkS 1 100 false) (1, 100).
Proof. split; [exact ts_step_complete | exact ts_covered]. Qed.

(* ================================================================== the targets run from a frontier state *)
(* (account, function) pairs run by _compute_frontier / run_target_contract: for every resolved target
   account, the functions selected for ITS address among the methods of its contract *)
Lemma frontier_targets_in :
  forall tc ec tsel esel deployed test (methods_of : Z -> list method) a m,
    In (a, m) (frontier_targets tc ec tsel esel deployed test methods_of) <->
    In a (resolve_target_contracts tc ec tsel deployed test) /\ In m (methods_of a) /\
    selector_selected tsel esel a test m = true.
Proof.
  intros tc ec tsel esel deployed test methods_of a m.
  unfold frontier_targets, run_target_functions, resolve_target_selectors. rewrite in_flat_map. split.
  - intros [x [Hx Hin]]. apply in_map_iff in Hin. destruct Hin as [y [E Hy]].
    inversion E; subst. apply filter_In in Hy. tauto.
  - intros [Ha [Hm Hs]]. exists a. split; [exact Ha |]. apply in_map_iff. exists m.
    split; [reflexivity |]. apply filter_In. auto.
Qed.
