(* Proofs about Model/ByteVecModel.v against Spec/ByteVecSpec.v *)
From Coq Require Import List Arith Bool Lia.
From HV Require Import Spec.ByteVecSpec Model.ByteVecModel.
Import ListNotations.

Scheme wfc_mind := Minimality for wfc Sort Prop
  with wfl_mind := Minimality for wfl Sort Prop.
Combined Scheme wf_mutind from wfc_mind, wfl_mind.

(* ------------------------------------------------------------------ list facts *)

Section ListFacts.
Variable A : Type.

Lemma firstn_eq_len : forall (l1 l2 : list A) n, n = length l1 -> firstn n (l1 ++ l2) = l1.
Proof.
  intros l1 l2 n ->. rewrite firstn_app, Nat.sub_diag, firstn_all. cbn. apply app_nil_r.
Qed.

Lemma skipn_eq_len : forall (l1 l2 : list A) n, n = length l1 -> skipn n (l1 ++ l2) = l2.
Proof.
  intros l1 l2 n ->. rewrite skipn_app, Nat.sub_diag, skipn_all. reflexivity.
Qed.

(* P ++ X ++ R split inside X *)
Lemma firstn_mid : forall (P X R : list A) n,
  length P <= n <= length P + length X ->
  firstn n (P ++ X ++ R) = P ++ firstn (n - length P) X.
Proof.
  intros P X R n H. rewrite firstn_app. rewrite firstn_all2 by lia.
  f_equal. rewrite firstn_app. replace (n - length P - length X) with 0 by lia.
  cbn. apply app_nil_r.
Qed.

Lemma skipn_mid : forall (P X R : list A) n,
  length P <= n <= length P + length X ->
  skipn n (P ++ X ++ R) = skipn (n - length P) X ++ R.
Proof.
  intros P X R n H. rewrite skipn_app. rewrite skipn_all2 by lia. cbn.
  rewrite skipn_app. replace (n - length P - length X) with 0 by lia. reflexivity.
Qed.

Lemma nth_firstn_lt : forall (l : list A) n i d, i < n -> nth i (firstn n l) d = nth i l d.
Proof.
  induction l as [|x l IH]; intros n i d H.
  - rewrite firstn_nil. reflexivity.
  - destruct n; [lia|]. destruct i; cbn; [reflexivity|]. apply IH. lia.
Qed.

Lemma nth_skipn' : forall (l : list A) n i d, nth i (skipn n l) d = nth (n + i) l d.
Proof.
  induction l as [|x l IH]; intros n i d.
  - rewrite skipn_nil. destruct i, n; reflexivity.
  - destruct n; cbn; [reflexivity|]. apply IH.
Qed.

Lemma skipn_skipn' : forall (l : list A) x y, skipn x (skipn y l) = skipn (y + x) l.
Proof.
  intros l x y. revert l. induction y as [|y IH]; intros l; [reflexivity|].
  destruct l; [rewrite !skipn_nil; reflexivity|]. cbn. apply IH.
Qed.

Lemma flat_map_app' : forall (C : Type) (f : A -> list C) l1 l2,
  flat_map f (l1 ++ l2) = flat_map f l1 ++ flat_map f l2.
Proof. intros. apply flat_map_app. Qed.

End ListFacts.

Section Proofs.
Variable B : Type.
Variable zero : B.

Notation chunk := (chunk B).
Notation bvec := (bvec B).
Notation cget := (cget B zero).
Notation cslice := (cslice B zero).
Notation csub := (csub B zero).
Notation bslice := (bslice B zero).
Notation get_byte := (get_byte B zero).
Notation set_byte := (set_byte B zero).
Notation set_slice := (set_slice B zero).
Notation set_word := (set_word B zero).
Notation zeros_chunk := (zeros_chunk B zero).
Notation zeros := (zeros B zero).
Notation fa_slice := (fa_slice B zero).
Notation fa_set_byte := (fa_set_byte B zero).
Notation fa_set_slice := (fa_set_slice B zero).

Definition flatl (cs : list (nat * chunk)) : list B := flat_map (fun kc => cflat (snd kc)) cs.

Lemma flatl_app : forall l1 l2, flatl (l1 ++ l2) = flatl l1 ++ flatl l2.
Proof. intros. apply flat_map_app. Qed.

Lemma flatl_cons : forall k c r, flatl ((k, c) :: r) = cflat c ++ flatl r.
Proof. reflexivity. Qed.

Lemma cflat_nest : forall t cs len, cflat (Nest t cs len) = flatl cs.
Proof. reflexivity. Qed.

Lemma flat_flatl : forall v : bvec, flat v = flatl (chunks v).
Proof. reflexivity. Qed.

(* ------------------------------------------------------------------ wf basics *)

Lemma wf_lengths :
  (forall c : chunk, wfc c -> length (cflat c) = clen c) /\
  (forall b (cs : list (nat * chunk)) e, wfl b cs e -> b <= e /\ length (flatl cs) = e - b).
Proof.
  apply wf_mutind.
  - intros sym d s l H. cbn. rewrite firstn_length, skipn_length. lia.
  - intros tag cs len _ [_ H]. rewrite cflat_nest. cbn. lia.
  - intros b. cbn. lia.
  - intros b c r e Hpos _ Hc _ [Hle Hr]. rewrite flatl_cons, app_length. lia.
Qed.

Lemma cflat_length : forall c : chunk, wfc c -> length (cflat c) = clen c.
Proof. apply wf_lengths. Qed.

Lemma wfl_le : forall b (cs : list (nat * chunk)) e, wfl b cs e -> b <= e.
Proof. intros. eapply wf_lengths; eauto. Qed.

Lemma flatl_length : forall b (cs : list (nat * chunk)) e, wfl b cs e -> length (flatl cs) = e - b.
Proof. intros. eapply wf_lengths; eauto. Qed.

Lemma flat_length : forall v : bvec, wf v -> length (flat v) = blen v.
Proof. intros v H. rewrite flat_flatl, (flatl_length _ _ _ H). lia. Qed.

Lemma wfl_cons_inv : forall b k (c : chunk) r e,
  wfl b ((k, c) :: r) e -> k = b /\ 0 < clen c /\ wfc c /\ wfl (b + clen c) r e.
Proof. intros b k c r e H. inversion H; subst. auto. Qed.

Lemma wfl_nil_inv : forall b e, wfl b ([] : list (nat * chunk)) e -> e = b.
Proof. intros b e H. inversion H; subst. auto. Qed.

Lemma wfl_app : forall (l1 l2 : list (nat * chunk)) b m e, wfl b l1 m -> wfl m l2 e -> wfl b (l1 ++ l2) e.
Proof.
  induction l1 as [|[k c] r IH]; intros l2 b m e H1 H2.
  - inversion H1; subst. exact H2.
  - inversion H1; subst. cbn. constructor; auto. eapply IH; eauto.
Qed.

Lemma wfl_app_inv : forall (l1 l2 : list (nat * chunk)) b e,
  wfl b (l1 ++ l2) e -> exists m, wfl b l1 m /\ wfl m l2 e.
Proof.
  induction l1 as [|[k c] r IH]; intros l2 b e H.
  - exists b. split; [constructor | exact H].
  - cbn [app] in H. apply wfl_cons_inv in H. destruct H as [-> [Hp [Hc Hr]]].
    destruct (IH _ _ _ Hr) as [m [Ha Hb]].
    exists m. split; [constructor; auto | exact Hb].
Qed.

Lemma wfl_single : forall b (c : chunk), wfc c -> 0 < clen c -> wfl b [(b, c)] (b + clen c).
Proof. intros. constructor; auto. constructor. Qed.

Definition keys_lt (k : nat) (l : list (nat * chunk)) : Prop := Forall (fun kc => fst kc < k) l.
Definition keys_ge (k : nat) (l : list (nat * chunk)) : Prop := Forall (fun kc => k <= fst kc) l.

Lemma wfl_keys_ge : forall b (cs : list (nat * chunk)) e, wfl b cs e -> keys_ge b cs.
Proof.
  intros b cs. revert b. induction cs as [|[k c] r IH]; intros b e H; constructor.
  - inversion H; subst. cbn. lia.
  - inversion H; subst. eapply Forall_impl; [| eapply IH; eauto]. cbn. intros; lia.
Qed.

Lemma wfl_keys_lt : forall b (cs : list (nat * chunk)) e, wfl b cs e -> keys_lt e cs.
Proof.
  intros b cs. revert b. induction cs as [|[k c] r IH]; intros b e H; constructor.
  - apply wfl_cons_inv in H. destruct H as [-> [Hp [Hc Hr]]]. cbn [fst]. apply wfl_le in Hr. lia.
  - apply wfl_cons_inv in H. destruct H as [-> [Hp [Hc Hr]]]. eapply IH; eauto.
Qed.

Lemma keys_lt_weaken : forall k k' l, keys_lt k l -> k <= k' -> keys_lt k' l.
Proof. intros k k' l H Hle. eapply Forall_impl; [| exact H]. cbn. intros; lia. Qed.

Lemma keys_ge_weaken : forall k k' l, keys_ge k l -> k' <= k -> keys_ge k' l.
Proof. intros k k' l H Hle. eapply Forall_impl; [| exact H]. cbn. intros; lia. Qed.

Lemma keys_lt_app : forall k l1 l2, keys_lt k l1 -> keys_lt k l2 -> keys_lt k (l1 ++ l2).
Proof. intros. apply Forall_app; auto. Qed.

(* ------------------------------------------------------------------ SortedDict *)

Lemma sd_set_mid : forall key (c : chunk) A R m,
  keys_lt key A -> keys_ge m R -> key < m ->
  sd_set key c (A ++ R) = A ++ (key, c) :: R.
Proof.
  induction A as [|[k' c'] A IH]; intros R m HA HR Hlt.
  - cbn [app]. destruct R as [|[k2 c2] R2]; [reflexivity|].
    inversion HR; subst. cbn [fst] in H1. cbn [sd_set].
    destruct (key <? k2) eqn:E; [reflexivity|]. apply Nat.ltb_ge in E. lia.
  - inversion HA; subst. cbn [fst] in H1. cbn [sd_set app].
    destruct (key <? k') eqn:E1; [apply Nat.ltb_lt in E1; lia|].
    destruct (key =? k') eqn:E2; [apply Nat.eqb_eq in E2; lia|].
    f_equal. eapply IH; eauto.
Qed.

Lemma sd_set_repl : forall key (c c0 : chunk) A R,
  keys_lt key A -> sd_set key c (A ++ (key, c0) :: R) = A ++ (key, c) :: R.
Proof.
  induction A as [|[k' c'] A IH]; intros R HA.
  - cbn [sd_set app]. rewrite Nat.ltb_irrefl, Nat.eqb_refl. reflexivity.
  - inversion HA; subst. cbn [fst] in H1. cbn [sd_set app].
    destruct (key <? k') eqn:E1; [apply Nat.ltb_lt in E1; lia|].
    destruct (key =? k') eqn:E2; [apply Nat.eqb_eq in E2; lia|].
    f_equal. eapply IH; eauto.
Qed.

(* an optional chunk: what __set_chunk adds *)
Definition opt (k : nat) (c : chunk) : list (nat * chunk) :=
  if clen c =? 0 then [] else [(k, c)].

Lemma opt_wfl : forall k c, wfc c -> wfl k (opt k c) (k + clen c).
Proof.
  intros k c H. unfold opt. destruct (clen c =? 0) eqn:E.
  - apply Nat.eqb_eq in E. rewrite E, Nat.add_0_r. constructor.
  - apply Nat.eqb_neq in E. apply wfl_single; auto. lia.
Qed.

Lemma opt_flatl : forall k c, wfc c -> flatl (opt k c) = cflat c.
Proof.
  intros k c H. unfold opt. destruct (clen c =? 0) eqn:E.
  - apply Nat.eqb_eq in E. pose proof (cflat_length c H) as HL. rewrite E in HL.
    destruct (cflat c); [reflexivity | discriminate].
  - cbn. apply app_nil_r.
Qed.

Lemma set_chunk_mid : forall key c A R m,
  keys_lt key A -> keys_ge m R -> key < m ->
  set_chunk (A ++ R) key c = A ++ opt key c ++ R.
Proof.
  intros. unfold set_chunk, opt. destruct (clen c =? 0); [reflexivity|].
  cbn. eapply sd_set_mid; eauto.
Qed.

(* ------------------------------------------------------------------ _load_chunk *)

Definition next_le (r : list (nat * chunk)) (off : nat) : bool :=
  match r with (k2, _) :: _ => k2 <=? off | [] => false end.

Lemma find_chunk_cons : forall k (c : chunk) r off i,
  find_chunk ((k, c) :: r) off i =
  if next_le r off then find_chunk r off (S i) else Some (i, k, c).
Proof. reflexivity. Qed.

Lemma next_le_wfl : forall b (r : list (nat * chunk)) e off, wfl b r e ->
  next_le r off = match r with [] => false | _ => b <=? off end.
Proof. intros b r e off H. inversion H; subst; reflexivity. Qed.

Lemma find_chunk_spec : forall b (cs : list (nat * chunk)) e, wfl b cs e -> forall off i, b <= off < e ->
  exists A k c R,
    cs = A ++ (k, c) :: R /\ find_chunk cs off i = Some (i + length A, k, c) /\
    k <= off < k + clen c /\ wfl b A k /\ wfc c /\ 0 < clen c /\ wfl (k + clen c) R e.
Proof.
  intros b cs e H. induction H as [b | b c r e Hpos Hc Hr IH]; intros off i Hoff.
  - lia.
  - rewrite find_chunk_cons, (next_le_wfl _ _ _ off Hr).
    destruct r as [|[k2 c2] r2].
    + inversion Hr; subst.
      exists [], b, c, []. cbn [app length]. rewrite Nat.add_0_r.
      repeat split; auto; try lia; constructor.
    + assert (k2 = b + clen c) by (inversion Hr; auto). subst k2.
      destruct (b + clen c <=? off) eqn:E.
      * apply Nat.leb_le in E.
        destruct (IH off (S i)) as [A [k [c' [R [Heq [Hf [Hk [HA [Hc' [Hp HR]]]]]]]]]]; [lia|].
        exists ((b, c) :: A), k, c', R. cbn [app length].
        rewrite Hf, Heq. repeat split; auto; try lia.
        -- f_equal. f_equal. f_equal. lia.
        -- constructor; auto.
      * apply Nat.leb_gt in E.
        exists [], b, c, ((b + clen c, c2) :: r2). cbn [app length]. rewrite Nat.add_0_r.
        repeat split; auto; try lia; constructor.
Qed.

(* chunks entirely below the offset are skipped *)
Lemma find_chunk_skip : forall (A : list (nat * chunk)) b m, wfl b A m -> forall c R off i, m <= off ->
  find_chunk (A ++ (m, c) :: R) off i = find_chunk ((m, c) :: R) off (i + length A).
Proof.
  intros A b m H. induction H as [b | b c0 r e Hpos Hc Hr IH]; intros c R off i Hoff.
  - cbn [app length]. rewrite Nat.add_0_r. reflexivity.
  - cbn [app]. rewrite find_chunk_cons.
    assert (Hnext : next_le (r ++ (e, c) :: R) off = true).
    { destruct r as [|[k2 c2] r2]; cbn [app next_le].
      - inversion Hr; subst. apply Nat.leb_le. lia.
      - apply wfl_cons_inv in Hr. destruct Hr as [-> [Hp [Hc2 Hr]]]. apply wfl_le in Hr. apply Nat.leb_le. lia. }
    rewrite Hnext. rewrite IH by lia. cbn [length]. f_equal. lia.
Qed.

(* ------------------------------------------------------------------ get_byte *)

Definition cget_go (off : nat) : list (nat * chunk) -> B :=
  fix go (l : list (nat * chunk)) : B :=
    match l with
    | [] => zero
    | (k, c') :: r =>
        if (match r with (k2, _) :: _ => k2 <=? off | [] => false end)
        then go r
        else cget c' (off - k)
    end.

Lemma cget_nest : forall t cs len off,
  cget (Nest t cs len) off = if len <=? off then zero else cget_go off cs.
Proof. reflexivity. Qed.

Lemma cget_go_cons : forall off k (c : chunk) r,
  cget_go off ((k, c) :: r) = if next_le r off then cget_go off r else cget c (off - k).
Proof. reflexivity. Qed.

Lemma cget_correct :
  (forall c : chunk, wfc c -> forall off, off < clen c -> cget c off = nth off (cflat c) zero) /\
  (forall b (cs : list (nat * chunk)) e, wfl b cs e -> forall off, b <= off < e ->
      cget_go off cs = nth (off - b) (flatl cs) zero).
Proof.
  apply wf_mutind.
  - intros sym d s l H off Hoff. cbn [clen] in Hoff. cbn [ByteVecModel.cget cflat].
    rewrite nth_firstn_lt by lia. rewrite nth_skipn'. reflexivity.
  - intros tag cs len _ IH off Hoff. rewrite cget_nest, cflat_nest. cbn in Hoff.
    destruct (len <=? off) eqn:E; [apply Nat.leb_le in E; lia|].
    rewrite IH by lia. rewrite Nat.sub_0_r. reflexivity.
  - intros b off H. lia.
  - intros b c r e Hpos Hc IHc Hr IHr off Hoff.
    rewrite cget_go_cons, (next_le_wfl _ _ _ off Hr), flatl_cons.
    pose proof (cflat_length c Hc) as HL.
    destruct r as [|[k2 c2] r2].
    + inversion Hr; subst. rewrite IHc by lia.
      rewrite app_nth1 by lia. f_equal.
    + assert (k2 = b + clen c) by (inversion Hr; auto). subst k2.
      destruct (b + clen c <=? off) eqn:E.
      * apply Nat.leb_le in E. rewrite IHr by lia.
        rewrite app_nth2 by lia. f_equal. lia.
      * apply Nat.leb_gt in E. rewrite IHc by lia.
        rewrite app_nth1 by lia. reflexivity.
Qed.

Lemma get_byte_correct : forall v off, wf v -> get_byte v off = fa_get B zero (flat v) off.
Proof.
  intros v off H. unfold get_byte, as_chunk, fa_get. rewrite cget_nest.
  destruct (blen v <=? off) eqn:E.
  - apply Nat.leb_le in E. rewrite nth_overflow; [reflexivity|].
    rewrite flat_length; auto.
  - apply Nat.leb_gt in E.
    rewrite (proj2 cget_correct _ _ _ H) by lia. rewrite Nat.sub_0_r. reflexivity.
Qed.

(* ------------------------------------------------------------------ leaves / append *)

Definition flatc (ls : list chunk) : list B := flat_map (@cflat B) ls.

Lemma flatc_app : forall l1 l2, flatc (l1 ++ l2) = flatc l1 ++ flatc l2.
Proof. intros. apply flat_map_app. Qed.

Definition leavesl (cs : list (nat * chunk)) : list chunk := flat_map (fun kc => leaves (snd kc)) cs.

Lemma leaves_nest : forall t cs len, leaves (Nest t cs len) = leavesl cs.
Proof. reflexivity. Qed.

Lemma leaves_correct :
  (forall c : chunk, wfc c -> Forall wfc (leaves c) /\ flatc (leaves c) = cflat c) /\
  (forall b (cs : list (nat * chunk)) e, wfl b cs e ->
      Forall wfc (leavesl cs) /\ flatc (leavesl cs) = flatl cs).
Proof.
  apply wf_mutind.
  - intros sym d s l H. cbn [leaves]. split.
    + constructor; [constructor; exact H | constructor].
    + unfold flatc. cbn [flat_map]. apply app_nil_r.
  - intros tag cs len _ IH. rewrite leaves_nest, cflat_nest. exact IH.
  - intros b. split; [constructor | reflexivity].
  - intros b c r e Hpos Hc [IH1 IH2] Hr [IH3 IH4]. unfold leavesl. cbn [flat_map snd].
    split.
    + apply Forall_app. split; assumption.
    + rewrite flatc_app, flatl_cons. fold (leavesl r). rewrite IH2, IH4. reflexivity.
Qed.

Lemma sum_len_flatc : forall ls : list chunk, Forall wfc ls -> sum_len ls = length (flatc ls).
Proof.
  induction ls as [|c ls IH]; intros H.
  - reflexivity.
  - inversion H; subst. unfold flatc. cbn [sum_len fold_right flat_map].
    rewrite app_length, cflat_length by assumption. f_equal. apply IH. assumption.
Qed.

Lemma zeros_chunk_wfc : forall n, wfc (zeros_chunk n).
Proof. intros n. constructor. rewrite repeat_length. lia. Qed.

Lemma zeros_chunk_flat : forall n, cflat (zeros_chunk n) = zeros n.
Proof.
  intros n. unfold zeros_chunk, ByteVecModel.zeros_chunk, zeros, ByteVecSpec.zeros. cbn [cflat skipn].
  apply firstn_all2. rewrite repeat_length. lia.
Qed.

Lemma zeros_chunk_len : forall n, clen (zeros_chunk n) = n.
Proof. reflexivity. Qed.

Lemma append_leaf_correct : forall (v : bvec) (c : chunk), wf v -> wfc c ->
  wf (append_leaf v c) /\ flat (append_leaf v c) = flat v ++ cflat c /\
  blen (append_leaf v c) = blen v + clen c.
Proof.
  intros v c Hv Hc. unfold append_leaf. destruct (clen c =? 0) eqn:E.
  - apply Nat.eqb_eq in E. pose proof (cflat_length c Hc) as HL. rewrite E in HL.
    destruct (cflat c); [|discriminate]. rewrite app_nil_r, E, Nat.add_0_r. auto.
  - apply Nat.eqb_neq in E. unfold wf, flat. cbn [chunks blen].
    assert (Hs : sd_set (blen v) c (chunks v) = chunks v ++ [(blen v, c)]).
    { rewrite <- (app_nil_r (chunks v)) at 1.
      apply (sd_set_mid _ _ _ _ (S (blen v))); [eapply wfl_keys_lt; exact Hv | constructor | lia]. }
    rewrite Hs. split; [|split; [|reflexivity]].
    + eapply wfl_app; [exact Hv|]. apply wfl_single; [assumption | lia].
    + fold (flatl (chunks v ++ [(blen v, c)])). rewrite flatl_app, flatl_cons. cbn [flatl flat_map].
      rewrite app_nil_r. reflexivity.
Qed.

Lemma fold_append_leaf : forall (ls : list chunk) (v : bvec), wf v -> Forall wfc ls ->
  wf (fold_left append_leaf ls v) /\
  flat (fold_left append_leaf ls v) = flat v ++ flatc ls /\
  blen (fold_left append_leaf ls v) = blen v + length (flatc ls).
Proof.
  induction ls as [|c ls IH]; intros v Hv Hls.
  - cbn [fold_left]. unfold flatc. cbn [flat_map length]. rewrite app_nil_r, Nat.add_0_r. auto.
  - inversion Hls; subst. cbn [fold_left].
    destruct (append_leaf_correct v c Hv H1) as [Hw [Hf Hl]].
    destruct (IH _ Hw H2) as [Hw2 [Hf2 Hl2]].
    split; [exact Hw2|]. unfold flatc in *. cbn [flat_map]. rewrite Hf2, Hl2, Hf, Hl, app_length.
    rewrite (cflat_length c H1). split; [apply app_assoc_reverse | lia].
Qed.

Lemma append_correct : forall (v : bvec) (c : chunk), wf v -> wfc c ->
  wf (append v c) /\ flat (append v c) = flat v ++ cflat c /\ blen (append v c) = blen v + clen c.
Proof.
  intros v c Hv Hc. unfold append.
  destruct (proj1 leaves_correct c Hc) as [Hl Hf].
  destruct (fold_append_leaf (leaves c) v Hv Hl) as [H1 [H2 H3]].
  rewrite Hf in H2, H3. rewrite (cflat_length c Hc) in H3. auto.
Qed.

Lemma wf_empty : wf (@empty B).
Proof. constructor. Qed.

Lemma from_leaves_correct : forall ls : list chunk, Forall wfc ls ->
  wf (from_leaves ls) /\ flat (from_leaves ls) = flatc ls /\ blen (from_leaves ls) = length (flatc ls).
Proof.
  intros ls H. unfold from_leaves.
  destruct (fold_append_leaf ls empty wf_empty H) as [H1 [H2 H3]]. auto.
Qed.

(* ------------------------------------------------------------------ slice *)

Lemma firstn_repeat' : forall (x : B) k n, firstn k (repeat x n) = repeat x (Nat.min k n).
Proof.
  intros x k. induction k as [|k IH]; intros n; [reflexivity|].
  destruct n; [reflexivity|]. cbn. f_equal. apply IH.
Qed.

Lemma firstn_cong : forall (l : list B) n m,
  (n = m \/ (length l <= n /\ length l <= m)) -> firstn n l = firstn m l.
Proof.
  intros l n m [-> | [H1 H2]]; [reflexivity|]. rewrite !firstn_all2 by assumption. reflexivity.
Qed.

Lemma fa_slice_alt : forall l a b,
  fa_slice l a b = firstn (b - a) (skipn a l) ++ zeros ((b - a) - length (firstn (b - a) (skipn a l))).
Proof.
  intros l a b. unfold fa_slice, ByteVecSpec.fa_slice. rewrite firstn_app. f_equal.
  unfold zeros, ByteVecSpec.zeros. rewrite firstn_repeat'. f_equal.
  rewrite firstn_length. lia.
Qed.

Lemma fa_slice_in : forall l a b, a <= b <= length l -> fa_slice l a b = firstn (b - a) (skipn a l).
Proof.
  intros l a b H. rewrite fa_slice_alt. rewrite firstn_length, skipn_length.
  replace (b - a - Nat.min (b - a) (length l - a)) with 0 by lia. apply app_nil_r.
Qed.

Lemma fa_slice_length : forall l a b, length (fa_slice l a b) = b - a.
Proof.
  intros. unfold fa_slice, ByteVecSpec.fa_slice. rewrite firstn_length, app_length.
  unfold ByteVecSpec.zeros. rewrite repeat_length. lia.
Qed.

Definition cslice_go (a b : nat) : list (nat * chunk) -> list chunk :=
  fix go (l : list (nat * chunk)) : list chunk :=
    match l with
    | [] => []
    | (k, c') :: r =>
        if (match r with (k2, _) :: _ => k2 <=? a | [] => false end)
        then go r
        else if b <=? k then []
        else
          (if (a <=? k) && (k + clen c' <=? b)
           then leaves c'
           else cslice c' (a - k) (Nat.min (clen c') (b - k)))
          ++ go r
    end.

Lemma cslice_nest : forall t cs len a b,
  cslice (Nest t cs len) a b =
  if b <=? a then []
  else if len <=? a then [zeros_chunk (b - a)]
  else
    let parts := cslice_go a b cs in
    let missing := (b - a) - sum_len parts in
    if missing =? 0 then parts else parts ++ [zeros_chunk missing].
Proof. reflexivity. Qed.

Lemma cslice_go_cons : forall a b k (c : chunk) r,
  cslice_go a b ((k, c) :: r) =
  if next_le r a then cslice_go a b r
  else if b <=? k then []
  else (if (a <=? k) && (k + clen c <=? b) then leaves c
        else cslice c (a - k) (Nat.min (clen c) (b - k))) ++ cslice_go a b r.
Proof. reflexivity. Qed.

Definition slice_ok (c : chunk) (a b : nat) : Prop :=
  match c with Leaf _ _ _ l => a <= b <= l | Nest _ _ _ => True end.

Lemma cslice_correct :
  (forall c : chunk, wfc c -> forall a b, slice_ok c a b ->
      Forall wfc (cslice c a b) /\ flatc (cslice c a b) = fa_slice (cflat c) a b) /\
  (forall b0 (cs : list (nat * chunk)) e, wfl b0 cs e -> forall a b, a < b -> a < e ->
      Forall wfc (cslice_go a b cs) /\
      flatc (cslice_go a b cs) = firstn (b - Nat.max a b0) (skipn (a - b0) (flatl cs))).
Proof.
  apply wf_mutind.
  - (* Leaf *)
    intros sym d s l H a b Hok. cbn [slice_ok] in Hok. cbn [ByteVecModel.cslice]. split.
    + constructor; [constructor; lia | constructor].
    + unfold flatc. cbn [flat_map cflat]. rewrite app_nil_r.
      rewrite fa_slice_in by (rewrite firstn_length, skipn_length; lia).
      rewrite skipn_firstn_comm, firstn_firstn, skipn_skipn'.
      replace (Nat.min (b - a) (l - a)) with (b - a) by lia. reflexivity.
  - (* Nest *)
    intros tag cs len Hwf IH a b _. rewrite cslice_nest, cflat_nest.
    pose proof (flatl_length _ _ _ Hwf) as HL. rewrite Nat.sub_0_r in HL.
    destruct (b <=? a) eqn:E1.
    { apply Nat.leb_le in E1. split; [constructor|].
      rewrite fa_slice_alt. replace (b - a) with 0 by lia. reflexivity. }
    apply Nat.leb_gt in E1.
    destruct (len <=? a) eqn:E2.
    { apply Nat.leb_le in E2. split.
      - constructor; [apply zeros_chunk_wfc | constructor].
      - unfold flatc. cbn [flat_map]. rewrite zeros_chunk_flat, app_nil_r.
        rewrite fa_slice_alt. rewrite skipn_all2 by lia. rewrite firstn_nil. cbn [length app].
        rewrite Nat.sub_0_r. reflexivity. }
    apply Nat.leb_gt in E2.
    destruct (IH a b E1 E2) as [Hw Hf].
    rewrite Nat.max_0_r, Nat.sub_0_r in Hf.
    cbv zeta. rewrite (sum_len_flatc _ Hw), Hf.
    rewrite fa_slice_alt.
    destruct (b - a - length (firstn (b - a) (skipn a (flatl cs))) =? 0) eqn:E3.
    + apply Nat.eqb_eq in E3. rewrite E3. split; [exact Hw|].
      rewrite Hf. unfold zeros, ByteVecSpec.zeros. cbn [repeat]. rewrite app_nil_r. reflexivity.
    + split.
      * apply Forall_app. split; [exact Hw|]. constructor; [apply zeros_chunk_wfc | constructor].
      * rewrite flatc_app, Hf. f_equal. unfold flatc. cbn [flat_map].
        rewrite zeros_chunk_flat. apply app_nil_r.
  - (* nil *)
    intros b0 a b _ _. split; [constructor|]. cbn [cslice_go flatl flat_map].
    rewrite skipn_nil, firstn_nil. reflexivity.
  - (* cons *)
    intros b0 c r e Hpos Hc IHc Hr IHr a b Hab Hae.
    rewrite cslice_go_cons, (next_le_wfl _ _ _ a Hr), flatl_cons.
    pose proof (cflat_length c Hc) as HL.
    pose proof (wfl_le _ _ _ Hr) as Hle.
    assert (Hskip : (match r with [] => false | _ => b0 + clen c <=? a end) = true -> b0 + clen c <= a).
    { destruct r; [discriminate|]. intros E. apply Nat.leb_le in E. exact E. }
    assert (Hnoskip : (match r with [] => false | _ => b0 + clen c <=? a end) = false -> a < b0 + clen c).
    { destruct r.
      - intros _. apply wfl_nil_inv in Hr. lia.
      - intros E. apply Nat.leb_gt in E. exact E. }
    destruct (match r with [] => false | _ => b0 + clen c <=? a end) eqn:Esk.
    + (* chunk entirely before a *)
      specialize (Hskip eq_refl). destruct (IHr a b Hab Hae) as [Hw Hf]. split; [exact Hw|].
      rewrite Hf. rewrite skipn_app. rewrite (skipn_all2 (cflat c)) by lia. cbn [app].
      rewrite HL. replace (a - b0 - clen c) with (a - (b0 + clen c)) by lia.
      replace (Nat.max a (b0 + clen c)) with (Nat.max a b0) by lia. reflexivity.
    + specialize (Hnoskip eq_refl).
      destruct (b <=? b0) eqn:E1.
      { apply Nat.leb_le in E1. split; [constructor|].
        replace (b - Nat.max a b0) with 0 by lia. reflexivity. }
      apply Nat.leb_gt in E1.
      destruct (IHr a b Hab Hae) as [Hw Hf].
      destruct ((a <=? b0) && (b0 + clen c <=? b)) eqn:E2.
      * (* whole chunk *)
        apply andb_true_iff in E2. destruct E2 as [E2 E3].
        apply Nat.leb_le in E2. apply Nat.leb_le in E3.
        destruct (proj1 leaves_correct c Hc) as [Hlw Hlf].
        split; [apply Forall_app; split; assumption|].
        rewrite flatc_app, Hlf, Hf.
        replace (a - b0) with 0 by lia. replace (a - (b0 + clen c)) with 0 by lia.
        cbn [skipn]. rewrite firstn_app. rewrite (firstn_all2 (cflat c)) by lia.
        f_equal. apply firstn_cong. left. lia.
      * (* part of the chunk *)
        assert (Hok : slice_ok c (a - b0) (Nat.min (clen c) (b - b0))).
        { destruct c; cbn [slice_ok clen] in *; [lia | exact I]. }
        destruct (IHc _ _ Hok) as [Hcw Hcf].
        split; [apply Forall_app; split; assumption|].
        rewrite flatc_app, Hcf, Hf.
        rewrite fa_slice_in by lia.
        replace (a - (b0 + clen c)) with 0 by lia. cbn [skipn].
        rewrite skipn_app. replace (a - b0 - length (cflat c)) with 0 by lia. cbn [skipn].
        rewrite firstn_app, skipn_length.
        apply andb_false_iff in E2.
        assert (E2' : b0 < a \/ b < b0 + clen c).
        { destruct E2 as [E2 | E2]; apply Nat.leb_gt in E2; lia. }
        f_equal; apply firstn_cong; rewrite ?skipn_length; lia.
Qed.

Lemma bslice_correct : forall (v : bvec) a b, wf v ->
  wf (bslice v a b) /\ flat (bslice v a b) = fa_slice (flat v) a b /\ blen (bslice v a b) = b - a.
Proof.
  intros v a b Hv. unfold bslice.
  assert (Hc : wfc (as_chunk None v)) by (constructor; exact Hv).
  destruct (proj1 cslice_correct _ Hc a b I) as [Hw Hf].
  destruct (from_leaves_correct _ Hw) as [H1 [H2 H3]].
  rewrite Hf in H2, H3. rewrite fa_slice_length in H3. auto.
Qed.

(* chunk[a:b] *)
Lemma csub_correct : forall (c : chunk) a b, wfc c -> a <= b <= clen c ->
  wfc (csub c a b) /\ cflat (csub c a b) = firstn (b - a) (skipn a (cflat c)) /\
  clen (csub c a b) = b - a.
Proof.
  intros c a b Hc Hab.
  assert (Hok : slice_ok c a b) by (destruct c; cbn [slice_ok clen] in *; [lia | exact I]).
  destruct (proj1 cslice_correct c Hc a b Hok) as [Hw Hf].
  rewrite fa_slice_in in Hf by (rewrite cflat_length; assumption).
  destruct c as [sym d s l | t cs len].
  - cbn [ByteVecModel.csub]. cbn [ByteVecModel.cslice] in Hw, Hf.
    inversion Hw; subst. unfold flatc in Hf. cbn [flat_map] in Hf. rewrite app_nil_r in Hf.
    auto.
  - cbn [ByteVecModel.csub].
    destruct (from_leaves_correct _ Hw) as [H1 [H2 H3]].
    unfold as_chunk. split; [constructor; exact H1|]. rewrite cflat_nest, <- flat_flatl.
    cbn [clen]. rewrite H3, H2, Hf. split; [reflexivity|].
    rewrite firstn_length, skipn_length, cflat_length by assumption. lia.
Qed.

(* ------------------------------------------------------------------ set_byte *)

Lemma wfl_eq : forall b b' (l : list (nat * chunk)) e e', wfl b l e -> b = b' -> e = e' -> wfl b' l e'.
Proof. intros; subst; assumption. Qed.

Lemma set_chunk_mid' : forall key (c : chunk) A R m,
  keys_lt key A -> keys_ge m R -> (0 < clen c -> key < m) ->
  set_chunk (A ++ R) key c = A ++ opt key c ++ R.
Proof.
  intros key c A R m HA HR Hlt. unfold set_chunk, opt. destruct (clen c =? 0) eqn:E; [reflexivity|].
  apply Nat.eqb_neq in E. cbn [app]. eapply sd_set_mid; eauto. apply Hlt. lia.
Qed.

Lemma set_chunk_nonempty : forall cs key (c : chunk), 0 < clen c -> set_chunk cs key c = sd_set key c cs.
Proof.
  intros cs key c H. unfold set_chunk. destruct (clen c =? 0) eqn:E; [|reflexivity].
  apply Nat.eqb_eq in E. lia.
Qed.

Lemma keys_lt_single : forall k k' (c : chunk), k' < k -> keys_lt k [(k', c)].
Proof. intros. constructor; [exact H | constructor]. Qed.

Lemma keys_lt_opt : forall k k' (c : chunk), k' < k -> keys_lt k (opt k' c).
Proof. intros. unfold opt. destruct (clen c =? 0); [constructor | apply keys_lt_single; assumption]. Qed.

Lemma byte_chunk_wfc : forall sym (x : B), wfc (Leaf sym [x] 0 1).
Proof. intros. constructor. cbn. lia. Qed.

Lemma flat_BV : forall cs len, flat (BV cs len) = flatl cs.
Proof. reflexivity. Qed.

Lemma set_byte_correct : forall (v : bvec) off sym x, wf v ->
  exists v', set_byte v off sym x = Some v' /\ wf v' /\ flat v' = fa_set_byte (flat v) off x.
Proof.
  intros v off sym x Hv. unfold set_byte, ByteVecModel.set_byte.
  pose proof (flat_length v Hv) as HL.
  destruct (blen v <=? off) eqn:E.
  - apply Nat.leb_le in E. eexists. split; [reflexivity|].
    destruct (append_leaf_correct v (zeros_chunk (off - blen v)) Hv (zeros_chunk_wfc _)) as [H1 [H2 H3]].
    destruct (append_leaf_correct _ (Leaf sym [x] 0 1) H1 (byte_chunk_wfc sym x)) as [H4 [H5 H6]].
    split; [exact H4|]. rewrite H5, H2, zeros_chunk_flat.
    unfold fa_set_byte, ByteVecSpec.fa_set_byte, zext. rewrite HL.
    rewrite (skipn_all2 (flat v)) by lia.
    rewrite firstn_all2; [reflexivity|].
    rewrite app_length. unfold ByteVecSpec.zeros. rewrite repeat_length. lia.
  - apply Nat.leb_gt in E. unfold load_chunk. rewrite (proj2 (Nat.leb_gt _ _) E).
    destruct (find_chunk_spec 0 (chunks v) (blen v) Hv off 0) as [A [k [c [R [Heq [Hf [Hk [HA [Hc [Hp HR]]]]]]]]]]; [lia|].
    rewrite Hf. eexists. split; [reflexivity|].
    destruct (csub_correct c 0 (off - k) Hc) as [Hpre1 [Hpre2 Hpre3]]; [lia|].
    destruct (csub_correct c (off - k + 1) (clen c) Hc) as [Hpost1 [Hpost2 Hpost3]]; [lia|].
    set (pre := csub c 0 (off - k)) in *.
    set (post := csub c (off - k + 1) (clen c)) in *.
    set (bc := Leaf sym [x] 0 1).
    pose proof (wfl_keys_lt _ _ _ HA) as KA.
    pose proof (wfl_keys_ge _ _ _ HR) as KR.
    (* the dict after the three assignments *)
    assert (Hcs2 : sd_set off bc (set_chunk (chunks v) k pre) = (A ++ opt k pre ++ [(off, bc)]) ++ R).
    { rewrite Heq. unfold set_chunk, opt. destruct (clen pre =? 0) eqn:Ep.
      - apply Nat.eqb_eq in Ep. assert (off = k) by lia. subst off.
        cbn [app]. rewrite sd_set_repl by exact KA. rewrite <- app_assoc. reflexivity.
      - apply Nat.eqb_neq in Ep. rewrite sd_set_repl by exact KA.
        replace (A ++ (k, pre) :: R) with ((A ++ [(k, pre)]) ++ R) by (rewrite <- app_assoc; reflexivity).
        rewrite (sd_set_mid off bc (A ++ [(k, pre)]) R (k + clen c)).
        + rewrite <- !app_assoc. reflexivity.
        + apply keys_lt_app; [eapply keys_lt_weaken; [exact KA | lia] | apply keys_lt_single; lia].
        + exact KR.
        + lia. }
    rewrite Hcs2.
    rewrite (set_chunk_mid' (off + 1) post _ R (k + clen c)).
    2:{ apply keys_lt_app; [eapply keys_lt_weaken; [exact KA | lia]|].
        apply keys_lt_app; [apply keys_lt_opt; lia | apply keys_lt_single; lia]. }
    2:{ exact KR. }
    2:{ lia. }
    split.
    + unfold wf. cbn [chunks blen].
      rewrite <- !app_assoc.
      eapply wfl_app; [exact HA|].
      eapply wfl_app; [apply opt_wfl; exact Hpre1|].
      eapply wfl_app; [apply (wfl_eq (k + clen pre) (k + clen pre) [(off, bc)] (k + clen pre + clen bc)); [|reflexivity|reflexivity]|].
      { replace off with (k + clen pre) by lia. apply wfl_single; [apply byte_chunk_wfc | cbn; lia]. }
      eapply wfl_app; [apply (wfl_eq (off + 1) _ _ (off + 1 + clen post)); [apply opt_wfl; exact Hpost1 | cbn [clen bc]; lia | reflexivity]|].
      eapply wfl_eq; [exact HR | lia | reflexivity].
    + rewrite flat_BV.
      rewrite !flatl_app, flatl_cons, !opt_flatl by assumption.
      rewrite Hpre2, Hpost2. cbn [flatl flat_map cflat bc skipn firstn app].
      rewrite flat_flatl, Heq, flatl_app, flatl_cons.
      unfold fa_set_byte, ByteVecSpec.fa_set_byte, zext.
      pose proof (flatl_length _ _ _ HA) as LA. rewrite Nat.sub_0_r in LA.
      pose proof (cflat_length c Hc) as LC.
      rewrite flat_flatl, Heq, flatl_app, flatl_cons in HL.
      rewrite HL. replace (off - blen v) with 0 by lia. unfold ByteVecSpec.zeros. cbn [repeat].
      rewrite app_nil_r.
      rewrite firstn_mid by lia. rewrite skipn_mid by lia. rewrite LA.
      rewrite Nat.sub_0_r. rewrite <- !app_assoc. f_equal. f_equal. cbn [app]. f_equal. f_equal.
      replace (off + 1 - k) with (off - k + 1) by lia.
      apply firstn_all2. rewrite skipn_length. lia.
Qed.

(* ------------------------------------------------------------------ set_slice *)

Definition shift (s : nat) (l : list (nat * chunk)) : list (nat * chunk) :=
  map (fun kc => (s + fst kc, snd kc)) l.

Lemma wfl_shift : forall s b (l : list (nat * chunk)) e, wfl b l e -> wfl (s + b) (shift s l) (s + e).
Proof.
  intros s b l e H. induction H as [b | b c r e Hpos Hc Hr IH].
  - constructor.
  - cbn [shift map fst snd]. constructor; auto.
    eapply wfl_eq; [exact IH | lia | reflexivity].
Qed.

Lemma flatl_shift : forall s l, flatl (shift s l) = flatl l.
Proof.
  intros s l. induction l as [|[k c] r IH]; [reflexivity|].
  cbn [shift map fst snd]. rewrite !flatl_cons. f_equal. exact IH.
Qed.

Definition val_chunks (start : nat) (val : chunk) : list (nat * chunk) :=
  match val with
  | Nest _ wcs _ => shift start wcs
  | Leaf _ _ _ _ => [(start, val)]
  end.

Lemma val_chunks_wfl : forall start (val : chunk), wfc val -> 0 < clen val ->
  wfl start (val_chunks start val) (start + clen val).
Proof.
  intros start val H Hpos. destruct val as [sym d s l | t wcs len].
  - cbn [val_chunks]. apply wfl_single; assumption.
  - cbn [val_chunks clen]. inversion H; subst.
    eapply wfl_eq; [apply wfl_shift; eassumption | lia | reflexivity].
Qed.

Lemma val_chunks_flatl : forall start (val : chunk), flatl (val_chunks start val) = cflat val.
Proof.
  intros start val. destruct val as [sym d s l | t wcs len].
  - cbn [val_chunks flatl flat_map snd]. apply app_nil_r.
  - cbn [val_chunks]. rewrite flatl_shift. reflexivity.
Qed.

Definition put_val (start : nat) (val : chunk) (cs : list (nat * chunk)) : list (nat * chunk) :=
  match val with
  | Nest _ wcs _ => fold_left (fun acc kc => set_chunk acc (start + fst kc) (snd kc)) wcs cs
  | Leaf _ _ _ _ => set_chunk cs start val
  end.

Lemma fold_insert : forall start m R2 b0 (wcs : list (nat * chunk)) e0, wfl b0 wcs e0 ->
  forall P, keys_lt (start + b0) P -> keys_ge m R2 -> start + e0 <= m ->
  fold_left (fun acc kc => set_chunk acc (start + fst kc) (snd kc)) wcs (P ++ R2) =
  P ++ shift start wcs ++ R2.
Proof.
  intros start m R2 b0 wcs e0 H. induction H as [b | b c r e Hpos Hc Hr IH]; intros P HP HR Hm.
  - reflexivity.
  - cbn [fold_left fst snd shift map]. fold (shift start r).
    pose proof (wfl_le _ _ _ Hr) as Hle.
    rewrite set_chunk_nonempty by assumption.
    rewrite (sd_set_mid (start + b) c P R2 m) by (auto; lia).
    replace (P ++ (start + b, c) :: R2) with ((P ++ [(start + b, c)]) ++ R2) by (rewrite <- app_assoc; reflexivity).
    rewrite IH.
    + rewrite <- !app_assoc. reflexivity.
    + apply keys_lt_app; [eapply keys_lt_weaken; [exact HP | lia] | apply keys_lt_single; lia].
    + exact HR.
    + exact Hm.
Qed.

(* writing the value at [start] into P ++ stale ++ R2 where stale is nothing or the old
   chunk that still sits at key [start] *)
Lemma put_val_correct : forall start stop m (val c0 : chunk) P R2 (stale : bool),
  wfc val -> clen val = stop - start -> start < stop ->
  keys_lt start P -> keys_ge m R2 -> stop <= m ->
  put_val start val (P ++ (if stale then [(start, c0)] else []) ++ R2) =
  P ++ val_chunks start val ++ R2.
Proof.
  intros start stop m val c0 P R2 stale Hv Hlen Hlt HP HR Hm.
  assert (Hfirst : forall c : chunk, 0 < clen c -> start < m ->
     set_chunk (P ++ (if stale then [(start, c0)] else []) ++ R2) start c = P ++ (start, c) :: R2).
  { intros c Hc Hsm. rewrite set_chunk_nonempty by assumption. destruct stale; cbn [app].
    - apply sd_set_repl. exact HP.
    - eapply sd_set_mid; eauto. }
  destruct val as [sym d s l | t wcs len].
  - cbn [put_val val_chunks app]. apply Hfirst; [cbn [clen] in *; lia | lia].
  - cbn [put_val val_chunks]. cbn [clen] in Hlen. inversion Hv as [| t' cs' len' Hw]; subst.
    destruct wcs as [|[k0 c0'] rest].
    + apply wfl_nil_inv in Hw. lia.
    + apply wfl_cons_inv in Hw. destruct Hw as [-> [Hp0 [Hc0 Hrest]]].
      cbn [fold_left fst snd]. rewrite Nat.add_0_r.
      pose proof (wfl_le _ _ _ Hrest) as Hle.
      rewrite Hfirst by (auto; lia).
      replace (P ++ (start, c0') :: R2) with ((P ++ [(start, c0')]) ++ R2) by (rewrite <- app_assoc; reflexivity).
      rewrite (fold_insert start m R2 _ _ _ Hrest).
      * cbn [shift map fst snd]. rewrite Nat.add_0_r. rewrite <- !app_assoc. reflexivity.
      * apply keys_lt_app; [eapply keys_lt_weaken; [exact HP | lia] | apply keys_lt_single; lia].
      * exact HR.
      * cbn [Nat.add] in *. lia.
Qed.

Lemma remove_tail : forall (A R : list (nat * chunk)) x,
  remove_range (A ++ x :: R) (length A + 1) (length (A ++ x :: R)) = A ++ [x].
Proof.
  intros A R x. unfold remove_range. rewrite app_length. cbn [length].
  destruct (length A + S (length R) <=? length A + 1) eqn:E.
  - apply Nat.leb_le in E. destruct R; [reflexivity | cbn [length] in E; lia].
  - rewrite skipn_all2 by (rewrite app_length; cbn [length]; lia).
    rewrite app_nil_r. rewrite firstn_app. rewrite firstn_all2 by lia.
    replace (length A + 1 - length A) with 1 by lia. reflexivity.
Qed.

Lemma remove_mid : forall (A A' R2 : list (nat * chunk)) x y R,
  x :: R = A' ++ y :: R2 ->
  remove_range (A ++ x :: R) (length A + 1) (length A + length A' + 1) = A ++ x :: R2.
Proof.
  intros A A' R2 x y R Heq. unfold remove_range. destruct A' as [|x' M].
  - cbn [app length] in *. inversion Heq; subst.
    replace (length A + 0 + 1 <=? length A + 1) with true by (symmetry; apply Nat.leb_le; lia).
    reflexivity.
  - cbn [app length] in *. inversion Heq; subst.
    replace (length A + S (length M) + 1 <=? length A + 1) with false by (symmetry; apply Nat.leb_gt; lia).
    rewrite firstn_app. rewrite firstn_all2 by lia.
    replace (length A + 1 - length A) with 1 by lia. cbn [firstn].
    rewrite skipn_app. rewrite skipn_all2 by lia.
    replace (length A + S (length M) + 1 - length A) with (S (length M + 1)) by lia.
    cbn [skipn app]. rewrite skipn_app. rewrite skipn_all2 by lia.
    replace (length M + 1 - length M) with 1 by lia. cbn [skipn app].
    rewrite <- app_assoc. reflexivity.
Qed.

(* first chunk truncated, value written: common part of both general sub-cases *)
Lemma write_front : forall A fs (fc : chunk) R2 start stop m (val : chunk),
  wfl 0 A fs -> wfc fc -> fs <= start < fs + clen fc -> start < stop ->
  wfc val -> clen val = stop - start -> keys_ge m R2 -> stop <= m ->
  put_val start val (set_chunk (A ++ (fs, fc) :: R2) fs (csub fc 0 (start - fs))) =
  A ++ opt fs (csub fc 0 (start - fs)) ++ val_chunks start val ++ R2.
Proof.
  intros A fs fc R2 start stop m val HA Hfc Hs Hlt Hv Hlen HR Hm.
  destruct (csub_correct fc 0 (start - fs) Hfc) as [Hp1 [Hp2 Hp3]]; [lia|].
  set (pre := csub fc 0 (start - fs)) in *.
  pose proof (wfl_keys_lt _ _ _ HA) as KA.
  unfold set_chunk, opt. destruct (clen pre =? 0) eqn:Ep.
  - apply Nat.eqb_eq in Ep. assert (start = fs) by lia. subst start.
    cbn [app].
    apply (put_val_correct fs stop m val fc A R2 true); auto.
  - apply Nat.eqb_neq in Ep. rewrite sd_set_repl by exact KA.
    replace (A ++ (fs, pre) :: R2) with ((A ++ [(fs, pre)]) ++ (if false then [(start, fc)] else []) ++ R2)
      by (rewrite <- app_assoc; reflexivity).
    rewrite (put_val_correct start stop m val fc _ R2 false); auto.
    + rewrite <- !app_assoc. reflexivity.
    + apply keys_lt_app; [eapply keys_lt_weaken; [exact KA | lia] | apply keys_lt_single; lia].
Qed.

Lemma fa_set_slice_some : forall l a b data, a < b -> length data = b - a ->
  fa_set_slice l a b data = Some (firstn a (zext B zero l a) ++ data ++ skipn b l).
Proof.
  intros l a b data Hab Hlen. unfold fa_set_slice, ByteVecSpec.fa_set_slice.
  replace (a =? b) with false by (symmetry; apply Nat.eqb_neq; lia).
  replace (b <? a) with false by (symmetry; apply Nat.ltb_ge; lia).
  replace (length data =? b - a) with true by (symmetry; apply Nat.eqb_eq; lia).
  reflexivity.
Qed.

Lemma zext_in : forall (l : list B) n, n <= length l -> zext B zero l n = l.
Proof.
  intros l n H. unfold zext. replace (n - length l) with 0 by lia. apply app_nil_r.
Qed.

(* the general path of set_slice with its `let`s named *)
Definition post_step (v : bvec) (stop : nat) (cs3 : list (nat * chunk)) : list (nat * chunk) :=
  match load_chunk v (stop - 1) with
  | Some (_, ls, lc) =>
      if stop <? ls + clen lc then set_chunk cs3 stop (csub lc (stop - ls) (clen lc)) else cs3
  | None => cs3
  end.

Definition general_path (v : bvec) (fi fs : nat) (fc : chunk) (start stop : nat) (val : chunk) : bvec :=
  BV (post_step v stop
        (put_val start val
           (set_chunk
              (remove_range (chunks v) (fi + 1)
                 (if blen v <=? stop then length (chunks v)
                  else match load_chunk v (stop - 1) with Some (li, _, _) => li + 1 | None => 0 end))
              fs (csub fc 0 (start - fs)))))
     (Nat.max (blen v) stop).

Lemma set_slice_unfold : forall (v : bvec) start stop (val : chunk),
  set_slice v start stop val =
  if start =? stop then Some v
  else if stop <? start then None
  else if negb (stop - start =? clen val) then None
  else if blen v <=? start then Some (append (append_leaf v (zeros_chunk (start - blen v))) val)
  else match load_chunk v start with
       | None => None
       | Some (fi, fs, fc) =>
           if (start =? fs) && (stop =? fs + clen fc)
           then Some (BV (set_chunk (chunks v) fs val) (blen v))
           else Some (general_path v fi fs fc start stop val)
       end.
Proof.
  intros. unfold set_slice, ByteVecModel.set_slice, general_path, post_step, put_val.
  destruct val; reflexivity.
Qed.

Lemma general_path_correct : forall (v : bvec) start stop (val : chunk) A fs (fc : chunk) R,
  wf v -> wfc val -> chunks v = A ++ (fs, fc) :: R ->
  wfl 0 A fs -> wfc fc -> 0 < clen fc -> wfl (fs + clen fc) R (blen v) ->
  fs <= start < fs + clen fc -> start < stop -> clen val = stop - start ->
  wf (general_path v (0 + length A) fs fc start stop val) /\
  flat (general_path v (0 + length A) fs fc start stop val) =
    firstn start (flat v) ++ cflat val ++ skipn stop (flat v).
Proof.
  intros v start stop val A fs fc R Hv Hval Heq HA Hfc Hfp HR Hk Hlt E2.
  pose proof (flat_length v Hv) as HL.
  pose proof (flatl_length _ _ _ HA) as LA. rewrite Nat.sub_0_r in LA.
  pose proof (cflat_length fc Hfc) as LC.
  pose proof (wfl_keys_lt _ _ _ HA) as KA.
  pose proof (wfl_le _ _ _ HR) as HRle.
  assert (Hflat : flat v = flatl A ++ cflat fc ++ flatl R).
  { rewrite flat_flatl, Heq, flatl_app, flatl_cons. reflexivity. }
  destruct (csub_correct fc 0 (start - fs) Hfc) as [Hp1 [Hp2 Hp3]]; [lia|].
  unfold general_path.
  destruct (blen v <=? stop) eqn:E5.
  - (* the write reaches the end: everything after the first chunk goes *)
    apply Nat.leb_le in E5.
    assert (Hcs4 : forall cs3, post_step v stop cs3 = cs3).
    { intros cs3. unfold post_step, load_chunk. destruct (blen v <=? stop - 1) eqn:E6; [reflexivity|].
      apply Nat.leb_gt in E6.
      destruct (find_chunk_spec 0 (chunks v) (blen v) Hv (stop - 1) 0) as [A2 [ls [lc [R2 [_ [Hf2 [_ [_ [_ [_ HR2]]]]]]]]]]; [lia|].
      rewrite Hf2. apply wfl_le in HR2.
      replace (stop <? ls + clen lc) with false by (symmetry; apply Nat.ltb_ge; lia). reflexivity. }
    rewrite Hcs4. rewrite Heq. rewrite Nat.add_0_l, remove_tail.
    rewrite (write_front A fs fc [] start stop stop val) by (auto; try lia; constructor).
    split.
    + unfold wf. cbn [chunks blen]. rewrite app_nil_r.
      eapply wfl_app; [exact HA|].
      eapply wfl_app; [apply opt_wfl; exact Hp1|].
      eapply wfl_eq; [apply val_chunks_wfl; [exact Hval | lia] | lia | lia].
    + rewrite flat_BV.
      rewrite !flatl_app, opt_flatl, val_chunks_flatl, Hp2 by assumption.
      cbn [flatl flat_map skipn]. rewrite app_nil_r.
      rewrite Hflat, firstn_mid by lia. rewrite LA, Nat.sub_0_r.
      rewrite skipn_all2 by (rewrite <- Hflat, HL; lia).
      rewrite app_nil_r, <- app_assoc. reflexivity.
  - (* the write ends inside the sequence *)
    apply Nat.leb_gt in E5.
    assert (HfR : wfl fs ((fs, fc) :: R) (blen v)) by (constructor; assumption).
    destruct (find_chunk_spec fs _ (blen v) HfR (stop - 1) (0 + length A)) as [A' [ls [lc [R2 [Heq2 [Hf2 [Hk2 [HA' [Hlc [Hlp HR2]]]]]]]]]]; [lia|].
    assert (Hload : load_chunk v (stop - 1) = Some (0 + length A + length A', ls, lc)).
    { unfold load_chunk. replace (blen v <=? stop - 1) with false by (symmetry; apply Nat.leb_gt; lia).
      rewrite Heq. rewrite (find_chunk_skip A 0 fs HA fc R (stop - 1) 0) by lia. exact Hf2. }
    unfold post_step. rewrite Hload. rewrite Heq. rewrite Nat.add_0_l.
    rewrite (remove_mid A A' R2 (fs, fc) (ls, lc) R Heq2).
    pose proof (wfl_keys_ge _ _ _ HR2) as KR2.
    pose proof (wfl_le _ _ _ HR2) as HR2le.
    rewrite (write_front A fs fc R2 start stop (ls + clen lc) val) by (auto; lia).
    destruct (csub_correct lc (stop - ls) (clen lc) Hlc) as [Hq1 [Hq2 Hq3]]; [lia|].
    set (pre := csub fc 0 (start - fs)) in *.
    set (post := csub lc (stop - ls) (clen lc)) in *.
    assert (Hfin : (if stop <? ls + clen lc
                    then set_chunk (A ++ opt fs pre ++ val_chunks start val ++ R2) stop post
                    else A ++ opt fs pre ++ val_chunks start val ++ R2) =
                   (A ++ opt fs pre ++ val_chunks start val) ++ opt stop post ++ R2).
    { destruct (stop <? ls + clen lc) eqn:E6.
      - apply Nat.ltb_lt in E6.
        replace (A ++ opt fs pre ++ val_chunks start val ++ R2)
          with ((A ++ opt fs pre ++ val_chunks start val) ++ R2) by (rewrite <- !app_assoc; reflexivity).
        apply (set_chunk_mid' stop post _ R2 (ls + clen lc)); [| exact KR2 | lia].
        apply keys_lt_app; [eapply keys_lt_weaken; [exact KA | lia]|].
        apply keys_lt_app; [apply keys_lt_opt; lia|].
        eapply keys_lt_weaken; [eapply wfl_keys_lt; apply val_chunks_wfl; [exact Hval | lia] | lia].
      - apply Nat.ltb_ge in E6. unfold opt.
        replace (clen post =? 0) with true by (symmetry; apply Nat.eqb_eq; lia).
        rewrite <- !app_assoc. reflexivity. }
    rewrite Hfin.
    assert (Hflat2 : flat v = (flatl A ++ flatl A') ++ cflat lc ++ flatl R2).
    { rewrite flat_flatl, Heq, Heq2, !flatl_app, flatl_cons, <- app_assoc. reflexivity. }
    pose proof (flatl_length _ _ _ HA') as LA'.
    pose proof (cflat_length lc Hlc) as LLC.
    pose proof (wfl_le _ _ _ HA') as HA'le.
    split.
    + unfold wf. cbn [chunks blen].
      replace (Nat.max (blen v) stop) with (blen v) by lia.
      rewrite <- !app_assoc.
      eapply wfl_app; [exact HA|].
      eapply wfl_app; [apply opt_wfl; exact Hp1|].
      eapply wfl_app; [eapply wfl_eq; [apply val_chunks_wfl; [exact Hval | lia] | lia | reflexivity]|].
      eapply wfl_app; [eapply wfl_eq; [apply opt_wfl; exact Hq1 | lia | reflexivity]|].
      eapply wfl_eq; [exact HR2 | lia | reflexivity].
    + rewrite flat_BV.
      rewrite !flatl_app, !opt_flatl, val_chunks_flatl, Hp2, Hq2 by assumption.
      cbn [skipn].
      rewrite Hflat at 1. rewrite firstn_mid by lia. rewrite LA, Nat.sub_0_r.
      rewrite Hflat2. rewrite skipn_mid by (rewrite app_length; lia).
      rewrite app_length, LA, LA'.
      replace (stop - (fs + (ls - fs))) with (stop - ls) by lia.
      rewrite <- !app_assoc. f_equal. f_equal. f_equal. f_equal.
      apply firstn_all2. rewrite skipn_length. lia.
Qed.

Lemma set_slice_correct : forall (v : bvec) start stop (val : chunk), wf v -> wfc val ->
  match fa_set_slice (flat v) start stop (cflat val) with
  | None => set_slice v start stop val = None
  | Some l' => exists v', set_slice v start stop val = Some v' /\ wf v' /\ flat v' = l'
  end.
Proof.
  intros v start stop val Hv Hval.
  pose proof (flat_length v Hv) as HL.
  pose proof (cflat_length val Hval) as HLv.
  rewrite set_slice_unfold.
  destruct (start =? stop) eqn:E0.
  { unfold fa_set_slice, ByteVecSpec.fa_set_slice. rewrite E0. exists v. auto. }
  apply Nat.eqb_neq in E0.
  destruct (stop <? start) eqn:E1.
  { unfold fa_set_slice, ByteVecSpec.fa_set_slice.
    replace (start =? stop) with false by (symmetry; apply Nat.eqb_neq; lia).
    rewrite E1. reflexivity. }
  apply Nat.ltb_ge in E1.
  destruct (stop - start =? clen val) eqn:E2; cbn [negb].
  2:{ apply Nat.eqb_neq in E2. unfold fa_set_slice, ByteVecSpec.fa_set_slice.
      replace (start =? stop) with false by (symmetry; apply Nat.eqb_neq; lia).
      replace (stop <? start) with false by (symmetry; apply Nat.ltb_ge; lia).
      replace (length (cflat val) =? stop - start) with false by (symmetry; apply Nat.eqb_neq; lia).
      reflexivity. }
  apply Nat.eqb_eq in E2.
  rewrite fa_set_slice_some by lia.
  destruct (blen v <=? start) eqn:E3.
  - (* backfill *)
    apply Nat.leb_le in E3. eexists. split; [reflexivity|].
    destruct (append_leaf_correct v (zeros_chunk (start - blen v)) Hv (zeros_chunk_wfc _)) as [H1 [H2 H3]].
    destruct (append_correct _ val H1 Hval) as [H4 [H5 H6]].
    split; [exact H4|]. rewrite H5, H2, zeros_chunk_flat.
    unfold zext. rewrite HL. rewrite (skipn_all2 (flat v)) by lia. rewrite app_nil_r.
    rewrite firstn_all2; [reflexivity|].
    rewrite app_length. unfold ByteVecSpec.zeros. rewrite repeat_length. lia.
  - apply Nat.leb_gt in E3. rewrite zext_in by lia.
    unfold load_chunk. rewrite (proj2 (Nat.leb_gt _ _) E3).
    destruct (find_chunk_spec 0 (chunks v) (blen v) Hv start 0) as [A [fs [fc [R [Heq [Hf [Hk [HA [Hfc [Hfp HR]]]]]]]]]]; [lia|].
    rewrite Hf.
    destruct ((start =? fs) && (stop =? fs + clen fc)) eqn:E4.
    + (* aligned *)
      pose proof (flatl_length _ _ _ HA) as LA. rewrite Nat.sub_0_r in LA.
      pose proof (cflat_length fc Hfc) as LC.
      pose proof (wfl_keys_lt _ _ _ HA) as KA.
      assert (Hflat : flat v = flatl A ++ cflat fc ++ flatl R).
      { rewrite flat_flatl, Heq, flatl_app, flatl_cons. reflexivity. }
      apply andb_true_iff in E4. destruct E4 as [E4 E5].
      apply Nat.eqb_eq in E4. apply Nat.eqb_eq in E5. subst start.
      eexists. split; [reflexivity|].
      rewrite set_chunk_nonempty by lia. rewrite Heq, sd_set_repl by exact KA.
      split.
      * unfold wf. cbn [chunks blen]. eapply wfl_app; [exact HA|].
        constructor; [lia | exact Hval |]. eapply wfl_eq; [exact HR | lia | reflexivity].
      * rewrite flat_BV.
        rewrite flatl_app, flatl_cons, Hflat.
        rewrite firstn_eq_len by lia. f_equal. f_equal.
        rewrite app_assoc. symmetry. apply skipn_eq_len. rewrite app_length. lia.
    + (* general *)
      eexists. split; [reflexivity|].
      apply (general_path_correct v start stop val A fs fc R); auto; lia.
Qed.

(* ------------------------------------------------------------------ operation sequences *)

Notation apply_op := (apply_op zero).
Notation run_ops := (run_ops zero).
Notation fa_apply := (fa_apply B zero).
Notation fa_run := (fa_run B zero).

Lemma bslice_chunk : forall (v : bvec) a b, wf v ->
  wfc (as_chunk None (bslice v a b)) /\
  cflat (as_chunk None (bslice v a b)) = fa_slice (flat v) a b.
Proof.
  intros v a b Hv. destruct (bslice_correct v a b Hv) as [H1 [H2 H3]].
  split; [constructor; exact H1|]. unfold as_chunk. rewrite cflat_nest, <- flat_flatl. exact H2.
Qed.

Lemma set_slice_step : forall (v : bvec) a b (val : chunk), wf v -> wfc val ->
  wf (or_unchanged v (set_slice v a b val)) /\
  flat (or_unchanged v (set_slice v a b val)) =
    or_same B (flat v) (fa_set_slice (flat v) a b (cflat val)).
Proof.
  intros v a b val Hv Hval. pose proof (set_slice_correct v a b val Hv Hval) as H.
  destruct (fa_set_slice (flat v) a b (cflat val)) as [l'|].
  - destruct H as [v' [H1 [H2 H3]]]. rewrite H1. cbn [or_unchanged or_same]. auto.
  - rewrite H. cbn [or_unchanged or_same]. auto.
Qed.

Lemma apply_op_correct : forall (v : bvec) (o : op B), wf v -> op_ok o ->
  wf (apply_op v o) /\ flat (apply_op v o) = fa_apply (flat v) (abs_op o).
Proof.
  intros v o Hv Hok. destruct o as [val | off sym x | a b val | off val | dst a b | a b];
    cbn [ByteVecModel.apply_op abs_op ByteVecSpec.fa_apply op_ok] in *.
  - destruct (append_correct v val Hv Hok) as [H1 [H2 _]]. auto.
  - destruct (set_byte_correct v off sym x Hv) as [v' [H1 [H2 H3]]]. rewrite H1. cbn [or_unchanged]. auto.
  - apply set_slice_step; assumption.
  - unfold set_word, ByteVecModel.set_word. apply set_slice_step; assumption.
  - destruct (bslice_chunk v a b Hv) as [H1 H2]. rewrite <- H2. apply set_slice_step; assumption.
  - destruct (bslice_chunk v a b Hv) as [H1 H2].
    destruct (append_correct v _ Hv H1) as [H3 [H4 _]]. rewrite H4, H2. auto.
Qed.

Lemma fold_ops_correct : forall (ops : list (op B)) (v : bvec), wf v -> Forall op_ok ops ->
  wf (fold_left apply_op ops v) /\
  flat (fold_left apply_op ops v) = fold_left fa_apply (map abs_op ops) (flat v).
Proof.
  induction ops as [|o ops IH]; intros v Hv Hok.
  - cbn. auto.
  - inversion Hok; subst. cbn [fold_left map].
    destruct (apply_op_correct v o Hv H1) as [H3 H4]. rewrite <- H4. apply IH; assumption.
Qed.

Lemma history_correct : forall ops : list (op B), Forall op_ok ops ->
  wf (run_ops ops) /\ flat (run_ops ops) = fa_run (map abs_op ops).
Proof.
  intros ops H. unfold run_ops, ByteVecModel.run_ops, fa_run, ByteVecSpec.fa_run.
  apply (fold_ops_correct ops empty wf_empty H).
Qed.

(* ------------------------------------------------------------------ unwrap *)

Lemma defrag_go_concat : forall (l : list (seg B)) acc,
  concat (map snd (defrag_go acc l)) = snd acc ++ concat (map snd l).
Proof.
  induction l as [|e r IH]; intros acc.
  - cbn. reflexivity.
  - cbn [defrag_go]. destruct (fst acc && fst e).
    + rewrite IH. cbn [snd map concat]. rewrite app_assoc. reflexivity.
    + cbn [map concat]. rewrite IH. reflexivity.
Qed.

Lemma defrag_concat : forall l : list (seg B), concat (map snd (defrag l)) = concat (map snd l).
Proof.
  intros [|e r]; [reflexivity|]. cbn [defrag]. rewrite defrag_go_concat. reflexivity.
Qed.

Lemma cunwrap_nest : forall t cs len,
  cunwrap (Nest t cs len) =
  if len =? 0 then (true, @nil B)
  else match defrag (map (fun kc => cunwrap (snd kc)) cs) with
       | [x] => x
       | segs => (false, concat (map snd segs))
       end.
Proof. reflexivity. Qed.

Lemma pick_snd : forall segs : list (seg B),
  snd (match segs with [x] => x | _ => (false, concat (map snd segs)) end) = concat (map snd segs).
Proof.
  intros [|x [|y r]]; cbn; try reflexivity. rewrite app_nil_r. reflexivity.
Qed.

Lemma cunwrap_correct :
  (forall c : chunk, wfc c -> snd (cunwrap c) = cflat c) /\
  (forall b (cs : list (nat * chunk)) e, wfl b cs e ->
      concat (map snd (map (fun kc => cunwrap (snd kc)) cs)) = flatl cs).
Proof.
  apply wf_mutind.
  - intros. reflexivity.
  - intros tag cs len Hw IH. rewrite cunwrap_nest, cflat_nest.
    destruct (len =? 0) eqn:E.
    + apply Nat.eqb_eq in E. subst len. pose proof (flatl_length _ _ _ Hw) as HL.
      destruct (flatl cs); [reflexivity | discriminate].
    + rewrite <- IH. rewrite <- (defrag_concat (map (fun kc => cunwrap (snd kc)) cs)).
      destruct (defrag (map (fun kc => cunwrap (snd kc)) cs)) as [|x [|y r]];
        cbn [snd map concat]; rewrite ?app_nil_r; reflexivity.
  - intros. reflexivity.
  - intros b c r e Hpos Hc IHc Hr IHr. cbn [map concat snd]. rewrite IHc, IHr, flatl_cons. reflexivity.
Qed.

Lemma unwrap_correct : forall v : bvec, wf v -> snd (unwrap v) = flat v.
Proof.
  intros v H. unfold unwrap. rewrite (proj1 cunwrap_correct); [reflexivity|]. constructor. exact H.
Qed.

Lemma get_word_correct : forall (v : bvec) off, wf v ->
  snd (get_word B zero v off) = fa_word B zero (flat v) off.
Proof.
  intros v off H. unfold get_word, fa_word. destruct (bslice_correct v off (off + 32) H) as [H1 [H2 _]].
  rewrite unwrap_correct by exact H1. exact H2.
Qed.

(* ------------------------------------------------------------------ the flat array itself:
   pointwise reading of the specification (zero beyond the end, length = highest offset) *)

Lemma nth_repeat' : forall (x : B) n i, nth i (repeat x n) x = x.
Proof.
  intros x n. induction n as [|n IH]; intros i; destruct i; cbn; auto.
Qed.

Lemma nth_zext : forall (l : list B) n i, nth i (l ++ zeros n) zero = nth i l zero.
Proof.
  intros l n i. destruct (Nat.lt_ge_cases i (length l)) as [H | H].
  - apply app_nth1. exact H.
  - rewrite app_nth2 by exact H. unfold zeros, ByteVecSpec.zeros. rewrite nth_repeat'.
    symmetry. apply nth_overflow. exact H.
Qed.

Lemma fa_slice_nth : forall l a b i, i < b - a ->
  nth i (fa_slice l a b) zero = nth (a + i) l zero.
Proof.
  intros l a b i H. unfold fa_slice, ByteVecSpec.fa_slice.
  rewrite nth_firstn_lt by exact H. fold (zeros (b - a)). rewrite nth_zext. apply nth_skipn'.
Qed.

Lemma fa_set_byte_nth : forall l off x i,
  nth i (fa_set_byte l off x) zero = if i =? off then x else nth i l zero.
Proof.
  intros l off x i. unfold fa_set_byte, ByteVecSpec.fa_set_byte, zext.
  assert (HL : length (firstn off (l ++ ByteVecSpec.zeros B zero (off - length l))) = off).
  { rewrite firstn_length, app_length. unfold ByteVecSpec.zeros. rewrite repeat_length. lia. }
  destruct (i =? off) eqn:E.
  - apply Nat.eqb_eq in E. subst i. rewrite app_nth2 by lia. rewrite HL, Nat.sub_diag. reflexivity.
  - apply Nat.eqb_neq in E. destruct (Nat.lt_ge_cases i off) as [H | H].
    + rewrite app_nth1 by lia. rewrite nth_firstn_lt by exact H. apply nth_zext.
    + rewrite app_nth2 by lia. rewrite HL. destruct (i - off) as [|j] eqn:Ej; [lia|].
      cbn [nth]. rewrite nth_skipn'. f_equal. lia.
Qed.

Lemma fa_set_byte_length : forall l off x,
  length (fa_set_byte l off x) = Nat.max (length l) (off + 1).
Proof.
  intros l off x. unfold fa_set_byte, ByteVecSpec.fa_set_byte, zext.
  rewrite app_length, firstn_length, app_length. cbn [length]. rewrite skipn_length.
  unfold ByteVecSpec.zeros. rewrite repeat_length. lia.
Qed.

Lemma fa_set_slice_nth : forall l a b data l' i, a < b ->
  fa_set_slice l a b data = Some l' ->
  nth i l' zero = if (a <=? i) && (i <? b) then nth (i - a) data zero else nth i l zero.
Proof.
  intros l a b data l' i Hab H. unfold fa_set_slice, ByteVecSpec.fa_set_slice in H.
  replace (a =? b) with false in H by (symmetry; apply Nat.eqb_neq; lia).
  destruct ((b <? a) || negb (length data =? b - a)) eqn:E; [discriminate|].
  apply orb_false_iff in E. destruct E as [_ E]. apply negb_false_iff in E. apply Nat.eqb_eq in E.
  inversion H; subst l'; clear H. unfold zext.
  assert (HL : length (firstn a (l ++ ByteVecSpec.zeros B zero (a - length l))) = a).
  { rewrite firstn_length, app_length. unfold ByteVecSpec.zeros. rewrite repeat_length. lia. }
  destruct (a <=? i) eqn:E1; cbn [andb].
  - apply Nat.leb_le in E1. rewrite app_nth2 by lia. rewrite HL.
    destruct (i <? b) eqn:E2.
    + apply Nat.ltb_lt in E2. apply app_nth1. lia.
    + apply Nat.ltb_ge in E2. rewrite app_nth2 by lia. rewrite nth_skipn'. f_equal. lia.
  - apply Nat.leb_gt in E1. rewrite app_nth1 by lia. rewrite nth_firstn_lt by exact E1. apply nth_zext.
Qed.

Lemma fa_set_slice_length : forall l a b data l', a < b ->
  fa_set_slice l a b data = Some l' -> length l' = Nat.max (length l) b.
Proof.
  intros l a b data l' Hab H. unfold fa_set_slice, ByteVecSpec.fa_set_slice in H.
  replace (a =? b) with false in H by (symmetry; apply Nat.eqb_neq; lia).
  destruct ((b <? a) || negb (length data =? b - a)) eqn:E; [discriminate|].
  apply orb_false_iff in E. destruct E as [_ E]. apply negb_false_iff in E. apply Nat.eqb_eq in E.
  inversion H; subst l'; clear H. unfold zext.
  rewrite !app_length, firstn_length, app_length, skipn_length.
  unfold ByteVecSpec.zeros. rewrite repeat_length. lia.
Qed.

Lemma spec_slice_pointwise : forall (l : list B) (a b i : nat),
  length (fa_slice l a b) = b - a /\
  (i < b - a -> nth i (fa_slice l a b) zero = nth (a + i) l zero).
Proof. intros. split; [apply fa_slice_length | apply fa_slice_nth]. Qed.

Lemma spec_set_slice_pointwise : forall (l : list B) (a b : nat) (data l' : list B) (i : nat),
  a < b -> fa_set_slice l a b data = Some l' ->
  length l' = Nat.max (length l) b /\
  nth i l' zero = (if (a <=? i) && (i <? b) then nth (i - a) data zero else nth i l zero).
Proof. intros. split; [eapply fa_set_slice_length | eapply fa_set_slice_nth]; eassumption. Qed.

Lemma spec_set_byte_pointwise : forall (l : list B) (off : nat) (x : B) (i : nat),
  length (fa_set_byte l off x) = Nat.max (length l) (off + 1) /\
  nth i (fa_set_byte l off x) zero = (if i =? off then x else nth i l zero).
Proof. intros. split; [apply fa_set_byte_length | apply fa_set_byte_nth]. Qed.

(* ------------------------------------------------------------------ unwrap returns python
   bytes exactly when every leaf chunk is a ConcreteChunk *)

Definition pick_kind (d : list (seg B)) : bool :=
  match d with [x] => fst x | _ => false end.

Lemma defrag_go_nonempty : forall (l : list (seg B)) acc, defrag_go acc l <> [].
Proof.
  induction l as [|e r IH]; intros acc; cbn [defrag_go]; [discriminate|].
  destruct (fst acc && fst e); [apply IH | discriminate].
Qed.

Lemma defrag_go_kind : forall (l : list (seg B)) acc,
  pick_kind (defrag_go acc l) = fst acc && forallb fst l.
Proof.
  induction l as [|e r IH]; intros acc; cbn [defrag_go forallb].
  - cbn [pick_kind]. rewrite andb_true_r. reflexivity.
  - destruct (fst acc && fst e) eqn:E.
    + rewrite IH. cbn [fst]. apply andb_true_iff in E. destruct E as [-> ->]. reflexivity.
    + rewrite andb_assoc, E. cbn [andb pick_kind].
      destruct (defrag_go e r) eqn:Ed; [exfalso; eapply defrag_go_nonempty; eauto | reflexivity].
Qed.

Lemma cunwrap_kind :
  (forall c : chunk, wfc c -> fst (cunwrap c) = forallb leaf_conc (leaves c)) /\
  (forall b (cs : list (nat * chunk)) e, wfl b cs e ->
      forallb fst (map (fun kc => cunwrap (snd kc)) cs) = forallb leaf_conc (leavesl cs)).
Proof.
  apply wf_mutind.
  - intros sym d s l H. cbn. rewrite andb_true_r. reflexivity.
  - intros tag cs len Hw IH. rewrite cunwrap_nest, leaves_nest.
    destruct cs as [|[k c] r].
    + apply wfl_nil_inv in Hw. subst len. reflexivity.
    + assert (Hlen : len <> 0).
      { apply wfl_cons_inv in Hw. destruct Hw as [_ [Hp [_ Hr]]]. apply wfl_le in Hr. lia. }
      apply Nat.eqb_neq in Hlen. rewrite Hlen. rewrite <- IH.
      set (L := map (fun kc : nat * chunk => cunwrap (snd kc)) ((k, c) :: r)).
      transitivity (pick_kind (defrag L)).
      * destruct (defrag L) as [|x [|y r']]; reflexivity.
      * unfold L. cbn [map defrag]. rewrite defrag_go_kind. reflexivity.
  - intros. reflexivity.
  - intros b c r e Hpos Hc IHc Hr IHr. cbn [map forallb]. unfold leavesl. cbn [flat_map snd].
    rewrite forallb_app. fold (leavesl r). rewrite IHc, IHr. reflexivity.
Qed.

Lemma unwrap_kind : forall v : bvec, wf v ->
  fst (unwrap v) = forallb leaf_conc (leaves (as_chunk None v)).
Proof.
  intros v H. unfold unwrap. apply (proj1 cunwrap_kind). constructor. exact H.
Qed.

End Proofs.
