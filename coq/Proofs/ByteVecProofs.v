(* Proofs about Model/ByteVecModel.v against Spec/ByteVecSpec.v *)
From Coq Require Import List Arith Bool Lia.
From HV Require Import Spec.ByteVecSpec Model.ByteVecModel.
Import ListNotations.

Section Proofs.
Variable B : Type.
Variable zero : B.

Lemma flat_empty : flat (@empty B) = [].
Proof. reflexivity. Qed.

End Proofs.
