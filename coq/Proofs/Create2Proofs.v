(* CREATE2: (1) the address layout regenerated from SEVM.create (Gen/GenCreate2.v) IS the EIP-1014 preimage
   of the reference interpreter, for every sender, salt and init code; (2) the reference's address function
   on the test vectors of EIP-1014; (3) the reference interpreter on small programs: creation at the EVM
   address (empty naming), at the given name, collision of a repeated creation, CREATE counter untouched. *)
From Coq Require Import ZArith List Bool Lia.
From HV Require Import Base.Word Spec.Evm Model.Create2Defs Gen.GenCreate2 Model.Create2Model.
Import ListNotations.
Open Scope Z_scope.

Lemma c2_model_preimage_eq : forall sender salt init,
  c2_model_preimage sender salt init = create2_preimage sender salt init.
Proof.
  intros sender salt init. unfold c2_model_preimage, create2_preimage, c2_fields.
  cbn [flat_map c2field_bytes app]. rewrite app_nil_r. reflexivity.
Qed.

Theorem c2_model_address_eq : forall sender salt init,
  c2_model_address sender salt init = create2_address sender salt init.
Proof.
  intros sender salt init. unfold c2_model_address, create2_address, c2_address_bits.
  rewrite c2_model_preimage_eq. reflexivity.
Qed.

Theorem c2_conventions_hold : c2_conventions_ok = true.
Proof. reflexivity. Qed.

(* the naming is the identity when no name is given: the reference is then the EVM itself *)
Theorem c2name_nil : forall b a, b_c2names b = [] -> c2name b a = a.
Proof. intros b a H. unfold c2name. rewrite H. reflexivity. Qed.

(* EIP-1014, "Examples" (address, salt, init_code -> result) *)
Example eip1014_vectors :
  create2_address 0 0 [0] = 440176130766443707569614712219969213191074266936 /\
  create2_address 1271270612704050900734399246419756505046821371904 0 [0] = 1057076805012858291234976881684450219857241505187 /\
  create2_address 1271270612704050900734399246419756505046821371904 1455368932401306996839762510191304720241787928576 [0]
    = 1188921615275890917236200513340980134980836169779 /\
  create2_address 0 0 [222; 173; 190; 239] = 644819302096735973238295168522287791479878306654 /\
  create2_address 3735928559 3405691582 [222; 173; 190; 239] = 553503646706470834874935460337046322302823598791 /\
  create2_address 0 0 [] = 1297280038419638216961985153415887283996015188448.
Proof. vm_compute. repeat split; reflexivity. Qed.

Definition c2_demo_env (names : list (Z * Z)) (code : list Z) : env :=
  mkEnv 0 code 0 0 0 [] false 1 (mkBlock 0 1 0 0 0 1 1 names).
Definition c2_empty_world : world := mkWorld [] [] [] [].
Definition C2_ADDR_EMPTY : Z := 1297280038419638216961985153415887283996015188448.   (* sender 0, salt 0, empty init code *)

(* PUSH0 PUSH0 PUSH0 PUSH0 CREATE2 STOP: an account appears at the EIP-1014 address; the CREATE counter stays 0 *)
Example create2_run_is_the_evm :
  match exec 1048576 20 (c2_demo_env [] [95; 95; 95; 95; 245; 0]) (init_state c2_empty_world 0) with
  | ROk w ctr _ _ => has_account w C2_ADDR_EMPTY && (ctr =? 0)
  | _ => false
  end = true.
Proof. vm_compute. reflexivity. Qed.

(* the same under a naming: the account appears under its name only *)
Example create2_run_named :
  match exec 1048576 20 (c2_demo_env [(C2_ADDR_EMPTY, 3149594625)] [95; 95; 95; 95; 245; 0]) (init_state c2_empty_world 0) with
  | ROk w ctr _ _ => has_account w 3149594625 && negb (has_account w C2_ADDR_EMPTY) && (ctr =? 0)
  | _ => false
  end = true.
Proof. vm_compute. reflexivity. Qed.

(* the same creation twice: the second one collides and pushes 0 (returned as a word) *)
Example create2_run_collision :
  match exec 1048576 40 (c2_demo_env [] [95; 95; 95; 95; 245; 95; 95; 95; 95; 245; 95; 82; 96; 32; 95; 243])
             (init_state c2_empty_world 0) with
  | ROk w _ ret _ => has_account w C2_ADDR_EMPTY && forallb (Z.eqb 0) ret && (length ret =? 32)%nat
  | _ => false
  end = true.
Proof. vm_compute. reflexivity. Qed.

(* in a static frame CREATE2 is an exceptional halt *)
Example create2_run_static :
  exec 1048576 20 (mkEnv 0 [95; 95; 95; 95; 245; 0] 0 0 0 [] true 1 (mkBlock 0 1 0 0 0 1 1 [])) (init_state c2_empty_world 0)
  = RHalt 0 H_STATIC.
Proof. vm_compute. reflexivity. Qed.
