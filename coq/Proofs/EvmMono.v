(* Fuel monotonicity of the reference interpreter: once an execution finishes with a
   result other than RFuel, more fuel gives the same result. *)
From Coq Require Import ZArith List Bool Lia Arith.
From HV Require Import Base.Word Spec.Evm.
Import ListNotations.
Open Scope Z_scope.

Definition rs_le (rs1 rs2 : env -> world -> Z -> result) : Prop :=
  forall e w c, rs1 e w c <> RFuel -> rs2 e w c = rs1 e w c.

Lemma do_call_mono : forall lim rs1 rs2 e s op x,
  rs_le rs1 rs2 -> do_call lim rs1 e s op = x -> x <> Done RFuel -> do_call lim rs2 e s op = x.
Proof.
  intros lim rs1 rs2 e s op x Hle H Hx. unfold do_call in *.
  repeat match type of H with
         | (match ?a with _ => _ end) = _ =>
             match a with
             | rs1 _ _ _ => fail 1
             | _ => destruct a eqn:?; try exact H
             end
         | (if ?a then _ else _) = _ => destruct a eqn:?; try exact H
         | (let '(_, _) := ?a in _) = _ => destruct a eqn:?
         end.
  match type of H with
  | (match rs1 ?a ?b ?c with _ => _ end) = _ =>
      destruct (rs1 a b c) eqn:E1;
        try (rewrite (Hle a b c) by (rewrite E1; discriminate); rewrite E1; exact H)
  end.
  subst x. exfalso. apply Hx. reflexivity.
Qed.

Lemma do_create_mono : forall lim rs1 rs2 e s x,
  rs_le rs1 rs2 -> do_create lim rs1 e s = x -> x <> Done RFuel -> do_create lim rs2 e s = x.
Proof.
  intros lim rs1 rs2 e s x Hle H Hx. unfold do_create in *.
  repeat match type of H with
         | (match ?a with _ => _ end) = _ =>
             match a with
             | rs1 _ _ _ => fail 1
             | _ => destruct a eqn:?; try exact H
             end
         | (if ?a then _ else _) = _ => destruct a eqn:?; try exact H
         end.
  match type of H with
  | (match rs1 ?a ?b ?c with _ => _ end) = _ =>
      destruct (rs1 a b c) eqn:E1;
        try (rewrite (Hle a b c) by (rewrite E1; discriminate); rewrite E1; exact H)
  end.
  subst x. exfalso. apply Hx. reflexivity.
Qed.

Lemma do_create2_mono : forall lim rs1 rs2 e s x,
  rs_le rs1 rs2 -> do_create2 lim rs1 e s = x -> x <> Done RFuel -> do_create2 lim rs2 e s = x.
Proof.
  intros lim rs1 rs2 e s x Hle H Hx. unfold do_create2 in *.
  repeat match type of H with
         | (match ?a with _ => _ end) = _ =>
             match a with
             | rs1 _ _ _ => fail 1
             | _ => destruct a eqn:?; try exact H
             end
         | (if ?a then _ else _) = _ => destruct a eqn:?; try exact H
         end.
  match type of H with
  | (match rs1 ?a ?b ?c with _ => _ end) = _ =>
      destruct (rs1 a b c) eqn:E1;
        try (rewrite (Hle a b c) by (rewrite E1; discriminate); rewrite E1; exact H)
  end.
  subst x. exfalso. apply Hx. reflexivity.
Qed.

Lemma step_mono : forall lim rs1 rs2 e s x,
  rs_le rs1 rs2 -> step lim rs1 e s = x -> x <> Done RFuel -> step lim rs2 e s = x.
Proof.
  intros lim rs1 rs2 e s x Hle H Hx. unfold step in *.
  destruct (nth_error (e_code e) (s_pc s)) as [op|]; [|exact H].
  destruct (decode_op op); cbn [step_i] in *; try exact H.
  - eapply do_create_mono; eassumption.
  - eapply do_create2_mono; eassumption.
  - eapply do_call_mono; eassumption.
Qed.

Lemma exec_mono : forall lim n e s r,
  exec lim n e s = r -> r <> RFuel -> forall m, (n <= m)%nat -> exec lim m e s = r.
Proof.
  intros lim n. induction n as [|n IH]; intros e s r H Hr m Hm.
  - cbn in H. congruence.
  - destruct m as [|m]; [lia|]. cbn [exec] in *.
    assert (Hle : rs_le (fun e' w' ctr' => exec lim n e' (init_state w' ctr'))
                        (fun e' w' ctr' => exec lim m e' (init_state w' ctr'))).
    { intros e' w' c' Hne. apply (IH e' (init_state w' c') _ eq_refl Hne). lia. }
    destruct (step lim (fun e' w' ctr' => exec lim n e' (init_state w' ctr')) e s) as [s'|r'] eqn:Es.
    + rewrite (step_mono _ _ _ _ _ _ Hle Es) by discriminate.
      apply (IH e s' r H Hr). lia.
    + rewrite (step_mono _ _ _ _ _ _ Hle Es) by (subst r'; intro Hc; inversion Hc; congruence).
      exact H.
Qed.
