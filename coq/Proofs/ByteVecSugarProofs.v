(* Proofs about the slice sugar of ByteVec (__setitem__ / __getitem__ with a slice key):
   the bound expressions regenerated from the Python (Gen/GenByteVecSugar.v) are those of
   the flat slice assignment / read with optional bounds. *)
From Coq Require Import List Arith Bool Lia ZArith.
From HV Require Import Spec.ByteVecSpec Gen.GenByteVecSugar Model.ByteVecModel Proofs.ByteVecProofs.
Import ListNotations.
Local Open Scope nat_scope.

Section Sugar.
Variable B : Type.
Variable zero : B.

Notation chunk := (chunk B).
Notation bvec := (bvec B).
Notation setitem_slice := (setitem_slice B zero).
Notation getitem_slice := (getitem_slice B zero).
Notation fa_setitem := (fa_setitem B zero).
Notation fa_getitem := (fa_getitem B zero).

(* an omitted start is 0, an omitted stop the length, an explicit bound itself (0 included) *)
Lemma setitem_bounds_spec : forall (v : bvec) (start stop : option nat),
  setitem_bounds v start stop = (bound start 0, bound stop (blen v)).
Proof.
  intros v start stop. unfold setitem_bounds, setitem_start, setitem_stop, py_or, py_if_not_none, oz, bound.
  f_equal.
  - destruct start as [n|]; cbn [option_map]; [|reflexivity].
    destruct (Z.eqb_spec (Z.of_nat n) 0); lia.
  - destruct stop as [n|]; cbn [option_map]; lia.
Qed.

Lemma getitem_bounds_spec : forall (v : bvec) (start stop : option nat),
  getitem_bounds v start stop = (bound start 0, bound stop (blen v)).
Proof.
  intros v start stop. unfold getitem_bounds, getitem_start, getitem_stop, py_or, py_if_not_none, oz, bound.
  f_equal.
  - destruct start as [n|]; cbn [option_map]; [|reflexivity].
    destruct (Z.eqb_spec (Z.of_nat n) 0); lia.
  - destruct stop as [n|]; cbn [option_map]; lia.
Qed.

(* the sugar is the flat slice assignment for every pair of optional bounds (an explicit
   stop of 0 included) *)
Lemma setitem_correct : forall (v : bvec) (start stop : option nat) (val : chunk),
  wf v -> wfc val ->
  match fa_setitem (flat v) start stop (cflat val) with
  | None => setitem_slice v start stop val = None
  | Some l' => exists v', setitem_slice v start stop val = Some v' /\ wf v' /\ flat v' = l'
  end.
Proof.
  intros v start stop val Hv Hval.
  unfold ByteVecModel.setitem_slice, ByteVecSpec.fa_setitem.
  rewrite setitem_bounds_spec. cbn [fst snd].
  rewrite (flat_length B v Hv). apply set_slice_correct; assumption.
Qed.

Lemma getitem_correct : forall (v : bvec) (start stop : option nat),
  wf v ->
  wf (getitem_slice v start stop) /\
  flat (getitem_slice v start stop) = fa_getitem (flat v) start stop.
Proof.
  intros v start stop Hv.
  unfold ByteVecModel.getitem_slice, ByteVecSpec.fa_getitem.
  rewrite getitem_bounds_spec. cbn [fst snd].
  rewrite (flat_length B v Hv).
  destruct (bslice_correct B zero v (bound start 0) (bound stop (blen v)) Hv) as (H1 & H2 & _).
  split; assumption.
Qed.

(* ---- observations: every public read is a function of what the sequence denotes ---- *)

Lemma observe_correct : forall (v : bvec) (q : obs), wf v ->
  observe B zero v q = fa_observe B zero (flat v) (abs_obs q).
Proof.
  intros v q Hv. destruct q as [| off | a b | off | | start stop]; cbn [observe abs_obs fa_observe].
  - rewrite (flat_length B v Hv). reflexivity.
  - rewrite (get_byte_correct B zero v off Hv). reflexivity.
  - destruct (bslice_correct B zero v a b Hv) as (H1 & H2 & _).
    rewrite (unwrap_correct B _ H1), H2. reflexivity.
  - rewrite (get_word_correct B zero v off Hv). reflexivity.
  - rewrite (unwrap_correct B v Hv). reflexivity.
  - destruct (getitem_correct v start stop Hv) as [H1 H2].
    rewrite (unwrap_correct B _ H1), H2. reflexivity.
Qed.

(* writes and observations interleaved in any way, from any well-formed state: every
   observation returns what the flat array shows at that moment -- also when the same
   observation is repeated between writes *)
Lemma trace_correct : forall (es : list (ev B)) (v : bvec), wf v -> Forall ev_ok es ->
  trace B zero v es = fa_trace B zero (flat v) (map abs_ev es).
Proof.
  induction es as [|e r IH]; intros v Hv Hok; [reflexivity|].
  inversion Hok as [|? ? He Hr]; subst. destruct e as [o | q]; cbn [trace map abs_ev fa_trace].
  - destruct (apply_op_correct B zero v o Hv He) as [H1 H2]. rewrite <- H2. apply IH; assumption.
  - rewrite (observe_correct v q Hv). f_equal. apply IH; assumption.
Qed.

Lemma trace_from_empty : forall es : list (ev B), Forall ev_ok es ->
  trace B zero empty es = fa_trace B zero [] (map abs_ev es).
Proof. intros es H. apply (trace_correct es empty (wf_empty B) H). Qed.

End Sugar.

(* the inputs on which the sugar used to deviate (explicit stop 0 taken for "to the end"):
   v[2:0] = [8; 9] on [1; 2; 3; 4] is rejected like the flat write (stop < start),
   v[0:0] = [] is the no-op, and an omitted stop still means "to the end" *)
(* the MSTORE8-twice pattern: a byte written, the whole read, the same byte overwritten (a
   chunk exactly one byte long), the whole read again, twice *)
Lemma trace_example :
  trace nat 0 empty
    [ EOp (OSetByte 0 false 17); EOp (OSetSlice 1 4 (wrap false [97; 98; 99])); EObs OUnwrap;
      EOp (OSetByte 0 false 34); EObs OUnwrap; EObs OUnwrap; EObs (OGet 0); EObs OLen;
      EObs (OItem None (Some 2)); EObs (OWord 2) ] =
    [ FRBytes [17; 97; 98; 99]; FRBytes [34; 97; 98; 99]; FRBytes [34; 97; 98; 99]; FRBytes [34]; FRLen 4;
      FRBytes [34; 97];
      FRBytes [98; 99; 0; 0; 0; 0; 0; 0; 0; 0; 0; 0; 0; 0; 0; 0; 0; 0; 0; 0; 0; 0; 0; 0; 0; 0; 0; 0; 0; 0; 0; 0] ].
Proof. vm_compute. reflexivity. Qed.

Lemma setitem_stop0_example :
  let v : ByteVecModel.bvec nat := run_ops 0 [OAppend (wrap false [1; 2; 3; 4])] in
  wf v /\
  fa_setitem nat 0 (flat v) (Some 2) (Some 0) [8; 9] = None /\
  setitem_slice nat 0 v (Some 2) (Some 0) (wrap false [8; 9]) = None /\
  fa_setitem nat 0 (flat v) (Some 0) (Some 0) [] = Some [1; 2; 3; 4] /\
  setitem_slice nat 0 v (Some 0) (Some 0) (wrap false []) = Some v /\
  (exists v', setitem_slice nat 0 v (Some 1) None (wrap false [7; 8; 9]) = Some v' /\
              flat v' = [1; 7; 8; 9]) /\
  flat (getitem_slice nat 0 v (Some 1) (Some 0)) = [] /\
  flat (getitem_slice nat 0 v None (Some 6)) = [1; 2; 3; 4; 0; 0].
Proof.
  cbv zeta. split; [|repeat split].
  - apply history_correct. repeat constructor.
  - eexists. split; vm_compute; reflexivity.
Qed.
