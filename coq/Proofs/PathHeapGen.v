(* C11 proofs, object level (3): the statements for the copy modes regenerated from
   sevm.Path.branch / Path.extend_path (Gen/GenPathCopy.v).  `gen_modes_separate` is where a
   container that is handed over without a copy stops the build. *)
From Coq Require Import ZArith List Bool.
From HV Require Import Spec.SmtQuerySpec Model.PathCopyDefs Gen.GenPathCopy Model.SmtTextModel
  Model.PathHeapModel Proofs.SmtTextProofs Proofs.PathHeapProofs Proofs.PathHeapSim
  Proofs.PathHeapSolver Proofs.PathHeapSched.
Import ListNotations.
Open Scope Z_scope.

Lemma gen_modes_separate : separate gen_modes = true.
Proof. reflexivity. Qed.

Lemma paths_do_not_interfere_gen :
  forall (cond : Type) (cond_eqb : cond -> cond -> bool) (simp : cond -> cond)
         (is_true : cond -> bool) (vars : cond -> list Z) ops s0 h,
    h_run cond cond_eqb simp is_true vars gen_modes (h_init cond s0) ops = Some h ->
    exists ps, v_run cond cond_eqb simp is_true vars [empty_path cond s0] ops = Some ps /\
      List.length ps = List.length (o_paths h) /\
      forall i hp p, nth_error (o_paths h) i = Some hp -> nth_error ps i = Some p ->
        same_path cond (h_view cond h hp) p.
Proof.
  intros cond cond_eqb simp is_true vars.
  exact (heap_refines_values cond cond_eqb simp is_true vars gen_modes gen_modes_separate).
Qed.

Lemma every_path_query_gen :
  forall (cond : Type) (cond_eqb : cond -> cond -> bool) (simp : cond -> cond)
         (is_true : cond -> bool) (vars : cond -> list Z) (cid : cond -> Z) ops s0 h i cs q,
    h_run cond cond_eqb simp is_true vars gen_modes (h_init cond s0) ops = Some h ->
    h_to_smt2 cond cid h i cs = Some q ->
    map (fun a => match a with QPlain c => c | QTracked _ c => c end) (fst q)
      = add_all cond cond_eqb simp is_true [] (accumulated cond (nth i (lineages cond ops) []))
    /\ snd q = map cid (add_all cond cond_eqb simp is_true [] (accumulated cond (nth i (lineages cond ops) []))).
Proof.
  intros cond cond_eqb simp is_true vars cid.
  exact (every_path_query cond cond_eqb simp is_true vars cid gen_modes gen_modes_separate).
Qed.

Lemma every_path_query_sem_gen :
  forall (cond : Type) (cond_eqb : cond -> cond -> bool) (simp : cond -> cond)
         (is_true : cond -> bool) (vars : cond -> list Z) (cid : cond -> Z)
         (env : Type) (sem : env -> cond -> Prop),
    (forall e c, sem e (simp c) <-> sem e c) ->
    (forall c, is_true c = true -> forall e, sem e c) ->
    (forall c d, cond_eqb c d = true -> forall e, sem e c <-> sem e d) ->
    forall ops s0 h i cs q e,
    h_run cond cond_eqb simp is_true vars gen_modes (h_init cond s0) ops = Some h ->
    h_to_smt2 cond cid h i cs = Some q ->
    ((exists b, Forall (holds sem e b) (dump_asserts cs q))
     <-> path_constraints_hold sem e (accumulated cond (nth i (lineages cond ops) []))).
Proof.
  intros cond cond_eqb simp is_true vars cid.
  exact (every_path_query_sem cond cond_eqb simp is_true vars cid gen_modes gen_modes_separate).
Qed.

Lemma solver_mirrors_running_path_gen :
  forall (cond : Type) (cond_eqb : cond -> cond -> bool) (simp : cond -> cond)
         (is_true : cond -> bool) (vars : cond -> list Z) ops s0 h sc,
    h_run cond cond_eqb simp is_true vars gen_modes (h_init cond s0) ops = Some h ->
    sched_run cond sched_init ops = Some sc ->
    exists ps, v_run cond cond_eqb simp is_true vars [empty_path cond s0] ops = Some ps /\
      forall s i, nth_error (sc_current sc) s = Some i ->
        exists hp p, nth_error (o_paths h) i = Some hp /\ nth_error ps i = Some p /\ hp_solver hp = s /\
                     s_assertions cond (nth s (o_solvers h) []) = solver p.
Proof.
  intros cond cond_eqb simp is_true vars.
  exact (solver_mirrors_running_path cond cond_eqb simp is_true vars gen_modes gen_modes_separate).
Qed.
