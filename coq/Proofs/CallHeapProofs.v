(* C09 -- proofs about the exploration model (Model/CallHeapModel.v): exploring ALL the paths
   of a script tree over ONE heap of shared, mutable objects, in the order of the LIFO
   worklist, reports -- for the paths that hold under the valuation at hand, read out of the
   FINAL heap -- exactly the results of the state-passing model (Model/CallModel.v), for
   every feasibility oracle.  The invariant: an Exec writes only to the objects it holds
   references to; the objects of a later-explored side of a fork, of a callback's backup
   and of a finished path are never among them. *)
From Coq Require Import ZArith List Bool Lia ZifyBool.
From HV Require Import Base.Word Spec.Evm Spec.CallSpec Gen.GenOpcodes Gen.GenConsts Gen.GenCallMsg
  Model.CallModel Model.CallHeapModel Proofs.CallProofs.
Import ListNotations.
Open Scope Z_scope.

(* ------------------------------------------------------------------ heaps *)
Lemma length_hupd : forall H r o, length (hupd H r o) = length H.
Proof. induction H as [|x H IH]; intros [|r] o; cbn; auto. Qed.
Lemma hget_hupd_same : forall H r o, (r < length H)%nat -> hget (hupd H r o) r = o.
Proof.
  unfold hget. induction H as [|x H IH]; intros [|r] o Hl; cbn in *; try lia; auto. apply IH. lia.
Qed.
Lemma hget_hupd_other : forall H r r' o, r <> r' -> hget (hupd H r o) r' = hget H r'.
Proof.
  unfold hget. induction H as [|x H IH]; intros [|r] [|r'] o Hn; cbn; auto; try congruence.
Qed.
Lemma hget_app_old : forall H X r, (r < length H)%nat -> hget (H ++ X) r = hget H r.
Proof. intros. unfold hget. apply app_nth1. auto. Qed.
Lemma hget_app_new : forall H o X, hget (H ++ o :: X) (length H) = o.
Proof. intros. unfold hget. rewrite app_nth2 by lia. rewrite Nat.sub_diag. reflexivity. Qed.

(* ------------------------------------------------------------------ who holds what *)
Record wf (H : heap) (hs : hstate) : Prop := mkWf {
  wf_c : (h_code hs < length H)%nat;
  wf_s : (h_storage hs < length H)%nat;
  wf_t : (h_transient hs < length H)%nat;
  wf_cs : h_code hs <> h_storage hs;
  wf_ct : h_code hs <> h_transient hs;
  wf_st : h_storage hs <> h_transient hs;
}.
Definition owns (hs : hstate) (r : nat) : Prop := r = h_code hs \/ r = h_storage hs \/ r = h_transient hs.
Definition notin (r : nat) (hs : hstate) : Prop := r <> h_code hs /\ r <> h_storage hs /\ r <> h_transient hs.

Lemma wf_grow : forall H H' hs, wf H hs -> (length H <= length H')%nat -> wf H' hs.
Proof. intros H H' hs [] Hl. constructor; auto; lia. Qed.

Lemma habs_agree : forall H H' hs,
  (forall r, owns hs r -> hget H' r = hget H r) -> habs H' hs = habs H hs.
Proof.
  intros H H' hs A. unfold habs.
  rewrite (A (h_code hs)), (A (h_storage hs)), (A (h_transient hs)); unfold owns; auto.
Qed.

(* the objects other than those of [hs] are as they were *)
Definition agree_off (H H1 : heap) (hs : hstate) : Prop :=
  forall r, (r < length H)%nat -> notin r hs -> hget H1 r = hget H r.
(* a reported path holds valid references, taken from [hs] or allocated since [H] *)
Definition path_ok (H H1 : heap) (hs : hstate) (p : hpath) : Prop :=
  let '(_, _, hs', _) := p in
  wf H1 hs' /\ forall r, owns hs' r -> owns hs r \/ (length H <= r)%nat.
(* two reported paths hold no object in common *)
Definition pdisj (p q : hpath) : Prop :=
  let '(_, _, hp, _) := p in let '(_, _, hq, _) := q in forall r, owns hp r -> ~ owns hq r.
Definition paths_ok (H H1 : heap) (hs : hstate) (ps : list hpath) : Prop :=
  Forall (path_ok H H1 hs) ps /\ ForallOrdPairs pdisj ps.

Lemma FOP_app : forall (A : Type) (R : A -> A -> Prop) a b,
  ForallOrdPairs R a -> ForallOrdPairs R b -> (forall x y, In x a -> In y b -> R x y) ->
  ForallOrdPairs R (a ++ b).
Proof.
  induction a as [|x a IH]; intros b Fa Fb C; cbn; [exact Fb|].
  inversion Fa as [|? ? Hx Fa']; subst. constructor.
  - apply Forall_app. split; [exact Hx|]. apply Forall_forall. intros y Hy. apply C; [left; reflexivity | exact Hy].
  - apply IH; auto. intros x' y Hx' Hy. apply C; [right; exact Hx' | exact Hy].
Qed.

(* the holding paths, read out of heap [H] *)
Definition out (H : heap) (ps : list hpath) : list mres := map (readout H) (filter holding ps).

(* what a piece of exploration started in heap [H] on the objects of [hs] guarantees; [h]:
   the path prefix holds under the valuation *)
Definition Post (H : heap) (hs : hstate) (h : bool) (res : list hpath * heap) (expected : list mres) : Prop :=
  let '(ps, H1) := res in
  (length H <= length H1)%nat /\ agree_off H H1 hs /\ paths_ok H H1 hs ps /\
  out H1 ps = (if h then expected else []).

Lemma out_app : forall H a b, out H (a ++ b) = out H a ++ out H b.
Proof. intros. unfold out. rewrite filter_app, map_app. reflexivity. Qed.

Lemma out_stable : forall H0 H1 H2 hs0 ps,
  Forall (path_ok H0 H1 hs0) ps ->
  (forall r, (r < length H1)%nat -> owns hs0 r \/ (length H0 <= r)%nat -> hget H2 r = hget H1 r) ->
  out H2 ps = out H1 ps.
Proof.
  intros H0 H1 H2 hs0 ps F A. unfold out.
  induction ps as [|p ps IH]; [reflexivity|].
  inversion F as [|? ? Hp F']; subst. cbn [filter].
  destruct (holding p); [|auto]. cbn [map]. rewrite IH by exact F'. f_equal.
  destruct p as [[[tr r] hs] lg]. cbn [readout]. f_equal. f_equal.
  destruct Hp as [W O]. apply habs_agree. intros x Hx. apply A.
  - destruct W. destruct Hx as [->|[->| ->]]; assumption.
  - apply O. exact Hx.
Qed.

Lemma notin_of : forall (H : heap) hs hs' r,
  (forall x, owns hs' x -> owns hs x \/ (length H <= x)%nat) ->
  (r < length H)%nat -> notin r hs -> notin r hs'.
Proof.
  intros H hs hs' r O Hr (N1 & N2 & N3). unfold notin, owns in *.
  repeat split; intros E;
    [ destruct (O (h_code hs') (or_introl eq_refl)) as [[X|[X|X]]|X]
    | destruct (O (h_storage hs') (or_intror (or_introl eq_refl))) as [[X|[X|X]]|X]
    | destruct (O (h_transient hs') (or_intror (or_intror eq_refl))) as [[X|[X|X]]|X] ];
    subst r; try congruence; lia.
Qed.

(* re-anchoring a guarantee at an earlier heap / another holder *)
Lemma Post_rebase : forall H hs H' hs' h res ex,
  Post H' hs' h res ex ->
  (length H <= length H')%nat ->
  (forall r, (r < length H)%nat -> notin r hs -> hget H' r = hget H r) ->
  (forall r, owns hs' r -> owns hs r \/ (length H <= r)%nat) ->
  Post H hs h res ex.
Proof.
  intros H hs H' hs' h [ps H1] ex (L & A & [F D] & O) Hl Hag Hown. unfold Post.
  split; [lia|]. split; [|split; [split; [|exact D]|exact O]].
  - intros r Hr Hn. rewrite A; [apply Hag; auto | lia | eapply notin_of; eauto].
  - eapply Forall_impl; [|exact F]. intros [[[tr r] hs1] lg] [W Ow]. split; [exact W|].
    intros x Hx. destruct (Ow x Hx) as [X|X]; [apply Hown; exact X | right; lia].
Qed.

Lemma Post_skip : forall H hs h ex, h = false -> Post H hs h ([], H) ex.
Proof.
  intros H hs h ex ->. unfold Post. split; [lia|]. split; [intros r _ _; reflexivity|].
  split; [split; constructor | reflexivity].
Qed.

Lemma Post_skip_ext : forall H H' hs h ex, h = false ->
  (length H <= length H')%nat -> (forall r, (r < length H)%nat -> hget H' r = hget H r) ->
  Post H hs h ([], H') ex.
Proof.
  intros H H' hs h ex -> L A. unfold Post. split; [lia|]. split; [intros r Hr _; apply A; exact Hr|].
  split; [split; constructor | reflexivity].
Qed.

Lemma Post_skip_off : forall H H' hs h ex, h = false ->
  (length H <= length H')%nat -> agree_off H H' hs -> Post H hs h ([], H') ex.
Proof.
  intros H H' hs h ex -> L A. unfold Post. split; [lia|]. split; [exact A|].
  split; [split; constructor | reflexivity].
Qed.

(* ------------------------------------------------------------------ copies *)
Lemma copy3_true : forall H src,
  (h_storage src < length H)%nat -> (h_transient src < length H)%nat ->
  copy3 true true true H src =
  (H ++ [hget H (h_code src); hget H (h_storage src); hget H (h_transient src)],
   mkH (length H) (S (length H)) (S (S (length H))) (h_balance src) (h_cnt src)).
Proof.
  intros H src Hs Ht. unfold copy3, take.
  rewrite !app_length. cbn [length]. rewrite !hget_app_old by (rewrite ?app_length; cbn [length]; lia).
  rewrite <- !app_assoc. cbn [app]. f_equal. f_equal; lia.
Qed.

Record copied (H : heap) (src : hstate) (H1 : heap) (cp : hstate) : Prop := mkCopied {
  cp_len : length H1 = (length H + 3)%nat;
  cp_old : forall r, (r < length H)%nat -> hget H1 r = hget H r;
  cp_wf : wf H1 cp;
  cp_fresh : forall r, owns cp r -> (length H <= r)%nat;
  cp_c : hget H1 (h_code cp) = hget H (h_code src);
  cp_s : hget H1 (h_storage cp) = hget H (h_storage src);
  cp_t : hget H1 (h_transient cp) = hget H (h_transient src);
  cp_bal : h_balance cp = h_balance src;
  cp_cnt : h_cnt cp = h_cnt src;
}.

Lemma copy3_copied : forall H src H1 cp,
  (h_storage src < length H)%nat -> (h_transient src < length H)%nat ->
  copy3 true true true H src = (H1, cp) -> copied H src H1 cp.
Proof.
  intros H src H1 cp Hs Ht E. rewrite copy3_true in E by assumption. inversion E; subst. clear E.
  constructor; cbn [h_code h_storage h_transient h_balance h_cnt].
  - rewrite app_length. reflexivity.
  - intros r Hr. apply hget_app_old. exact Hr.
  - constructor; cbn [h_code h_storage h_transient]; rewrite ?app_length; cbn [length]; lia.
  - intros r [->|[->| ->]]; cbn; lia.
  - apply hget_app_new.
  - change (H ++ [hget H (h_code src); hget H (h_storage src); hget H (h_transient src)])
      with (H ++ [hget H (h_code src)] ++ [hget H (h_storage src); hget H (h_transient src)]).
    rewrite app_assoc.
    replace (S (length H)) with (length (H ++ [hget H (h_code src)])) by (rewrite app_length; cbn; lia).
    apply hget_app_new.
  - change (H ++ [hget H (h_code src); hget H (h_storage src); hget H (h_transient src)])
      with (H ++ [hget H (h_code src); hget H (h_storage src)] ++ [hget H (h_transient src)]).
    rewrite app_assoc.
    replace (S (S (length H))) with (length (H ++ [hget H (h_code src); hget H (h_storage src)])) by (rewrite app_length; cbn; lia).
    apply hget_app_new.
  - reflexivity.
  - reflexivity.
Qed.

Lemma copied_habs : forall H src H1 cp, copied H src H1 cp -> habs H1 cp = habs H src.
Proof. intros H src H1 cp []. unfold habs. congruence. Qed.

Lemma branch_copy_copied : forall H hs H1 hsB, wf H hs -> branch_copy H hs = (H1, hsB) -> copied H hs H1 hsB.
Proof. intros H hs H1 hsB [] E. apply copy3_copied; auto. Qed.

(* ------------------------------------------------------------------ forks *)
Lemma h_fork_post : forall H hs h eB runA runB cA cB expA expB,
  wf H hs ->
  (eB = false -> cB && h = false) ->
  (forall H1, (length H <= length H1)%nat -> (forall r, (r < length H)%nat -> hget H1 r = hget H r) ->
     Post H1 hs (cA && h) (runA H1) expA) ->
  (forall hsB H2, eB = true -> wf H2 hsB -> habs H2 hsB = habs H hs ->
     (forall r, owns hsB r -> (length H <= r)%nat) ->
     (length H <= length H2)%nat -> agree_off H H2 hs ->
     Post H2 hsB (cB && h) (runB hsB H2) expB) ->
  Post H hs h (h_fork H hs eB runA runB) ((if cA then expA else []) ++ (if cB then expB else [])).
Proof.
  intros H hs h eB runA runB cA cB expA expB W HeB HA HB. unfold h_fork.
  destruct eB.
  - destruct (branch_copy H hs) as [H1 hsB] eqn:Ebc.
    pose proof (branch_copy_copied _ _ _ _ W Ebc) as C.
    assert (L1 : (length H <= length H1)%nat) by (rewrite (cp_len _ _ _ _ C); lia).
    specialize (HA H1 L1 (cp_old _ _ _ _ C)).
    destruct (runA H1) as [pA H2]. destruct HA as (LA & AA & [FA DA] & OA).
    assert (AG : agree_off H H2 hs).
    { intros r Hr Hn. rewrite AA by (auto; lia). apply (cp_old _ _ _ _ C). exact Hr. }
    assert (NB : forall r, owns hs r \/ (length H1 <= r)%nat -> notin r hsB).
    { intros r Hor. pose proof (cp_fresh _ _ _ _ C) as Fr. destruct (cp_wf _ _ _ _ C). destruct W.
      pose proof (Fr (h_code hsB) (or_introl eq_refl)).
      pose proof (Fr (h_storage hsB) (or_intror (or_introl eq_refl))).
      pose proof (Fr (h_transient hsB) (or_intror (or_intror eq_refl))).
      unfold notin. destruct Hor as [[X|[X|X]]|X]; repeat split; lia. }
    assert (WB : wf H2 hsB) by (eapply wf_grow; [apply (cp_wf _ _ _ _ C) | lia]).
    assert (SB : habs H2 hsB = habs H hs).
    { rewrite <- (copied_habs _ _ _ _ C). apply habs_agree. intros r Hr. apply AA.
      - destruct (cp_wf _ _ _ _ C). destruct Hr as [->|[->| ->]]; assumption.
      - pose proof (cp_fresh _ _ _ _ C r Hr). destruct W. unfold notin. repeat split; lia. }
    specialize (HB hsB H2 eq_refl WB SB (cp_fresh _ _ _ _ C) ltac:(lia) AG).
    destruct (runB hsB H2) as [pB H3]. destruct HB as (LB & AB & [FB DB] & OB).
    unfold Post. split; [lia|]. split; [|split; [split|]].
    + intros r Hr Hn. rewrite AB.
      * apply AG; auto.
      * lia.
      * pose proof (cp_fresh _ _ _ _ C) as Fr. unfold notin.
        repeat split; intros E; subst r;
          match goal with
          | _ : (?a < _)%nat |- _ => pose proof (Fr a ltac:(unfold owns; auto)); lia
          end.
    + apply Forall_app. split.
      * eapply Forall_impl; [|exact FA]. intros [[[tr r] hs1] lg] [W1 O1]. split.
        -- eapply wf_grow; [exact W1 | lia].
        -- intros x Hx. destruct (O1 x Hx) as [X|X]; [left; exact X | right; lia].
      * eapply Forall_impl; [|exact FB]. intros [[[tr r] hs1] lg] [W1 O1]. split; [exact W1|].
        intros x Hx. destruct (O1 x Hx) as [X|X]; [right; apply (cp_fresh _ _ _ _ C); exact X | right; lia].
    + apply FOP_app; [exact DA | exact DB |].
      intros [[[trp rp] hp] lgp] [[[trq rq] hq] lgq] Hp Hq r Op Oq.
      rewrite Forall_forall in FA, FB.
      destruct (FA _ Hp) as [Wp Ownp]. destruct (FB _ Hq) as [Wq Ownq].
      destruct (Ownq r Oq) as [X|X].
      * destruct (NB r (Ownp r Op)) as (N1 & N2 & N3). destruct X as [X|[X|X]]; congruence.
      * destruct Wp. destruct Op as [->|[->| ->]]; lia.
    + rewrite out_app, OB.
      rewrite (out_stable H1 H2 H3 hs pA FA).
      * rewrite OA. destruct h, cA, cB; cbn; rewrite ?app_nil_r; reflexivity.
      * intros r Hr Hor. apply AB; [exact Hr | apply NB; assumption].
  - specialize (HeB eq_refl).
    specialize (HA H ltac:(lia) ltac:(auto)).
    destruct (runA H) as [pA H2]. destruct HA as (LA & AA & FA & OA).
    unfold Post. split; [lia|]. split; [exact AA|]. split.
    + rewrite app_nil_r. exact FA.
    + rewrite app_nil_r, OA. destruct h, cA, cB; cbn in *; rewrite ?app_nil_r; try reflexivity; discriminate.
Qed.

(* ------------------------------------------------------------------ continuations *)
(* objects a continuation reads when it is invoked (the backups captured by the callback
   closures): allocated, and not held by the running Exec *)
Definition RdOk (Rd : list nat) (H : heap) (hs : hstate) : Prop :=
  forall x, In x Rd -> (x < length H)%nat /\ notin x hs.

Definition kpure := fres -> mstate -> list logitem -> list mres.

(* [k] invoked later, in any heap in which the objects [Rd] still have the content they
   have in [H0], on any state not holding them, behaves as the state-passing [kp] *)
Definition Kspec (Rd : list nat) (H0 : heap) (k : hk) (kp : kpure) : Prop :=
  forall tr r hs lg H,
    (length H0 <= length H)%nat -> (forall x, In x Rd -> hget H x = hget H0 x) ->
    wf H hs -> (forall x, In x Rd -> notin x hs) ->
    Post H hs (holds tr) (k tr r hs lg H) (kp r (habs H hs) lg).

Lemma Kspec_mono : forall Rd H0 H1 k kp,
  Kspec Rd H0 k kp -> (length H0 <= length H1)%nat ->
  (forall x, In x Rd -> hget H1 x = hget H0 x) -> Kspec Rd H1 k kp.
Proof.
  intros Rd H0 H1 k kp K L A tr r hs lg H L' A' W N. apply K; auto; [lia|].
  intros x Hx. rewrite A', A; auto.
Qed.

Lemma Kspec_here : forall Rd H k kp tr r hs lg,
  Kspec Rd H k kp -> wf H hs -> RdOk Rd H hs ->
  Post H hs (holds tr) (k tr r hs lg H) (kp r (habs H hs) lg).
Proof. intros Rd H k kp tr r hs lg K W R. apply K; auto. intros x Hx. apply R; auto. Qed.

Definition KP (kp : kpure) (lg : list logitem) (m : mres) : list mres :=
  let '(r, st, lg') := m in kp r st (lg ++ lg').

Lemma flat_map_flat_map : forall (A B C : Type) (f : B -> list C) (g : A -> list B) l,
  flat_map f (flat_map g l) = flat_map (fun x => flat_map f (g x)) l.
Proof. induction l as [|a l IH]; cbn; [reflexivity|]. rewrite flat_map_app, IH. reflexivity. Qed.
Lemma KP_addlog : forall kp lg pre ms,
  flat_map (KP kp lg) (map (addlog pre) ms) = flat_map (KP kp (lg ++ pre)) ms.
Proof.
  induction ms as [|[[r st] l] ms IH]; cbn; [reflexivity|]. rewrite IH, app_assoc. reflexivity.
Qed.
Lemma KP_single : forall kp lg r st l, flat_map (KP kp lg) [(r, st, l)] = kp r st (lg ++ l).
Proof. intros. cbn. apply app_nil_r. Qed.

(* going on after the running Exec mutated (only) its own objects *)
Lemma step_own : forall H hs H' Rd k kp,
  length H' = length H -> (forall r, notin r hs -> hget H' r = hget H r) ->
  wf H hs -> RdOk Rd H hs -> Kspec Rd H k kp ->
  wf H' hs /\ RdOk Rd H' hs /\ Kspec Rd H' k kp /\
  forall h res ex, Post H' hs h res ex -> Post H hs h res ex.
Proof.
  intros H hs H' Rd k kp L A W R K.
  split; [eapply wf_grow; eauto; lia|].
  split; [intros x Hx; destruct (R x Hx); split; [lia | auto]|].
  split.
  - eapply Kspec_mono; eauto; [lia|]. intros x Hx. apply A. apply R. exact Hx.
  - intros h res ex P. apply (Post_rebase H hs H' hs h res ex P); [lia | | auto].
    intros r Hr Hn. apply A. exact Hn.
Qed.

(* ------------------------------------------------------------------ mutations seen through habs *)
Lemma habs_sstore : forall H hs a k v, wf H hs ->
  habs (h_sstore H hs a k v) hs = m_sstore (habs H hs) a k v.
Proof.
  intros H hs a k v []. unfold habs, h_sstore, m_sstore. cbn [m_code m_storage m_transient m_balance m_cnt].
  rewrite hget_hupd_same by assumption. rewrite !hget_hupd_other by congruence. reflexivity.
Qed.
Lemma habs_tstore : forall H hs a k v, wf H hs ->
  habs (h_tstore H hs a k v) hs = m_tstore (habs H hs) a k v.
Proof.
  intros H hs a k v []. unfold habs, h_tstore, m_tstore. cbn [m_code m_storage m_transient m_balance m_cnt].
  rewrite hget_hupd_same by assumption. rewrite !hget_hupd_other by congruence. reflexivity.
Qed.
Lemma habs_set_code : forall H hs a c, wf H hs ->
  habs (h_set_code H hs a c) hs = m_set_code (habs H hs) a c.
Proof.
  intros H hs a c []. unfold habs, h_set_code, m_set_code. cbn [m_code m_storage m_transient m_balance m_cnt].
  rewrite hget_hupd_same by assumption. rewrite !hget_hupd_other by congruence. reflexivity.
Qed.
Lemma habs_new_account : forall H hs a, wf H hs ->
  habs (h_new_account H hs a) hs = m_new_account (habs H hs) a.
Proof.
  intros H hs a []. unfold habs, h_new_account, h_set_code, m_new_account.
  cbn [m_code m_storage m_transient m_balance m_cnt].
  repeat first [ rewrite hget_hupd_same by (rewrite ?length_hupd; assumption)
               | rewrite hget_hupd_other by congruence ].
  reflexivity.
Qed.

Lemma own_mut_len_sstore : forall H hs a k v, length (h_sstore H hs a k v) = length H.
Proof. intros. apply length_hupd. Qed.
Lemma own_mut_len_tstore : forall H hs a k v, length (h_tstore H hs a k v) = length H.
Proof. intros. apply length_hupd. Qed.
Lemma own_mut_len_set_code : forall H hs a c, length (h_set_code H hs a c) = length H.
Proof. intros. apply length_hupd. Qed.
Lemma own_mut_len_new_account : forall H hs a, length (h_new_account H hs a) = length H.
Proof. intros. unfold h_new_account, h_set_code. rewrite !length_hupd. reflexivity. Qed.

Lemma own_mut_off_sstore : forall H hs a k v r, notin r hs -> hget (h_sstore H hs a k v) r = hget H r.
Proof. intros H hs a k v r (N1 & N2 & N3). apply hget_hupd_other. congruence. Qed.
Lemma own_mut_off_tstore : forall H hs a k v r, notin r hs -> hget (h_tstore H hs a k v) r = hget H r.
Proof. intros H hs a k v r (N1 & N2 & N3). apply hget_hupd_other. congruence. Qed.
Lemma own_mut_off_set_code : forall H hs a c r, notin r hs -> hget (h_set_code H hs a c) r = hget H r.
Proof. intros H hs a c r (N1 & N2 & N3). apply hget_hupd_other. congruence. Qed.
Lemma own_mut_off_new_account : forall H hs a r, notin r hs -> hget (h_new_account H hs a) r = hget H r.
Proof.
  intros H hs a r (N1 & N2 & N3). unfold h_new_account, h_set_code.
  rewrite !hget_hupd_other by congruence. reflexivity.
Qed.

Lemma habs_values : forall H hs st',
  m_code st' = m_code (habs H hs) -> m_storage st' = m_storage (habs H hs) ->
  m_transient st' = m_transient (habs H hs) -> habs H (h_values hs st') = st'.
Proof. intros H hs [c s t b n] E1 E2 E3. cbn in *. subst. reflexivity. Qed.
Lemma transfer_force_frame : forall st a b v,
  m_code (transfer_force st a b v) = m_code st /\ m_storage (transfer_force st a b v) = m_storage st /\
  m_transient (transfer_force st a b v) = m_transient st /\ m_cnt (transfer_force st a b v) = m_cnt st.
Proof. intros. unfold transfer_force. destruct (v =? 0); cbn; auto. Qed.
Lemma send_force_frame : forall op st a b v,
  m_code (send_force op st a b v) = m_code st /\ m_storage (send_force op st a b v) = m_storage st /\
  m_transient (send_force op st a b v) = m_transient st /\ m_cnt (send_force op st a b v) = m_cnt st.
Proof. intros. unfold send_force. destruct (sends_value op); [apply transfer_force_frame | auto]. Qed.
Lemma habs_send : forall H hs op a b v,
  habs H (h_values hs (send_force op (habs H hs) a b v)) = send_force op (habs H hs) a b v.
Proof. intros. destruct (send_force_frame op (habs H hs) a b v) as (E1 & E2 & E3 & _). apply habs_values; assumption. Qed.
Lemma habs_transfer : forall H hs a b v,
  habs H (h_values hs (transfer_force (habs H hs) a b v)) = transfer_force (habs H hs) a b v.
Proof. intros. destruct (transfer_force_frame (habs H hs) a b v) as (E1 & E2 & E3 & _). apply habs_values; assumption. Qed.

Lemma holds_cons : forall s c tr, holds ((s, c) :: tr) = c && holds tr.
Proof. reflexivity. Qed.

(* ------------------------------------------------------------------ frames *)
Definition run_hyp (run : hrun) (runp : fctx -> mstate -> list mres) : Prop :=
  forall c hs tr lg H k kp Rd, wf H hs -> RdOk Rd H hs -> Kspec Rd H k kp ->
    Post H hs (holds tr) (run c hs tr lg H k) (flat_map (KP kp lg) (runp c (habs H hs))).
Definition cont_hyp_h (k : hk) (kp : kpure) (Rd : list nat) (continue : hcont)
    (contp : mstate -> list Z -> lastsub -> list mres) : Prop :=
  forall hs ob l tr lg H, wf H hs -> RdOk Rd H hs -> Kspec Rd H k kp ->
    Post H hs (holds tr) (continue hs ob l tr lg H) (flat_map (KP kp lg) (contp (habs H hs) ob l)).

Lemma h_sub_frame_post : forall msg hs tr lg H run runp k kp Rd,
  run_hyp run runp -> wf H hs -> RdOk Rd H hs -> Kspec Rd H k kp ->
  Post H hs (holds tr) (h_sub_frame msg hs tr lg H run k)
       (flat_map (KP kp lg) (sub_frame msg (habs H hs) runp)).
Proof.
  intros msg hs tr lg H run runp k kp Rd Hr W R K. unfold h_sub_frame, sub_frame.
  destruct (depth_exceeded (c_depth msg)).
  - rewrite KP_single, app_nil_r. apply (Kspec_here Rd); auto.
  - destruct (c_code msg).
    + rewrite KP_single. apply (Kspec_here Rd); auto.
    + rewrite KP_addlog. apply (Hr _ _ _ _ _ _ _ Rd); auto.
Qed.
(* STAGE3 *)
(* ------------------------------------------------------------------ backups and restores *)
Lemma snapshot_call_copied : forall H hs H1 snap,
  wf H hs -> snapshot_call H hs = (H1, snap) -> copied H hs H1 snap.
Proof. intros H hs H1 snap [] E. apply copy3_copied; auto. Qed.
Lemma snapshot_create_copied : forall H hs H1 snap,
  wf H hs -> snapshot_create H hs = (H1, snap) -> copied H hs H1 snap.
Proof. intros H hs H1 snap [] E. apply copy3_copied; auto. Qed.

Lemma restore_call_spec : forall snap ob H2 hs2 H3 hs3,
  (h_storage snap < length H2)%nat -> (h_transient snap < length H2)%nat ->
  restore_call_h snap ob H2 hs2 = (H3, hs3) ->
  (length H2 <= length H3)%nat /\ (forall r, (r < length H2)%nat -> hget H3 r = hget H2 r) /\
  wf H3 hs3 /\ (forall r, owns hs3 r -> (length H2 <= r)%nat) /\
  habs H3 hs3 = mkM (fst (hget H2 (h_code snap))) (snd (hget H2 (h_storage snap)))
                    (snd (hget H2 (h_transient snap))) ob (h_cnt hs2).
Proof.
  intros snap ob H2 hs2 H3 hs3 Hs Ht E. unfold restore_call_h in E.
  destruct (copy3 call_restore_copies_code call_restore_copies_storage call_restore_copies_transient_storage H2 snap)
    as [H1 cp] eqn:Ec.
  apply copy3_copied in Ec; [|assumption|assumption].
  unfold call_restores_code, call_restores_storage, call_restores_transient_storage, call_restores_balance in E.
  inversion E; subst. clear E. destruct Ec.
  split; [lia|]. split; [assumption|]. split.
  - destruct cp_wf0. constructor; assumption.
  - split.
    + intros r Hr. apply cp_fresh0. exact Hr.
    + unfold habs. cbn [h_code h_storage h_transient h_balance h_cnt]. congruence.
Qed.

Lemma restore_create_spec : forall snap H2 hs2 H3 hs3,
  (h_storage snap < length H2)%nat -> (h_transient snap < length H2)%nat ->
  restore_create_h snap H2 hs2 = (H3, hs3) ->
  (length H2 <= length H3)%nat /\ (forall r, (r < length H2)%nat -> hget H3 r = hget H2 r) /\
  wf H3 hs3 /\ (forall r, owns hs3 r -> (length H2 <= r)%nat) /\
  habs H3 hs3 = mkM (fst (hget H2 (h_code snap))) (snd (hget H2 (h_storage snap)))
                    (snd (hget H2 (h_transient snap))) (h_balance snap) (h_cnt hs2).
Proof.
  intros snap H2 hs2 H3 hs3 Hs Ht E. unfold restore_create_h in E.
  destruct (copy3 create_restore_copies_code create_restore_copies_storage create_restore_copies_transient_storage H2 snap)
    as [H1 cp] eqn:Ec.
  apply copy3_copied in Ec; [|assumption|assumption].
  unfold create_restores_code, create_restores_storage, create_restores_transient_storage, create_restores_balance in E.
  inversion E; subst. clear E. destruct Ec.
  split; [lia|]. split; [assumption|]. split.
  - destruct cp_wf0. constructor; assumption.
  - split.
    + intros r Hr. apply cp_fresh0. exact Hr.
    + unfold habs. cbn [h_code h_storage h_transient h_balance h_cnt]. congruence.
Qed.

(* ------------------------------------------------------------------ SEVM.call *)
Section CallPost.
Variables (ob : list Z) (rsz : Z) (k : hk) (kp : kpure) (Rd : list nat)
          (continue : hcont) (contp : mstate -> list Z -> lastsub -> list mres).
Hypothesis Hcont : cont_hyp_h k kp Rd continue contp.

(* state-passing counterpart of the callback *)
Definition cbp_call (orig : mstate) : kpure :=
  fun r st2 lg2 =>
    let '(data, has_error) := output_of r in
    flat_map (KP kp lg2)
      (contp (if call_success has_error then st2 else restore_call orig st2)
             (m_after_call ob (if call_success has_error then 1 else 0) (Some (false, has_error, data)) rsz data)
             (Some (false, has_error, data))).

(* the callback, whenever it is invoked: the backup objects [snap] still hold what the
   caller's objects held when the backup was taken, nobody else holds them *)
Lemma call_back_spec : forall H0 hs0 H1a snap,
  wf H0 hs0 -> RdOk Rd H0 hs0 -> Kspec Rd H0 k kp -> copied H0 hs0 H1a snap ->
  Kspec ([h_code snap; h_storage snap; h_transient snap] ++ Rd) H1a
        (h_call_back continue ob rsz snap (h_balance hs0)) (cbp_call (habs H0 hs0)).
Proof.
  intros H0 hs0 H1a snap W R K C tr2 r hs2 lg2 H2 L A W2 N.
  unfold h_call_back, cbp_call. destruct (output_of r) as [data has_error].
  assert (RdIn : forall x, In x Rd -> In x ([h_code snap; h_storage snap; h_transient snap] ++ Rd)).
  { intros x Hx. apply in_or_app. right. exact Hx. }
  assert (L01 : (length H0 <= length H1a)%nat) by (rewrite (cp_len _ _ _ _ C); lia).
  assert (ARd : forall x, In x Rd -> hget H2 x = hget H0 x).
  { intros x Hx. rewrite A by (apply RdIn; exact Hx). apply (cp_old _ _ _ _ C). apply R. exact Hx. }
  unfold call_success. destruct has_error; cbn [negb].
  - (* the sub-frame failed: restore *)
    destruct (restore_call_h snap (h_balance hs0) H2 hs2) as [H3 hs3] eqn:Er.
    destruct (cp_wf _ _ _ _ C) as [Sc Ss St _ _ _].
    apply restore_call_spec in Er as (L3 & A3 & W3 & F3 & S3); [|lia|lia].
    apply (Post_rebase H2 hs2 H3 hs3); [| lia | intros x Hx _; apply A3; exact Hx | intros x Hx; right; apply F3; exact Hx].
    replace (restore_call (habs H0 hs0) (habs H2 hs2)) with (habs H3 hs3).
    + apply Hcont; [exact W3| |].
      * intros x Hx. destruct (R x Hx) as [Lx _]. split; [lia|].
        pose proof (F3 (h_code hs3) (or_introl eq_refl)).
        pose proof (F3 (h_storage hs3) (or_intror (or_introl eq_refl))).
        pose proof (F3 (h_transient hs3) (or_intror (or_intror eq_refl))).
        unfold notin. repeat split; lia.
      * eapply Kspec_mono; [exact K | lia |]. intros x Hx. rewrite A3 by (destruct (R x Hx); lia). apply ARd. exact Hx.
    + rewrite S3. unfold restore_call, call_restores_code, call_restores_storage, call_restores_transient_storage, call_restores_balance.
      rewrite !A by (cbn; auto). rewrite (cp_c _ _ _ _ C), (cp_s _ _ _ _ C), (cp_t _ _ _ _ C). reflexivity.
  - (* success: go on with the objects of the sub-frame *)
    apply Hcont; [exact W2| |].
    + intros x Hx. destruct (R x Hx) as [Lx _]. split; [lia|]. apply N. apply RdIn. exact Hx.
    + eapply Kspec_mono; [exact K | lia | exact ARd].
Qed.
End CallPost.
(* STAGE4 *)
Lemma h_fork_post' : forall H hs h eB runA runB cA cB expA expB,
  wf H hs ->
  (eB = false -> cB && h = false) ->
  (forall H1, (length H <= length H1)%nat -> (forall r, (r < length H)%nat -> hget H1 r = hget H r) ->
     Post H1 hs (cA && h) (runA H1) expA) ->
  (forall hsB H2, eB = true -> wf H2 hsB -> habs H2 hsB = habs H hs ->
     (forall r, owns hsB r -> (length H <= r)%nat) ->
     (length H <= length H2)%nat -> agree_off H H2 hs ->
     Post H2 hsB (cB && h) (runB hsB H2) expB) ->
  (cA = false -> expA = []) -> (cB = false -> expB = []) ->
  Post H hs h (h_fork H hs eB runA runB) (expA ++ expB).
Proof.
  intros H hs h eB runA runB cA cB expA expB W HeB HA HB EA EB.
  assert (E : expA ++ expB = (if cA then expA else []) ++ (if cB then expB else [])).
  { destruct cA, cB; rewrite ?EA, ?EB by reflexivity; reflexivity. }
  rewrite E. apply h_fork_post; assumption.
Qed.

Lemma explore_false : forall feas tr, explore feas tr = false -> holds tr = false.
Proof. intros feas tr E. unfold explore in E. apply orb_false_elim in E. tauto. Qed.

Lemma Post_false_irrel : forall H hs res ex ex', Post H hs false res ex -> Post H hs false res ex'.
Proof. intros H hs [ps H1] ex ex' P. exact P. Qed.

(* what carries over to an extension of the heap in which the old objects are untouched *)
Lemma ext_facts : forall H H1 hs Rd k kp,
  wf H hs -> RdOk Rd H hs -> Kspec Rd H k kp ->
  (length H <= length H1)%nat -> (forall r, (r < length H)%nat -> hget H1 r = hget H r) ->
  wf H1 hs /\ habs H1 hs = habs H hs /\ RdOk Rd H1 hs /\ Kspec Rd H1 k kp.
Proof.
  intros H H1 hs Rd k kp W R K L A.
  split; [eapply wf_grow; eauto|]. split; [|split].
  - apply habs_agree. intros r Hr. apply A. destruct W. destruct Hr as [->|[->| ->]]; assumption.
  - intros x Hx. destruct (R x Hx). split; [lia|auto].
  - eapply Kspec_mono; eauto. intros x Hx. apply A. apply R. exact Hx.
Qed.

(* ... and to the heap in which a later-explored side of a fork starts *)
Lemma later_facts : forall H H2 hs hsB Rd k kp,
  wf H hs -> RdOk Rd H hs -> Kspec Rd H k kp ->
  (forall r, owns hsB r -> (length H <= r)%nat) ->
  (length H <= length H2)%nat -> agree_off H H2 hs ->
  RdOk Rd H2 hsB /\ Kspec Rd H2 k kp.
Proof.
  intros H H2 hs hsB Rd k kp W R K F L A. split.
  - intros x Hx. destruct (R x Hx) as [Lx Nx]. split; [lia|].
    pose proof (F (h_code hsB) (or_introl eq_refl)).
    pose proof (F (h_storage hsB) (or_intror (or_introl eq_refl))).
    pose proof (F (h_transient hsB) (or_intror (or_intror eq_refl))).
    unfold notin. repeat split; lia.
  - eapply Kspec_mono; eauto. intros x Hx. destruct (R x Hx). apply A; auto.
Qed.

Lemma h_call_post : forall feas kd to0 v0 rsz c hs ob tr lg H k kp Rd run runp continue contp,
  run_hyp run runp -> cont_hyp_h k kp Rd continue contp ->
  wf H hs -> RdOk Rd H hs -> Kspec Rd H k kp ->
  Post H hs (holds tr) (h_call feas kd to0 v0 rsz c hs ob tr lg H k run continue)
       (flat_map (KP kp lg) (m_call kd to0 v0 rsz c (habs H hs) ob runp contp)).
Proof.
  intros feas kd to0 v0 rsz c hs ob tr lg H k kp Rd run runp continue contp Hrun Hcont W R K.
  unfold h_call, m_call, send_callvalue. cbv zeta.
  remember (habs H hs) as st eqn:Est.
  remember (op_of kd) as op eqn:Eop.
  remember (to0 mod 2 ^ 160) as to eqn:Eto.
  remember (call_fund op v0) as fund eqn:Efund.
  destruct (call_static_value_check op (c_static c) fund).
  { rewrite KP_single. subst st. apply (Kspec_here Rd); auto. }
  rewrite flat_map_app.
  remember (negb (fund =? 0) && insufficient (balance_of st (c_this c)) fund) as cB eqn:EcB.
  remember (main_cond op st (c_this c) to fund (c_depth c)) as cA eqn:EcA.
  match goal with
  | |- context [mkCtx ?a ?b ?d ?e ?f ?g ?h] => remember (mkCtx a b d e f g h) as msg eqn:Emsg
  end.
  apply h_fork_post' with (cA := cA) (cB := cB).
  - exact W.
  - intros E. apply explore_false in E. rewrite holds_cons in E. exact E.
  - (* the main path, explored first *)
    intros H1 L1 A1.
    destruct (ext_facts H H1 hs Rd k kp W R K L1 A1) as (W1 & S1 & R1 & K1).
    rewrite <- Est in S1.
    rewrite <- (holds_cons false cA tr).
    destruct (in_code st to) eqn:Ein.
    + assert (Esc : send_cond op st (c_this c) fund = cA)
        by (rewrite EcA; unfold main_cond; rewrite Ein; reflexivity).
      rewrite Esc.
      destruct (snapshot_call H1 hs) as [H1a snap] eqn:Es.
      pose proof (snapshot_call_copied _ _ _ _ W1 Es) as C.
      destruct (explore feas ((false, cA) :: tr)) eqn:Ee.
      * unfold call_backup_before_transfer. cbv iota.
        remember (send_force op st (c_this c) to fund) as st1 eqn:Est1.
        assert (Main : Post H1 hs (holds ((false, cA) :: tr))
                  (h_sub_frame msg (h_values hs st1) ((false, cA) :: tr) lg H1a run
                     (h_call_back continue ob rsz snap (h_balance hs)))
                  (flat_map (KP kp lg)
                     (flat_map
                        (fun sub : mres =>
                           let '(r, st2, lg0) := sub in
                           let '(data, has_error) := output_of r in
                           map (addlog lg0)
                             (contp (if call_success has_error then st2 else restore_call st st2)
                                (m_after_call ob (if call_success has_error then 1 else 0)
                                   (Some (false, has_error, data)) rsz data)
                                (Some (false, has_error, data))))
                        (sub_frame msg st1 runp)))).
        { assert (L1a : (length H1 <= length H1a)%nat) by (rewrite (cp_len _ _ _ _ C); lia).
          apply (Post_rebase H1 hs H1a (h_values hs st1));
            [| exact L1a | intros x Hx _; apply (cp_old _ _ _ _ C); exact Hx | intros x Hx; left; exact Hx].
          rewrite flat_map_flat_map.
          rewrite (flat_map_ext _ (KP (cbp_call ob rsz kp contp st) lg)).
          2:{ intros [[r st2] lg0]. change (KP (cbp_call ob rsz kp contp st) lg (r, st2, lg0)) with (cbp_call ob rsz kp contp st r st2 (lg ++ lg0)). unfold cbp_call. destruct (output_of r) as [data he].
              rewrite KP_addlog. reflexivity. }
          assert (S1a : habs H1a (h_values hs st1) = st1).
          { subst st1 st. rewrite <- S1 at 1.
            replace (habs H1a (h_values hs (send_force op (habs H1 hs) (c_this c) to fund)))
              with (habs H1 (h_values hs (send_force op (habs H1 hs) (c_this c) to fund))).
            - rewrite habs_send. rewrite S1. reflexivity.
            - symmetry. apply habs_agree. intros x Hx. apply (cp_old _ _ _ _ C).
              destruct W1. destruct Hx as [->|[->| ->]]; assumption. }
          pose proof (h_sub_frame_post msg (h_values hs st1) ((false, cA) :: tr) lg H1a run runp
                   (h_call_back continue ob rsz snap (h_balance hs)) (cbp_call ob rsz kp contp st)
                   ([h_code snap; h_storage snap; h_transient snap] ++ Rd)) as P.
          rewrite S1a in P. apply P; clear P.
          - exact Hrun.
          - eapply wf_grow; [|exact L1a]. destruct W1. constructor; assumption.
          - intros x Hx. apply in_app_or in Hx as [Hx|Hx].
            + destruct (cp_wf _ _ _ _ C) as [Sc Ss St _ _ _].
              pose proof (cp_fresh _ _ _ _ C) as Fr.
              pose proof (Fr (h_code snap) (or_introl eq_refl)).
              pose proof (Fr (h_storage snap) (or_intror (or_introl eq_refl))).
              pose proof (Fr (h_transient snap) (or_intror (or_intror eq_refl))).
              destruct W1. unfold notin. cbn [h_values h_code h_storage h_transient].
              cbn in Hx. destruct Hx as [<-|[<-|[<-|[]]]]; (split; [assumption | repeat split; lia]).
            + destruct (R1 x Hx) as [Lx Nx]. split; [lia | exact Nx].
          - rewrite <- S1. exact (call_back_spec ob rsz k kp Rd continue contp Hcont H1 hs H1a snap W1 R1 K1 C). }
        destruct cA.
        -- exact Main.
        -- eapply Post_false_irrel. exact Main.
      * apply Post_skip_ext; [apply explore_false in Ee; exact Ee | rewrite (cp_len _ _ _ _ C); lia | apply (cp_old _ _ _ _ C)].
    + destruct (unknown_call_ok (c_depth c)) eqn:Eu.
      2:{ (* the call of an account without code at the depth limit: status word 0, nothing sent *)
          assert (EA : cA = true) by (rewrite EcA; unfold main_cond; rewrite Ein, Eu; reflexivity).
          rewrite <- S1. apply Hcont; assumption. }
      assert (Esc : send_cond op st (c_this c) fund = cA)
        by (rewrite EcA; unfold main_cond; rewrite Ein, Eu; reflexivity).
      rewrite Esc.
      destruct (explore feas ((false, cA) :: tr)) eqn:Ee.
      * remember (send_force op st (c_this c) to fund) as st1 eqn:Est1.
        assert (S1a : habs H1 (h_values hs st1) = st1).
        { subst st1 st. rewrite <- S1 at 1. rewrite habs_send. rewrite S1. reflexivity. }
        assert (Main : Post H1 hs (holds ((false, cA) :: tr))
                  (continue (h_values hs st1) (m_after_call ob 1 (Some (false, false, [])) rsz [])
                     (Some (false, false, [])) ((false, cA) :: tr) (lg ++ [LFrame msg; LEnd (FOk [])]) H1)
                  (flat_map (KP kp lg)
                     (map (addlog [LFrame msg; LEnd (FOk [])])
                        (contp st1 (m_after_call ob 1 (Some (false, false, [])) rsz []) (Some (false, false, [])))))).
        { apply (Post_rebase H1 hs H1 (h_values hs st1)); [| lia | auto | intros x Hx; left; exact Hx].
          rewrite KP_addlog.
          pose proof (Hcont (h_values hs st1) (m_after_call ob 1 (Some (false, false, [])) rsz [])
                        (Some (false, false, [])) ((false, cA) :: tr) (lg ++ [LFrame msg; LEnd (FOk [])]) H1) as P.
          rewrite S1a in P. apply P; clear P.
          - destruct W1. constructor; assumption.
          - exact R1.
          - exact K1. }
        destruct cA.
        -- exact Main.
        -- eapply Post_false_irrel. exact Main.
      * apply Post_skip. apply explore_false in Ee. exact Ee.
  - (* the insufficient-funds branch: a copy taken before the main path ran, explored after it *)
    intros hsF H2 _ WF SF FF L2 A2.
    destruct (later_facts H H2 hs hsF Rd k kp W R K FF L2 A2) as (RF & KF).
    rewrite <- (holds_cons true cB tr). rewrite <- Est in SF. rewrite <- SF.
    assert (Main : Post H2 hsF (holds ((true, cB) :: tr))
              (continue hsF (m_after_call ob 0 (Some (false, true, [])) rsz []) (Some (false, true, [])) ((true, cB) :: tr) lg H2)
              (flat_map (KP kp lg) (contp (habs H2 hsF) (m_after_call ob 0 (Some (false, true, [])) rsz []) (Some (false, true, [])))))
      by (apply Hcont; assumption).
    destruct cB; [exact Main | eapply Post_false_irrel; exact Main].
  - intros E. rewrite EcA in E. unfold main_cond in E.
    destruct (in_code st to); cbn [orb] in E; [rewrite E; reflexivity|].
    destruct (unknown_call_ok (c_depth c)); [rewrite E; reflexivity | discriminate E].
  - intros E. rewrite E. reflexivity.
Qed.
(* STAGE5 *)
(* ------------------------------------------------------------------ SEVM.create *)
Section CreatePost.
Variables (ob : list Z) (new_addr : Z) (k : hk) (kp : kpure) (Rd : list nat)
          (continue : hcont) (contp : mstate -> list Z -> lastsub -> list mres).
Hypothesis Hcont : cont_hyp_h k kp Rd continue contp.

Definition cbp_create (orig : mstate) : kpure :=
  fun r st3 lg3 =>
    let '(data, has_error) := output_of r in
    flat_map (KP kp lg3)
      (if create_success has_error
       then contp (m_set_code st3 new_addr data) (m_after_create ob new_addr (Some (true, has_error, data))) (Some (true, has_error, data))
       else contp (restore_create orig st3) (m_after_create ob 0 (Some (true, has_error, data))) (Some (true, has_error, data))).

Lemma create_back_spec : forall H0 hs0 H1a snap Hc,
  wf H0 hs0 -> RdOk Rd H0 hs0 -> Kspec Rd H0 k kp -> copied H0 hs0 H1a snap ->
  length Hc = length H1a -> (forall r, notin r hs0 -> hget Hc r = hget H1a r) ->
  Kspec ([h_code snap; h_storage snap; h_transient snap] ++ Rd) Hc
        (h_create_back continue ob new_addr snap) (cbp_create (habs H0 hs0)).
Proof.
  intros H0 hs0 H1a snap Hc W R K C Lc Ac tr3 r hs3 lg3 H3 L A W3 N.
  unfold h_create_back, cbp_create. destruct (output_of r) as [data has_error].
  assert (RdIn : forall x, In x Rd -> In x ([h_code snap; h_storage snap; h_transient snap] ++ Rd)).
  { intros x Hx. apply in_or_app. right. exact Hx. }
  assert (L01 : (length H0 <= length H1a)%nat) by (rewrite (cp_len _ _ _ _ C); lia).
  assert (ARd : forall x, In x Rd -> hget H3 x = hget H0 x).
  { intros x Hx. rewrite A by (apply RdIn; exact Hx). destruct (R x Hx) as [Lx Nx].
    rewrite Ac by exact Nx. apply (cp_old _ _ _ _ C). exact Lx. }
  assert (NS : forall x, owns snap x -> notin x hs0).
  { intros x Hx. pose proof (cp_fresh _ _ _ _ C x Hx). destruct W. unfold notin. repeat split; lia. }
  unfold create_success. destruct has_error; cbn [negb].
  - (* creation failed: restore *)
    destruct (restore_create_h snap H3 hs3) as [H4 hs4] eqn:Er.
    destruct (cp_wf _ _ _ _ C) as [Sc Ss St _ _ _].
    apply restore_create_spec in Er as (L4 & A4 & W4 & F4 & S4); [|lia|lia].
    apply (Post_rebase H3 hs3 H4 hs4); [| lia | intros x Hx _; apply A4; exact Hx | intros x Hx; right; apply F4; exact Hx].
    replace (restore_create (habs H0 hs0) (habs H3 hs3)) with (habs H4 hs4).
    + apply Hcont; [exact W4| |].
      * intros x Hx. destruct (R x Hx) as [Lx _]. split; [lia|].
        pose proof (F4 (h_code hs4) (or_introl eq_refl)).
        pose proof (F4 (h_storage hs4) (or_intror (or_introl eq_refl))).
        pose proof (F4 (h_transient hs4) (or_intror (or_intror eq_refl))).
        unfold notin. repeat split; lia.
      * eapply Kspec_mono; [exact K | lia |]. intros x Hx. rewrite A4 by (destruct (R x Hx); lia). apply ARd. exact Hx.
    + rewrite S4. unfold restore_create, create_restores_code, create_restores_storage, create_restores_transient_storage, create_restores_balance.
      rewrite !A by (cbn; auto).
      rewrite !Ac by (apply NS; unfold owns; auto).
      rewrite (cp_c _ _ _ _ C), (cp_s _ _ _ _ C), (cp_t _ _ _ _ C), (cp_bal _ _ _ _ C). reflexivity.
  - (* success: the code is installed in the objects of the init frame *)
    assert (R3 : RdOk Rd H3 hs3).
    { intros x Hx. destruct (R x Hx) as [Lx _]. split; [lia|]. apply N. apply RdIn. exact Hx. }
    assert (K3 : Kspec Rd H3 k kp) by (eapply Kspec_mono; [exact K | lia | exact ARd]).
    destruct (step_own H3 hs3 (h_set_code H3 hs3 new_addr data) Rd k kp) as (W' & R' & K' & Back); auto.
    + apply own_mut_len_set_code.
    + intros x Hx. apply own_mut_off_set_code. exact Hx.
    + apply Back. rewrite <- habs_set_code by exact W3. apply Hcont; assumption.
Qed.
End CreatePost.

Lemma h_create_post : forall feas v initcode c hs ob tr lg H k kp Rd run runp continue contp,
  run_hyp run runp -> cont_hyp_h k kp Rd continue contp ->
  wf H hs -> RdOk Rd H hs -> Kspec Rd H k kp ->
  Post H hs (holds tr) (h_create feas v initcode c hs ob tr lg H k run continue)
       (flat_map (KP kp lg) (m_create v initcode c (habs H hs) ob runp contp)).
Proof.
  intros feas v initcode c hs ob tr lg H k kp Rd run runp continue contp Hrun Hcont W R K.
  unfold h_create, m_create. cbv zeta.
  destruct (create_static_check && c_static c).
  { rewrite KP_single. apply (Kspec_here Rd); auto. }
  change (m_cnt (habs H hs)) with (h_cnt hs).
  remember (h_set_cnt hs (h_cnt hs + 1)) as hs0 eqn:Ehs0.
  assert (S0 : m_set_cnt (habs H hs) (h_cnt hs + 1) = habs H hs0) by (subst hs0; reflexivity).
  rewrite S0.
  remember (habs H hs0) as st0 eqn:Est0.
  remember (new_address (h_cnt hs + 1)) as new_addr eqn:Enew.
  assert (W0 : wf H hs0) by (subst hs0; destruct W; constructor; assumption).
  assert (R0 : RdOk Rd H hs0) by (subst hs0; exact R).
  apply (Post_rebase H hs H hs0); [| lia | auto | intros x Hx; left; subst hs0; exact Hx].
  rewrite flat_map_app.
  remember (negb (v =? 0) && insufficient (balance_of st0 (c_this c)) v) as cB eqn:EcB.
  match goal with
  | |- context [mkCtx ?a ?b ?d ?e ?f ?g ?h] => remember (mkCtx a b d e f g h) as msg eqn:Emsg
  end.
  remember (if in_code st0 new_addr then true
            else transfer_cond (m_new_account st0 new_addr) (c_this c) v) as cA eqn:EcA.
  apply h_fork_post' with (cA := cA) (cB := cB).
  - exact W0.
  - intros E. apply explore_false in E. rewrite holds_cons in E. exact E.
  - (* the main path *)
    intros H1 L1 A1.
    destruct (ext_facts H H1 hs0 Rd k kp W0 R0 K L1 A1) as (W1 & S1 & R1 & K1).
    rewrite <- Est0 in S1.
    destruct (in_code st0 new_addr).
    + (* address collision: push 0 and go on *)
      subst cA. cbn [andb]. rewrite <- S1. apply Hcont; assumption.
    + unfold create_backup_before_setup. cbv iota.
      destruct (snapshot_create H1 hs0) as [Ha snap] eqn:Es.
      pose proof (snapshot_create_copied _ _ _ _ W1 Es) as C.
      remember (h_new_account Ha hs0 new_addr) as Hc eqn:EHc.
      assert (La : (length H1 <= length Ha)%nat) by (rewrite (cp_len _ _ _ _ C); lia).
      assert (Wa : wf Ha hs0) by (eapply wf_grow; eauto).
      assert (Sa : habs Ha hs0 = st0).
      { rewrite <- S1. apply habs_agree. intros x Hx. apply (cp_old _ _ _ _ C).
        destruct W1. destruct Hx as [->|[->| ->]]; assumption. }
      assert (Lc : length Hc = length Ha) by (subst Hc; apply own_mut_len_new_account).
      assert (Ac : forall r, notin r hs0 -> hget Hc r = hget Ha r) by (subst Hc; intros r Hr; apply own_mut_off_new_account; exact Hr).
      assert (Sc : habs Hc hs0 = m_new_account st0 new_addr) by (subst Hc; rewrite habs_new_account by exact Wa; rewrite Sa; reflexivity).
      rewrite Sc. rewrite <- EcA. rewrite <- (holds_cons false cA tr).
      destruct (explore feas ((false, cA) :: tr)) eqn:Ee.
      * unfold transfer_value. rewrite <- EcA.
        remember (transfer_force (m_new_account st0 new_addr) (c_this c) new_addr v) as st2 eqn:Est2.
        assert (Main : Post H1 hs0 (holds ((false, cA) :: tr))
                  (h_sub_frame msg (h_values hs0 st2) ((false, cA) :: tr) lg Hc run
                     (h_create_back continue ob new_addr snap))
                  (flat_map (KP kp lg)
                     (flat_map
                        (fun sub : mres =>
                           let '(r, st3, lg0) := sub in
                           let '(data, has_error) := output_of r in
                           map (addlog lg0)
                             (if create_success has_error
                              then contp (m_set_code st3 new_addr data) (m_after_create ob new_addr (Some (true, has_error, data))) (Some (true, has_error, data))
                              else contp (restore_create st0 st3) (m_after_create ob 0 (Some (true, has_error, data))) (Some (true, has_error, data))))
                        (sub_frame msg st2 runp)))).
        { apply (Post_rebase H1 hs0 Hc (h_values hs0 st2));
            [| lia | intros x Hx Nx; rewrite Ac by exact Nx; apply (cp_old _ _ _ _ C); exact Hx | intros x Hx; left; exact Hx].
          rewrite flat_map_flat_map.
          rewrite (flat_map_ext _ (KP (cbp_create ob new_addr kp contp st0) lg)).
          2:{ intros [[r st3] lg0].
              change (KP (cbp_create ob new_addr kp contp st0) lg (r, st3, lg0))
                with (cbp_create ob new_addr kp contp st0 r st3 (lg ++ lg0)).
              unfold cbp_create. destruct (output_of r) as [data he].
              rewrite KP_addlog. reflexivity. }
          assert (S2 : habs Hc (h_values hs0 st2) = st2).
          { subst st2. rewrite <- Sc. apply habs_transfer. }
          pose proof (h_sub_frame_post msg (h_values hs0 st2) ((false, cA) :: tr) lg Hc run runp
                   (h_create_back continue ob new_addr snap) (cbp_create ob new_addr kp contp st0)
                   ([h_code snap; h_storage snap; h_transient snap] ++ Rd)) as P.
          rewrite S2 in P. apply P; clear P.
          - exact Hrun.
          - eapply wf_grow with (H := Ha); [|lia]. destruct Wa. constructor; assumption.
          - intros x Hx. apply in_app_or in Hx as [Hx|Hx].
            + destruct (cp_wf _ _ _ _ C) as [Scc Ss St _ _ _].
              pose proof (cp_fresh _ _ _ _ C) as Fr.
              pose proof (Fr (h_code snap) (or_introl eq_refl)).
              pose proof (Fr (h_storage snap) (or_intror (or_introl eq_refl))).
              pose proof (Fr (h_transient snap) (or_intror (or_intror eq_refl))).
              destruct W1. unfold notin. cbn [h_values h_code h_storage h_transient].
              cbn in Hx. destruct Hx as [<-|[<-|[<-|[]]]]; (split; [lia | repeat split; lia]).
            + destruct (R1 x Hx) as [Lx Nx]. split; [lia | exact Nx].
          - rewrite <- S1. exact (create_back_spec ob new_addr k kp Rd continue contp Hcont H1 hs0 Ha snap Hc W1 R1 K1 C Lc Ac). }
        destruct cA.
        -- exact Main.
        -- eapply Post_false_irrel. exact Main.
      * (* not explored (InfeasiblePath): the account set-up already happened, in place, on the
           objects of this Exec only *)
        apply Post_skip_off; [apply explore_false in Ee; exact Ee | lia |].
        intros r Hr Nr. rewrite Ac by exact Nr. apply (cp_old _ _ _ _ C). exact Hr.
  - (* the insufficient-funds branch *)
    intros hsF H2 _ WF SF FF L2 A2.
    destruct (later_facts H H2 hs0 hsF Rd k kp W0 R0 K FF L2 A2) as (RF & KF).
    rewrite <- (holds_cons true cB tr). rewrite <- Est0 in SF. rewrite <- SF.
    assert (Main : Post H2 hsF (holds ((true, cB) :: tr))
              (continue hsF (m_after_create ob 0 (Some (true, true, []))) (Some (true, true, [])) ((true, cB) :: tr) lg H2)
              (flat_map (KP kp lg) (contp (habs H2 hsF) (m_after_create ob 0 (Some (true, true, []))) (Some (true, true, [])))))
      by (apply Hcont; assumption).
    destruct cB; [exact Main | eapply Post_false_irrel; exact Main].
  - intros E. rewrite EcA in E. destruct (in_code st0 new_addr); [discriminate E|].
    unfold transfer_value. rewrite E. reflexivity.
  - intros E. rewrite E. reflexivity.
Qed.
(* STAGE6 *)
(* ------------------------------------------------------------------ the exploration of a script *)
Lemma Post_side : forall H hs h c res ex ex',
  Post H hs (c && h) res ex -> (h = true -> c = true /\ ex = ex') -> Post H hs h res ex'.
Proof.
  intros H hs h c res ex ex' P E. destruct h.
  - destruct (E eq_refl) as [-> ->]. exact P.
  - rewrite andb_false_r in P. eapply Post_false_irrel. exact P.
Qed.

Theorem hexec_post : forall feas s c hs ob l tr lg H k kp Rd,
  wf H hs -> RdOk Rd H hs -> Kspec Rd H k kp ->
  Post H hs (holds tr) (hexec feas s c hs ob l tr lg H k)
       (flat_map (KP kp lg) (mexec s c (habs H hs) ob l)).
Proof.
  intros feas. induction s; intros c hs ob l tr lg H k0 kp Rd W R K; cbn [hexec mexec].
  - (* SEnd *)
    rewrite KP_single. apply (Kspec_here Rd); auto.
  - (* SSstore *)
    destruct (sstore_static_check && c_static c).
    + rewrite KP_single. apply (Kspec_here Rd); auto.
    + destruct (step_own H hs (h_sstore H hs (c_this c) k v) Rd k0 kp) as (W' & R' & K' & Back); auto.
      * apply own_mut_len_sstore.
      * intros x Hx. apply own_mut_off_sstore. exact Hx.
      * apply Back. rewrite <- habs_sstore by exact W. eapply IHs; eassumption.
  - (* STstore *)
    destruct (sstore_static_check && c_static c).
    + rewrite KP_single. apply (Kspec_here Rd); auto.
    + destruct (step_own H hs (h_tstore H hs (c_this c) k v) Rd k0 kp) as (W' & R' & K' & Back); auto.
      * apply own_mut_len_tstore.
      * intros x Hx. apply own_mut_off_tstore. exact Hx.
      * apply Back. rewrite <- habs_tstore by exact W. eapply IHs; eassumption.
  - (* SLog *)
    destruct (log_static_check && c_static c).
    + rewrite KP_single. apply (Kspec_here Rd); auto.
    + rewrite KP_addlog. eapply IHs; eassumption.
  - (* SObserve *)
    eapply IHs; eassumption.
  - (* SRetCopy *)
    destruct (retcopy_guard size && retcopy_oob off size (blen (returndata l))).
    + rewrite KP_single. apply (Kspec_here Rd); auto.
    + destruct (retcopy_copy_guard size); eapply IHs; eassumption.
  - (* SIf: JUMPI on a word of the input *)
    remember (negb (cond =? 0)) as t eqn:Et.
    destruct (explore feas ((true, t) :: tr)) eqn:ET; destruct (explore feas ((false, negb t) :: tr)) eqn:EF; cbn [andb].
    + (* both sides followed: the false side first, on the current objects *)
      assert (E : flat_map (KP kp lg) (if cond =? 0 then mexec s2 c (habs H hs) ob l else mexec s1 c (habs H hs) ob l)
                  = (if negb t then flat_map (KP kp lg) (mexec s2 c (habs H hs) ob l) else [])
                    ++ (if t then flat_map (KP kp lg) (mexec s1 c (habs H hs) ob l) else [])).
      { subst t. destruct (cond =? 0); cbn [negb]; rewrite ?app_nil_r; reflexivity. }
      rewrite E. apply h_fork_post.
      * exact W.
      * intros X. discriminate X.
      * intros H1 L1 A1.
        destruct (ext_facts H H1 hs Rd k0 kp W R K L1 A1) as (W1 & S1 & R1 & K1).
        rewrite <- (holds_cons false (negb t) tr). rewrite <- S1. eapply IHs2; eassumption.
      * intros hsT H2 _ WT ST FT L2 A2.
        destruct (later_facts H H2 hs hsT Rd k0 kp W R K FT L2 A2) as (RT & KT).
        rewrite <- (holds_cons true t tr). rewrite <- ST. eapply IHs1; eassumption.
    + (* only the true side *)
      apply explore_false in EF. rewrite holds_cons in EF.
      apply (Post_side H hs (holds tr) t _ (flat_map (KP kp lg) (mexec s1 c (habs H hs) ob l))).
      * rewrite <- (holds_cons true t tr). eapply IHs1; eassumption.
      * intros Hh. rewrite Hh, andb_true_r in EF. apply negb_false_iff in EF. split; [exact EF|].
        subst t. destruct (cond =? 0); [discriminate EF | reflexivity].
    + (* only the false side *)
      apply explore_false in ET. rewrite holds_cons in ET.
      apply (Post_side H hs (holds tr) (negb t) _ (flat_map (KP kp lg) (mexec s2 c (habs H hs) ob l))).
      * rewrite <- (holds_cons false (negb t) tr). eapply IHs2; eassumption.
      * intros Hh. rewrite Hh, andb_true_r in ET. split; [rewrite ET; reflexivity|].
        subst t. destruct (cond =? 0); [reflexivity | discriminate ET].
    + (* neither: the prefix does not hold *)
      apply explore_false in ET. apply explore_false in EF. rewrite holds_cons in ET, EF.
      apply Post_skip. destruct (holds tr); [|reflexivity]. destruct t; cbn in ET, EF; congruence.
  - (* SExtCode *)
    eapply IHs; eassumption.
  - (* SCall *)
    apply (h_call_post feas kd to v rsz c hs ob tr lg H k0 kp Rd _ (fun c' st' => mexec s1 c' st' [] None)
             _ (fun st' ob' l' => mexec s2 c st' ob' l')); auto.
    + intros c' hs' tr' lg' H' k' kp' Rd' W' R' K'. eapply IHs1; eassumption.
    + intros hs' ob' l' tr' lg' H' W' R' K'. eapply IHs2; eassumption.
  - (* SCreate *)
    apply (h_create_post feas v initcode c hs ob tr lg H k0 kp Rd _ (fun c' st' => mexec s1 c' st' [] None)
             _ (fun st' ob' l' => mexec s2 c st' ob' l')); auto.
    + intros c' hs' tr' lg' H' k' kp' Rd' W' R' K'. eapply IHs1; eassumption.
    + intros hs' ob' l' tr' lg' H' W' R' K'. eapply IHs2; eassumption.
Qed.

(* ------------------------------------------------------------------ whole transactions *)
Definition kp_top : kpure := fun r st lg => [(r, st, lg)].

Lemma k_top_spec : forall H, Kspec [] H k_top kp_top.
Proof.
  intros H tr r hs lg H' L A W N. unfold k_top, kp_top, Post.
  split; [lia|]. split; [intros x _ _; reflexivity|]. split.
  - split; [|constructor; constructor].
    constructor; [|constructor]. split; [exact W | intros x Hx; left; exact Hx].
  - unfold out. cbn [filter holding]. destruct (holds tr); reflexivity.
Qed.

Lemma KP_top_id : forall ms, flat_map (KP kp_top []) ms = ms.
Proof. induction ms as [|[[r st] lg] ms IH]; cbn; [reflexivity|]. rewrite IH. reflexivity. Qed.

(* ISOLATION OF THE PATHS: whatever the feasibility oracle, the holding paths of the
   exploration, read out of the final heap, are exactly -- in number, order and content --
   the results of the state-passing model *)
Theorem explored_is_mframe : forall feas s c w ctr,
  explored feas s c w ctr = mframe s c (mstate_of w ctr).
Proof.
  intros feas s c w ctr. unfold explored, hframe, mframe.
  assert (W : wf (heap_of w) (hstate_of w ctr)).
  { constructor; cbn; lia. }
  pose proof (h_sub_frame_post c (hstate_of w ctr) [] [] (heap_of w)
                (fun c' hs' tr' lg' H' k' => hexec feas s c' hs' [] None tr' lg' H' k')
                (fun c' st' => mexec s c' st' [] None) k_top kp_top []) as P.
  destruct (h_sub_frame c (hstate_of w ctr) [] [] (heap_of w)
              (fun c' hs' tr' lg' H' k' => hexec feas s c' hs' [] None tr' lg' H' k') k_top) as [ps Hf].
  destruct P as (_ & _ & _ & O).
  - intros c' hs' tr' lg' H' k' kp' Rd' W' R' K'. eapply hexec_post; eassumption.
  - exact W.
  - intros x [].
  - apply k_top_spec.
  - cbn [holds forallb] in O. unfold out in O. rewrite O. rewrite KP_top_id.
    destruct w; reflexivity.
Qed.

(* every explored path (holding or not) ends with references to three distinct objects of the
   final heap, and no two explored paths hold an object in common *)
Theorem explored_paths_separate : forall feas s c w ctr ps Hf,
  hframe feas s c (hstate_of w ctr) (heap_of w) = (ps, Hf) ->
  Forall (fun p : hpath => let '(_, _, hs, _) := p in wf Hf hs) ps /\ ForallOrdPairs pdisj ps.
Proof.
  intros feas s c w ctr ps Hf E. unfold hframe in E.
  assert (W : wf (heap_of w) (hstate_of w ctr)).
  { constructor; cbn; lia. }
  pose proof (h_sub_frame_post c (hstate_of w ctr) [] [] (heap_of w)
                (fun c' hs' tr' lg' H' k' => hexec feas s c' hs' [] None tr' lg' H' k')
                (fun c' st' => mexec s c' st' [] None) k_top kp_top []) as P.
  rewrite E in P. destruct P as (_ & _ & [F D] & _).
  - intros c' hs' tr' lg' H' k' kp' Rd' W' R' K'. eapply hexec_post; eassumption.
  - exact W.
  - intros x [].
  - apply k_top_spec.
  - split; [|exact D]. eapply Forall_impl; [|exact F]. intros [[[tr r] hs] lg] [Wp _]. exact Wp.
Qed.

(* ------------------------------------------------------------------ statement shapes used by Props/C09.v *)


Theorem explored_refines : forall feas s c w ctr r ctr' lg,
  supported s = true -> c_depth c <= MAX_DEPTH ->
  sframe s c w ctr = (r, ctr', lg) ->
  explored feas s c w ctr <> [] /\
  Forall (fun m : mres => R m (r, ctr', lg)) (explored feas s c w ctr).
Proof.
  intros feas s c w ctr r ctr' lg Hsup Hd Hs. rewrite explored_is_mframe.
  apply mframe_refines_supported; assumption.
Qed.

Theorem explored_paths_separate_explicit : forall feas s c w ctr ps Hf,
  hframe feas s c (hstate_of w ctr) (heap_of w) = (ps, Hf) ->
  Forall (fun p : hpath =>
            let '(_, _, hs, _) := p in
            (h_code hs < length Hf)%nat /\ (h_storage hs < length Hf)%nat /\ (h_transient hs < length Hf)%nat /\
            h_code hs <> h_storage hs /\ h_code hs <> h_transient hs /\ h_storage hs <> h_transient hs) ps /\
  ForallOrdPairs
    (fun p q : hpath =>
       let '(_, _, hp, _) := p in
       let '(_, _, hq, _) := q in
       forall r, r = h_code hp \/ r = h_storage hp \/ r = h_transient hp ->
                 ~ (r = h_code hq \/ r = h_storage hq \/ r = h_transient hq)) ps.
Proof.
  intros feas s c w ctr ps Hf E. destruct (explored_paths_separate _ _ _ _ _ _ _ E) as [F D]. split.
  - eapply Forall_impl; [|exact F]. intros [[[tr r] hs] lg] []. repeat split; assumption.
  - exact D.
Qed.
