(* C09 -- proofs about the exploration model (Model/CallHeapModel.v): exploring ALL the paths
   of a script tree over ONE heap of shared, mutable objects, in the order of the LIFO
   worklist, reports -- for the paths that hold under the valuation at hand, read out of the
   FINAL heap -- exactly the results of the state-passing model (Model/CallModel.v), for
   every feasibility oracle.  The invariant: an Exec writes only to the objects it holds
   references to; the objects of a later-explored side of a fork, of a callback's backup
   and of a finished path are never among them. *)
From Coq Require Import ZArith List Bool Lia ZifyBool.
From HV Require Import Base.Word Spec.Evm Spec.CallSpec Gen.GenOpcodes Gen.GenConsts Gen.GenCallMsg
  Model.CallModel Model.CallHeapModel.
Import ListNotations.
Open Scope Z_scope.

(* ------------------------------------------------------------------ heaps *)
Lemma length_hupd : forall H r o, length (hupd H r o) = length H.
Proof. induction H as [|x H IH]; intros [|r] o; cbn; auto. Qed.
Lemma hget_hupd_same : forall H r o, (r < length H)%nat -> hget (hupd H r o) r = o.
Proof.
  unfold hget. induction H as [|x H IH]; intros [|r] o Hl; cbn in *; try lia; auto. apply IH. lia.
Qed.
Lemma hget_hupd_other : forall H r r' o, r <> r' -> hget (hupd H r o) r' = hget H r'.
Proof.
  unfold hget. induction H as [|x H IH]; intros [|r] [|r'] o Hn; cbn; auto; try congruence.
Qed.
Lemma hget_app_old : forall H X r, (r < length H)%nat -> hget (H ++ X) r = hget H r.
Proof. intros. unfold hget. apply app_nth1. auto. Qed.
Lemma hget_app_new : forall H o X, hget (H ++ o :: X) (length H) = o.
Proof. intros. unfold hget. rewrite app_nth2 by lia. rewrite Nat.sub_diag. reflexivity. Qed.

(* ------------------------------------------------------------------ who holds what *)
Record wf (H : heap) (hs : hstate) : Prop := mkWf {
  wf_c : (h_code hs < length H)%nat;
  wf_s : (h_storage hs < length H)%nat;
  wf_t : (h_transient hs < length H)%nat;
  wf_cs : h_code hs <> h_storage hs;
  wf_ct : h_code hs <> h_transient hs;
  wf_st : h_storage hs <> h_transient hs;
}.
Definition owns (hs : hstate) (r : nat) : Prop := r = h_code hs \/ r = h_storage hs \/ r = h_transient hs.
Definition notin (r : nat) (hs : hstate) : Prop := r <> h_code hs /\ r <> h_storage hs /\ r <> h_transient hs.

Lemma wf_grow : forall H H' hs, wf H hs -> (length H <= length H')%nat -> wf H' hs.
Proof. intros H H' hs [] Hl. constructor; auto; lia. Qed.

Lemma habs_agree : forall H H' hs,
  (forall r, owns hs r -> hget H' r = hget H r) -> habs H' hs = habs H hs.
Proof.
  intros H H' hs A. unfold habs.
  rewrite (A (h_code hs)), (A (h_storage hs)), (A (h_transient hs)); unfold owns; auto.
Qed.

(* the objects other than those of [hs] are as they were *)
Definition agree_off (H H1 : heap) (hs : hstate) : Prop :=
  forall r, (r < length H)%nat -> notin r hs -> hget H1 r = hget H r.
(* a reported path holds valid references, taken from [hs] or allocated since [H] *)
Definition path_ok (H H1 : heap) (hs : hstate) (p : hpath) : Prop :=
  let '(_, _, hs', _) := p in
  wf H1 hs' /\ forall r, owns hs' r -> owns hs r \/ (length H <= r)%nat.
(* the holding paths, read out of heap [H] *)
Definition out (H : heap) (ps : list hpath) : list mres := map (readout H) (filter holding ps).

(* what a piece of exploration started in heap [H] on the objects of [hs] guarantees; [h]:
   the path prefix holds under the valuation *)
Definition Post (H : heap) (hs : hstate) (h : bool) (res : list hpath * heap) (expected : list mres) : Prop :=
  let '(ps, H1) := res in
  (length H <= length H1)%nat /\ agree_off H H1 hs /\ Forall (path_ok H H1 hs) ps /\
  out H1 ps = (if h then expected else []).

Lemma out_app : forall H a b, out H (a ++ b) = out H a ++ out H b.
Proof. intros. unfold out. rewrite filter_app, map_app. reflexivity. Qed.

Lemma out_stable : forall H0 H1 H2 hs0 ps,
  Forall (path_ok H0 H1 hs0) ps ->
  (forall r, (r < length H1)%nat -> owns hs0 r \/ (length H0 <= r)%nat -> hget H2 r = hget H1 r) ->
  out H2 ps = out H1 ps.
Proof.
  intros H0 H1 H2 hs0 ps F A. unfold out.
  induction ps as [|p ps IH]; [reflexivity|].
  inversion F as [|? ? Hp F']; subst. cbn [filter].
  destruct (holding p); [|auto]. cbn [map]. rewrite IH by exact F'. f_equal.
  destruct p as [[[tr r] hs] lg]. cbn [readout]. f_equal. f_equal.
  destruct Hp as [W O]. apply habs_agree. intros x Hx. apply A.
  - destruct W. destruct Hx as [->|[->| ->]]; assumption.
  - apply O. exact Hx.
Qed.

Lemma notin_of : forall (H : heap) hs hs' r,
  (forall x, owns hs' x -> owns hs x \/ (length H <= x)%nat) ->
  (r < length H)%nat -> notin r hs -> notin r hs'.
Proof.
  intros H hs hs' r O Hr (N1 & N2 & N3). unfold notin, owns in *.
  repeat split; intros E;
    [ destruct (O (h_code hs') (or_introl eq_refl)) as [[X|[X|X]]|X]
    | destruct (O (h_storage hs') (or_intror (or_introl eq_refl))) as [[X|[X|X]]|X]
    | destruct (O (h_transient hs') (or_intror (or_intror eq_refl))) as [[X|[X|X]]|X] ];
    subst r; try congruence; lia.
Qed.

(* re-anchoring a guarantee at an earlier heap / another holder *)
Lemma Post_rebase : forall H hs H' hs' h res ex,
  Post H' hs' h res ex ->
  (length H <= length H')%nat ->
  (forall r, (r < length H)%nat -> notin r hs -> hget H' r = hget H r) ->
  (forall r, owns hs' r -> owns hs r \/ (length H <= r)%nat) ->
  Post H hs h res ex.
Proof.
  intros H hs H' hs' h [ps H1] ex (L & A & F & O) Hl Hag Hown. unfold Post.
  split; [lia|]. split; [|split; [|exact O]].
  - intros r Hr Hn. rewrite A; [apply Hag; auto | lia | eapply notin_of; eauto].
  - eapply Forall_impl; [|exact F]. intros [[[tr r] hs1] lg] [W Ow]. split; [exact W|].
    intros x Hx. destruct (Ow x Hx) as [X|X]; [apply Hown; exact X | right; lia].
Qed.

Lemma Post_skip : forall H hs h ex, h = false -> Post H hs h ([], H) ex.
Proof.
  intros H hs h ex ->. unfold Post. split; [lia|]. split; [intros r _ _; reflexivity|].
  split; [constructor | reflexivity].
Qed.

Lemma Post_skip_ext : forall H H' hs h ex, h = false ->
  (length H <= length H')%nat -> (forall r, (r < length H)%nat -> hget H' r = hget H r) ->
  Post H hs h ([], H') ex.
Proof.
  intros H H' hs h ex -> L A. unfold Post. split; [lia|]. split; [intros r Hr _; apply A; exact Hr|].
  split; [constructor | reflexivity].
Qed.

(* ------------------------------------------------------------------ copies *)
Lemma copy3_true : forall H src,
  (h_storage src < length H)%nat -> (h_transient src < length H)%nat ->
  copy3 true true true H src =
  (H ++ [hget H (h_code src); hget H (h_storage src); hget H (h_transient src)],
   mkH (length H) (S (length H)) (S (S (length H))) (h_balance src) (h_cnt src)).
Proof.
  intros H src Hs Ht. unfold copy3, take.
  rewrite !app_length. cbn [length]. rewrite !hget_app_old by (rewrite ?app_length; cbn [length]; lia).
  rewrite <- !app_assoc. cbn [app]. f_equal. f_equal; lia.
Qed.

Record copied (H : heap) (src : hstate) (H1 : heap) (cp : hstate) : Prop := mkCopied {
  cp_len : length H1 = (length H + 3)%nat;
  cp_old : forall r, (r < length H)%nat -> hget H1 r = hget H r;
  cp_wf : wf H1 cp;
  cp_fresh : forall r, owns cp r -> (length H <= r)%nat;
  cp_c : hget H1 (h_code cp) = hget H (h_code src);
  cp_s : hget H1 (h_storage cp) = hget H (h_storage src);
  cp_t : hget H1 (h_transient cp) = hget H (h_transient src);
  cp_bal : h_balance cp = h_balance src;
  cp_cnt : h_cnt cp = h_cnt src;
}.

Lemma copy3_copied : forall H src H1 cp,
  (h_storage src < length H)%nat -> (h_transient src < length H)%nat ->
  copy3 true true true H src = (H1, cp) -> copied H src H1 cp.
Proof.
  intros H src H1 cp Hs Ht E. rewrite copy3_true in E by assumption. inversion E; subst. clear E.
  constructor; cbn [h_code h_storage h_transient h_balance h_cnt].
  - rewrite app_length. reflexivity.
  - intros r Hr. apply hget_app_old. exact Hr.
  - constructor; cbn [h_code h_storage h_transient]; rewrite ?app_length; cbn [length]; lia.
  - intros r [->|[->| ->]]; cbn; lia.
  - apply hget_app_new.
  - change (H ++ [hget H (h_code src); hget H (h_storage src); hget H (h_transient src)])
      with (H ++ [hget H (h_code src)] ++ [hget H (h_storage src); hget H (h_transient src)]).
    rewrite app_assoc.
    replace (S (length H)) with (length (H ++ [hget H (h_code src)])) by (rewrite app_length; cbn; lia).
    apply hget_app_new.
  - change (H ++ [hget H (h_code src); hget H (h_storage src); hget H (h_transient src)])
      with (H ++ [hget H (h_code src); hget H (h_storage src)] ++ [hget H (h_transient src)]).
    rewrite app_assoc.
    replace (S (S (length H))) with (length (H ++ [hget H (h_code src); hget H (h_storage src)])) by (rewrite app_length; cbn; lia).
    apply hget_app_new.
  - reflexivity.
  - reflexivity.
Qed.

Lemma copied_habs : forall H src H1 cp, copied H src H1 cp -> habs H1 cp = habs H src.
Proof. intros H src H1 cp []. unfold habs. congruence. Qed.

Lemma branch_copy_copied : forall H hs H1 hsB, wf H hs -> branch_copy H hs = (H1, hsB) -> copied H hs H1 hsB.
Proof. intros H hs H1 hsB [] E. apply copy3_copied; auto. Qed.

(* ------------------------------------------------------------------ forks *)
Lemma h_fork_post : forall H hs h eB runA runB cA cB expA expB,
  wf H hs ->
  (eB = false -> cB && h = false) ->
  (forall H1, (length H <= length H1)%nat -> (forall r, (r < length H)%nat -> hget H1 r = hget H r) ->
     Post H1 hs (cA && h) (runA H1) expA) ->
  (forall hsB H2, eB = true -> wf H2 hsB -> habs H2 hsB = habs H hs ->
     (forall r, owns hsB r -> (length H <= r)%nat) ->
     (length H <= length H2)%nat -> agree_off H H2 hs ->
     Post H2 hsB (cB && h) (runB hsB H2) expB) ->
  Post H hs h (h_fork H hs eB runA runB) ((if cA then expA else []) ++ (if cB then expB else [])).
Proof.
  intros H hs h eB runA runB cA cB expA expB W HeB HA HB. unfold h_fork.
  destruct eB.
  - destruct (branch_copy H hs) as [H1 hsB] eqn:Ebc.
    pose proof (branch_copy_copied _ _ _ _ W Ebc) as C.
    assert (L1 : (length H <= length H1)%nat) by (rewrite (cp_len _ _ _ _ C); lia).
    specialize (HA H1 L1 (cp_old _ _ _ _ C)).
    destruct (runA H1) as [pA H2]. destruct HA as (LA & AA & FA & OA).
    assert (AG : agree_off H H2 hs).
    { intros r Hr Hn. rewrite AA by (auto; lia). apply (cp_old _ _ _ _ C). exact Hr. }
    assert (NB : forall r, owns hs r \/ (length H1 <= r)%nat -> notin r hsB).
    { intros r Hor. pose proof (cp_fresh _ _ _ _ C) as Fr. destruct (cp_wf _ _ _ _ C). destruct W.
      pose proof (Fr (h_code hsB) (or_introl eq_refl)).
      pose proof (Fr (h_storage hsB) (or_intror (or_introl eq_refl))).
      pose proof (Fr (h_transient hsB) (or_intror (or_intror eq_refl))).
      unfold notin. destruct Hor as [[X|[X|X]]|X]; repeat split; lia. }
    assert (WB : wf H2 hsB) by (eapply wf_grow; [apply (cp_wf _ _ _ _ C) | lia]).
    assert (SB : habs H2 hsB = habs H hs).
    { rewrite <- (copied_habs _ _ _ _ C). apply habs_agree. intros r Hr. apply AA.
      - destruct (cp_wf _ _ _ _ C). destruct Hr as [->|[->| ->]]; assumption.
      - pose proof (cp_fresh _ _ _ _ C r Hr). destruct W. unfold notin. repeat split; lia. }
    specialize (HB hsB H2 eq_refl WB SB (cp_fresh _ _ _ _ C) ltac:(lia) AG).
    destruct (runB hsB H2) as [pB H3]. destruct HB as (LB & AB & FB & OB).
    unfold Post. split; [lia|]. split; [|split].
    + intros r Hr Hn. rewrite AB.
      * apply AG; auto.
      * lia.
      * pose proof (cp_fresh _ _ _ _ C) as Fr. unfold notin.
        repeat split; intros E; subst r;
          match goal with
          | _ : (?a < _)%nat |- _ => pose proof (Fr a ltac:(unfold owns; auto)); lia
          end.
    + apply Forall_app. split.
      * eapply Forall_impl; [|exact FA]. intros [[[tr r] hs1] lg] [W1 O1]. split.
        -- eapply wf_grow; [exact W1 | lia].
        -- intros x Hx. destruct (O1 x Hx) as [X|X]; [left; exact X | right; lia].
      * eapply Forall_impl; [|exact FB]. intros [[[tr r] hs1] lg] [W1 O1]. split; [exact W1|].
        intros x Hx. destruct (O1 x Hx) as [X|X]; [right; apply (cp_fresh _ _ _ _ C); exact X | right; lia].
    + rewrite out_app, OB.
      rewrite (out_stable H1 H2 H3 hs pA FA).
      * rewrite OA. destruct h, cA, cB; cbn; rewrite ?app_nil_r; reflexivity.
      * intros r Hr Hor. apply AB; [exact Hr | apply NB; assumption].
  - specialize (HeB eq_refl).
    specialize (HA H ltac:(lia) ltac:(auto)).
    destruct (runA H) as [pA H2]. destruct HA as (LA & AA & FA & OA).
    unfold Post. split; [lia|]. split; [exact AA|]. split.
    + rewrite app_nil_r. exact FA.
    + rewrite app_nil_r, OA. destruct h, cA, cB; cbn in *; rewrite ?app_nil_r; try reflexivity; discriminate.
Qed.

(* ------------------------------------------------------------------ continuations *)
(* objects a continuation reads when it is invoked (the backups captured by the callback
   closures): allocated, and not held by the running Exec *)
Definition RdOk (Rd : list nat) (H : heap) (hs : hstate) : Prop :=
  forall x, In x Rd -> (x < length H)%nat /\ notin x hs.

Definition kpure := fres -> mstate -> list logitem -> list mres.

(* [k] invoked later, in any heap in which the objects [Rd] still have the content they
   have in [H0], on any state not holding them, behaves as the state-passing [kp] *)
Definition Kspec (Rd : list nat) (H0 : heap) (k : hk) (kp : kpure) : Prop :=
  forall tr r hs lg H,
    (length H0 <= length H)%nat -> (forall x, In x Rd -> hget H x = hget H0 x) ->
    wf H hs -> (forall x, In x Rd -> notin x hs) ->
    Post H hs (holds tr) (k tr r hs lg H) (kp r (habs H hs) lg).

Lemma Kspec_mono : forall Rd H0 H1 k kp,
  Kspec Rd H0 k kp -> (length H0 <= length H1)%nat ->
  (forall x, In x Rd -> hget H1 x = hget H0 x) -> Kspec Rd H1 k kp.
Proof.
  intros Rd H0 H1 k kp K L A tr r hs lg H L' A' W N. apply K; auto; [lia|].
  intros x Hx. rewrite A', A; auto.
Qed.

Lemma Kspec_here : forall Rd H k kp tr r hs lg,
  Kspec Rd H k kp -> wf H hs -> RdOk Rd H hs ->
  Post H hs (holds tr) (k tr r hs lg H) (kp r (habs H hs) lg).
Proof. intros Rd H k kp tr r hs lg K W R. apply K; auto. intros x Hx. apply R; auto. Qed.

Definition KP (kp : kpure) (lg : list logitem) (m : mres) : list mres :=
  let '(r, st, lg') := m in kp r st (lg ++ lg').

Lemma flat_map_flat_map : forall (A B C : Type) (f : B -> list C) (g : A -> list B) l,
  flat_map f (flat_map g l) = flat_map (fun x => flat_map f (g x)) l.
Proof. induction l as [|a l IH]; cbn; [reflexivity|]. rewrite flat_map_app, IH. reflexivity. Qed.
Lemma KP_addlog : forall kp lg pre ms,
  flat_map (KP kp lg) (map (addlog pre) ms) = flat_map (KP kp (lg ++ pre)) ms.
Proof.
  induction ms as [|[[r st] l] ms IH]; cbn; [reflexivity|]. rewrite IH, app_assoc. reflexivity.
Qed.
Lemma KP_single : forall kp lg r st l, flat_map (KP kp lg) [(r, st, l)] = kp r st (lg ++ l).
Proof. intros. cbn. apply app_nil_r. Qed.

(* going on after the running Exec mutated (only) its own objects *)
Lemma step_own : forall H hs H' Rd k kp,
  length H' = length H -> (forall r, notin r hs -> hget H' r = hget H r) ->
  wf H hs -> RdOk Rd H hs -> Kspec Rd H k kp ->
  wf H' hs /\ RdOk Rd H' hs /\ Kspec Rd H' k kp /\
  forall h res ex, Post H' hs h res ex -> Post H hs h res ex.
Proof.
  intros H hs H' Rd k kp L A W R K.
  split; [eapply wf_grow; eauto; lia|].
  split; [intros x Hx; destruct (R x Hx); split; [lia | auto]|].
  split.
  - eapply Kspec_mono; eauto; [lia|]. intros x Hx. apply A. apply R. exact Hx.
  - intros h res ex P. apply (Post_rebase H hs H' hs h res ex P); [lia | | auto].
    intros r Hr Hn. apply A. exact Hn.
Qed.

(* ------------------------------------------------------------------ mutations seen through habs *)
Lemma habs_sstore : forall H hs a k v, wf H hs ->
  habs (h_sstore H hs a k v) hs = m_sstore (habs H hs) a k v.
Proof.
  intros H hs a k v []. unfold habs, h_sstore, m_sstore. cbn [m_code m_storage m_transient m_balance m_cnt].
  rewrite hget_hupd_same by assumption. rewrite !hget_hupd_other by congruence. reflexivity.
Qed.
Lemma habs_tstore : forall H hs a k v, wf H hs ->
  habs (h_tstore H hs a k v) hs = m_tstore (habs H hs) a k v.
Proof.
  intros H hs a k v []. unfold habs, h_tstore, m_tstore. cbn [m_code m_storage m_transient m_balance m_cnt].
  rewrite hget_hupd_same by assumption. rewrite !hget_hupd_other by congruence. reflexivity.
Qed.
Lemma habs_set_code : forall H hs a c, wf H hs ->
  habs (h_set_code H hs a c) hs = m_set_code (habs H hs) a c.
Proof.
  intros H hs a c []. unfold habs, h_set_code, m_set_code. cbn [m_code m_storage m_transient m_balance m_cnt].
  rewrite hget_hupd_same by assumption. rewrite !hget_hupd_other by congruence. reflexivity.
Qed.
Lemma habs_new_account : forall H hs a, wf H hs ->
  habs (h_new_account H hs a) hs = m_new_account (habs H hs) a.
Proof.
  intros H hs a []. unfold habs, h_new_account, h_set_code, m_new_account.
  cbn [m_code m_storage m_transient m_balance m_cnt].
  repeat first [ rewrite hget_hupd_same by (rewrite ?length_hupd; assumption)
               | rewrite hget_hupd_other by congruence ].
  reflexivity.
Qed.

Lemma own_mut_len_sstore : forall H hs a k v, length (h_sstore H hs a k v) = length H.
Proof. intros. apply length_hupd. Qed.
Lemma own_mut_len_tstore : forall H hs a k v, length (h_tstore H hs a k v) = length H.
Proof. intros. apply length_hupd. Qed.
Lemma own_mut_len_set_code : forall H hs a c, length (h_set_code H hs a c) = length H.
Proof. intros. apply length_hupd. Qed.
Lemma own_mut_len_new_account : forall H hs a, length (h_new_account H hs a) = length H.
Proof. intros. unfold h_new_account, h_set_code. rewrite !length_hupd. reflexivity. Qed.

Lemma own_mut_off_sstore : forall H hs a k v r, notin r hs -> hget (h_sstore H hs a k v) r = hget H r.
Proof. intros H hs a k v r (N1 & N2 & N3). apply hget_hupd_other. congruence. Qed.
Lemma own_mut_off_tstore : forall H hs a k v r, notin r hs -> hget (h_tstore H hs a k v) r = hget H r.
Proof. intros H hs a k v r (N1 & N2 & N3). apply hget_hupd_other. congruence. Qed.
Lemma own_mut_off_set_code : forall H hs a c r, notin r hs -> hget (h_set_code H hs a c) r = hget H r.
Proof. intros H hs a c r (N1 & N2 & N3). apply hget_hupd_other. congruence. Qed.
Lemma own_mut_off_new_account : forall H hs a r, notin r hs -> hget (h_new_account H hs a) r = hget H r.
Proof.
  intros H hs a r (N1 & N2 & N3). unfold h_new_account, h_set_code.
  rewrite !hget_hupd_other by congruence. reflexivity.
Qed.

Lemma habs_values : forall H hs st',
  m_code st' = m_code (habs H hs) -> m_storage st' = m_storage (habs H hs) ->
  m_transient st' = m_transient (habs H hs) -> habs H (h_values hs st') = st'.
Proof. intros H hs [c s t b n] E1 E2 E3. cbn in *. subst. reflexivity. Qed.
Lemma transfer_force_frame : forall st a b v,
  m_code (transfer_force st a b v) = m_code st /\ m_storage (transfer_force st a b v) = m_storage st /\
  m_transient (transfer_force st a b v) = m_transient st /\ m_cnt (transfer_force st a b v) = m_cnt st.
Proof. intros. unfold transfer_force. destruct (v =? 0); cbn; auto. Qed.
Lemma send_force_frame : forall op st a b v,
  m_code (send_force op st a b v) = m_code st /\ m_storage (send_force op st a b v) = m_storage st /\
  m_transient (send_force op st a b v) = m_transient st /\ m_cnt (send_force op st a b v) = m_cnt st.
Proof. intros. unfold send_force. destruct (sends_value op); [apply transfer_force_frame | auto]. Qed.
Lemma habs_send : forall H hs op a b v,
  habs H (h_values hs (send_force op (habs H hs) a b v)) = send_force op (habs H hs) a b v.
Proof. intros. destruct (send_force_frame op (habs H hs) a b v) as (E1 & E2 & E3 & _). apply habs_values; assumption. Qed.
Lemma habs_transfer : forall H hs a b v,
  habs H (h_values hs (transfer_force (habs H hs) a b v)) = transfer_force (habs H hs) a b v.
Proof. intros. destruct (transfer_force_frame (habs H hs) a b v) as (E1 & E2 & E3 & _). apply habs_values; assumption. Qed.

Lemma holds_cons : forall s c tr, holds ((s, c) :: tr) = c && holds tr.
Proof. reflexivity. Qed.

(* ------------------------------------------------------------------ frames *)
Definition run_hyp (run : hrun) (runp : fctx -> mstate -> list mres) : Prop :=
  forall c hs tr lg H k kp Rd, wf H hs -> RdOk Rd H hs -> Kspec Rd H k kp ->
    Post H hs (holds tr) (run c hs tr lg H k) (flat_map (KP kp lg) (runp c (habs H hs))).
Definition cont_hyp_h (k : hk) (kp : kpure) (Rd : list nat) (continue : hcont)
    (contp : mstate -> list Z -> lastsub -> list mres) : Prop :=
  forall hs ob l tr lg H, wf H hs -> RdOk Rd H hs -> Kspec Rd H k kp ->
    Post H hs (holds tr) (continue hs ob l tr lg H) (flat_map (KP kp lg) (contp (habs H hs) ob l)).

Lemma h_sub_frame_post : forall msg hs tr lg H run runp k kp Rd,
  run_hyp run runp -> wf H hs -> RdOk Rd H hs -> Kspec Rd H k kp ->
  Post H hs (holds tr) (h_sub_frame msg hs tr lg H run k)
       (flat_map (KP kp lg) (sub_frame msg (habs H hs) runp)).
Proof.
  intros msg hs tr lg H run runp k kp Rd Hr W R K. unfold h_sub_frame, sub_frame.
  destruct (depth_exceeded (c_depth msg)).
  - rewrite KP_single, app_nil_r. apply (Kspec_here Rd); auto.
  - destruct (c_code msg).
    + rewrite KP_single. apply (Kspec_here Rd); auto.
    + rewrite KP_addlog. apply (Hr _ _ _ _ _ _ _ Rd); auto.
Qed.
(* STAGE3 *)
(* ------------------------------------------------------------------ backups and restores *)
Lemma snapshot_call_copied : forall H hs H1 snap,
  wf H hs -> snapshot_call H hs = (H1, snap) -> copied H hs H1 snap.
Proof. intros H hs H1 snap [] E. apply copy3_copied; auto. Qed.
Lemma snapshot_create_copied : forall H hs H1 snap,
  wf H hs -> snapshot_create H hs = (H1, snap) -> copied H hs H1 snap.
Proof. intros H hs H1 snap [] E. apply copy3_copied; auto. Qed.

Lemma restore_call_spec : forall snap ob H2 hs2 H3 hs3,
  (h_storage snap < length H2)%nat -> (h_transient snap < length H2)%nat ->
  restore_call_h snap ob H2 hs2 = (H3, hs3) ->
  (length H2 <= length H3)%nat /\ (forall r, (r < length H2)%nat -> hget H3 r = hget H2 r) /\
  wf H3 hs3 /\ (forall r, owns hs3 r -> (length H2 <= r)%nat) /\
  habs H3 hs3 = mkM (fst (hget H2 (h_code snap))) (snd (hget H2 (h_storage snap)))
                    (snd (hget H2 (h_transient snap))) ob (h_cnt hs2).
Proof.
  intros snap ob H2 hs2 H3 hs3 Hs Ht E. unfold restore_call_h in E.
  destruct (copy3 call_restore_copies_code call_restore_copies_storage call_restore_copies_transient_storage H2 snap)
    as [H1 cp] eqn:Ec.
  apply copy3_copied in Ec; [|assumption|assumption].
  unfold call_restores_code, call_restores_storage, call_restores_transient_storage, call_restores_balance in E.
  inversion E; subst. clear E. destruct Ec.
  split; [lia|]. split; [assumption|]. split.
  - destruct cp_wf0. constructor; assumption.
  - split.
    + intros r Hr. apply cp_fresh0. exact Hr.
    + unfold habs. cbn [h_code h_storage h_transient h_balance h_cnt]. congruence.
Qed.

Lemma restore_create_spec : forall snap H2 hs2 H3 hs3,
  (h_storage snap < length H2)%nat -> (h_transient snap < length H2)%nat ->
  restore_create_h snap H2 hs2 = (H3, hs3) ->
  (length H2 <= length H3)%nat /\ (forall r, (r < length H2)%nat -> hget H3 r = hget H2 r) /\
  wf H3 hs3 /\ (forall r, owns hs3 r -> (length H2 <= r)%nat) /\
  habs H3 hs3 = mkM (fst (hget H2 (h_code snap))) (snd (hget H2 (h_storage snap)))
                    (snd (hget H2 (h_transient snap))) (h_balance snap) (h_cnt hs2).
Proof.
  intros snap H2 hs2 H3 hs3 Hs Ht E. unfold restore_create_h in E.
  destruct (copy3 create_restore_copies_code create_restore_copies_storage create_restore_copies_transient_storage H2 snap)
    as [H1 cp] eqn:Ec.
  apply copy3_copied in Ec; [|assumption|assumption].
  unfold create_restores_code, create_restores_storage, create_restores_transient_storage, create_restores_balance in E.
  inversion E; subst. clear E. destruct Ec.
  split; [lia|]. split; [assumption|]. split.
  - destruct cp_wf0. constructor; assumption.
  - split.
    + intros r Hr. apply cp_fresh0. exact Hr.
    + unfold habs. cbn [h_code h_storage h_transient h_balance h_cnt]. congruence.
Qed.

(* ------------------------------------------------------------------ SEVM.call *)
Section CallPost.
Variables (ob : list Z) (rsz : Z) (k : hk) (kp : kpure) (Rd : list nat)
          (continue : hcont) (contp : mstate -> list Z -> lastsub -> list mres).
Hypothesis Hcont : cont_hyp_h k kp Rd continue contp.

(* state-passing counterpart of the callback *)
Definition cbp_call (orig : mstate) : kpure :=
  fun r st2 lg2 =>
    let '(data, has_error) := output_of r in
    flat_map (KP kp lg2)
      (contp (if call_success has_error then st2 else restore_call orig st2)
             (m_after_call ob (if call_success has_error then 1 else 0) (Some (false, has_error, data)) rsz data)
             (Some (false, has_error, data))).

(* the callback, whenever it is invoked: the backup objects [snap] still hold what the
   caller's objects held when the backup was taken, nobody else holds them *)
Lemma call_back_spec : forall H0 hs0 H1a snap,
  wf H0 hs0 -> RdOk Rd H0 hs0 -> Kspec Rd H0 k kp -> copied H0 hs0 H1a snap ->
  Kspec ([h_code snap; h_storage snap; h_transient snap] ++ Rd) H1a
        (h_call_back continue ob rsz snap (h_balance hs0)) (cbp_call (habs H0 hs0)).
Proof.
  intros H0 hs0 H1a snap W R K C tr2 r hs2 lg2 H2 L A W2 N.
  unfold h_call_back, cbp_call. destruct (output_of r) as [data has_error].
  assert (RdIn : forall x, In x Rd -> In x ([h_code snap; h_storage snap; h_transient snap] ++ Rd)).
  { intros x Hx. apply in_or_app. right. exact Hx. }
  assert (L01 : (length H0 <= length H1a)%nat) by (rewrite (cp_len _ _ _ _ C); lia).
  assert (ARd : forall x, In x Rd -> hget H2 x = hget H0 x).
  { intros x Hx. rewrite A by (apply RdIn; exact Hx). apply (cp_old _ _ _ _ C). apply R. exact Hx. }
  unfold call_success. destruct has_error; cbn [negb].
  - (* the sub-frame failed: restore *)
    destruct (restore_call_h snap (h_balance hs0) H2 hs2) as [H3 hs3] eqn:Er.
    destruct (cp_wf _ _ _ _ C) as [Sc Ss St _ _ _].
    apply restore_call_spec in Er as (L3 & A3 & W3 & F3 & S3); [|lia|lia].
    apply (Post_rebase H2 hs2 H3 hs3); [| lia | intros x Hx _; apply A3; exact Hx | intros x Hx; right; apply F3; exact Hx].
    replace (restore_call (habs H0 hs0) (habs H2 hs2)) with (habs H3 hs3).
    + apply Hcont; [exact W3| |].
      * intros x Hx. destruct (R x Hx) as [Lx _]. split; [lia|].
        pose proof (F3 (h_code hs3) (or_introl eq_refl)).
        pose proof (F3 (h_storage hs3) (or_intror (or_introl eq_refl))).
        pose proof (F3 (h_transient hs3) (or_intror (or_intror eq_refl))).
        unfold notin. repeat split; lia.
      * eapply Kspec_mono; [exact K | lia |]. intros x Hx. rewrite A3 by (destruct (R x Hx); lia). apply ARd. exact Hx.
    + rewrite S3. unfold restore_call, call_restores_code, call_restores_storage, call_restores_transient_storage, call_restores_balance.
      rewrite !A by (cbn; auto). rewrite (cp_c _ _ _ _ C), (cp_s _ _ _ _ C), (cp_t _ _ _ _ C). reflexivity.
  - (* success: go on with the objects of the sub-frame *)
    apply Hcont; [exact W2| |].
    + intros x Hx. destruct (R x Hx) as [Lx _]. split; [lia|]. apply N. apply RdIn. exact Hx.
    + eapply Kspec_mono; [exact K | lia | exact ARd].
Qed.
End CallPost.
(* STAGE4 *)
Lemma h_fork_post' : forall H hs h eB runA runB cA cB expA expB,
  wf H hs ->
  (eB = false -> cB && h = false) ->
  (forall H1, (length H <= length H1)%nat -> (forall r, (r < length H)%nat -> hget H1 r = hget H r) ->
     Post H1 hs (cA && h) (runA H1) expA) ->
  (forall hsB H2, eB = true -> wf H2 hsB -> habs H2 hsB = habs H hs ->
     (forall r, owns hsB r -> (length H <= r)%nat) ->
     (length H <= length H2)%nat -> agree_off H H2 hs ->
     Post H2 hsB (cB && h) (runB hsB H2) expB) ->
  (cA = false -> expA = []) -> (cB = false -> expB = []) ->
  Post H hs h (h_fork H hs eB runA runB) (expA ++ expB).
Proof.
  intros H hs h eB runA runB cA cB expA expB W HeB HA HB EA EB.
  assert (E : expA ++ expB = (if cA then expA else []) ++ (if cB then expB else [])).
  { destruct cA, cB; rewrite ?EA, ?EB by reflexivity; reflexivity. }
  rewrite E. apply h_fork_post; assumption.
Qed.

Lemma explore_false : forall feas tr, explore feas tr = false -> holds tr = false.
Proof. intros feas tr E. unfold explore in E. apply orb_false_elim in E. tauto. Qed.

Lemma Post_false_irrel : forall H hs res ex ex', Post H hs false res ex -> Post H hs false res ex'.
Proof. intros H hs [ps H1] ex ex' P. exact P. Qed.

(* what carries over to an extension of the heap in which the old objects are untouched *)
Lemma ext_facts : forall H H1 hs Rd k kp,
  wf H hs -> RdOk Rd H hs -> Kspec Rd H k kp ->
  (length H <= length H1)%nat -> (forall r, (r < length H)%nat -> hget H1 r = hget H r) ->
  wf H1 hs /\ habs H1 hs = habs H hs /\ RdOk Rd H1 hs /\ Kspec Rd H1 k kp.
Proof.
  intros H H1 hs Rd k kp W R K L A.
  split; [eapply wf_grow; eauto|]. split; [|split].
  - apply habs_agree. intros r Hr. apply A. destruct W. destruct Hr as [->|[->| ->]]; assumption.
  - intros x Hx. destruct (R x Hx). split; [lia|auto].
  - eapply Kspec_mono; eauto. intros x Hx. apply A. apply R. exact Hx.
Qed.

(* ... and to the heap in which a later-explored side of a fork starts *)
Lemma later_facts : forall H H2 hs hsB Rd k kp,
  wf H hs -> RdOk Rd H hs -> Kspec Rd H k kp ->
  (forall r, owns hsB r -> (length H <= r)%nat) ->
  (length H <= length H2)%nat -> agree_off H H2 hs ->
  RdOk Rd H2 hsB /\ Kspec Rd H2 k kp.
Proof.
  intros H H2 hs hsB Rd k kp W R K F L A. split.
  - intros x Hx. destruct (R x Hx) as [Lx Nx]. split; [lia|].
    pose proof (F (h_code hsB) (or_introl eq_refl)).
    pose proof (F (h_storage hsB) (or_intror (or_introl eq_refl))).
    pose proof (F (h_transient hsB) (or_intror (or_intror eq_refl))).
    unfold notin. repeat split; lia.
  - eapply Kspec_mono; eauto. intros x Hx. destruct (R x Hx). apply A; auto.
Qed.

Lemma h_call_post : forall feas kd to0 v0 rsz c hs ob tr lg H k kp Rd run runp continue contp,
  run_hyp run runp -> cont_hyp_h k kp Rd continue contp ->
  wf H hs -> RdOk Rd H hs -> Kspec Rd H k kp ->
  Post H hs (holds tr) (h_call feas kd to0 v0 rsz c hs ob tr lg H k run continue)
       (flat_map (KP kp lg) (m_call kd to0 v0 rsz c (habs H hs) ob runp contp)).
Proof.
  intros feas kd to0 v0 rsz c hs ob tr lg H k kp Rd run runp continue contp Hrun Hcont W R K.
  unfold h_call, m_call, send_callvalue. cbv zeta.
  remember (habs H hs) as st eqn:Est.
  remember (op_of kd) as op eqn:Eop.
  remember (to0 mod 2 ^ 160) as to eqn:Eto.
  remember (call_fund op v0) as fund eqn:Efund.
  destruct (call_static_value_check op (c_static c) fund).
  { rewrite KP_single. subst st. apply (Kspec_here Rd); auto. }
  rewrite flat_map_app.
  remember (negb (fund =? 0) && insufficient (balance_of st (c_this c)) fund) as cB eqn:EcB.
  remember (send_cond op st (c_this c) fund) as cA eqn:EcA.
  match goal with
  | |- context [mkCtx ?a ?b ?d ?e ?f ?g ?h] => remember (mkCtx a b d e f g h) as msg eqn:Emsg
  end.
  apply h_fork_post' with (cA := cA) (cB := cB).
  - exact W.
  - intros E. apply explore_false in E. rewrite holds_cons in E. exact E.
  - (* the main path, explored first *)
    intros H1 L1 A1.
    destruct (ext_facts H H1 hs Rd k kp W R K L1 A1) as (W1 & S1 & R1 & K1).
    rewrite <- Est in S1.
    rewrite <- (holds_cons false cA tr).
    destruct (in_code st to).
    + destruct (snapshot_call H1 hs) as [H1a snap] eqn:Es.
      pose proof (snapshot_call_copied _ _ _ _ W1 Es) as C.
      destruct (explore feas ((false, cA) :: tr)) eqn:Ee.
      * unfold call_backup_before_transfer. cbv iota.
        remember (send_force op st (c_this c) to fund) as st1 eqn:Est1.
        assert (Main : Post H1 hs (holds ((false, cA) :: tr))
                  (h_sub_frame msg (h_values hs st1) ((false, cA) :: tr) lg H1a run
                     (h_call_back continue ob rsz snap (h_balance hs)))
                  (flat_map (KP kp lg)
                     (flat_map
                        (fun sub : mres =>
                           let '(r, st2, lg0) := sub in
                           let '(data, has_error) := output_of r in
                           map (addlog lg0)
                             (contp (if call_success has_error then st2 else restore_call st st2)
                                (m_after_call ob (if call_success has_error then 1 else 0)
                                   (Some (false, has_error, data)) rsz data)
                                (Some (false, has_error, data))))
                        (sub_frame msg st1 runp)))).
        { assert (L1a : (length H1 <= length H1a)%nat) by (rewrite (cp_len _ _ _ _ C); lia).
          apply (Post_rebase H1 hs H1a (h_values hs st1));
            [| exact L1a | intros x Hx _; apply (cp_old _ _ _ _ C); exact Hx | intros x Hx; left; exact Hx].
          rewrite flat_map_flat_map.
          rewrite (flat_map_ext _ (KP (cbp_call ob rsz kp contp st) lg)).
          2:{ intros [[r st2] lg0]. change (KP (cbp_call ob rsz kp contp st) lg (r, st2, lg0)) with (cbp_call ob rsz kp contp st r st2 (lg ++ lg0)). unfold cbp_call. destruct (output_of r) as [data he].
              rewrite KP_addlog. reflexivity. }
          assert (S1a : habs H1a (h_values hs st1) = st1).
          { subst st1 st. rewrite <- S1 at 1.
            replace (habs H1a (h_values hs (send_force op (habs H1 hs) (c_this c) to fund)))
              with (habs H1 (h_values hs (send_force op (habs H1 hs) (c_this c) to fund))).
            - rewrite habs_send. rewrite S1. reflexivity.
            - symmetry. apply habs_agree. intros x Hx. apply (cp_old _ _ _ _ C).
              destruct W1. destruct Hx as [->|[->| ->]]; assumption. }
          pose proof (h_sub_frame_post msg (h_values hs st1) ((false, cA) :: tr) lg H1a run runp
                   (h_call_back continue ob rsz snap (h_balance hs)) (cbp_call ob rsz kp contp st)
                   ([h_code snap; h_storage snap; h_transient snap] ++ Rd)) as P.
          rewrite S1a in P. apply P; clear P.
          - exact Hrun.
          - eapply wf_grow; [|exact L1a]. destruct W1. constructor; assumption.
          - intros x Hx. apply in_app_or in Hx as [Hx|Hx].
            + destruct (cp_wf _ _ _ _ C) as [Sc Ss St _ _ _].
              pose proof (cp_fresh _ _ _ _ C) as Fr.
              pose proof (Fr (h_code snap) (or_introl eq_refl)).
              pose proof (Fr (h_storage snap) (or_intror (or_introl eq_refl))).
              pose proof (Fr (h_transient snap) (or_intror (or_intror eq_refl))).
              destruct W1. unfold notin. cbn [h_values h_code h_storage h_transient].
              cbn in Hx. destruct Hx as [<-|[<-|[<-|[]]]]; (split; [assumption | repeat split; lia]).
            + destruct (R1 x Hx) as [Lx Nx]. split; [lia | exact Nx].
          - rewrite <- S1. exact (call_back_spec ob rsz k kp Rd continue contp Hcont H1 hs H1a snap W1 R1 K1 C). }
        destruct cA.
        -- exact Main.
        -- eapply Post_false_irrel. exact Main.
      * apply Post_skip_ext; [apply explore_false in Ee; exact Ee | rewrite (cp_len _ _ _ _ C); lia | apply (cp_old _ _ _ _ C)].
    + destruct (explore feas ((false, cA) :: tr)) eqn:Ee.
      * remember (send_force op st (c_this c) to fund) as st1 eqn:Est1.
        assert (S1a : habs H1 (h_values hs st1) = st1).
        { subst st1 st. rewrite <- S1 at 1. rewrite habs_send. rewrite S1. reflexivity. }
        assert (Main : Post H1 hs (holds ((false, cA) :: tr))
                  (continue (h_values hs st1) (m_after_call ob 1 (Some (false, false, [])) rsz [])
                     (Some (false, false, [])) ((false, cA) :: tr) (lg ++ [LFrame msg; LEnd (FOk [])]) H1)
                  (flat_map (KP kp lg)
                     (map (addlog [LFrame msg; LEnd (FOk [])])
                        (contp st1 (m_after_call ob 1 (Some (false, false, [])) rsz []) (Some (false, false, [])))))).
        { apply (Post_rebase H1 hs H1 (h_values hs st1)); [| lia | auto | intros x Hx; left; exact Hx].
          rewrite KP_addlog.
          pose proof (Hcont (h_values hs st1) (m_after_call ob 1 (Some (false, false, [])) rsz [])
                        (Some (false, false, [])) ((false, cA) :: tr) (lg ++ [LFrame msg; LEnd (FOk [])]) H1) as P.
          rewrite S1a in P. apply P; clear P.
          - destruct W1. constructor; assumption.
          - exact R1.
          - exact K1. }
        destruct cA.
        -- exact Main.
        -- eapply Post_false_irrel. exact Main.
      * apply Post_skip. apply explore_false in Ee. exact Ee.
  - (* the insufficient-funds branch: a copy taken before the main path ran, explored after it *)
    intros hsF H2 _ WF SF FF L2 A2.
    destruct (later_facts H H2 hs hsF Rd k kp W R K FF L2 A2) as (RF & KF).
    rewrite <- (holds_cons true cB tr). rewrite <- Est in SF. rewrite <- SF.
    assert (Main : Post H2 hsF (holds ((true, cB) :: tr))
              (continue hsF (m_after_call ob 0 (Some (false, true, [])) rsz []) (Some (false, true, [])) ((true, cB) :: tr) lg H2)
              (flat_map (KP kp lg) (contp (habs H2 hsF) (m_after_call ob 0 (Some (false, true, [])) rsz []) (Some (false, true, [])))))
      by (apply Hcont; assumption).
    destruct cB; [exact Main | eapply Post_false_irrel; exact Main].
  - intros E. rewrite E. destruct (in_code st to); reflexivity.
  - intros E. rewrite E. reflexivity.
Qed.
(* STAGE5 *)
