(* Soundness and coverage of the branch points of Model/BranchPoints.v, for every valuation,
   every account list / destination list and every oracle that is only assumed not to lie when
   it answers `unsat` (it may answer `unknown` at will). *)
From Coq Require Import ZArith List Bool Lia.
From HV Require Import Gen.GenBranch Gen.GenAssertBranch Model.BranchPoints.
Import ListNotations.
Open Scope Z_scope.

Section Proofs.
Variable V : Type.
Variable chk : cnd V -> Z.
Variable path : V -> Prop.               (* the valuations satisfying the current path *)

(* the only assumption on the solver: an `unsat` answer (0) is truthful *)
Definition oracle_sound : Prop := forall c, chk c = 0 -> forall v, path v -> c v = false.

Lemma keep_of_holds : forall (keep : Z -> bool) c v,
  (forall r, keep r = false -> r = 0) -> oracle_sound -> path v -> c v = true -> keep (chk c) = true.
Proof.
  intros keep c v Hk Hor Hp Hc. destruct (keep (chk c)) eqn:E; [reflexivity|].
  apply Hk in E. rewrite (Hor c E v Hp) in Hc. discriminate.
Qed.

Lemma alias_keep_drops_only_unsat : forall r, alias_keep r = false -> r = 0.
Proof. intros r H. unfold alias_keep in H. apply negb_false_iff in H. apply Z.eqb_eq in H. exact H. Qed.
Lemma alias_empty_keep_drops_only_unsat : forall r, alias_empty_keep r = false -> r = 0.
Proof. intros r H. unfold alias_empty_keep in H. apply negb_false_iff in H. apply Z.eqb_eq in H. exact H. Qed.
Lemma funds_fail_keep_drops_only_unsat : forall r, funds_fail_keep r = false -> r = 0.
Proof. intros r H. unfold funds_fail_keep in H. apply negb_false_iff in H. apply Z.eqb_eq in H. exact H. Qed.
Lemma jump_keep_drops_only_unsat : forall r, jump_keep r = false -> r = 0.
Proof. intros r H. unfold jump_keep in H. apply negb_false_iff in H. apply Z.eqb_eq in H. exact H. Qed.

(* ------------------------------------------------------------------ aliases *)

Lemma is_empty_spec : forall (tgt : V -> Z) accts v, is_empty V tgt accts v = true <-> ~ In (tgt v) accts.
Proof.
  intros tgt accts v. unfold is_empty. rewrite forallb_forall. split.
  - intros H Hin. specialize (H _ Hin). rewrite Z.eqb_refl in H. discriminate.
  - intros H a Ha. destruct (tgt v =? a) eqn:E; [|reflexivity]. apply Z.eqb_eq in E. subst a. contradiction.
Qed.

(* C01 side: the condition of an alternative pins the target to the alias it names *)
Lemma alias_sound : forall accts test tgt o c v,
  In (o, c) (alias_alternatives V chk accts test tgt) -> c v = true ->
  match o with
  | Some a => tgt v = a /\ In a accts
  | None => ~ In (tgt v) accts
  end.
Proof.
  intros accts test tgt o c v Hin Hc. unfold alias_alternatives in Hin. apply in_app_or in Hin.
  destruct Hin as [Hin | Hin].
  - apply in_map_iff in Hin. destruct Hin as [a [Heq Ha]]. inversion Heq; subst o c. clear Heq.
    apply filter_In in Ha. destruct Ha as [Ha _]. apply filter_In in Ha. destruct Ha as [Ha _].
    unfold is_alias in Hc. apply Z.eqb_eq in Hc. split; assumption.
  - destruct (alias_empty_keep (chk (is_empty V tgt accts))); [|destruct Hin].
    destruct Hin as [Heq | []]. inversion Heq; subst o c. apply is_empty_spec. exact Hc.
Qed.

(* C02 side: every valuation of the path whose target is not the test contract is covered *)
Lemma alias_complete : forall accts test tgt v,
  oracle_sound -> path v -> tgt v <> test ->
  exists o c, In (o, c) (alias_alternatives V chk accts test tgt) /\ c v = true.
Proof.
  intros accts test tgt v Hor Hp Hne. unfold alias_alternatives.
  destruct (in_dec Z.eq_dec (tgt v) accts) as [Hin | Hnin].
  - exists (Some (tgt v)), (is_alias V tgt (tgt v)). split.
    + apply in_or_app. left. apply in_map_iff. exists (tgt v). split; [reflexivity|].
      apply filter_In. split.
      * apply filter_In. split; [exact Hin|].
        destruct (tgt v =? test) eqn:E; [apply Z.eqb_eq in E; contradiction|].
        rewrite andb_false_r. reflexivity.
      * apply (keep_of_holds alias_keep _ v alias_keep_drops_only_unsat Hor Hp).
        unfold is_alias. apply Z.eqb_refl.
    + unfold is_alias. apply Z.eqb_refl.
  - exists None, (is_empty V tgt accts).
    assert (He : is_empty V tgt accts v = true) by (apply is_empty_spec; exact Hnin).
    split; [|exact He].
    apply in_or_app. right.
    rewrite (keep_of_holds alias_empty_keep _ v alias_empty_keep_drops_only_unsat Hor Hp He).
    left. reflexivity.
Qed.

(* the state is dropped (InfeasiblePath) only if every valuation of the path targets the test contract *)
Lemma alias_dropped_only_if_infeasible : forall accts test tgt,
  oracle_sound -> alias_alternatives V chk accts test tgt = [] -> forall v, path v -> tgt v = test.
Proof.
  intros accts test tgt Hor Hnil v Hp. destruct (Z.eq_dec (tgt v) test) as [E | E]; [exact E|].
  destruct (alias_complete accts test tgt v Hor Hp E) as [o [c [Hin _]]]. rewrite Hnil in Hin. destruct Hin.
Qed.

(* ------------------------------------------------------------------ insufficient funds *)

Lemma funds_sound : forall bal val fails c v,
  In (fails, c) (funds_alternatives V chk bal val) -> c v = true ->
  if fails then bal v < val v else val v <= bal v.
Proof.
  intros bal val fails c v Hin Hc. unfold funds_alternatives in Hin. apply in_app_or in Hin.
  destruct Hin as [Hin | Hin].
  - destruct (funds_fail_keep (chk (fun v0 => bal v0 <? val v0))); [|destruct Hin].
    destruct Hin as [Heq | []]. inversion Heq; subst fails c. apply Z.ltb_lt. exact Hc.
  - destruct Hin as [Heq | []]. inversion Heq; subst fails c. apply Z.leb_le. exact Hc.
Qed.

Lemma funds_complete : forall bal val v,
  oracle_sound -> path v ->
  exists fails c, In (fails, c) (funds_alternatives V chk bal val) /\ c v = true.
Proof.
  intros bal val v Hor Hp. unfold funds_alternatives.
  destruct (bal v <? val v) eqn:E.
  - exists true, (fun v0 => bal v0 <? val v0). split; [|exact E].
    apply in_or_app. left.
    rewrite (keep_of_holds funds_fail_keep (fun v0 => bal v0 <? val v0) v funds_fail_keep_drops_only_unsat Hor Hp E).
    left. reflexivity.
  - exists false, (fun v0 => val v0 <=? bal v0). split.
    + apply in_or_app. right. left. reflexivity.
    + apply Z.ltb_ge in E. apply Z.leb_le. exact E.
Qed.

(* at the call sites: because the regenerated funds_payer_same is true, the fork and the debit concern one account,
   and every valuation is covered whatever the other account's balance is *)
Lemma funds_site_complete : forall balc bald val v,
  oracle_sound -> path v ->
  exists fails c, In (fails, c) (funds_site_alternatives V chk balc bald val) /\ c v = true.
Proof.
  intros balc bald val v Hor Hp.
  assert (Hsame : funds_payer_same = true) by reflexivity.
  unfold funds_site_alternatives. rewrite Hsame.
  exact (funds_complete balc val v Hor Hp).
Qed.

(* why the flag matters: a fork on one account and a debit of another leaves an input uncovered *)
Lemma funds_two_accounts_uncovered :
  forall balc bald val v, val v <= balc v -> bald v < val v ->
  forall fails c, In (fails, c) ((if funds_fail_keep (chk (fun v => balc v <? val v)) then [(true, fun v => balc v <? val v)] else []) ++
                               [(false, fun v => val v <=? bald v)]) -> c v = false.
Proof.
  intros balc bald val v H1 H2 fails c Hin. apply in_app_or in Hin. destruct Hin as [Hin|Hin].
  - destruct (funds_fail_keep _); [|destruct Hin]. destruct Hin as [Heq|[]]. inversion Heq; subst.
    apply Z.ltb_ge. exact H1.
  - destruct Hin as [Heq|[]]. inversion Heq; subst. apply Z.leb_gt. exact H2.
Qed.

(* exactly one of the two alternatives holds under a valuation: never both outcomes for one input *)
Lemma funds_exclusive : forall bal val c1 c2 v,
  In (true, c1) (funds_alternatives V chk bal val) -> In (false, c2) (funds_alternatives V chk bal val) ->
  c1 v = true -> c2 v = true -> False.
Proof.
  intros bal val c1 c2 v H1 H2 Hc1 Hc2.
  pose proof (funds_sound _ _ _ _ _ H1 Hc1) as A. pose proof (funds_sound _ _ _ _ _ H2 Hc2) as B.
  cbn in A, B. lia.
Qed.

(* ------------------------------------------------------------------ symbolic JUMP *)

Lemma jump_sound : forall valid dst l t c v,
  jump_alternatives V chk valid dst = Some l -> In (t, c) l -> c v = true -> dst v = t /\ In t valid.
Proof.
  intros valid dst l t c v H Hin Hc. unfold jump_alternatives in H.
  destruct (filter (fun t0 => jump_keep (chk (fun v0 => dst v0 =? t0))) valid) as [|k ks] eqn:E; [discriminate|].
  assert (Hl : l = map (fun t0 => (t0, fun v0 : V => dst v0 =? t0)) (k :: ks)) by (injection H; auto).
  subst l. clear H. apply in_map_iff in Hin. destruct Hin as [t' [Heq Ht']].
  inversion Heq; subst t c. rewrite <- E in Ht'. apply filter_In in Ht'. destruct Ht' as [Hv _].
  apply Z.eqb_eq in Hc. split; assumption.
Qed.

(* the whole state halts with an invalid destination only if no valuation of the path jumps to a valid one *)
Lemma jump_halt_sound : forall valid dst v,
  oracle_sound -> jump_alternatives V chk valid dst = None -> path v -> ~ In (dst v) valid.
Proof.
  intros valid dst v Hor H Hp Hin. unfold jump_alternatives in H.
  destruct (filter (fun t0 => jump_keep (chk (fun v0 => dst v0 =? t0))) valid) as [|k ks] eqn:E; [|discriminate].
  assert (Hk : In (dst v) (filter (fun t0 => jump_keep (chk (fun v0 => dst v0 =? t0))) valid)).
  { apply filter_In. split; [exact Hin|].
    apply (keep_of_holds jump_keep (fun v0 => dst v0 =? dst v) v jump_keep_drops_only_unsat Hor Hp). apply Z.eqb_refl. }
  rewrite E in Hk. destruct Hk.
Qed.

(* coverage of the valuations that jump to a valid destination *)
Lemma jump_complete_valid : forall valid dst l v,
  oracle_sound -> path v -> In (dst v) valid -> jump_alternatives V chk valid dst = Some l ->
  exists t c, In (t, c) l /\ c v = true.
Proof.
  intros valid dst l v Hor Hp Hin H. unfold jump_alternatives in H.
  assert (Hk : In (dst v) (filter (fun t0 => jump_keep (chk (fun v0 => dst v0 =? t0))) valid)).
  { apply filter_In. split; [exact Hin|].
    apply (keep_of_holds jump_keep (fun v0 => dst v0 =? dst v) v jump_keep_drops_only_unsat Hor Hp). apply Z.eqb_refl. }
  destruct (filter (fun t0 => jump_keep (chk (fun v0 => dst v0 =? t0))) valid) as [|k ks] eqn:E; [discriminate|].
  assert (Hl : l = map (fun t0 => (t0, fun v0 : V => dst v0 =? t0)) (k :: ks)) by (injection H; auto).
  subst l. exists (dst v), (fun v0 => dst v0 =? dst v). split.
  - apply in_map_iff. exists (dst v). split; [reflexivity|exact Hk].
  - apply Z.eqb_refl.
Qed.

Lemma jump_invalid_keep_drops_only_unsat : forall r, jump_invalid_keep r = false -> r = 0.
Proof. intros r H. unfold jump_invalid_keep in H. apply negb_false_iff in H. apply Z.eqb_eq in H. exact H. Qed.

Lemma jump_invalid_cond_spec : forall valid (dst : V -> Z) v, jump_invalid_cond V valid dst v = true <-> ~ In (dst v) valid.
Proof. intros valid dst v. exact (is_empty_spec dst valid v). Qed.

(* the halting branch only describes inputs whose destination is invalid *)
Lemma jump_invalid_sound : forall valid dst c v,
  jump_invalid_alternative V chk valid dst = Some c -> c v = true -> ~ In (dst v) valid.
Proof.
  intros valid dst c v H Hc. unfold jump_invalid_alternative in H.
  destruct (jump_alternatives V chk valid dst); [|discriminate].
  destruct (jump_invalid_keep _); [|discriminate]. injection H as <-.
  apply jump_invalid_cond_spec. exact Hc.
Qed.

(* every valuation of the path is covered: by the branch of its (valid) destination or by the halting branch *)
Lemma jump_complete : forall valid dst l v,
  oracle_sound -> path v -> jump_alternatives V chk valid dst = Some l ->
  (exists t c, In (t, c) l /\ c v = true) \/
  (exists c, jump_invalid_alternative V chk valid dst = Some c /\ c v = true).
Proof.
  intros valid dst l v Hor Hp H.
  destruct (in_dec Z.eq_dec (dst v) valid) as [Hin|Hnin].
  - left. exact (jump_complete_valid valid dst l v Hor Hp Hin H).
  - right. exists (jump_invalid_cond V valid dst).
    assert (Hc : jump_invalid_cond V valid dst v = true) by (apply jump_invalid_cond_spec; exact Hnin).
    split; [|exact Hc]. unfold jump_invalid_alternative. rewrite H.
    rewrite (keep_of_holds jump_invalid_keep (jump_invalid_cond V valid dst) v jump_invalid_keep_drops_only_unsat Hor Hp Hc).
    reflexivity.
Qed.

(* ------------------------------------------------------------------ vm.assert* / vm.assume *)

(* every input on which the asserted relation is false is covered by an alternative that ENDS AS A
   FAILED ASSERTION: a counterexample is never lost at this point, whatever the solver answers *)
Lemma assert_failure_reported : forall c v,
  oracle_sound -> path v -> c v = false ->
  exists k, In (true, k) (assert_alternatives V chk c) /\ k v = true.
Proof.
  intros c v Hor Hp Hc. unfold assert_alternatives.
  destruct (assert_all_fail (chk c)) eqn:Ea.
  - exists (fun _ => true). split; [left; reflexivity | reflexivity].
  - exists (fun v0 => negb (c v0)). split.
    + apply in_or_app. left.
      assert (Hk : assert_fail_keep (chk (fun v0 => negb (c v0))) = true).
      { destruct (assert_fail_keep (chk (fun v0 => negb (c v0)))) eqn:E; [reflexivity|].
        unfold assert_fail_keep in E. apply negb_false_iff in E. apply Z.eqb_eq in E.
        pose proof (Hor _ E v Hp) as H. cbn in H. rewrite Hc in H. discriminate. }
      rewrite Hk. left. reflexivity.
    + cbn. rewrite Hc. reflexivity.
Qed.

(* a state that ends as a failed assertion only describes inputs on which the relation is false *)
Lemma assert_failure_sound : forall c k v,
  oracle_sound -> path v -> In (true, k) (assert_alternatives V chk c) -> k v = true -> c v = false.
Proof.
  intros c k v Hor Hp Hin Hk. unfold assert_alternatives in Hin.
  destruct (assert_all_fail (chk c)) eqn:Ea.
  - unfold assert_all_fail in Ea. apply Z.eqb_eq in Ea. exact (Hor _ Ea v Hp).
  - apply in_app_or in Hin. destruct Hin as [Hin | Hin].
    + destruct (assert_fail_keep (chk (fun v0 => negb (c v0)))); [|destruct Hin].
      destruct Hin as [Heq | []]. inversion Heq; subst k. cbn in Hk. apply negb_true_iff in Hk. exact Hk.
    + destruct Hin as [Heq | []]. discriminate.
Qed.

(* nothing is dropped: every input is covered by some alternative *)
Lemma assert_complete : forall c v, exists f k, In (f, k) (assert_alternatives V chk c) /\ k v = true.
Proof.
  intros c v. unfold assert_alternatives. destruct (assert_all_fail (chk c)).
  - exists true, (fun _ => true). split; [left; reflexivity | reflexivity].
  - exists false, (fun _ => true). split; [apply in_or_app; right; left; reflexivity | reflexivity].
Qed.

Lemma assume_complete : forall c v, c v = true -> exists k, In k (assume_alternatives V c) /\ k v = true.
Proof. intros c v H. exists c. split; [left; reflexivity | exact H]. Qed.

End Proofs.

(* ------------------------------------------------------------------ vm.addr *)

(* the distinctness constraints exclude no input: whatever the key terms evaluate to (equal keys included),
   they all hold when f_vmaddr is interpreted by an injective function and the remembered addresses are
   the images of the remembered keys *)
Lemma vmaddr_constraints_admit_every_input :
  forall (V : Type) (f : Z -> Z) (known : list ((V -> Z) * (V -> Z))) (k : V -> Z) (v : V),
    (forall x y, f x = f y -> x = y) ->
    (forall ka, In ka known -> snd ka v = f (fst ka v)) ->
    forall c, In c (vmaddr_constraints V f known k) -> c v = true.
Proof.
  intros V f known k v Hinj Hknown c Hin. unfold vmaddr_constraints in Hin.
  apply in_map_iff in Hin. destruct Hin as [ka [Hc Hka]]. subst c.
  assert (Hg : vmaddr_distinctness_guarded = true) by reflexivity. rewrite Hg.
  rewrite (Hknown ka Hka).
  destruct (k v =? fst ka v) eqn:E; [reflexivity|]. cbn [orb].
  apply negb_true_iff. apply Z.eqb_neq. intros Hf. apply Hinj in Hf. apply Z.eqb_neq in E. contradiction.
Qed.

(* ------------------------------------------------------------------ what does NOT hold *)

(* a valuation whose target IS the test contract is covered by no alternative (the candidates skip
   FOUNDRY_TEST, the empty-account alternative excludes every account including it) *)
Lemma alias_test_contract_dropped :
  exists (accts : list Z) (test : Z) (tgt : bool -> Z) (chk : cnd bool -> Z) (v : bool),
    (forall c, chk c = 0 -> forall v', c v' = false) /\
    tgt v = test /\ In test accts /\
    forall o c, In (o, c) (alias_alternatives bool chk accts test tgt) -> c v = false.
Proof.
  exists [7; 9], 7, (fun b : bool => if b then 7 else 9), (fun _ => 2), true.
  split; [intros c H; discriminate|]. split; [reflexivity|]. split; [left; reflexivity|].
  intros o c Hin. vm_compute in Hin.
  destruct Hin as [H | [H | []]]; inversion H; subst; reflexivity.
Qed.

(* regression example for the former finding C02-symbolic-jump-invalid-destination (repaired in /repo): one valid
   destination is feasible and the valuation jumps elsewhere -- no valid branch covers it, the halting branch does *)
Lemma jump_invalid_destination_covered :
  exists (valid : list Z) (dst : bool -> Z) (chk : cnd bool -> Z) (v : bool) l c,
    (forall c, chk c = 0 -> forall v', c v' = false) /\
    ~ In (dst v) valid /\ jump_alternatives bool chk valid dst = Some l /\
    (forall t c, In (t, c) l -> c v = false) /\
    jump_invalid_alternative bool chk valid dst = Some c /\ c v = true.
Proof.
  exists [3], (fun b : bool => if b then 3 else 4), (fun _ => 2), false, [(3, fun v0 : bool => (if v0 then 3 else 4) =? 3)],
         (jump_invalid_cond bool [3] (fun b : bool => if b then 3 else 4)).
  split; [intros c H; discriminate|]. split; [intros [H | []]; discriminate|]. split; [reflexivity|].
  split; [intros t c [H | []]; inversion H; subst; reflexivity|]. split; reflexivity.
Qed.
